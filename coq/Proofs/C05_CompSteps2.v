(* Proofs/C05_CompSteps2.v - the component invariant CInv for the mutators that Proofs/C05_CompSteps.v leaves
   out: path_segments_mut sessions (any sequence of clear / pop / pop_if_empty / push / extend) and the quirks
   setters set_pathname, set_port, set_hostname and set_host (the latter when the value carries no port);
   and set_host(Some _) / the quirks host setters with the hypothesis on the host functions restricted to
   the hosts the parser returns (HostWf of C03) instead of every value of the model type `host`. *)
From RU Require Import Base.Prelude Base.Utf8 Base.Utf8Facts Model.AsciiSet Gen.Tables Model.PercentEncoding
  Model.HostT Model.UrlRecord Model.Parser Model.Setters Model.WF
  Proofs.ListN Proofs.C03_WF Proofs.C05_Enc Proofs.C05_Parser Proofs.C05_Setters Proofs.C05_History
  Proofs.C05_Frag Proofs.C05_Query Proofs.C05_Comp Proofs.C05_PathClean Proofs.C05_CompSteps
  Proofs.C06_List Proofs.C06_WFI Proofs.C06_Tail Proofs.C06_Steps Proofs.C06_Suffix
  Proofs.C06_Front Proofs.C06_Atomic Proofs.C06_FragQuery Proofs.C06_Port Proofs.C06_Cred Proofs.C06_Scheme
  Proofs.C06_HostNone Proofs.C06_Host Proofs.C06_PathParser Proofs.C06_Path Proofs.C06_Segments Proofs.C06_PathNoAuth
  Proofs.C06_Main Proofs.C06_PathMore Proofs.C03_ReachParts Proofs.C05_ParseUI.

(* ================= 1. path_segments_mut sessions ================= *)
Section SessPQ.
Variable dbg : bool.

Lemma pinvq_extend_loop ps s0 (Hps : nlen s0 = ps) st segs : forall x s',
  psm_extend_loop dbg st ps x segs = Some s' -> PInvQ ps s0 x -> PInvQ ps s0 s'.
Proof.
  induction segs as [|seg rest IH]; intros x s' H I; cbn [psm_extend_loop] in H.
  - inversion H; subst. exact I.
  - destruct (psm_skips seg); [eapply IH; eassumption|].
    set (s1 := if (ps + 1 <? nlen x) || (nlen x =? ps) then x ++ [47] else x) in *.
    assert (PInvQ ps s0 s1) as I1.
    { subst s1. destruct ((ps + 1 <? nlen x) || (nlen x =? ps)); [|exact I]. apply pinvq_app; [exact Hps | exact I | reflexivity]. }
    destruct (parse_path dbg CPathSegmentSetter st true ps s1 seg) as [[[s2 hh] rem]| |] eqn:Epp;
      cbn [unpres bindo] in H; try discriminate.
    eapply IH; [exact H|]. exact (pinvq_parse_path dbg ps s0 Hps _ _ _ _ _ _ _ _ Epp I1).
Qed.

(* a session on a record whose path consists of bytes outside D_PATH writes such a path; no condition on the
   segments (any numbers) *)
Lemma session_pq u ops u' : wf_b u = true ->
  byte_eqb (ser u) (scheme_end u + 1) 47 = true ->
  forallb pq (piece u (path_start u) (path_end u)) = true ->
  path_segments_session dbg u ops = Some (u', SOk) ->
  exists P, u' = with_path u P /\ forallb pq P = true.
Proof.
  intros W Hsl Hpq H. unfold piece in Hpq.
  destruct (wf_ps_le_path_end u W) as [B5 B6].
  set (pe := path_end u) in *. set (ps := path_start u) in *.
  set (s0 := nfirstn ps (ser u)).
  assert (nlen s0 = ps) as Ls0 by (apply nlen_nfirstn; lia).
  set (x0 := nfirstn pe (ser u)).
  assert (nlen x0 = pe) as Lx0 by (apply nlen_nfirstn; exact B6).
  assert (PInvQ ps s0 x0) as I0.
  { split.
    - unfold x0, s0. apply nfirstn_nfirstn. exact B5.
    - unfold x0. replace pe with (ps + (pe - ps)) by lia. rewrite nskipn_nfirstn_comm. exact Hpq. }
  unfold path_segments_session, path_segments_mut in H.
  rewrite (cannot_be_a_base_eval u W) in H. cbn [bindo] in H.
  rewrite Hsl in H. cbn [negb] in H.
  unfold psm_new in H. rewrite (take_after_path_eval u W) in H. cbn [bindo] in H. fold pe x0 in H.
  destruct (u_scheme_type (set_ser u x0)) as [st|] eqn:Est; cbn [bindo] in H; [|discriminate].
  match type of H with bindo (bindo (bindo ?c _) _) _ = _ => destruct c as [[]|]; cbn [bindo] in H; [|discriminate] end.
  cbn [ser set_ser path_start] in H. fold ps in H. rewrite Lx0 in H.
  set (p0 := mkPsm (set_ser u x0) (ps + 1) (nskipn pe (ser u)) pe) in H.
  destruct (psm_run dbg p0 ops) as [p1|] eqn:Erun; cbn [bindo] in H; [|discriminate].
  assert (forall ops p q, psm_run dbg p ops = Some q ->
            psm_url p = set_ser u (ser (psm_url p)) -> after_first_slash p = ps + 1 ->
            psm_after_path p = nskipn pe (ser u) -> psm_old_pos p = pe -> PInvQ ps s0 (ser (psm_url p)) ->
            psm_url q = set_ser u (ser (psm_url q)) /\ psm_after_path q = nskipn pe (ser u) /\ psm_old_pos q = pe
            /\ PInvQ ps s0 (ser (psm_url q))) as Hrun.
  { clear - Ls0. intros ops0. induction ops0 as [|o rest IH]; intros p q Hr E1 E2 E3 E4 I.
    - cbn in Hr. inversion Hr; subst. tauto.
    - cbn [psm_run] in Hr. destruct (psm_apply dbg p o) as [p'|] eqn:Eo; cbn [bindo] in Hr; [|discriminate].
      assert (psm_url p' = set_ser u (ser (psm_url p')) /\ after_first_slash p' = ps + 1
              /\ psm_after_path p' = nskipn pe (ser u) /\ psm_old_pos p' = pe /\ PInvQ ps s0 (ser (psm_url p'))) as (F1 & F2 & F3 & F4 & F5).
      { assert (forall x, PInvQ ps s0 x ->
                  let r := psm_with p x in
                  psm_url r = set_ser u (ser (psm_url r)) /\ after_first_slash r = ps + 1
                  /\ psm_after_path r = nskipn pe (ser u) /\ psm_old_pos r = pe /\ PInvQ ps s0 (ser (psm_url r))) as Hw.
        { intros x Ix. unfold psm_with. cbn [psm_url after_first_slash psm_after_path psm_old_pos ser set_ser].
          splits; try assumption. rewrite E1. reflexivity. }
        destruct o; cbn [psm_apply] in Eo.
        - inversion Eo; subst p'. unfold psm_clear. rewrite E2. apply Hw. unfold truncate.
          apply pinvq_trunc; [exact Ls0 | exact I | lia].
        - inversion Eo; subst p'. unfold psm_pop_if_empty. rewrite E2.
          destruct (nlen (ser (psm_url p)) <=? ps + 1) eqn:El; [tauto|].
          destruct (ends_with_byte 47 (nskipn (ps + 1) (ser (psm_url p)))); [|tauto].
          apply Hw. apply pinvq_trunc; [exact Ls0 | exact I | lia].
        - inversion Eo; subst p'. unfold psm_pop. rewrite E2.
          destruct (nlen (ser (psm_url p)) <=? ps + 1) eqn:El; [tauto|].
          apply Hw. unfold truncate. apply pinvq_trunc; [exact Ls0 | exact I | lia].
        - unfold psm_push, psm_extend in Eo.
          destruct (u_scheme_type (psm_url p)) as [st0|]; cbn [bindo] in Eo; [|discriminate].
          destruct (psm_extend_loop dbg st0 (path_start (psm_url p)) (ser (psm_url p)) [s]) as [s'|] eqn:El;
            cbn [bindo] in Eo; [|discriminate].
          inversion Eo; subst p'. apply Hw. rewrite E1 in El. cbn [path_start set_ser] in El. fold ps in El.
          exact (pinvq_extend_loop ps s0 Ls0 _ _ _ _ El I).
        - unfold psm_extend in Eo.
          destruct (u_scheme_type (psm_url p)) as [st0|]; cbn [bindo] in Eo; [|discriminate].
          destruct (psm_extend_loop dbg st0 (path_start (psm_url p)) (ser (psm_url p)) ss) as [s'|] eqn:El;
            cbn [bindo] in Eo; [|discriminate].
          inversion Eo; subst p'. apply Hw. rewrite E1 in El. cbn [path_start set_ser] in El. fold ps in El.
          exact (pinvq_extend_loop ps s0 Ls0 _ _ _ _ El I). }
      eapply IH; eassumption. }
  destruct (Hrun ops p0 p1 Erun eq_refl eq_refl eq_refl eq_refl I0) as (R1 & R3 & R4 & (I1 & I2)).
  destruct (psm_close dbg p1) as [uf|] eqn:Ecl; cbn [bindo] in H; [|discriminate].
  inversion H; subst uf. clear H.
  unfold psm_close, restore_after_path in Ecl. rewrite R3, R4 in Ecl. rewrite R1 in Ecl.
  cbn [ser set_ser query_start fragment_start] in Ecl.
  set (x1 := ser (psm_url p1)) in *.
  assert (match query_start u with Some i => pe <= i | None => True end) as Gq.
  { unfold pe, path_end. destruct (query_start u); [lia | exact I]. }
  assert (match fragment_start u with Some i => pe <= i | None => True end) as Gf.
  { pose proof (wf_qf_facts u W) as QF. pose proof (qf_qf QF) as Q3. pose proof (qf_f QF) as Q2. unfold pe, path_end.
    destruct (query_start u), (fragment_start u); try exact I; lia. }
  rewrite !adjust_opt_ok in Ecl by assumption. cbn [bindo] in Ecl.
  set (P := nskipn ps x1).
  assert (x1 = s0 ++ P) as Ex1 by (unfold P; rewrite <- I1; symmetry; apply nfirstn_nskipn).
  exists P. split; [|exact I2].
  inversion Ecl. unfold with_path. fold pe ps. rewrite Ex1. rewrite nlen_app, Ls0. rewrite <- app_assoc. reflexivity.
Qed.

Lemma with_path_inj u P P' : with_path u P = with_path u P' -> P = P'.
Proof.
  intros E. apply (f_equal ser) in E. unfold with_path in E. cbn [ser] in E.
  apply app_inv_head in E. apply app_inv_tail in E. exact E.
Qed.

(* the path of a record that is not cannot-be-a-base, from comp_ok *)
Lemma comp_ok_path_pq u : wf_b u = true -> comp_ok dbg u -> byte_eqb (ser u) (scheme_end u + 1) 47 = true ->
  forallb pq (piece u (path_start u) (path_end u)) = true.
Proof.
  intros W K Hsl. assert (cannot_be_a_base u = Some false) as C by (rewrite (cannot_be_a_base_eval u W), Hsl; reflexivity).
  destruct K as (_ & _ & Kp & _).
  destruct (hier_path_head u _ W C (path_eval u W)) as [E|(r & E)].
  - cbn [pidx] in E. fold (path_end u) in E. unfold path_end in *. rewrite E. reflexivity.
  - apply free_pq. apply (Kp _ r); [rewrite (path_eval u W); reflexivity | exact E].
Qed.

Theorem session_cinv u ops u' st : CInv dbg u -> Forall psm_op_usv ops -> path_gate u u' ->
  path_segments_session dbg u ops = Some (u', st) -> CInv dbg u'.
Proof.
  intros [[W HT] K] Hops G H.
  destruct st; [|rewrite (path_segments_session_atomic dbg u ops u' _ H) by discriminate; split; [split|]; assumption ..].
  unfold path_gate in G.
  assert (forall P, u' = with_path u P -> byte_eqb (ser u) (scheme_end u + 1) 47 = true -> forallb pq P = true) as HPQ.
  { intros P EP Hsl. destruct (session_pq u ops u' W Hsl (comp_ok_path_pq u W K Hsl) H) as (P' & EP' & HP').
    rewrite EP in EP'. apply with_path_inj in EP'. subst P'. exact HP'. }
  destruct (path_layouts u W) as [Ha|[NA|[Ho|M]]].
  - destruct (auth_path_head u W Ha) as [Hsl Hhead].
    destruct (path_segments_session_eval dbg u ops u' W Hsl Hhead Hops H) as (P & EP & HP1 & HP2).
    pose proof (HPQ P EP Hsl) as Hq. subst u'.
    apply (path_result_cinv dbg u _ P K); [|intros r _; apply pq_free'; exact Hq].
    unfold path_result. splits.
    + apply wp_wf; assumption.
    + apply wp_host_text_ok; assumption.
    + apply wp_front; assumption.
    + apply wp_query; assumption.
    + apply wp_fragment; assumption.
    + apply wp_path; assumption.
  - pose proof NA as (Ha & Hsl & Hnm). rewrite Ha in G.
    assert (is_opaque_b u = false) as Ho by (unfold is_opaque_b; rewrite Hsl; reflexivity). rewrite Ho in G.
    replace (path_start u =? scheme_end u + 3) with false in G by lia.
    assert (path_end u = path_start u \/ byte_eqb (ser u) (path_start u) 47 = true) as Hhead
      by (right; rewrite Hnm; exact Hsl).
    destruct (path_segments_session_eval dbg u ops u' W Hsl Hhead Hops H) as (P & EP & HP).
    pose proof (HPQ P EP Hsl) as Hq. subst u'.
    apply (path_result_cinv dbg u _ P K); [|intros r _; apply pq_free'; exact Hq].
    exact (proj1 (plain_result dbg u P W Ha Hnm (proj1 HP)) G).
  - (* opaque path: the session is refused *)
    exfalso. unfold path_segments_session, path_segments_mut in H. rewrite (cannot_be_a_base_eval u W) in H.
    unfold is_opaque_b in Ho. rewrite Ho in H. cbn [bindo] in H. discriminate.
  - pose proof M as [Ha Em]. destruct (marker_heads u W M) as (Hsl & Hhd & _). rewrite Ha in G.
    assert (is_opaque_b u = false) as Ho by (unfold is_opaque_b; rewrite Hsl; reflexivity). rewrite Ho in G.
    replace (path_start u =? scheme_end u + 3) with true in G by lia.
    destruct (path_segments_session_eval dbg u ops u' W Hsl (or_intror Hhd) Hops H) as (P & EP & HP).
    pose proof (HPQ P EP Hsl) as Hq. subst u'.
    apply (path_result_cinv dbg u _ P K); [|intros r _; apply pq_free'; exact Hq].
    exact (proj1 (marker_result dbg u P W Ha Em (proj1 HP)) G).
Qed.

(* ================= 2. quirks set_pathname ================= *)
Theorem q_set_pathname_cinv u v u' : CInv dbg u -> usv_list v -> auth_end_ok u -> path_gate u u' ->
  q_set_pathname dbg u v = Some u' -> CInv dbg u'.
Proof.
  intros K Hv Hx G H. pose proof K as [[W _] _]. unfold q_set_pathname in H.
  rewrite (cannot_be_a_base_eval u W) in H. cbn [bindo] in H.
  destruct (byte_eqb (ser u) (scheme_end u + 1) 47) eqn:Hsl; cbn [negb] in H; [|inversion H; subst; exact K].
  assert (is_opaque_b u = true -> forall p, forallb no_qh p = true) as Hop.
  { intros Ho. unfold is_opaque_b in Ho. rewrite Hsl in Ho. discriminate. }
  destruct (u_scheme_type u) as [st|]; cbn [bindo] in H; [|discriminate].
  assert (usv_list (47 :: v)) as Hv' by (constructor; [unfold is_usv; lia | exact Hv]).
  destruct (match v with 47 :: _ => true | _ => false end || st_is_special st && match v with 92 :: _ => true | _ => false end).
  - exact (set_path_cinv dbg u v u' K Hv Hx (fun Ho => Hop Ho v) G H).
  - destruct (st_is_special st || negb match v with [] => true | _ => false end || negb (has_host u)).
    + exact (set_path_cinv dbg u (47 :: v) u' K Hv' Hx (fun Ho => Hop Ho _) G H).
    + exact (set_path_cinv dbg u v u' K Hv Hx (fun Ho => Hop Ho v) G H).
Qed.

(* ================= 3. quirks set_port: it IS Url::set_port with the parsed number ================= *)
Lemma q_set_port_as_set_port u v u' st : q_set_port dbg u v = Some (u', st) ->
  (u' = u /\ st <> SOk) \/ exists p, port_arg_ok p /\ set_port dbg u p = Some (u', st).
Proof.
  unfold q_set_port, set_port. intros H.
  destruct (cannot_have_credentials_or_port u) as [c|] eqn:Ec; cbn [bindo] in H |- *; [|discriminate].
  destruct c; [inversion H; subst; left; split; [reflexivity | discriminate]|].
  destruct (scheme u) as [sc|] eqn:Esc; cbn [bindo] in H |- *; [|discriminate].
  destruct (parse_port CSetter (default_port sc) (input_new_no_trim v)) as [[p r]| |] eqn:Ep; [| |discriminate].
  - right. exists p. split; [exact (parse_port_le _ _ _ _ _ Ep)|].
    assert (match p with Some x => if opt_eqb p (default_port sc) then None else Some x | None => None end = p) as E.
    { destruct p as [x|]; [|reflexivity]. unfold parse_port in Ep.
      destruct (parse_port_loop CSetter (input_new_no_trim v) 0 false) as [[[p0 any] rm]| |]; cbn [pbind] in Ep; try discriminate.
      destruct (negb any && ctx_eqb CSetter CSetter && negb (inp_is_empty rm)); [discriminate|].
      destruct (negb any || opt_eqb (Some p0) (default_port sc)) eqn:Ed; inversion Ep; subst.
      apply orb_false_iff in Ed. destruct Ed as [_ Ed]. rewrite Ed. reflexivity. }
    rewrite E. exact H.
  - inversion H; subst. left. split; [reflexivity | discriminate].
Qed.

Theorem q_set_port_cinv u v u' st : CInv dbg u -> q_set_port dbg u v = Some (u', st) -> CInv dbg u'.
Proof.
  intros K H. destruct (q_set_port_as_set_port u v u' st H) as [[-> _]|(p & Hp & E)]; [exact K|].
  exact (set_port_cinv dbg u p u' st K Hp E).
Qed.

End SessPQ.

(* ================= 4. hosts the parser returns ================= *)
Section Hosts.
Variable dbg : bool.
Variable hp hpo : list N -> result host.
Variable hd : host -> list N.
Hypothesis HW : HostWf hp hpo hd.

Lemma origin_disp_ok h : host_origin hp hpo h -> host_disp_ok hd h.
Proof.
  destruct HW as (W1 & W2 & W3). intros Ho. unfold host_disp_ok.
  destruct (host_eq_dec_empty h) as [->|Hne]; [cbn [hi_of_host]; exact W3|].
  assert (host_text_wf (hd h)) as (T1 & T2 & T3 & _).
  { destruct Ho as [E|[[s E]|[s E]]]; [contradiction | exact (W1 s h E Hne) | exact (W2 s h E Hne)]. }
  assert (exists c r, hd h = c :: r /\ c <> 58 /\ c <> 64) as X.
  { destruct (hd h) as [|c r]; [contradiction|]. exists c, r. cbn in T2, T3. split; [reflexivity|]. split; congruence. }
  destruct h as [[|c d]|a|p]; try exact X. contradiction.
Qed.

(* Url::set_host(Some _) with the hypothesis on parser-returned hosts only *)
Theorem set_host_some_cinv2 u x u' st : CInv dbg u ->
  (has_authority_b u = false -> path_start u = scheme_end u + 1) ->
  (has_authority_b u = true -> hosti u' = HI_None -> port u = None) ->
  set_host dbg hp hpo hd u (Some x) = Some (u', st) -> CInv dbg u'.
Proof using HW.
  intros [[W HT] K] X2 X1 H.
  destruct st; [|rewrite (set_host_atomic dbg hp hpo hd u (Some x) u' _ H) by discriminate; split; [split|]; assumption ..].
  unfold set_host in H. rewrite (cannot_be_a_base_eval u W) in H. cbn [bindo] in H.
  destruct (byte_eqb (ser u) (scheme_end u + 1) 47) eqn:Hsl; cbn [negb] in H; [|discriminate].
  unfold u_scheme_type in H. rewrite (scheme_eval u W) in H. cbn [bindo] in H.
  match type of H with (if ?c then _ else _) = _ => destruct c end; [discriminate|].
  match type of H with (match ?sub with Some _ => _ | None => _ end) = _ => destruct sub as [hsub|] end; [|discriminate].
  match type of H with (match ?r with Ok _ => _ | Err _ => _ end) = _ => destruct r as [host|e] eqn:Er end; [|discriminate].
  assert (host_origin hp hpo host) as Ho.
  { match type of Er with (if ?c then _ else _) = _ => destruct c end; [right; left | right; right]; eexists; exact Er. }
  destruct (set_host_internal dbg hd u host None) as [u0|] eqn:E; cbn [bindo] in H; [|discriminate].
  inversion H; subst u0. pose proof (set_host_internal_hosti dbg hd u host None u' E) as Hi.
  apply (host_set_post_cinv dbg hd u u' host K).
  apply (set_host_internal_post dbg hd u host u' W (origin_disp_ok host Ho)); [|exact X2 | exact Hsl | exact E].
  intros Ha Hn. apply X1; [exact Ha | rewrite Hi; exact Hn].
Qed.

(* the common tail of the quirks host setters: set_host_internal u h None for a parser-returned host *)
Lemma host_internal_cinv u h u' : CInv dbg u -> host_origin hp hpo h ->
  byte_eqb (ser u) (scheme_end u + 1) 47 = true ->
  (has_authority_b u = false -> path_start u = scheme_end u + 1) ->
  (has_authority_b u = true -> hosti u' = HI_None -> port u = None) ->
  set_host_internal dbg hd u h None = Some u' -> CInv dbg u'.
Proof using HW.
  intros [[W HT] K] Ho Hsl X2 X1 E. pose proof (set_host_internal_hosti dbg hd u h None u' E) as Hi.
  apply (host_set_post_cinv dbg hd u u' h K).
  apply (set_host_internal_post dbg hd u h u' W (origin_disp_ok h Ho)); [|exact X2 | exact Hsl | exact E].
  intros Ha Hn. apply X1; [exact Ha | rewrite Hi; exact Hn].
Qed.

Theorem q_set_hostname_cinv u v u' st : CInv dbg u ->
  (has_authority_b u = false -> path_start u = scheme_end u + 1) ->
  (has_authority_b u = true -> hosti u' = HI_None -> port u = None) ->
  q_set_hostname dbg hp hpo hd u v = Some (u', st) -> CInv dbg u'.
Proof using HW.
  intros K X2 X1 H. pose proof K as [[W _] _]. unfold q_set_hostname in H.
  rewrite (cannot_be_a_base_eval u W) in H. cbn [bindo] in H.
  destruct (byte_eqb (ser u) (scheme_end u + 1) 47) eqn:Hsl; cbn [negb] in H; [|inversion H; subst; exact K].
  ob H sc Hsc. cbv zeta in H.
  destruct (scheme_type_eqb (scheme_type_of sc) STFile && match v with [] => true | _ => false end).
  { ob H u1 Hu1. inversion H; subst. exact (host_internal_cinv u (HDomain []) u' K (or_introl eq_refl) Hsl X2 X1 Hu1). }
  ob H r Hr. destruct r as [[h remaining]|]; [|inversion H; subst; exact K].
  apply pres_ok_some, parse_host_origin in Hr.
  ob H reject Hrej. destruct reject; [inversion H; subst; exact K|].
  ob H u1 Hu1. inversion H; subst. exact (host_internal_cinv u h u' K Hr Hsl X2 X1 Hu1).
Qed.

(* quirks set_host: proved when the value carries no new port (no ':' part that parses as a port) -
   q_host_keeps_port is that condition, computed as the setter computes it *)
Definition q_host_keeps_port (u : url) (v : list N) : Prop :=
  forall sc h remaining rem p r,
    scheme u = Some sc ->
    parse_host hp hpo (scheme_type_of sc) (input_new_no_trim v) = POk (h, remaining) ->
    inp_split_prefix_char 58 remaining = Some rem -> inp_is_empty rem = false ->
    parse_port CSetter (default_port sc) rem <> POk (p, r).

Theorem q_set_host_cinv u v u' st : CInv dbg u -> q_host_keeps_port u v ->
  (has_authority_b u = false -> path_start u = scheme_end u + 1) ->
  (has_authority_b u = true -> hosti u' = HI_None -> port u = None) ->
  q_set_host dbg hp hpo hd u v = Some (u', st) -> CInv dbg u'.
Proof using HW.
  intros K Hkp X2 X1 H. pose proof K as [[W _] _]. unfold q_set_host in H.
  rewrite (cannot_be_a_base_eval u W) in H. cbn [bindo] in H.
  destruct (byte_eqb (ser u) (scheme_end u + 1) 47) eqn:Hsl; cbn [negb] in H; [|inversion H; subst; exact K].
  ob H sc Hsc. cbv zeta in H.
  destruct (scheme_type_eqb (scheme_type_of sc) STFile && match v with [] => true | _ => false end).
  { ob H u1 Hu1. inversion H; subst. exact (host_internal_cinv u (HDomain []) u' K (or_introl eq_refl) Hsl X2 X1 Hu1). }
  ob H r Hr. destruct r as [[h remaining]|]; [|inversion H; subst; exact K].
  apply pres_ok_some in Hr. pose proof (parse_host_origin hp hpo _ _ _ _ Hr) as Ho.
  ob H opp Hop. ob H un Hun.
  assert (opp = None) as ->.
  { destruct (inp_split_prefix_char 58 remaining) as [rem|] eqn:E58; [|inversion Hop; reflexivity].
    destruct (inp_is_empty rem) eqn:Ee; [inversion Hop; reflexivity|].
    destruct (parse_port CSetter (default_port sc) rem) as [[p r]| |] eqn:Ep; try (inversion Hop; reflexivity).
    exfalso. exact (Hkp sc h remaining rem p r Hsc Hr E58 Ee Ep). }
  match type of H with (if ?c then _ else _) = _ => destruct c end; [inversion H; subst; exact K|].
  ob H u1 Hu1. inversion H; subst. exact (host_internal_cinv u h u' K Ho Hsl X2 X1 Hu1).
Qed.

End Hosts.
