(* Proofs/C05_Setters.v - every mutator of Model/Setters.v preserves "all bytes of the serialization
   satisfy P" (P holds on 0x20..0x7E here: set_path on an opaque path re-enters the opaque-path state),
   and the induction over histories. *)
From RU Require Import Base.Prelude Base.Utf8 Model.AsciiSet Gen.Tables Model.PercentEncoding
  Model.HostT Model.UrlRecord Model.Parser Model.Setters Proofs.ListN Proofs.C05_Enc Proofs.C05_Parser.

Lemma bindo_some {A B} (x : option A) (f : A -> option B) b :
  bindo x f = Some b -> exists a, x = Some a /\ f a = Some b.
Proof. destruct x; cbn [bindo]; intros H; [eauto | discriminate]. Qed.

Ltac ob H a Ha := apply bindo_some in H; destruct H as (a & Ha & H).

Definition is_ip (h : host) : Prop := match h with HDomain _ => False | _ => True end.
(* Url::set_ip_host takes an address from the caller, not from a host parser *)
Definition IpOK (hd : host -> list N) : Prop := forall h, is_ip h -> Forall ok_byte (hd h).

Section Setters.
Variable P : N -> Prop.
Hypothesis P_ok : forall b, ok_byte b -> P b.
Hypothesis P_32 : P 32.
Variable dbg : bool.
Variable host_parse host_parse_opaque : list N -> result host.
Variable host_display : host -> list N.
Hypothesis HOK : HostOK host_parse host_parse_opaque host_display.
Notation okl := (okl P).
Notation origin := (host_origin host_parse host_parse_opaque).
Notation oku u := (okl (ser u)).

Lemma u_slice_from_okl u a s : u_slice_from u a = Some s -> oku u -> okl s.
Proof. unfold u_slice_from. apply okl_slice_from_o. Qed.
Lemma u_slice_okl u a b s : u_slice u a b = Some s -> oku u -> okl s.
Proof. unfold u_slice. apply okl_slice_o. Qed.

(* ---------- fragment ---------- *)
Lemma strip_trailing_okl u u' : strip_trailing_spaces_from_opaque_path u = Some u' -> oku u -> oku u'.
Proof.
  unfold strip_trailing_spaces_from_opaque_path. intros H Hs. ob H cbb Hc.
  destruct (negb cbb); [inversion H; subst; exact Hs|].
  destruct (fragment_start u); [inversion H; subst; exact Hs|].
  destruct (query_start u); inversion H; subst; [exact Hs|]. cbn [ser set_ser]. okt P_ok.
Qed.

Lemma set_fragment_okl u f u' : set_fragment dbg u f = Some u' -> oku u -> oku u'.
Proof.
  unfold set_fragment. intros H Hs. ob H s0 Hs0.
  assert (okl s0) as H0.
  { destruct (fragment_start u).
    - ob Hs0 x Hx. inversion Hs0; subst. okt P_ok.
    - inversion Hs0; subst. exact Hs. }
  destruct f as [input|].
  - inversion H; subst. cbn [ser set_ser set_fragment_start]. apply (parse_fragment_okl _ P_ok). okt P_ok.
  - eapply strip_trailing_okl; [exact H|]. cbn [ser set_ser set_fragment_start]. exact H0.
Qed.

Lemma take_fragment_okl u u1 frag : take_fragment dbg u = Some (u1, frag) -> oku u ->
  oku u1 /\ match frag with Some f => okl f | None => True end.
Proof.
  unfold take_fragment. intros H Hs. destruct (fragment_start u).
  - ob H x Hx. ob H f Hf. inversion H; subst. cbn [ser set_ser set_fragment_start]. split; [okt P_ok|].
    eapply u_slice_from_okl; eassumption.
  - inversion H; subst. split; [exact Hs | exact I].
Qed.

Lemma restore_fragment_okl u frag u' : restore_already_parsed_fragment u frag = Some u' ->
  oku u -> match frag with Some f => okl f | None => True end -> oku u'.
Proof.
  unfold restore_already_parsed_fragment. intros H Hs Hf. destruct frag as [f|]; [|inversion H; subst; exact Hs].
  ob H x Hx. inversion H; subst. cbn [ser set_ser set_fragment_start]. okt P_ok.
Qed.

(* ---------- query ---------- *)
Lemma set_query_okl u q u' : set_query dbg u q = Some u' -> oku u -> oku u'.
Proof.
  unfold set_query. intros H Hs. ob H a Ha. destruct a as [u1 frag].
  destruct (take_fragment_okl _ _ _ Ha Hs) as [H1 Hf].
  ob H u2 Hu2. ob H u3 Hu3.
  assert (oku u2) as H2.
  { destruct (query_start u1).
    - ob Hu2 x Hx. inversion Hu2; subst. cbn [ser set_ser set_query_start]. okt P_ok.
    - inversion Hu2; subst. exact H1. }
  eapply restore_fragment_okl; [exact H | | exact Hf].
  destruct q as [input|].
  - ob Hu3 st Hst.
    pose proof (parse_query_okl _ P_ok None CSetter st (scheme_end u2) (ser u2 ++ [63]) (input_new_trim_tnl input)
                  ltac:(okt P_ok)) as Hq.
    destruct (parse_query None CSetter st (scheme_end u2) (ser u2 ++ [63]) (input_new_trim_tnl input)) as [s r].
    inversion Hu3; subst. cbn [ser set_ser set_query_start]. exact Hq.
  - destruct frag; [inversion Hu3; subst; exact H2 | eapply strip_trailing_okl; eassumption].
Qed.

(* ---------- path ---------- *)
Lemma take_after_path_okl u u1 ap : take_after_path u = Some (u1, ap) -> oku u -> oku u1 /\ okl ap.
Proof.
  unfold take_after_path. intros H Hs.
  destruct (query_start u) as [i|]; [|destruct (fragment_start u) as [i|]].
  3:{ inversion H; subst. split; [exact Hs | constructor]. }
  all: ob H a Ha; inversion H; subst; cbn [ser set_ser]; split; [okt P_ok | eapply u_slice_from_okl; eassumption].
Qed.

Lemma restore_after_path_okl u op ap u' : restore_after_path dbg u op ap = Some u' -> oku u -> okl ap -> oku u'.
Proof.
  unfold restore_after_path. intros H Hs Ha. cbv zeta in H. ob H qs Hq. ob H fs Hf. inversion H; subst.
  cbn [ser set_ser set_query_start set_fragment_start]. okt P_ok.
Qed.

Lemma unpres_some {A} (r : pres A) a : unpres r = Some a -> r = POk a.
Proof. destruct r; cbn; intros H; [inversion H; reflexivity | discriminate | discriminate]. Qed.

Lemma set_path_okl u p u' : set_path dbg u p = Some u' -> oku u -> oku u'.
Proof.
  unfold set_path. intros H Hs. ob H a Ha. destruct a as [u1 ap].
  destruct (take_after_path_okl _ _ _ Ha Hs) as [H1 Hap]. cbv zeta in H.
  ob H cbb Hcbb. ob H st Hst. ob H s1 Hs1.
  eapply restore_after_path_okl; [exact H | | exact Hap]. cbn [ser set_ser].
  assert (okl (truncate (ser u1) (path_start u1))) as H0 by okt P_ok.
  destruct cbb.
  - assert (forall s p', okl s -> okl (fst (parse_cannot_be_a_base_path CSetter s p'))) as Hc.
    { intros s p' Hx. apply (parse_cannot_be_a_base_path_okl _ P_ok); assumption. }
    match type of Hs1 with context [match ?m with Some r => @?a r | None => ?b end] =>
      destruct (match m with Some r => a r | None => b end) as [s p'] eqn:Ep end.
    assert (okl s) as Hs2.
    { destruct (inp_split_prefix_char 47 (input_new_no_trim p)); inversion Ep; subst; [okt P_ok | exact H0]. }
    injection Hs1 as Hx. rewrite <- Hx. apply Hc. exact Hs2.
  - ob Hs1 b Hb. destruct b as [[s hh] rem]. inversion Hs1; subst.
    apply unpres_some in Hb. eapply parse_path_start_okl; [exact P_ok | exact Hb | exact H0].
Qed.

(* ---------- port ---------- *)
Lemma set_port_internal_okl u p u' : set_port_internal dbg u p = Some u' -> oku u -> oku u'.
Proof.
  unfold set_port_internal. intros H Hs.
  destruct (port u) as [old|]; destruct p as [new|].
  4:{ inversion H; subst. exact Hs. }
  2:{ ob H s Hs0. ob H rest Hr. ob H x Hx. cbv zeta in H. ob H qs Hq. ob H fs Hf. inversion H; subst. cbn [ser].
      apply okl_app; [eapply okl_slice_o; eassumption | eapply u_slice_from_okl; eassumption]. }
  - destruct (old =? new); [inversion H; subst; exact Hs|].
    ob H pa Hpa. cbv zeta in H. ob H qs Hq. ob H fs Hf. inversion H; subst. cbn [ser].
    apply okl_app; [okt P_ok | eapply u_slice_from_okl; eassumption].
  - ob H pa Hpa. cbv zeta in H. ob H qs Hq. ob H fs Hf. inversion H; subst. cbn [ser].
    apply okl_app; [okt P_ok | eapply u_slice_from_okl; eassumption].
Qed.

Lemma set_port_okl u p u' st : set_port dbg u p = Some (u', st) -> oku u -> oku u'.
Proof.
  unfold set_port. intros H Hs. ob H c Hc. destruct c; [inversion H; subst; exact Hs|].
  ob H s Hsch. cbv zeta in H. ob H u1 Hu1. inversion H; subst. eapply set_port_internal_okl; eassumption.
Qed.

(* ---------- host ---------- *)
Lemma set_host_internal_okl u h onp u' : okl (host_display h) ->
  set_host_internal dbg host_display u h onp = Some u' -> oku u -> oku u'.
Proof.
  unfold set_host_internal. intros Hh H Hs. cbv zeta in H. ob H suffix Hsuf.
  apply u_slice_from_okl in Hsuf; [|exact Hs].
  ob H ha Hha. ob H a Ha. destruct a as [[s1 ue] hs].
  assert (okl s1) as H1.
  { destruct (negb ha).
    - ob Ha x Hx. inversion Ha; subst. okt P_ok.
    - inversion Ha; subst. okt P_ok. }
  destruct onp as [np|].
  - destruct np as [p|]; cbv beta iota zeta in H; ob H ps Hps; ob H qs Hq; ob H fs Hf; inversion H; subst; cbn [ser]; okt P_ok.
  - cbv beta iota zeta in H. ob H ps Hps. ob H qs Hq. ob H fs Hf. inversion H; subst. cbn [ser]. okt P_ok.
Qed.

Lemma origin_okl h : origin h -> okl (host_display h).
Proof. intros H. apply (okl_ok _ P_ok), HOK. exact H. Qed.

Lemma set_host_okl u h u' st :
  set_host dbg host_parse host_parse_opaque host_display u h = Some (u', st) -> oku u -> oku u'.
Proof.
  unfold set_host. intros H Hs. ob H cbb Hcbb. destruct cbb; [inversion H; subst; exact Hs|].
  ob H sty Hsty. destruct h as [hs|].
  - destruct ((match hs with [] => true | _ => false end) && st_is_special sty && negb (st_is_file sty));
      [inversion H; subst; exact Hs|]. cbv zeta in H.
    match type of H with context [if ?c then Some hs else ?e] => destruct (if c then Some hs else e) as [hsub|] end;
      [|inversion H; subst; exact Hs].
    destruct (if st_is_special sty then host_parse hsub else host_parse_opaque hsub) as [host|e] eqn:Eh;
      [|inversion H; subst; exact Hs].
    ob H u1 Hu1. inversion H; subst. eapply set_host_internal_okl; [|exact Hu1 | exact Hs].
    apply origin_okl. destruct (st_is_special sty); [right; left | right; right]; eexists; exact Eh.
  - destruct (has_host u); [|inversion H; subst; exact Hs].
    destruct (st_is_special sty && negb (st_is_file sty)); [inversion H; subst; exact Hs|]. cbv zeta in H.
    ob H x Hx. ob H y Hy. ob H z Hz. ob H qs Hq. ob H fs Hf. inversion H; subst. cbn [ser]. okt P_ok.
Qed.

Lemma set_ip_host_okl u h u' st : okl (host_display h) ->
  set_ip_host dbg host_display u h = Some (u', st) -> oku u -> oku u'.
Proof.
  unfold set_ip_host. intros Hh H Hs. ob H cbb Hcbb. destruct cbb; [inversion H; subst; exact Hs|].
  ob H u1 Hu1. inversion H; subst. eapply set_host_internal_okl; eassumption.
Qed.

(* ---------- password / username ---------- *)
Lemma set_password_okl u pw u' st : set_password dbg u pw = Some (u', st) -> oku u -> oku u'.
Proof.
  unfold set_password. intros H Hs. ob H c Hc. destruct c; [inversion H; subst; exact Hs|]. cbv zeta in H.
  destruct (match pw with Some x => x | None => [] end) as [|x r].
  - ob H c Hc2. destruct c; [|inversion H; subst; exact Hs].
    ob H at_ Hat. ob H y Hy. ob H z Hz. ob H hs Hhs. ob H he Hhe. ob H ps Hps. ob H qs Hq. ob H fs Hf.
    inversion H; subst. cbn [ser]. okt P_ok.
  - ob H haa Hhaa. apply u_slice_from_okl in Hhaa; [|exact Hs].
    ob H he Hhe. ob H ps Hps. ob H qs Hq. ob H fs Hf. inversion H; subst. cbn [ser].
    apply okl_app; [|exact Hhaa]. apply okl_app; [|okt P_ok].
    apply push_encoded_okl; [exact P_ok | apply T_USERINFO_ctl | okt P_ok].
Qed.

Lemma set_username_okl u un u' st : set_username dbg u un = Some (u', st) -> oku u -> oku u'.
Proof.
  unfold set_username. intros H Hs. ob H c Hc. destruct c; [inversion H; subst; exact Hs|]. cbv zeta in H.
  ob H x Hx. ob H cur Hcur. destruct (list_eqb cur (utf8_encode un)); [inversion H; subst; exact Hs|].
  ob H au Hau. apply u_slice_from_okl in Hau; [|exact Hs].
  assert (okl (push_encoded T_USERINFO (truncate (ser u) (scheme_end u + 3)) un)) as H1.
  { apply push_encoded_okl; [exact P_ok | apply T_USERINFO_ctl | okt P_ok]. }
  set (s := push_encoded T_USERINFO (truncate (ser u) (scheme_end u + 3)) un) in *.
  match type of H with context [match nlen s =? scheme_end u + 3 with true => ?a | false => ?b end] =>
    destruct (match nlen s =? scheme_end u + 3 with true => a | false => b end) as [[s' removed] added] eqn:E end.
  assert (okl s') as H2.
  { destruct (nlen s =? scheme_end u + 3); destruct au as [|y rest]; try (inversion E; subst; okt P_ok).
    - destruct (y =? 64) eqn:E64.
      + apply N.eqb_eq in E64. subst y. inversion E; subst. inversion Hau; subst. okt P_ok.
      + assert (s' = s ++ y :: rest) as ->.
        { destruct y as [|p]; [inversion E; reflexivity|].
          do 7 (destruct p as [p|p|]; try (inversion E; reflexivity)); discriminate. }
        okt P_ok.
    - assert (s' = s ++ y :: rest \/ s' = s ++ [64] ++ y :: rest) as [-> | ->].
      { destruct y as [|p]; [right; inversion E; reflexivity|].
        do 7 (destruct p as [p|p|]; try (right; inversion E; reflexivity); try (left; inversion E; reflexivity)). }
      + okt P_ok.
      + inversion Hau; subst. okt P_ok. }
  ob H hs Hhs. ob H he Hhe. ob H ps Hps. ob H qs Hq. ob H fs Hf. inversion H; subst. cbn [ser]. exact H2.
Qed.

(* ---------- scheme ---------- *)
Lemma set_scheme_okl u sch u' st : set_scheme dbg u sch = Some (u', st) -> oku u -> oku u'.
Proof.
  unfold set_scheme. intros H Hs.
  destruct (parse_scheme CSetter (input_new_no_trim sch)) as [[ns rem]|] eqn:Esch; [|inversion H; subst; exact Hs].
  cbv zeta in H. ob H ost Host. ob H ha Hha.
  match type of H with (if ?c then _ else _) = _ => destruct c end; [inversion H; subst; exact Hs|].
  match type of H with (if ?c then _ else _) = _ => destruct c end; [inversion H; subst; exact Hs|].
  ob H ue Hue. ob H hs Hhs. ob H he Hhe. ob H ps Hps. ob H qs Hq. ob H fs Hf. ob H rest Hrest.
  ob H r Hr. destruct r as [u2 st2]. cbn [fst] in H. inversion H; subst.
  eapply set_port_okl; [exact Hr|]. cbn [ser].
  apply okl_app; [apply (okl_ok _ P_ok); eapply parse_scheme_ok; exact Esch | eapply u_slice_from_okl; eassumption].
Qed.

(* ---------- path_segments_mut ---------- *)
Definition okp (p : psm) : Prop := oku (psm_url p) /\ okl (psm_after_path p).

Lemma psm_new_okl u p : psm_new dbg u = Some p -> oku u -> okp p.
Proof.
  unfold psm_new. intros H Hs. ob H a Ha. destruct a as [u1 ap].
  destruct (take_after_path_okl _ _ _ Ha Hs) as [H1 Hap]. cbv zeta in H.
  ob H st Hst. ob H x Hx. inversion H; subst. split; assumption.
Qed.

Lemma psm_with_okp p s : okp p -> okl s -> okp (psm_with p s).
Proof. intros [H1 H2] Hs. split; [exact Hs | exact H2]. Qed.

Lemma psm_clear_okp p : okp p -> okp (psm_clear p).
Proof. intros H. unfold psm_clear. apply psm_with_okp; [exact H|]. destruct H. okt P_ok. Qed.

Lemma psm_pop_if_empty_okp p : okp p -> okp (psm_pop_if_empty p).
Proof.
  intros H. unfold psm_pop_if_empty. cbv zeta. destruct (nlen (ser (psm_url p)) <=? after_first_slash p); [exact H|].
  destruct (ends_with_byte 47 (nskipn (after_first_slash p) (ser (psm_url p)))); [|exact H].
  apply psm_with_okp; [exact H|]. destruct H. okt P_ok.
Qed.

Lemma psm_pop_okp p : okp p -> okp (psm_pop p).
Proof.
  intros H. unfold psm_pop. cbv zeta. destruct (nlen (ser (psm_url p)) <=? after_first_slash p); [exact H|].
  apply psm_with_okp; [exact H|]. destruct H. okt P_ok.
Qed.

Lemma psm_extend_loop_okl st ps segs : forall s s', psm_extend_loop dbg st ps s segs = Some s' -> okl s -> okl s'.
Proof.
  induction segs as [|seg rest IH]; intros s s' H Hs; cbn [psm_extend_loop] in H; [inversion H; subst; exact Hs|].
  destruct (psm_skips seg); [eapply IH; eassumption|]. cbv zeta in H.
  ob H a Ha. destruct a as [[s2 hh] rem]. apply unpres_some in Ha.
  eapply IH; [exact H|]. eapply parse_path_okl; [exact P_ok | exact Ha|]. okt P_ok.
Qed.

Lemma psm_extend_okp p segs p' : psm_extend dbg p segs = Some p' -> okp p -> okp p'.
Proof.
  unfold psm_extend. intros H Hp. ob H st Hst. ob H s Hs. inversion H; subst.
  apply psm_with_okp; [exact Hp|]. eapply psm_extend_loop_okl; [exact Hs|]. destruct Hp; assumption.
Qed.

Lemma psm_apply_okp p o p' : psm_apply dbg p o = Some p' -> okp p -> okp p'.
Proof.
  destruct o; cbn [psm_apply]; intros H Hp.
  - inversion H; subst. apply psm_clear_okp; exact Hp.
  - inversion H; subst. apply psm_pop_if_empty_okp; exact Hp.
  - inversion H; subst. apply psm_pop_okp; exact Hp.
  - unfold psm_push in H. eapply psm_extend_okp; eassumption.
  - eapply psm_extend_okp; eassumption.
Qed.

Lemma psm_run_okp ops : forall p p', psm_run dbg p ops = Some p' -> okp p -> okp p'.
Proof.
  induction ops as [|o r IH]; intros p p' H Hp; cbn [psm_run] in H; [inversion H; subst; exact Hp|].
  ob H p1 Hp1. eapply IH; [exact H|]. eapply psm_apply_okp; eassumption.
Qed.

Lemma path_segments_session_okl u ops u' st : path_segments_session dbg u ops = Some (u', st) -> oku u -> oku u'.
Proof.
  unfold path_segments_session, path_segments_mut. intros H Hs. ob H op Hop. ob Hop cbb Hcbb.
  destruct cbb; [inversion Hop; subst; inversion H; subst; exact Hs|].
  ob Hop p Hp. inversion Hop; subst. ob H p' Hp'. ob H u1 Hu1. inversion H; subst.
  apply psm_new_okl in Hp; [|exact Hs]. apply psm_run_okp in Hp'; [|exact Hp]. destruct Hp' as [H1 H2].
  unfold psm_close in Hu1. eapply restore_after_path_okl; eassumption.
Qed.

(* ---------- quirks setters ---------- *)
Lemma q_set_protocol_okl u v u' st : q_set_protocol dbg u v = Some (u', st) -> oku u -> oku u'.
Proof. unfold q_set_protocol. cbv zeta. apply set_scheme_okl. Qed.
Lemma q_set_username_okl u v u' st : q_set_username dbg u v = Some (u', st) -> oku u -> oku u'.
Proof. apply set_username_okl. Qed.
Lemma q_set_password_okl u v u' st : q_set_password dbg u v = Some (u', st) -> oku u -> oku u'.
Proof. apply set_password_okl. Qed.

Lemma pres_ok_some {A} (r : pres A) a : pres_ok r = Some (Some a) -> r = POk a.
Proof. destruct r; cbn; intros H; [inversion H; reflexivity | discriminate | discriminate]. Qed.

Lemma empty_host_okl : okl (host_display (HDomain [])).
Proof. apply origin_okl. left. reflexivity. Qed.

Lemma q_set_host_okl u v u' st :
  q_set_host dbg host_parse host_parse_opaque host_display u v = Some (u', st) -> oku u -> oku u'.
Proof.
  unfold q_set_host. intros H Hs. ob H cbb Hcbb. destruct cbb; [inversion H; subst; exact Hs|].
  ob H sc Hsc. cbv zeta in H.
  destruct (scheme_type_eqb (scheme_type_of sc) STFile && match v with [] => true | _ => false end).
  { ob H u1 Hu1. inversion H; subst. eapply set_host_internal_okl; [apply empty_host_okl | exact Hu1 | exact Hs]. }
  ob H r Hr. destruct r as [[h remaining]|]; [|inversion H; subst; exact Hs].
  apply pres_ok_some, parse_host_origin in Hr.
  ob H op Hop. ob H un Hun.
  match type of H with (if ?c then _ else _) = _ => destruct c end; [inversion H; subst; exact Hs|].
  ob H u1 Hu1. inversion H; subst. eapply set_host_internal_okl; [apply origin_okl; exact Hr | exact Hu1 | exact Hs].
Qed.

Lemma q_set_hostname_okl u v u' st :
  q_set_hostname dbg host_parse host_parse_opaque host_display u v = Some (u', st) -> oku u -> oku u'.
Proof.
  unfold q_set_hostname. intros H Hs. ob H cbb Hcbb. destruct cbb; [inversion H; subst; exact Hs|].
  ob H sc Hsc. cbv zeta in H.
  destruct (scheme_type_eqb (scheme_type_of sc) STFile && match v with [] => true | _ => false end).
  { ob H u1 Hu1. inversion H; subst. eapply set_host_internal_okl; [apply empty_host_okl | exact Hu1 | exact Hs]. }
  ob H r Hr. destruct r as [[h remaining]|]; [|inversion H; subst; exact Hs].
  apply pres_ok_some, parse_host_origin in Hr.
  ob H reject Hrej. destruct reject; [inversion H; subst; exact Hs|].
  ob H u1 Hu1. inversion H; subst. eapply set_host_internal_okl; [apply origin_okl; exact Hr | exact Hu1 | exact Hs].
Qed.

Lemma q_set_port_okl u v u' st : q_set_port dbg u v = Some (u', st) -> oku u -> oku u'.
Proof.
  unfold q_set_port. intros H Hs. ob H c Hc. destruct c; [inversion H; subst; exact Hs|].
  ob H sc Hsc. destruct (parse_port CSetter (default_port sc) (input_new_no_trim v)) as [[p r]| |]; [| |discriminate].
  - ob H u1 Hu1. inversion H; subst. eapply set_port_internal_okl; eassumption.
  - inversion H; subst. exact Hs.
Qed.

Lemma q_set_pathname_okl u v u' : q_set_pathname dbg u v = Some u' -> oku u -> oku u'.
Proof.
  unfold q_set_pathname. intros H Hs. ob H cbb Hcbb. destruct cbb; [inversion H; subst; exact Hs|].
  ob H st Hst.
  match type of H with (if ?c then _ else _) = _ => destruct c end; [eapply set_path_okl; eassumption|].
  match type of H with (if ?c then _ else _) = _ => destruct c end; eapply set_path_okl; eassumption.
Qed.

Lemma q_set_search_okl u v u' : q_set_search dbg u v = Some u' -> oku u -> oku u'.
Proof. unfold q_set_search. apply set_query_okl. Qed.
Lemma q_set_hash_okl u v u' : q_set_hash dbg u v = Some u' -> oku u -> oku u'.
Proof. unfold q_set_hash. apply set_fragment_okl. Qed.

End Setters.
