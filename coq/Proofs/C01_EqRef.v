(* Proofs/C01_EqRef.v - C01 equivalence for the two simplest references against a base:
   "#fragment" and "?query[#fragment]".  `related` ties a model record to a record of the Standard
   (same ten API strings plus the structural facts the two states need); the results of the two
   classes are related again. *)
From RU Require Import Base.Prelude Base.Utf8 Base.Utf8Facts Model.AsciiSet Gen.Tables
  Model.PercentEncoding Model.HostT Model.UrlRecord Model.Parser Model.Setters Model.WF Model.KnownC08 Spec.Whatwg
  Proofs.ListN Proofs.C14_Enc Proofs.C02_Enc Proofs.C02_Parts Proofs.C02_Opaque
  Proofs.C03_WF Proofs.C06_List Proofs.C06_WFI Proofs.C06_Tail Proofs.C06_Steps Proofs.C01_Tables Proofs.C08_Input Proofs.C08_Simple
  Proofs.C01_EqRun Proofs.C01_EqEnc Proofs.C01_EqApi Proofs.C01_EqOpaque.

(* what the no scheme / relative / file states rely on without checking: a URL record with an opaque
   path has no host, credentials or port; a file URL has no credentials or port *)
Definition spec_valid (sb : spec_url) : Prop :=
  (has_opaque_path sb = true ->
     su_host sb = None /\ su_username sb = [] /\ su_password sb = [] /\ su_port sb = None)
  /\ (su_scheme sb = str_file -> su_username sb = [] /\ su_password sb = [] /\ su_port sb = None).

Record related (dbg : bool) (shs : spec_host -> list N) (b : url) (sb : spec_url) : Prop := mk_related {
  rel_wf : wf_b b = true;
  rel_api : api_of_model dbg b = Some (spec_api_list shs sb);
  rel_bf : b_before_fragment b = serialize_url shs sb true;
  rel_bq : b_before_query b = serialize_url shs (set_query sb None) true;
  rel_cbb : cannot_be_a_base b = Some (has_opaque_path sb);
  rel_sch : b_scheme b = su_scheme sb;
  rel_valid : spec_valid sb
}.

(* ================= specification side ================= *)
Section SpecRef.
Variable shp : bool -> list N -> option spec_host.

Lemma list_eqb_refl l : list_eqb l l = true.
Proof. apply list_eqb_spec. reflexivity. Qed.

Lemma list_eqb_false a b : a <> b -> list_eqb a b = false.
Proof. intros H. destruct (list_eqb a b) eqn:E; [|reflexivity]. apply list_eqb_spec in E. contradiction. Qed.

Theorem spec_fragment_only input sb f : spec_clean input = 35 :: f -> spec_valid sb ->
  spec_basic_url_parse shp input (Some sb) = BDone (set_fragment sb (Some (upe in_fragment_set f))).
Proof.
  intros Hc [V1 V2]. apply spec_parse_of_runs. rewrite Hc.
  apply runs_no_scheme; [reflexivity|].
  destruct (has_opaque_path sb) eqn:Hop.
  - (* opaque base: the no scheme state copies scheme, path, query and goes to the fragment state *)
    destruct (V1 eq_refl) as (Vh & Vu & Vp & Vpo).
    eapply (runs_step_next shp (35 :: f) (Some sb) StNoScheme [] 35 f) with (st' := StFragment) (buf' := []);
      [reflexivity | |].
    + rewrite (step_unfold shp (35 :: f) (Some sb) _ [] (35 :: f)) by reflexivity. cbn zeta. cbn [hd_error].
      unfold st_no_scheme. rewrite Hop. cbn [cis andb negb]. replace (35 =? 35) with true by reflexivity.
      cbn [negb andb]. reflexivity.
    + pose proof (runs_fragment shp (35 :: f) (Some sb) f ([] ++ [35]) [] false false false
                    (set_fragment (set_query (set_path (set_scheme empty_url (su_scheme sb)) (su_path sb)) (su_query sb)) (Some []))
                    [] eq_refl eq_refl) as HR.
      cbn [app] in HR.
      replace (set_fragment sb (Some (upe in_fragment_set f)))
        with (set_fragment (set_fragment (set_query (set_path (set_scheme empty_url (su_scheme sb)) (su_path sb)) (su_query sb)) (Some []))
                           (Some (upe in_fragment_set f))); [exact HR|].
      destruct sb; cbn in *; subst; reflexivity.
  - destruct (list_eqb (su_scheme sb) str_file) eqn:Ef.
    + (* file base: file state *)
      apply list_eqb_spec in Ef. destruct (V2 Ef) as (Vu & Vp & Vpo).
      eapply (runs_step_stay shp (35 :: f) (Some sb) StNoScheme [] (35 :: f)) with (st' := StFile) (buf' := []);
        [reflexivity | discriminate | |].
      * rewrite (step_unfold shp (35 :: f) (Some sb) _ [] (35 :: f)) by reflexivity. cbn zeta. cbn [hd_error].
        unfold st_no_scheme. rewrite Hop, Ef, list_eqb_refl. cbn [cis andb negb]. reflexivity.
      * eapply (runs_step_next shp (35 :: f) (Some sb) StFile [] 35 f) with (st' := StFragment) (buf' := []);
          [reflexivity | |].
        -- rewrite (step_unfold shp (35 :: f) (Some sb) _ [] (35 :: f)) by reflexivity. cbn zeta. cbn [hd_error tl].
           unfold st_file, base_is_file. rewrite Ef, list_eqb_refl. cbn [cis orb].
           replace (35 =? 47) with false by reflexivity. replace (35 =? 92) with false by reflexivity.
           replace (35 =? 63) with false by reflexivity. replace (35 =? 35) with true by reflexivity.
           cbn [orb]. reflexivity.
        -- match goal with |- Runs _ _ _ (at_pos _ _ _ _ _ _ ?u1) _ =>
             pose proof (runs_fragment shp (35 :: f) (Some sb) f ([] ++ [35]) [] false false false u1 [] eq_refl eq_refl) as HR
           end.
           cbn [app] in HR.
           match type of HR with Runs _ _ _ _ (BDone ?x) =>
             replace (set_fragment sb (Some (upe in_fragment_set f))) with x; [exact HR|]
           end.
           destruct sb; cbn in *; subst; reflexivity.
    + (* any other base: relative state *)
      eapply (runs_step_stay shp (35 :: f) (Some sb) StNoScheme [] (35 :: f)) with (st' := StRelative) (buf' := []);
        [reflexivity | discriminate | |].
      * rewrite (step_unfold shp (35 :: f) (Some sb) _ [] (35 :: f)) by reflexivity. cbn zeta. cbn [hd_error].
        unfold st_no_scheme. rewrite Hop, Ef. cbn [cis andb negb]. reflexivity.
      * eapply (runs_step_next shp (35 :: f) (Some sb) StRelative [] 35 f) with (st' := StFragment) (buf' := []);
          [reflexivity | |].
        -- rewrite (step_unfold shp (35 :: f) (Some sb) _ [] (35 :: f)) by reflexivity. cbn zeta. cbn [hd_error tl].
           unfold st_relative. cbn [cis andb].
           replace (35 =? 47) with false by reflexivity. replace (35 =? 92) with false by reflexivity.
           replace (35 =? 63) with false by reflexivity. replace (35 =? 35) with true by reflexivity.
           rewrite andb_false_r. reflexivity.
        -- match goal with |- Runs _ _ _ (at_pos _ _ _ _ _ _ ?u1) _ =>
             pose proof (runs_fragment shp (35 :: f) (Some sb) f ([] ++ [35]) [] false false false u1 [] eq_refl eq_refl) as HR
           end.
           cbn [app] in HR.
           match type of HR with Runs _ _ _ _ (BDone ?x) =>
             replace (set_fragment sb (Some (upe in_fragment_set f))) with x; [exact HR|]
           end.
           destruct sb; reflexivity.
Qed.

(* "?query[#fragment]" against a base without opaque path *)
Definition ref_result (sb : spec_url) (q : list N) : spec_url :=
  set_fragment (set_query sb (Some (upe (qset_of sb) (before_hash q))))
               (option_map (upe in_fragment_set) (after_hash q)).

Theorem spec_query_only input sb q : spec_clean input = 63 :: q -> spec_valid sb ->
  has_opaque_path sb = false ->
  spec_basic_url_parse shp input (Some sb) = BDone (ref_result sb q).
Proof.
  intros Hc [V1 V2] Hop. apply spec_parse_of_runs. rewrite Hc.
  apply runs_no_scheme; [reflexivity|].
  destruct (list_eqb (su_scheme sb) str_file) eqn:Ef.
  - apply list_eqb_spec in Ef. destruct (V2 Ef) as (Vu & Vp & Vpo).
    eapply (runs_step_stay shp (63 :: q) (Some sb) StNoScheme [] (63 :: q)) with (st' := StFile) (buf' := []);
      [reflexivity | discriminate | |].
    + rewrite (step_unfold shp (63 :: q) (Some sb) _ [] (63 :: q)) by reflexivity. cbn zeta. cbn [hd_error].
      unfold st_no_scheme. rewrite Hop, Ef, list_eqb_refl. cbn [cis andb negb]. reflexivity.
    + eapply (runs_step_next shp (63 :: q) (Some sb) StFile [] 63 q) with (st' := StQuery) (buf' := []);
        [reflexivity | |].
      * rewrite (step_unfold shp (63 :: q) (Some sb) _ [] (63 :: q)) by reflexivity. cbn zeta. cbn [hd_error tl].
        unfold st_file, base_is_file. rewrite Ef, list_eqb_refl. cbn [cis orb].
        replace (63 =? 47) with false by reflexivity. replace (63 =? 92) with false by reflexivity.
        replace (63 =? 63) with true by reflexivity. cbn [orb]. reflexivity.
      * match goal with |- Runs _ _ _ (at_pos _ _ _ _ _ _ ?u1) _ =>
          pose proof (runs_query shp (63 :: q) (Some sb) q ([] ++ [63]) [] false false false u1 [] eq_refl eq_refl) as HR
        end.
        cbn [app] in HR.
        match type of HR with Runs _ _ _ _ (BDone ?x) => replace (ref_result sb q) with x; [exact HR|] end.
        unfold ref_result, query_final, qset_of, is_special. cbn [su_scheme set_query set_path set_host set_scheme app].
        rewrite Ef. destruct (after_hash q); destruct sb; cbn in *; subst; reflexivity.
  - eapply (runs_step_stay shp (63 :: q) (Some sb) StNoScheme [] (63 :: q)) with (st' := StRelative) (buf' := []);
      [reflexivity | discriminate | |].
    + rewrite (step_unfold shp (63 :: q) (Some sb) _ [] (63 :: q)) by reflexivity. cbn zeta. cbn [hd_error].
      unfold st_no_scheme. rewrite Hop, Ef. cbn [cis andb negb]. reflexivity.
    + eapply (runs_step_next shp (63 :: q) (Some sb) StRelative [] 63 q) with (st' := StQuery) (buf' := []);
        [reflexivity | |].
      * rewrite (step_unfold shp (63 :: q) (Some sb) _ [] (63 :: q)) by reflexivity. cbn zeta. cbn [hd_error tl].
        unfold st_relative. cbn [cis andb].
        replace (63 =? 47) with false by reflexivity. replace (63 =? 92) with false by reflexivity.
        replace (63 =? 63) with true by reflexivity. rewrite andb_false_r. reflexivity.
      * match goal with |- Runs _ _ _ (at_pos _ _ _ _ _ _ ?u1) _ =>
          pose proof (runs_query shp (63 :: q) (Some sb) q ([] ++ [63]) [] false false false u1 [] eq_refl eq_refl) as HR
        end.
        cbn [app] in HR.
        match type of HR with Runs _ _ _ _ (BDone ?x) => replace (ref_result sb q) with x; [exact HR|] end.
        unfold ref_result, query_final, qset_of, is_special. cbn [su_scheme set_query set_path set_host set_scheme
          set_port set_password set_username app].
        destruct (after_hash q); destruct sb; reflexivity.
Qed.

(* any reference without scheme that does not start with '#', against a base with an opaque path: failure *)
Theorem spec_opaque_base_fails input sb : spec_scheme (spec_clean input) = None ->
  starts_with_cp 35 (spec_clean input) = false -> has_opaque_path sb = true ->
  exists u, spec_basic_url_parse shp input (Some sb) = BFailure u.
Proof.
  intros Hs H35 Hop. eexists. apply spec_parse_of_runs.
  apply runs_no_scheme; [exact Hs|]. apply R_fail.
  rewrite (step_unfold shp (spec_clean input) (Some sb) _ [] (spec_clean input)) by reflexivity. cbn zeta.
  unfold st_no_scheme. rewrite Hop. cbn [andb].
  assert (cis (hd_error (spec_clean input)) 35 = false) as ->.
  { destruct (spec_clean input); [reflexivity | exact H35]. }
  reflexivity.
Qed.

End SpecRef.

(* ================= closure of `related` under the two edits ================= *)
Section Closure.
Variable dbg : bool.
Variable shs : spec_host -> list N.

Lemma get_hash_some F : q_trim (ftext (Some F)) = get_hash (set_fragment empty_url (Some F)).
Proof. destruct F as [|a r]; reflexivity. Qed.

Lemma before_fragment_len b : wf_b b = true -> nlen (b_before_fragment b) <= nlen (ser b).
Proof.
  intros W. unfold b_before_fragment. destruct (fragment_start b); [|lia].
  pose proof (nlen_nfirstn_le n (ser b)). unfold nlen, nfirstn in *. rewrite firstn_length. lia.
Qed.

Lemma before_fragment_pre b : agree_pre (nlen (b_before_fragment b)) (ser b) (b_before_fragment b).
Proof.
  unfold b_before_fragment. destruct (fragment_start b) as [f|]; [|reflexivity].
  unfold agree_pre. destruct (N.le_ge_cases f (nlen (ser b))) as [H|H].
  - rewrite nlen_nfirstn by exact H. apply nfirstn_nfirstn. lia.
  - rewrite !(nfirstn_all f) by exact H. reflexivity.
Qed.

(* positions in front of the end of the path *)
Lemma path_start_le_before_query b : wf_b b = true -> path_start b <= nlen (b_before_query b).
Proof.
  intros W. pose proof (wf_qf_facts b W) as QF. pose proof (qf_q QF) as Q1. pose proof (qf_f QF) as Q2.
  pose proof (path_start_le_len b W). unfold b_before_query.
  destruct (query_start b) as [q|]; [|destruct (fragment_start b) as [f|]]; try rewrite nlen_nfirstn; lia.
Qed.

Lemma before_query_le_before_fragment b : wf_b b = true ->
  nlen (b_before_query b) <= nlen (b_before_fragment b)
  /\ agree_pre (nlen (b_before_query b)) (b_before_fragment b) (b_before_query b).
Proof.
  intros W. pose proof (wf_qf_facts b W) as QF. pose proof (qf_q QF) as Q1. pose proof (qf_f QF) as Q2.
  pose proof (qf_qf QF) as Q3. unfold b_before_query, b_before_fragment, agree_pre.
  destruct (query_start b) as [q|]; destruct (fragment_start b) as [f|].
  - rewrite !nlen_nfirstn by lia. split; [lia|]. rewrite !nfirstn_nfirstn by lia. reflexivity.
  - rewrite !nlen_nfirstn by lia. split; [lia|]. rewrite !nfirstn_nfirstn by lia. reflexivity.
  - split; [lia | reflexivity].
  - split; [lia | reflexivity].
Qed.

Theorem related_with_fragment b sb F : related dbg shs b sb ->
  related dbg shs (with_fragment b F) (set_fragment sb (Some F)).
Proof.
  intros [W A Bf Bq Cb Sc V].
  destruct (with_fragment_spec dbg b F W) as (W' & SF & SM & Pth & Qy & Fr & Es).
  destruct (accessors_reconcatenate dbg b W)
    as (sch & un & pw & hs & pth & q & f0 & Es1 & Eun & Epw & Ehs & Ept & Eq & Ef & _).
  pose proof (api_by_accessors dbg b W sch un pw hs pth q f0 Es1 Eun Epw Ehs Ept Eq Ef) as Ab.
  destruct SF as (S1 & S2 & S3 & S4 & S5).
  assert (api_of_model dbg (with_fragment b F)
          = Some (api_of_parts (ser (with_fragment b F)) sch un pw hs (port (with_fragment b F)) pth q (Some F))) as Ab'.
  { apply (api_by_accessors dbg _ W'); congruence. }
  rewrite A in Ab. unfold api_of_parts, spec_api_list in Ab.
  injection Ab as E1 E2 E3 E4 E5 E6 E7 E8 E9 E10.
  pose proof (before_fragment_len b W) as Lbf.
  pose proof (before_fragment_pre b) as Pbf.
  assert (agree_pre (nlen (b_before_fragment b)) (ser b) (ser (with_fragment b F))) as Pre.
  { rewrite Es. unfold agree_pre. rewrite nfirstn_app_exact. symmetry.
    unfold agree_pre in Pbf. rewrite <- Pbf. apply nfirstn_all. lia. }
  destruct SM as (M1 & M2 & M3 & M4 & M5 & M6 & M7).
  pose proof (path_start_le_before_query b W) as Lps.
  destruct (before_query_le_before_fragment b W) as [Lbq Pbq].
  destruct (wf_scheme_facts b W) as (Hse1 & Hcolon & Hselt).
  pose proof (wf_se_lt_ps b W) as Hseps.
  constructor.
  - exact W'.
  - rewrite Ab'. f_equal. unfold api_of_parts, spec_api_list. rewrite S5.
    apply list10_eq; [ | symmetry; exact E2 | symmetry; exact E3 | symmetry; exact E4 | symmetry; exact E5 | symmetry; exact E6
       | symmetry; exact E7 | symmetry; exact E8 | symmetry; exact E9 | ].
    + rewrite Es, Bf. unfold get_href, serialize_url.
      cbn [su_scheme su_username su_password su_host su_port su_path su_query su_fragment set_fragment
           includes_credentials serialize_path].
      rewrite !app_nil_r. rewrite <- !app_assoc. reflexivity.
    + destruct F as [|a r]; reflexivity.
  - (* before the fragment *)
    unfold b_before_fragment, with_fragment, url_with. cbn [fragment_start ser].
    rewrite nfirstn_app_exact. exact Bf.
  - (* before the query *)
    transitivity (b_before_query b); [|exact Bq]. unfold b_before_query at 1. unfold with_fragment, url_with. cbn [query_start fragment_start ser].
    destruct (query_start b) as [qi|] eqn:Eqs.
    + unfold b_before_query in *. rewrite Eqs in *.
      pose proof (qf_q (wf_qf_facts b W)) as Q1. rewrite Eqs in Q1.
      rewrite nlen_nfirstn in Lbq by lia.
      rewrite nfirstn_app_le by lia. unfold agree_pre in Pbq. rewrite nlen_nfirstn in Pbq by lia.
      rewrite nfirstn_nfirstn in Pbq by lia. symmetry. exact Pbq.
    + rewrite nfirstn_app_exact. unfold b_before_query, b_before_fragment. rewrite Eqs.
      destruct (fragment_start b); reflexivity.
  - (* cannot be a base *)
    transitivity (cannot_be_a_base b); [|exact Cb]. rewrite (cannot_be_a_base_eval _ W'), (cannot_be_a_base_eval _ W). do 2 f_equal.
    rewrite M1. unfold byte_eqb.
    destruct (N.ltb_spec (scheme_end b + 1) (nlen (b_before_fragment b))) as [Hlt|Hge].
    + rewrite (pre_nnth _ _ _ _ Pre Hlt). reflexivity.
    + assert (nlen (b_before_fragment b) = scheme_end b + 1) as El by lia.
      rewrite Es. rewrite nnth_app_ge by lia. rewrite El, N.sub_diag. cbn [nnth nth_error N.to_nat].
      unfold b_before_fragment in El. destruct (fragment_start b) as [fi|] eqn:Efs.
      * pose proof (qf_f (wf_qf_facts b W)) as Q2. rewrite Efs in Q2. destruct Q2 as (Q2a & Q2b & Q2c).
        rewrite nlen_nfirstn in El by lia. subst fi. apply byte_eqb_nnth in Q2b. rewrite Q2b. reflexivity.
      * assert (nnth (ser b) (scheme_end b + 1) = None) as ->.
        { unfold nnth. apply nth_error_None. unfold nlen in El. lia. }
        reflexivity.
  - (* scheme *)
    transitivity (b_scheme b); [|exact Sc]. unfold b_scheme. rewrite M1. apply (pre_firstn _ _ _ _ Pre). lia.
  - destruct V as [V1 V2]. split; [exact V1 | exact V2].
Qed.

Lemma before_query_pre b : wf_b b = true -> agree_pre (nlen (b_before_query b)) (ser b) (b_before_query b).
Proof.
  intros W. pose proof (before_fragment_pre b) as P1. destruct (before_query_le_before_fragment b W) as [L P2].
  eapply agree_pre_trans; [|exact P2]. eapply agree_pre_le; [exact P1 | exact L].
Qed.

(* the byte of the base at the end of "before the query": nothing, '?' or '#' *)
Lemma before_query_next b : wf_b b = true ->
  nnth (ser b) (nlen (b_before_query b)) = None \/ nnth (ser b) (nlen (b_before_query b)) = Some 63
  \/ nnth (ser b) (nlen (b_before_query b)) = Some 35.
Proof.
  intros W. pose proof (wf_qf_facts b W) as QF. pose proof (qf_q QF) as Q1. pose proof (qf_f QF) as Q2.
  unfold b_before_query. destruct (query_start b) as [q|]; [|destruct (fragment_start b) as [f|]].
  - destruct Q1 as (_ & Q & Hl). rewrite nlen_nfirstn by lia. right. left. apply byte_eqb_nnth. exact Q.
  - destruct Q2 as (_ & Q & Hl). rewrite nlen_nfirstn by lia. right. right. apply byte_eqb_nnth. exact Q.
  - left. unfold nnth. apply nth_error_None. unfold nlen. lia.
Qed.

Theorem related_with_query b sb Q F : related dbg shs b sb -> forallb no_h Q = true ->
  related dbg shs (with_query b Q F) (set_fragment (set_query sb (Some Q)) F).
Proof.
  intros [W A Bf Bq Cb Sc V] HQ.
  destruct (with_query_spec dbg (fun _ => Err EmptyHost) (fun _ => Err EmptyHost) b Q F W HQ) as (W' & SF & SM & Pth & Qy & Fr).
  assert (ser (with_query b Q F) = b_before_query b ++ 63 :: Q ++ qf_ftext F) as Es by reflexivity.
  destruct (accessors_reconcatenate dbg b W)
    as (sch & un & pw & hs & pth & q & f0 & Es1 & Eun & Epw & Ehs & Ept & Eq & Ef & _).
  pose proof (api_by_accessors dbg b W sch un pw hs pth q f0 Es1 Eun Epw Ehs Ept Eq Ef) as Ab.
  destruct SF as (S1 & S2 & S3 & S4 & S5).
  assert (api_of_model dbg (with_query b Q F)
          = Some (api_of_parts (ser (with_query b Q F)) sch un pw hs (port (with_query b Q F)) pth (Some Q) F)) as Ab'.
  { apply (api_by_accessors dbg _ W'); congruence. }
  rewrite A in Ab. unfold api_of_parts, spec_api_list in Ab.
  injection Ab as E1 E2 E3 E4 E5 E6 E7 E8 E9 E10.
  pose proof (before_query_pre b W) as Pbq.
  destruct (before_query_le_before_fragment b W) as [Lbq _].
  pose proof (before_fragment_len b W) as Lbf.
  assert (agree_pre (nlen (b_before_query b)) (ser b) (ser (with_query b Q F))) as Pre.
  { rewrite Es. unfold agree_pre. rewrite nfirstn_app_exact. symmetry.
    unfold agree_pre in Pbq. rewrite <- Pbq. apply nfirstn_all. lia. }
  destruct SM as (M1 & M2 & M3 & M4 & M5 & M6 & M7).
  pose proof (path_start_le_before_query b W) as Lps.
  destruct (wf_scheme_facts b W) as (Hse1 & Hcolon & Hselt).
  pose proof (wf_se_lt_ps b W) as Hseps.
  constructor.
  - exact W'.
  - rewrite Ab'. f_equal. unfold api_of_parts, spec_api_list. rewrite S5.
    apply list10_eq; [ | symmetry; exact E2 | symmetry; exact E3 | symmetry; exact E4 | symmetry; exact E5
                       | symmetry; exact E6 | symmetry; exact E7 | symmetry; exact E8 | | ].
    + rewrite Es, Bq. unfold get_href, serialize_url.
      cbn [su_scheme su_username su_password su_host su_port su_path su_query su_fragment set_fragment set_query
           includes_credentials serialize_path].
      rewrite !app_nil_r. rewrite <- !app_assoc. destruct F; reflexivity.
    + destruct Q as [|a r]; reflexivity.
    + destruct F as [[|a r]|]; reflexivity.
  - (* before the fragment *)
    transitivity (b_before_query b ++ 63 :: Q).
    + unfold b_before_fragment, with_query, url_with. cbn [fragment_start ser]. destruct F as [x|]; cbn [qf_ftext].
      * replace (nlen (b_before_query b) + 1 + nlen Q) with (nlen (b_before_query b ++ 63 :: Q))
          by (rewrite nlen_app, nlen_cons; lia).
        replace (b_before_query b ++ 63 :: Q ++ 35 :: x) with ((b_before_query b ++ 63 :: Q) ++ 35 :: x)
          by (rewrite <- app_assoc; reflexivity).
        apply nfirstn_app_exact.
      * rewrite app_nil_r. reflexivity.
    + rewrite Bq. unfold serialize_url.
      cbn [su_scheme su_username su_password su_host su_port su_path su_query su_fragment set_fragment set_query
           includes_credentials serialize_path].
      rewrite !app_nil_r. rewrite <- !app_assoc. reflexivity.
  - (* before the query *)
    transitivity (b_before_query b); [|exact Bq].
    unfold b_before_query at 1. unfold with_query, url_with. cbn [query_start fragment_start ser].
    apply nfirstn_app_exact.
  - (* cannot be a base *)
    transitivity (cannot_be_a_base b); [|exact Cb].
    rewrite (cannot_be_a_base_eval _ W'), (cannot_be_a_base_eval _ W). do 2 f_equal.
    rewrite M1. unfold byte_eqb.
    destruct (N.ltb_spec (scheme_end b + 1) (nlen (b_before_query b))) as [Hlt|Hge].
    + rewrite (pre_nnth _ _ _ _ Pre Hlt). reflexivity.
    + assert (nlen (b_before_query b) = scheme_end b + 1) as El by lia.
      rewrite Es. rewrite nnth_app_ge by lia. rewrite El, N.sub_diag. cbn [nnth nth_error N.to_nat].
      rewrite <- El. destruct (before_query_next b W) as [K|[K|K]]; rewrite K; reflexivity.
  - (* scheme *)
    transitivity (b_scheme b); [|exact Sc]. unfold b_scheme. rewrite M1. apply (pre_firstn _ _ _ _ Pre). lia.
  - destruct V as [V1 V2]. split; [exact V1 | exact V2].
Qed.

(* parse results of the opaque class are related to the Standard's *)
Theorem related_opaque sch P q f : opaque_ok sch P q f ->
  related dbg shs (opaque_url sch P q f) (spec_opaque_url sch P q f).
Proof.
  intros K. pose proof (opaque_url_wf _ _ _ _ K) as W.
  set (A := sch ++ [58]).
  constructor.
  - exact W.
  - apply api_opaque. exact K.
  - unfold b_before_fragment, opaque_url, serialize_url, spec_opaque_url, opaque_ser, opaque_pre.
    cbn [fragment_start ser su_scheme su_username su_password su_host su_port su_path su_query su_fragment serialize_path].
    fold A. rewrite app_nil_r. unfold qf_text.
    destruct f as [y|]; cbn [qf_fs qf_ftext].
    + replace (nlen (A ++ P) + nlen (qf_qtext q)) with (nlen ((A ++ P) ++ qf_qtext q)) by apply nlen_app.
      rewrite app_assoc, nfirstn_app_exact. unfold A. rewrite <- !app_assoc. destruct q; reflexivity.
    + rewrite app_nil_r. unfold A. rewrite <- !app_assoc. destruct q; reflexivity.
  - unfold b_before_query, opaque_url, serialize_url, spec_opaque_url, opaque_ser, opaque_pre.
    cbn [query_start fragment_start ser su_scheme su_username su_password su_host su_port su_path su_query
         su_fragment serialize_path set_query].
    fold A. rewrite !app_nil_r. unfold qf_text.
    destruct q as [x|]; destruct f as [y|]; cbn [qf_qs qf_fs qf_qtext qf_ftext].
    + rewrite nfirstn_app_exact. unfold A. rewrite <- !app_assoc. reflexivity.
    + rewrite nfirstn_app_exact. unfold A. rewrite <- !app_assoc. reflexivity.
    + cbn [app]. replace (nlen (A ++ P) + nlen (@nil N)) with (nlen (A ++ P)) by (unfold nlen at 3; cbn [length]; lia).
      rewrite nfirstn_app_exact. unfold A. rewrite <- !app_assoc. reflexivity.
    + cbn [app]. rewrite app_nil_r. unfold A. rewrite <- !app_assoc. reflexivity.
  - apply opaque_url_cbb. exact K.
  - unfold b_scheme, opaque_url, opaque_ser, opaque_pre. cbn [scheme_end ser]. rewrite <- !app_assoc.
    apply nfirstn_app_exact.
  - split; intros _; cbn; repeat split; reflexivity.
Qed.

End Closure.

(* ================= class "fragment only": the cleaned reference starts with '#' ================= *)
Section FragmentOnly.
Variable dbg : bool.
Variable hp hpo : list N -> result host.
Variable hd : host -> list N.
Variable shp : bool -> list N -> option spec_host.
Variable shs : spec_host -> list N.

Theorem eq_fragment_only input b sb f : usv_list input -> related dbg shs b sb ->
  spec_clean input = 35 :: f ->
  exists su', spec_basic_url_parse shp input (Some sb) = BDone su'
    /\ (parse_url dbg hp hpo hd None (Some b) input = PErr Overflow
        \/ exists u', parse_url dbg hp hpo hd None (Some b) input = POk u' /\ related dbg shs u' su').
Proof.
  intros Hu R Hc. eexists. split; [exact (spec_fragment_only shp input sb f Hc (rel_valid _ _ _ _ R))|].
  assert (ref_text input = 35 :: f) as Hr.
  { rewrite ref_text_eq, <- spec_clean_is_ntnl_trim. exact Hc. }
  rewrite (join_frag_eq dbg hp hpo hd b input f Hu Hr).
  unfold to_u32. destruct (nlen (b_before_fragment b) <=? U32_MAX_P); cbn [pbind]; [|left; reflexivity].
  right. eexists. split; [reflexivity|].
  unfold upe. rewrite <- (enc_bridge T_FRAGMENT in_fragment_set f rel_FRAGMENT).
  apply related_with_fragment. exact R.
Qed.

End FragmentOnly.

(* ================= class "query only": the cleaned reference starts with '?' ================= *)
Section QueryOnly.
Variable dbg : bool.
Variable hp hpo : list N -> result host.
Variable hd : host -> list N.
Variable shp : bool -> list N -> option spec_host.
Variable shs : spec_host -> list N.

Lemma before_hash_same q : C08_Simple.before_hash q = before_hash q.
Proof. induction q as [|c r IH]; [reflexivity|]. cbn. rewrite IH. reflexivity. Qed.
Lemma after_hash_same q : C08_Simple.after_hash q = after_hash q.
Proof. induction q as [|c r IH]; [reflexivity|]. cbn. rewrite IH. reflexivity. Qed.

(* the model on "?q": Overflow, or the base with its query and fragment replaced *)
Lemma model_query_only b input q : wf_b b = true -> cannot_be_a_base b = Some false ->
  usv_list input -> ref_text input = 63 :: q ->
  parse_url dbg hp hpo hd None (Some b) input = PErr Overflow
  \/ (parse_url dbg hp hpo hd None (Some b) input = POk (with_query b (ref_query (b_st b) q) (ref_fragment q))
      /\ forallb no_h (ref_query (b_st b) q) = true).
Proof.
  intros W Hc Hu He.
  destruct (parse_url dbg hp hpo hd None (Some b) input) as [u'|e|] eqn:E.
  - right. destruct (join_query dbg hp hpo hd b input q u' W Hc Hu He E) as [-> K]. split; [reflexivity | exact K].
  - left. f_equal. revert E.
    unfold parse_url. set (l := input_new_trim_c0 input). change (ntnl l = 63 :: q) in He.
    rewrite parse_scheme_first_not_alpha by (rewrite He; reflexivity).
    destruct (inp_next_some l 63 q He) as (r & En & Er & Et).
    unfold inp_starts_with_char. rewrite En. cbn [N.eqb Pos.eqb]. rewrite Hc.
    assert (forall st se s, parse_query_and_fragment None CUrlParser st se s l = PErr Overflow
                            \/ exists x, parse_query_and_fragment None CUrlParser st se s l = POk x) as Tot.
    { intros st se s. unfold parse_query_and_fragment. rewrite En. cbn [N.eqb Pos.eqb].
      unfold to_u32. destruct (nlen s <=? U32_MAX_P); cbn [pbind]; [|left; reflexivity].
      destruct (parse_query _ _ _ _ _ _) as [s1 [r2|]]; [|right; eexists; reflexivity].
      destruct (nlen s1 <=? U32_MAX_P); cbn [pbind]; [right; eexists; reflexivity | left; reflexivity]. }
    destruct (st_is_file (scheme_type_of (b_scheme b))).
    + unfold parse_file, inp_split_first. rewrite En. cbn [is_slash_or_bslash N.eqb Pos.eqb orb].
      destruct (Tot (scheme_type_of (b_scheme b)) (scheme_end b) (b_before_query b)) as [K|[[[s qs] fs] K]];
        rewrite K; cbn [pbind]; intros H; [inversion H; reflexivity | discriminate].
    + unfold parse_relative, inp_split_first. rewrite En. cbn [N.eqb Pos.eqb].
      destruct (Tot (scheme_type_of (b_scheme b)) (scheme_end b) (b_before_query b)) as [K|[[[s qs] fs] K]];
        rewrite K; cbn [pbind]; intros H; [inversion H; reflexivity | discriminate].
  - exfalso. revert E.
    unfold parse_url. set (l := input_new_trim_c0 input). change (ntnl l = 63 :: q) in He.
    rewrite parse_scheme_first_not_alpha by (rewrite He; reflexivity).
    destruct (inp_next_some l 63 q He) as (r & En & Er & Et).
    unfold inp_starts_with_char. rewrite En. cbn [N.eqb Pos.eqb]. rewrite Hc.
    assert (forall st se s, parse_query_and_fragment None CUrlParser st se s l = PErr Overflow
                            \/ exists x, parse_query_and_fragment None CUrlParser st se s l = POk x) as Tot.
    { intros st se s. unfold parse_query_and_fragment. rewrite En. cbn [N.eqb Pos.eqb].
      unfold to_u32. destruct (nlen s <=? U32_MAX_P); cbn [pbind]; [|left; reflexivity].
      destruct (parse_query _ _ _ _ _ _) as [s1 [r2|]]; [|right; eexists; reflexivity].
      destruct (nlen s1 <=? U32_MAX_P); cbn [pbind]; [right; eexists; reflexivity | left; reflexivity]. }
    destruct (st_is_file (scheme_type_of (b_scheme b))).
    + unfold parse_file, inp_split_first. rewrite En. cbn [is_slash_or_bslash N.eqb Pos.eqb orb].
      destruct (Tot (scheme_type_of (b_scheme b)) (scheme_end b) (b_before_query b)) as [K|[[[s qs] fs] K]];
        rewrite K; cbn [pbind]; intros H; discriminate.
    + unfold parse_relative, inp_split_first. rewrite En. cbn [N.eqb Pos.eqb].
      destruct (Tot (scheme_type_of (b_scheme b)) (scheme_end b) (b_before_query b)) as [K|[[[s qs] fs] K]];
        rewrite K; cbn [pbind]; intros H; discriminate.
Qed.

Theorem eq_query_only input b sb q : usv_list input -> related dbg shs b sb ->
  has_opaque_path sb = false -> spec_clean input = 63 :: q ->
  exists su', spec_basic_url_parse shp input (Some sb) = BDone su'
    /\ (parse_url dbg hp hpo hd None (Some b) input = PErr Overflow
        \/ exists u', parse_url dbg hp hpo hd None (Some b) input = POk u' /\ related dbg shs u' su').
Proof.
  intros Hu R Hop Hc. eexists.
  split; [exact (spec_query_only shp input sb q Hc (rel_valid _ _ _ _ R) Hop)|].
  assert (ref_text input = 63 :: q) as Hr.
  { rewrite ref_text_eq, <- spec_clean_is_ntnl_trim. exact Hc. }
  assert (cannot_be_a_base b = Some false) as Hcb by (rewrite (rel_cbb _ _ _ _ R), Hop; reflexivity).
  destruct (model_query_only b input q (rel_wf _ _ _ _ R) Hcb Hu Hr) as [E|[E K]]; [left; exact E|].
  right. eexists. split; [exact E|].
  assert (ref_query (b_st b) q = upe (qset_of sb) (before_hash q)) as EQ.
  { unfold ref_query, b_st, qset_of, is_special, query_set. rewrite (rel_sch _ _ _ _ R).
    rewrite special_schemes_are_the_standards, before_hash_same.
    destruct (is_special_scheme (su_scheme sb)); apply enc_bridge; [exact rel_SPECIAL_QUERY | exact rel_QUERY]. }
  assert (ref_fragment q = option_map (upe in_fragment_set) (after_hash q)) as EF.
  { unfold ref_fragment. rewrite after_hash_same. destruct (after_hash q) as [x|]; [|reflexivity].
    cbn [option_map]. f_equal. apply enc_bridge. exact rel_FRAGMENT. }
  unfold ref_result. rewrite <- EQ, <- EF. apply related_with_query; [exact R | exact K].
Qed.

(* a reference without scheme, not starting with '#', against a base that cannot be a base: both fail *)
Theorem eq_opaque_base_fails input b sb : related dbg shs b sb -> has_opaque_path sb = true ->
  spec_scheme (spec_clean input) = None -> starts_with_cp 35 (spec_clean input) = false ->
  (exists u, spec_basic_url_parse shp input (Some sb) = BFailure u)
  /\ parse_url dbg hp hpo hd None (Some b) input = PErr RelativeUrlWithCannotBeABaseBase.
Proof.
  intros R Hop Hs H35. split; [exact (spec_opaque_base_fails shp input sb Hs H35 Hop)|].
  rewrite spec_clean_is_ntnl_trim in Hs, H35.
  unfold parse_url. set (l := input_new_trim_c0 input) in *.
  pose proof (scheme_state_eq l) as K. rewrite Hs in K.
  destruct (parse_scheme CUrlParser l) as [[s r]|]; [contradiction|].
  assert (inp_starts_with_char 35 l = false) as ->.
  { unfold inp_starts_with_char. destruct (inp_next l) as [[c r]|] eqn:En; [|reflexivity].
    destruct (inp_next_ntnl l c r En) as [E _]. rewrite E in H35. exact H35. }
  rewrite (rel_cbb _ _ _ _ R), Hop. reflexivity.
Qed.

End QueryOnly.
