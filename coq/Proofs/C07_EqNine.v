(* Proofs/C07_EqNine.v - nine of the ten setters: the host setter on EVERY value (Proofs/C07_EqHostNoPort.v: no port
   part; Proofs/C07_EqHostPort.v: a port part) preserves corrS outside classes 2, 3, 4, 7 of Known_C07 (host_step);
   with the eight setters of Proofs/C07_EqParseAll.v: one assignment through any of hostname, protocol, hash, search,
   username, password, port, href, host preserves corrS (nine_step), hence every history of them does
   (nine_histories), and C07_statement restricted to the nine (statement_nine_all).  Missing: pathname. *)
From Coq Require Import Bool.
From RU Require Import Base.Prelude Base.Utf8 Model.AsciiSet Gen.Tables Model.PercentEncoding
  Model.HostT Model.UrlRecord Model.Parser Model.Setters Model.WF Model.KnownC01 Model.KnownC07 Spec.Whatwg
  Proofs.ListN Proofs.C03_WF Proofs.C06_Steps Proofs.C06_FragQuery Proofs.C06_Host Proofs.C01_EqRun
  Proofs.C07_Defs Proofs.C07_Histories Proofs.C07_Corr Proofs.C07_SpecRun Proofs.C07_EqFive Proofs.C07_SpecProto Proofs.C07_EqProto Proofs.C07_EqSix
  Proofs.C07_SpecHost Proofs.C07_EqHostname Proofs.C07_EqSeven Proofs.C07_ParseExtra Proofs.C07_EqParseAll
  Proofs.C07_EqHostNoPort Proofs.C07_SpecHostPort Proofs.C07_EqHostPort.

(* ---------- host, every value ---------- *)
Section Host.
Variable dbg : bool.
Variable hp ho : list N -> result host.
Variable hd : host -> list N.
Variable shp : bool -> list N -> option spec_host.
Variable shs : spec_host -> list N.
Hypothesis HF : host_fns_ok hp ho hd shp shs.

Theorem host_step u su v : corrS dbg shs u su -> usv_list v -> known_c07 u QHost v = 0 ->
  exists u' su', model_set dbg hp ho hd QHost u v = Some u' /\ spec_step shp QHost su v = Some su'
    /\ corrS dbg shs u' su'.
Proof.
  intros CS Hv Hk. destruct (host_value_portless u v) eqn:Hpl.
  - exact (host_portless_step dbg hp ho hd shp shs HF u su v CS Hv Hk Hpl).
  - destruct CS as [C S]. unfold host_value_portless, u_scheme_or_empty in Hpl.
    rewrite (co_scheme _ _ _ _ C) in Hpl. apply negb_false_iff in Hpl.
    destruct (host_colon_step dbg hp ho hd shp shs u su v HF C Hk Hpl) as (u' & su' & A & B & C').
    exists u', su'. split; [exact A|]. split; [exact B|]. split; [exact C'|].
    unfold spec_step in B. cbn [setter_of_q] in B.
    destruct (spec_set shp SetHost su v) as [x|] eqn:E; [|discriminate B]. injection B as <-.
    destruct (has_opaque_path su) eqn:Hop.
    { cbn [spec_set] in E. rewrite Hop in E. injection E as <-. exact S. }
    pose proof (co_wf _ _ _ _ C) as W. pose proof (cannot_be_a_base_eval u W) as Ecb.
    change (negb (byte_eqb (ser u) (scheme_end u + 1) 47)) with (is_opaque_b u) in Ecb.
    rewrite (co_opaque _ _ _ _ C), Hop in Ecb.
    unfold known_c07, u_cbb, u_scheme_or_empty in Hk. rewrite Ecb, (co_scheme _ _ _ _ C) in Hk.
    destruct (list_eqb (su_scheme su) s_file) eqn:Ef; [discriminate Hk|]. change s_file with str_file in Ef.
    exact (spec_host_sane shp su v x (host_fns_empty_only hp ho hd shp shs HF) Ef S E).
Qed.

Theorem host_step_api u su v : corrS dbg shs u su -> usv_list v -> known_c07 u QHost v = 0 ->
  exists u' su', model_set dbg hp ho hd QHost u v = Some u' /\ spec_step shp QHost su v = Some su'
    /\ corrS dbg shs u' su' /\ model_api dbg u' = Some (spec_api_list shs su').
Proof.
  intros C Hv Hk. destruct (host_step u su v C Hv Hk) as (u' & su' & A & B & C').
  exists u', su'. split; [exact A|]. split; [exact B|]. split; [exact C'|]. exact (corr_api dbg shs u' su' (proj1 C')).
Qed.

End Host.

(* ---------- nine setters ---------- *)
Section Nine.
Variable dbg : bool.
Variable hp ho : list N -> result host.
Variable hd : host -> list N.
Variable shp : bool -> list N -> option spec_host.
Variable shs : spec_host -> list N.
Hypothesis HP : host_parse_ok hp ho hd shp shs.

(* the assignments covered: any value for the seven and for host; for href a value that fits and whose scheme is
   not "file" (href_ok of Proofs/C07_EqParseAll.v) *)
Definition nine_ok (s : qsetter) (v : list N) : Prop :=
  seven s = true \/ s = QHost \/ (s = QHref /\ href_ok shp shs v).

Fixpoint nine_ops (ops : list (qsetter * list N)) : Prop :=
  match ops with
  | [] => True
  | (s, v) :: r => nine_ok s v /\ usv_list v /\ nine_ops r
  end.

Theorem nine_step u su s v : corrS dbg shs u su -> nine_ok s v -> usv_list v -> known_c07 u s v = 0 ->
  exists u' su', model_set dbg hp ho hd s u v = Some u' /\ spec_step shp s su v = Some su' /\ corrS dbg shs u' su'.
Proof.
  intros C [Hs|[->|[-> Hf]]] Hv Hk.
  - exact (seven_step dbg hp ho hd shp shs (proj1 HP) u su s v C Hs Hv Hk).
  - exact (host_step dbg hp ho hd shp shs (proj1 HP) u su v C Hv Hk).
  - exact (href_step dbg hp ho hd shp shs HP u su v C Hv Hk Hf).
Qed.

Lemma nine_run : forall ops u su, corrS dbg shs u su -> nine_ops ops -> outside_known dbg hp ho hd u ops ->
  exists u' su', model_run dbg hp ho hd u ops = Some u' /\ spec_run shp su ops = Some su' /\ corrS dbg shs u' su'.
Proof.
  induction ops as [|[s v] r IH]; intros u su C Hf Ho.
  - exists u, su. cbn [model_run spec_run]. auto.
  - cbn [nine_ops outside_known] in Hf, Ho. destruct Hf as (Hs & Hv & Hr). destruct Ho as [Hk Hrest].
    destruct (nine_step u su s v C Hs Hv Hk) as (u1 & su1 & Em & Es & C1).
    rewrite Em in Hrest. destruct (IH u1 su1 C1 Hr Hrest) as (u2 & su2 & Em2 & Es2 & C2).
    exists u2, su2. cbn [model_run spec_run]. rewrite Em, Es. auto.
Qed.

Lemma nine_ops_firstn n : forall ops, nine_ops ops -> nine_ops (firstn n ops).
Proof.
  induction n as [|n IH]; intros ops H; [exact I|]. destruct ops as [|[s v] r]; [exact I|].
  cbn [firstn nine_ops] in *. destruct H as (A & B & Cc). auto.
Qed.

Theorem nine_histories ops u su : corrS dbg shs u su -> nine_ops ops -> outside_known dbg hp ho hd u ops ->
  forall n, exists u' su',
    model_run dbg hp ho hd u (firstn n ops) = Some u'
    /\ spec_run shp su (firstn n ops) = Some su'
    /\ corrS dbg shs u' su'
    /\ model_api dbg u' = Some (spec_api_list shs su').
Proof.
  intros C Hf Ho n.
  destruct (nine_run (firstn n ops) u su C (nine_ops_firstn n ops Hf) (outside_known_firstn dbg hp ho hd n ops u Ho))
    as (u' & su' & A & B & C').
  exists u', su'. split; [exact A|]. split; [exact B|]. split; [exact C'|]. exact (corr_api dbg shs u' su' (proj1 C')).
Qed.

(* parse, then any history of the nine *)
Theorem nine_from_parse_all input u ops : usv_list input -> known_c01 None input = 0 -> input_is_file input = false ->
  parse_url dbg hp ho hd None None input = POk u ->
  nine_ops ops -> outside_known dbg hp ho hd u ops ->
  exists su, spec_basic_url_parse shp input None = BDone su
    /\ model_api dbg u = Some (spec_api_list shs su)
    /\ forall n, exists u' su',
         model_run dbg hp ho hd u (firstn n ops) = Some u'
         /\ spec_run shp su (firstn n ops) = Some su'
         /\ model_api dbg u' = Some (spec_api_list shs su').
Proof.
  intros Hu Hk Hif Hp Hops Hout.
  destruct (parse_all_corrS dbg hp ho hd shp shs HP input u Hu Hk Hif Hp) as (su & Hs & C).
  exists su. split; [exact Hs|]. split; [exact (corr_api dbg shs u su (proj1 C))|].
  intros n.
  destruct (nine_histories ops u su C Hops Hout n) as (u' & su' & A & B & _ & D).
  exists u', su'. split; [exact A|]. split; [exact B | exact D].
Qed.

Theorem statement_nine_all :
  exists R : url -> spec_url -> Prop,
    (forall u su, R u su -> model_api dbg u = Some (spec_api_list shs su))
    /\ (forall input u, usv_list input -> known_c01 None input = 0 -> input_is_file input = false ->
          parse_url dbg hp ho hd None None input = POk u ->
          exists su, spec_basic_url_parse shp input None = BDone su /\ R u su)
    /\ (forall u su s v, R u su -> nine_ok s v -> usv_list v -> known_c07 u s v = 0 ->
          exists u' su', model_set dbg hp ho hd s u v = Some u' /\ spec_step shp s su v = Some su' /\ R u' su').
Proof.
  exists (corrS dbg shs). split; [intros u su C; exact (corr_api dbg shs u su (proj1 C))|].
  split; [exact (parse_all_corrS dbg hp ho hd shp shs HP) | exact nine_step].
Qed.

End Nine.
