(* Proofs/C05_PathClean.v - what the hierarchical path states of the parser write, in EVERY context
   (URL parser, Url::set_path, path_segments_mut) and for ANY input numbers: the text in front of the
   path is kept and every byte from path_start on is outside D_PATH = ? # space dquote < > backtick { }.
   (Proofs/C06_PathParser.v has the same invariant for '?' / '#' only and the setter contexts only.) *)
From RU Require Import Base.Prelude Base.Utf8 Model.AsciiSet Gen.Tables Model.PercentEncoding
  Model.HostT Model.UrlRecord Model.Parser Model.Setters Model.WF
  Proofs.ListN Proofs.C05_Enc Proofs.C06_List Proofs.C06_WFI Proofs.C06_PathParser.

Definition pq (c : N) : bool := negb (existsb (N.eqb c) D_PATH).

Lemma pq_free l : forallb pq l = true -> forall d, In d D_PATH -> ~ In d l.
Proof.
  intros H d Hd Hin. rewrite forallb_forall in H. specialize (H d Hin). unfold pq in H.
  apply negb_true_iff in H. assert (existsb (N.eqb d) D_PATH = true) as X; [|congruence].
  apply existsb_exists. exists d. split; [exact Hd | apply N.eqb_refl].
Qed.

Lemma pq_no_qh c : pq c = true -> no_qh c = true.
Proof. unfold pq, D_PATH, no_qh. cbn [existsb]. lia. Qed.

Lemma path_set_covers ctx st : forallb (fun d => should_encode (path_set ctx st) d) D_PATH = true.
Proof. unfold path_set. destruct (ctx_eqb ctx CPathSegmentSetter), (st_is_special st); vm_compute; reflexivity. Qed.

(* no condition on xs *)
Lemma pq_pe_display ctx st xs : forallb pq (pe_display (path_set ctx st) xs) = true.
Proof.
  apply forallb_forall. intros c Hc.
  pose proof (pe_display_out (path_set ctx st) xs) as F. rewrite Forall_forall in F.
  destruct (F c Hc) as [[_ Hs]|[->|Hx]].
  - destruct (pq c) eqn:E; [reflexivity|]. exfalso. unfold pq in E. apply negb_false_iff in E.
    apply existsb_exists in E. destruct E as (d & Hd & E). apply N.eqb_eq in E. subst d.
    pose proof (path_set_covers ctx st) as Cv. rewrite forallb_forall in Cv. rewrite (Cv c Hd) in Hs. discriminate.
  - reflexivity.
  - unfold is_hexu, is_digit in Hx. unfold pq, D_PATH. cbn [existsb]. lia.
Qed.

Lemma pq_alpha c : is_alpha c = true -> pq c = true.
Proof. unfold is_alpha, is_upper, is_lower, pq, D_PATH. cbn [existsb]. lia. Qed.

Lemma last_slash_bound' ps s1 : last_slash_can_be_removed s1 ps = true -> ps + 1 <= nlen s1 - 1.
Proof.
  unfold last_slash_can_be_removed. destruct (rfind 47 (nfirstn (nlen s1 - 1) s1)) as [p|] eqn:E; [|discriminate].
  intros H. apply andb_true_iff in H. destruct H as [H _]. apply rfind_bound in E.
  pose proof (nlen_nfirstn_le (nlen s1 - 1) s1). lia.
Qed.

Section PathInvQ.
Variables (dbg : bool) (ps : N) (pre : list N).
Hypothesis Hpre : nlen pre = ps.

Definition PInvQ (ser : list N) : Prop := nfirstn ps ser = pre /\ forallb pq (nskipn ps ser) = true.

Lemma pinvq_len ser : PInvQ ser -> ps <= nlen ser.
Proof.
  intros [H _]. assert (nlen (nfirstn ps ser) = ps) as E by (rewrite H; exact Hpre).
  unfold nlen, nfirstn in *. rewrite firstn_length in E. lia.
Qed.

Lemma pinvq_app ser x : PInvQ ser -> forallb pq x = true -> PInvQ (ser ++ x).
Proof.
  intros H Hx. pose proof (pinvq_len ser H) as L. destruct H as [H1 H2]. split.
  - rewrite nfirstn_app_le by exact L. exact H1.
  - rewrite nskipn_app_le by lia. apply forallb_app_iff. split; assumption.
Qed.

Lemma pinvq_trunc ser n : PInvQ ser -> ps <= n -> PInvQ (nfirstn n ser).
Proof.
  intros [H1 H2] Hn. split.
  - rewrite nfirstn_nfirstn by exact Hn. exact H1.
  - replace n with (ps + (n - ps)) by lia. rewrite nskipn_nfirstn_comm. apply forallb_nfirstn. exact H2.
Qed.

Lemma pinvq_push_pending ctx st ser pending : PInvQ ser -> PInvQ (push_pending ctx st ser pending).
Proof.
  intros H. unfold push_pending. destruct pending as [|c r]; [exact H|].
  unfold push_encoded. apply pinvq_app; [exact H|]. apply pq_pe_display.
Qed.

Lemma pinvq_pop_path st ser s' : pop_path st ps ser = POk s' -> PInvQ ser -> PInvQ s'.
Proof.
  unfold pop_path. intros H I. destruct (ps <? nlen ser); [|inversion H; subst; exact I].
  destruct (rfind 47 (nskipn ps ser)) as [sp|]; [|discriminate].
  destruct (st_is_file st && is_normalized_wdl (nskipn (ps + sp + 1) ser)); inversion H; subst; [exact I|].
  unfold truncate. apply pinvq_trunc; [exact I | lia].
Qed.

Lemma pinvq_shorten_path st ser s' : shorten_path st ps ser = POk s' -> PInvQ ser -> PInvQ s'.
Proof.
  unfold shorten_path. intros H I. destruct (nlen ser =? ps); [inversion H; subst; exact I|].
  destruct (st_is_file st && is_normalized_wdl (nskipn ps ser)); [inversion H; subst; exact I|].
  eapply pinvq_pop_path; eassumption.
Qed.

Lemma pinvq_finish_segment st ser seg_start ews hh s' hh' :
  finish_segment dbg st ps ser seg_start ews hh = POk (s', hh') -> PInvQ ser -> ps <= seg_start -> PInvQ s'.
Proof.
  unfold finish_segment. intros H I Hs.
  destruct (slice_o ser seg_start (if ews then nlen ser - 1 else nlen ser)) as [seg|]; cbn [of_option pbind] in H; [|discriminate].
  destruct (is_double_dot seg).
  - match type of H with pbind ?c _ = _ => destruct c as [[]| |]; cbn [pbind] in H; try discriminate end.
    set (s1 := truncate ser seg_start) in *.
    assert (PInvQ s1) as I1 by (apply pinvq_trunc; assumption).
    set (s2 := if ends_with_byte 47 s1 && last_slash_can_be_removed s1 ps then nfirstn (nlen s1 - 1) s1 else s1) in *.
    assert (PInvQ s2) as I2.
    { subst s2. destruct (ends_with_byte 47 s1 && last_slash_can_be_removed s1 ps) eqn:E; [|exact I1].
      apply andb_true_iff in E. destruct E as [_ E]. apply last_slash_bound' in E.
      apply pinvq_trunc; [exact I1 | lia]. }
    destruct (shorten_path st ps s2) as [s3| |] eqn:E3; cbn [pbind] in H; try discriminate.
    pose proof (pinvq_shorten_path _ _ _ E3 I2) as I3.
    inversion H; subst. destruct (ews && negb (ends_with_byte 47 s3)); [|exact I3].
    apply pinvq_app; [exact I3 | reflexivity].
  - destruct (is_single_dot seg).
    + inversion H; subst. assert (PInvQ (truncate ser seg_start)) as I1 by (apply pinvq_trunc; assumption).
      destruct (ends_with_byte 47 (truncate ser seg_start)); [exact I1|]. apply pinvq_app; [exact I1 | reflexivity].
    + destruct (st_is_file st && (seg_start =? ps + 1) && is_wdl seg) eqn:Ew; [|inversion H; subst; exact I].
      apply andb_true_iff in Ew. destruct Ew as [_ Ew]. destruct (is_wdl_head seg Ew) as (c & r & -> & Hc).
      inversion H; subst. apply pinvq_app; [apply pinvq_trunc; assumption|].
      cbn [app forallb]. rewrite (pq_alpha c Hc). destruct ews; reflexivity.
Qed.

Lemma pinvq_file_path_fixup st ser : PInvQ ser -> PInvQ (file_path_fixup st ps ser).
Proof.
  intros I. unfold file_path_fixup. destruct (st_is_file st) eqn:E; [|exact I].
  pose proof (pinvq_len ser I) as L. destruct I as [I1 I2].
  assert (nlen (nfirstn ps ser) = ps) as Lp by (apply nlen_nfirstn; lia).
  split.
  - rewrite nfirstn_app_le by lia. rewrite nfirstn_nfirstn by lia. exact I1.
  - rewrite nskipn_app_ge by lia. rewrite Lp, N.sub_diag, nskipn_0.
    cbn [app forallb]. apply drop_while_forallb. exact I2.
Qed.

(* the loop, every context, any input *)
Lemma pinvq_loop ctx st l : forall ser seg_start pending hh s' hh' rem,
  parse_path_loop dbg ctx st ps l ser seg_start pending hh = POk (s', hh', rem) ->
  PInvQ ser -> ps <= seg_start -> PInvQ s'.
Proof.
  induction l as [|c r IH]; intros ser seg_start pending hh s' hh' rem H I Hs; cbn [parse_path_loop] in H.
  - destruct (finish_segment dbg st ps (push_pending ctx st ser pending) seg_start false hh) as [[s2 h2]| |] eqn:E;
      cbn [pbind] in H; try discriminate.
    inversion H; subst. apply pinvq_file_path_fixup.
    eapply pinvq_finish_segment; [exact E | apply pinvq_push_pending; assumption | exact Hs].
  - destruct (is_tnl c).
    { eapply IH; [exact H | apply pinvq_push_pending; assumption | exact Hs]. }
    destruct (negb (ctx_eqb ctx CPathSegmentSetter) && ((c =? 47) || (c =? 92) && st_is_special st)).
    { destruct (finish_segment dbg st ps (push_pending ctx st ser pending ++ [47]) seg_start true hh) as [[s2 h2]| |] eqn:E;
        cbn [pbind] in H; try discriminate.
      assert (PInvQ s2) as I2.
      { eapply pinvq_finish_segment; [exact E | | exact Hs]. apply pinvq_app; [apply pinvq_push_pending; assumption | reflexivity]. }
      eapply IH; [exact H | exact I2 | apply pinvq_len; exact I2]. }
    destruct (((c =? 63) || (c =? 35)) && ctx_eqb ctx CUrlParser).
    { destruct (finish_segment dbg st ps (push_pending ctx st ser pending) seg_start false hh) as [[s2 h2]| |] eqn:E;
        cbn [pbind] in H; try discriminate.
      inversion H; subst. apply pinvq_file_path_fixup.
      eapply pinvq_finish_segment; [exact E | apply pinvq_push_pending; assumption | exact Hs]. }
    destruct (st_is_file st && (ps <? nlen ser) && is_normalized_wdl (nskipn (ps + 1) ser)).
    { eapply IH; [exact H | | lia]. apply pinvq_app; [apply pinvq_push_pending; assumption | reflexivity]. }
    eapply IH; [exact H | exact I | exact Hs].
Qed.

Lemma pinvq_parse_path ctx st hh ser l s' hh' rem :
  parse_path dbg ctx st hh ps ser l = POk (s', hh', rem) -> PInvQ ser -> PInvQ s'.
Proof.
  unfold parse_path. intros H I. eapply pinvq_loop; [exact H | exact I | apply pinvq_len; exact I].
Qed.

End PathInvQ.

(* a whole path written behind s0 *)
Lemma pinvq_start s0 : PInvQ (nlen s0) s0 s0.
Proof. split; [apply nfirstn_all; lia | rewrite nskipn_all by lia; reflexivity]. Qed.

Lemma pinvq_split s0 s' : PInvQ (nlen s0) s0 s' -> exists P, s' = s0 ++ P /\ forallb pq P = true.
Proof.
  intros [H1 H2]. exists (nskipn (nlen s0) s'). split; [|exact H2].
  rewrite <- H1 at 1. symmetry. apply nfirstn_nskipn.
Qed.

Theorem parse_path_start_clean dbg ctx st hh s0 l s1 hh' rem :
  parse_path_start dbg ctx st hh s0 l = POk (s1, hh', rem) ->
  exists P, s1 = s0 ++ P /\ forallb pq P = true.
Proof.
  intros H. apply pinvq_split. unfold parse_path_start in H. cbv zeta in H.
  pose proof (pinvq_start s0) as I0.
  assert (PInvQ (nlen s0) s0 (s0 ++ [47])) as I1 by (apply pinvq_app; [reflexivity | exact I0 | reflexivity]).
  destruct (inp_split_first l) as [mc remaining].
  destruct (st_is_special st).
  - destruct (negb (ends_with_byte 47 s0)).
    + destruct mc as [c|]; [destruct (is_slash_or_bslash c)|];
        eapply (pinvq_parse_path dbg (nlen s0) s0 eq_refl); eassumption.
    + eapply (pinvq_parse_path dbg (nlen s0) s0 eq_refl); eassumption.
  - destruct mc as [c|].
    + destruct ((c =? 63) || (c =? 35)); [inversion H; subst; exact I0|].
      destruct (c =? 47); eapply (pinvq_parse_path dbg (nlen s0) s0 eq_refl); eassumption.
    + eapply (pinvq_parse_path dbg (nlen s0) s0 eq_refl); eassumption.
Qed.
