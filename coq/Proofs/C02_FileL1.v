(* Proofs/C02_FileL1.v - L1 for the file path state: what Parser::parse_path produces for SchemeType::File from ANY
   input, started on a closed list of canonical segments.
   finish_inv_f: the end of a segment (dot segments with the two drive-letter refusals of pop_path /
     last_slash_can_be_removed, the normalisation of a drive-letter first segment) keeps the shape
     pre "/" seg "/" ... "/" cur  with canonical (good_seg_sp) closed segments;
   loop_drive: once the path begins with a normalised drive letter followed by '/' it does so for ever
     (the persistence lemma: pop_path never pops it);
   loop_inv_f: the loop returns the collapse (file_path_fixup) of a canonical path, or a path that begins with a
     normalised drive letter and '/' (the arm that inserts '/' after "C:" fired: F-C01-7). *)
From Coq Require Import String.
From RU Require Import Base.Prelude Base.Utf8 Base.Utf8Facts Model.AsciiSet Gen.Tables
  Model.PercentEncoding Model.HostT Model.UrlRecord Model.Parser Model.Setters Model.WF
  Proofs.ListN Proofs.C14_Set Proofs.C14_Enc Proofs.C14_Views Proofs.C02_Enc Proofs.C02_Parts
  Proofs.C02_Opaque Proofs.C02_Path Proofs.C02_PathL1 Proofs.C02_Reach Proofs.C02_AuthParts
  Proofs.C02_Auth Proofs.C02_AuthWf Proofs.C02_PathSp Proofs.C02_AuthSp Proofs.C02_SetQF Proofs.C02_Canon Proofs.C02_File.
Open Scope N_scope.
Open Scope list_scope.

Lemma alpha_seg_sweep : all_below 128 (fun a => implb (is_alpha a) (good_seg_sp [a; 58])) = true.
Proof. vm_compute. reflexivity. Qed.
Lemma alpha_lt a : is_alpha a = true -> a < 128.
Proof. unfold is_alpha, is_upper, is_lower. lia. Qed.
Lemma alpha_seg a : is_alpha a = true -> good_seg_sp [a; 58] = true.
Proof.
  intros H. pose proof (all_below_spec 128 _ alpha_seg_sweep a (alpha_lt a H)) as G. cbv beta in G.
  rewrite H in G. exact G.
Qed.

Lemma nwdl_last_is_wdl_f t : is_normalized_wdl t = true -> starts_with_wdl (t ++ [47]) = true.
Proof.
  unfold is_normalized_wdl, is_wdl, starts_with_wdl.
  destruct t as [|a [|b [|c r]]]; cbn [length Nat.eqb andb app]; try discriminate.
  intros H. apply andb_true_iff in H. destruct H as [H _]. rewrite andb_true_r in H. rewrite H. reflexivity.
Qed.

Lemma is_wdl_inv s : is_wdl s = true -> exists a b, s = [a; b] /\ is_alpha a = true.
Proof.
  unfold is_wdl, starts_with_wdl. destruct s as [|a [|b [|c r]]]; cbn [length Nat.eqb andb]; try discriminate.
  intros H. exists a, b. split; [reflexivity|]. apply andb_true_iff in H. destruct H as [H _].
  apply andb_true_iff in H. tauto.
Qed.

Section FinishF.
Variable pre : list N.
Variable dbg : bool.
Notation ps := (nlen pre).
Notation Bs := (Bs pre).
Notation Bs_ends := (Bs_ends pre).
Notation Bs_snoc := (Bs_snoc pre).
Notation Bs_len_ge := (Bs_len_ge pre).

Lemma Bs_len_first_f segs : (nlen (Bs segs) =? ps + 1) = match segs with [] => true | _ => false end.
Proof.
  unfold C02_PathL1.Bs. rewrite !nlen_app. destruct segs as [|s r].
  - unfold segs_text. cbn [map concat]. rewrite nlen_nil. unfold nlen. cbn [length]. lia.
  - unfold segs_text. cbn [map concat]. rewrite !nlen_app. unfold nlen at 2 4. cbn [length]. lia.
Qed.

Lemma Bs_skip_ps segs X : exists Y, nskipn ps (Bs segs ++ X) = 47 :: Y.
Proof.
  unfold C02_PathL1.Bs. rewrite <- !app_assoc. rewrite nskipn_app_len. cbn [app]. eexists. reflexivity.
Qed.

(* shorten_path for the file scheme on a path that starts with '/': the "single drive letter" test never holds *)
Lemma shorten_file_pop s : (nlen s =? ps) = false -> (exists Y, nskipn ps s = 47 :: Y) ->
  shorten_path STFile ps s = pop_path STFile ps s.
Proof.
  intros Hl [Y EY]. unfold shorten_path. rewrite Hl. cbn [st_is_file andb]. rewrite EY.
  rewrite nwdl_head_not_alpha_f by reflexivity. reflexivity.
Qed.

(* what finish_segment does to  B segs ++ cur [++ "/"]  for the file scheme *)
Lemma finish_inv_f segs cur (ews : bool) hh :
  forallb good_seg_sp segs = true -> clean T_PATH cur = true -> no_slash cur = true -> no_byte 92 cur = true ->
  exists segs' last' hh',
    finish_segment dbg STFile ps (Bs segs ++ cur ++ (if ews then [47] else [])) (nlen (Bs segs)) ews hh
    = POk (Bs segs' ++ last', hh')
    /\ forallb good_seg_sp segs' = true /\ good_seg_sp last' = true /\ (ews = true -> last' = [])
    /\ (hh' = hh \/ hh' = false).
Proof.
  intros Hsegs Hc Hns H92.
  set (s1 := Bs segs ++ cur ++ (if ews then [47] else [])).
  assert (slice_o s1 (nlen (Bs segs)) (if ews then nlen s1 - 1 else nlen s1) = Some cur) as Hslice.
  { unfold s1. destruct ews.
    - rewrite !nlen_app. replace (nlen (Bs segs) + (nlen cur + nlen [47]) - 1) with (nlen (Bs segs) + nlen cur) by (unfold nlen; cbn [length]; lia).
      apply slice_mid.
    - rewrite !nlen_app. replace (nlen (Bs segs) + (nlen cur + nlen [])) with (nlen (Bs segs) + nlen cur) by (unfold nlen; cbn [length]; lia).
      apply slice_mid. }
  assert (truncate s1 (nlen (Bs segs)) = Bs segs) as Htr by (unfold truncate, s1; apply nfirstn_app_len).
  destruct (Bs_ends segs) as [X EX].
  assert (ends_with_byte 47 (Bs segs) = true) as Hends by (rewrite EX; apply ends_with_byte_snoc).
  unfold finish_segment. rewrite Hslice. cbn [of_option pbind].
  destruct (is_double_dot cur) eqn:Edd.
  - (* double dot *)
    assert ((if dbg then match (if 1 <=? nlen (Bs segs) then nnth s1 (nlen (Bs segs) - 1) else None) with
                         | Some b => passert (b =? 47) | None => PPanic end else POk tt) = POk tt) as Hdbg.
    { destruct dbg; [|reflexivity]. pose proof (Bs_len_ge segs) as Hl.
      replace (1 <=? nlen (Bs segs)) with true by lia.
      unfold s1. rewrite nnth_app_l by lia. rewrite EX. rewrite nlen_app.
      replace (nlen X + nlen [47] - 1) with (nlen X) by (unfold nlen; cbn [length]; lia).
      rewrite nnth_app_last. reflexivity. }
    rewrite Hdbg. cbn [pbind]. rewrite Htr, Hends. cbn [andb].
    destruct (rev segs) as [|t r] eqn:Er.
    + (* no segment yet: nothing to pop *)
      assert (segs = []) as -> by (rewrite <- (rev_involutive segs), Er; reflexivity).
      assert (Bs [] = pre ++ [47]) as EB by (unfold C02_PathL1.Bs; cbn; apply app_nil_r).
      assert (last_slash_can_be_removed (Bs []) ps = false) as Hl.
      { unfold last_slash_can_be_removed. rewrite EB. rewrite nlen_app.
        replace (ps + nlen [47] - 1) with ps by (unfold nlen; cbn [length]; lia).
        rewrite nfirstn_app_len. destruct (rfind 47 pre) as [p|] eqn:Ep; [|reflexivity].
        apply rfind_lt in Ep. replace (ps <=? p) with false by lia. reflexivity. }
      rewrite Hl.
      assert (shorten_path STFile ps (Bs []) = POk (Bs [])) as Hsh.
      { rewrite shorten_file_pop.
        2:{ rewrite EB, nlen_app. unfold nlen at 2. cbn [length]. lia. }
        2:{ rewrite EB. rewrite nskipn_app_len. exists []. reflexivity. }
        unfold pop_path. rewrite EB. rewrite nlen_app.
        replace (ps <? ps + nlen [47]) with true by (unfold nlen; cbn [length]; lia).
        rewrite nskipn_app_len. change (rfind 47 [47]) with (rfind 47 ([] ++ 47 :: [])). rewrite (rfind_app_last 47 [] []) by reflexivity.
        replace (ps + nlen [] + 1) with (nlen (pre ++ [47])) by (rewrite nlen_app; unfold nlen; cbn [length]; lia).
        rewrite nskipn_all by lia. cbn [st_is_file andb is_normalized_wdl is_wdl length Nat.eqb].
        unfold truncate. rewrite nfirstn_all by lia. reflexivity. }
      rewrite Hsh. cbn [pbind]. rewrite Hends. rewrite andb_false_r.
      exists [], [], hh. rewrite app_nil_r. repeat split; try reflexivity. left. reflexivity.
    + assert (segs = rev r ++ [t]) as Es by (rewrite <- (rev_involutive segs), Er; reflexivity).
      set (segs0 := rev r) in *. rewrite Es in *. rewrite forallb_snoc in Hsegs.
      apply andb_true_iff in Hsegs. destruct Hsegs as [Hsegs0 Ht].
      destruct (good_seg_sp_parts t Ht) as (Htc & Htn & _).
      destruct (Bs_ends segs0) as [X0 EX0].
      pose proof (Bs_len_ge segs0) as Hl0.
      assert (rfind 47 (nfirstn (nlen (Bs (segs0 ++ [t])) - 1) (Bs (segs0 ++ [t]))) = Some (nlen X0)) as Hrf.
      { rewrite Bs_snoc. rewrite !nlen_app.
        replace (nlen (Bs segs0) + (nlen t + nlen [47]) - 1) with (nlen (Bs segs0 ++ t)) by (rewrite nlen_app; unfold nlen; cbn [length]; lia).
        rewrite app_assoc. rewrite nfirstn_app_len. rewrite EX0. rewrite <- app_assoc. cbn [app].
        apply rfind_app_last. exact Htn. }
      assert (nlen (Bs segs0) = nlen X0 + 1) as EL0 by (rewrite EX0, nlen_app; reflexivity).
      unfold last_slash_can_be_removed. rewrite Hrf. replace (ps <=? nlen X0) with true by lia. cbn [andb].
      assert (nskipn (nlen X0) (Bs (segs0 ++ [t])) = 47 :: t ++ [47]) as Hsk.
      { rewrite Bs_snoc, EX0. rewrite <- !app_assoc. rewrite nskipn_app_len. reflexivity. }
      rewrite Hsk.
      destruct (path_starts_with_wdl (47 :: t ++ [47])) eqn:Ew; cbn [negb].
      * (* a drive-letter-like segment is not popped *)
        assert (shorten_path STFile ps (Bs (segs0 ++ [t])) = POk (Bs (segs0 ++ [t]))) as Hsh.
        { pose proof (Bs_len_ge (segs0 ++ [t])) as Hl1.
          rewrite shorten_file_pop.
          2:{ lia. }
          2:{ rewrite <- (app_nil_r (Bs (segs0 ++ [t]))). apply Bs_skip_ps. }
          unfold pop_path.
          replace (ps <? nlen (Bs (segs0 ++ [t]))) with true by lia.
          assert (exists Y, nskipn ps (Bs (segs0 ++ [t])) = Y ++ [47] /\ ps + nlen Y + 1 = nlen (Bs (segs0 ++ [t]))) as (Y & EY & ELY).
          { rewrite Bs_snoc. unfold C02_PathL1.Bs. rewrite <- !app_assoc. rewrite nskipn_app_len.
            exists ([47] ++ segs_text segs0 ++ t). split; [rewrite <- !app_assoc; reflexivity|].
            len_lia. }
          rewrite EY. rewrite (rfind_app_last 47 Y []) by reflexivity. rewrite ELY.
          rewrite nskipn_all by lia. cbn [st_is_file andb is_normalized_wdl is_wdl length Nat.eqb].
          unfold truncate. rewrite nfirstn_all by lia. reflexivity. }
        rewrite Hsh. cbn [pbind]. destruct (Bs_ends (segs0 ++ [t])) as [X1 EX1].
        assert (ends_with_byte 47 (Bs (segs0 ++ [t])) = true) as He1 by (rewrite EX1; apply ends_with_byte_snoc).
        rewrite He1. rewrite andb_false_r.
        exists (segs0 ++ [t]), [], hh. rewrite app_nil_r. rewrite forallb_snoc, Hsegs0, Ht. repeat split; try reflexivity. left. reflexivity.
      * (* the last segment is popped: it is no normalised drive letter *)
        assert (is_normalized_wdl t = false) as Hnw.
        { destruct (is_normalized_wdl t) eqn:E; [|reflexivity]. unfold path_starts_with_wdl in Ew.
          rewrite (nwdl_last_is_wdl_f t E) in Ew. discriminate Ew. }
        assert (nfirstn (nlen (Bs (segs0 ++ [t])) - 1) (Bs (segs0 ++ [t])) = Bs segs0 ++ t) as Hcut.
        { rewrite Bs_snoc. rewrite !nlen_app.
          replace (nlen (Bs segs0) + (nlen t + nlen [47]) - 1) with (nlen (Bs segs0 ++ t)) by (rewrite nlen_app; unfold nlen; cbn [length]; lia).
          rewrite app_assoc. apply nfirstn_app_len. }
        rewrite Hcut.
        assert (shorten_path STFile ps (Bs segs0 ++ t) = POk (Bs segs0)) as Hsh.
        { rewrite shorten_file_pop.
          2:{ rewrite nlen_app. lia. }
          2:{ apply Bs_skip_ps. }
          unfold pop_path. rewrite nlen_app.
          replace (ps <? nlen (Bs segs0) + nlen t) with true by lia.
          assert (exists Y, nskipn ps (Bs segs0 ++ t) = Y ++ 47 :: t /\ ps + nlen Y + 1 = nlen (Bs segs0)) as (Y & EY & ELY).
          { unfold C02_PathL1.Bs. rewrite <- !app_assoc. rewrite nskipn_app_len.
            destruct (rev segs0) as [|t1 r1] eqn:Er0.
            - assert (segs0 = []) as E0 by (rewrite <- (rev_involutive segs0), Er0; reflexivity). rewrite E0.
              exists []. cbn. split; [reflexivity|]. unfold nlen. rewrite !app_length. cbn [length]. lia.
            - assert (segs0 = rev r1 ++ [t1]) as E0 by (rewrite <- (rev_involutive segs0), Er0; reflexivity). rewrite E0.
              rewrite segs_text_snoc. exists ([47] ++ segs_text (rev r1) ++ t1). split.
              + rewrite <- !app_assoc. reflexivity.
              + len_lia. }
          rewrite EY. rewrite (rfind_app_last 47 Y t) by exact Htn. rewrite ELY.
          rewrite nskipn_app_len. rewrite Hnw. cbn [st_is_file andb].
          unfold truncate. rewrite nfirstn_app_len. reflexivity. }
        rewrite Hsh. cbn [pbind]. rewrite EX0. rewrite ends_with_byte_snoc. rewrite andb_false_r. rewrite <- EX0.
        exists segs0, [], hh. rewrite app_nil_r. repeat split; try reflexivity; [exact Hsegs0 | left; reflexivity].
  - destruct (is_single_dot cur) eqn:Esd.
    + (* single dot *)
      rewrite Htr, Hends. exists segs, [], hh. rewrite app_nil_r. repeat split; try reflexivity; [exact Hsegs | left; reflexivity].
    + cbn [st_is_file andb]. rewrite Bs_len_first_f.
      destruct (match segs with [] => true | _ :: _ => false end && is_wdl cur) eqn:Ewd.
      * (* a drive letter as first segment: normalised, the host is dropped *)
        apply andb_true_iff in Ewd. destruct Ewd as [Enil Ew]. destruct segs as [|s0 sr]; [|discriminate Enil].
        destruct (is_wdl_inv cur Ew) as (a & b & -> & Ha). rewrite Htr.
        destruct ews.
        -- exists [[a; 58]], [], false. rewrite app_nil_r. split.
           ++ f_equal. f_equal. unfold C02_PathL1.Bs, segs_text. cbn [map concat app]. rewrite <- !app_assoc. reflexivity.
           ++ cbn [forallb]. rewrite (alpha_seg a Ha). repeat split; try reflexivity. right. reflexivity.
        -- exists [], [a; 58], false. split.
           ++ reflexivity.
           ++ split; [reflexivity|]. split; [exact (alpha_seg a Ha)|]. split; [discriminate | right; reflexivity].
      * unfold s1. destruct ews.
        -- exists (segs ++ [cur]), [], hh. rewrite app_nil_r, Bs_snoc. repeat split; try reflexivity; [|left; reflexivity].
           rewrite forallb_snoc, Hsegs. unfold good_seg_sp, good_seg. rewrite Hc, Hns, Esd, Edd, H92. reflexivity.
        -- exists segs, cur, hh. rewrite app_nil_r. repeat split; try assumption; try discriminate; [|left; reflexivity].
           unfold good_seg_sp, good_seg. rewrite Hc, Hns, Esd, Edd, H92. reflexivity.
Qed.

End FinishF.
