(* Proofs/C02_FileL1.v - L1 for the file path state: what Parser::parse_path produces for SchemeType::File from ANY
   input, started on a closed list of canonical segments.
   finish_inv_f: the end of a segment (dot segments with the two drive-letter refusals of pop_path /
     last_slash_can_be_removed, the normalisation of a drive-letter first segment) keeps the shape
     pre "/" seg "/" ... "/" cur  with canonical (good_seg_sp) closed segments;
   loop_drive: once the path begins with a normalised drive letter followed by '/' it does so for ever
     (the persistence lemma: pop_path never pops it);
   loop_inv_f: the loop returns the collapse (file_path_fixup) of a canonical path, or a path that begins with a
     normalised drive letter and '/' (the arm that inserts '/' after "C:" fired: F-C01-7). *)
From Coq Require Import String.
From RU Require Import Base.Prelude Base.Utf8 Base.Utf8Facts Model.AsciiSet Gen.Tables
  Model.PercentEncoding Model.HostT Model.UrlRecord Model.Parser Model.Setters Model.WF
  Proofs.ListN Proofs.C14_Set Proofs.C14_Enc Proofs.C14_Views Proofs.C02_Enc Proofs.C02_Parts
  Proofs.C02_Opaque Proofs.C02_Path Proofs.C02_PathL1 Proofs.C02_Reach Proofs.C02_AuthParts
  Proofs.C02_Auth Proofs.C02_AuthWf Proofs.C02_PathSp Proofs.C02_AuthSp Proofs.C02_SetQF Proofs.C02_Canon Proofs.C02_File.
From RU Require Proofs.C04_PathFile.
Open Scope N_scope.
Open Scope list_scope.

Lemma alpha_seg_sweep : all_below 128 (fun a => implb (is_alpha a) (good_seg_sp [a; 58])) = true.
Proof. vm_compute. reflexivity. Qed.
Lemma alpha_lt a : is_alpha a = true -> a < 128.
Proof. unfold is_alpha, is_upper, is_lower. lia. Qed.
Lemma alpha_seg a : is_alpha a = true -> good_seg_sp [a; 58] = true.
Proof.
  intros H. pose proof (all_below_spec 128 _ alpha_seg_sweep a (alpha_lt a H)) as G. cbv beta in G.
  rewrite H in G. exact G.
Qed.

Lemma nwdl_last_is_wdl_f t : is_normalized_wdl t = true -> starts_with_wdl (t ++ [47]) = true.
Proof.
  unfold is_normalized_wdl, is_wdl, starts_with_wdl.
  destruct t as [|a [|b [|c r]]]; cbn [length Nat.eqb andb app]; try discriminate.
  intros H. apply andb_true_iff in H. destruct H as [H _]. rewrite andb_true_r in H. rewrite H. reflexivity.
Qed.

Lemma is_wdl_inv s : is_wdl s = true -> exists a b, s = [a; b] /\ is_alpha a = true.
Proof.
  unfold is_wdl, starts_with_wdl. destruct s as [|a [|b [|c r]]]; cbn [length Nat.eqb andb]; try discriminate.
  intros H. exists a, b. split; [reflexivity|]. apply andb_true_iff in H. destruct H as [H _].
  apply andb_true_iff in H. tauto.
Qed.

Section FinishF.
Variable pre : list N.
Variable dbg : bool.
Notation ps := (nlen pre).
Notation Bs := (Bs pre).
Notation Bs_ends := (Bs_ends pre).
Notation Bs_snoc := (Bs_snoc pre).
Notation Bs_len_ge := (Bs_len_ge pre).

Lemma Bs_len_first_f segs : (nlen (Bs segs) =? ps + 1) = match segs with [] => true | _ => false end.
Proof.
  unfold C02_PathL1.Bs. rewrite !nlen_app. destruct segs as [|s r].
  - unfold segs_text. cbn [map concat]. rewrite nlen_nil. unfold nlen. cbn [length]. lia.
  - unfold segs_text. cbn [map concat]. rewrite !nlen_app. unfold nlen at 2 4. cbn [length]. lia.
Qed.

Lemma Bs_skip_ps segs X : exists Y, nskipn ps (Bs segs ++ X) = 47 :: Y.
Proof.
  unfold C02_PathL1.Bs. rewrite <- !app_assoc. rewrite nskipn_app_len. cbn [app]. eexists. reflexivity.
Qed.

(* shorten_path for the file scheme on a path that starts with '/': the "single drive letter" test never holds *)
Lemma shorten_file_pop s : (nlen s =? ps) = false -> (exists Y, nskipn ps s = 47 :: Y) ->
  shorten_path STFile ps s = pop_path STFile ps s.
Proof.
  intros Hl [Y EY]. unfold shorten_path. rewrite Hl. cbn [st_is_file andb]. rewrite EY.
  rewrite nwdl_head_not_alpha_f by reflexivity. reflexivity.
Qed.

(* what finish_segment does to  B segs ++ cur [++ "/"]  for the file scheme *)
Lemma finish_inv_f segs cur (ews : bool) hh :
  forallb good_seg_sp segs = true -> clean T_PATH cur = true -> no_slash cur = true -> no_byte 92 cur = true ->
  exists segs' last' hh',
    finish_segment dbg STFile ps (Bs segs ++ cur ++ (if ews then [47] else [])) (nlen (Bs segs)) ews hh
    = POk (Bs segs' ++ last', hh')
    /\ forallb good_seg_sp segs' = true /\ good_seg_sp last' = true /\ (ews = true -> last' = [])
    /\ (hh' = hh \/ hh' = false).
Proof.
  intros Hsegs Hc Hns H92.
  set (s1 := Bs segs ++ cur ++ (if ews then [47] else [])).
  assert (slice_o s1 (nlen (Bs segs)) (if ews then nlen s1 - 1 else nlen s1) = Some cur) as Hslice.
  { unfold s1. destruct ews.
    - rewrite !nlen_app. replace (nlen (Bs segs) + (nlen cur + nlen [47]) - 1) with (nlen (Bs segs) + nlen cur) by (unfold nlen; cbn [length]; lia).
      apply slice_mid.
    - rewrite !nlen_app. replace (nlen (Bs segs) + (nlen cur + nlen [])) with (nlen (Bs segs) + nlen cur) by (unfold nlen; cbn [length]; lia).
      apply slice_mid. }
  assert (truncate s1 (nlen (Bs segs)) = Bs segs) as Htr by (unfold truncate, s1; apply nfirstn_app_len).
  destruct (Bs_ends segs) as [X EX].
  assert (ends_with_byte 47 (Bs segs) = true) as Hends by (rewrite EX; apply ends_with_byte_snoc).
  unfold finish_segment. rewrite Hslice. cbn [of_option pbind].
  destruct (is_double_dot cur) eqn:Edd.
  - (* double dot *)
    assert ((if dbg then match (if 1 <=? nlen (Bs segs) then nnth s1 (nlen (Bs segs) - 1) else None) with
                         | Some b => passert (b =? 47) | None => PPanic end else POk tt) = POk tt) as Hdbg.
    { destruct dbg; [|reflexivity]. pose proof (Bs_len_ge segs) as Hl.
      replace (1 <=? nlen (Bs segs)) with true by lia.
      unfold s1. rewrite nnth_app_l by lia. rewrite EX. rewrite nlen_app.
      replace (nlen X + nlen [47] - 1) with (nlen X) by (unfold nlen; cbn [length]; lia).
      rewrite nnth_app_last. reflexivity. }
    rewrite Hdbg. cbn [pbind]. rewrite Htr, Hends. cbn [andb].
    destruct (rev segs) as [|t r] eqn:Er.
    + (* no segment yet: nothing to pop *)
      assert (segs = []) as -> by (rewrite <- (rev_involutive segs), Er; reflexivity).
      assert (Bs [] = pre ++ [47]) as EB by (unfold C02_PathL1.Bs; cbn; apply app_nil_r).
      assert (last_slash_can_be_removed (Bs []) ps = false) as Hl.
      { unfold last_slash_can_be_removed. rewrite EB. rewrite nlen_app.
        replace (ps + nlen [47] - 1) with ps by (unfold nlen; cbn [length]; lia).
        rewrite nfirstn_app_len. destruct (rfind 47 pre) as [p|] eqn:Ep; [|reflexivity].
        apply rfind_lt in Ep. replace (ps <=? p) with false by lia. reflexivity. }
      rewrite Hl.
      assert (shorten_path STFile ps (Bs []) = POk (Bs [])) as Hsh.
      { rewrite shorten_file_pop.
        2:{ rewrite EB, nlen_app. unfold nlen at 2. cbn [length]. lia. }
        2:{ rewrite EB. rewrite nskipn_app_len. exists []. reflexivity. }
        unfold pop_path. rewrite EB. rewrite nlen_app.
        replace (ps <? ps + nlen [47]) with true by (unfold nlen; cbn [length]; lia).
        rewrite nskipn_app_len. change (rfind 47 [47]) with (rfind 47 ([] ++ 47 :: [])). rewrite (rfind_app_last 47 [] []) by reflexivity.
        replace (ps + nlen [] + 1) with (nlen (pre ++ [47])) by (rewrite nlen_app; unfold nlen; cbn [length]; lia).
        rewrite nskipn_all by lia. cbn [st_is_file andb is_normalized_wdl is_wdl length Nat.eqb].
        unfold truncate. rewrite nfirstn_all by lia. reflexivity. }
      rewrite Hsh. cbn [pbind]. rewrite Hends. rewrite andb_false_r.
      exists [], [], hh. rewrite app_nil_r. repeat split; try reflexivity. left. reflexivity.
    + assert (segs = rev r ++ [t]) as Es by (rewrite <- (rev_involutive segs), Er; reflexivity).
      set (segs0 := rev r) in *. rewrite Es in *. rewrite forallb_snoc in Hsegs.
      apply andb_true_iff in Hsegs. destruct Hsegs as [Hsegs0 Ht].
      destruct (good_seg_sp_parts t Ht) as (Htc & Htn & _).
      destruct (Bs_ends segs0) as [X0 EX0].
      pose proof (Bs_len_ge segs0) as Hl0.
      assert (rfind 47 (nfirstn (nlen (Bs (segs0 ++ [t])) - 1) (Bs (segs0 ++ [t]))) = Some (nlen X0)) as Hrf.
      { rewrite Bs_snoc. rewrite !nlen_app.
        replace (nlen (Bs segs0) + (nlen t + nlen [47]) - 1) with (nlen (Bs segs0 ++ t)) by (rewrite nlen_app; unfold nlen; cbn [length]; lia).
        rewrite app_assoc. rewrite nfirstn_app_len. rewrite EX0. rewrite <- app_assoc. cbn [app].
        apply rfind_app_last. exact Htn. }
      assert (nlen (Bs segs0) = nlen X0 + 1) as EL0 by (rewrite EX0, nlen_app; reflexivity).
      unfold last_slash_can_be_removed. rewrite Hrf. replace (ps <=? nlen X0) with true by lia. cbn [andb].
      assert (nskipn (nlen X0) (Bs (segs0 ++ [t])) = 47 :: t ++ [47]) as Hsk.
      { rewrite Bs_snoc, EX0. rewrite <- !app_assoc. rewrite nskipn_app_len. reflexivity. }
      rewrite Hsk.
      destruct (path_starts_with_wdl (47 :: t ++ [47])) eqn:Ew; cbn [negb].
      * (* a drive-letter-like segment is not popped *)
        assert (shorten_path STFile ps (Bs (segs0 ++ [t])) = POk (Bs (segs0 ++ [t]))) as Hsh.
        { pose proof (Bs_len_ge (segs0 ++ [t])) as Hl1.
          rewrite shorten_file_pop.
          2:{ lia. }
          2:{ rewrite <- (app_nil_r (Bs (segs0 ++ [t]))). apply Bs_skip_ps. }
          unfold pop_path.
          replace (ps <? nlen (Bs (segs0 ++ [t]))) with true by lia.
          assert (exists Y, nskipn ps (Bs (segs0 ++ [t])) = Y ++ [47] /\ ps + nlen Y + 1 = nlen (Bs (segs0 ++ [t]))) as (Y & EY & ELY).
          { rewrite Bs_snoc. unfold C02_PathL1.Bs. rewrite <- !app_assoc. rewrite nskipn_app_len.
            exists ([47] ++ segs_text segs0 ++ t). split; [rewrite <- !app_assoc; reflexivity|].
            len_lia. }
          rewrite EY. rewrite (rfind_app_last 47 Y []) by reflexivity. rewrite ELY.
          rewrite nskipn_all by lia. cbn [st_is_file andb is_normalized_wdl is_wdl length Nat.eqb].
          unfold truncate. rewrite nfirstn_all by lia. reflexivity. }
        rewrite Hsh. cbn [pbind]. destruct (Bs_ends (segs0 ++ [t])) as [X1 EX1].
        assert (ends_with_byte 47 (Bs (segs0 ++ [t])) = true) as He1 by (rewrite EX1; apply ends_with_byte_snoc).
        rewrite He1. rewrite andb_false_r.
        exists (segs0 ++ [t]), [], hh. rewrite app_nil_r. rewrite forallb_snoc, Hsegs0, Ht. repeat split; try reflexivity. left. reflexivity.
      * (* the last segment is popped: it is no normalised drive letter *)
        assert (is_normalized_wdl t = false) as Hnw.
        { destruct (is_normalized_wdl t) eqn:E; [|reflexivity]. unfold path_starts_with_wdl in Ew.
          rewrite (nwdl_last_is_wdl_f t E) in Ew. discriminate Ew. }
        assert (nfirstn (nlen (Bs (segs0 ++ [t])) - 1) (Bs (segs0 ++ [t])) = Bs segs0 ++ t) as Hcut.
        { rewrite Bs_snoc. rewrite !nlen_app.
          replace (nlen (Bs segs0) + (nlen t + nlen [47]) - 1) with (nlen (Bs segs0 ++ t)) by (rewrite nlen_app; unfold nlen; cbn [length]; lia).
          rewrite app_assoc. apply nfirstn_app_len. }
        rewrite Hcut.
        assert (shorten_path STFile ps (Bs segs0 ++ t) = POk (Bs segs0)) as Hsh.
        { rewrite shorten_file_pop.
          2:{ rewrite nlen_app. lia. }
          2:{ apply Bs_skip_ps. }
          unfold pop_path. rewrite nlen_app.
          replace (ps <? nlen (Bs segs0) + nlen t) with true by lia.
          assert (exists Y, nskipn ps (Bs segs0 ++ t) = Y ++ 47 :: t /\ ps + nlen Y + 1 = nlen (Bs segs0)) as (Y & EY & ELY).
          { unfold C02_PathL1.Bs. rewrite <- !app_assoc. rewrite nskipn_app_len.
            destruct (rev segs0) as [|t1 r1] eqn:Er0.
            - assert (segs0 = []) as E0 by (rewrite <- (rev_involutive segs0), Er0; reflexivity). rewrite E0.
              exists []. cbn. split; [reflexivity|]. unfold nlen. rewrite !app_length. cbn [length]. lia.
            - assert (segs0 = rev r1 ++ [t1]) as E0 by (rewrite <- (rev_involutive segs0), Er0; reflexivity). rewrite E0.
              rewrite segs_text_snoc. exists ([47] ++ segs_text (rev r1) ++ t1). split.
              + rewrite <- !app_assoc. reflexivity.
              + len_lia. }
          rewrite EY. rewrite (rfind_app_last 47 Y t) by exact Htn. rewrite ELY.
          rewrite nskipn_app_len. rewrite Hnw. cbn [st_is_file andb].
          unfold truncate. rewrite nfirstn_app_len. reflexivity. }
        rewrite Hsh. cbn [pbind]. rewrite EX0. rewrite ends_with_byte_snoc. rewrite andb_false_r. rewrite <- EX0.
        exists segs0, [], hh. rewrite app_nil_r. repeat split; try reflexivity; [exact Hsegs0 | left; reflexivity].
  - destruct (is_single_dot cur) eqn:Esd.
    + (* single dot *)
      rewrite Htr, Hends. exists segs, [], hh. rewrite app_nil_r. repeat split; try reflexivity; [exact Hsegs | left; reflexivity].
    + cbn [st_is_file andb]. rewrite Bs_len_first_f.
      destruct (match segs with [] => true | _ :: _ => false end && is_wdl cur) eqn:Ewd.
      * (* a drive letter as first segment: normalised, the host is dropped *)
        apply andb_true_iff in Ewd. destruct Ewd as [Enil Ew]. destruct segs as [|s0 sr]; [|discriminate Enil].
        destruct (is_wdl_inv cur Ew) as (a & b & -> & Ha). rewrite Htr.
        destruct ews.
        -- exists [[a; 58]], [], false. rewrite app_nil_r. split.
           ++ f_equal. f_equal. unfold C02_PathL1.Bs, segs_text. cbn [map concat app]. rewrite <- !app_assoc. reflexivity.
           ++ cbn [forallb]. rewrite (alpha_seg a Ha). repeat split; try reflexivity. right. reflexivity.
        -- exists [], [a; 58], false. split.
           ++ reflexivity.
           ++ split; [reflexivity|]. split; [exact (alpha_seg a Ha)|]. split; [discriminate | right; reflexivity].
      * unfold s1. destruct ews.
        -- exists (segs ++ [cur]), [], hh. rewrite app_nil_r, Bs_snoc. repeat split; try reflexivity; [|left; reflexivity].
           rewrite forallb_snoc, Hsegs. unfold good_seg_sp, good_seg. rewrite Hc, Hns, Esd, Edd, H92. reflexivity.
        -- exists segs, cur, hh. rewrite app_nil_r. repeat split; try assumption; try discriminate; [|left; reflexivity].
           unfold good_seg_sp, good_seg. rewrite Hc, Hns, Esd, Edd, H92. reflexivity.
Qed.

End FinishF.

(* ================= persistence of a normalised drive letter ================= *)
Lemma nfirstn_app_ge a b n : nlen a <= n -> nfirstn n (a ++ b) = a ++ nfirstn (n - nlen a) b.
Proof.
  intros H. unfold nfirstn, nlen in *.
  replace (N.to_nat n) with (length a + N.to_nat (n - N.of_nat (length a)))%nat by lia.
  apply firstn_app_2.
Qed.

Lemma rfind_aux_ge b l : forall i j k, j < i -> rfind_aux b l i (Some j) = Some k -> j <= k.
Proof.
  induction l as [|x r IH]; intros i j k Hj H; cbn [rfind_aux] in H.
  - inversion H. lia.
  - destruct (x =? b).
    + apply (IH (i + 1) i k) in H; lia.
    + apply (IH (i + 1) j k) in H; lia.
Qed.

Lemma ddot_58 s : is_double_dot (58 :: s) = false.
Proof. apply (C04_PathFile.not_dot_head 58 s); discriminate. Qed.
Lemma sdot_58 s : is_single_dot (58 :: s) = false.
Proof. apply (C04_PathFile.not_dot_head 58 s); discriminate. Qed.

Lemma slice_head l ss e c r seg : nskipn ss l = c :: r -> ss < e -> slice_o l ss e = Some seg -> exists seg', seg = c :: seg'.
Proof.
  intros Hs He H. unfold slice_o in H. destruct ((ss <=? e) && (e <=? nlen l)); [|discriminate H].
  inversion H. rewrite Hs. unfold nfirstn. destruct (N.to_nat (e - ss)) as [|k] eqn:Ek; [lia|]. cbn [firstn]. eexists. reflexivity.
Qed.

Section Drive.
Variable pre : list N.
Variable dbg : bool.
Variable a : N.
Hypothesis Ha : is_alpha a = true.
Notation ps := (nlen pre).
Notation loop := (parse_path_loop dbg CUrlParser STFile ps).

Definition P0 : list N := pre ++ [47; a; 58; 47].
Definition D (ser : list N) : Prop := exists X, ser = P0 ++ X.

Lemma P0_len : nlen P0 = ps + 4.
Proof. unfold P0. rewrite nlen_app. reflexivity. Qed.
Lemma D_len ser : D ser -> ps + 4 <= nlen ser.
Proof. intros [X ->]. rewrite nlen_app, P0_len. lia. Qed.
Lemma D_app ser y : D ser -> D (ser ++ y).
Proof. intros [X ->]. exists (X ++ y). rewrite app_assoc. reflexivity. Qed.
Lemma D_trunc ser n : D ser -> ps + 4 <= n -> D (nfirstn n ser).
Proof. intros [X ->] H. rewrite nfirstn_app_ge by (rewrite P0_len; lia). eexists. reflexivity. Qed.
Lemma D_skip ser : D ser -> exists X, nskipn ps ser = 47 :: a :: 58 :: 47 :: X.
Proof. intros [X ->]. unfold P0. rewrite <- app_assoc. rewrite nskipn_app_len. exists X. reflexivity. Qed.
Lemma a_not_slash : (a =? 47) = false.
Proof. unfold is_alpha, is_upper, is_lower in Ha. lia. Qed.

Lemma lscbr_P0 : last_slash_can_be_removed P0 ps = false.
Proof.
  unfold last_slash_can_be_removed. rewrite P0_len. replace (ps + 4 - 1) with (nlen (pre ++ [47; a; 58])) by (rewrite nlen_app; unfold nlen; cbn [length]; lia).
  unfold P0. change [47; a; 58; 47] with ([47; a; 58] ++ [47]). rewrite app_assoc. rewrite nfirstn_app_len.
  rewrite (rfind_app_last 47 pre [a; 58]) by (unfold no_byte; cbn [forallb]; rewrite a_not_slash; reflexivity).
  rewrite N.leb_refl. cbn [andb]. rewrite <- app_assoc. rewrite nskipn_app_len.
  unfold path_starts_with_wdl, starts_with_wdl. cbn [app]. rewrite Ha. reflexivity.
Qed.

Lemma pop_drive s s3 : D s -> pop_path STFile ps s = POk s3 -> D s3.
Proof.
  intros Hd H. pose proof (D_len s Hd) as Hl. destruct (D_skip s Hd) as [X EX].
  unfold pop_path in H. replace (ps <? nlen s) with true in H by lia. rewrite EX in H.
  unfold rfind in H. cbn [rfind_aux] in H. rewrite a_not_slash in H.
  replace (47 =? 47) with true in H by reflexivity. replace (58 =? 47) with false in H by reflexivity.
  cbn [N.add] in H.
  destruct (rfind_aux 47 X (0 + 1 + 1 + 1 + 1) (Some (0 + 1 + 1 + 1))) as [sp|] eqn:Er; [|discriminate H].
  apply rfind_aux_ge in Er; [|lia].
  destruct (st_is_file STFile && is_normalized_wdl (nskipn (ps + sp + 1) s)); inversion H; subst; [exact Hd|].
  apply D_trunc; [exact Hd | lia].
Qed.

Lemma shorten_drive s s3 : D s -> shorten_path STFile ps s = POk s3 -> D s3.
Proof.
  intros Hd H. pose proof (D_len s Hd) as Hl. destruct (D_skip s Hd) as [X EX].
  unfold shorten_path in H. replace (nlen s =? ps) with false in H by lia. rewrite EX in H.
  rewrite nwdl_head_not_alpha_f in H by reflexivity. cbn [st_is_file andb] in H. exact (pop_drive s s3 Hd H).
Qed.

Lemma finish_drive ser ss (ews : bool) hh s2 hh2 : D ser -> (ss = ps + 2 \/ ps + 4 <= ss) ->
  finish_segment dbg STFile ps ser ss ews hh = POk (s2, hh2) -> D s2 /\ hh2 = hh.
Proof.
  intros Hd Hss H. pose proof (D_len ser Hd) as Hl. unfold finish_segment in H.
  destruct (slice_o ser ss (if ews then nlen ser - 1 else nlen ser)) as [seg|] eqn:Es; [|discriminate H].
  cbn [of_option pbind] in H.
  destruct Hss as [Hss|Hss].
  - (* the segment text starts with the ':' of the drive letter *)
    assert (exists seg', seg = 58 :: seg') as [seg' ->].
    { apply (slice_head ser ss (if ews then nlen ser - 1 else nlen ser) 58 (47 :: nskipn (ps + 4) ser) seg); [| |exact Es].
      - destruct Hd as [X ->]. rewrite Hss. unfold P0. rewrite <- !app_assoc.
        change (pre ++ [47; a; 58; 47] ++ X) with (pre ++ [47; a] ++ 58 :: 47 :: X). rewrite !app_assoc.
        replace (ps + 2) with (nlen (pre ++ [47; a])) by (rewrite nlen_app; reflexivity).
        rewrite nskipn_app_len. f_equal. f_equal.
        replace (ps + 4) with (nlen ((pre ++ [47; a]) ++ [58; 47])) by (rewrite !nlen_app; unfold nlen; cbn [length]; lia).
        change (58 :: 47 :: X) with ([58; 47] ++ X). rewrite app_assoc. rewrite nskipn_app_len. reflexivity.
      - destruct ews; lia. }
    rewrite ddot_58, sdot_58 in H. replace (ss =? ps + 1) with false in H by lia.
    rewrite andb_false_r in H. cbn [andb] in H. inversion H; subst. split; [exact Hd | reflexivity].
  - destruct (is_double_dot seg).
    + destruct (if dbg then match (if 1 <=? ss then nnth ser (ss - 1) else None) with
                            | Some b => passert (b =? 47) | None => PPanic end else POk tt) as [[]| |]; try discriminate H.
      cbn [pbind] in H.
      set (s1 := truncate ser ss) in *.
      assert (D s1) as Hd1 by (apply D_trunc; assumption).
      set (s2' := if ends_with_byte 47 s1 && last_slash_can_be_removed s1 ps then nfirstn (nlen s1 - 1) s1 else s1) in *.
      assert (D s2') as Hd2.
      { unfold s2'. destruct (nlen s1 =? ps + 4) eqn:El.
        - assert (s1 = P0) as ->.
          { destruct Hd1 as [X EX]. rewrite EX in El. rewrite nlen_app, P0_len in El.
            destruct X as [|x X']; [rewrite EX; apply app_nil_r|]. rewrite nlen_cons in El. lia. }
          rewrite lscbr_P0, andb_false_r. exact Hd1.
        - destruct (ends_with_byte 47 s1 && last_slash_can_be_removed s1 ps); [|exact Hd1].
          apply D_trunc; [exact Hd1|]. pose proof (D_len s1 Hd1). lia. }
      destruct (shorten_path STFile ps s2') as [s3| |] eqn:Esh; try discriminate H. cbn [pbind] in H.
      pose proof (shorten_drive s2' s3 Hd2 Esh) as Hd3.
      inversion H; subst. split; [|reflexivity].
      destruct (ews && negb (ends_with_byte 47 s3)); [apply D_app|]; exact Hd3.
    + destruct (is_single_dot seg).
      * inversion H; subst. split; [|reflexivity].
        assert (D (truncate ser ss)) as Hd1 by (apply D_trunc; assumption).
        destruct (ends_with_byte 47 (truncate ser ss)); [|apply D_app]; exact Hd1.
      * replace (ss =? ps + 1) with false in H by lia. rewrite andb_false_r in H. cbn [andb] in H.
        inversion H; subst. split; [exact Hd | reflexivity].
Qed.

Lemma fixup_drive s : D s -> D (file_path_fixup STFile ps s).
Proof.
  intros [X ->]. unfold file_path_fixup. cbn [st_is_file]. unfold P0. rewrite <- app_assoc.
  rewrite nskipn_app_len, nfirstn_app_len. cbn [app drop_while].
  replace (is_slash 47) with true by reflexivity. unfold is_slash at 1. rewrite a_not_slash.
  exists X. unfold P0. rewrite <- app_assoc. reflexivity.
Qed.

Lemma arm4_drive ser : D ser -> is_normalized_wdl (nskipn (ps + 1) ser) = false.
Proof.
  intros [X ->]. unfold P0. rewrite <- app_assoc. change (pre ++ [47; a; 58; 47] ++ X) with (pre ++ [47] ++ a :: 58 :: 47 :: X).
  rewrite app_assoc. replace (ps + 1) with (nlen (pre ++ [47])) by (rewrite nlen_app; reflexivity).
  rewrite nskipn_app_len. apply nwdl_long_f.
Qed.

Theorem loop_drive l : forall ser ss pend hh s' hh' rem, usv_list l -> usv_list pend ->
  D ser -> (ss = ps + 2 \/ ps + 4 <= ss) ->
  loop l ser ss pend hh = POk (s', hh', rem) -> D s' /\ hh' = hh /\ rem = cbb_rest l.
Proof.
  assert (forall ser pend, usv_list pend -> D ser -> D (push_pending CUrlParser STFile ser pend)) as Hpush.
  { intros ser pend Hp Hd. rewrite push_pending_eq_sp by exact Hp. apply D_app. exact Hd. }
  assert (forall l0 ser ss pend hh s' hh' rem, usv_list pend -> D ser -> (ss = ps + 2 \/ ps + 4 <= ss) ->
            (' (s2, hh2) <~ finish_segment dbg STFile ps (push_pending CUrlParser STFile ser pend) ss false hh ;;
             @POk (list N * bool * list N) (file_path_fixup STFile ps s2, hh2, l0)) = POk (s', hh', rem) ->
            D s' /\ hh' = hh /\ rem = l0) as Hend.
  { intros l0 ser ss pend hh s' hh' rem Hp Hd Hss H.
    destruct (finish_segment dbg STFile ps (push_pending CUrlParser STFile ser pend) ss false hh) as [[s2 hh2]| |] eqn:Ef; try discriminate H.
    cbn [pbind] in H. inversion H; subst.
    destruct (finish_drive _ _ _ _ _ _ (Hpush ser pend Hp Hd) Hss Ef) as [Hd2 ->].
    split; [apply fixup_drive; exact Hd2 | split; reflexivity]. }
  induction l as [|c r IH]; intros ser ss pend hh s' hh' rem Hu Hp Hd Hss H.
  - cbn [parse_path_loop cbb_rest] in *. exact (Hend [] ser ss pend hh s' hh' rem Hp Hd Hss H).
  - apply usv_cons in Hu. destruct Hu as [Huc Hur]. cbn [cbb_rest]. cbn [parse_path_loop] in H.
    destruct (is_tnl c) eqn:Et.
    + apply (IH _ _ _ _ _ _ _ Hur (Forall_nil _) (Hpush ser pend Hp Hd) Hss H).
    + cbn [ctx_eqb negb st_is_special st_is_file andb] in H.
      destruct ((c =? 47) || (c =? 92) && true) eqn:Esl.
      * assert (is_qh c = false) as Eq by (unfold is_qh; lia). rewrite Eq.
        destruct (finish_segment dbg STFile ps (push_pending CUrlParser STFile ser pend ++ [47]) ss true hh) as [[s2 hh2]| |] eqn:Ef; try discriminate H.
        cbn [pbind] in H.
        destruct (finish_drive _ _ _ _ _ _ (D_app _ [47] (Hpush ser pend Hp Hd)) Hss Ef) as [Hd2 ->].
        apply (IH _ _ _ _ _ _ _ Hur (Forall_nil _) Hd2 (or_intror (D_len s2 Hd2)) H).
      * destruct (is_qh c) eqn:Eq.
        -- unfold is_qh in Eq. rewrite Eq in H. cbn [andb] in H.
           exact (Hend (c :: r) ser ss pend hh s' hh' rem Hp Hd Hss H).
        -- unfold is_qh in Eq. rewrite Eq in H. cbn [andb] in H.
           rewrite (arm4_drive ser Hd) in H. rewrite andb_false_r in H.
           apply (IH ser ss (c :: pend) hh s' hh' rem Hur); try assumption. apply usv_cons. split; assumption.
Qed.

End Drive.

(* ================= the loop invariant for the file scheme ================= *)
Lemma nwdl_segs_text_cur s r cur : is_normalized_wdl (segs_text (s :: r) ++ cur) = false.
Proof.
  unfold segs_text. cbn [map concat]. rewrite <- !app_assoc.
  destruct s as [|x [|y s']]; cbn [app].
  - apply nwdl_head_not_alpha_f. reflexivity.
  - apply nwdl_second_f. reflexivity.
  - destruct s' as [|z s'']; cbn [app]; apply nwdl_long_f.
Qed.

Lemma nwdl_inv s : is_normalized_wdl s = true -> exists a, s = [a; 58] /\ is_alpha a = true.
Proof.
  unfold is_normalized_wdl. intros H. apply andb_true_iff in H. destruct H as [H1 H2].
  destruct (is_wdl_inv s H1) as (a & b & -> & Ha). apply N.eqb_eq in H2. subst b. exists a. split; [reflexivity | exact Ha].
Qed.

Section LoopInvF.
Variable pre : list N.
Variable dbg : bool.
Notation ps := (nlen pre).
Notation loop := (parse_path_loop dbg CUrlParser STFile ps).
Notation Bs := (Bs pre).

Definition good_out (hh : bool) (s' : list N) (hh' : bool) : Prop :=
  exists segs' last', s' = file_path_fixup STFile ps (Bs segs' ++ last')
    /\ forallb good_seg_sp segs' = true /\ good_seg_sp last' = true /\ (hh' = hh \/ hh' = false).
Definition drive_out (s' : list N) : Prop := exists a, is_alpha a = true /\ D pre a s'.

Lemma Bs_skip1 segs cur : nskipn (ps + 1) (Bs segs ++ cur) = segs_text segs ++ cur.
Proof.
  unfold C02_PathL1.Bs. rewrite <- !app_assoc. rewrite app_assoc.
  replace (ps + 1) with (nlen (pre ++ [47])) by (rewrite nlen_app; reflexivity).
  apply nskipn_app_len.
Qed.

Lemma push_pending_shape_ff segs cur pend : usv_list pend ->
  push_pending CUrlParser STFile (Bs segs ++ cur) pend = Bs segs ++ (cur ++ encode T_PATH (utf8_encode (rev pend))).
Proof. intros H. rewrite push_pending_eq_sp by exact H. rewrite <- app_assoc. reflexivity. Qed.

Lemma floop_bslash r ser ss pend hh :
  loop (92 :: r) ser ss pend hh
  = (' (s2, hh') <~ finish_segment dbg STFile ps (push_pending CUrlParser STFile ser pend ++ [47]) ss true hh ;;
     loop r s2 (nlen s2) [] hh').
Proof. reflexivity. Qed.

Lemma good_out_hh hh hh2 s' hh' : (hh2 = hh \/ hh2 = false) -> good_out hh2 s' hh' -> good_out hh s' hh'.
Proof.
  intros H2 (segs' & last' & E & G1 & G2 & G3). exists segs', last'. repeat split; try assumption.
  destruct G3 as [->| ->]; [exact H2 | right; reflexivity].
Qed.

Theorem loop_inv_f l : forall segs cur pend hh s' hh' rem, usv_list l -> pend_ok_sp pend ->
  forallb good_seg_sp segs = true -> clean T_PATH cur = true -> no_slash cur = true -> no_byte 92 cur = true ->
  (is_normalized_wdl (segs_text segs ++ cur) = true -> pend = []) ->
  loop l (Bs segs ++ cur) (nlen (Bs segs)) pend hh = POk (s', hh', rem) ->
  rem = cbb_rest l /\ (good_out hh s' hh' \/ drive_out s').
Proof.
  assert (forall l0 segs cur pend hh s' hh' rem,
            match l0 with [] => True | c :: _ => is_qh c = true /\ is_tnl c = false end ->
            pend_ok_sp pend -> forallb good_seg_sp segs = true -> clean T_PATH cur = true -> no_slash cur = true ->
            no_byte 92 cur = true ->
            loop l0 (Bs segs ++ cur) (nlen (Bs segs)) pend hh = POk (s', hh', rem) ->
            rem = l0 /\ good_out hh s' hh') as Hend.
  { intros l0 segs cur pend hh s' hh' rem Hl Hp Hsegs Hc Hn Hb H.
    rewrite floop_end in H by exact Hl. rewrite push_pending_shape_ff in H by (destruct Hp; assumption).
    destruct (pend_flush_sp cur pend Hc Hn Hb Hp) as (Hc' & Hn' & Hb').
    destruct (finish_inv_f pre dbg segs (cur ++ encode T_PATH (utf8_encode (rev pend))) false hh Hsegs Hc' Hn' Hb') as (segs' & last' & hh2 & Hf & G1 & G2 & _ & G4).
    rewrite app_nil_r in Hf. rewrite Hf in H. cbn [pbind] in H. inversion H; subst.
    split; [reflexivity|]. exists segs', last'. repeat split; assumption. }
  induction l as [|c r IH]; intros segs cur pend hh s' hh' rem Hu Hp Hsegs Hc Hn Hb Hside H.
  - destruct (Hend [] segs cur pend hh s' hh' rem I Hp Hsegs Hc Hn Hb H) as [G1 G2]. split; [exact G1 | left; exact G2].
  - apply usv_cons in Hu. destruct Hu as [Huc Hur]. cbn [cbb_rest].
    destruct (is_tnl c) eqn:Et.
    + cbn [parse_path_loop] in H. rewrite Et in H. rewrite push_pending_shape_ff in H by (destruct Hp; assumption).
      destruct (pend_flush_sp cur pend Hc Hn Hb Hp) as (Hc' & Hn' & Hb').
      apply (IH segs (cur ++ encode T_PATH (utf8_encode (rev pend))) [] hh s' hh' rem Hur); try assumption.
      * exact pend_nil_ok.
      * intros _. reflexivity.
    + destruct (is_qh c) eqn:Eq.
      * destruct (Hend (c :: r) segs cur pend hh s' hh' rem (conj Eq Et) Hp Hsegs Hc Hn Hb H) as [G1 G2].
        split; [exact G1 | left; exact G2].
      * assert ((' (s2, hh1) <~ finish_segment dbg STFile ps
                                (push_pending CUrlParser STFile (Bs segs ++ cur) pend ++ [47]) (nlen (Bs segs)) true hh ;;
                 loop r s2 (nlen s2) [] hh1) = POk (s', hh', rem) ->
                rem = cbb_rest r /\ (good_out hh s' hh' \/ drive_out s')) as Hsep.
        { intros H0.
          rewrite push_pending_shape_ff in H0 by (destruct Hp; assumption).
          destruct (pend_flush_sp cur pend Hc Hn Hb Hp) as (Hc' & Hn' & Hb').
          destruct (finish_inv_f pre dbg segs (cur ++ encode T_PATH (utf8_encode (rev pend))) true hh Hsegs Hc' Hn' Hb') as (segs' & last' & hh2 & Hf & G1 & G2 & G3 & G4).
          rewrite <- app_assoc in H0. rewrite Hf in H0. cbn [pbind] in H0. rewrite (G3 eq_refl) in H0.
          rewrite app_nil_r in H0.
          rewrite <- (app_nil_r (Bs segs')) in H0 at 1.
          destruct (IH segs' [] [] hh2 s' hh' rem Hur pend_nil_ok G1 eq_refl eq_refl eq_refl (fun _ => eq_refl) H0) as [R1 R2].
          split; [exact R1|]. destruct R2 as [R2|R2]; [left; exact (good_out_hh hh hh2 s' hh' G4 R2) | right; exact R2]. }
        destruct (c =? 47) eqn:E47.
        -- apply N.eqb_eq in E47. subst c. rewrite floop_slash in H. exact (Hsep H).
        -- destruct (c =? 92) eqn:E92.
           ++ apply N.eqb_eq in E92. subst c. rewrite floop_bslash in H. exact (Hsep H).
           ++ cbn [parse_path_loop] in H. rewrite Et in H. cbn [ctx_eqb negb st_is_special st_is_file andb] in H.
              rewrite E47, E92 in H. cbn [andb orb] in H. unfold is_qh in Eq. rewrite Eq in H. cbn [andb] in H.
              rewrite Bs_skip1 in H.
              destruct (is_normalized_wdl (segs_text segs ++ cur)) eqn:E4.
              ** (* the arm that puts '/' after a drive letter *)
                 rewrite (Hside eq_refl) in H. cbn [push_pending] in H.
                 destruct segs as [|s0 sr]; [|rewrite nwdl_segs_text_cur in E4; discriminate E4].
                 cbn [segs_text map concat app] in E4. destruct (nwdl_inv cur E4) as (a & -> & Ha).
                 pose proof (Bs_len_ge pre []) as Hl.
                 replace (ps <? nlen (Bs [] ++ [a; 58])) with true in H by (rewrite nlen_app; lia). cbn [andb] in H.
                 assert (D pre a ((Bs [] ++ [a; 58]) ++ [47])) as Hd.
                 { exists []. unfold P0, C02_PathL1.Bs. cbn [segs_text map concat]. rewrite !app_nil_r. rewrite <- !app_assoc. reflexivity. }
                 assert (nlen (Bs []) + 1 = ps + 2) as Ess.
                 { unfold C02_PathL1.Bs. cbn [segs_text map concat]. rewrite app_nil_r, nlen_app. unfold nlen at 2. cbn [length]. lia. }
                 assert (usv_list [c]) as Hc1 by (apply usv_cons; split; [exact Huc | constructor]).
                 destruct (loop_drive pre dbg a Ha r ((Bs [] ++ [a; 58]) ++ [47]) (nlen (Bs []) + 1) [c] hh s' hh' rem
                             Hur Hc1 Hd (or_introl Ess) H) as (R1 & _ & R3).
                 split; [exact R3 | right; exists a; split; assumption].
              ** rewrite andb_false_r in H.
                 apply (IH segs cur (c :: pend) hh s' hh' rem Hur); try assumption.
                 --- destruct Hp as (Hp1 & Hp2 & Hp3). split; [apply usv_cons; split; assumption|].
                     unfold no_byte in *. cbn [forallb]. rewrite E47, E92, Hp2, Hp3. split; reflexivity.
                 --- intros Hx. rewrite Hx in E4. discriminate E4.
Qed.

End LoopInvF.
