(* Proofs/C04_Utf8.v - the bytes handed to from_utf8_unchecked at each audited site are ASCII /
   valid UTF-8 (in the models). *)
From RU Require Import Base.Prelude Base.Utf8 Base.Utf8Facts Base.Outcome_c15 Model.AsciiSet Gen.Tables
  Model.PercentEncoding Model.FormUrlencoded Model.HostT Model.UrlRecord Model.Parser Model.UnsafeSites
  Proofs.ListN Proofs.C14_Set Proofs.C14_Enc Proofs.C14_Views Proofs.C02_Enc Proofs.C15_Bser Proofs.C15_Parse.

(* ---------- ASCII byte strings are valid UTF-8 and decode to themselves ---------- *)
Lemma ascii_utf8_strict t : ascii t -> utf8_strict t = inl t.
Proof.
  intros H. rewrite <- (utf8_encode_ascii t H) at 1. apply utf8_strict_encode. apply ascii_usv. exact H.
Qed.

Lemma ascii_utf8_valid t : ascii t -> utf8_valid t = true.
Proof. intros H. unfold utf8_valid. rewrite (ascii_utf8_strict t H). reflexivity. Qed.

(* when strict decoding succeeds there is no invalid item: lossy decoding gives the same text *)
Lemma valid_strict_is_lossy bs : utf8_valid bs = true -> utf8_strict bs = inl (utf8_lossy bs).
Proof.
  unfold utf8_valid, utf8_strict, utf8_lossy.
  assert (G : forall its acc upto l, strict_of_items acc upto its = inl l ->
              l = rev acc ++ map (fun it => match it with UCp c _ => c | UBad _ _ => REPLACEMENT end) its).
  { induction its as [|it r IH]; intros acc upto l Hs; cbn [strict_of_items map] in *.
    - inversion Hs. rewrite app_nil_r. reflexivity.
    - destruct it as [c n|n tr]; [|discriminate]. rewrite (IH _ _ _ Hs). cbn [rev]. rewrite <- app_assoc. reflexivity. }
  destruct (strict_of_items [] 0 (utf8_scan bs)) as [l|e] eqn:E; [|discriminate].
  intros _. rewrite (G _ _ _ _ E). reflexivity.
Qed.

(* ---------- percent_encoding/src/lib.rs:96 ---------- *)
Theorem utf8_pe_encode_byte b : is_byte b ->
  ascii (site_pe_encode_byte b) /\ length (site_pe_encode_byte b) = 3%nat.
Proof.
  intros Hb. unfold site_pe_encode_byte. rewrite enc_byte_is_spec by exact Hb. unfold enc_byte_spec.
  split; [|reflexivity]. unfold is_byte in Hb.
  assert (b / 16 < 16) as H1 by lia. assert (b mod 16 < 16) as H2 by lia.
  destruct (hex_upper_ascii _ H1) as [A1 _]. destruct (hex_upper_ascii _ H2) as [A2 _].
  repeat constructor; unfold is_ascii; lia.
Qed.

(* ---------- percent_encoding/src/lib.rs:163, :168 ---------- *)
Lemma should_encode_false_ascii S b : should_encode S b = false -> b < 128.
Proof. unfold should_encode. destruct (128 <=? b) eqn:E; [discriminate|]. intros _. lia. Qed.

Theorem utf8_pe_unchanged S bs c : site_pe_unchanged S bs = Some c ->
  ascii c /\ exists rest, pe_next S bs = Some (c, rest).
Proof.
  destruct bs as [|first remaining]; cbn [site_pe_unchanged]; [discriminate|].
  destruct (should_encode S first) eqn:E; [discriminate|]. intros H. inversion H; subst. clear H.
  cbn [pe_next]. rewrite E. destruct (span_keep S remaining) as [u rest] eqn:Es. cbn [fst].
  split; [|exists rest; reflexivity].
  destruct (span_keep_spec S remaining u rest Es) as (_ & _ & Hu & _).
  constructor; [exact (should_encode_false_ascii S first E)|].
  eapply Forall_impl; [|exact Hu]. cbv beta. intros a Ha. exact (should_encode_false_ascii S a Ha).
Qed.

(* ---------- percent_encoding/src/lib.rs:359, form_urlencoded/src/lib.rs:422 ---------- *)
Theorem utf8_lossy_reuse bytes s : site_lossy_reuse bytes = Some s ->
  s = bytes /\ utf8_valid s = true /\ utf8_strict s = inl (utf8_lossy bytes).
Proof.
  unfold site_lossy_reuse. destruct (utf8_valid bytes) eqn:E; [|discriminate]. intros H. inversion H; subst.
  split; [reflexivity|]. split; [exact E|]. apply valid_strict_is_lossy. exact E.
Qed.

(* the model of form_urlencoded's decode_utf8_lossy returns that same text in the Owned arm *)
Theorem utf8_lossy_reuse_is_model bytes : snd (decode_utf8_lossy (Owned, bytes)) = utf8_lossy bytes.
Proof. reflexivity. Qed.

(* ---------- form_urlencoded/src/lib.rs:159 ---------- *)
Lemma unchanged_ascii b : byte_serialized_unchanged b = true -> b < 128.
Proof.
  unfold byte_serialized_unchanged. intros H. apply memb_spec in H.
  assert (Forall (fun x => x < 128) T_FORM_UNCHANGED) as F by (vm_compute; repeat constructor).
  rewrite Forall_forall in F. exact (F b H).
Qed.

Theorem utf8_bser_unchanged bs c : site_bser_unchanged bs = Some c -> ascii c.
Proof.
  destruct bs as [|first tail]; cbn [site_bser_unchanged]; [discriminate|].
  destruct (byte_serialized_unchanged first) eqn:E; cbn [negb]; [|discriminate].
  cbn [bser_next]. rewrite E. cbn [negb].
  destruct (FormUrlencoded.position (fun b => negb (byte_serialized_unchanged b)) tail) as [i|] eqn:Ep.
  - intros H. inversion H; subst. clear H. destruct (position_prefix _ _ _ Ep) as [Hp Hi].
    cbn [plus firstn]. constructor; [exact (unchanged_ascii first E)|].
    eapply Forall_impl; [|exact Hp]. cbv beta. intros a Ha. apply negb_false_iff in Ha. exact (unchanged_ascii a Ha).
  - intros H. inversion H; subst. clear H. apply position_none in Ep.
    constructor; [exact (unchanged_ascii first E)|].
    eapply Forall_impl; [|exact Ep]. cbv beta. intros a Ha. apply negb_false_iff in Ha. exact (unchanged_ascii a Ha).
Qed.

(* ---------- url/src/parser.rs:1843 fast_u16_to_str ---------- *)
Lemma decimal_rev_digits fuel : forall n, Forall (fun c => 48 <= c /\ c <= 57) (decimal_rev fuel n).
Proof.
  induction fuel as [|f IH]; intros n; cbn [decimal_rev]; [constructor|].
  constructor; [lia|]. destruct (n / 10 =? 0); [constructor | apply IH].
Qed.

(* at most k digits below 10^k (k >= 1): the 5-byte buffer of fast_u16_to_str is never overrun *)
Lemma decimal_rev_len k : forall fuel n, (1 <= k)%nat -> n < 10 ^ N.of_nat k ->
  (length (decimal_rev fuel n) <= k)%nat.
Proof.
  induction k as [|k IH]; intros fuel n Hk Hn; [lia|].
  destruct fuel as [|f]; cbn [decimal_rev length]; [lia|].
  destruct (n / 10 =? 0) eqn:E; [cbn [length]; lia|].
  destruct k as [|k'].
  - exfalso. change (10 ^ N.of_nat 1) with 10 in Hn. lia.
  - assert (n / 10 < 10 ^ N.of_nat (S k')) as Hd.
    { rewrite Nat2N.inj_succ in Hn. rewrite N.pow_succ_r' in Hn. lia. }
    specialize (IH f (n / 10) ltac:(lia) Hd). lia.
Qed.

Theorem utf8_fast_u16_to_str p : p < 65536 ->
  Forall (fun c => is_digit c = true) (site_fast_u16_to_str p) /\ ascii (site_fast_u16_to_str p)
  /\ (1 <= length (site_fast_u16_to_str p) <= 5)%nat.
Proof.
  intros Hp. unfold site_fast_u16_to_str, decimal. pose proof (decimal_rev_digits 40 p) as Hd.
  split; [|split].
  - apply Forall_rev. eapply Forall_impl; [|exact Hd]. cbv beta. unfold is_digit. intros; lia.
  - apply Forall_rev. eapply Forall_impl; [|exact Hd]. cbv beta. unfold is_ascii. intros; lia.
  - rewrite rev_length. split; [cbn [decimal_rev length]; lia|].
    apply (decimal_rev_len 5 40 p); [lia|]. change (10 ^ N.of_nat 5) with 100000. lia.
Qed.
