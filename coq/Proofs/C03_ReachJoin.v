(* Proofs/C03_ReachJoin.v - histories with joins and file: texts whose exclusions are ONLY the known findings.
   inv03 u (C03_ParseFront.v) = wfh u /\ AS u /\ PN u /\ HE u :
     wf_b and host_text_ok; a special scheme is followed by "://" (C05_AuthOfs.AS, hence base_ok: the record is a
     possible base); the stored port is not the scheme default; with a special scheme the host text does not end
     in '/', and a special scheme other than file has a host (hence auth_end_ok).
   It is an invariant of Parser::parse_url (parse_url_inv03: any input, any base with inv03) and of every call of
   the 19 mutators outside excl03k (inv03_step).  reach03j: parse (no base), join against ANY reached record,
   the two file-path constructors, any mutator call outside known03k.  Hypotheses on the host functions: HostWf,
   NoEmpty (Host::parse never returns the empty host), IpWf. *)
From RU Require Import Base.Prelude Base.Utf8 Model.AsciiSet Gen.Tables Model.PercentEncoding
  Model.HostT Model.UrlRecord Model.Parser Model.Setters Model.WF Model.FilePath
  Proofs.ListN Proofs.C02_Reach Proofs.C02_AuthParts
  Proofs.C03_WF Proofs.C06_List Proofs.C06_WFI Proofs.C06_Tail Proofs.C06_Steps Proofs.C06_Suffix Proofs.C06_Front Proofs.C06_Atomic Proofs.C06_FragQuery
  Proofs.C06_Port Proofs.C06_Cred Proofs.C06_Scheme Proofs.C06_HostNone Proofs.C06_Host Proofs.C06_Segments Proofs.C06_Path Proofs.C06_PathNoAuth Proofs.C06_Main
  Proofs.C06_PathMore Proofs.C06_Quirks Proofs.C05_CompSteps Proofs.C05_CompSteps3
  Proofs.C04_ParseTotal Proofs.C03_ReachParts Proofs.C03_Reach Proofs.C03_ReachAll Proofs.C03_Reachability Proofs.C03_PortInv
  Proofs.C03_AuthEnd Proofs.C05_BaseOk Proofs.C05_AuthOfs Proofs.C05_AuthParse Proofs.C05_HostText
  Proofs.C03_ReachAscii Proofs.C03_ParseFront Proofs.C03_PortParse Proofs.C03_ReachKnown Proofs.C20_Path Proofs.C20_RT.
Open Scope N_scope.
Open Scope list_scope.

Section Steps.
Variable dbg : bool.
Variable hp hpo : list N -> result host.
Variable hd : host -> list N.
Hypothesis HW : HostWf hp hpo hd.

(* set_host(None) keeps the scheme *)
Lemma set_host_none_scheme u u' st : wfh u -> (has_host u && path_starts_with_2slash u = false) ->
  set_host dbg hp hpo hd u None = Some (u', st) -> scheme u' = scheme u.
Proof using.
  intros [W HT] G H.
  destruct (set_host_none_ok dbg hp hpo hd u u' st W H) as (Herr & Hno & Hok).
  destruct st; [|rewrite Herr by discriminate; reflexivity ..].
  destruct (has_host u) eqn:Hh; [|rewrite (Hno eq_refl eq_refl); reflexivity].
  cbn [andb] in G.
  destruct (path_empty_at_end u) eqn:He.
  - destruct (set_host_none_slash dbg hp hpo hd u u' W Hh He H) as [W' H'].
    destruct (set_host_none_ok dbg hp hpo hd (set_ser u (ser u ++ [47])) u' SOk W' H') as (_ & _ & Hok').
    assert (path_empty_at_end (set_ser u (ser u ++ [47])) = false) as X1.
    { unfold path_empty_at_end in He |- *. apply N.eqb_eq in He. cbn [ser set_ser path_start].
      apply N.eqb_neq. rewrite nlen_app. change (nlen [47]) with 1. lia. }
    assert (path_starts_with_2slash (set_ser u (ser u ++ [47])) = false) as X2.
    { unfold path_empty_at_end in He. apply N.eqb_eq in He. unfold path_starts_with_2slash. cbn [ser set_ser path_start].
      rewrite <- He. rewrite nskipn_app_exact. reflexivity. }
    destruct (Hok' eq_refl Hh X1 X2) as (_ & _ & Es & _). rewrite Es.
    rewrite (scheme_text03 u W), (scheme_text03 _ W'). cbn [ser set_ser scheme_end].
    pose proof (wf_auth_facts u W (has_host_authority u W Hh)) as F.
    pose proof (af_ue F); pose proof (af_hs F); pose proof (af_he F); pose proof (af_ps F); pose proof (af_len F).
    rewrite nfirstn_app_le by lia. reflexivity.
  - destruct (Hok eq_refl eq_refl eq_refl G) as (_ & _ & Es & _). exact Es.
Qed.

(* a step never makes a non-special scheme special *)
Theorem spb_back u o u' : IpDisp hd -> wfh u -> op_args_ok o -> excl03 u o u' = false ->
  apply_op dbg hp hpo hd u o = Some u' -> spb u' = true -> spb u = true.
Proof using HW.
  intros HIP K Ha G H.
  pose proof (step03 dbg hp hpo hd HW u o u' HIP K Ha G H) as [W' _]. pose proof K as [W HT].
  destruct (frame_all dbg hp hpo hd u K) as (F1 & F2 & F3 & F4 & F5 & _).
  assert (scheme u' = scheme u -> spb u' = true -> spb u = true) as SS.
  { intros Es. rewrite (spb_same u u' W W' Es). tauto. }
  assert (same_front dbg u u' -> spb u' = true -> spb u = true) as SF.
  { intros (Es & _). exact (SS Es). }
  destruct o; cbn [apply_op excl03 op_args_ok] in H, G, Ha; try (apply omf_some in H; destruct H as [st H]).
  - destruct (F1 _ _ H) as [[S _] _]. exact (SF S).
  - destruct (F2 _ _ Ha H) as [[S _] _]. exact (SF S).
  - apply orb_false_iff in G. destruct G as [G G3]. apply orb_false_iff in G. destruct G as [G1 G2].
    apply negb_false_iff in G1. apply auth_end_b_ok in G1.
    assert (is_opaque_b u = true -> forallb no_qh p = true) as Hq.
    { intros Ho. rewrite Ho in G2. cbn [andb] in G2. apply negb_false_iff in G2. exact G2. }
    apply SF.
    destruct (path_layouts u W) as [Hau|[NA|[Ho|M]]].
    + destruct (set_path_ok dbg u p u' W HT Hau Ha G1 H) as (_ & _ & F & _). exact F.
    + destruct (set_path_noauth_ok dbg u p u' W NA Ha H (path_bad_noauth u u' G3 NA)) as (_ & _ & F & _). exact F.
    + destruct (set_path_opaque_ok dbg u p u' W Ho Ha (Hq Ho) H) as (_ & _ & F & _). exact F.
    + destruct (set_path_marker_ok dbg u p u' W M Ha H) as [R _].
      destruct (R (path_bad_marker u u' W G3 M)) as (_ & _ & F & _). exact F.
  - destruct st; [|rewrite (set_port_atomic dbg u p u' _ H) by discriminate; tauto ..].
    destruct (F3 _ _ Ha H) as [(Es & _) _]. exact (SS Es).
  - destruct h as [x|].
    + destruct (host_bad_premises u u' W G) as [X2 X1].
      exact (proj1 (set_host_some_fr dbg hp hpo hd HW u x u' st W X2 X1 H)).
    + exact (SS (set_host_none_scheme u u' st K G H)).
  - destruct (host_bad_premises u u' W G) as [X2 X1].
    assert (ip_arg h) as Hv by (destruct h; exact Ha).
    exact (proj1 (set_ip_host_fr dbg hp hpo hd u h u' st HIP W Hv X2 H)).
  - destruct st; [|rewrite (set_password_atomic dbg u p u' _ H) by discriminate; tauto ..].
    destruct (F4 _ _ H) as (Es & _). exact (SS Es).
  - destruct st; [|rewrite (set_username_atomic dbg u s u' _ H) by discriminate; tauto ..].
    destruct (F5 _ _ H) as (Es & _). exact (SS Es).
  - exact (proj1 (set_scheme_fr dbg hp hpo hd u s u' st K H)).
  - destruct st; [|rewrite (path_segments_session_atomic dbg u ops u' _ H) by discriminate; tauto ..].
    apply SF.
    destruct (path_layouts u W) as [Hau|[NA|[Ho|M]]].
    + destruct (path_segments_session_ok dbg u ops u' W HT Hau Ha H) as (_ & _ & F & _). exact F.
    + destruct (path_segments_session_noauth_ok dbg u ops u' W NA Ha H (path_bad_noauth u u' G NA)) as (_ & _ & F & _). exact F.
    + exfalso. unfold path_segments_session, path_segments_mut in H. rewrite (cannot_be_a_base_eval u W) in H.
      unfold is_opaque_b in Ho. rewrite Ho in H. cbn [bindo] in H. discriminate.
    + destruct (path_segments_session_marker_ok dbg u ops u' W M Ha H) as [R _].
      destruct (R (path_bad_marker u u' W G M)) as (_ & _ & F & _). exact F.
  - unfold q_set_protocol in H. cbv zeta in H. exact (proj1 (set_scheme_fr dbg hp hpo hd u _ u' st K H)).
  - destruct st; [|rewrite (set_username_atomic dbg u s u' _ H) by discriminate; tauto ..].
    destruct (F5 _ _ H) as (Es & _). exact (SS Es).
  - unfold q_set_password in H.
    destruct st; [|rewrite (set_password_atomic dbg u _ u' _ H) by discriminate; tauto ..].
    destruct (F4 _ _ H) as (Es & _). exact (SS Es).
  - destruct (host_bad_premises u u' W G) as [X2 X1].
    exact (proj1 (q_set_host_fr dbg hp hpo hd HW u s u' st W X2 X1 H)).
  - destruct (host_bad_premises u u' W G) as [X2 X1].
    exact (proj1 (q_set_hostname_fr dbg hp hpo hd HW u s u' st W X2 X1 H)).
  - destruct (q_set_port_ok dbg u s W HT) as (u2 & st2 & E & Herr & Hok).
    rewrite H in E. inversion E; subst u2 st2.
    destruct st; [|rewrite Herr by discriminate; tauto ..].
    destruct (Hok eq_refl) as (_ & _ & (Es & _) & _). exact (SS Es).
  - apply orb_false_iff in G. destruct G as [G1 G3]. apply negb_false_iff in G1. apply auth_end_b_ok in G1.
    destruct (q_set_pathname_eval dbg u s W) as (sch & _ & E). rewrite E in H. clear E.
    destruct (byte_eqb (ser u) (scheme_end u + 1) 47) eqn:Hsl; cbn [negb] in H; [|inversion H; subst; tauto].
    pose proof (q_pathname_arg_usv (scheme_type_of sch) (has_host u) s Ha) as Hp.
    set (p := q_pathname_arg (scheme_type_of sch) (has_host u) s) in *.
    apply SF.
    destruct (path_layouts u W) as [Hau|[NA|[Ho|M]]].
    + destruct (set_path_ok dbg u p u' W HT Hau Hp G1 H) as (_ & _ & F & _). exact F.
    + destruct (set_path_noauth_ok dbg u p u' W NA Hp H (path_bad_noauth u u' G3 NA)) as (_ & _ & F & _). exact F.
    + unfold is_opaque_b in Ho. rewrite Hsl in Ho. discriminate.
    + destruct (set_path_marker_ok dbg u p u' W M Hp H) as [R _].
      destruct (R (path_bad_marker u u' W G3 M)) as (_ & _ & F & _). exact F.
  - unfold q_set_search in H.
    assert (str_arg_ok (match s with [] => None | 63 :: r => Some r | _ => Some s end)) as Hq.
    { destruct s as [|c r]; [exact I|]. destruct (N.eq_dec c 63) as [->|Hc].
      - exact (usv_tail03 _ _ Ha).
      - unfold str_arg_ok. destruct c as [|q]; [exact Ha|]. do 6 (destruct q as [q|q|]; try exact Ha). contradiction. }
    destruct (F2 _ _ Hq H) as [[S _] _]. exact (SF S).
  - unfold q_set_hash in H. destruct (F1 _ _ H) as [[S _] _]. exact (SF S).
Qed.

(* "special => ://" along a step *)
Theorem as_step u o u' : IpDisp hd -> wfh u -> op_args_ok o -> excl03 u o u' = false ->
  apply_op dbg hp hpo hd u o = Some u' -> AS u -> AS u'.
Proof using HW.
  intros HIP K Ha G H A Hs'. pose proof K as [W _].
  pose proof (spb_back u o u' HIP K Ha G H Hs') as Hs. specialize (A Hs).
  rewrite apply_op5 in H.
  destruct (apply_op_ao dbg hp hpo hd u (op5 o) u' H A) as [A'|(sty & Est & Hns)]; [exact A'|].
  exfalso. rewrite (u_scheme_type_spb u sty W Est) in Hns. rewrite Hs in Hns. discriminate Hns.
Qed.

Hypothesis HNE : NoEmpty hp.
Hypothesis HIPW : IpWf hd.

(* one step outside the known classes *)
Theorem inv03_step u o u' : inv03 u -> op_args_ok o -> known03k u o u' = false ->
  apply_op dbg hp hpo hd u o = Some u' -> inv03 u'.
Proof using HW HNE HIPW.
  intros (K & A & P & E) Ha G H. pose proof (IpWf_IpDisp hd HIPW) as HIP.
  unfold known03k in G. apply andb_false_iff in G. destruct G as [G|G].
  - apply negb_false_iff in G. rewrite (url_eqb_true03 _ _ G). exact (conj K (conj A (conj P E))).
  - pose proof (excl03k_excl03 u o u' (he_auth_end u K E) G) as G'.
    split; [exact (step03 dbg hp hpo hd HW u o u' HIP K Ha G' H)|].
    split; [exact (as_step u o u' HIP K Ha G' H A)|].
    split; [exact (pn_step dbg hp hpo hd HW u o u' HIP K Ha G' H P)|].
    exact (he_step dbg hp hpo hd HW HNE HIPW u o u' K Ha G' H E).
Qed.
End Steps.

(* ---------- the file records ---------- *)
Lemma file_rec_inv03 P : wfh (file_rec P) -> inv03 (file_rec P).
Proof.
  intros K. split; [exact K|]. split; [|split; [apply file_rec_pn | exact (file_rec_he P (proj1 K))]].
  intros _. unfold AO. cbn. lia.
Qed.

(* ---------- the histories ---------- *)
Section Reach.
Variable dbg : bool.
Variable hp hpo : list N -> result host.
Variable hd : host -> list N.

Inductive reach03j : url -> Prop :=
| RJ_parse ovr input u : parse_url dbg hp hpo hd ovr None input = POk u -> reach03j u
| RJ_join ovr b input u : reach03j b -> parse_url dbg hp hpo hd ovr (Some b) input = POk u -> reach03j u
| RJ_file p u : bytes p -> from_file_path p = FOk u -> reach03j u
| RJ_dir p u : bytes p -> from_directory_path p = FOk u -> reach03j u
| RJ_step u o u' :
    reach03j u -> op_args_ok o -> known03k u o u' = false -> apply_op dbg hp hpo hd u o = Some u' -> reach03j u'.

Theorem reach03j_inv : HostWf hp hpo hd -> NoEmpty hp -> IpWf hd -> forall u, reach03j u -> inv03 u.
Proof.
  intros HW HNE HIPW u R.
  induction R as [ovr input u Hp | ovr b input u Rb IHb Hp | p u Hb H | p u Hb H | u o u' R IH Ha G H].
  - exact (parse_url_inv03 dbg hp hpo hd ovr None input u HW I Hp).
  - exact (parse_url_inv03 dbg hp hpo hd ovr (Some b) input u HW IHb Hp).
  - pose proof (from_file_path_wfh p u Hb H) as K. destruct (path_is_absolute p) eqn:Ea.
    + rewrite (from_file_path_spec p Hb Ea) in H. inversion H; subst u. exact (file_rec_inv03 _ K).
    + rewrite (proj1 (from_file_path_rel p Ea)) in H. discriminate.
  - pose proof (from_directory_path_wfh p u Hb H) as K. destruct (path_is_absolute p) eqn:Ea.
    + rewrite (from_directory_path_spec p Hb Ea) in H. inversion H; subst u. exact (file_rec_inv03 _ K).
    + rewrite (proj2 (from_file_path_rel p Ea)) in H. discriminate.
  - exact (inv03_step dbg hp hpo hd HW HNE HIPW u o u' IH Ha G H).
Qed.

(* the older relations are parts of it *)
Lemma reach03k_j u : reach03k dbg hp hpo hd u -> reach03j u.
Proof.
  induction 1 as [input u Hu Hc Hp | p u Hb H | p u Hb H | u o u' R IH Ha G H].
  - exact (RJ_parse None input u Hp).
  - exact (RJ_file p u Hb H).
  - exact (RJ_dir p u Hb H).
  - exact (RJ_step u o u' IH Ha G H).
Qed.

(* and it is a part of reach03a: base_ok of a reached base and auth_end_ok of a receiver hold *)
Theorem reach03j_a : HostWf hp hpo hd -> NoEmpty hp -> IpWf hd -> forall u, reach03j u -> reach03a dbg hp hpo hd u.
Proof.
  intros HW HNE HIPW u R.
  induction R as [ovr input u Hp | ovr b input u Rb IHb Hp | p u Hb H | p u Hb H | u o u' R IH Ha G H].
  - exact (RA_parse dbg hp hpo hd ovr input u Hp).
  - destruct (reach03j_inv HW HNE HIPW b Rb) as ([Wb _] & Ab & _).
    exact (RA_join dbg hp hpo hd ovr b input u IHb (as_base_ok b Wb Ab) Hp).
  - exact (RA_file dbg hp hpo hd p u Hb H).
  - exact (RA_dir dbg hp hpo hd p u Hb H).
  - apply (RA_step dbg hp hpo hd u o u' IH Ha); [|exact H].
    destruct (reach03j_inv HW HNE HIPW u R) as (K & _ & _ & E).
    unfold known03k in G. unfold known03. apply andb_false_iff in G. destruct G as [G|G]; [rewrite G; reflexivity|].
    rewrite (excl03k_excl03 u o u' (he_auth_end u K E) G). apply andb_false_r.
Qed.
End Reach.

(* ---------- the parser half of "a scheme-default port is never stored", for reach03a ---------- *)
Theorem reach03a_pn_all dbg hp hpo hd : HostWf hp hpo hd -> IpDisp hd -> forall u, reach03a dbg hp hpo hd u -> PN u.
Proof.
  intros HW HIP u R.
  assert (wfh u /\ PNr u) as [[W _] X]; [|exact (proj1 (pnr_pn u W) X)].
  induction R as [ovr input u Hp | ovr b input u Rb IHb Hb Hp | p u Hb H | p u Hb H | u o u' R IH Ha G H].
  - split; [exact (reach03a_wfh dbg hp hpo hd HW HIP u (RA_parse dbg hp hpo hd ovr input u Hp))|].
    exact (parse_url_pnr dbg hp hpo hd ovr None input u HW I Hp).
  - split; [exact (reach03a_wfh dbg hp hpo hd HW HIP u (RA_join dbg hp hpo hd ovr b input u Rb Hb Hp))|].
    destruct IHb as [[Wb _] Pb]. apply (parse_url_pnr dbg hp hpo hd ovr (Some b) input u HW); [|exact Hp].
    split; [exact Wb|]. split; [exact (proj2 (proj1 (base_ok_iff b) Hb)) | exact Pb].
  - pose proof (from_file_path_wfh p u Hb H) as K. split; [exact K|]. apply (pnr_pn u (proj1 K)).
    destruct (path_is_absolute p) eqn:Ea.
    + rewrite (from_file_path_spec p Hb Ea) in H. inversion H. apply file_rec_pn.
    + rewrite (proj1 (from_file_path_rel p Ea)) in H. discriminate.
  - pose proof (from_directory_path_wfh p u Hb H) as K. split; [exact K|]. apply (pnr_pn u (proj1 K)).
    destruct (path_is_absolute p) eqn:Ea.
    + rewrite (from_directory_path_spec p Hb Ea) in H. inversion H. apply file_rec_pn.
    + rewrite (proj2 (from_file_path_rel p Ea)) in H. discriminate.
  - destruct IH as [Ku Pu]. destruct (known03_false u o u' G) as [->|G']; [split; assumption|].
    pose proof (step03 dbg hp hpo hd HW u o u' HIP Ku Ha G' H) as K'. split; [exact K'|].
    apply (pnr_pn u' (proj1 K')). exact (pn_step dbg hp hpo hd HW u o u' HIP Ku Ha G' H (proj1 (pnr_pn u (proj1 Ku)) Pu)).
Qed.

(* ---------- a history with a file: text, joins and a path setter ---------- *)
From Coq Require Import String.
From RU Require Import Proofs.C02_AuthMain Proofs.C03_ReachEx.
Open Scope string_scope.

Ltac exj_join txt :=
  match goal with R : reach03j ?d ?hp ?hpo ?hd ?b |- _ =>
    let E := fresh "E" in let u1 := fresh "u" in let E' := fresh "E" in
    destruct (parse_url d hp hpo hd None (Some b) (B txt)) as [u1| |] eqn:E; [|vm_compute in E; discriminate ..];
    pose proof E as E'; vm_compute in E'; injection E' as <-;
    match type of E with parse_url _ _ _ _ _ _ _ = POk ?u' =>
      let R' := fresh "R" in
      assert (reach03j d hp hpo hd u') as R' by exact (RJ_join d hp hpo hd None b (B txt) u' R E);
      clear R E
    end
  end.

(* parse "file://h/a/b"; join "../c?q" -> file://h/c?q; set_path "x/../y" -> file://h/y?q;
   join "http://g:80/z" -> http://g/z (80 is the default: dropped); join "//k:81" -> http://k:81/ *)
Definition reach03j_example_stmt : Prop :=
  exists u, reach03j true ex_hp3 ex_hp ex_hd2 u /\ ser u = B "http://k:81/".

Lemma reach03j_example : reach03j_example_stmt.
Proof.
  destruct (parse_url true ex_hp3 ex_hp ex_hd2 None None (B "file://h/a/b")) as [u0| |] eqn:E0;
    [|vm_compute in E0; discriminate ..].
  assert (reach03j true ex_hp3 ex_hp ex_hd2 u0) as R0 by exact (RJ_parse true ex_hp3 ex_hp ex_hd2 None (B "file://h/a/b") u0 E0).
  vm_compute in E0. injection E0 as <-.
  exj_join "../c?q".
  match goal with R : reach03j ?d ?hp ?hpo ?hd ?u |- _ =>
    destruct (apply_op d hp hpo hd u (OSetPath (B "x/../y"))) as [u2|] eqn:E2; [|vm_compute in E2; discriminate];
    pose proof E2 as E2'; vm_compute in E2'; injection E2' as <-;
    match type of E2 with apply_op _ _ _ _ _ _ = Some ?u' =>
      assert (reach03j d hp hpo hd u') as R2
        by (apply (RJ_step d hp hpo hd u (OSetPath (B "x/../y")) u' R); [cbn [op_args_ok]; usv_tac | vm_compute; reflexivity | exact E2]);
      clear R E2
    end
  end.
  exj_join "http://g:80/z".
  exj_join "//k:81".
  match goal with R : reach03j _ _ _ _ ?u |- _ => exists u end.
  split; [assumption | vm_compute; reflexivity].
Qed.
