(* Proofs/C06_Cred.v - set_password and set_username on a well-formed record with a host. *)
From RU Require Import Base.Prelude Base.Utf8 Model.AsciiSet Gen.Tables Model.PercentEncoding
  Model.HostT Model.UrlRecord Model.Parser Model.Setters Model.WF
  Proofs.ListN Proofs.C03_WF Proofs.C06_List Proofs.C06_WFI Proofs.C06_Tail Proofs.C06_Suffix Proofs.C06_Front
  Proofs.C06_Port Proofs.C06_Steps.

(* replace the bytes [a, b) of the serialization by x; everything from b on moves *)
Definition cred_splice (u : url) (a b : N) (x : list N) (ue' : N) : url :=
  let b' := a + nlen x in
  mkUrl (nfirstn a (ser u) ++ x ++ nskipn b (ser u)) (scheme_end u) ue'
        (shift b b' (host_start u)) (shift b b' (host_end u)) (hosti u) (port u) (shift b b' (path_start u))
        (option_map (shift b b') (query_start u)) (option_map (shift b b') (fragment_start u)).

Section Splice.
Variables (dbg : bool) (u : url) (a b : N) (x : list N) (ue' : N).
Hypothesis W : wf_b u = true.
Hypothesis HT : host_text_ok u.
Hypothesis Hh : has_host u = true.
Hypothesis Ha1 : scheme_end u + 3 <= a.
Hypothesis Hab : a <= b.
Hypothesis Hb : b <= host_start u.
Hypothesis Hue1 : scheme_end u + 3 <= ue'.
Hypothesis Hue2 : ue' <= shift b (a + nlen x) (host_start u).

Let u' := cred_splice u a b x ue'.
Let b' := a + nlen x.

Lemma cs_auth : has_authority_b u = true.
Proof. apply has_host_authority; assumption. Qed.

Lemma cs_bounds : username_end u <= host_start u /\ host_start u < host_end u /\ host_end u <= path_start u
  /\ path_start u <= nlen (ser u).
Proof.
  pose proof (wf_auth_facts u W cs_auth) as F. destruct (HT Hh) as (T & _).
  pose proof (af_hs F); pose proof (af_he F); pose proof (af_ps F); pose proof (af_len F). lia.
Qed.

Lemma cs_ser : ser u' = nfirstn a (ser u) ++ x ++ nskipn b (ser u).
Proof. reflexivity. Qed.

Lemma cs_pre : agree_pre a (ser u) (ser u').
Proof. destruct cs_bounds. rewrite cs_ser. apply agree_pre_nfirstn. lia. Qed.

Lemma cs_suf : agree_suf b b' (ser u) (ser u').
Proof.
  destruct cs_bounds. unfold agree_suf. rewrite cs_ser, app_assoc.
  rewrite nskipn_app_ge by (rewrite nlen_app, nlen_nfirstn by lia; subst b'; lia).
  rewrite nlen_app, nlen_nfirstn by lia. subst b'. rewrite N.sub_diag. reflexivity.
Qed.

Lemma cs_len : nlen (ser u') = b' + (nlen (ser u) - b).
Proof. destruct cs_bounds. rewrite cs_ser, !nlen_app, nlen_nfirstn, nlen_nskipn by lia. subst b'. lia. Qed.

Lemma cs_tail : shifted_tail b b' u u'.
Proof. repeat split. Qed.

Lemma cs_sauth : shifted_auth b b' u u'.
Proof. repeat split. Qed.

(* bytes of the new serialization *)
Lemma cs_byte_lo i c : i < a -> byte_eqb (ser u') i c = byte_eqb (ser u) i c.
Proof. intros H. apply (pre_byte_eqb a); [apply cs_pre | exact H]. Qed.

Lemma cs_byte_hi i c : b <= i -> byte_eqb (ser u') (shift b b' i) c = byte_eqb (ser u) i c.
Proof. intros H. apply (suf_byte_eqb b b'); [apply cs_suf | exact H | reflexivity]. Qed.

Lemma cs_byte_mid k c : k < nlen x -> byte_eqb (ser u') (a + k) c = byte_eqb x k c.
Proof.
  intros H. destruct cs_bounds. unfold byte_eqb. rewrite cs_ser.
  rewrite nnth_app_ge by (rewrite nlen_nfirstn; lia). rewrite nlen_nfirstn by lia.
  replace (a + k - a) with k by lia. rewrite nnth_app_lt by exact H. reflexivity.
Qed.

Lemma cs_piece_mid : nfirstn (nlen x) (nskipn a (ser u')) = x.
Proof.
  destruct cs_bounds. rewrite cs_ser. rewrite nskipn_app_ge by (rewrite nlen_nfirstn; lia).
  rewrite nlen_nfirstn by lia. rewrite N.sub_diag, nskipn_0. apply nfirstn_app_exact.
Qed.

Hypothesis HU : userinfo_ok u'.

Lemma cs_wf : wf_b u' = true.
Proof.
  pose proof cs_auth as Ha. destruct cs_bounds as (B1 & B2 & B3 & B4).
  pose proof W as W0. apply wf_b_iff in W0. rewrite Ha in W0. destruct W0 as (S & (AU & PS) & Q).
  assert (has_authority_b u' = true) as Ha'.
  { rewrite (has_authority_b_pre a u u' cs_pre) by (try lia; reflexivity). exact Ha. }
  pose proof cs_len as Hl.
  apply wf_b_iff. rewrite Ha'. split; [|split; [split|]].
  - apply (scheme_ok_pre a u u'); [apply cs_pre | lia | reflexivity | exact S].
  - destruct AU as (A1 & A2 & A3 & A4 & A5 & U & Hn & P).
    unfold auth_ok. split; [exact Hue1|]. split; [exact Hue2|].
    change (host_start u') with (shift b b' (host_start u)). change (host_end u') with (shift b b' (host_end u)).
    change (path_start u') with (shift b b' (path_start u)). change (hosti u') with (hosti u).
    split; [unfold shift; lia|]. split; [unfold shift; lia|]. split; [rewrite Hl; unfold shift; lia|].
    split; [exact HU|]. split; [intros E; specialize (Hn E); unfold shift; lia|].
    apply (asfx_port_ok u u' b b' W Ha cs_suf Hb); [rewrite Hl; lia | apply cs_tail | apply cs_sauth].
  - apply (sfx_pathstart_ok u u' b b' W cs_suf); [lia | rewrite Hl; lia | apply cs_tail | exact PS].
  - apply (sfx_qf_ok u u' b b' W cs_suf); [lia | rewrite Hl; lia | apply cs_tail].
Qed.

Lemma cs_host_text_ok : host_text_ok u'.
Proof.
  pose proof cs_len as Hl.
  apply (asfx_host_text_ok u u' b b' cs_suf Hb); [rewrite Hl; lia | apply cs_sauth | exact HT].
Qed.

Lemma cs_scheme : scheme u' = scheme u.
Proof.
  rewrite (scheme_eval u' cs_wf), (scheme_eval u W). unfold piece. cbn [pidx].
  change (scheme_end u') with (scheme_end u). rewrite !N.sub_0_r, !nskipn_0.
  rewrite (pre_firstn a _ _ _ cs_pre) by lia. reflexivity.
Qed.

Lemma cs_host_str : host_str u' = host_str u.
Proof.
  pose proof cs_len as Hl.
  apply (asfx_host_str u u' b b' W cs_auth cs_suf Hb); [rewrite Hl; lia | apply cs_sauth | apply cs_wf].
Qed.

Lemma cs_back : same_back dbg u u'.
Proof.
  pose proof cs_len as Hl.
  apply (asfx_back u u' b b' W cs_auth cs_suf Hb); [rewrite Hl; lia | apply cs_tail | apply cs_wf].
Qed.

Lemma cs_has_authority' : has_authority_b u' = true.
Proof. rewrite (has_authority_b_pre a u u' cs_pre) by (try lia; reflexivity). apply cs_auth. Qed.

End Splice.

Ltac splits := repeat match goal with |- _ /\ _ => split end.

Lemma has_password_of_byte u : wf_b u = true -> has_authority_b u = true -> username_end u < nlen (ser u) ->
  has_password_b u = byte_eqb (ser u) (username_end u) 58.
Proof.
  intros W Ha H. unfold has_password_b. rewrite Ha. replace (username_end u =? nlen (ser u)) with false by lia. reflexivity.
Qed.

Definition userinfo_enc (t : list N) : list N := pe_display T_USERINFO (utf8_encode t).

(* all facts about one splice, packaged *)
Record splice_facts (dbg : bool) (u : url) (a b : N) (x : list N) (ue' : N) : Prop := {
  sf_wf : wf_b (cred_splice u a b x ue') = true;
  sf_ht : host_text_ok (cred_splice u a b x ue');
  sf_scheme : scheme (cred_splice u a b x ue') = scheme u;
  sf_host : host_str (cred_splice u a b x ue') = host_str u;
  sf_back : same_back dbg u (cred_splice u a b x ue');
  sf_auth : has_authority_b (cred_splice u a b x ue') = true;
  sf_pre : agree_pre a (ser u) (ser (cred_splice u a b x ue'));
  sf_mid : nfirstn (nlen x) (nskipn a (ser (cred_splice u a b x ue'))) = x
}.

Lemma splice_all dbg u a b x ue' : wf_b u = true -> host_text_ok u -> has_host u = true ->
  scheme_end u + 3 <= a -> a <= b -> b <= host_start u -> scheme_end u + 3 <= ue' ->
  ue' <= shift b (a + nlen x) (host_start u) -> userinfo_ok (cred_splice u a b x ue') ->
  splice_facts dbg u a b x ue'.
Proof.
  intros. constructor.
  - apply cs_wf; assumption.
  - apply cs_host_text_ok; assumption.
  - apply cs_scheme; assumption.
  - apply cs_host_str; assumption.
  - apply cs_back; assumption.
  - apply cs_has_authority'; assumption.
  - apply cs_pre; assumption.
  - apply cs_piece_mid; assumption.
Qed.

Lemma clear_pw dbg u end_ : wf_b u = true -> host_text_ok u -> has_host u = true ->
  byte_eqb (ser u) (username_end u) 58 = true -> username_end u + 2 <= host_start u ->
  byte_eqb (ser u) (host_start u - 1) 64 = true ->
  (end_ = host_start u /\ scheme_end u + 3 = username_end u)
  \/ (end_ = host_start u - 1 /\ scheme_end u + 3 <> username_end u) ->
  let u' := cred_splice u (username_end u) end_ [] (username_end u) in
  wf_b u' = true /\ host_text_ok u' /\ scheme u' = scheme u /\ username dbg u' = username dbg u
  /\ host_str u' = host_str u /\ port u' = port u /\ same_back dbg u u' /\ password dbg u' = Some None.
Proof.
  intros W HT Hc U2 U3 U4 Hend u'.
  pose proof (has_host_authority u W Hc) as Ha. pose proof (wf_auth_facts u W Ha) as F.
  pose proof (af_ue F); pose proof (af_hs F); pose proof (af_he F); pose proof (af_ps F); pose proof (af_len F).
  destruct (HT Hc) as (T1 & T2 & T3).
  assert (username_end u <= end_ /\ end_ <= host_start u) as [Hend1 Hend2] by lia.
  assert (scheme_end u + 3 <= username_end u) as Q1 by lia.
  assert (username_end u <= shift end_ (username_end u + nlen []) (host_start u)) as Q2
    by (unfold shift; rewrite nlen_nil; lia).
  pose proof (cs_byte_hi u (username_end u) end_ [] (username_end u) W HT Hc Q1 Hend1 Hend2 Q1 Q2) as BH.
  assert (userinfo_ok u') as HU.
  { unfold userinfo_ok. change (username_end u') with (username_end u).
    change (host_start u') with (shift end_ (username_end u + nlen []) (host_start u)).
    change (scheme_end u') with (scheme_end u).
    destruct Hend as [[He1 He2]|[He1 He2]].
    - left. splits; [unfold shift; rewrite nlen_nil; lia | lia |].
      specialize (BH (host_start u) 58 ltac:(lia)). unfold shift in BH. rewrite nlen_nil in BH.
      replace (host_start u - end_ + (username_end u + 0)) with (username_end u) in BH by lia.
      fold u' in BH. rewrite BH. exact T2.
    - right. right. split; [|unfold shift; rewrite nlen_nil; lia].
      specialize (BH (host_start u - 1) 64 ltac:(lia)). unfold shift in BH. rewrite nlen_nil in BH.
      replace (host_start u - 1 - end_ + (username_end u + 0)) with (username_end u) in BH by lia.
      fold u' in BH. rewrite BH. exact U4. }
  destruct (splice_all dbg u _ _ _ _ W HT Hc Q1 Hend1 Hend2 Q1 Q2 HU) as [W' HT' S' H' B' A' P' M'].
  fold u' in W', HT', S', H', B', A', P', M'.
  splits; try assumption; try reflexivity.
  - apply (username_same dbg u u' (username_end u)); try assumption; try reflexivity; lia.
  - rewrite (password_piece dbg u' W').
    assert (has_password_b u' = false) as Hp.
    { unfold has_password_b. destruct HU as [(V1 & V2 & V3)|[(V1 & V2 & V3)|(V1 & V2)]].
      - rewrite V3. apply andb_false_r.
      - exfalso. change (username_end u') with (username_end u) in *.
        change (host_start u') with (shift end_ (username_end u + nlen []) (host_start u)) in V2.
        unfold shift in V2. rewrite nlen_nil in V2. lia.
      - rewrite (byte_eqb_excl _ _ 64 58) by (try lia; exact V1). apply andb_false_r. }
    rewrite Hp. reflexivity.
Qed.

Lemma set_pw dbg u p : wf_b u = true -> host_text_ok u -> has_host u = true ->
  let x := 58 :: userinfo_enc p ++ [64] in
  let u' := cred_splice u (username_end u) (host_start u) x (username_end u) in
  wf_b u' = true /\ host_text_ok u' /\ scheme u' = scheme u /\ username dbg u' = username dbg u
  /\ host_str u' = host_str u /\ port u' = port u /\ same_back dbg u u'
  /\ password dbg u' = Some (Some (userinfo_enc p)).
Proof.
  intros W HT Hc x u'.
  pose proof (has_host_authority u W Hc) as Ha. pose proof (wf_auth_facts u W Ha) as F.
  pose proof (af_ue F); pose proof (af_hs F); pose proof (af_he F); pose proof (af_ps F); pose proof (af_len F).
  assert (nlen x = 1 + nlen (userinfo_enc p) + 1) as LX.
  { unfold x. rewrite nlen_cons, nlen_app. change (nlen [64]) with 1. lia. }
  assert (scheme_end u + 3 <= username_end u) as Q1 by lia.
  assert (username_end u <= shift (host_start u) (username_end u + nlen x) (host_start u)) as Q2 by (unfold shift; lia).
  assert (host_start u <= host_start u) as Q3 by lia.
  pose proof (cs_byte_mid u (username_end u) (host_start u) x (username_end u) W HT Hc Q1 H0 Q3 Q1 Q2) as BM.
  fold u' in BM.
  assert (userinfo_ok u') as HU.
  { unfold userinfo_ok. right. left. change (username_end u') with (username_end u).
    change (host_start u') with (shift (host_start u) (username_end u + nlen x) (host_start u)).
    splits.
    - specialize (BM 0 58 ltac:(lia)). rewrite N.add_0_r in BM. rewrite BM. reflexivity.
    - unfold shift. lia.
    - replace (shift (host_start u) (username_end u + nlen x) (host_start u) - 1)
        with (username_end u + (nlen x - 1)) by (unfold shift; lia).
      rewrite BM by lia.
      unfold byte_eqb. replace (nlen x - 1) with (1 + nlen (userinfo_enc p)) by lia. unfold x.
      change (58 :: userinfo_enc p ++ [64]) with ([58] ++ userinfo_enc p ++ [64]).
      rewrite nnth_app_ge by (change (nlen [58]) with 1; lia). change (nlen [58]) with 1.
      replace (1 + nlen (userinfo_enc p) - 1) with (nlen (userinfo_enc p)) by lia.
      rewrite nnth_app_ge by lia. rewrite N.sub_diag. reflexivity. }
  destruct (splice_all dbg u _ _ _ _ W HT Hc Q1 H0 Q3 Q1 Q2 HU) as [W' HT' S' H' B' A' P' M'].
  fold u' in W', HT', S', H', B', A', P', M'.
  splits; try assumption; try reflexivity.
  - apply (username_same dbg u u' (username_end u)); try assumption; try reflexivity; lia.
  - rewrite (password_piece dbg u' W').
    assert (has_password_b u' = true) as Hp.
    { unfold has_password_b. rewrite A'.
      destruct HU as [(V1 & V2 & V3)|[(V1 & V2 & V3)|(V1 & V2)]].
      - exfalso. change (username_end u') with (username_end u) in *.
        change (host_start u') with (shift (host_start u) (username_end u + nlen x) (host_start u)) in V1.
        unfold shift in V1. lia.
      - rewrite V1. pose proof (byte_eqb_lt _ _ _ V1).
        replace (username_end u' =? nlen (ser u')) with false by lia. reflexivity.
      - exfalso. change (username_end u') with (username_end u) in *.
        change (host_start u') with (shift (host_start u) (username_end u + nlen x) (host_start u)) in V2.
        unfold shift in V2. lia. }
    rewrite Hp. do 2 f_equal. unfold piece. cbn [pidx]. rewrite Hp.
    change (username_end u') with (username_end u).
    change (host_start u') with (shift (host_start u) (username_end u + nlen x) (host_start u)).
    replace (shift (host_start u) (username_end u + nlen x) (host_start u) - 1 - (username_end u + 1))
      with (nlen (userinfo_enc p)) by (unfold shift; lia).
    replace (username_end u + 1) with (1 + username_end u) by lia. rewrite <- nskipn_nskipn.
    assert (nskipn (username_end u) (ser u') = x ++ nskipn (host_start u) (ser u)) as Esk.
    { change (ser u') with (nfirstn (username_end u) (ser u) ++ x ++ nskipn (host_start u) (ser u)).
      rewrite nskipn_app_ge by (rewrite nlen_nfirstn; lia). rewrite nlen_nfirstn by lia.
      rewrite N.sub_diag. reflexivity. }
    rewrite Esk. unfold x. change (nskipn 1 ((58 :: userinfo_enc p ++ [64]) ++ nskipn (host_start u) (ser u)))
      with ((userinfo_enc p ++ [64]) ++ nskipn (host_start u) (ser u)).
    rewrite <- app_assoc. apply nfirstn_app_exact.
Qed.

(* ---------- set_password ---------- *)
Theorem set_password_ok dbg u pw : wf_b u = true -> host_text_ok u ->
  exists u' st, set_password dbg u pw = Some (u', st)
  /\ (st <> SOk -> u' = u)
  /\ (st = SOk ->
      wf_b u' = true /\ host_text_ok u' /\ scheme u' = scheme u /\ username dbg u' = username dbg u
      /\ host_str u' = host_str u /\ port u' = port u /\ same_back dbg u u'
      /\ password dbg u' = Some (match pw with Some (c :: r) => Some (userinfo_enc (c :: r)) | _ => None end)).
Proof.
  intros W HT. unfold set_password. destruct (chcp_eval u W) as (c & Ec & Hc). rewrite Ec. cbn [bindo].
  destruct c.
  { exists u, SErrUnit. split; [reflexivity|]. split; [reflexivity | discriminate]. }
  specialize (Hc eq_refl). pose proof (has_host_authority u W Hc) as Ha. pose proof (wf_auth_facts u W Ha) as F.
  pose proof (af_ue F); pose proof (af_hs F); pose proof (af_he F); pose proof (af_ps F); pose proof (af_len F).
  destruct (HT Hc) as (T1 & T2 & T3).
  destruct (wf_tail_offsets_ge u (path_start u) W ltac:(lia)) as [Gq Gf].
  set (p := match pw with Some x => x | None => [] end).
  assert (match pw with Some (c :: r) => Some (userinfo_enc (c :: r)) | _ => None end
          = match p with c :: r => Some (userinfo_enc (c :: r)) | [] => None end) as Epw.
  { subst p. destruct pw as [[|? ?]|]; reflexivity. }
  rewrite Epw. clearbody p. clear Epw.
  destruct p as [|c0 r0].
  - (* clear the password *)
    rewrite byte_is_eqb by lia. cbn [bindo].
    destruct (af_userinfo F) as [[U1 U2]|[(U1 & U2 & U3 & U4)|(U1 & U2 & U3 & U4)]].
    + rewrite U2. exists u, SOk. split; [reflexivity|]. split; [intros X; contradiction|]. intros _.
      splits; try assumption; try reflexivity; try apply same_back_refl.
      rewrite (password_piece dbg u W). rewrite (has_password_of_byte u W Ha) by lia. rewrite U2. reflexivity.
    + rewrite U2. replace (1 <=? host_start u) with true by lia. rewrite (byte_is_of_eqb _ _ _ U4). cbn [bindo].
      replace (if dbg then assert_o true else Some tt) with (Some tt) by (destruct dbg; reflexivity). cbn [bindo].
      set (end_ := if scheme_end u + 3 =? username_end u then host_start u else host_start u - 1).
      assert (username_end u <= end_ /\ end_ <= host_start u) as [Hend1 Hend2].
      { subst end_. destruct (scheme_end u + 3 =? username_end u); lia. }
      replace ((username_end u <=? end_) && (end_ <=? nlen (ser u))) with true by lia. cbn [assert_o bindo].
      unfold sub_off, sub_off_opt. rewrite !adjust_ok by lia.
      rewrite !adjust_opt_ok by (destruct (query_start u), (fragment_start u); try exact I; lia). cbn [bindo].
      exists (cred_splice u (username_end u) end_ [] (username_end u)), SOk. split.
      { unfold cred_splice. rewrite nlen_nil, N.add_0_r. cbn [app].
        do 2 f_equal. f_equal; try (unfold shift; lia);
          apply option_map_shift_ext; intros i Hi; unfold shift;
          [rewrite Hi in Gq | rewrite Hi in Gf]; lia. }
      split; [intros X; contradiction|]. intros _.
      apply (clear_pw dbg u end_); try assumption.
      subst end_. destruct (scheme_end u + 3 =? username_end u) eqn:Ee; [left | right]; lia.
    + rewrite U2. exists u, SOk. split; [reflexivity|]. split; [intros X; contradiction|]. intros _.
      splits; try assumption; try reflexivity; try apply same_back_refl.
      rewrite (password_piece dbg u W). rewrite (has_password_of_byte u W Ha) by lia. rewrite U2. reflexivity.
  - (* set a password *)
    set (p := c0 :: r0).
    unfold u_slice_from. rewrite slice_from_o_some by lia. cbn [bindo].
    set (X := 58 :: userinfo_enc p ++ [64]).
    assert (push_encoded T_USERINFO (truncate (ser u) (username_end u) ++ [58]) p ++ [64]
            = nfirstn (username_end u) (ser u) ++ X) as Es.
    { unfold push_encoded, truncate, X, userinfo_enc. rewrite <- !app_assoc. reflexivity. }
    rewrite Es.
    assert (nlen (nfirstn (username_end u) (ser u) ++ X) = username_end u + nlen X) as El
      by (rewrite nlen_app, nlen_nfirstn by lia; reflexivity).
    rewrite El. rewrite !adjust_ok by lia. rewrite !adjust_opt_ok by (destruct (query_start u), (fragment_start u); try exact I; lia).
    cbn [bindo].
    exists (cred_splice u (username_end u) (host_start u) X (username_end u)), SOk. split.
    { unfold cred_splice. rewrite <- app_assoc. do 2 f_equal. f_equal. unfold shift. lia. }
    split; [intros Z; contradiction|]. intros _.
    apply (set_pw dbg u p); assumption.
Qed.

(* ---------- set_username ---------- *)

Lemma cs_skip_a u a b x ue' : a <= nlen (ser u) ->
  nskipn a (ser (cred_splice u a b x ue')) = x ++ nskipn b (ser u).
Proof.
  intros H. cbn [cred_splice ser]. rewrite nskipn_app_ge by (rewrite nlen_nfirstn; lia).
  rewrite nlen_nfirstn by lia. rewrite N.sub_diag. reflexivity.
Qed.

Lemma un_case dbg u b enc t : wf_b u = true -> host_text_ok u -> has_host u = true ->
  let a := scheme_end u + 3 in
  let x := enc ++ t in
  let ue' := a + nlen enc in
  let u' := cred_splice u a b x ue' in
  a <= b -> b <= host_start u -> ue' <= shift b (a + nlen x) (host_start u) ->
  userinfo_ok u' ->
  (byte_eqb (ser u) (username_end u) 58 = true -> b = username_end u /\ t = []) ->
  (byte_eqb (ser u) (username_end u) 58 = false -> byte_eqb (ser u') ue' 58 = false) ->
  wf_b u' = true /\ host_text_ok u' /\ scheme u' = scheme u /\ password dbg u' = password dbg u
  /\ host_str u' = host_str u /\ port u' = port u /\ same_back dbg u u'
  /\ username dbg u' = Some enc.
Proof.
  intros W HT Hc a x ue' u' Hab Hb Hue2 HU Hpw1 Hpw0.
  pose proof (has_host_authority u W Hc) as Ha. pose proof (wf_auth_facts u W Ha) as F.
  pose proof (af_ue F); pose proof (af_hs F); pose proof (af_he F); pose proof (af_ps F); pose proof (af_len F).
  assert (scheme_end u + 3 <= a) as Q0 by (subst a; lia).
  assert (scheme_end u + 3 <= ue') as Q1 by (subst ue' a; lia).
  destruct (splice_all dbg u a b x ue' W HT Hc Q0 Hab Hb Q1 Hue2 HU) as [W' HT' S' H' B' A' P' M'].
  fold u' in W', HT', S', H', B', A', P', M'.
  pose proof (cs_suf u a b x ue' W HT Hc Q0 Hab Hb Q1 Hue2) as SUF. fold u' in SUF.
  splits; try assumption; try reflexivity.
  - (* password *)
    rewrite (password_piece dbg u' W'), (password_piece dbg u W).
    assert (username_end u' < nlen (ser u')) as Hlt'.
    { pose proof (wf_auth_facts u' W' A') as F'. destruct (HT' Hc) as (T1' & _).
      pose proof (af_hs F'); pose proof (af_he F'); pose proof (af_ps F'); pose proof (af_len F'). lia. }
    destruct (HT Hc) as (T1 & _).
    rewrite (has_password_of_byte u' W' A' Hlt'), (has_password_of_byte u W Ha) by lia.
    change (username_end u') with ue'.
    destruct (byte_eqb (ser u) (username_end u) 58) eqn:E58.
    + destruct (Hpw1 eq_refl) as [-> ->].
      assert (nlen x = nlen enc) as Lx by (subst x; rewrite app_nil_r; reflexivity).
      assert (ue' = a + nlen enc) as Eue' by reflexivity.
      assert (ue' = shift (username_end u) (a + nlen x) (username_end u)) as Eue.
      { unfold shift. lia. }
      rewrite Eue. rewrite (suf_byte_eqb _ _ _ _ (username_end u) _ 58 SUF) by (try lia; reflexivity).
      rewrite E58. do 2 f_equal. unfold piece. cbn [pidx].
      assert (has_password_b u' = true) as Hp'.
      { rewrite (has_password_of_byte u' W' A' Hlt'). change (username_end u') with ue'. rewrite Eue.
        rewrite (suf_byte_eqb _ _ _ _ (username_end u) _ 58 SUF) by (try lia; reflexivity). exact E58. }
      assert (has_password_b u = true) as Hp by (rewrite (has_password_of_byte u W Ha) by lia; exact E58).
      rewrite Hp, Hp'. change (username_end u') with ue'.
      change (host_start u') with (shift (username_end u) (a + nlen x) (host_start u)).
      destruct (has_password_facts u W Hp) as (G1 & _).
      replace (shift (username_end u) (a + nlen x) (host_start u) - 1 - (ue' + 1))
        with (host_start u - 1 - (username_end u + 1)) by (unfold shift; lia).
      apply (suf_piece _ _ _ _ (username_end u + 1) _ _ SUF); [lia | unfold shift; lia].
    + rewrite (Hpw0 eq_refl). reflexivity.
  - (* username reads back as the encoding *)
    rewrite (username_eval dbg u' W'). f_equal. unfold piece. cbn [pidx]. rewrite A'.
    change (scheme_end u') with (scheme_end u). change (username_end u') with ue'.
    fold a. replace (ue' - a) with (nlen enc) by (subst ue'; lia).
    unfold u'. rewrite cs_skip_a by (subst a; lia). subst x. rewrite <- app_assoc. apply nfirstn_app_exact.
Qed.

Lemma un_match_other {A} (new_empty : bool) (c : N) (k1 k2 k3 k4 k5 : A) : c <> 64 -> c <> 58 ->
  (match new_empty, c with
   | true, 64 => k1
   | false, 64 => k2
   | _, 58 => k3
   | true, _ => k4
   | false, _ => k5
   end) = if new_empty then k4 else k5.
Proof.
  intros H1 H2. destruct new_empty; (destruct c as [|p]; [reflexivity|]);
    do 7 (try (destruct p as [p|p|]; try reflexivity)); congruence.
Qed.

Lemma match64 {A} (c : N) (x y : A) : c <> 64 -> match c with 64 => x | _ => y end = y.
Proof.
  intros H. destruct c as [|p]; [reflexivity|].
  do 7 (try (destruct p as [p|p|]; try reflexivity)); congruence.
Qed.
Lemma match5864 {A} (c : N) (x y : A) : c <> 58 -> c <> 64 -> match c with 58 | 64 => x | _ => y end = y.
Proof.
  intros H1 H2. destruct c as [|p]; [reflexivity|].
  do 7 (try (destruct p as [p|p|]; try reflexivity)); congruence.
Qed.

Lemma un_record u a b x ue' s' added : s' = nfirstn a (ser u) ++ x ++ nskipn b (ser u) -> added = a + nlen x ->
  mkUrl s' (scheme_end u) ue' (host_start u - b + added) (host_end u - b + added) (hosti u) (port u)
        (path_start u - b + added) (option_map (shift b added) (query_start u))
        (option_map (shift b added) (fragment_start u))
  = cred_splice u a b x ue'.
Proof. intros -> ->. reflexivity. Qed.

Ltac un_rec_side Hcb :=
  rewrite ?app_nil_r, ?nlen_app;
  first [ reflexivity
        | rewrite <- ?app_assoc, ?(nskipn_cons_of_nnth _ _ _ Hcb); reflexivity
        | change (nlen [64]) with 1; lia ].

Theorem set_username_ok dbg u un : wf_b u = true -> host_text_ok u ->
  exists u' st, set_username dbg u un = Some (u', st)
  /\ (st <> SOk -> u' = u)
  /\ (st = SOk ->
      wf_b u' = true /\ host_text_ok u' /\ scheme u' = scheme u /\ password dbg u' = password dbg u
      /\ host_str u' = host_str u /\ port u' = port u /\ same_back dbg u u'
      /\ exists cur, username dbg u = Some cur
         /\ username dbg u' = Some (if list_eqb cur (utf8_encode un) then cur else userinfo_enc un)).
Proof.
  intros W HT. unfold set_username. destruct (chcp_eval u W) as (c & Ec & Hc). rewrite Ec. cbn [bindo].
  destruct c.
  { exists u, SErrUnit. split; [reflexivity|]. split; [reflexivity | discriminate]. }
  specialize (Hc eq_refl). pose proof (has_host_authority u W Hc) as Ha. pose proof (wf_auth_facts u W Ha) as F.
  pose proof (af_ue F); pose proof (af_hs F); pose proof (af_he F); pose proof (af_ps F); pose proof (af_len F).
  destruct (HT Hc) as (T1 & T2 & T3).
  destruct (wf_tail_offsets_ge u (path_start u) W ltac:(lia)) as [Gq Gf].
  (* the debug assertion *)
  assert ((if dbg then x <- u_slice u (scheme_end u) (scheme_end u + 3) ;; assert_o (list_eqb x s_css) else Some tt) = Some tt) as Ed.
  { destruct dbg; [|reflexivity]. unfold u_slice. rewrite slice_o_some by lia. cbn [bindo].
    pose proof (piece_scheme_sep u W) as PS. cbn [pidx] in PS. rewrite Ha in PS. unfold piece in PS. rewrite PS.
    reflexivity. }
  rewrite Ed. cbn [bindo]. clear Ed.
  unfold u_slice. rewrite slice_o_some by lia. cbn [bindo].
  set (cur := nfirstn (username_end u - (scheme_end u + 3)) (nskipn (scheme_end u + 3) (ser u))).
  assert (username dbg u = Some cur) as Ecur.
  { rewrite (username_eval dbg u W). unfold piece. cbn [pidx]. rewrite Ha. reflexivity. }
  destruct (list_eqb cur (utf8_encode un)) eqn:Eeq.
  { exists u, SOk. split; [reflexivity|]. split; [intros X; contradiction|]. intros _.
    splits; try assumption; try reflexivity; try apply same_back_refl.
    exists cur. split; [exact Ecur|]. rewrite Eeq. exact Ecur. }
  unfold u_slice_from. rewrite slice_from_o_some by lia. cbn [bindo].
  unfold push_encoded, truncate. fold (userinfo_enc un). set (enc := userinfo_enc un).
  assert (nlen (nfirstn (scheme_end u + 3) (ser u) ++ enc) = scheme_end u + 3 + nlen enc) as El
    by (rewrite nlen_app, nlen_nfirstn by lia; reflexivity).
  rewrite El.
  (* first byte after the username *)
  assert (exists c, nnth (ser u) (username_end u) = Some c) as [c Hcb].
  { destruct (nnth (ser u) (username_end u)) eqn:E; [eexists; reflexivity|].
    unfold nnth in E. apply nth_error_None in E. unfold nlen in *. lia. }
  rewrite (nskipn_cons_of_nnth _ _ _ Hcb).
  set (rest := nskipn (username_end u + 1) (ser u)).
  set (a := scheme_end u + 3).
  (* the conclusion, once the spliced record is identified *)
  assert (forall b t,
    a <= b -> b <= host_start u -> a + nlen enc <= shift b (a + nlen (enc ++ t)) (host_start u) ->
    userinfo_ok (cred_splice u a b (enc ++ t) (a + nlen enc)) ->
    (byte_eqb (ser u) (username_end u) 58 = true -> b = username_end u /\ t = []) ->
    (byte_eqb (ser u) (username_end u) 58 = false ->
     byte_eqb (ser (cred_splice u a b (enc ++ t) (a + nlen enc))) (a + nlen enc) 58 = false) ->
    let u' := cred_splice u a b (enc ++ t) (a + nlen enc) in
    wf_b u' = true /\ host_text_ok u' /\ scheme u' = scheme u /\ password dbg u' = password dbg u
    /\ host_str u' = host_str u /\ port u' = port u /\ same_back dbg u u'
    /\ exists cur0, username dbg u = Some cur0
       /\ username dbg u' = Some (if list_eqb cur0 (utf8_encode un) then cur0 else userinfo_enc un)) as Fin.
  { intros b t Q1 Q2 Q3 HU P1 P0 u'.
    destruct (un_case dbg u b enc t W HT Hc Q1 Q2 Q3 HU P1 P0) as (R1 & R2 & R3 & R4 & R5 & R6 & R7 & R8).
    splits; try assumption. exists cur. split; [exact Ecur|]. rewrite Eeq. exact R8. }
  assert (forall b t, a <= b -> b <= host_start u -> nlen (enc ++ t) = nlen enc + nlen t /\ nlen (ser u) >= b) as Aux.
  { intros. rewrite nlen_app. lia. }
  destruct (af_userinfo F) as [[U1 U2]|[(U1 & U2 & U3 & U4)|(U1 & U2 & U3 & U4)]].
  - (* no userinfo before *)
    assert (c <> 58) as C1 by (intros ->; apply byte_eqb_true_iff in Hcb; congruence).
    assert (c <> 64) as C2 by (intros ->; apply byte_eqb_true_iff in Hcb; rewrite U1 in Hcb; congruence).
    match goal with |- context [if a + nlen enc =? a then ?X else ?Y] =>
      assert (X = ((nfirstn a (ser u) ++ enc) ++ c :: rest, username_end u, a + nlen enc)) as EX
        by (clear - C1 C2; destruct c as [|p]; [reflexivity|];
            do 7 (try (destruct p as [p|p|]; try reflexivity)); congruence);
      assert (Y = ((nfirstn a (ser u) ++ enc) ++ [64] ++ c :: rest, username_end u, a + nlen enc + 1)) as EY
        by (clear - C1 C2; destruct c as [|p]; [reflexivity|];
            do 7 (try (destruct p as [p|p|]; try reflexivity)); congruence);
      rewrite EX, EY; clear EX EY
    end.
    destruct (a + nlen enc =? a) eqn:Ene; cbn beta iota zeta.
    + rewrite !adjust_ok by lia. rewrite !adjust_opt_ok by (destruct (query_start u), (fragment_start u); try exact I; lia).
      cbn [bindo]. eexists; eexists; split; [reflexivity|]. split; [intros X; contradiction|]. intros _.
      rewrite (un_record u a (username_end u) (enc ++ []) (a + nlen enc))
        by un_rec_side Hcb.
      assert (nlen enc = 0) as L0 by lia.
      assert (a <= username_end u) as Q1 by (subst a; lia).
      assert (a + nlen enc <= shift (username_end u) (a + nlen (enc ++ [])) (host_start u)) as Q3
        by (unfold shift; rewrite app_nil_r; lia).
      assert (scheme_end u + 3 <= a + nlen enc) as Q4 by (subst a; lia).
      pose proof (cs_byte_hi u a (username_end u) (enc ++ []) (a + nlen enc) W HT Hc ltac:(subst a; lia) Q1 H0 Q4 Q3
                    (username_end u) 58 ltac:(lia)) as BH.
      unfold shift in BH. rewrite app_nil_r in BH.
      replace (username_end u - username_end u + (a + nlen enc)) with (a + nlen enc) in BH by lia.
      apply Fin; try assumption.
      * left. change (username_end (cred_splice u a (username_end u) (enc ++ []) (a + nlen enc))) with (a + nlen enc).
        change (host_start (cred_splice u a (username_end u) (enc ++ []) (a + nlen enc)))
          with (shift (username_end u) (a + nlen (enc ++ [])) (host_start u)).
        change (scheme_end (cred_splice u a (username_end u) (enc ++ []) (a + nlen enc))) with (scheme_end u).
        splits; [unfold shift; rewrite app_nil_r; lia | subst a; lia |].
        rewrite app_nil_r in *. rewrite BH. exact U2.
      * intros X. congruence.
      * intros _. rewrite app_nil_r in *. rewrite BH. exact U2.
    + rewrite !adjust_ok by lia. rewrite !adjust_opt_ok by (destruct (query_start u), (fragment_start u); try exact I; lia).
      cbn [bindo]. eexists; eexists; split; [reflexivity|]. split; [intros X; contradiction|]. intros _.
      rewrite (un_record u a (username_end u) (enc ++ [64]) (a + nlen enc))
        by un_rec_side Hcb.
      assert (a <= username_end u) as Q1 by (subst a; lia).
      assert (nlen (enc ++ [64]) = nlen enc + 1) as Lx by (rewrite nlen_app; reflexivity).
      assert (a + nlen enc <= shift (username_end u) (a + nlen (enc ++ [64])) (host_start u)) as Q3
        by (unfold shift; lia).
      assert (scheme_end u + 3 <= a + nlen enc) as Q4 by (subst a; lia).
      pose proof (cs_byte_mid u a (username_end u) (enc ++ [64]) (a + nlen enc) W HT Hc ltac:(subst a; lia) Q1 H0 Q4 Q3
                    (nlen enc) 64 ltac:(lia)) as BM.
      assert (byte_eqb (enc ++ [64]) (nlen enc) 64 = true) as B64 by apply (byte_eqb_app_at enc 64 []).
      rewrite B64 in BM.
      apply Fin; try assumption.
      * right. right.
        change (username_end (cred_splice u a (username_end u) (enc ++ [64]) (a + nlen enc))) with (a + nlen enc).
        change (host_start (cred_splice u a (username_end u) (enc ++ [64]) (a + nlen enc)))
          with (shift (username_end u) (a + nlen (enc ++ [64])) (host_start u)).
        split; [exact BM | unfold shift; lia].
      * intros X. congruence.
      * intros _. apply (byte_eqb_excl _ _ 64 58); [lia | exact BM].
  - (* a password follows the username *)
    assert (c = 58) as -> by (apply byte_eqb_nnth in U2; congruence).
    assert (a <= username_end u) as Q1 by (subst a; lia).
    assert (a + nlen enc <= shift (username_end u) (a + nlen (enc ++ [])) (host_start u)) as Q3
      by (unfold shift; rewrite app_nil_r; lia).
    assert (scheme_end u + 3 <= a + nlen enc) as Q4 by (subst a; lia).
    pose proof (cs_byte_hi u a (username_end u) (enc ++ []) (a + nlen enc) W HT Hc ltac:(subst a; lia) Q1 H0 Q4 Q3) as BH.
    destruct (a + nlen enc =? a) eqn:Ene; cbn beta iota zeta;
      rewrite !adjust_ok by lia; rewrite !adjust_opt_ok by (destruct (query_start u), (fragment_start u); try exact I; lia);
      cbn [bindo]; (eexists; eexists; split; [reflexivity|]; split; [intros X; contradiction|]; intros _);
      rewrite (un_record u a (username_end u) (enc ++ []) (a + nlen enc))
        by un_rec_side Hcb;
      (apply Fin; try assumption;
       [ right; left;
         change (username_end (cred_splice u a (username_end u) (enc ++ []) (a + nlen enc))) with (a + nlen enc);
         change (host_start (cred_splice u a (username_end u) (enc ++ []) (a + nlen enc)))
           with (shift (username_end u) (a + nlen (enc ++ [])) (host_start u));
         splits;
         [ pose proof (BH (username_end u) 58 ltac:(lia)) as B1; unfold shift in B1; rewrite app_nil_r in *;
           replace (username_end u - username_end u + (a + nlen enc)) with (a + nlen enc) in B1 by lia;
           rewrite B1; exact U2
         | unfold shift; rewrite app_nil_r; lia
         | pose proof (BH (host_start u - 1) 64 ltac:(lia)) as B1; unfold shift in *; rewrite app_nil_r in *;
           replace (host_start u - username_end u + (a + nlen enc) - 1)
             with (host_start u - 1 - username_end u + (a + nlen enc)) by lia;
           rewrite B1; exact U4 ]
       | intros _; split; reflexivity
       | intros X; congruence ]).
  - (* username only *)
    assert (c = 64) as -> by (apply byte_eqb_nnth in U3; congruence).
    destruct (a + nlen enc =? a) eqn:Ene; cbn beta iota zeta.
    + rewrite !adjust_ok by lia. rewrite !adjust_opt_ok by (destruct (query_start u), (fragment_start u); try exact I; lia).
      cbn [bindo]. eexists; eexists; split; [reflexivity|]. split; [intros X; contradiction|]. intros _.
      rewrite (un_record u a (username_end u + 1) (enc ++ []) (a + nlen enc))
        by un_rec_side Hcb.
      assert (nlen enc = 0) as L0 by lia.
      assert (a <= username_end u + 1) as Q1 by (subst a; lia).
      assert (username_end u + 1 <= host_start u) as Q2 by lia.
      assert (a + nlen enc <= shift (username_end u + 1) (a + nlen (enc ++ [])) (host_start u)) as Q3
        by (unfold shift; rewrite app_nil_r; lia).
      assert (scheme_end u + 3 <= a + nlen enc) as Q4 by (subst a; lia).
      pose proof (cs_byte_hi u a (username_end u + 1) (enc ++ []) (a + nlen enc) W HT Hc ltac:(subst a; lia) Q1 Q2 Q4 Q3
                    (host_start u) 58 ltac:(lia)) as BH.
      unfold shift in BH. rewrite app_nil_r in BH.
      replace (host_start u - (username_end u + 1) + (a + nlen enc)) with (a + nlen enc) in BH by lia.
      apply Fin; try assumption.
      * left. change (username_end (cred_splice u a (username_end u + 1) (enc ++ []) (a + nlen enc))) with (a + nlen enc).
        change (host_start (cred_splice u a (username_end u + 1) (enc ++ []) (a + nlen enc)))
          with (shift (username_end u + 1) (a + nlen (enc ++ [])) (host_start u)).
        change (scheme_end (cred_splice u a (username_end u + 1) (enc ++ []) (a + nlen enc))) with (scheme_end u).
        splits; [unfold shift; rewrite app_nil_r; lia | subst a; lia |].
        rewrite app_nil_r in *. rewrite BH. exact T2.
      * intros X. congruence.
      * intros _. rewrite app_nil_r in *. rewrite BH. exact T2.
    + rewrite !adjust_ok by lia. rewrite !adjust_opt_ok by (destruct (query_start u), (fragment_start u); try exact I; lia).
      cbn [bindo]. eexists; eexists; split; [reflexivity|]. split; [intros X; contradiction|]. intros _.
      rewrite (un_record u a (username_end u) (enc ++ []) (a + nlen enc))
        by un_rec_side Hcb.
      assert (a <= username_end u) as Q1 by (subst a; lia).
      assert (a + nlen enc <= shift (username_end u) (a + nlen (enc ++ [])) (host_start u)) as Q3
        by (unfold shift; rewrite app_nil_r; lia).
      assert (scheme_end u + 3 <= a + nlen enc) as Q4 by (subst a; lia).
      pose proof (cs_byte_hi u a (username_end u) (enc ++ []) (a + nlen enc) W HT Hc ltac:(subst a; lia) Q1 H0 Q4 Q3
                    (username_end u) 64 ltac:(lia)) as BH.
      unfold shift in BH. rewrite app_nil_r in BH.
      replace (username_end u - username_end u + (a + nlen enc)) with (a + nlen enc) in BH by lia.
      apply Fin; try assumption.
      * right. right.
        change (username_end (cred_splice u a (username_end u) (enc ++ []) (a + nlen enc))) with (a + nlen enc).
        change (host_start (cred_splice u a (username_end u) (enc ++ []) (a + nlen enc)))
          with (shift (username_end u) (a + nlen (enc ++ [])) (host_start u)).
        rewrite app_nil_r in *. split; [rewrite BH; exact U3 | unfold shift; lia].
      * intros X. congruence.
      * intros _. rewrite app_nil_r in *. apply (byte_eqb_excl _ _ 64 58); [lia | rewrite BH; exact U3].
Qed.
