(* Proofs/C15_Table.v - the regenerated constants of form_urlencoded/src/lib.rs. *)
From RU Require Import Base.Prelude Base.Utf8 Base.Outcome_c15 Model.AsciiSet Gen.Tables Model.PercentEncoding
  Model.FormUrlencoded.

(* the class the Standard's urlencoded byte serializer leaves unchanged *)
Definition unchanged_spec (b : N) : bool :=
  is_alnum b || (b =? 42) || (b =? 45) || (b =? 46) || (b =? 95).

Lemma unchanged_table_ok :
  all_below 256 (fun b => Bool.eqb (byte_serialized_unchanged b) (unchanged_spec b)) = true.
Proof. vm_compute. reflexivity. Qed.

Lemma unchanged_table_small : forallb (fun x => x <? 256) T_FORM_UNCHANGED = true.
Proof. vm_compute. reflexivity. Qed.

Theorem unchanged_is_spec b : byte_serialized_unchanged b = unchanged_spec b.
Proof.
  destruct (N.ltb_spec b 256) as [Hb|Hb].
  - apply Bool.eqb_prop. exact (all_below_spec 256 _ unchanged_table_ok b Hb).
  - assert (Hl : byte_serialized_unchanged b = false).
    { unfold byte_serialized_unchanged. destruct (memb b T_FORM_UNCHANGED) eqn:E; [|reflexivity].
      apply memb_spec in E. pose proof unchanged_table_small as Hs.
      rewrite forallb_forall in Hs. apply Hs in E. lia. }
    rewrite Hl. unfold unchanged_spec, is_alnum, is_alpha, is_upper, is_lower, is_digit. lia.
Qed.

(* the literals *)
Theorem form_consts_ok :
  T_FORM_SPACE = 32 /\ T_FORM_SPACE_OUT = [43] /\ T_FORM_PAIR_SEP = 38 /\ T_FORM_KV_SEP = 61
  /\ T_FORM_PLUS = 43 /\ T_FORM_PLUS_REPL = 32 /\ T_FORM_PUSH_SEP = 38 /\ T_FORM_PUSH_EQ = 61.
Proof. repeat split; reflexivity. Qed.

(* the four panic sites are distinct source lines *)
Theorem form_sites_distinct :
  NoDup [T_FORM_SITE_FOR_SUFFIX; T_FORM_SITE_STRING; T_FORM_SITE_FINISH; T_FORM_SITE_CLEAR_TRUNCATE].
Proof.
  repeat constructor; cbn [In]; intros H; repeat (destruct H as [H|H]; [discriminate H|]); exact H.
Qed.
