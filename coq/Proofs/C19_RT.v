(* Proofs/C19_RT.v - parsing the serialization of a parse result gives the same value.
   Plan: the serialization is  type "/" subtype (";" name "=" value-or-quoted-value)*.
   `split(';')` of the parameter part is the concatenation of the piece lists of the single
   parameters (pieces_app_sep); the scanner, started inside the first piece of an escaped value,
   reads exactly that value back and hands back exactly the pieces of the following parameters
   (scan_escape); so one turn of the loop consumes one serialized parameter (rt_loop). *)
From RU Require Import Base.Prelude Base.Utf8 Base.Utf8Facts Gen.Tables Model.Mime
  Proofs.C19_Tables Proofs.C19_Pure Proofs.C19_Normal.

(* ---- trimming ---- *)
Lemma trim_start_head c s : http_whitespace c = false -> trim_start (c :: s) = c :: s.
Proof. intros H. cbn [trim_start]. rewrite H. reflexivity. Qed.

Lemma trim_end_cons c r :
  trim_end (c :: r) = match trim_end r with
                      | [] => if http_whitespace c then [] else [c]
                      | r' => c :: r'
                      end.
Proof. reflexivity. Qed.

Lemma trim_end_app_stable x y : y <> [] -> trim_end y = y -> trim_end (x ++ y) = x ++ y.
Proof.
  intros Hne Hy. induction x as [|a x IH]; [exact Hy|].
  cbn [app]. rewrite trim_end_cons, IH. destruct (x ++ y) eqn:E; [|reflexivity].
  apply app_eq_nil in E. destruct E as [_ E]. contradiction.
Qed.

Lemma trim_end_single c : http_whitespace c = false -> trim_end [c] = [c].
Proof. intros H. cbn [trim_end]. rewrite H. reflexivity. Qed.

Lemma trim_end_snoc s c : http_whitespace c = false -> trim_end (s ++ [c]) = s ++ [c].
Proof. intros H. apply trim_end_app_stable; [discriminate|exact (trim_end_single c H)]. Qed.

Lemma trim_end_tokens s : tokens s = true -> trim_end s = s.
Proof.
  unfold tokens. induction s as [|c s IH]; intros H; [reflexivity|].
  cbn [forallb] in H. apply andb_true_iff in H. destruct H as [Hc Hs].
  rewrite trim_end_cons, (IH Hs). destruct s; [|reflexivity]. rewrite (tchar_not_ws c Hc). reflexivity.
Qed.

(* ---- splitting ---- *)
Definition nosep (sep : N) (a : list N) : bool := forallb (fun c => negb (c =? sep)) a.

Lemma tokens_nosep sep a : rfc7230_tchar sep = false -> tokens a = true -> nosep sep a = true.
Proof.
  intros Hsep. unfold tokens, nosep. rewrite !forallb_forall. intros H c Hc. specialize (H c Hc).
  destruct (c =? sep) eqn:E; [|reflexivity]. apply N.eqb_eq in E. subst. congruence.
Qed.

Lemma split_once_app_sep sep a b : nosep sep a = true -> split_once sep (a ++ sep :: b) = (a, Some b).
Proof.
  unfold nosep. induction a as [|c a IH]; intros H; cbn [app split_once].
  - rewrite N.eqb_refl. reflexivity.
  - cbn [forallb] in H. apply andb_true_iff in H. destruct H as [Hc Ha]. apply negb_true_iff in Hc.
    rewrite Hc, (IH Ha). reflexivity.
Qed.

Lemma split_once_nosep sep a : nosep sep a = true -> split_once sep a = (a, None).
Proof.
  unfold nosep. induction a as [|c a IH]; intros H; cbn [split_once]; [reflexivity|].
  cbn [forallb] in H. apply andb_true_iff in H. destruct H as [Hc Ha]. apply negb_true_iff in Hc.
  rewrite Hc, (IH Ha). reflexivity.
Qed.

Definition pieces (s : list N) : list (list N) := fst (split_all 59 s) :: snd (split_all 59 s).

Lemma split_all_cons sep c r :
  split_all sep (c :: r) =
  if c =? sep then ([], fst (split_all sep r) :: snd (split_all sep r))
  else (c :: fst (split_all sep r), snd (split_all sep r)).
Proof. cbn [split_all]. destruct (split_all sep r) as [p ps]. reflexivity. Qed.

Lemma pieces_app_sep a b : pieces (a ++ 59 :: b) = pieces a ++ pieces b.
Proof.
  unfold pieces. induction a as [|c a IH]; cbn [app].
  - rewrite split_all_cons, N.eqb_refl. reflexivity.
  - rewrite !split_all_cons. destruct (c =? 59); cbn [fst snd].
    + rewrite IH. reflexivity.
    + inversion IH as [[H1 H2]]. rewrite H1, H2. reflexivity.
Qed.

Lemma split_all_nosep a b :
  nosep 59 a = true ->
  split_all 59 (a ++ b) = (a ++ fst (split_all 59 b), snd (split_all 59 b)).
Proof.
  unfold nosep. induction a as [|c a IH]; intros H; cbn [app].
  - destruct (split_all 59 b); reflexivity.
  - cbn [forallb] in H. apply andb_true_iff in H. destruct H as [Hc Ha]. apply negb_true_iff in Hc.
    rewrite split_all_cons, Hc, (IH Ha). reflexivity.
Qed.

Lemma pieces_nosep a : nosep 59 a = true -> pieces a = [a].
Proof.
  intros H. unfold pieces. rewrite <- (app_nil_r a) at 1 2. rewrite (split_all_nosep a [] H).
  cbn [split_all fst snd]. rewrite app_nil_r. reflexivity.
Qed.

Lemma nosep_app sep a b : nosep sep (a ++ b) = nosep sep a && nosep sep b.
Proof. unfold nosep. apply forallb_app. Qed.

(* ---- the scanner reads an escaped value back ---- *)
Lemma escape_value_cons c v :
  escape_value (c :: v) = (if (c =? 34) || (c =? 92) then [92; c] else [c]) ++ escape_value v.
Proof. unfold escape_value. cbn [flat_map]. rewrite mime_escaped_spec. reflexivity. Qed.

Lemma scan_escape v : forall R acc,
  scan_quoted (snd (split_all 59 (escape_value v ++ [34])) ++ R)
              (fst (split_all 59 (escape_value v ++ [34]))) acc = (rev acc ++ v, R).
Proof.
  induction v as [|c v IH]; intros R acc.
  - unfold escape_value. cbn [flat_map app]. rewrite split_all_cons.
    replace (34 =? 59) with false by lia. cbn [split_all fst snd app].
    rewrite scan_cons, N.eqb_refl, app_nil_r. reflexivity.
  - rewrite escape_value_cons. destruct ((c =? 34) || (c =? 92)) eqn:Eesc.
    + cbn [app]. rewrite !split_all_cons. replace (92 =? 59) with false by lia.
      replace (c =? 59) with false by lia. cbn [fst snd].
      rewrite scan_cons. replace (92 =? 34) with false by lia. rewrite N.eqb_refl.
      rewrite IH. cbn [rev]. rewrite <- app_assoc. reflexivity.
    + cbn [app]. rewrite split_all_cons. destruct (c =? 59) eqn:E59; cbn [fst snd].
      * apply N.eqb_eq in E59. subst c. cbn [app]. rewrite scan_nil, IH. cbn [rev]. rewrite <- app_assoc. reflexivity.
      * rewrite scan_cons. replace (c =? 34) with false by lia. replace (c =? 92) with false by lia.
        rewrite IH. cbn [rev]. rewrite <- app_assoc. reflexivity.
Qed.

(* the first piece of an escaped value passes valid_value *)
Lemma first_piece_valid v :
  value_ok v = true -> valid_value (fst (split_all 59 (escape_value v ++ [34]))) = true.
Proof.
  unfold value_ok, valid_value. induction v as [|c v IH]; intros H.
  - unfold escape_value. cbn [flat_map app]. rewrite split_all_cons.
    replace (34 =? 59) with false by lia. cbn [split_all fst forallb]. rewrite valid_value_char_spec. reflexivity.
  - rewrite escape_value_cons. cbn [before_semicolon] in H. destruct ((c =? 34) || (c =? 92)) eqn:Eesc.
    + cbn [app]. rewrite !split_all_cons. replace (92 =? 59) with false by lia.
      replace (c =? 59) with false in * by lia. cbn [fst forallb] in *.
      apply andb_true_iff in H. destruct H as [Hc Hv]. rewrite Hc, (IH Hv).
      rewrite valid_value_char_spec. reflexivity.
    + cbn [app]. rewrite split_all_cons. destruct (c =? 59) eqn:E59; cbn [fst forallb]; [reflexivity|].
      cbn [forallb] in H. apply andb_true_iff in H. destruct H as [Hc Hv]. rewrite Hc, (IH Hv). reflexivity.
Qed.

(* ---- names ---- *)
Lemma bytes_eq_ic_lower_eq a : forall b,
  forallb lower_tchar a = true -> forallb lower_tchar b = true ->
  bytes_eq_ignore_ascii_case a b = true -> a = b.
Proof.
  induction a as [|x a IH]; intros [|y b] Ha Hb H; cbn [bytes_eq_ignore_ascii_case] in H; try discriminate; [reflexivity|].
  cbn [forallb] in Ha, Hb. apply andb_true_iff in Ha. destruct Ha as [Hx Ha].
  apply andb_true_iff in Hb. destruct Hb as [Hy Hb]. apply andb_true_iff in H. destruct H as [Hxy H].
  unfold lower_tchar in Hx, Hy. apply andb_true_iff in Hx. destruct Hx as [_ Hx]. apply andb_true_iff in Hy. destruct Hy as [_ Hy].
  rewrite (to_lower_fix x), (to_lower_fix y) in Hxy by (destruct (is_upper x), (is_upper y); try discriminate; reflexivity).
  apply N.eqb_eq in Hxy. subst y. f_equal. exact (IH b Ha Hb H).
Qed.

Lemma eq_ic_lower_eq a b :
  lower_token a = true -> lower_token b = true -> eq_ignore_ascii_case a b = true -> a = b.
Proof.
  intros Ha Hb. unfold eq_ignore_ascii_case.
  rewrite (utf8_encode_ascii _ (tokens_ascii _ (lower_token_tokens _ Ha))),
          (utf8_encode_ascii _ (tokens_ascii _ (lower_token_tokens _ Hb))).
  unfold lower_token in Ha, Hb. apply andb_true_iff in Ha. apply andb_true_iff in Hb.
  apply bytes_eq_ic_lower_eq; [exact (proj2 Ha)|exact (proj2 Hb)].
Qed.

Lemma name_valid_fresh pre n :
  Forall (fun p => lower_token (fst p) = true) pre -> lower_token n = true -> ~ In n (map fst pre) ->
  p_name_valid pre n = true.
Proof.
  intros Hpre Hn Hni. unfold p_name_valid.
  rewrite (lower_token_nonempty n Hn), (lower_token_tokens n Hn). cbn [negb andb].
  apply negb_true_iff. unfold contains. destruct (existsb _ pre) eqn:E; [|reflexivity].
  apply existsb_exists in E. destruct E as [p [Hin He]]. exfalso. apply Hni.
  rewrite Forall_forall in Hpre. rewrite <- (eq_ic_lower_eq (fst p) n (Hpre p Hin) Hn He).
  apply in_map. exact Hin.
Qed.

(* ---- one turn of the loop per serialized parameter ---- *)
Lemma p_params_loop_S fuel piece rest parameters :
  p_params_loop (S fuel) (piece :: rest) parameters =
  let (name, value) := split_once 61 (trim_start piece) in
  let name_ok := p_name_valid parameters name in
  match value with
  | None => p_params_loop fuel rest parameters
  | Some value =>
    match strip_prefix_quote value with
    | Some stripped =>
        let (unescaped_value, rest') := scan_quoted rest stripped [] in
        if negb name_ok || negb (valid_value value) then p_params_loop fuel rest' parameters
        else p_params_loop fuel rest' (parameters ++ [(to_ascii_lowercase name, unescaped_value)])
    | None =>
        let value := trim_end value in
        if is_empty value then p_params_loop fuel rest parameters
        else if negb name_ok || negb (valid_value value) then p_params_loop fuel rest parameters
        else p_params_loop fuel rest (parameters ++ [(to_ascii_lowercase name, value)])
    end
  end.
Proof. reflexivity. Qed.

Definition all_pieces (ps : plist) : list (list N) := flat_map (fun p => pieces (ser_param p)) ps.

Definition rt_param_ok (p : list N * list N) : Prop := lower_token (fst p) = true /\ value_ok (snd p) = true.

Lemma tchar_47 : rfc7230_tchar 47 = false. Proof. reflexivity. Qed.
Lemma tchar_59 : rfc7230_tchar 59 = false. Proof. reflexivity. Qed.
Lemma tchar_61 : rfc7230_tchar 61 = false. Proof. reflexivity. Qed.
Lemma tchar_34 : rfc7230_tchar 34 = false. Proof. reflexivity. Qed.

Lemma lower_token_head n : lower_token n = true -> exists c r, n = c :: r /\ rfc7230_tchar c = true.
Proof.
  intros H. pose proof (lower_token_tokens n H) as Ht. pose proof (lower_token_nonempty n H) as Hne.
  destruct n as [|c r]; [discriminate|]. exists c, r. split; [reflexivity|].
  unfold tokens in Ht. cbn [forallb] in Ht. apply andb_true_iff in Ht. exact (proj1 Ht).
Qed.

Lemma tokens_strip_none v : tokens v = true -> strip_prefix_quote v = None.
Proof.
  unfold tokens, strip_prefix_quote. destruct v as [|c r]; [reflexivity|]. cbn [forallb]. intros H.
  apply andb_true_iff in H. destruct H as [Hc _]. destruct (c =? 34) eqn:E; [|reflexivity].
  apply N.eqb_eq in E. subst. rewrite tchar_34 in Hc. discriminate.
Qed.

Lemma tokens_valid v : tokens v = true -> valid_value v = true.
Proof.
  unfold tokens, valid_value. rewrite !forallb_forall. intros H c Hc. exact (tchar_valid c (H c Hc)).
Qed.

Lemma rt_loop : forall ps pre fuel,
  Forall (fun p => lower_token (fst p) = true) pre ->
  Forall rt_param_ok ps ->
  NoDup (map fst (pre ++ ps)) ->
  (length (all_pieces ps) < fuel)%nat ->
  p_params_loop fuel (all_pieces ps) pre = Ok (pre ++ ps).
Proof.
  induction ps as [|[n v] ps IH]; intros pre fuel Hpre Hps Hnd Hfuel.
  - destruct fuel as [|fuel]; [cbn in Hfuel; lia|]. cbn [all_pieces flat_map p_params_loop]. rewrite app_nil_r. reflexivity.
  - inversion Hps as [|? ? [Hn Hv] Hps']; subst. cbn [fst snd] in Hn, Hv.
    destruct fuel as [|fuel]; [lia|].
    assert (Hfresh : p_name_valid pre n = true).
    { apply name_valid_fresh; [exact Hpre|exact Hn|]. rewrite map_app in Hnd. cbn [map fst] in Hnd.
      apply NoDup_remove_2 in Hnd. intros Hin. apply Hnd. apply in_or_app. left. exact Hin. }
    assert (Hpre' : Forall (fun p => lower_token (fst p) = true) (pre ++ [(n, v)])).
    { apply Forall_app. split; [exact Hpre|]. constructor; [exact Hn|constructor]. }
    assert (Hnd' : NoDup (map fst ((pre ++ [(n, v)]) ++ ps))).
    { rewrite <- app_assoc. exact Hnd. }
    assert (Hgoal : (pre ++ [(n, v)]) ++ ps = pre ++ (n, v) :: ps) by (rewrite <- app_assoc; reflexivity).
    destruct (lower_token_head n Hn) as [c0 [n' [En Hc0]]].
    pose proof (lower_token_tokens n Hn) as Hnt.
    cbn [all_pieces flat_map] in *. fold (all_pieces ps) in *.
    unfold ser_param in *. cbn [fst snd] in *. unfold p_display_value in *.
    destruct (tokens v && negb (is_empty v)) eqn:Etok.
    + (* written as a token *)
      apply andb_true_iff in Etok. destruct Etok as [Hvt Hvne]. apply negb_true_iff in Hvne.
      assert (Hns : nosep 59 (n ++ 61 :: v) = true).
      { rewrite nosep_app. rewrite (tokens_nosep 59 n tchar_59 Hnt). cbn [andb]. unfold nosep. cbn [forallb].
        replace (61 =? 59) with false by lia. cbn [negb andb]. exact (tokens_nosep 59 v tchar_59 Hvt). }
      rewrite (pieces_nosep _ Hns) in *. cbn [app] in *. cbn [length] in Hfuel.
      rewrite p_params_loop_S.
      replace (trim_start (n ++ 61 :: v)) with (n ++ 61 :: v)
        by (rewrite En; cbn [app]; rewrite (trim_start_head c0 _ (tchar_not_ws c0 Hc0)); reflexivity).
      rewrite (split_once_app_sep 61 n v (tokens_nosep 61 n tchar_61 Hnt)).
      cbv beta iota zeta. rewrite (tokens_strip_none v Hvt), (trim_end_tokens v Hvt), Hvne, Hfresh, (tokens_valid v Hvt).
      cbn [negb orb]. rewrite (lower_token_lowercase_id n Hn).
      rewrite (IH (pre ++ [(n, v)]) fuel Hpre' Hps' Hnd') by lia. rewrite Hgoal. reflexivity.
    + (* written as a quoted string *)
      assert (Hns : nosep 59 (n ++ [61; 34]) = true).
      { rewrite nosep_app. rewrite (tokens_nosep 59 n tchar_59 Hnt). reflexivity. }
      assert (Epieces : pieces (n ++ 61 :: 34 :: escape_value v ++ [34]) =
                        (n ++ 61 :: 34 :: fst (split_all 59 (escape_value v ++ [34])))
                        :: snd (split_all 59 (escape_value v ++ [34]))).
      { unfold pieces. replace (n ++ 61 :: 34 :: escape_value v ++ [34]) with ((n ++ [61; 34]) ++ (escape_value v ++ [34]))
          by (rewrite <- app_assoc; reflexivity).
        rewrite (split_all_nosep _ _ Hns). cbn [fst snd]. rewrite <- app_assoc. reflexivity. }
      rewrite Epieces in *. cbn [app] in *. cbn [length] in Hfuel. rewrite app_length in Hfuel.
      rewrite p_params_loop_S.
      replace (trim_start (n ++ 61 :: 34 :: fst (split_all 59 (escape_value v ++ [34]))))
        with (n ++ 61 :: 34 :: fst (split_all 59 (escape_value v ++ [34])))
        by (rewrite En; cbn [app]; rewrite (trim_start_head c0 _ (tchar_not_ws c0 Hc0)); reflexivity).
      rewrite (split_once_app_sep 61 n _ (tokens_nosep 61 n tchar_61 Hnt)).
      cbv beta iota zeta. unfold strip_prefix_quote. rewrite N.eqb_refl.
      rewrite (scan_escape v (all_pieces ps) []). cbn [rev app].
      rewrite Hfresh. unfold valid_value at 1. cbn [forallb]. fold (valid_value (fst (split_all 59 (escape_value v ++ [34])))).
      rewrite (first_piece_valid v Hv). replace (valid_value_char 34) with true by (rewrite valid_value_char_spec; reflexivity).
      cbn [negb orb andb]. rewrite (lower_token_lowercase_id n Hn).
      rewrite (IH (pre ++ [(n, v)]) fuel Hpre' Hps' Hnd') by lia. rewrite Hgoal. reflexivity.
Qed.

(* split(';') of "p1;p2;...;pk" is the concatenation of the pieces of the parameters *)
Lemma pieces_rest p ps : pieces (ser_param p ++ tail_str ps) = all_pieces (p :: ps).
Proof.
  revert p. induction ps as [|p' ps IH]; intros p.
  - unfold tail_str, all_pieces. cbn [flat_map]. rewrite !app_nil_r. reflexivity.
  - unfold tail_str. cbn [flat_map]. fold (tail_str ps). cbn [app].
    rewrite pieces_app_sep, IH. reflexivity.
Qed.

(* ---- the serialization is not changed by the trimming ---- *)
Lemma display_value_stable v : trim_end (p_display_value v) = p_display_value v /\ p_display_value v <> [].
Proof.
  unfold p_display_value. destruct (tokens v && negb (is_empty v)) eqn:E.
  - apply andb_true_iff in E. destruct E as [Ht Hne]. split; [exact (trim_end_tokens v Ht)|].
    destruct v; [discriminate|discriminate].
  - split; [|discriminate]. change (34 :: escape_value v ++ [34]) with ((34 :: escape_value v) ++ [34]).
    apply trim_end_snoc. rewrite http_whitespace_spec. reflexivity.
Qed.

Lemma tail_str_stable ps : ps <> [] -> trim_end (tail_str ps) = tail_str ps /\ tail_str ps <> [].
Proof.
  induction ps as [|p ps IH]; intros Hne; [contradiction|].
  unfold tail_str. cbn [flat_map]. fold (tail_str ps). split; [|discriminate].
  destruct (display_value_stable (snd p)) as [Hd Hdne].
  destruct ps as [|p' ps].
  - cbn [tail_str flat_map]. rewrite app_nil_r. unfold ser_param.
    change (59 :: fst p ++ 61 :: p_display_value (snd p)) with ((59 :: fst p) ++ 61 :: p_display_value (snd p)).
    replace ((59 :: fst p) ++ 61 :: p_display_value (snd p)) with (((59 :: fst p) ++ [61]) ++ p_display_value (snd p))
      by (rewrite <- app_assoc; reflexivity).
    apply trim_end_app_stable; assumption.
  - destruct IH as [IH1 IH2]; [discriminate|].
    change (59 :: ser_param p ++ tail_str (p' :: ps)) with ((59 :: ser_param p) ++ tail_str (p' :: ps)).
    apply trim_end_app_stable; assumption.
Qed.

Lemma subtype_tail_stable st ps :
  tokens st = true -> is_empty st = false -> trim_end (st ++ tail_str ps) = st ++ tail_str ps /\ st ++ tail_str ps <> [].
Proof.
  intros Ht Hne. split; [|destruct st; [discriminate|discriminate]].
  destruct ps as [|p ps].
  - cbn [tail_str flat_map]. rewrite app_nil_r. exact (trim_end_tokens st Ht).
  - destruct (tail_str_stable (p :: ps)) as [H1 H2]; [discriminate|]. apply trim_end_app_stable; assumption.
Qed.

(* ---- round trip on the code-point level ---- *)
Lemma p_parse_display m :
  lower_token (m_type m) = true -> lower_token (m_subtype m) = true ->
  Forall rt_param_ok (m_params m) -> NoDup (map fst (m_params m)) ->
  p_parse (p_display m) = Ok (Some m).
Proof.
  destruct m as [t st ps]. cbn [m_type m_subtype m_params]. intros Ht Hst Hps Hnd.
  unfold p_display. cbn [m_type m_subtype m_params].
  pose proof (lower_token_tokens t Ht) as Htt. pose proof (lower_token_tokens st Hst) as Hstt.
  pose proof (lower_token_nonempty t Ht) as Htne. pose proof (lower_token_nonempty st Hst) as Hstne.
  destruct (lower_token_head t Ht) as [c0 [t' [Et Hc0]]].
  destruct (subtype_tail_stable st ps Hstt Hstne) as [Hstab Hstabne].
  assert (Etrim : trim_matches (t ++ 47 :: st ++ tail_str ps) = t ++ 47 :: st ++ tail_str ps).
  { unfold trim_matches.
    replace (trim_start (t ++ 47 :: st ++ tail_str ps)) with (t ++ 47 :: st ++ tail_str ps)
      by (rewrite Et; cbn [app]; rewrite (trim_start_head c0 _ (tchar_not_ws c0 Hc0)); reflexivity).
    replace (t ++ 47 :: st ++ tail_str ps) with ((t ++ [47]) ++ (st ++ tail_str ps)) by (rewrite <- app_assoc; reflexivity).
    apply trim_end_app_stable; assumption. }
  unfold p_parse. rewrite Etrim.
  rewrite (split_once_app_sep 47 t _ (tokens_nosep 47 t tchar_47 Htt)).
  rewrite Htt, Htne. cbn [negb andb].
  rewrite (lower_token_lowercase_id t Ht).
  destruct ps as [|p ps].
  - cbn [tail_str flat_map]. rewrite app_nil_r.
    rewrite (split_once_nosep 59 st (tokens_nosep 59 st tchar_59 Hstt)).
    rewrite (trim_end_tokens st Hstt), Hstt, Hstne. cbn [negb andb bind].
    rewrite (lower_token_lowercase_id st Hst). reflexivity.
  - unfold tail_str. cbn [flat_map app]. fold (tail_str ps).
    rewrite (split_once_app_sep 59 st _ (tokens_nosep 59 st tchar_59 Hstt)).
    rewrite (trim_end_tokens st Hstt), Hstt, Hstne. cbn [negb andb].
    rewrite (lower_token_lowercase_id st Hst).
    unfold p_parse_parameters.
    pose proof (pieces_rest p ps) as Hpieces. unfold pieces in Hpieces.
    destruct (split_all 59 (ser_param p ++ tail_str ps)) as [q qs]. cbn [fst snd] in Hpieces.
    rewrite Hpieces.
    rewrite (rt_loop (p :: ps) [] (S (S (length qs)))); [reflexivity|constructor|exact Hps|exact Hnd|].
    rewrite <- Hpieces. cbn [length]. lia.
Qed.

(* ---- the serialization of a &str-built value is a &str ---- *)
Lemma escape_value_usv v : usv_list v -> usv_list (escape_value v).
Proof.
  unfold usv_list. induction v as [|c v IH]; intros H; [constructor|].
  inversion H as [|? ? Hc Hv]; subst. rewrite escape_value_cons. apply Forall_app. split; [|exact (IH Hv)].
  destruct ((c =? 34) || (c =? 92)).
  - constructor; [exact usv_92|]. constructor; [exact Hc|constructor].
  - constructor; [exact Hc|constructor].
Qed.

Lemma p_display_usv m : usv_mime m -> usv_list (p_display m).
Proof.
  intros [Ht [Hst Hps]]. unfold p_display, usv_list in *. apply Forall_app. split; [exact Ht|].
  constructor; [unfold is_usv; lia|]. apply Forall_app. split; [exact Hst|].
  unfold usv_params in Hps. induction Hps as [|p ps [Hn Hv] _ IH]; [constructor|].
  unfold tail_str. cbn [flat_map]. fold (tail_str ps). constructor; [exact usv_59|].
  apply Forall_app. split; [|exact IH]. unfold ser_param. apply Forall_app. split; [exact Hn|].
  constructor; [unfold is_usv; lia|]. unfold p_display_value.
  destruct (tokens (snd p) && negb (is_empty (snd p))); [exact Hv|].
  constructor; [unfold is_usv; lia|]. apply Forall_app. split; [exact (escape_value_usv _ Hv)|].
  constructor; [unfold is_usv; lia|constructor].
Qed.

(* C19_rt on the model *)
Theorem parse_display_rt s m :
  usv_list s -> parse s = Ok (Some m) -> exists d, display m = Ok d /\ parse d = Ok (Some m).
Proof.
  intros Hs H. rewrite (parse_spec s Hs) in H.
  pose proof (p_parse_usv s m Hs H) as Hu.
  destruct (p_parse_normal s m Hs H) as [Ht [Hst [Hall Hnd]]].
  exists (p_display m). split; [exact (display_spec m Hu)|].
  rewrite (parse_spec _ (p_display_usv m Hu)).
  apply p_parse_display; [exact Ht|exact Hst| |exact Hnd].
  eapply Forall_impl; [|exact Hall]. intros p [Hn [Hv _]]. split; assumption.
Qed.

(* the same for every value in normal form, whether or not it came out of the parser: the normal
   form of C19_normal is sufficient for the round trip *)
Theorem display_parse_wf m :
  usv_mime m ->
  lower_http_token (m_type m) -> lower_http_token (m_subtype m) ->
  Forall (fun p => lower_http_token (fst p) /\ value_wf (snd p)) (m_params m) ->
  NoDup (map fst (m_params m)) ->
  exists d, display m = Ok d /\ parse d = Ok (Some m).
Proof.
  intros Hu Ht Hst Hall Hnd. exists (p_display m). split; [exact (display_spec m Hu)|].
  rewrite (parse_spec _ (p_display_usv m Hu)).
  apply p_parse_display; [apply lower_token_spec; exact Ht|apply lower_token_spec; exact Hst| |exact Hnd].
  eapply Forall_impl; [|exact Hall]. intros p [Hn Hv]. split; [apply lower_token_spec; exact Hn|apply value_ok_spec; exact Hv].
Qed.
