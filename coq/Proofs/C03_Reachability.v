(* Proofs/C03_Reachability.v - "every reachable Url": the reach relation over parse, join, the two file-path
   constructors and ALL 19 mutators (successful or failing calls), and its invariant wfh = wf_b /\ host_text_ok.
     reach03a dbg hp hpo hd u :
       parse_url without a base; parse_url against a reached base that satisfies base_ok (C04: well-formed,
       and a special base is not cannot-be-a-base); Url::from_file_path / from_directory_path of a byte
       string; a call o of C02's operation type with Rust-typed arguments (op_args_ok) whose result either
       is the receiver itself (every failing call is: C06_atomic) or lies outside the computable exclusion
       excl03 of C03_ReachAll.v.
   known03 u o u' = negb (url_eqb u' u) && excl03 u o u' is the exclusion as one boolean. *)
From Coq Require Import String.
From RU Require Import Base.Prelude Base.Utf8 Model.AsciiSet Gen.Tables Model.PercentEncoding
  Model.HostT Model.UrlRecord Model.Parser Model.Setters Model.WF Model.FilePath
  Proofs.ListN Proofs.C02_Reach Proofs.C02_AuthParts
  Proofs.C03_WF Proofs.C05_Enc Proofs.C06_List Proofs.C06_WFI Proofs.C06_Suffix Proofs.C06_Host Proofs.C06_Main
  Proofs.C04_ParseTotal Proofs.C03_ReachParts Proofs.C03_Reach Proofs.C03_ReachFile Proofs.C03_ReachAll
  Proofs.C20_Path Proofs.C20_RT.
Open Scope N_scope.
Open Scope list_scope.

(* ---------- url_eqb decides equality ---------- *)
Lemma hi_eqb_true03 a b : hi_eqb a b = true -> a = b.
Proof.
  destruct a, b; cbn [hi_eqb]; intros H; try discriminate; try reflexivity.
  - apply N.eqb_eq in H. subst. reflexivity.
  - apply list_eqb_spec in H. subst. reflexivity.
Qed.

Lemma opt_eqb_true03 a b : opt_eqb a b = true -> a = b.
Proof. destruct a, b; cbn [opt_eqb]; intros H; try discriminate; try reflexivity. apply N.eqb_eq in H. subst. reflexivity. Qed.

Lemma url_eqb_true03 u v : url_eqb u v = true -> u = v.
Proof.
  destruct u as [s1 a1 b1 c1 d1 e1 f1 g1 h1 i1], v as [s2 a2 b2 c2 d2 e2 f2 g2 h2 i2]. unfold url_eqb.
  cbn [ser scheme_end username_end host_start host_end hosti port path_start query_start fragment_start].
  intros H. repeat (apply andb_true_iff in H; destruct H as [H ?]).
  apply list_eqb_spec in H.
  repeat match goal with X : (_ =? _) = true |- _ => apply N.eqb_eq in X end.
  repeat match goal with X : opt_eqb _ _ = true |- _ => apply opt_eqb_true03 in X end.
  match goal with X : hi_eqb _ _ = true |- _ => apply hi_eqb_true03 in X end.
  subst. reflexivity.
Qed.

Definition known03 (u : url) (o : op) (u' : url) : bool := negb (url_eqb u' u) && excl03 u o u'.

Lemma known03_false u o u' : known03 u o u' = false -> u' = u \/ excl03 u o u' = false.
Proof.
  unfold known03. intros H. apply andb_false_iff in H. destruct H as [H|H]; [left | right; exact H].
  apply negb_false_iff in H. exact (url_eqb_true03 _ _ H).
Qed.

(* ---------- the records the file-path constructors build ---------- *)
Lemma enc_no_qh c : bytes c -> forallb no_qh (enc c) = true.
Proof.
  intros Hb. apply forallb_forall. intros x Hx. unfold no_qh. apply negb_true_iff. apply orb_false_iff.
  split; apply N.eqb_neq; intros ->; revert Hx; unfold enc; apply encode_avoids; try exact Hb;
    try (vm_compute; reflexivity); discriminate.
Qed.

Lemma join_slash_no_qh cs : Forall (fun c => forallb no_qh c = true) cs -> forallb no_qh (join_slash cs) = true.
Proof.
  induction 1 as [|c cs Hc _ IH]; [reflexivity|].
  rewrite join_slash_cons. cbn [forallb]. rewrite forallb_app, Hc, IH. reflexivity.
Qed.

Lemma map_enc_no_qh ks : Forall bytes ks -> Forall (fun c => forallb no_qh c = true) (map enc ks).
Proof. induction 1 as [|k ks Hk _ IH]; cbn [map]; constructor; [exact (enc_no_qh k Hk) | exact IH]. Qed.

Lemma file_rec_wfh P : (exists r, P = 47 :: r) -> forallb no_qh P = true -> wfh (file_rec P).
Proof.
  intros (r & ->) Hq. change (file_rec (47 :: r)) with (file_url (s_file_css ++ 47 :: r) 7 7 HI_None None None).
  apply file_front_wf.
  - apply file_css_pre.
  - lia.
  - reflexivity.
  - change 7 with (nlen s_file_css). rewrite nskipn_app_exact. exact Hq.
  - intros _. reflexivity.
  - intros X. contradiction.
Qed.

Lemma url_path_of_shape ks : Forall bytes ks -> (exists r, url_path_of ks = 47 :: r) /\ forallb no_qh (url_path_of ks) = true.
Proof.
  intros Hb. destruct ks as [|k ks]; [split; [exists []; reflexivity | reflexivity]|].
  unfold url_path_of. split.
  - cbn [map]. rewrite join_slash_cons. eexists. reflexivity.
  - apply join_slash_no_qh, map_enc_no_qh. exact Hb.
Qed.

Lemma dir_path_of_shape ks : Forall bytes ks -> (exists r, dir_path_of ks = 47 :: r) /\ forallb no_qh (dir_path_of ks) = true.
Proof.
  intros Hb. unfold dir_path_of. split.
  - destruct ks as [|k ks]; [exists []; reflexivity|]. cbn [map]. rewrite join_slash_cons. eexists. reflexivity.
  - rewrite forallb_app. rewrite (join_slash_no_qh _ (map_enc_no_qh ks Hb)). reflexivity.
Qed.

Theorem from_file_path_wfh p u : bytes p -> from_file_path p = FOk u -> wfh u.
Proof.
  intros Hb H. destruct (path_is_absolute p) eqn:Ha.
  - rewrite (from_file_path_spec p Hb Ha) in H. inversion H; subst u.
    destruct (url_path_of_shape (kept p) (kept_bytes p Hb)) as [S Q]. exact (file_rec_wfh _ S Q).
  - rewrite (proj1 (from_file_path_rel p Ha)) in H. discriminate.
Qed.

Theorem from_directory_path_wfh p u : bytes p -> from_directory_path p = FOk u -> wfh u.
Proof.
  intros Hb H. destruct (path_is_absolute p) eqn:Ha.
  - rewrite (from_directory_path_spec p Hb Ha) in H. inversion H; subst u.
    destruct (dir_path_of_shape (kept p) (kept_bytes p Hb)) as [S Q]. exact (file_rec_wfh _ S Q).
  - rewrite (proj2 (from_file_path_rel p Ha)) in H. discriminate.
Qed.

(* the file records are possible bases *)
Lemma file_rec_base_ok P : (exists r, P = 47 :: r) -> forallb no_qh P = true -> base_ok (file_rec P) = true.
Proof.
  intros S Q. unfold base_ok. rewrite (proj1 (file_rec_wfh P S Q)). cbn [andb]. apply orb_true_iff. right.
  destruct S as (r & ->). reflexivity.
Qed.

Theorem from_file_path_base_ok p u : bytes p -> from_file_path p = FOk u -> base_ok u = true.
Proof.
  intros Hb H. destruct (path_is_absolute p) eqn:Ha.
  - rewrite (from_file_path_spec p Hb Ha) in H. inversion H; subst u.
    destruct (url_path_of_shape (kept p) (kept_bytes p Hb)) as [S Q]. exact (file_rec_base_ok _ S Q).
  - rewrite (proj1 (from_file_path_rel p Ha)) in H. discriminate.
Qed.

Theorem from_directory_path_base_ok p u : bytes p -> from_directory_path p = FOk u -> base_ok u = true.
Proof.
  intros Hb H. destruct (path_is_absolute p) eqn:Ha.
  - rewrite (from_directory_path_spec p Hb Ha) in H. inversion H; subst u.
    destruct (dir_path_of_shape (kept p) (kept_bytes p Hb)) as [S Q]. exact (file_rec_base_ok _ S Q).
  - rewrite (proj2 (from_file_path_rel p Ha)) in H. discriminate.
Qed.

(* ---------- the reach relation ---------- *)
Section Reach.
Variable dbg : bool.
Variable hp hpo : list N -> result host.
Variable hd : host -> list N.

Inductive reach03a : url -> Prop :=
| RA_parse ovr input u : parse_url dbg hp hpo hd ovr None input = POk u -> reach03a u
| RA_join ovr b input u :
    reach03a b -> base_ok b = true -> parse_url dbg hp hpo hd ovr (Some b) input = POk u -> reach03a u
| RA_file p u : bytes p -> from_file_path p = FOk u -> reach03a u
| RA_dir p u : bytes p -> from_directory_path p = FOk u -> reach03a u
| RA_step u o u' :
    reach03a u -> op_args_ok o -> known03 u o u' = false -> apply_op dbg hp hpo hd u o = Some u' -> reach03a u'.

Theorem reach03a_wfh : HostWf hp hpo hd -> IpDisp hd -> forall u, reach03a u -> wfh u.
Proof.
  intros HW HIP u R. induction R as
    [ovr input u Hp | ovr b input u Rb IHb Hb Hp | p u Hb H | p u Hb H | u o u' R IH Ha G H].
  - exact (parse_url_wf_all dbg hp hpo hd ovr HW None input u I Hp).
  - destruct IHb as [Wb Tb]. exact (parse_url_wf_all dbg hp hpo hd ovr HW (Some b) input u (conj Hb Tb) Hp).
  - exact (from_file_path_wfh p u Hb H).
  - exact (from_directory_path_wfh p u Hb H).
  - destruct (known03_false u o u' G) as [->|G']; [exact IH|].
    exact (step03 dbg hp hpo hd HW u o u' HIP IH Ha G' H).
Qed.

(* the older relation (C03_ReachHist.reach03) is a part of it - see Properties/C03.v *)
End Reach.
