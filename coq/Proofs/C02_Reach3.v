(* Proofs/C02_Reach3.v - the quantifier of C02 with Url::query_pairs_mut.
   (F3) Reachable / Reachable2 (C02_Reach.v, C02_Hist.v) quantify over parse, join and the 19 operations of
        C02_Reach.op; Url::query_pairs_mut (and Url::parse_with_params, which is parse followed by such a session)
        is a public mutator too and was missing: its result is NOT produced by the parser - the output of
        form_urlencoded::Serializer is written into the serialization directly - so no theorem about the parser
        covers it.  Reachable3 = Reachable2 + query_pairs_mut sessions; C02_statement3 the statement over it.
   ReachC2 = the histories of C02_ReachPartial.ReachC extended by query_pairs_mut sessions: every record of such a
   history is Canon (C02_Form.qpm_Canon), hence a fixpoint of re-parsing. *)
From RU Require Import Proofs.C15_Ser.
From Coq Require Import String.
From RU Require Import Base.Prelude Base.Utf8 Base.Utf8Facts Base.Outcome_c15 Model.AsciiSet Gen.Tables
  Model.PercentEncoding Model.HostT Model.UrlRecord Model.Parser Model.Setters Model.WF Model.FormUrlencoded
  Model.QueryPairs
  Proofs.ListN Proofs.C02_Enc Proofs.C02_Parts Proofs.C02_Opaque Proofs.C02_Path Proofs.C02_PathL1 Proofs.C02_Reach
  Proofs.C02_AuthParts Proofs.C02_Auth Proofs.C02_AuthWf Proofs.C02_PathSp Proofs.C02_AuthSp Proofs.C02_AuthMain
  Proofs.C02_Hist Proofs.C02_SetQF Proofs.C02_Canon Proofs.C02_SetPort Proofs.C02_JoinTail Proofs.C02_ReachPartial
  Proofs.C02_Form Proofs.C02_SetCred Proofs.C02_SetCredCanon Proofs.C02_QPort Proofs.C08_AbsNonfile.
Open Scope N_scope.
Open Scope list_scope.

Section Reach3.
Variable dbg : bool.
Variable hp hpo : list N -> result host.
Variable hd : host -> list N.

(* arguments of a session are Rust values: names and values are &str, an encoding override is a function from
   &str to bytes (C15_Ser.op_ok) *)
Inductive Reachable3 : url -> Prop :=
| R3_parse ovr input u :
    usv_list input -> parse_url dbg hp hpo hd ovr None input = POk u ->
    Known_file_drive u = false -> Reachable3 u
| R3_join ovr b input u :
    Reachable3 b -> usv_list input -> parse_url dbg hp hpo hd ovr (Some b) input = POk u ->
    Known_file_drive u = false -> Reachable3 u
| R3_step u o u' :
    Reachable3 u -> op_args_ok o -> known_step2 dbg hp hpo hd u o = false -> apply_op dbg hp hpo hd u o = Some u' ->
    Known_file_drive u' = false -> Reachable3 u'
| R3_qpm u ops u' :
    Reachable3 u -> Forall op_ok ops -> query_pairs_session dbg u ops = Some u' ->
    Known_file_drive u' = false -> Reachable3 u'.

Lemma Reachable2_3 u : Reachable2 dbg hp hpo hd u -> Reachable3 u.
Proof.
  induction 1 as [ovr input u Hu Hp Hk | ovr b input u Hb IH Hu Hp Hk | u o u' Hr IH Ha Hk Ho Hk'].
  - exact (R3_parse ovr input u Hu Hp Hk).
  - exact (R3_join ovr b input u IH Hu Hp Hk).
  - exact (R3_step u o u' IH Ha Hk Ho Hk').
Qed.
End Reach3.

(* ---------- C02, full strength, with query_pairs_mut ---------- *)
Definition C02_statement3 : Prop :=
  forall dbg hp hpo hd, HostOK2 hp hpo hd ->
  forall u, Reachable3 dbg hp hpo hd u -> Fixpoint_of_reparse dbg hp hpo hd u.

Lemma statement3_implies_2 : C02_statement3 -> C02_statement.
Proof. intros H dbg hp hpo hd HOK u Hr. exact (H dbg hp hpo hd HOK u (Reachable2_3 dbg hp hpo hd u Hr)). Qed.

(* the mutators of C02_Reach.op for which L2 is proved on the four canonical forms *)
Definition canon_op (o : op) : bool :=
  match o with
  | OSetFragment _ | OSetQuery _ | OSetPort _ | OSetPassword _ | OSetUsername _
  | OQUsername _ | OQPassword _ | OQPort _ | OQSearch _ | OQHash _ => true   (* quirks setters: four wrappers, and port *)
  | _ => false
  end.

Lemma tail_op_canon o : tail_op o = true -> canon_op o = true.
Proof. destruct o; try discriminate; reflexivity. Qed.

Lemma canon_op_not_known dbg hp hpo hd u o : canon_op o = true -> known_step2 dbg hp hpo hd u o = false.
Proof.
  destruct o; try discriminate; intros _; unfold known_step2, known_step, Known_F_C03_5, Known_F_C02_3, Known_F_C02_2,
    Known_F_C02_8, Known_F_C02_4, Known_F_C02_9; cbn [is_host_or_path_op]; rewrite ?andb_false_r; reflexivity.
Qed.

Section ReachC2.
Variable dbg : bool.
Variable hp hpo : list N -> result host.
Variable hd : host -> list N.
Hypothesis HOK : HostOK2 hp hpo hd.

Let HRT : HostRT hp hpo hd := proj1 HOK.
Let HAb : host_above hp hpo hd := proj1 (proj2 HOK).

Inductive ReachC2 : url -> Prop :=
| RC2_parse ovr input u :
    usv_list input -> nonfile_input input = true -> (ovr = None \/ special_input input = false) ->
    parse_url dbg hp hpo hd ovr None input = POk u -> ReachC2 u
| RC2_join ovr b input u :
    ReachC2 b -> usv_list input -> tail_ref input = true ->
    (ovr = None \/ st_is_special (scheme_type_of (b_scheme b)) = false) ->
    parse_url dbg hp hpo hd ovr (Some b) input = POk u -> ReachC2 u
| RC2_step u o u' :
    ReachC2 u -> canon_op o = true -> op_args_ok o -> apply_op dbg hp hpo hd u o = Some u' ->
    nlen (ser u') <= U32_MAX_P -> ReachC2 u'
| RC2_qpm u ops u' :
    ReachC2 u -> Forall op_ok ops -> query_pairs_session dbg u ops = Some u' ->
    nlen (ser u') <= U32_MAX_P -> ReachC2 u'.

Lemma ReachC_C2 u : ReachC dbg hp hpo hd u -> ReachC2 u.
Proof.
  induction 1 as [ovr input u Hu Hn Hov Hp | ovr b input u Hr IH Hu Ht Hov Hp | u o u' Hr IH Ht Ha Ho Hb].
  - exact (RC2_parse ovr input u Hu Hn Hov Hp).
  - exact (RC2_join ovr b input u IH Hu Ht Hov Hp).
  - exact (RC2_step u o u' IH (tail_op_canon o Ht) Ha Ho Hb).
Qed.

Theorem ReachC2_Canon u : ReachC2 u -> Canon hp hpo hd u.
Proof.
  induction 1 as [ovr input u Hu Hn Hov Hp | ovr b input u Hr IH Hu Ht Hov Hp | u o u' Hr IH Ht Ha Ho Hb
                 | u ops u' Hr IH Hops Hs Hb].
  - exact (parse_Canon dbg hp hpo hd HRT ovr input u HAb Hu Hn Hov Hp).
  - exact (join_tail_Canon dbg hp hpo hd HRT ovr b input u IH Hu Ht Hov Hp).
  - destruct o; try discriminate Ht; cbn [apply_op op_args_ok] in *.
    + exact (set_fragment_Canon dbg hp hpo hd HRT u f u' IH Ha Ho Hb).
    + exact (set_query_Canon dbg hp hpo hd HRT u q u' IH Ha Ho Hb).
    + destruct (option_map_fst_some _ _ Ho) as [s Es].
      exact (set_port_Canon dbg hp hpo hd u p u' s IH Ha Es Hb).
    + destruct (option_map_fst_some _ _ Ho) as [s Es].
      exact (set_password_Canon dbg hp hpo hd u p u' s IH Ha Es Hb).
    + destruct (option_map_fst_some _ _ Ho) as [s0 Es].
      exact (set_username_Canon dbg hp hpo hd u s u' s0 IH Ha Es Hb).
    + destruct (option_map_fst_some _ _ Ho) as [s0 Es]. unfold q_set_username in Es.
      exact (set_username_Canon dbg hp hpo hd u s u' s0 IH Ha Es Hb).
    + destruct (option_map_fst_some _ _ Ho) as [s0 Es]. unfold q_set_password in Es.
      apply (set_password_Canon dbg hp hpo hd u _ u' s0 IH) in Es; [exact Es | | exact Hb].
      destruct s; [exact I | exact Ha].
    + destruct (option_map_fst_some _ _ Ho) as [s0 Es].
      exact (q_set_port_Canon dbg hp hpo hd u s u' s0 IH Es Hb).
    + unfold q_set_search in Ho. apply (set_query_Canon dbg hp hpo hd HRT u _ u' IH) in Ho; [exact Ho | | exact Hb].
      destruct s as [|c r]; [exact I|]. assert (usv_list r) as Hr' by (apply usv_cons in Ha; tauto).
      destruct c as [|pp]; [exact Ha|]. do 7 (try (destruct pp as [pp|pp|]; try exact Ha)). exact Hr'.
    + unfold q_set_hash in Ho. apply (set_fragment_Canon dbg hp hpo hd HRT u _ u' IH) in Ho; [exact Ho | | exact Hb].
      destruct s as [|c r]; [exact I|]. assert (usv_list r) as Hr' by (apply usv_cons in Ha; tauto).
      destruct c as [|pp]; [exact Ha|]. do 7 (try (destruct pp as [pp|pp|]; try exact Ha)). exact Hr'.
  - exact (qpm_Canon dbg hp hpo hd HRT u ops u' IH Hops Hs Hb).
Qed.

Theorem reach_partial2 u : ReachC2 u ->
  Fixpoint_of_reparse dbg hp hpo hd u /\ wf_b u = true /\ ascii (ser u).
Proof. intros H. exact (Canon_fixpoint dbg hp hpo hd HRT u (ReachC2_Canon u H)). Qed.

(* C08's law 'an absolute URL's own serialization resolves to itself' for these histories: Canon is the class
   nonfile_form of Proofs/C08_AbsNonfile.v, whose text never consults the base - against EVERY base record b *)
Lemma Canon_nonfile_form u : Canon hp hpo hd u -> nonfile_form hp hpo hd u.
Proof.
  intros [sch P q f K | sch segs last q f K | sch ui h pt p q f K | sch ui h pt p q f K Kp].
  - exact (NF_opaque hp hpo hd _ sch P q f K eq_refl).
  - exact (NF_noauth hp hpo hd _ sch segs last q f K eq_refl).
  - exact (NF_auth hp hpo hd _ sch ui h pt p q f K eq_refl).
  - exact (NF_special hp hpo hd _ sch ui h pt p q f K Kp eq_refl).
Qed.

Theorem reach_absolute u b : ReachC2 u ->
  parse_url dbg hp hpo hd None (Some b) (utf8_lossy (ser u)) = POk u.
Proof. intros H. exact (absolute_form dbg hp hpo hd HRT b u (Canon_nonfile_form u (ReachC2_Canon u H))). Qed.

Theorem ReachC2_Reachable3 u : ReachC2 u -> Reachable3 dbg hp hpo hd u.
Proof.
  intros H. induction H as [ovr input u Hu Hn Hov Hp | ovr b input u Hr IH Hu Ht Hov Hp | u o u' Hr IH Ht Ha Ho Hb
                           | u ops u' Hr IH Hops Hs Hb].
  - apply (R3_parse dbg hp hpo hd ovr input u Hu Hp).
    apply (Canon_not_file_drive hp hpo hd). exact (parse_Canon dbg hp hpo hd HRT ovr input u HAb Hu Hn Hov Hp).
  - apply (R3_join dbg hp hpo hd ovr b input u IH Hu Hp).
    apply (Canon_not_file_drive hp hpo hd). apply ReachC2_Canon. exact (RC2_join ovr b input u Hr Hu Ht Hov Hp).
  - apply (R3_step dbg hp hpo hd u o u' IH Ha (canon_op_not_known dbg hp hpo hd u o Ht) Ho).
    apply (Canon_not_file_drive hp hpo hd). apply ReachC2_Canon. exact (RC2_step u o u' Hr Ht Ha Ho Hb).
  - apply (R3_qpm dbg hp hpo hd u ops u' IH Hops Hs).
    apply (Canon_not_file_drive hp hpo hd). apply ReachC2_Canon. exact (RC2_qpm u ops u' Hr Hops Hs Hb).
Qed.
End ReachC2.

(* ---------- non-vacuity ---------- *)
(* http://h/p?a='#f -> query_pairs_mut().append_pair("k'", "v w~").append_key_only("*") =
   http://h/p?a=%27&k%27=v+w%7E&*#f , a fixpoint; a:b c -> query_pairs_mut().clear() = a:b c? *)
Definition ex_qpm (start : string) (ops : list ser_op) : option url :=
  match parse_url true ex_hp ex_hp ex_hd None None (B start) with
  | POk u => query_pairs_session true u ops
  | _ => None
  end.

Example qpm_example :
  match ex_qpm "http://h/p?a='#f" [OpAppendPair (B "k'") (B "v w~"); OpAppendKeyOnly (B "*")] with
  | Some u => list_eqb (ser u) (B "http://h/p?a=%27&k%27=v+w%7E&*#f")
              && match parse_url true ex_hp ex_hp ex_hd None None (ser u) with POk v => url_eqb v u | _ => false end
  | None => false
  end = true
  /\ match ex_qpm "a:b c" [OpClear] with
     | Some u => list_eqb (ser u) (B "a:b c?")
                 && match parse_url true ex_hp ex_hp ex_hd None None (ser u) with POk v => url_eqb v u | _ => false end
     | None => false end = true.
Proof. vm_compute. split; reflexivity. Qed.

(* a history with the two credential setters: a://h.x/p -> set_username("u s") -> set_password("p:w") ->
   set_username("") -> set_password(None) gives a://u%20s@h.x/p, a://u%20s:p%3Aw@h.x/p, a://:p%3Aw@h.x/p, a://h.x/p *)
Example cred_example :
  match ex_hist "a://h.x/p" [OSetUsername (B "u s")] with Some u => list_eqb (ser u) (B "a://u%20s@h.x/p") | None => false end = true
  /\ match ex_hist "a://h.x/p" [OSetUsername (B "u s"); OSetPassword (Some (B "p:w"))] with
     | Some u => list_eqb (ser u) (B "a://u%20s:p%3Aw@h.x/p") | None => false end = true
  /\ match ex_hist "a://h.x/p" [OSetUsername (B "u s"); OSetPassword (Some (B "p:w")); OSetUsername []] with
     | Some u => list_eqb (ser u) (B "a://:p%3Aw@h.x/p")
                 && match parse_url true ex_hp ex_hp ex_hd None None (ser u) with POk v => url_eqb v u | _ => false end
     | None => false end = true
  /\ match ex_hist "a://h.x/p" [OSetUsername (B "u s"); OSetPassword (Some (B "p:w")); OSetUsername []; OSetPassword None] with
     | Some u => list_eqb (ser u) (B "a://h.x/p") | None => false end = true.
Proof. vm_compute. repeat split. Qed.
