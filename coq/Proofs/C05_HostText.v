(* Proofs/C05_HostText.v - the stored host text along parse, join and gated mutator steps.
   Part A (parser): for ANY input numbers a parse result either lies entirely inside 0x21..0x7E or has no host
     (the opaque-path state, the only one that writes U+0020, belongs to records without authority); base: a record
     with CInv, bytes in 0x20..0x7E, bk and a space-free host text.  No scalar-value condition on the input
     (C05_Sharp.parse_url_sharp needs one for the head of an opaque path; the host text does not).
   Part B (mutators): FR u u' - what one gated step of any of the 19 mutators does to scheme and host text, read off
     C06's frame theorems: the scheme stays or (set_scheme) stays special / not special in the direction
     "new special -> old special"; host_str stays, becomes None, or becomes Display of an address value (set_ip_host)
     or of a host returned by the host parser that belongs to the scheme class of the URL (hp for special schemes,
     hpo otherwise).
   Together: AS ("special scheme => ://", hence base_ok) and "the host text of a URL satisfies Q" are invariants. *)
From RU Require Import Base.Prelude Base.Utf8 Base.Utf8Facts Model.AsciiSet Gen.Tables Model.PercentEncoding
  Model.HostT Model.UrlRecord Model.Parser Model.Setters Model.WF
  Proofs.ListN Proofs.C03_WF Proofs.C05_Enc Proofs.C05_Parser Proofs.C05_Setters Proofs.C05_History Proofs.C05_Sharp
  Proofs.C05_Frag Proofs.C05_Query Proofs.C05_Comp Proofs.C05_PathClean Proofs.C05_CompSteps Proofs.C05_CompHist
  Proofs.C06_List Proofs.C06_WFI Proofs.C06_Tail Proofs.C06_Steps Proofs.C06_Suffix
  Proofs.C06_Front Proofs.C06_Atomic Proofs.C06_FragQuery Proofs.C06_Port Proofs.C06_Cred Proofs.C06_Scheme
  Proofs.C06_HostNone Proofs.C06_Host Proofs.C06_PathParser Proofs.C06_Path Proofs.C06_Segments Proofs.C06_PathNoAuth
  Proofs.C06_Main Proofs.C06_PathMore Proofs.C06_Quirks Proofs.C04_ParseTotal Proofs.C03_ReachParts Proofs.C03_Reach Proofs.C03_ReachFile
  Proofs.C05_ParseAll Proofs.C05_CompSteps2 Proofs.C05_CompReach Proofs.C05_BaseOk Proofs.C05_CompSteps3 Proofs.C05_Alphabet
  Proofs.C05_AuthOfs Proofs.C05_AuthParse.

(* what Url::host_str() returns satisfies Q *)
Definition HTx (Q : list N -> Prop) (u : url) : Prop := forall s, host_str u = Some (Some s) -> Q s.

Lemma htx_piece Q u : wf_b u = true -> HTx Q u -> has_host u = true -> Q (piece u (host_start u) (host_end u)).
Proof. intros W H Hh. apply H. rewrite (host_str_eval u W), Hh. reflexivity. Qed.

Lemma htx_no_host Q u : wf_b u = true -> hosti u = HI_None -> HTx Q u.
Proof.
  intros W Hn s Hs. rewrite (host_str_eval u W) in Hs. unfold has_host in Hs. rewrite Hn in Hs. discriminate.
Qed.

Lemma htx_all_bytes (P : N -> Prop) u : wf_b u = true -> Forall P (ser u) -> HTx (Forall P) u.
Proof.
  intros W H s Hs. rewrite (host_str_eval u W) in Hs. destruct (has_host u); [|discriminate]. inversion Hs; subst s.
  unfold piece, nfirstn, nskipn. apply Forall_firstn, Forall_skipn. exact H.
Qed.

(* ================= Part A: the parser ================= *)
Section ParseHost.
Variable dbg : bool.
Variable hp hpo : list N -> result host.
Variable hd : host -> list N.
Variable ovr : option (list N -> list N).
Hypothesis HOK : HostOK hp hpo hd.

Lemma fragment_only_hosti b l u : fragment_only b l = POk u -> hosti u = hosti b.
Proof. unfold fragment_only. cbv zeta. intros H. pb H fs Hfs. inversion H; subst u. reflexivity. Qed.

(* an input that reaches the opaque-path state gives a record without host *)
Lemma opaque_input_no_host base input u : url_opaque_input input = true ->
  parse_url dbg hp hpo hd ovr base input = POk u -> hosti u = HI_None.
Proof.
  unfold url_opaque_input, parse_url. cbv zeta.
  destruct (parse_scheme CUrlParser (input_new_trim_c0 input)) as [[sch rem]|]; [|discriminate].
  unfold opaque_input. destruct (scheme_type_of sch) eqn:Est; try discriminate. intros Hob.
  unfold parse_with_scheme. intros H. pb H se Hse. cbv zeta in H. rewrite Est in H.
  unfold parse_non_special in H. unfold opaque_branch in Hob.
  destruct (inp_split_prefix_str s_ss rem); [discriminate|].
  destruct (inp_split_prefix_char 47 rem); [discriminate|].
  pb H ps Hps. pb H a Ha. destruct a as [s1 remaining].
  apply wqf_fields in H. exact (proj2 (proj2 H)).
Qed.

Lemma opaque_base_facts b : wf_b b = true -> bk b -> cannot_be_a_base b = Some true ->
  st_is_special (scheme_type_of (b_scheme b)) = false /\ hosti b = HI_None.
Proof.
  intros W K C. rewrite (cannot_be_a_base_eval b W) in C. inversion C as [C1]. apply negb_true_iff in C1.
  split.
  - destruct (st_is_special (scheme_type_of (b_scheme b))) eqn:E; [|reflexivity]. exfalso.
    specialize (K E). unfold sl1 in K. unfold byte_eqb in C1. rewrite K in C1. discriminate.
  - destruct (opaque_path_start b W C1) as [Ha _]. exact (nf_host (wf_noauth_facts b W Ha)).
Qed.

Theorem parse_url_host_bytes dbg' base input u :
  match base with
  | Some b => CInv dbg' b /\ Forall ok_or_space (ser b) /\ bk b /\ HTx (fun s => ~ In 32 s) b
  | None => True
  end ->
  parse_url dbg hp hpo hd ovr base input = POk u -> Forall ok_byte (ser u) \/ hosti u = HI_None.
Proof.
  intros Hb H.
  destruct (url_opaque_input input) eqn:Eop; [right; exact (opaque_input_no_host base input u Eop H)|].
  assert (forall base', match base' with Some b => Forall ok_byte (ser b) | None => True end ->
                        parse_url dbg hp hpo hd ovr base' input = POk u -> Forall ok_byte (ser u)) as Hplain.
  { intros base' Hb' H'.
    eapply (parse_url_okl ok_byte (fun _ h => h)); [exact HOK | | exact H' | exact Hb'].
    rewrite Eop. discriminate. }
  destruct base as [b|]; [|left; exact (Hplain None I H)].
  destruct Hb as (K & Hoks & Kb & Hh). pose proof K as [[W HT] _].
  pose proof (cannot_be_a_base_eval b W) as Ec.
  destruct (byte_eqb (ser b) (scheme_end b + 1) 47) eqn:Esl; cbn [negb] in Ec.
  - (* a hierarchical base lies inside 0x21..0x7E *)
    left. apply (Hplain (Some b)); [|exact H].
    apply (cinv_hier_ok_byte dbg' b K Hoks); [|exact Ec].
    intros Hhh. exact (htx_piece _ b W Hh Hhh).
  - (* an opaque base: not looked at once a scheme has been parsed; otherwise only its fragment is replaced *)
    destruct (opaque_base_facts b W Kb Ec) as [Hsp Hhi].
    unfold parse_url in H. cbv zeta in H.
    destruct (parse_scheme CUrlParser (input_new_trim_c0 input)) as [[scheme remaining]|] eqn:Es.
    + rewrite (parse_with_scheme_nonspecial_base dbg hp hpo hd ovr) in H by exact Hsp.
      left. apply (Hplain None I). unfold parse_url. cbv zeta. rewrite Es. exact H.
    + destruct (inp_starts_with_char 35 (input_new_trim_c0 input)).
      * right. rewrite (fragment_only_hosti b _ u H). exact Hhi.
      * rewrite Ec in H. discriminate.
Qed.

(* the host text of every parse result has no space *)
Theorem parse_url_host_nosp dbg' base input u : wf_b u = true ->
  match base with
  | Some b => CInv dbg' b /\ Forall ok_or_space (ser b) /\ bk b /\ HTx (fun s => ~ In 32 s) b
  | None => True
  end ->
  parse_url dbg hp hpo hd ovr base input = POk u -> HTx (fun s => ~ In 32 s) u.
Proof.
  intros W Hb H. destruct (parse_url_host_bytes dbg' base input u Hb H) as [Hok|Hn].
  - intros s Hs. apply ok_nosp. exact (htx_all_bytes ok_byte u W Hok s Hs).
  - exact (htx_no_host _ u W Hn).
Qed.

End ParseHost.

(* ================= Part B: the mutators ================= *)
Definition spb (u : url) : bool := st_is_special (scheme_type_of (b_scheme u)).

Lemma scheme_b u : wf_b u = true -> scheme u = Some (b_scheme u).
Proof.
  intros W. rewrite (scheme_eval u W). unfold piece, b_scheme. cbn [pidx]. rewrite N.sub_0_r, nskipn_0. reflexivity.
Qed.

Lemma spb_same u u' : wf_b u = true -> wf_b u' = true -> scheme u' = scheme u -> spb u' = spb u.
Proof.
  intros W W' E. rewrite (scheme_b u W), (scheme_b u' W') in E. inversion E as [E1]. unfold spb. rewrite E1. reflexivity.
Qed.

Lemma u_scheme_type_spb u sty : wf_b u = true -> u_scheme_type u = Some sty -> st_is_special sty = spb u.
Proof. intros W E. rewrite (u_scheme_type_eval u W) in E. inversion E. reflexivity. Qed.

Section Frames.
Variable dbg : bool.
Variable hp hpo : list N -> result host.
Variable hd : host -> list N.
Hypothesis HW : HostWf hp hpo hd.

(* a host returned by the parser of the scheme class *)
Definition origin_st (sp : bool) (h : host) : Prop := if sp then exists s, hp s = Ok h else exists s, hpo s = Ok h.

Lemma origin_st_origin sp h : origin_st sp h -> host_origin hp hpo h.
Proof. destruct sp; intros [s E]; [right; left | right; right]; exists s; exact E. Qed.

Definition hs_keep (u u' : url) : Prop :=
  host_str u' = host_str u \/ host_str u' = Some None
  \/ exists h, host_str u' = Some (Some (hd h)) /\ h <> HDomain [] /\ (ip_arg h \/ origin_st (spb u) h).

(* what a step does to the scheme class and to the host text *)
Definition FR (u u' : url) : Prop := (spb u' = true -> spb u = true) /\ hs_keep u u'.

Lemma fr_refl u : FR u u.
Proof. split; [tauto | left; reflexivity]. Qed.

Lemma fr_same u u' : wf_b u = true -> wf_b u' = true -> scheme u' = scheme u -> host_str u' = host_str u -> FR u u'.
Proof. intros W W' E1 E2. split; [rewrite (spb_same u u' W W' E1); tauto | left; exact E2]. Qed.

Lemma fr_front u u' : wf_b u = true -> wf_b u' = true -> same_front dbg u u' -> FR u u'.
Proof. intros W W' (S1 & _ & _ & S4 & _). exact (fr_same u u' W W' S1 S4). Qed.

Lemma fr_path_result u u' P : wf_b u = true -> path_result dbg u u' P -> FR u u'.
Proof. intros W (W' & _ & SF & _). exact (fr_front u u' W W' SF). Qed.

(* a new host *)
Lemma fr_new_host u u' h : wf_b u = true -> wf_b u' = true -> scheme u' = scheme u ->
  host_str u' = Some (if hi_some (hi_of_host h) then Some (hd h) else None) ->
  h = HDomain [] \/ ip_arg h \/ origin_st (spb u) h -> FR u u'.
Proof.
  intros W W' E1 E2 Ho. split; [rewrite (spb_same u u' W W' E1); tauto|].
  destruct (hi_some (hi_of_host h)) eqn:Eh; [|right; left; exact E2].
  right. right. exists h. split; [exact E2|].
  split; [intros ->; discriminate Eh|]. destruct Ho as [->|Ho]; [discriminate Eh | exact Ho].
Qed.

(* ---------- fragment / query ---------- *)
Lemma set_fragment_fr u f u' : wf_b u = true -> set_fragment dbg u f = Some u' -> FR u u'.
Proof.
  intros W H. destruct (set_fragment_ok dbg u f W) as (u'' & E' & W' & SF & _).
  rewrite H in E'. inversion E'; subst u''. exact (fr_front u u' W W' SF).
Qed.

Lemma set_query_fr u q u' : wf_b u = true -> str_arg_ok q -> set_query dbg u q = Some u' -> FR u u'.
Proof.
  intros W Hq H. destruct (set_query_ok dbg u q W Hq) as (u'' & E' & W' & SF & _).
  rewrite H in E'. inversion E'; subst u''. exact (fr_front u u' W W' SF).
Qed.

(* ---------- path ---------- *)
Lemma set_path_pr u p u' : CInv dbg u -> usv_list p -> auth_end_ok u ->
  (is_opaque_b u = true -> forallb no_qh p = true) -> path_gate u u' ->
  set_path dbg u p = Some u' -> exists P, path_result dbg u u' P.
Proof.
  intros [[W HT] K] Hp Hx Hq G H. unfold path_gate in G.
  destruct (path_layouts u W) as [Ha|[NA|[Ho|M]]].
  - destruct (set_path_ok dbg u p u' W HT Ha Hp Hx H) as (W' & HT' & SF & Q & F & (P & Pp & _)).
    exists P. exact (conj W' (conj HT' (conj SF (conj Q (conj F Pp))))).
  - pose proof NA as (Ha & Hsl & Hnm). rewrite Ha in G.
    assert (is_opaque_b u = false) as Ho by (unfold is_opaque_b; rewrite Hsl; reflexivity). rewrite Ho in G.
    replace (path_start u =? scheme_end u + 3) with false in G by lia.
    destruct (set_path_eval dbg u p u' W Hsl Hp Hx H) as (P & hh & rem & -> & HP & Epp).
    exists P. exact (proj1 (plain_result dbg u P W Ha Hnm (proj1 HP)) G).
  - destruct (set_path_opaque_ok dbg u p u' W Ho Hp (Hq Ho) H) as (W' & HT' & SF & Q & F & Ho' & (P & Pp & _)).
    exists P. exact (conj W' (conj HT' (conj SF (conj Q (conj F Pp))))).
  - pose proof M as [Ha Em]. destruct (marker_heads u W M) as (Hsl & _ & _). rewrite Ha in G.
    assert (is_opaque_b u = false) as Ho by (unfold is_opaque_b; rewrite Hsl; reflexivity). rewrite Ho in G.
    replace (path_start u =? scheme_end u + 3) with true in G by lia.
    destruct (set_path_eval dbg u p u' W Hsl Hp Hx H) as (P & hh & rem & -> & HP & Epp).
    exists P. exact (proj1 (marker_result dbg u P W Ha Em (proj1 HP)) G).
Qed.

Lemma set_path_fr u p u' : CInv dbg u -> usv_list p -> auth_end_ok u ->
  (is_opaque_b u = true -> forallb no_qh p = true) -> path_gate u u' ->
  set_path dbg u p = Some u' -> FR u u'.
Proof.
  intros K Hp Hx Hq G H. destruct (set_path_pr u p u' K Hp Hx Hq G H) as (P & R).
  destruct K as [[W _] _]. exact (fr_path_result u u' P W R).
Qed.

Lemma session_fr u ops u' st : CInv dbg u -> Forall psm_op_usv ops -> path_gate u u' ->
  path_segments_session dbg u ops = Some (u', st) -> FR u u'.
Proof.
  intros [[W HT] K] Hops G H.
  destruct st; [|rewrite (path_segments_session_atomic dbg u ops u' _ H) by discriminate; apply fr_refl ..].
  unfold path_gate in G.
  destruct (path_layouts u W) as [Ha|[NA|[Ho|M]]].
  - destruct (auth_path_head u W Ha) as [Hsl Hhead].
    destruct (path_segments_session_eval dbg u ops u' W Hsl Hhead Hops H) as (P & EP & HP1 & HP2). subst u'.
    apply (fr_front u _ W); [apply wp_wf; assumption | apply wp_front; assumption].
  - pose proof NA as (Ha & Hsl & Hnm). rewrite Ha in G.
    assert (is_opaque_b u = false) as Ho by (unfold is_opaque_b; rewrite Hsl; reflexivity). rewrite Ho in G.
    replace (path_start u =? scheme_end u + 3) with false in G by lia.
    assert (path_end u = path_start u \/ byte_eqb (ser u) (path_start u) 47 = true) as Hhead
      by (right; rewrite Hnm; exact Hsl).
    destruct (path_segments_session_eval dbg u ops u' W Hsl Hhead Hops H) as (P & EP & HP). subst u'.
    exact (fr_path_result u _ P W (proj1 (plain_result dbg u P W Ha Hnm (proj1 HP)) G)).
  - exfalso. unfold path_segments_session, path_segments_mut in H. rewrite (cannot_be_a_base_eval u W) in H.
    unfold is_opaque_b in Ho. rewrite Ho in H. cbn [bindo] in H. discriminate.
  - pose proof M as [Ha Em]. destruct (marker_heads u W M) as (Hsl & Hhd & _). rewrite Ha in G.
    assert (is_opaque_b u = false) as Ho by (unfold is_opaque_b; rewrite Hsl; reflexivity). rewrite Ho in G.
    replace (path_start u =? scheme_end u + 3) with true in G by lia.
    destruct (path_segments_session_eval dbg u ops u' W Hsl (or_intror Hhd) Hops H) as (P & EP & HP). subst u'.
    exact (fr_path_result u _ P W (proj1 (marker_result dbg u P W Ha Em (proj1 HP)) G)).
Qed.

Lemma q_set_pathname_fr u v u' : CInv dbg u -> usv_list v -> auth_end_ok u -> path_gate u u' ->
  q_set_pathname dbg u v = Some u' -> FR u u'.
Proof.
  intros K Hv Hx G H. pose proof K as [[W _] _]. unfold q_set_pathname in H.
  rewrite (cannot_be_a_base_eval u W) in H. cbn [bindo] in H.
  destruct (byte_eqb (ser u) (scheme_end u + 1) 47) eqn:Hsl; cbn [negb] in H; [|inversion H; subst; apply fr_refl].
  assert (is_opaque_b u = true -> forall p, forallb no_qh p = true) as Hop.
  { intros Ho. unfold is_opaque_b in Ho. rewrite Hsl in Ho. discriminate. }
  destruct (u_scheme_type u) as [st|]; cbn [bindo] in H; [|discriminate].
  assert (usv_list (47 :: v)) as Hv' by (constructor; [unfold is_usv; lia | exact Hv]).
  destruct (match v with 47 :: _ => true | _ => false end || st_is_special st && match v with 92 :: _ => true | _ => false end).
  - exact (set_path_fr u v u' K Hv Hx (fun Ho => Hop Ho v) G H).
  - destruct (st_is_special st || negb match v with [] => true | _ => false end || negb (has_host u)).
    + exact (set_path_fr u (47 :: v) u' K Hv' Hx (fun Ho => Hop Ho _) G H).
    + exact (set_path_fr u v u' K Hv Hx (fun Ho => Hop Ho v) G H).
Qed.

(* ---------- port / password / username / scheme ---------- *)
Lemma set_port_fr u p u' st : wfh u -> port_arg_ok p -> set_port dbg u p = Some (u', st) -> FR u u'.
Proof.
  intros [W HT] Hp H. destruct (set_port_ok dbg u p W HT Hp) as (u'' & st' & E' & Herr & Hok).
  rewrite H in E'. inversion E'; subst u'' st'.
  destruct st; [|rewrite Herr by discriminate; apply fr_refl ..].
  destruct (Hok eq_refl) as (W' & _ & (I1 & _ & _ & I4) & _). exact (fr_same u u' W W' I1 I4).
Qed.

Lemma q_set_port_fr u v u' st : wfh u -> q_set_port dbg u v = Some (u', st) -> FR u u'.
Proof.
  intros K H. destruct (q_set_port_as_set_port dbg u v u' st H) as [[-> _]|(p & Hp & E)]; [apply fr_refl|].
  exact (set_port_fr u p u' st K Hp E).
Qed.

Lemma set_password_fr u pw u' st : wfh u -> set_password dbg u pw = Some (u', st) -> FR u u'.
Proof.
  intros [W HT] H. destruct (set_password_ok dbg u pw W HT) as (u'' & st' & E' & Herr & Hok).
  rewrite H in E'. inversion E'; subst u'' st'.
  destruct st; [|rewrite Herr by discriminate; apply fr_refl ..].
  destruct (Hok eq_refl) as (W' & _ & A & _ & C & _). exact (fr_same u u' W W' A C).
Qed.

Lemma set_username_fr u un u' st : wfh u -> set_username dbg u un = Some (u', st) -> FR u u'.
Proof.
  intros [W HT] H. destruct (set_username_ok dbg u un W HT) as (u'' & st' & E' & Herr & Hok).
  rewrite H in E'. inversion E'; subst u'' st'.
  destruct st; [|rewrite Herr by discriminate; apply fr_refl ..].
  destruct (Hok eq_refl) as (W' & _ & A & _ & C & _). exact (fr_same u u' W W' A C).
Qed.

Lemma set_scheme_fr u s u' st : wfh u -> set_scheme dbg u s = Some (u', st) -> FR u u'.
Proof.
  intros [W HT] H. destruct (set_scheme_ok dbg u s W HT) as (u'' & st' & E' & Herr & Hok).
  rewrite H in E'. inversion E'; subst u'' st'.
  destruct st; [|rewrite Herr by discriminate; apply fr_refl ..].
  destruct (Hok eq_refl) as (new & rem & Eps & W' & _ & Esch & _ & _ & Ehs & _).
  destruct (set_scheme_special dbg u s u' H) as [->|(ns & rem' & ost & Eps' & Eost & Hdir)]; [apply fr_refl|].
  unfold input_new_no_trim in Eps'. rewrite Eps in Eps'. inversion Eps'; subst ns rem'.
  split; [|left; exact Ehs]. intros Hs'.
  rewrite <- (u_scheme_type_spb u ost W Eost). apply Hdir.
  rewrite (scheme_b u' W') in Esch. injection Esch as E1. unfold spb in Hs'. rewrite E1 in Hs'. exact Hs'.
Qed.

(* ---------- host ---------- *)
Lemma set_host_none_fr u u' st : wf_b u = true ->
  (has_host u = true -> path_empty_at_end u = false /\ path_starts_with_2slash u = false) ->
  set_host dbg hp hpo hd u None = Some (u', st) -> FR u u'.
Proof.
  intros W G H. destruct (set_host_none_ok dbg hp hpo hd u u' st W H) as (Herr & Hno & Hok).
  destruct st; [|rewrite Herr by discriminate; apply fr_refl ..].
  destruct (has_host u) eqn:Hh; [|rewrite (Hno eq_refl eq_refl); apply fr_refl].
  destruct (G eq_refl) as [G1 G2].
  destruct (Hok eq_refl eq_refl G1 G2) as (W' & _ & Sch & _ & _ & _ & Hs & _).
  split; [rewrite (spb_same u u' W W' Sch); tauto | right; left; exact Hs].
Qed.

Lemma host_set_post_fr u u' h : wf_b u = true -> host_set_post dbg hd u u' h ->
  h = HDomain [] \/ ip_arg h \/ origin_st (spb u) h -> FR u u'.
Proof.
  intros W (W' & _ & Sch & _ & _ & _ & _ & Hs & _) Ho. exact (fr_new_host u u' h W W' Sch Hs Ho).
Qed.

Lemma origin3_disp_ok h sp : h = HDomain [] \/ origin_st sp h -> host_disp_ok hd h.
Proof.
  intros [->|Ho]; apply (origin_disp_ok hp hpo hd HW); [left; reflexivity | exact (origin_st_origin sp h Ho)].
Qed.

(* set_host_internal u h None for the empty host or a host of the scheme class *)
Lemma shi_fr u h u' : wf_b u = true -> h = HDomain [] \/ origin_st (spb u) h ->
  byte_eqb (ser u) (scheme_end u + 1) 47 = true ->
  (has_authority_b u = false -> path_start u = scheme_end u + 1) ->
  (has_authority_b u = true -> hosti u' = HI_None -> port u = None) ->
  set_host_internal dbg hd u h None = Some u' -> FR u u'.
Proof.
  intros W Ho Hsl X2 X1 E. pose proof (set_host_internal_hosti dbg hd u h None u' E) as Hi.
  apply (host_set_post_fr u u' h W); [|destruct Ho as [Ho|Ho]; [left; exact Ho | right; right; exact Ho]].
  apply (set_host_internal_post dbg hd u h u' W (origin3_disp_ok h _ Ho)); [|exact X2 | exact Hsl | exact E].
  intros Ha Hn. apply X1; [exact Ha | rewrite Hi; exact Hn].
Qed.

Lemma set_host_some_fr u x u' st : wf_b u = true ->
  (has_authority_b u = false -> path_start u = scheme_end u + 1) ->
  (has_authority_b u = true -> hosti u' = HI_None -> port u = None) ->
  set_host dbg hp hpo hd u (Some x) = Some (u', st) -> FR u u'.
Proof.
  intros W X2 X1 H.
  destruct st; [|rewrite (set_host_atomic dbg hp hpo hd u (Some x) u' _ H) by discriminate; apply fr_refl ..].
  unfold set_host in H. rewrite (cannot_be_a_base_eval u W) in H. cbn [bindo] in H.
  destruct (byte_eqb (ser u) (scheme_end u + 1) 47) eqn:Hsl; cbn [negb] in H; [|discriminate].
  rewrite (u_scheme_type_eval u W) in H. cbn [bindo] in H.
  match type of H with (if ?c then _ else _) = _ => destruct c end; [discriminate|].
  match type of H with (match ?sub with Some _ => _ | None => _ end) = _ => destruct sub as [hsub|] end; [|discriminate].
  match type of H with (match ?r with Ok _ => _ | Err _ => _ end) = _ => destruct r as [host|e] eqn:Er end; [|discriminate].
  assert (origin_st (spb u) host) as Ho.
  { unfold origin_st, spb, b_scheme.
    destruct (st_is_special (scheme_type_of (nfirstn (scheme_end u) (ser u)))); eexists; exact Er. }
  destruct (set_host_internal dbg hd u host None) as [u0|] eqn:E; cbn [bindo] in H; [|discriminate].
  inversion H; subst u0. exact (shi_fr u host u' W (or_intror Ho) Hsl X2 X1 E).
Qed.

Lemma set_ip_host_fr u h u' st : IpDisp hd -> wf_b u = true -> ip_arg h ->
  (has_authority_b u = false -> path_start u = scheme_end u + 1) ->
  set_ip_host dbg hd u h = Some (u', st) -> FR u u'.
Proof.
  intros HI W Hv X2 H. destruct (set_ip_host_ok dbg hd u h u' st W (HI h Hv) X2 H) as (Herr & Hok).
  destruct st; [|rewrite Herr by discriminate; apply fr_refl ..].
  apply (host_set_post_fr u u' h W); [|right; left; exact Hv].
  apply (Hok eq_refl). intros _ Hn. exfalso. exact (ip_arg_not_none h Hv Hn).
Qed.

(* the host parser of the quirks setters *)
Lemma parse_host_origin_st st l h rem : parse_host hp hpo st l = POk (h, rem) ->
  h = HDomain [] \/ origin_st (st_is_special st) h.
Proof.
  unfold parse_host. destruct (st_is_file st) eqn:Ef.
  - assert (st_is_special st = true) as -> by (destruct st; try discriminate Ef; reflexivity).
    unfold get_file_host. destruct (file_host l) as [t rm]. intros H. pb H hst Hh. apply of_result_ok in Hh.
    inversion H; subst. destruct hst as [d|a|p]; try (right; exists t; exact Hh).
    destruct (list_eqb d s_localhost); [left; reflexivity | right; exists t; exact Hh].
  - destruct (host_scan (st_is_special st) false [] l) as [t rm].
    destruct (scheme_type_eqb st STSpecialNotFile && match t with [] => true | _ => false end); [discriminate|].
    destruct (st_is_special st); cbn [negb]; intros H; pb H hst Hh; apply of_result_ok in Hh; inversion H; subst;
      right; exists t; exact Hh.
Qed.

Lemma scheme_type_spb u sc : wf_b u = true -> scheme u = Some sc -> st_is_special (scheme_type_of sc) = spb u.
Proof. intros W E. rewrite (scheme_b u W) in E. inversion E. reflexivity. Qed.

Lemma host_port_post_fr u u' h np : wf_b u = true -> host_port_post dbg hd u u' h np ->
  h = HDomain [] \/ ip_arg h \/ origin_st (spb u) h -> FR u u'.
Proof.
  intros W (W' & _ & Sch & _ & _ & _ & _ & Hs & _) Ho. exact (fr_new_host u u' h W W' Sch Hs Ho).
Qed.

Lemma q_set_host_fr u v u' st : wf_b u = true ->
  (has_authority_b u = false -> path_start u = scheme_end u + 1) ->
  (has_authority_b u = true -> hosti u' = HI_None -> port u = None) ->
  q_set_host dbg hp hpo hd u v = Some (u', st) -> FR u u'.
Proof.
  intros W X2 X1 H. unfold q_set_host in H.
  rewrite (cannot_be_a_base_eval u W) in H. cbn [bindo] in H.
  destruct (byte_eqb (ser u) (scheme_end u + 1) 47) eqn:Hsl; cbn [negb] in H; [|inversion H; subst; apply fr_refl].
  ob H sc Hsc. cbv zeta in H.
  destruct (scheme_type_eqb (scheme_type_of sc) STFile && match v with [] => true | _ => false end).
  { ob H u1 Hu1. inversion H; subst. exact (shi_fr u (HDomain []) u' W (or_introl eq_refl) Hsl X2 X1 Hu1). }
  ob H r Hr. destruct r as [[h remaining]|]; [|inversion H; subst; apply fr_refl].
  apply pres_ok_some in Hr. pose proof (parse_host_origin_st _ _ _ _ Hr) as Ho.
  rewrite (scheme_type_spb u sc W Hsc) in Ho.
  ob H opp Hop. ob H un Hun.
  match type of H with (if ?c then _ else _) = _ => destruct c eqn:Ec end; [inversion H; subst; apply fr_refl|].
  ob H u1 Hu1. inversion H; subst u1 st. clear H.
  destruct opp as [np|]; [|exact (shi_fr u h u' W Ho Hsl X2 X1 Hu1)].
  apply (host_port_post_fr u u' h np W); [|destruct Ho as [Ho|Ho]; [left; exact Ho | right; right; exact Ho]].
  apply (set_host_internal_port_post dbg hd u h np u' W (origin3_disp_ok h _ Ho)); try assumption.
  - destruct (inp_split_prefix_char 58 remaining) as [rem|]; [|inversion Hop; subst; exact I].
    destruct (inp_is_empty rem); [inversion Hop; subst; exact I|].
    destruct (parse_port CSetter (default_port sc) rem) as [[p r0]|e|] eqn:Epp; inversion Hop; subst; try exact I.
    exact (parse_port_le _ _ _ _ _ Epp).
  - intros Hn. apply hi_of_host_none in Hn. subst h. cbn [andb] in Ec.
    apply orb_false_iff in Ec. destruct Ec as [Ec E3]. apply orb_false_iff in Ec. destruct Ec as [_ E2].
    split; [destruct np; [discriminate | reflexivity]|]. intros _. destruct (port u); [discriminate | reflexivity].
Qed.

Lemma q_set_hostname_fr u v u' st : wf_b u = true ->
  (has_authority_b u = false -> path_start u = scheme_end u + 1) ->
  (has_authority_b u = true -> hosti u' = HI_None -> port u = None) ->
  q_set_hostname dbg hp hpo hd u v = Some (u', st) -> FR u u'.
Proof.
  intros W X2 X1 H. unfold q_set_hostname in H.
  rewrite (cannot_be_a_base_eval u W) in H. cbn [bindo] in H.
  destruct (byte_eqb (ser u) (scheme_end u + 1) 47) eqn:Hsl; cbn [negb] in H; [|inversion H; subst; apply fr_refl].
  ob H sc Hsc. cbv zeta in H.
  destruct (scheme_type_eqb (scheme_type_of sc) STFile && match v with [] => true | _ => false end).
  { ob H u1 Hu1. inversion H; subst. exact (shi_fr u (HDomain []) u' W (or_introl eq_refl) Hsl X2 X1 Hu1). }
  ob H r Hr. destruct r as [[h remaining]|]; [|inversion H; subst; apply fr_refl].
  apply pres_ok_some in Hr. pose proof (parse_host_origin_st _ _ _ _ Hr) as Ho.
  rewrite (scheme_type_spb u sc W Hsc) in Ho.
  ob H reject Hrej. destruct reject; [inversion H; subst; apply fr_refl|].
  ob H u1 Hu1. inversion H; subst. exact (shi_fr u h u' W Ho Hsl X2 X1 Hu1).
Qed.

(* ---------- every gated step ---------- *)
Theorem frame_step3 u o u' : IpDisp hd -> CInv dbg u -> step_gate3 hp hpo hd u o u' ->
  apply_op dbg hp hpo hd u o = Some u' -> FR u u'.
Proof.
  intros HI K G H. pose proof K as [[W HT] _]. pose proof (conj W HT : wfh u) as WH.
  destruct o; cbn [apply_op step_gate3 step_gate2 step_gate] in H, G;
    try (apply drop_status_some in H; destruct H as [st H]).
  - exact (set_fragment_fr u f u' W H).
  - exact (set_query_fr u q u' W G H).
  - destruct G as (G1 & G2 & G3 & G4). exact (set_path_fr u p u' K G1 G2 G3 G4 H).
  - exact (set_port_fr u p u' st WH G H).
  - destruct h as [x|].
    + destruct G as [G1 G2]. exact (set_host_some_fr u x u' st W G1 G2 H).
    + exact (set_host_none_fr u u' st W G H).
  - destruct G as [G1 G2]. exact (set_ip_host_fr u h u' st HI W G1 G2 H).
  - exact (set_password_fr u p u' st WH H).
  - exact (set_username_fr u s u' st WH H).
  - exact (set_scheme_fr u s u' st WH H).
  - destruct G as [G1 G2]. exact (session_fr u ops u' st K G1 G2 H).
  - unfold q_set_protocol in H. cbv zeta in H. exact (set_scheme_fr u _ u' st WH H).
  - exact (set_username_fr u v u' st WH H).
  - unfold q_set_password in H. exact (set_password_fr u _ u' st WH H).
  - destruct G as [G1 G2]. exact (q_set_host_fr u v u' st W G1 G2 H).
  - destruct G as [G1 G2]. exact (q_set_hostname_fr u v u' st W G1 G2 H).
  - exact (q_set_port_fr u v u' st WH H).
  - destruct G as (G1 & G2 & G3). exact (q_set_pathname_fr u v u' K G1 G2 G3 H).
  - unfold q_set_search in H. eapply (set_query_fr u); [exact W | | exact H].
    destruct v as [|c r]; [exact I|]. destruct (N.eq_dec c 63) as [->|Hc].
    + exact (usv_tail _ _ G).
    + unfold str_arg_ok. destruct c as [|q]; [exact G|]. do 6 (destruct q as [q|q|]; try exact G). contradiction.
  - unfold q_set_hash in H. exact (set_fragment_fr u _ u' W H).
Qed.

End Frames.
