(* Proofs/C01_Override.v - a UTF-8 encoding override does not change the parse; the input
   preprocessing of the parser is "strip leading/trailing C0-or-space, then ignore tab/LF/CR". *)
From RU Require Import Base.Prelude Base.Utf8 Model.AsciiSet Gen.Tables Model.PercentEncoding
  Model.HostT Model.UrlRecord Model.Parser.

Section Override.
Variable dbg : bool.
Variable host_parse : list N -> result host.
Variable host_parse_opaque : list N -> result host.
Variable host_display : host -> list N.

Notation U8 := (Some utf8_encode).
Notation NoO := (@None (list N -> list N)).

Lemma query_enc_utf8 scheme : query_enc U8 scheme = query_enc NoO scheme.
Proof. unfold query_enc. destruct (_ || _); reflexivity. Qed.

Lemma parse_query_utf8 ctx st se ser l :
  parse_query U8 ctx st se ser l = parse_query NoO ctx st se ser l.
Proof. unfold parse_query. rewrite query_enc_utf8. reflexivity. Qed.

Lemma parse_query_and_fragment_utf8 ctx st se ser l :
  parse_query_and_fragment U8 ctx st se ser l = parse_query_and_fragment NoO ctx st se ser l.
Proof.
  unfold parse_query_and_fragment. destruct (inp_next l) as [[c r]|]; [|reflexivity].
  destruct (c =? 35); [reflexivity|]. destruct (c =? 63); [|reflexivity].
  rewrite parse_query_utf8. reflexivity.
Qed.

Lemma with_query_and_fragment_utf8 ctx st se ue hs he hi port ps ser rem :
  with_query_and_fragment U8 ctx st se ue hs he hi port ps ser rem
  = with_query_and_fragment NoO ctx st se ue hs he hi port ps ser rem.
Proof.
  unfold with_query_and_fragment.
  destruct (if ps =? se + 1 then _ else _) as [[s1 p1]| |]; cbn [pbind]; try reflexivity.
  rewrite parse_query_and_fragment_utf8. reflexivity.
Qed.

Lemma after_double_slash_utf8 ctx st se ser l :
  after_double_slash dbg host_parse host_parse_opaque host_display U8 ctx st se ser l
  = after_double_slash dbg host_parse host_parse_opaque host_display NoO ctx st se ser l.
Proof.
  unfold after_double_slash.
  destruct (parse_userinfo st (ser ++ [47; 47]) l) as [[[s1 ue] rem]| |]; cbn [pbind]; try reflexivity.
  destruct (to_u32 (nlen s1)) as [hs| |]; cbn [pbind]; try reflexivity.
  destruct (parse_host_and_port _ _ _ _ _ _ _ _) as [[[[[s2 he] hi] port] rem2]| |]; cbn [pbind]; try reflexivity.
  destruct (hi_eqb hi HI_None && _); [reflexivity|].
  destruct (to_u32 (nlen s2)) as [ps| |]; cbn [pbind]; try reflexivity.
  destruct (parse_path_start dbg ctx st true s2 rem2) as [[[s3 hh] rem3]| |]; cbn [pbind]; try reflexivity.
  apply with_query_and_fragment_utf8.
Qed.

Lemma parse_non_special_utf8 ctx st se ser l :
  parse_non_special dbg host_parse host_parse_opaque host_display U8 ctx st se ser l
  = parse_non_special dbg host_parse host_parse_opaque host_display NoO ctx st se ser l.
Proof.
  unfold parse_non_special. destruct (inp_split_prefix_str s_ss l); [apply after_double_slash_utf8|].
  destruct (to_u32 (nlen ser)) as [ps| |]; cbn [pbind]; try reflexivity.
  destruct (match inp_split_prefix_char 47 l with Some _ => _ | None => _ end) as [[s1 rem]| |]; cbn [pbind]; try reflexivity.
  apply with_query_and_fragment_utf8.
Qed.

Ltac same_head :=
  match goal with
  | |- pbind ?X _ = pbind ?X _ =>
      let a := fresh "a" in
      destruct X as [a| |]; cbn [pbind]; try reflexivity;
      repeat match goal with p : (_ * _)%type |- _ => destruct p end
  end.

Lemma parse_relative_utf8 ctx st base l :
  parse_relative dbg host_parse host_parse_opaque host_display U8 ctx st base l
  = parse_relative dbg host_parse host_parse_opaque host_display NoO ctx st base l.
Proof.
  unfold parse_relative. destruct (inp_split_first l) as [[c|] after]; [|reflexivity].
  destruct (c =? 63).
  { rewrite parse_query_and_fragment_utf8. reflexivity. }
  destruct (c =? 35); [reflexivity|].
  destruct ((c =? 47) || _).
  { destruct (inp_count_matching _ l) as [slashes remaining].
    destruct (2 <=? slashes).
    - same_head.
      destruct (negb (st_is_special st)).
      + destruct (inp_split_prefix_str s_ss l); apply after_double_slash_utf8.
      + apply after_double_slash_utf8.
    - same_head. apply with_query_and_fragment_utf8. }
  same_head. same_head. apply with_query_and_fragment_utf8.
Qed.

Lemma parse_file_utf8 ctx st base l :
  parse_file dbg host_parse host_display U8 ctx st base l
  = parse_file dbg host_parse host_display NoO ctx st base l.
Proof.
  unfold parse_file. destruct (inp_split_first l) as [first after_first].
  destruct (match first with Some c => is_slash_or_bslash c | None => false end).
  - destruct (inp_split_first after_first) as [next after_next].
    destruct (match next with Some c => is_slash_or_bslash c | None => false end).
    + destruct (parse_file_host host_parse host_display s_file_css after_next) as [[[[s1 flag] hi] rem]| |]; cbn [pbind]; try reflexivity.
      destruct (to_u32 (nlen s1)) as [he| |]; cbn [pbind]; try reflexivity.
      destruct (if flag then _ else _) as [[[s2 hh] rem2]| |]; cbn [pbind]; try reflexivity.
      destruct (if negb hh then _ else _) as [[s3 he3] hi3].
      rewrite parse_query_and_fragment_utf8. reflexivity.
    + destruct (if negb (starts_with_wdl_segment after_first) then _ else _) as [[s1 he] hi].
      destruct (parse_path dbg ctx STFile false he s1 l) as [[[s2 hh] rem]| |]; cbn [pbind]; try reflexivity.
      rewrite parse_query_and_fragment_utf8. reflexivity.
  - destruct base as [b|].
    + destruct first as [c|]; [|reflexivity].
      destruct (c =? 63); [rewrite parse_query_and_fragment_utf8; reflexivity|].
      destruct (c =? 35); [reflexivity|].
      destruct (negb (starts_with_wdl_segment l)).
      * destruct (shorten_path STFile _ _) as [s1| |]; cbn [pbind]; try reflexivity.
        destruct (parse_path dbg ctx STFile true _ s1 l) as [[[s2 hh] rem]| |]; cbn [pbind]; try reflexivity.
        apply with_query_and_fragment_utf8.
      * destruct (parse_path dbg ctx STFile false 7 _ l) as [[[s2 hh] rem]| |]; cbn [pbind]; try reflexivity.
        rewrite parse_query_and_fragment_utf8. reflexivity.
    + destruct (parse_path dbg ctx STFile false 7 _ l) as [[[s2 hh] rem]| |]; cbn [pbind]; try reflexivity.
      rewrite parse_query_and_fragment_utf8. reflexivity.
Qed.

Theorem parse_url_utf8_override base input :
  parse_url dbg host_parse host_parse_opaque host_display U8 base input
  = parse_url dbg host_parse host_parse_opaque host_display NoO base input.
Proof.
  unfold parse_url. destruct (parse_scheme CUrlParser _) as [[scheme remaining]|].
  - unfold parse_with_scheme. destruct (to_u32 (nlen scheme)) as [se| |]; cbn [pbind]; try reflexivity.
    destruct (scheme_type_of scheme).
    + apply parse_file_utf8.
    + destruct (inp_count_matching is_slash_or_bslash remaining) as [slashes rem].
      destruct base as [b|]; [|apply after_double_slash_utf8].
      destruct ((slashes <? 2) && _); [|apply after_double_slash_utf8].
      destruct (if dbg then _ else _) as [u_| |]; cbn [pbind]; try reflexivity.
      apply parse_relative_utf8.
    + apply parse_non_special_utf8.
  - destruct base as [b|]; [|reflexivity].
    destruct (inp_starts_with_char 35 _); [reflexivity|].
    destruct (cannot_be_a_base b) as [[|]|]; try reflexivity.
    destruct (st_is_file _); [apply parse_file_utf8 | apply parse_relative_utf8].
Qed.

End Override.

(* ---------- input preprocessing ---------- *)
Fixpoint inp_collect (fuel : nat) (l : list N) : list N :=
  match fuel with
  | O => []
  | S f => match inp_next l with
           | Some (c, r) => c :: inp_collect f r
           | None => []
           end
  end.

Lemma drop_while_tnl_filter l :
  filter (fun c => negb (is_tnl c)) (drop_while is_tnl l) = filter (fun c => negb (is_tnl c)) l.
Proof.
  induction l as [|c r IH]; [reflexivity|]. cbn [drop_while filter].
  destruct (is_tnl c) eqn:E; cbn [negb]; [exact IH|]. cbn [filter]. rewrite E. reflexivity.
Qed.

Lemma drop_while_length f l : (length (drop_while f l) <= length l)%nat.
Proof. induction l as [|c r IH]; [cbn; lia|]. cbn [drop_while]. destruct (f c); cbn [length]; lia. Qed.

(* iterating Input::next yields exactly the input without tab / LF / CR *)
Theorem input_iteration_is_filter : forall n l, (length l <= n)%nat ->
  inp_collect n l = filter (fun c => negb (is_tnl c)) l.
Proof.
  induction n as [|n IH]; intros l Hlen.
  - destruct l; [reflexivity | cbn in Hlen; lia].
  - cbn [inp_collect]. unfold inp_next. rewrite <- (drop_while_tnl_filter l).
    pose proof (drop_while_length is_tnl l) as Hd.
    destruct (drop_while is_tnl l) as [|c r] eqn:E; [reflexivity|].
    assert (is_tnl c = false) as Hc.
    { clear - E. induction l as [|x l IHl]; [discriminate|]. cbn [drop_while] in E.
      destruct (is_tnl x) eqn:Ex; [apply IHl; exact E | inversion E; subst; exact Ex]. }
    cbn [filter]. rewrite Hc. cbn [negb]. f_equal. apply IH. cbn [length] in Hd. lia.
Qed.

(* trimming: what remains neither starts nor ends with a C0 control or space *)
Lemma drop_while_head f l : match drop_while f l with c :: _ => f c = false | [] => True end.
Proof. induction l as [|c r IH]; [exact I|]. cbn [drop_while]. destruct (f c) eqn:E; [exact IH | exact E]. Qed.

Theorem trim_c0_ends l :
  match input_new_trim_c0 l with
  | [] => True
  | c :: _ => is_c0_or_space c = false
  end
  /\ match rev (input_new_trim_c0 l) with
     | [] => True
     | c :: _ => is_c0_or_space c = false
     end.
Proof.
  unfold input_new_trim_c0, trim_matches. split.
  - set (m := drop_while is_c0_or_space l).
    pose proof (drop_while_head is_c0_or_space l) as Hh. fold m in Hh.
    pose proof (drop_while_head is_c0_or_space (rev m)) as Ht.
    destruct (drop_while is_c0_or_space (rev m)) as [|z t] eqn:E; [exact I|].
    (* rev (z :: t) = rev t ++ [z]; its head is the head of m unless t is empty *)
    assert (exists p, rev m = p ++ z :: t) as [p Hp].
    { clear - E. generalize (rev m) E. intros k. induction k as [|x k IHk]; intros E0; [discriminate|].
      cbn [drop_while] in E0. destruct (is_c0_or_space x).
      - destruct (IHk E0) as [p Hp]. exists (x :: p). cbn. f_equal. exact Hp.
      - exists []. cbn. exact E0. }
    assert (m = rev t ++ z :: rev p) as Hm.
    { rewrite <- (rev_involutive m), Hp, rev_app_distr. cbn [rev]. rewrite <- app_assoc. reflexivity. }
    cbn [rev]. destruct (rev t) as [|y t'] eqn:Et.
    + cbn [app]. exact Ht.
    + cbn [app]. rewrite Hm in Hh. cbn [app] in Hh. exact Hh.
  - rewrite rev_involutive. apply drop_while_head.
Qed.
