(* Proofs/C20_Dir.v - joining a file name onto from_directory_path(p) and converting back. *)
From RU Require Import Base.Prelude Base.Utf8 Model.AsciiSet Gen.Tables Model.PercentEncoding
  Model.HostT Model.UrlRecord Model.Parser Model.FilePath
  Proofs.C14_Set Proofs.C14_Enc Proofs.C14_Views Proofs.ListN Proofs.C20_Path Proofs.C20_RT Proofs.C20_Join.

(* ---------- the directory path satisfies what the join needs ---------- *)
Lemma join_slash_then_slash l : exists Y, join_slash l ++ [47] = 47 :: Y.
Proof. destruct l as [|k l]; [exists []; reflexivity | eexists; rewrite join_slash_cons; reflexivity]. Qed.

Lemma not_wdl_piece_slash e Y : e <> [] -> is_normalized_wdl (e ++ 47 :: Y) = false.
Proof.
  intros He. destruct e as [|a [|b e]]; [congruence| |].
  - cbn [app]. unfold is_normalized_wdl. change (47 =? 58) with false. apply andb_false_r.
  - unfold is_normalized_wdl, is_wdl. cbn [app length]. rewrite app_length. cbn [length].
    rewrite Nat.add_succ_r. reflexivity.
Qed.

Lemma dir_path_of_ok ks : Forall bytes ks -> Forall (fun k => keep_piece k = true) ks ->
  exists X T, dir_path_ok (dir_path_of ks) X T.
Proof.
  intros Hb Hk. unfold dir_path_of. destruct ks as [|k ks].
  - exists [], []. constructor; try reflexivity; exact I.
  - inversion Hb as [|? ? Hbk Hbks]; subst. inversion Hk as [|? ? Hkk Hkks]; subst.
    destruct (join_slash_then_slash (map enc ks)) as [Y HY].
    exists (join_slash (map enc (k :: ks))), (enc k ++ 47 :: Y).
    pose proof (enc_nonempty k (keep_piece_nonempty k Hkk)) as Hne.
    constructor.
    + cbn [map]. rewrite join_slash_cons. cbn [app]. rewrite <- app_assoc, HY. reflexivity.
    + reflexivity.
    + apply not_wdl_piece_slash. exact Hne.
    + destruct (enc k) as [|a e] eqn:E; [congruence|]. cbn [app].
      intros ->. apply (enc_no_slash k Hbk). rewrite E. left. reflexivity.
Qed.

(* ---------- the parser predicates on strings without the special characters ---------- *)
Lemma parse_scheme_no_colon f : ~ In 58 f -> parse_scheme CUrlParser f = None.
Proof.
  intros H. unfold parse_scheme. destruct (inp_starts_with_pred is_alpha f); [|reflexivity].
  generalize (@nil N). induction f as [|c f IH]; intros acc; [reflexivity|].
  cbn [parse_scheme_loop].
  assert (IH' : forall a, parse_scheme_loop CUrlParser a f = None) by (apply IH; intros Hi; apply H; right; exact Hi).
  destruct (is_tnl c); [apply IH'|].
  destruct (is_lower c || is_digit c || (c =? 43) || (c =? 45) || (c =? 46)); [apply IH'|].
  destruct (is_upper c); [apply IH'|].
  replace (c =? 58) with false; [reflexivity|].
  symmetry. apply N.eqb_neq. intros ->. apply H. left. reflexivity.
Qed.

Lemma starts_with_wdl_no f : ~ In 58 f -> ~ In 124 f -> starts_with_wdl f = false.
Proof.
  intros H1 H2. destruct f as [|a [|b r]]; try reflexivity. unfold starts_with_wdl.
  replace (b =? 58) with false by (symmetry; apply N.eqb_neq; intros ->; apply H1; right; left; reflexivity).
  replace (b =? 124) with false by (symmetry; apply N.eqb_neq; intros ->; apply H2; right; left; reflexivity).
  cbn [orb]. rewrite andb_false_r. reflexivity.
Qed.

Lemma is_wdl_no f : ~ In 58 f -> ~ In 124 f -> is_wdl f = false.
Proof. intros H1 H2. unfold is_wdl. rewrite starts_with_wdl_no by assumption. apply andb_false_r. Qed.

Lemma starts_with_wdl_segment_no f : Forall (fun c => is_tnl c = false) f -> ~ In 58 f -> ~ In 124 f ->
  starts_with_wdl_segment f = false.
Proof.
  intros Ht H1 H2. unfold starts_with_wdl_segment.
  destruct f as [|a [|b r]]; [reflexivity| |].
  - inversion Ht; subst. rewrite inp_next_ok by assumption. reflexivity.
  - inversion Ht as [|? ? Ha Ht']; subst. inversion Ht' as [|? ? Hb Ht'']; subst.
    rewrite inp_next_ok by assumption. rewrite inp_next_ok by assumption.
    replace (b =? 58) with false by (symmetry; apply N.eqb_neq; intros ->; apply H1; right; left; reflexivity).
    replace (b =? 124) with false by (symmetry; apply N.eqb_neq; intros ->; apply H2; right; left; reflexivity).
    cbn [orb]. rewrite andb_false_r. reflexivity.
Qed.

Lemma is_pct2e_first a b c : is_pct2e a b c = true -> a = 37.
Proof. unfold is_pct2e. lia. Qed.

(* matches whose branches coincide (left over by the compilation of overlapping patterns) *)
Ltac dmatch := repeat match goal with
  | |- context [match ?x with N0 => _ | Npos _ => _ end] => is_var x; destruct x
  | |- context [match ?x with xI _ => _ | xO _ => _ | xH => _ end] => is_var x; destruct x
  end.

Lemma is_single_dot_inv s : is_single_dot s = true -> s = [46] \/ In 37 s.
Proof.
  destruct s as [|a [|b [|c [|d r]]]]; cbn [is_single_dot]; try discriminate.
  - m46 a; [left; reflexivity | discriminate].
  - m46 a; dmatch; discriminate.
  - m46 a; dmatch; intros H; apply is_pct2e_first in H; try discriminate H; right; left; auto.
  - m46 a; dmatch; discriminate.
Qed.

Lemma is_double_dot_inv s : is_double_dot s = true -> s = [46; 46] \/ In 37 s.
Proof.
  destruct s as [|a [|b [|c [|d [|e [|f [|g r]]]]]]]; cbn [is_double_dot]; try discriminate.
  - m46 a; dmatch; discriminate.
  - m46 a; [|dmatch; discriminate]. m46 b; [left; reflexivity | dmatch; discriminate].
  - m46 a; [|dmatch; discriminate]. m46 b; dmatch; discriminate.
  - m46 a.
    + dmatch; intros H; apply is_pct2e_first in H; try discriminate H; right; right; left; auto.
    + m46 d; [|dmatch; discriminate]. dmatch. intros H. apply is_pct2e_first in H. right. left. auto.
  - m46 a; [|dmatch; discriminate]. m46 b; dmatch; discriminate.
  - m46 a.
    + dmatch; intros H; apply andb_true_iff in H; destruct H as [H _]; apply is_pct2e_first in H; discriminate H.
    + dmatch; intros H; apply andb_true_iff in H; destruct H as [H _]; apply is_pct2e_first in H; right; left; auto.
  - m46 a; [|dmatch; discriminate]. m46 b; dmatch; discriminate.
Qed.

Lemma utf8_encode_ascii f : Forall (fun b => b < 128) f -> utf8_encode f = f.
Proof.
  induction f as [|b f IH]; intros H; [reflexivity|]. inversion H as [|? ? Hb Hf]; subst.
  unfold utf8_encode in *. cbn [flat_map]. rewrite (IH Hf). unfold utf8_encode1.
  replace (b <? 128) with true by lia. reflexivity.
Qed.

(* a reference over characters that no stage of the parser touches *)
Lemma ref_ok_of_chars r :
  r <> [] ->
  Forall (fun c => ref_char_ok c = true) r ->
  Forall (fun c => c < 128) r ->
  Forall (fun c => should_encode T_PATH c = false) r ->
  ~ In 58 r -> ~ In 124 r -> ~ In 37 r ->
  r <> [46] -> r <> [46; 46] ->
  ref_ok r.
Proof.
  intros Hne Hch Hasc Hpath H58 H124 H37 Hd Hdd.
  constructor.
  - exact Hne.
  - exact Hch.
  - rewrite utf8_encode_ascii by exact Hasc.
    rewrite pe_display_is_encode.
    + apply encode_id_iff. exact Hpath.
    + eapply Forall_impl; [|exact Hasc]. cbv beta. unfold is_byte. intros; lia.
  - apply parse_scheme_no_colon. exact H58.
  - apply starts_with_wdl_segment_no; [|assumption|assumption].
    eapply Forall_impl; [|exact Hch]. cbv beta. intros c Hc. apply ref_char_ok_inv in Hc. tauto.
  - destruct (is_double_dot r) eqn:E; [|reflexivity]. apply is_double_dot_inv in E. tauto.
  - destruct (is_single_dot r) eqn:E; [|reflexivity]. apply is_single_dot_inv in E. tauto.
  - apply is_wdl_no; assumption.
Qed.

(* ---------- simple names ---------- *)
Definition simple_byte_facts (b : N) : bool :=
  implb (simple_name_byte b)
    (ref_char_ok b && negb (should_encode T_PATH b) && negb (should_encode T_SPECIAL_PATH_SEGMENT b)
     && negb (b =? 37) && negb (b =? 58) && negb (b =? 124) && negb (b =? 47) && negb (b =? 0)).

Lemma simple_byte_sweep : all_below 128 simple_byte_facts = true.
Proof. vm_compute. reflexivity. Qed.

Lemma simple_byte_lt b : simple_name_byte b = true -> b < 128.
Proof. unfold simple_name_byte, is_alnum, is_alpha, is_upper, is_lower, is_digit. lia. Qed.

Lemma simple_byte_inv b : simple_name_byte b = true ->
  b < 128 /\ ref_char_ok b = true /\ should_encode T_PATH b = false
  /\ should_encode T_SPECIAL_PATH_SEGMENT b = false /\ b <> 37 /\ b <> 58 /\ b <> 124 /\ b <> 47 /\ b <> 0.
Proof.
  intros H. pose proof (simple_byte_lt b H) as Hlt.
  pose proof (all_below_spec 128 _ simple_byte_sweep b Hlt) as Hs.
  unfold simple_byte_facts in Hs. rewrite H in Hs. cbn [implb] in Hs.
  do 7 (apply andb_true_iff in Hs; let H2 := fresh "Hs" in destruct Hs as [Hs H2]).
  repeat split; try assumption; try lia.
  - destruct (should_encode T_PATH b); [discriminate | reflexivity].
  - destruct (should_encode T_SPECIAL_PATH_SEGMENT b); [discriminate | reflexivity].
Qed.

Lemma Forall_not_in (P : N -> Prop) x l : Forall P l -> ~ P x -> ~ In x l.
Proof. intros H Hn Hi. rewrite Forall_forall in H. exact (Hn (H x Hi)). Qed.

Lemma forallb_Forall {A} (f : A -> bool) l : forallb f l = true -> Forall (fun x => f x = true) l.
Proof. intros H. rewrite forallb_forall in H. apply Forall_forall. exact H. Qed.

Lemma negb_piece_spec f : simple_name f = true ->
  f <> [] /\ Forall (fun b => simple_name_byte b = true) f /\ f <> [46] /\ f <> [46; 46].
Proof.
  unfold simple_name. intros H.
  apply andb_true_iff in H. destruct H as [H H4]. apply andb_true_iff in H. destruct H as [H H3].
  apply andb_true_iff in H. destruct H as [H1 H2].
  repeat split.
  - intros ->. discriminate H1.
  - apply forallb_Forall. exact H2.
  - intros ->. discriminate H3.
  - intros ->. discriminate H4.
Qed.

Theorem simple_name_ref f : simple_name f = true ->
  name_reference f = f /\ ref_ok f /\ decode f = f
  /\ keep_piece f = true /\ ~ In 47 f /\ piece_is_dotdot f = false /\ bytes f.
Proof.
  intros H. destruct (negb_piece_spec f H) as [Hne [Hall [Hd Hdd]]].
  assert (Hinv : Forall (fun b => b < 128 /\ ref_char_ok b = true /\ should_encode T_PATH b = false
                 /\ should_encode T_SPECIAL_PATH_SEGMENT b = false /\ b <> 37 /\ b <> 58 /\ b <> 124 /\ b <> 47 /\ b <> 0) f).
  { eapply Forall_impl; [|exact Hall]. exact simple_byte_inv. }
  assert (Hb : bytes f).
  { eapply Forall_impl; [|exact Hinv]. cbv beta. unfold is_byte. intros a Ha. lia. }
  assert (Href : name_reference f = f).
  { unfold name_reference. rewrite pe_display_is_encode by exact Hb. apply encode_id_iff.
    eapply Forall_impl; [|exact Hinv]. cbv beta. tauto. }
  split; [exact Href|].
  split.
  - apply ref_ok_of_chars; try assumption.
    + eapply Forall_impl; [|exact Hinv]. cbv beta. tauto.
    + eapply Forall_impl; [|exact Hinv]. cbv beta. tauto.
    + eapply Forall_impl; [|exact Hinv]. cbv beta. tauto.
    + eapply Forall_not_in; [exact Hinv|]. cbv beta. intros Hx. destruct Hx as [_ [_ [_ [_ [_ [Hx _]]]]]]. congruence.
    + eapply Forall_not_in; [exact Hinv|]. cbv beta. intros Hx. destruct Hx as [_ [_ [_ [_ [_ [_ [Hx _]]]]]]]. congruence.
    + eapply Forall_not_in; [exact Hinv|]. cbv beta. intros Hx. destruct Hx as [_ [_ [_ [_ [Hx _]]]]]. congruence.
  - split.
    { rewrite <- Href at 1. unfold name_reference. rewrite pe_display_is_encode by exact Hb. apply decode_enc. exact Hb. }
    split.
    { unfold keep_piece. destruct f as [|a f']; [congruence|]. cbn [piece_is_empty negb andb].
      destruct (piece_is_dot (a :: f')) eqn:E; [|reflexivity]. apply piece_is_dot_spec in E. congruence. }
    split.
    { eapply Forall_not_in; [exact Hinv|]. cbv beta. intros Hx. destruct Hx as [_ [_ [_ [_ [_ [_ [_ [Hx _]]]]]]]]. congruence. }
    split; [|exact Hb].
    destruct (piece_is_dotdot f) eqn:E; [|reflexivity]. apply piece_is_dotdot_spec in E. congruence.
Qed.

(* ---------- the generic theorem: a reference r that decodes to the name f ---------- *)
Section Dir.
Variable dbg : bool.
Variable host_parse : list N -> result host.
Variable host_parse_opaque : list N -> result host.
Variable host_display : host -> list N.

Theorem dir_join_generic p r f :
  bytes p -> path_is_absolute p = true -> ref_ok r -> decode r = f ->
  keep_piece f = true -> ~ In 47 f -> piece_is_dotdot f = false ->
  exists d u q,
    from_directory_path p = FOk d
    /\ url_join dbg host_parse host_parse_opaque host_display d r = POk u
    /\ u = file_rec (dir_path_of (kept p) ++ r)
    /\ path_segments u = Some (Some (map enc (kept p) ++ [r]))
    /\ to_file_path dbg u = FOk q
    /\ path_components q = path_components p ++ [CNormal f].
Proof.
  intros Hb Ha Hr Hdec Hkf Hnf Hddf.
  pose proof (kept_bytes p Hb) as Hkb. pose proof (kept_nosep p) as Hkn. pose proof (kept_keep p) as Hkk.
  destruct (dir_path_of_ok (kept p) Hkb Hkk) as [X [T HP]].
  set (segs := map enc (kept p) ++ [r]).
  assert (Hpath : dir_path_of (kept p) ++ r = join_slash segs).
  { unfold dir_path_of, segs. rewrite join_slash_snoc. rewrite <- app_assoc. reflexivity. }
  assert (Hsne : segs <> []) by (unfold segs; intros E; apply app_eq_nil in E; destruct E; discriminate).
  assert (Hsns : Forall (fun k => ~ In 47 k) segs).
  { unfold segs. apply Forall_app. split; [apply Forall_enc_no_slash; exact Hkb|].
    constructor; [|constructor]. apply ref_no_slash. exact (ro_chars r Hr). }
  exists (file_rec (dir_path_of (kept p))), (file_rec (dir_path_of (kept p) ++ r)),
         (drive_letter_hack (join_slash (map decode segs))).
  split; [apply from_directory_path_spec; assumption|].
  split; [apply (url_join_plain dbg host_parse host_parse_opaque host_display _ X T); assumption|].
  split; [reflexivity|].
  rewrite Hpath.
  split; [apply path_segments_file_rec; assumption|].
  split; [apply to_file_path_file_rec; assumption|].
  destruct (hack_cases (join_slash (map decode segs))) as [t [Ht Hh]]. rewrite Hh.
  unfold segs. rewrite map_app. cbn [map]. rewrite map_decode_enc by exact Hkb. rewrite Hdec.
  rewrite components_join_slash.
  - rewrite (components_abs p Ha). rewrite map_app. cbn [map app].
    unfold component_of_piece at 2. rewrite Hddf. reflexivity.
  - exact Ht.
  - intros E. apply app_eq_nil in E. destruct E; discriminate.
  - apply Forall_app. split; [exact Hkn | constructor; [exact Hnf | constructor]].
  - apply Forall_app. split; [exact Hkk | constructor; [exact Hkf | constructor]].
Qed.

(* names over [A-Za-z0-9._-] other than "." and ".." *)
Theorem dir_join_simple p f :
  bytes p -> path_is_absolute p = true -> simple_name f = true ->
  exists d u q,
    from_directory_path p = FOk d
    /\ url_join dbg host_parse host_parse_opaque host_display d (name_reference f) = POk u
    /\ to_file_path dbg u = FOk q
    /\ path_components q = path_components p ++ [CNormal f]
    /\ dir_join_to_path dbg host_parse host_parse_opaque host_display p (name_reference f) = FOk q.
Proof.
  intros Hb Ha Hs.
  destruct (simple_name_ref f Hs) as [Href [Hok [Hdec [Hk [Hn [Hdd _]]]]]].
  destruct (dir_join_generic p f f Hb Ha Hok Hdec Hk Hn Hdd) as [d [u [q [H1 [H2 [_ [_ [H4 H5]]]]]]]].
  exists d, u, q. rewrite Href.
  split; [exact H1|]. split; [exact H2|]. split; [exact H4|]. split; [exact H5|].
  unfold dir_join_to_path. rewrite H1, H2. exact H4.
Qed.

End Dir.

(* the class on which the theorem is proved is inside the class of the general statement *)
Lemma scheme_like_tail_no_colon f : ~ In 58 f -> scheme_like_tail f = false.
Proof.
  induction f as [|c f IH]; intros H; [reflexivity|]. cbn [scheme_like_tail].
  replace (c =? 58) with false by (symmetry; apply N.eqb_neq; intros ->; apply H; left; reflexivity).
  destruct (is_alnum c || (c =? 43) || (c =? 45) || (c =? 46)); [|reflexivity].
  apply IH. intros Hi. apply H. right. exact Hi.
Qed.

Theorem simple_is_plain f : simple_name f = true -> plain_name f = true.
Proof.
  intros H. destruct (negb_piece_spec f H) as [Hne [Hall [Hd Hdd]]].
  assert (Hinv : Forall (fun b => b < 128 /\ ref_char_ok b = true /\ should_encode T_PATH b = false
                 /\ should_encode T_SPECIAL_PATH_SEGMENT b = false /\ b <> 37 /\ b <> 58 /\ b <> 124 /\ b <> 47 /\ b <> 0) f).
  { eapply Forall_impl; [|exact Hall]. exact simple_byte_inv. }
  assert (H58 : ~ In 58 f).
  { eapply Forall_not_in; [exact Hinv|]. cbv beta. intros Hx. destruct Hx as [_ [_ [_ [_ [_ [Hx _]]]]]]. congruence. }
  assert (H124 : ~ In 124 f).
  { eapply Forall_not_in; [exact Hinv|]. cbv beta. intros Hx. destruct Hx as [_ [_ [_ [_ [_ [_ [Hx _]]]]]]]. congruence. }
  unfold plain_name.
  assert (H1 : negb (piece_is_empty f) = true) by (destruct f; [congruence | reflexivity]).
  assert (H2 : forallb (fun b => negb (b =? 0) && negb (b =? 47) && (b <? 256)) f = true).
  { apply forallb_forall. intros b Hb. rewrite Forall_forall in Hinv. specialize (Hinv b Hb). lia. }
  assert (H3 : piece_is_dot f = false) by (destruct (piece_is_dot f) eqn:E; [apply piece_is_dot_spec in E; congruence | reflexivity]).
  assert (H4 : piece_is_dotdot f = false) by (destruct (piece_is_dotdot f) eqn:E; [apply piece_is_dotdot_spec in E; congruence | reflexivity]).
  assert (H5 : scheme_like f = false).
  { unfold scheme_like. destruct f as [|c f']; [reflexivity|].
    rewrite scheme_like_tail_no_colon; [apply andb_false_r|]. intros Hi. apply H58. right. exact Hi. }
  assert (H6 : drive_like f = false).
  { unfold drive_like. destruct f as [|a [|b [|c r]]]; try reflexivity.
    replace (b =? 58) with false by (symmetry; apply N.eqb_neq; intros ->; apply H58; right; left; reflexivity).
    replace (b =? 124) with false by (symmetry; apply N.eqb_neq; intros ->; apply H124; right; left; reflexivity).
    apply andb_false_r. }
  rewrite H1, H2, H3, H4, H5, H6. reflexivity.
Qed.
