(* Proofs/C08_Parsed.v - the class premises of C08_absolute_nonfile / C08_relative_parsed read off the RECORD:
   a URL parsed without a base carries the scheme the parser read (C17's parse_url_scheme), so "the input has a
   scheme other than file" is "the record's scheme is not file"; make_relative answers Some only for equal
   schemes, so for the inverse law it is enough that the BASE is not a file URL. *)
From RU Require Import Base.Prelude Base.Utf8 Base.Utf8Facts Model.AsciiSet Gen.Tables Model.PercentEncoding
  Model.HostT Model.UrlRecord Model.Parser Model.Setters Model.WF Model.MakeRelative Model.KnownC08
  Proofs.ListN Proofs.C02_Parts Proofs.C02_Reach Proofs.C02_AuthParts Proofs.C02_AuthMain Proofs.C17_Scheme
  Proofs.C08_RelCanon Proofs.C08_AbsNonfile Proofs.C08_RelAuth.

Lemma scheme_b_scheme u s : scheme u = Some s -> s = b_scheme u.
Proof.
  unfold scheme, u_slice_to, slice_to_o, b_scheme. destruct (scheme_end u <=? nlen (ser u)); [|discriminate].
  intros H. inversion H. reflexivity.
Qed.

(* make_relative answers Some(reference) only when the two scheme slices are equal *)
Lemma make_relative_scheme dbg b t r : make_relative dbg b t = Some (Some r) -> b_scheme b = b_scheme t.
Proof.
  intros H. unfold make_relative in H.
  destruct (cannot_be_a_base b) as [cb|]; cbn [bindo] in H; [|discriminate].
  destruct (if cb then Some true else cannot_be_a_base t) as [ct|]; cbn [bindo] in H; [|discriminate].
  destruct (cb || ct); [discriminate|].
  destruct (scheme b) as [sb|] eqn:Sb; cbn [bindo] in H; [|discriminate].
  destruct (scheme t) as [st|] eqn:St; cbn [bindo] in H; [|discriminate].
  destruct (list_eqb sb st) eqn:E; cbn [negb] in H; [|discriminate].
  apply list_eqb_spec in E. rewrite <- (scheme_b_scheme b sb Sb), <- (scheme_b_scheme t st St). exact E.
Qed.

Section Parsed.
Variables (dbg : bool) (hp hpo : list N -> result host) (hd : host -> list N).

(* the class of the input, read off the record *)
Lemma parsed_nonfile_input input u : parse_url dbg hp hpo hd None None input = POk u ->
  nonfile_input input = negb (st_is_file (scheme_type_of (b_scheme u))).
Proof.
  intros Hp. unfold nonfile_input.
  destruct (parse_scheme CUrlParser (input_new_trim_c0 input)) as [[sch rem]|] eqn:Hs.
  - pose proof (parse_url_scheme dbg hp hpo hd None input sch rem u Hs Hp) as E. unfold b_scheme. rewrite E. reflexivity.
  - unfold parse_url in Hp. cbv zeta in Hp. rewrite Hs in Hp. discriminate.
Qed.

Hypothesis HRT : HostRT hp hpo hd.
Hypothesis HAb : host_above hp hpo hd.

Theorem absolute_parsed_nonfile b input u : usv_list input ->
  parse_url dbg hp hpo hd None None input = POk u -> st_is_file (scheme_type_of (b_scheme u)) = false ->
  parse_url dbg hp hpo hd None (Some b) (utf8_lossy (ser u)) = POk u.
Proof.
  intros Hu Hp Hnf. apply (absolute_nonfile dbg hp hpo hd HRT b input u HAb Hu); [|exact Hp].
  rewrite (parsed_nonfile_input input u Hp), Hnf. reflexivity.
Qed.

Theorem relative_parsed_nonfile bi ti b t r : usv_list bi -> usv_list ti ->
  parse_url dbg hp hpo hd None None bi = POk b -> parse_url dbg hp hpo hd None None ti = POk t ->
  st_is_file (scheme_type_of (b_scheme b)) = false ->
  mr_ok b t = true -> make_relative dbg b t = Some (Some r) ->
  parse_url dbg hp hpo hd None (Some b) r = POk t.
Proof.
  intros Hub Hut Pb Pt Hnf Hok Hmr.
  apply (relative_parsed dbg hp hpo hd HRT bi ti b t r HAb Hub Hut); try assumption.
  - rewrite (parsed_nonfile_input bi b Pb), Hnf. reflexivity.
  - rewrite (parsed_nonfile_input ti t Pt), <- (make_relative_scheme dbg b t r Hmr), Hnf. reflexivity.
Qed.

End Parsed.
