(* Proofs/C05_History.v - the inductive predicate "reachable Url" (parse / join as base cases, every
   mutator of Model/Setters.v with arbitrary arguments as step cases) and the alphabet invariant. *)
From RU Require Import Base.Prelude Base.Utf8 Model.AsciiSet Gen.Tables Model.PercentEncoding
  Model.HostT Model.UrlRecord Model.Parser Model.Setters Proofs.ListN Proofs.C05_Enc Proofs.C05_Parser
  Proofs.C05_Setters.

Inductive op :=
| OSetFragment (f : option (list N))
| OSetQuery (q : option (list N))
| OSetPath (p : list N)
| OSetPort (p : option N)
| OSetHost (h : option (list N))
| OSetIpHost (h : host)
| OSetPassword (p : option (list N))
| OSetUsername (s : list N)
| OSetScheme (s : list N)
| OPathSegments (ops : list psm_op)
| OQProtocol (v : list N)
| OQUsername (v : list N)
| OQPassword (v : list N)
| OQHost (v : list N)
| OQHostname (v : list N)
| OQPort (v : list N)
| OQPathname (v : list N)
| OQSearch (v : list N)
| OQHash (v : list N).

(* Url::set_ip_host takes an IpAddr *)
Definition op_valid (o : op) : Prop := match o with OSetIpHost h => is_ip h | _ => True end.

Section History.
Variable dbg : bool.
Variable host_parse host_parse_opaque : list N -> result host.
Variable host_display : host -> list N.

Definition drop_status (r : option (url * status)) : option url :=
  match r with Some (u, _) => Some u | None => None end.

(* None = the call panics *)
Definition apply_op (u : url) (o : op) : option url :=
  match o with
  | OSetFragment f => set_fragment dbg u f
  | OSetQuery q => set_query dbg u q
  | OSetPath p => set_path dbg u p
  | OSetPort p => drop_status (set_port dbg u p)
  | OSetHost h => drop_status (set_host dbg host_parse host_parse_opaque host_display u h)
  | OSetIpHost h => drop_status (set_ip_host dbg host_display u h)
  | OSetPassword p => drop_status (set_password dbg u p)
  | OSetUsername s => drop_status (set_username dbg u s)
  | OSetScheme s => drop_status (set_scheme dbg u s)
  | OPathSegments ops => drop_status (path_segments_session dbg u ops)
  | OQProtocol v => drop_status (q_set_protocol dbg u v)
  | OQUsername v => drop_status (q_set_username dbg u v)
  | OQPassword v => drop_status (q_set_password dbg u v)
  | OQHost v => drop_status (q_set_host dbg host_parse host_parse_opaque host_display u v)
  | OQHostname v => drop_status (q_set_hostname dbg host_parse host_parse_opaque host_display u v)
  | OQPort v => drop_status (q_set_port dbg u v)
  | OQPathname v => q_set_pathname dbg u v
  | OQSearch v => q_set_search dbg u v
  | OQHash v => q_set_hash dbg u v
  end.

Inductive Reachable : url -> Prop :=
| R_parse ovr input u :
    parse_url dbg host_parse host_parse_opaque host_display ovr None input = POk u -> Reachable u
| R_join ovr b input u :
    Reachable b -> parse_url dbg host_parse host_parse_opaque host_display ovr (Some b) input = POk u -> Reachable u
| R_step u o u' :
    Reachable u -> op_valid o -> apply_op u o = Some u' -> Reachable u'.

Lemma drop_status_some r u : drop_status r = Some u -> exists st, r = Some (u, st).
Proof. destruct r as [[u0 st]|]; cbn; intros H; [inversion H; subst; eauto | discriminate]. Qed.

Section Inv.
Variable P : N -> Prop.
Hypothesis P_ok : forall b, ok_byte b -> P b.
Hypothesis P_32 : P 32.
Hypothesis HOK : HostOK host_parse host_parse_opaque host_display.
Hypothesis HIP : IpOK host_display.

Lemma apply_op_okl u o u' : op_valid o -> apply_op u o = Some u' -> okl P (ser u) -> okl P (ser u').
Proof.
  intros Hv H Hs. destruct o; cbn [apply_op] in H;
    try (apply drop_status_some in H; destruct H as [st H]).
  - eapply set_fragment_okl; eassumption.
  - eapply set_query_okl; eassumption.
  - eapply set_path_okl; eassumption.
  - eapply set_port_okl; eassumption.
  - eapply set_host_okl; eassumption.
  - eapply set_ip_host_okl; [exact P_ok | | exact H | exact Hs].
    apply (okl_ok _ P_ok), HIP. exact Hv.
  - eapply set_password_okl; eassumption.
  - eapply set_username_okl; eassumption.
  - eapply set_scheme_okl; eassumption.
  - eapply path_segments_session_okl; eassumption.
  - eapply q_set_protocol_okl; eassumption.
  - eapply q_set_username_okl; eassumption.
  - eapply q_set_password_okl; eassumption.
  - eapply q_set_host_okl; eassumption.
  - eapply q_set_hostname_okl; eassumption.
  - eapply q_set_port_okl; eassumption.
  - eapply q_set_pathname_okl; eassumption.
  - eapply q_set_search_okl; eassumption.
  - eapply q_set_hash_okl; eassumption.
Qed.

Theorem reachable_okl u : Reachable u -> okl P (ser u).
Proof.
  induction 1 as [ovr input u Hp | ovr b input u Hb IH Hp | u o u' Hu IH Hv Ho].
  - eapply parse_url_okl; [exact P_ok | exact HOK | intros _; exact P_32 | exact Hp | exact I].
  - eapply parse_url_okl; [exact P_ok | exact HOK | intros _; exact P_32 | exact Hp | exact IH].
  - eapply apply_op_okl; eassumption.
Qed.
End Inv.

End History.
