(* Proofs/C06_SegFileEx.v - witnesses for Proofs/C06_SegFile.v: the premises of the file-URL session theorem are met
   (file:///tmp/a and the root path file:///), and the side condition on pushes made at the root path is needed
   (file:/// push("C|") and push("C:<TAB>x")). *)
From Coq Require Import String.
From RU Require Import Base.Prelude Base.Utf8 Model.AsciiSet Gen.Tables Model.PercentEncoding Model.HostT Model.Host Model.UrlRecord
  Model.Parser Model.Setters Model.WF Proofs.ListN Proofs.C02_Reach Proofs.C16_RT6Model
  Proofs.C06_Path Proofs.C06_Segments Proofs.C06_SegPush Proofs.C06_SegFile.
Open Scope N_scope.
Open Scope list_scope.

(* file:///tmp/a *)
Definition ft_url : url := mkUrl (B "file:///tmp/a") 4 7 7 7 HI_None None 7 None None.
(* file:/// *)
Definition fr_url : url := mkUrl (B "file:///") 4 7 7 7 HI_None None 7 None None.

Lemma file_urls_parsed :
  parse_url true (host_parse idna_clean) host_parse_opaque host_display None None (B "file:///tmp/a") = POk ft_url
  /\ parse_url true (host_parse idna_clean) host_parse_opaque host_display None None (B "file:///") = POk fr_url.
Proof. split; vm_compute; reflexivity. Qed.

Definition ft_ops : list psm_op := [PPush (B "b"); PPush (B "C|"); PPop].
(* extend(["etc", "", "C|"]) ; clear ; push("C<TAB>:") ; push("c<TAB>%") on the root path *)
Definition fr_ops : list psm_op := [PExtend [B "etc"; []; B "C|"]; PClear; PPush [67; 9; 58]; PPush [99; 9; 37]].

Ltac usv := repeat constructor; unfold is_usv; lia.

(* push("b"), push("C|"), pop on file:///tmp/a: the drive-letter-like segment is appended verbatim, pop removes it *)
Lemma file_session_example :
  wf_b ft_url = true /\ byte_eqb (ser ft_url) (scheme_end ft_url + 1) 47 = true /\ st_of ft_url = STFile
  /\ path_bytes ft_url = B "/tmp/a" /\ file_path_ok (path_bytes ft_url) = true
  /\ file_session_ok (path_bytes ft_url) ft_ops = true /\ Forall psm_op_usv ft_ops
  /\ path_segments_session true ft_url ft_ops = Some (with_path ft_url (B "/tmp/a/b"), SOk)
  /\ session_text STFile (path_bytes ft_url) ft_ops = B "/tmp/a/b"
  /\ session_text STFile (path_bytes ft_url) [PPush (B "b"); PPush (B "C|")] = B "/tmp/a/b/C|"
  /\ path_segments_session true ft_url [PPush (B "b"); PPush (B "C|")] = Some (with_path ft_url (B "/tmp/a/b/C|"), SOk)
  /\ ser (with_path ft_url (B "/tmp/a/b/C|")) = B "file:///tmp/a/b/C|".
Proof.
  split; [vm_compute; reflexivity|]. split; [vm_compute; reflexivity|]. split; [vm_compute; reflexivity|].
  split; [vm_compute; reflexivity|]. split; [vm_compute; reflexivity|]. split; [vm_compute; reflexivity|].
  split; [usv|]. repeat split; vm_compute; reflexivity.
Qed.

(* the root path: drive-letter-like segments are fine unless a TAB / LF / CR splits them behind "C:" or they are "C|" *)
Lemma file_root_session_example :
  wf_b fr_url = true /\ byte_eqb (ser fr_url) (scheme_end fr_url + 1) 47 = true /\ st_of fr_url = STFile
  /\ path_bytes fr_url = B "/" /\ file_path_ok (path_bytes fr_url) = true
  /\ file_session_ok (path_bytes fr_url) fr_ops = true /\ Forall psm_op_usv fr_ops
  /\ path_segments_session true fr_url fr_ops = Some (with_path fr_url (B "/C:/c%25"), SOk)
  /\ session_text STFile (path_bytes fr_url) fr_ops = B "/C:/c%25"
  /\ session_text STFile (path_bytes fr_url) [PExtend [B "etc"; []; B "C|"]] = B "/etc//C|"
  /\ root_seg_ok (B "etc") = true /\ root_seg_ok [] = true /\ root_seg_ok (B "C:") = true /\ root_seg_ok (B "c:x") = true
  /\ root_seg_ok [67; 9; 58] = true /\ root_seg_ok [67; 58; 9] = true /\ root_seg_ok (B "c|x") = true
  /\ root_seg_ok (B "C|") = false /\ root_seg_ok [67; 9; 124] = false /\ root_seg_ok [67; 58; 9; 120] = false
  /\ path_segments_session true fr_url [PPush (B "c:x")] = Some (with_path fr_url (B "/c:x"), SOk)
  /\ path_segments_session true fr_url [PPush [67; 58; 9]] = Some (with_path fr_url (B "/C:"), SOk).
Proof.
  split; [vm_compute; reflexivity|]. split; [vm_compute; reflexivity|]. split; [vm_compute; reflexivity|].
  split; [vm_compute; reflexivity|]. split; [vm_compute; reflexivity|]. split; [vm_compute; reflexivity|].
  split; [usv|]. repeat split; vm_compute; reflexivity.
Qed.

(* the side condition is needed: on the root path a drive-letter-like segment is rewritten ("C|" -> "C:") and, with a
   TAB behind the drive letter, ONE push writes TWO segments ("C:<TAB>x" -> "/C:/x"); push_text would be "/C|" and "/C:x" *)
Lemma file_root_refuted :
  wf_b fr_url = true /\ st_of fr_url = STFile /\ file_path_ok (path_bytes fr_url) = true
  /\ file_session_ok (path_bytes fr_url) [PPush (B "C|")] = false
  /\ path_segments_session true fr_url [PPush (B "C|")] = Some (with_path fr_url (B "/C:"), SOk)
  /\ session_text STFile (path_bytes fr_url) [PPush (B "C|")] = B "/C|"
  /\ file_session_ok (path_bytes fr_url) [PPush [67; 58; 9; 120]] = false
  /\ path_segments_session true fr_url [PPush [67; 58; 9; 120]] = Some (with_path fr_url (B "/C:/x"), SOk)
  /\ session_text STFile (path_bytes fr_url) [PPush [67; 58; 9; 120]] = B "/C:x"
  /\ (exists ops u', Forall psm_op_usv ops /\ path_segments_session true fr_url ops = Some (u', SOk)
        /\ u' <> with_path fr_url (session_text STFile (path_bytes fr_url) ops)).
Proof.
  split; [vm_compute; reflexivity|]. split; [vm_compute; reflexivity|]. split; [vm_compute; reflexivity|].
  split; [vm_compute; reflexivity|]. split; [vm_compute; reflexivity|]. split; [vm_compute; reflexivity|].
  split; [vm_compute; reflexivity|]. split; [vm_compute; reflexivity|]. split; [vm_compute; reflexivity|].
  exists [PPush (B "C|")], (with_path fr_url (B "/C:")). split; [usv|]. split; [vm_compute; reflexivity|].
  vm_compute. discriminate.
Qed.
