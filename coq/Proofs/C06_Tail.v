(* Proofs/C06_Tail.v - records that differ only behind a cut point at or after the end of the path:
   the invariant and every accessor in front of the cut carry over.  The four elementary steps the
   fragment / query / path setters are made of (cut the fragment, cut the query, append a query,
   append a fragment) and the opaque-path space stripping are instances. *)
From RU Require Import Base.Prelude Model.HostT Model.UrlRecord Model.Parser Model.Setters Model.WF
  Proofs.ListN Proofs.C03_WF Proofs.C06_List Proofs.C06_WFI.

Lemma css_bytes l i : starts_with s_css (nskipn i l) = true ->
  nnth l i = Some 58 /\ nnth l (i + 1) = Some 47 /\ nnth l (i + 2) = Some 47.
Proof.
  intros H. apply starts_with_split in H.
  assert (forall k, nnth l (i + k) = nnth (s_css ++ skipn (length s_css) (nskipn i l)) k) as E.
  { intros k. rewrite <- H. symmetry. apply nnth_nskipn. }
  repeat split.
  - rewrite <- (N.add_0_r i). rewrite E. reflexivity.
  - rewrite E. reflexivity.
  - rewrite E. reflexivity.
Qed.

Lemma ss_bytes l i : starts_with s_ss (nskipn i l) = true -> nnth l i = Some 47 /\ nnth l (i + 1) = Some 47.
Proof.
  intros H. apply starts_with_split in H.
  assert (forall k, nnth l (i + k) = nnth (s_ss ++ skipn (length s_ss) (nskipn i l)) k) as E.
  { intros k. rewrite <- H. symmetry. apply nnth_nskipn. }
  split.
  - rewrite <- (N.add_0_r i). rewrite E. reflexivity.
  - rewrite E. reflexivity.
Qed.

Lemma byte_eqb_true_iff l i c : byte_eqb l i c = true <-> nnth l i = Some c.
Proof.
  split; [apply byte_eqb_nnth|]. unfold byte_eqb. intros ->. apply N.eqb_refl.
Qed.

Lemma byte_eqb_false_of l i c : nnth l i <> Some c -> byte_eqb l i c = false.
Proof.
  intros H. destruct (byte_eqb l i c) eqn:E; [|reflexivity]. apply byte_eqb_nnth in E. contradiction.
Qed.

Definition same_main (u u' : url) : Prop :=
  scheme_end u' = scheme_end u /\ username_end u' = username_end u /\ host_start u' = host_start u
  /\ host_end u' = host_end u /\ hosti u' = hosti u /\ port u' = port u /\ path_start u' = path_start u.

(* consequences of wf_b used below *)
Lemma wf_se_lt_ps u : wf_b u = true -> scheme_end u < path_start u.
Proof.
  intros H. destruct (has_authority_b u) eqn:Ha.
  - pose proof (wf_auth_facts u H Ha) as F.
    pose proof (af_ue F); pose proof (af_hs F); pose proof (af_he F); pose proof (af_ps F). lia.
  - pose proof (wf_noauth_facts u H Ha) as F. destruct (nf_ps F) as [E|(E & _)]; lia.
Qed.

Lemma wf_ps_le_path_end u : wf_b u = true -> path_start u <= path_end u /\ path_end u <= nlen (ser u).
Proof.
  intros H. pose proof (wf_qf_facts u H) as Q. pose proof (path_start_le_len u H).
  pose proof (qf_q Q) as Q1. pose proof (qf_f Q) as Q2. unfold path_end.
  destruct (query_start u); [lia|]. destruct (fragment_start u); lia.
Qed.

(* the "/." marker is followed by two slashes that belong to the path *)
Lemma wf_marker_in_path u : wf_b u = true -> has_authority_b u = false -> path_start u = scheme_end u + 3 ->
  path_start u + 2 <= path_end u.
Proof.
  intros H Ha E. pose proof (wf_noauth_facts u H Ha) as F. pose proof (wf_qf_facts u H) as Q.
  destruct (nf_ps F) as [E'|(_ & _ & _ & SS)]; [lia|].
  apply ss_bytes in SS. destruct SS as [S1 S2].
  pose proof (nnth_lt _ _ _ S1). pose proof (nnth_lt _ _ _ S2).
  pose proof (qf_q Q) as Q1. pose proof (qf_f Q) as Q2. unfold path_end.
  destruct (query_start u) as [q|].
  - destruct Q1 as (Q1a & Q1b & _). apply byte_eqb_nnth in Q1b.
    destruct (N.eq_dec q (path_start u)); [subst; congruence|].
    destruct (N.eq_dec q (path_start u + 1)); [subst; congruence|]. lia.
  - destruct (fragment_start u) as [f|]; [|lia].
    destruct Q2 as (Q2a & Q2b & _). apply byte_eqb_nnth in Q2b.
    destruct (N.eq_dec f (path_start u)); [subst; congruence|].
    destruct (N.eq_dec f (path_start u + 1)); [subst; congruence|]. lia.
Qed.

Section TailChange.
Variables (u u' : url) (a : N).
Hypothesis Hwf : wf_b u = true.
Hypothesis Hmain : same_main u u'.
Hypothesis Hpre : agree_pre a (ser u) (ser u').
Hypothesis Hps0 : path_start u <= a.
Hypothesis Hmk : username_end u = scheme_end u + 1 -> path_start u = scheme_end u + 3 -> path_start u + 2 <= a.
Hypothesis Hlen : a <= nlen (ser u).
Hypothesis Hlen' : a <= nlen (ser u').
(* what stands at the cut in the new serialization: nothing, '?' or '#' *)
Hypothesis Htail : a = nlen (ser u') \/ byte_eqb (ser u') a 63 = true \/ byte_eqb (ser u') a 35 = true.

Lemma tail_not c : c <> 63 -> c <> 35 -> nnth (ser u') a <> Some c.
Proof.
  intros H1 H2 E. destruct Htail as [T|[T|T]].
  - apply nnth_lt in E. lia.
  - apply byte_eqb_nnth in T. congruence.
  - apply byte_eqb_nnth in T. congruence.
Qed.

Lemma tail_ps_le_a : path_start u <= a.
Proof. exact Hps0. Qed.

Lemma tail_has_authority : has_authority_b u' = has_authority_b u.
Proof.
  destruct Hmain as (E1 & _). pose proof tail_ps_le_a as Hps. pose proof (wf_se_lt_ps u Hwf) as Hse.
  destruct (N.le_gt_cases (scheme_end u + 3) a) as [Hc|Hc].
  - apply (has_authority_b_pre a); assumption.
  - destruct (has_authority_b u) eqn:Ha.
    + pose proof (wf_auth_facts u Hwf Ha) as F.
      pose proof (af_ue F); pose proof (af_hs F); pose proof (af_he F); pose proof (af_ps F). lia.
    + destruct (has_authority_b u') eqn:Ha'; [|reflexivity]. exfalso.
      unfold has_authority_b in Ha'. rewrite E1 in Ha'. apply css_bytes in Ha'. destruct Ha' as (_ & B1 & B2).
      assert (a = scheme_end u + 1 \/ a = scheme_end u + 2) as [Ea|Ea] by lia.
      * apply (tail_not 47); [lia | lia |]. rewrite Ea. exact B1.
      * apply (tail_not 47); [lia | lia |]. rewrite Ea. exact B2.
Qed.

Lemma tail_wf : qf_ok u' -> wf_b u' = true.
Proof.
  intros Hqf. pose proof Hmain as (E1 & E2 & E3 & E4 & E5 & E6 & E7).
  pose proof tail_ps_le_a as Hps. pose proof (wf_se_lt_ps u Hwf) as Hse.
  pose proof Hwf as W0. apply wf_b_iff in W0. destruct W0 as (S & AU & Q).
  apply wf_b_iff. split; [|split; [|exact Hqf]].
  - apply (scheme_ok_pre a u u'); try assumption. lia.
  - rewrite tail_has_authority. destruct (has_authority_b u) eqn:Ha.
    + destruct AU as [AU PS]. split.
      * destruct AU as (A1 & A2 & A3 & A4 & A5 & U & Hn & P).
        unfold auth_ok, userinfo_ok, port_ok. rewrite E1, E2, E3, E4, E5, E6, E7.
        repeat split; try assumption; try lia.
        -- destruct U as [(U1 & U2 & U3)|[(U1 & U2 & U3)|(U1 & U2)]].
           ++ left. repeat split; try assumption.
              destruct (N.eq_dec (username_end u) a) as [Ea|Hne].
              ** rewrite Ea. apply byte_eqb_false_of. apply tail_not; lia.
              ** rewrite (pre_byte_eqb a _ _ _ _ Hpre) by lia. exact U3.
           ++ right. left. rewrite !(pre_byte_eqb a _ _ _ _ Hpre) by lia. tauto.
           ++ right. right. rewrite !(pre_byte_eqb a _ _ _ _ Hpre) by lia. tauto.
        -- unfold port_ok in P. destruct (port u) as [p|]; [|exact P].
           destruct P as (P1 & P2 & P3 & P4).
           rewrite (pre_byte_eqb a _ _ _ _ Hpre) by lia.
           rewrite (pre_piece a _ _ _ _ Hpre) by lia. tauto.
      * unfold pathstart_ok. rewrite E7.
        destruct (N.eq_dec (path_start u) a) as [Ea|Hne].
        -- rewrite Ea. destruct Htail as [T|[T|T]]; tauto.
        -- right. rewrite !(pre_byte_eqb a _ _ _ _ Hpre) by lia.
           destruct PS as [PS|PS]; [lia | exact PS].
    + apply (noauth_ok_pre a u u'); try assumption.
      intros Em. rewrite (pre_starts_with a _ _ _ _ Hpre).
      * destruct AU as (_ & _ & _ & _ & _ & _ & [X|(_ & _ & _ & X)]); [lia | exact X].
      * change (nlen s_ss) with 2.
        destruct AU as (Eue & _). pose proof (Hmk Eue Em). lia.
Qed.

(* frame: everything in front of the path reads the same *)
Hypothesis Hwf' : wf_b u' = true.

Lemma tail_scheme : scheme u' = scheme u.
Proof.
  rewrite (scheme_eval u' Hwf'), (scheme_eval u Hwf). unfold piece. cbn [pidx].
  destruct Hmain as (E1 & _). rewrite E1, !N.sub_0_r, !nskipn_0.
  pose proof tail_ps_le_a. pose proof (wf_se_lt_ps u Hwf).
  rewrite (pre_firstn a _ _ _ Hpre) by lia. reflexivity.
Qed.

Lemma tail_username dbg : username dbg u' = username dbg u.
Proof.
  rewrite (username_eval dbg u' Hwf'), (username_eval dbg u Hwf). unfold piece. cbn [pidx].
  rewrite tail_has_authority. destruct Hmain as (E1 & E2 & _). rewrite E1, E2.
  pose proof tail_ps_le_a.
  destruct (has_authority_b u) eqn:Ha.
  - pose proof (wf_auth_facts u Hwf Ha) as F. pose proof (af_hs F); pose proof (af_he F); pose proof (af_ps F).
    rewrite (pre_piece a _ _ _ _ Hpre) by lia. reflexivity.
  - pose proof (wf_noauth_facts u Hwf Ha) as F. rewrite (nf_ue F), N.sub_diag. reflexivity.
Qed.

Lemma tail_has_password : has_password_b u' = has_password_b u.
Proof.
  pose proof tail_has_authority as HA. pose proof Hmain as (E1 & E2 & E3 & _). pose proof tail_ps_le_a.
  unfold has_password_b. rewrite HA, E2.
  destruct (has_authority_b u) eqn:Ha; [|reflexivity]. cbn [andb].
  pose proof (wf_auth_facts u Hwf Ha) as F.
  pose proof HA as Ha'.
  pose proof (wf_auth_facts u' Hwf' Ha') as F'.
  pose proof (af_hs F); pose proof (af_he F); pose proof (af_ps F).
  destruct (af_userinfo F) as [[U1 U2]|[(U1 & U2 & U3 & U4)|(U1 & U2 & U3 & U4)]].
  - rewrite U2, andb_false_r.
    destruct (af_userinfo F') as [[V1 V2]|[(V1 & _)|(V1 & _)]]; try (rewrite E2, E3 in V1; contradiction).
    rewrite E2 in V2. rewrite V2. apply andb_false_r.
  - rewrite (pre_byte_eqb a _ _ _ _ Hpre) by lia. rewrite U2.
    pose proof (byte_eqb_lt _ _ _ U2).
    replace (username_end u =? nlen (ser u)) with false by lia.
    replace (username_end u =? nlen (ser u')) with false by lia. reflexivity.
  - rewrite (pre_byte_eqb a _ _ _ _ Hpre) by lia. rewrite U2, !andb_false_r. reflexivity.
Qed.

Lemma tail_password dbg : password dbg u' = password dbg u.
Proof.
  rewrite (password_piece dbg u' Hwf'), (password_piece dbg u Hwf). rewrite tail_has_password.
  destruct (has_password_b u) eqn:Hp; [|reflexivity].
  unfold piece. cbn [pidx]. rewrite tail_has_password, Hp.
  pose proof Hmain as (E1 & E2 & E3 & _). rewrite E2, E3.
  assert (has_authority_b u = true) as Ha.
  { unfold has_password_b in Hp. destruct (has_authority_b u); [reflexivity | discriminate]. }
  pose proof (wf_auth_facts u Hwf Ha) as F. pose proof (af_hs F); pose proof (af_he F); pose proof (af_ps F).
  pose proof tail_ps_le_a.
  rewrite (pre_piece a _ _ _ _ Hpre) by lia. reflexivity.
Qed.

Lemma tail_host_str : host_str u' = host_str u.
Proof.
  rewrite (host_str_eval u' Hwf'), (host_str_eval u Hwf).
  pose proof Hmain as (E1 & E2 & E3 & E4 & E5 & _).
  unfold has_host. rewrite E5. destruct (hosti u) eqn:Eh; try reflexivity;
    unfold piece; cbn [pidx]; rewrite E3, E4;
    pose proof (pidx_monotone u Hwf AfterHost BeforePath ltac:(cbn; lia)) as M; cbn [pidx] in M;
    pose proof tail_ps_le_a;
    rewrite (pre_piece a _ _ _ _ Hpre) by lia; reflexivity.
Qed.

Lemma tail_port : port u' = port u.
Proof. destruct Hmain as (_ & _ & _ & _ & _ & E & _). exact E. Qed.

Lemma tail_path : path_end u' = path_end u -> path_end u <= a -> path u' = path u.
Proof.
  intros E Hpe. rewrite (path_eval u' Hwf'), (path_eval u Hwf). unfold piece.
  change (pidx u' AfterPath) with (path_end u'). change (pidx u AfterPath) with (path_end u).
  cbn [pidx]. destruct Hmain as (_ & _ & _ & _ & _ & _ & E7). rewrite E, E7.
  rewrite (pre_piece a _ _ _ _ Hpre) by lia. reflexivity.
Qed.

End TailChange.

(* the authority-side observations as one relation (an equivalence, so steps compose) *)
Definition same_front (dbg : bool) (u u' : url) : Prop :=
  scheme u' = scheme u /\ username dbg u' = username dbg u /\ password dbg u' = password dbg u
  /\ host_str u' = host_str u /\ port u' = port u.

Lemma same_front_refl dbg u : same_front dbg u u.
Proof. repeat split. Qed.

Lemma same_front_trans dbg u v w : same_front dbg u v -> same_front dbg v w -> same_front dbg u w.
Proof.
  intros (A1 & A2 & A3 & A4 & A5) (B1 & B2 & B3 & B4 & B5).
  repeat split; etransitivity; eassumption.
Qed.

Lemma same_main_refl u : same_main u u.
Proof. repeat split. Qed.

Lemma same_main_trans u v w : same_main u v -> same_main v w -> same_main u w.
Proof.
  intros (A1 & A2 & A3 & A4 & A5 & A6 & A7) (B1 & B2 & B3 & B4 & B5 & B6 & B7).
  repeat split; etransitivity; eassumption.
Qed.

Lemma tail_front dbg u u' a : wf_b u = true -> wf_b u' = true -> same_main u u' ->
  agree_pre a (ser u) (ser u') -> path_start u <= a ->
  (username_end u = scheme_end u + 1 -> path_start u = scheme_end u + 3 -> path_start u + 2 <= a) ->
  a <= nlen (ser u) -> a <= nlen (ser u') ->
  (a = nlen (ser u') \/ byte_eqb (ser u') a 63 = true \/ byte_eqb (ser u') a 35 = true) ->
  same_front dbg u u'.
Proof.
  intros W W' M P Pe Mk L L' T. repeat split.
  - eapply tail_scheme; eassumption.
  - eapply tail_username; eassumption.
  - eapply tail_password; eassumption.
  - eapply tail_host_str; eassumption.
  - eapply tail_port; eassumption.
Qed.

Lemma marker_of_path_end u a : wf_b u = true -> path_end u <= a ->
  path_start u <= a /\ (username_end u = scheme_end u + 1 -> path_start u = scheme_end u + 3 -> path_start u + 2 <= a).
Proof.
  intros W H. pose proof (wf_ps_le_path_end u W). split; [lia|].
  intros Eue E. destruct (has_authority_b u) eqn:Ha.
  - pose proof (af_ue (wf_auth_facts u W Ha)). lia.
  - pose proof (wf_marker_in_path u W Ha E). lia.
Qed.

(* everything at once *)
Lemma tail_step dbg u u' a : wf_b u = true -> same_main u u' ->
  agree_pre a (ser u) (ser u') -> path_start u <= a ->
  (username_end u = scheme_end u + 1 -> path_start u = scheme_end u + 3 -> path_start u + 2 <= a) ->
  a <= nlen (ser u) -> a <= nlen (ser u') ->
  (a = nlen (ser u') \/ byte_eqb (ser u') a 63 = true \/ byte_eqb (ser u') a 35 = true) ->
  qf_ok u' ->
  wf_b u' = true /\ same_front dbg u u'
  /\ (path_end u' = path_end u -> path_end u <= a -> path u' = path u).
Proof.
  intros W M P Pe Mk L L' T Q.
  assert (wf_b u' = true) as W' by (eapply tail_wf; eassumption).
  split; [exact W'|]. split; [eapply tail_front; eassumption|].
  intros E1 E2. eapply tail_path; eassumption.
Qed.
