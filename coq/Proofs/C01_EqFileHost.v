(* Proofs/C01_EqFileHost.v - the host hypothesis of the file class (`host_agree_file`, Proofs/C01_EqFile.v) holds
   for the host functions of the two sides as they are: Host::parse + Display of Model/Host.v against the
   Standard's host parser (isOpaque = false) and serializer, the IDNA step being the same oracle on both sides
   whose outputs are ASCII outside the deny list.  Beyond `host_agree_special`: the two sides return the same
   KIND of host with the same payload, so "the host is the domain localhost" is decided alike, and the empty
   host serializes to the empty string. *)
From RU Require Import Base.Prelude Base.Utf8 Base.Utf8Facts Model.AsciiSet Gen.Tables Model.PercentEncoding
  Model.HostT Model.Host Model.UrlRecord Model.Parser Spec.Whatwg Spec.WhatwgHost Spec.WhatwgHostParse
  Proofs.C02_Enc Proofs.C02_Parts Proofs.C09_Host Proofs.C09_Wf Proofs.C09_V4spec Proofs.C09_V6spec Proofs.C09_V6sim
  Proofs.C09_V6total Proofs.C01_EqRun Proofs.C01_EqEnc
  Proofs.C01_EqAuthSpec Proofs.C01_EqAuthModel Proofs.C01_EqAuthHost Proofs.C01_EqSpSpec Proofs.C01_EqSpModel
  Proofs.C01_EqSpHost Proofs.C01_EqFile.

Theorem host_localhost_agree idna s :
  match host_parse idna s, host_parsing (spec_host_parser idna) false s with
  | Ok h, Some sh => is_localhost_m h = is_localhost_s sh
  | _, _ => True
  end.
Proof.
  unfold host_parsing.
  destruct (Host.starts_with 91 s) eqn:Hb.
  - (* IPv6 literal *)
    rewrite (proj1 (literal_spec idna s Hb)).
    pose proof (literal_agree idna false s Hb) as L.
    destruct (literal_result s) as [h|e]; destruct (spec_host_parser idna false s) as [sh|]; try contradiction; try exact I.
    destruct L as (a & -> & -> & W). reflexivity.
  - (* domain or IPv4 *)
    rewrite (spec_parser_not_bracket_gen idna s Hb).
    unfold host_parse, host_parse_x. rewrite Hb. rewrite decode_spec.
    destruct (idna (spec_percent_decode (utf8_encode s))) as [d|] eqn:Ei; [|exact I].
    destruct d as [|d0 dr]; [cbv iota; destruct (xr_result _); exact I|]. cbv iota. remember (d0 :: dr) as d eqn:Ed.
    destruct (existsb Spec.forbidden_domain_code_point d) eqn:Ef.
    { destruct (xr_result _); exact I. }
    rewrite <- (ends_in_a_number_spec d).
    assert (d <> []) as Hne by (rewrite Ed; discriminate).
    destruct (ends_in_a_number d) eqn:En.
    + rewrite (parse_ipv4addr_spec d Hne).
      destruct (Spec.ipv4_parse d) as [a|] eqn:E4; cbn [lift4 xr_map xr_result]; [reflexivity | exact I].
    + cbn [xr_result]. reflexivity.
Qed.

Theorem host_agree_file_real idna :
  (forall bs d, idna bs = Some d -> Forall dom_char_ok d) ->
  forall s, usv_list s ->
  host_agree_file (host_parse idna) host_display (spec_host_parser idna) spec_host_serializer s.
Proof.
  intros Hout s Hu. split; [reflexivity|]. split; [exact (host_agree_special idna Hout s Hu) | exact (host_localhost_agree idna s)].
Qed.
