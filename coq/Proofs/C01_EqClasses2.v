(* Proofs/C01_EqClasses2.v - the class "scheme://authority..." (non-special scheme, no base) of the C01
   equivalence: recogniser on the specification side, class theorem, and the proved classes assembled
   again with it (in_proved_class2 / partial_equivalence2 / partial_equivalence_strict2). *)
From RU Require Import Base.Prelude Base.Utf8 Model.AsciiSet Gen.Tables
  Model.PercentEncoding Model.HostT Model.UrlRecord Model.Parser Model.Setters Model.WF Spec.Whatwg
  Proofs.C02_Parts Proofs.C03_WF Proofs.C01_Tables Proofs.C08_Input
  Proofs.C01_EqRun Proofs.C01_EqEnc Proofs.C01_EqApi Proofs.C01_EqOpaque Proofs.C01_EqRef
  Proofs.C02_Path Proofs.C01_EqPathSpec Proofs.C01_EqPath Proofs.C01_EqOverflow Proofs.C01_EqEmpty
  Proofs.C01_EqClasses Proofs.C01_EqAuthSpec Proofs.C01_EqAuthModel Proofs.C01_EqAuth.

(* ---------- the recogniser, on the Standard's cuts of the cleaned text ---------- *)
(* excluded: (a) the authority is exactly ":@" (finding: the model drops the empty credentials and
   accepts the empty host; the Standard fails);  (b) a valid port number directly followed by '\'
   (finding F-C01-8);  (c) a ".." that would pop a drive-letter-shaped segment (finding F-C01-9) *)
Definition auth_class_ok (T : list N) : bool :=
  negb (list_eqb (a_part T) [58; 64]) && negb (auth_port_bslash T)
  && match auth_path_text T with c :: r => if c =? 47 then spath_ok r [] [] else true | [] => true end.

Definition in_class_authority (input : list N) : bool :=
  match spec_scheme (spec_clean input) with
  | Some (sch, c1 :: c2 :: T) => negb (is_special_scheme sch) && (c1 =? 47) && (c2 =? 47) && auth_class_ok T
  | _ => false
  end.

(* the one string the host parsers of the two sides are applied to *)
Definition class_host_text (input : list N) : list N :=
  match spec_scheme (spec_clean input) with
  | Some (_, _ :: _ :: T) => auth_host_text T
  | _ => []
  end.

Lemma related_href dbg shs u su : related dbg shs u su -> ser u = get_href shs su.
Proof.
  intros R. pose proof (rel_api _ _ _ _ R) as A. rewrite (api_of_model_eval dbg u (rel_wf _ _ _ _ R)) in A.
  unfold spec_api_list in A. injection A as A _. exact A.
Qed.

Section Class.
Variable dbg : bool.
Variable hp hpo : list N -> result host.
Variable hd : host -> list N.
Variable ovr : option (list N -> list N).
Variable shp : bool -> list N -> option spec_host.
Variable shs : spec_host -> list N.

(* ---------- specification side ---------- *)
Theorem spec_authority input sch T :
  spec_scheme (spec_clean input) = Some (sch, 47 :: 47 :: T) -> is_special_scheme sch = false ->
  match sauth shp sch T with
  | Some su => spec_basic_url_parse shp input None = BDone su
  | None => exists uf, spec_basic_url_parse shp input None = BFailure uf
  end.
Proof.
  intros Hs Hnsp. set (inp := spec_clean input) in *.
  assert (forall res, Runs shp inp None (at_pos StAuthority
            (firstn (length inp - length T) inp) [] false false false (set_scheme empty_url sch)) res ->
          spec_basic_url_parse shp input None = res) as Hrun.
  { intros res HR. apply spec_parse_of_runs. fold inp.
    destruct (runs_scheme shp inp None sch (47 :: 47 :: T) res Hs) as (pre & Hin & K). apply K. clear K.
    apply (runs_scheme_colon_slash shp inp None pre sch (47 :: T) res Hin Hnsp).
    assert (inp = (pre ++ [58; 47]) ++ 47 :: T) as Hin2 by (rewrite Hin; repeat rewrite <- app_assoc; reflexivity).
    apply (runs_poa_slash shp inp None (pre ++ [58; 47]) T false false false _ res Hin2).
    assert (firstn (length inp - length T) inp = (pre ++ [58; 47]) ++ [47]) as E.
    { assert (inp = ((pre ++ [58; 47]) ++ [47]) ++ T) as Hin3 by (rewrite Hin; repeat rewrite <- app_assoc; reflexivity).
      rewrite Hin3. apply firstn_len_sub. }
    rewrite <- E. exact HR. }
  assert (inp = firstn (length inp - length T) inp ++ T) as Hin.
  { destruct (runs_scheme shp inp None sch (47 :: 47 :: T) BOutOfFuel Hs) as (pre & Hin & _).
    assert (inp = (pre ++ [58; 47; 47]) ++ T) as Hin3 by (rewrite Hin; repeat rewrite <- app_assoc; reflexivity).
    rewrite Hin3. rewrite firstn_len_sub. reflexivity. }
  pose proof (runs_authority shp inp None _ T sch Hin Hnsp) as RA.
  destruct (sauth shp sch T) as [su|].
  - apply Hrun. exact RA.
  - destruct RA as [uf K]. exists uf. apply Hrun. exact K.
Qed.

(* ---------- the class theorem ---------- *)
(* the Standard succeeds: the model reports Overflow and the Standard's href is longer than u32::MAX
   bytes, or it succeeds with a related record (same ten API strings); the Standard fails: so does
   the model *)
Definition agree_rel_strict (m : pres url) (s : parse_outcome) : Prop :=
  match s with
  | BDone su => (m = PErr Overflow /\ U32_MAX_P < nlen (get_href shs su))
                \/ exists u, m = POk u /\ related dbg shs u su
  | BFailure _ => exists e, m = PErr e
  | BOutOfFuel => False
  end.

Lemma split_ss rem T : usv_list rem -> ntnl rem = 47 :: 47 :: T ->
  exists l, inp_split_prefix_str s_ss rem = Some l /\ ntnl l = T /\ usv_list l.
Proof.
  intros Hu H. destruct (inp_next_some rem 47 (47 :: T) H) as (r1 & En1 & Er1 & _).
  destruct (inp_next_some r1 47 T Er1) as (r2 & En2 & Er2 & _).
  exists r2. unfold s_ss. cbn [inp_split_prefix_str]. rewrite En1. cbn [N.eqb Pos.eqb]. rewrite En2. cbn [N.eqb Pos.eqb].
  split; [reflexivity|]. split; [exact Er2|].
  exact (inp_next_usv r1 47 r2 (inp_next_usv rem 47 r1 Hu En1) En2).
Qed.

Theorem class_authority input : usv_list input -> in_class_authority input = true ->
  host_agree hpo hd shp shs (class_host_text input) ->
  agree_rel_strict (parse_url dbg hp hpo hd ovr None input) (spec_basic_url_parse shp input None).
Proof.
  intros Hu Hc HA. unfold in_class_authority, class_host_text in *.
  destruct (spec_scheme (spec_clean input)) as [[sch rest]|] eqn:Es; [|discriminate].
  destruct rest as [|c1 [|c2 T]]; try discriminate.
  apply andb_true_iff in Hc. destruct Hc as [Hc Hok]. apply andb_true_iff in Hc. destruct Hc as [Hc H2].
  apply andb_true_iff in Hc. destruct Hc as [H0 H1]. apply N.eqb_eq in H1, H2. subst c1 c2.
  assert (is_special_scheme sch = false) as Hnsp by (destruct (is_special_scheme sch); [discriminate | reflexivity]).
  pose proof (not_special_type sch Hnsp) as Hns.
  unfold auth_class_ok in Hok. apply andb_true_iff in Hok. destruct Hok as [Hok Hc3].
  apply andb_true_iff in Hok. destruct Hok as [Hc1 Hc2]. apply negb_true_iff in Hc1, Hc2.
  pose proof (spec_authority input sch T Es Hnsp) as HS.
  rewrite spec_clean_is_ntnl_trim in Es.
  destruct (spec_scheme_model _ _ _ Es) as (rem & Hps & Hrem).
  destruct (parse_scheme_suffix _ _ _ _ Hps) as [pre0 Hpre].
  assert (usv_list rem) as Hur.
  { pose proof (usv_trim input Hu) as Ht. rewrite Hpre in Ht. apply usv_app in Ht. tauto. }
  destruct (split_ss rem T Hur Hrem) as (l & Hss & Hl & Hul).
  pose proof (parse_scheme_out _ _ _ Hps) as Hcan.
  assert (match auth_path_text (ntnl l) with c :: r => if c =? 47 then spath_ok r [] [] = true else True | [] => True end) as Hc3'.
  { rewrite Hl. destruct (auth_path_text T) as [|c r]; [exact I|]. destruct (c =? 47); [exact Hc3 | exact I]. }
  rewrite <- Hl in Hc1, Hc2, HA.
  pose proof (model_auth dbg hp hpo hd ovr shp shs sch l Hul Hcan Hns Hc1 Hc2 Hc3' HA) as HM. cbv zeta in HM.
  rewrite Hl in HM.
  assert (parse_url dbg hp hpo hd ovr None input
          = (' se <~ to_u32 (nlen sch) ;; after_double_slash dbg hp hpo hd ovr CUrlParser STNotSpecial se (sch ++ [58]) l)) as Epu.
  { unfold parse_url. rewrite Hps. unfold parse_with_scheme. rewrite Hns. unfold parse_non_special. rewrite Hss. reflexivity. }
  rewrite Epu.
  destruct (sauth shp sch T) as [su|].
  - rewrite HS. cbn [agree_rel_strict]. destruct HM as (u & HO & R & Hle).
    pose proof (related_href dbg shs u su R) as Eh. rewrite <- Eh.
    assert (oob (U32_MAX_P < nlen (ser u))
                (' se <~ to_u32 (nlen sch) ;; after_double_slash dbg hp hpo hd ovr CUrlParser STNotSpecial se (sch ++ [58]) l) u) as HO'.
    { eapply oob_bind; [apply oob_u32; intros K; lia | exact HO]. }
    destruct HO' as [[E B]|E]; [left; split; assumption | right; exists u; split; assumption].
  - destruct HS as [uf ->]. cbn [agree_rel_strict].
    destruct (to_u32 (nlen sch)) as [se| |] eqn:Eu; cbn [pbind].
    + apply to_u32_inv in Eu. destruct Eu as [-> _]. exact HM.
    + exists e. reflexivity.
    + unfold to_u32 in Eu. destruct (nlen sch <=? U32_MAX_P); discriminate Eu.
Qed.

End Class.

(* ---------- the proved classes, assembled again ---------- *)
Definition in_proved_class2 (sbase : option spec_url) (input : list N) : bool :=
  in_proved_class sbase input
  || match sbase with None => in_class_authority input | Some _ => false end.

(* the hypothesis on the host functions concerns the authority class only, and there only the one
   string the host parsers are applied to *)
Definition host_hyp (hpo : list N -> result host) (hd : host -> list N)
           (shp : bool -> list N -> option spec_host) (shs : spec_host -> list N)
           (sbase : option spec_url) (input : list N) : Prop :=
  sbase = None -> in_class_authority input = true -> host_agree hpo hd shp shs (class_host_text input).

Lemma agree_strict_agree dbg shs m s : agree_strict dbg shs m s -> agree dbg shs m s.
Proof.
  unfold agree_strict, agree. destruct s as [su|u|]; [|exact (fun H => H) | exact (fun H => H)].
  intros [[E _]|K]; [left; exact E | right; exact K].
Qed.

Theorem partial_equivalence_strict2 dbg hp hpo hd shp shs input base sbase :
  usv_list input -> base_rel dbg shs base sbase -> in_proved_class2 sbase input = true ->
  host_hyp hpo hd shp shs sbase input ->
  agree_strict dbg shs (parse_url dbg hp hpo hd None base input) (spec_basic_url_parse shp input sbase).
Proof.
  intros Hu Hb Hc HH. unfold in_proved_class2 in Hc.
  destruct (in_proved_class sbase input) eqn:E1.
  - apply partial_equivalence_strict; assumption.
  - cbn [orb] in Hc. destruct sbase as [sb|]; [discriminate Hc|].
    destruct base as [b|]; [cbn [base_rel] in Hb; contradiction|].
    pose proof (class_authority dbg hp hpo hd None shp shs input Hu Hc (HH eq_refl Hc)) as A.
    unfold agree_rel_strict, agree_strict in *.
    destruct (spec_basic_url_parse shp input None) as [su|u|]; [|exact A | exact A].
    destruct A as [K|(u & E & R)]; [left; exact K|]. right. exists u. split; [exact E | exact (rel_api _ _ _ _ R)].
Qed.

Theorem partial_equivalence2 dbg hp hpo hd shp shs input base sbase :
  usv_list input -> base_rel dbg shs base sbase -> in_proved_class2 sbase input = true ->
  host_hyp hpo hd shp shs sbase input ->
  agree dbg shs (parse_url dbg hp hpo hd None base input) (spec_basic_url_parse shp input sbase).
Proof. intros Hu Hb Hc HH. apply agree_strict_agree. apply partial_equivalence_strict2; assumption. Qed.
