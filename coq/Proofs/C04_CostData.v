(* Proofs/C04_CostData.v - cost of the header pre-parser of DataUrl::process (data-url/src/lib.rs:
   pretend_parse_data_url, find_comma_before_fragment, parse_header, remove_base64_suffix), task c04cost.
   Cost semantics of Model/Cost.v: one step per element examined by a loop / a forward or backward scan
   (trim_start_matches, trim_end_matches, the filtered byte iterators, skip_while), one step per String::push, slice,
   comparison with a literal; push_str of x = nlen x.  As in Proofs/C04_CostMime.v the step counts are functions that follow
   the data flow of the MODEL functions (Model/DataUrl.v) - the intermediate values are the model's own, so there is no
   second result to compare.
     scan_cost input    - everything except Mime::from_str: at most 13 |input| + 31 steps for EVERY byte input
     header_text input  - the String handed to Mime::from_str when the pre-parser gets that far: at most 3 |input| + 10
                          bytes; it is the string the model parses (header_text_model)
     process_cost input - scan_cost + mime_parse_cost of that string
     process_cost_linear: process_cost <= 13 |input| + 31 + (14 + P)(3 |input| + 11) + 4 when the header string parses to
                          a MIME type with P parameters: linear for a bounded number of parameters; the product term is
                          finding F-C04-9 reaching DataUrl::process. *)
From RU Require Import Base.Prelude Base.Utf8 Gen.Tables Model.HostT Model.UrlRecord Proofs.ListN.
From RU Require Import Model.Base64 Model.Mime Model.DataUrl Proofs.C19_Tables Proofs.C19_Pure Proofs.C04_CostMime.
From RU Require Proofs.C17_Total.

(* ---------------------------------------------------------------- scans *)
Fixpoint drop_while_k (f : N -> bool) (l : list N) : N :=
  match l with
  | [] => 0
  | c :: r => if f c then 1 + drop_while_k f r else 1
  end.

Lemma drop_while_k_le f l : drop_while_k f l <= nlen l.
Proof.
  induction l as [|c r IH]; [cbn; lia|]. cbn [drop_while_k]. rewrite nlen_cons. destruct (f c); lia.
Qed.
Lemma drop_while_len f l : nlen (DataUrl.drop_while f l) <= nlen l.
Proof.
  induction l as [|c r IH]; [cbn; lia|]. cbn [DataUrl.drop_while]. destruct (f c); [rewrite nlen_cons; lia | lia].
Qed.
Lemma nlen_rev (l : list N) : nlen (rev l) = nlen l.
Proof. unfold nlen. rewrite rev_length. reflexivity. Qed.
Lemma drop_while_end_len f l : nlen (drop_while_end f l) <= nlen l.
Proof. unfold drop_while_end. rewrite nlen_rev. pose proof (drop_while_len f (rev l)) as H. rewrite nlen_rev in H. exact H. Qed.

(* the filtered byte iterator: bytes examined until one passes the filter *)
Fixpoint filter_next_k (bytes : list N) : N :=
  match bytes with
  | [] => 0
  | b :: r => if is_skipped b then 1 + filter_next_k r else 1
  end.
Lemma filter_next_k_le bytes :
  filter_next_k bytes + match filter_next bytes with Some (_, r) => nlen r | None => 0 end <= nlen bytes.
Proof.
  induction bytes as [|b r IH]; [cbn; lia|]. cbn [filter_next_k filter_next]. rewrite nlen_cons.
  destruct (is_skipped b); [|lia]. destruct (filter_next r) as [[c t]|]; lia.
Qed.

(* the require!(..) sequences, for any comparison t *)
Fixpoint require_gen (t : N -> N -> bool) (lits bytes : list N) : option (list N) :=
  match lits with
  | [] => Some bytes
  | l :: ls => match filter_next bytes with
               | None => None
               | Some (b, r) => if t b l then require_gen t ls r else None
               end
  end.
Fixpoint require_gen_k (t : N -> N -> bool) (lits bytes : list N) : N :=
  match lits with
  | [] => 0
  | l :: ls => filter_next_k bytes
               + match filter_next bytes with
                 | None => 0
                 | Some (b, r) => if t b l then require_gen_k t ls r else 0
                 end
  end.
Lemma require_scheme_gen lits : forall bytes, require_scheme lits bytes = require_gen byte_eq_ignore_ascii_case lits bytes.
Proof.
  induction lits as [|l ls IH]; intros bytes; [reflexivity|]. cbn [require_scheme require_gen].
  destruct (filter_next bytes) as [[b r]|]; [|reflexivity]. destruct (byte_eq_ignore_ascii_case b l); [apply IH | reflexivity].
Qed.
Lemma require_nocase_gen lits : forall bytes, require_nocase lits bytes = require_gen byte_eq_ignore_ascii_case lits bytes.
Proof.
  induction lits as [|l ls IH]; intros bytes; [reflexivity|]. cbn [require_nocase require_gen].
  destruct (filter_next bytes) as [[b r]|]; [|reflexivity]. destruct (byte_eq_ignore_ascii_case b l); [apply IH | reflexivity].
Qed.
Lemma require_exact_gen lits : forall bytes, require_exact lits bytes = require_gen N.eqb lits bytes.
Proof.
  induction lits as [|l ls IH]; intros bytes; [reflexivity|]. cbn [require_exact require_gen].
  destruct (filter_next bytes) as [[b r]|]; [|reflexivity]. destruct (b =? l); [apply IH | reflexivity].
Qed.
Lemma require_gen_k_le t lits : forall bytes,
  require_gen_k t lits bytes + match require_gen t lits bytes with Some r => nlen r | None => 0 end <= nlen bytes.
Proof.
  induction lits as [|l ls IH]; intros bytes; cbn [require_gen_k require_gen]; [lia|].
  pose proof (filter_next_k_le bytes) as H. destruct (filter_next bytes) as [[b r]|]; [|lia].
  destruct (t b l); [|lia]. specialize (IH r). destruct (require_gen t ls r); lia.
Qed.

Fixpoint skip_while_next_k (rbytes : list N) : N :=
  match rbytes with
  | [] => 0
  | b :: r => if is_skipped b then 1 + skip_while_next_k r
              else if b =? T_DU_B64_SKIP then 1 + skip_while_next_k r
              else 1
  end.
Lemma skip_while_next_k_le rbytes :
  skip_while_next_k rbytes + match skip_while_next rbytes with Some (_, r) => nlen r | None => 0 end <= nlen rbytes.
Proof.
  induction rbytes as [|b r IH]; [cbn; lia|]. cbn [skip_while_next_k skip_while_next]. rewrite nlen_cons.
  destruct (is_skipped b); [destruct (skip_while_next r) as [[c t]|]; lia|].
  destruct (b =? T_DU_B64_SKIP); [destruct (skip_while_next r) as [[c t]|]; lia | lia].
Qed.

(* find_comma_before_fragment: bytes examined, two slices at the comma *)
Fixpoint fcbf_k (rest : list N) : N :=
  match rest with
  | [] => 0
  | byte :: rest' => if byte =? T_DU_COMMA then 3 else if byte =? T_DU_HASH then 1 else 1 + fcbf_k rest'
  end.
Lemma fcbf_k_le rest : fcbf_k rest <= nlen rest + 2.
Proof.
  induction rest as [|b r IH]; [cbn; lia|]. cbn [fcbf_k]. rewrite nlen_cons.
  destruct (b =? T_DU_COMMA); [lia|]. destruct (b =? T_DU_HASH); lia.
Qed.

(* the loop of parse_header: one step per byte, three pushes for an escaped byte, one otherwise *)
Fixpoint header_loop_k (in_query : bool) (bytes : list N) : N :=
  match bytes with
  | [] => 0
  | byte :: r =>
      if is_skipped byte then 1 + header_loop_k in_query r
      else if in_ranges byte T_DU_HDR_ENC then 4 + header_loop_k in_query r
      else if memb byte T_DU_HDR_QENC && in_query then 4 + header_loop_k in_query r
      else if byte =? T_DU_HDR_QMARK then 2 + header_loop_k true r
      else 2 + header_loop_k in_query r
  end.
Lemma header_loop_k_le bytes : forall q, header_loop_k q bytes <= 4 * nlen bytes.
Proof.
  induction bytes as [|b r IH]; intros q; [cbn; lia|]. cbn [header_loop_k]. rewrite nlen_cons.
  destruct (is_skipped b); [specialize (IH q); lia|].
  destruct (in_ranges b T_DU_HDR_ENC); [specialize (IH q); lia|].
  destruct (memb b T_DU_HDR_QENC && q); [specialize (IH q); lia|].
  destruct (b =? T_DU_HDR_QMARK); [specialize (IH true) | specialize (IH q)]; lia.
Qed.
Lemma header_loop_len bytes : forall q, nlen (header_loop q bytes) <= 3 * nlen bytes.
Proof.
  induction bytes as [|b r IH]; intros q; [cbn; lia|]. cbn [header_loop]. rewrite nlen_cons.
  destruct (is_skipped b); [specialize (IH q); lia|].
  destruct (in_ranges b T_DU_HDR_ENC).
  { unfold percent_encode. cbn [app]. rewrite !nlen_cons. specialize (IH q). lia. }
  destruct (memb b T_DU_HDR_QENC && q).
  { unfold percent_encode. cbn [app]. rewrite !nlen_cons. specialize (IH q). lia. }
  destruct (b =? T_DU_HDR_QMARK); rewrite nlen_cons; [specialize (IH true) | specialize (IH q)]; lia.
Qed.

(* ---------------------------------------------------------------- slices are not longer than the text *)
Lemma slice_from_len site s i r : slice_from site s i = Ok r -> nlen r <= nlen s.
Proof.
  unfold slice_from. destruct (is_char_boundary s i); [|discriminate]. intros H. inversion H; subst.
  unfold nlen. rewrite skipn_length. lia.
Qed.
Lemma slice_to_len site s i r : slice_to site s i = Ok r -> nlen r <= nlen s.
Proof.
  unfold slice_to. destruct (is_char_boundary s i); [|discriminate]. intros H. inversion H; subst.
  unfold nlen. rewrite firstn_length. lia.
Qed.

(* ---------------------------------------------------------------- remove_base64_suffix *)
Definition remove_base64_suffix_k (s : list N) : N :=
  require_gen_k N.eqb T_DU_B64_EXACT (rev s)
  + match require_exact T_DU_B64_EXACT (rev s) with
    | None => 0
    | Some r1 =>
        require_gen_k byte_eq_ignore_ascii_case T_DU_B64_NOCASE r1
        + match require_nocase T_DU_B64_NOCASE r1 with
          | None => 0
          | Some r2 => skip_while_next_k r2 + 1
          end
    end.
Lemma remove_base64_suffix_k_le s : remove_base64_suffix_k s <= nlen s + 1.
Proof.
  unfold remove_base64_suffix_k. pose proof (require_gen_k_le N.eqb T_DU_B64_EXACT (rev s)) as H1.
  rewrite nlen_rev in H1. rewrite require_exact_gen. destruct (require_gen N.eqb T_DU_B64_EXACT (rev s)) as [r1|]; [|lia].
  pose proof (require_gen_k_le byte_eq_ignore_ascii_case T_DU_B64_NOCASE r1) as H2. rewrite require_nocase_gen.
  destruct (require_gen byte_eq_ignore_ascii_case T_DU_B64_NOCASE r1) as [r2|]; [|lia].
  pose proof (skip_while_next_k_le r2) as H3. destruct (skip_while_next r2) as [[b t]|]; lia.
Qed.
Lemma remove_base64_suffix_len s t : remove_base64_suffix s = Ok (Some t) -> nlen t <= nlen s.
Proof.
  unfold remove_base64_suffix. destruct (require_exact _ _) as [r1|]; [|discriminate].
  destruct (require_nocase _ _) as [r2|]; [|discriminate]. destruct (skip_while_next r2) as [[b bytes]|]; [|discriminate].
  destruct (negb (b =? T_DU_B64_SEP)); [discriminate|]. unfold bind.
  destruct (slice_to 265 s (length bytes)) as [x| |] eqn:E; try discriminate. intros H. inversion H; subst.
  exact (slice_to_len 265 s _ t E).
Qed.

(* ---------------------------------------------------------------- parse_header *)
Definition header_trimmed (h : list N) : list N := drop_while_end is_header_trim (DataUrl.drop_while is_header_trim h).
Definition header_mime_text (h : list N) : list N :=
  match remove_base64_suffix (header_trimmed h) with Ok (Some t) => t | _ => header_trimmed h end.

(* without Mime::from_str *)
Definition parse_header_k (h : list N) : N :=
  drop_while_k is_header_trim h + drop_while_k is_header_trim (rev (DataUrl.drop_while is_header_trim h))
  + remove_base64_suffix_k (header_trimmed h)
  + 1 + (if starts_with_byte T_DU_HDR_PREFIX_IF (header_mime_text h) then nlen T_DU_HDR_PREFIX else 0)
  + header_loop_k false (header_mime_text h).

Lemma header_trimmed_len h : nlen (header_trimmed h) <= nlen h.
Proof.
  unfold header_trimmed. pose proof (drop_while_end_len is_header_trim (DataUrl.drop_while is_header_trim h)).
  pose proof (drop_while_len is_header_trim h). lia.
Qed.
Lemma header_mime_text_len h : nlen (header_mime_text h) <= nlen h.
Proof.
  unfold header_mime_text. pose proof (header_trimmed_len h) as H.
  destruct (remove_base64_suffix (header_trimmed h)) as [[t|]| |] eqn:E; try exact H.
  pose proof (remove_base64_suffix_len _ t E). lia.
Qed.
Lemma parse_header_k_le h : parse_header_k h <= 7 * nlen h + 12.
Proof.
  unfold parse_header_k. pose proof (drop_while_k_le is_header_trim h) as H1.
  pose proof (drop_while_k_le is_header_trim (rev (DataUrl.drop_while is_header_trim h))) as H2. rewrite nlen_rev in H2.
  pose proof (drop_while_len is_header_trim h) as H3.
  pose proof (remove_base64_suffix_k_le (header_trimmed h)) as H4. pose proof (header_trimmed_len h) as H5.
  pose proof (header_loop_k_le (header_mime_text h) false) as H6. pose proof (header_mime_text_len h) as H7.
  change (nlen T_DU_HDR_PREFIX) with 10. destruct (starts_with_byte _ _); lia.
Qed.
Lemma header_string_len h : nlen (header_string (header_mime_text h)) <= 3 * nlen h + 10.
Proof.
  unfold header_string. rewrite nlen_app. pose proof (header_loop_len (header_mime_text h) false) as H1.
  pose proof (header_mime_text_len h) as H2.
  destruct (starts_with_byte _ _); [change (nlen T_DU_HDR_PREFIX) with 10 | change (nlen (@nil N)) with 0]; lia.
Qed.

(* the model's parse_header parses exactly that string *)
Lemma parse_header_text h r : parse_header h = Ok r ->
  exists parsed, Mime.from_str (header_string (header_mime_text h)) = Ok parsed
                 /\ fst r = match parsed with Some m => m | None => fallback_mime end.
Proof.
  unfold parse_header, header_mime_text, header_trimmed. unfold bind at 1.
  destruct (remove_base64_suffix _) as [w| |]; try discriminate. unfold bind.
  assert (E : match w with Some t => t | None => drop_while_end is_header_trim (DataUrl.drop_while is_header_trim h) end
              = match w with Some t => t | None => drop_while_end is_header_trim (DataUrl.drop_while is_header_trim h) end)
    by reflexivity.
  destruct w as [t|].
  - destruct (from_str (header_string t)) as [p| |]; try discriminate. intros H. inversion H; subst. exists p. split; reflexivity.
  - destruct (from_str (header_string _)) as [p| |]; try discriminate. intros H. inversion H; subst. exists p. split; reflexivity.
Qed.

(* ---------------------------------------------------------------- DataUrl::process on the bytes *)
Definition after_colon_of (input : list N) : option (list N) :=
  match pretend_parse_data_url input with Ok (Some a) => Some a | _ => None end.
Definition header_of (input : list N) : option (list N) :=
  match after_colon_of input with
  | Some a => match find_comma_before_fragment a with Ok (Some (h, _)) => Some h | _ => None end
  | None => None
  end.
(* the String handed to Mime::from_str *)
Definition header_text (input : list N) : option (list N) :=
  match header_of input with Some h => Some (header_string (header_mime_text h)) | None => None end.

Definition pretend_parse_k (input : list N) : N :=
  let lt := DataUrl.drop_while is_c0_or_space input in
  drop_while_k is_c0_or_space input
  + require_gen_k byte_eq_ignore_ascii_case T_DU_SCHEME lt
  + match require_scheme T_DU_SCHEME lt with
    | None => 0
    | Some b1 =>
        filter_next_k b1
        + match filter_next b1 with
          | None => 0
          | Some (b, bytes) =>
              if negb (b =? T_DU_COLON) then 0
              else 1 + match slice_from 175 lt (length lt - length bytes) with
                       | Ok ac => drop_while_k is_c0_or_space (rev ac)
                       | _ => 0
                       end
          end
    end.

Definition scan_cost (input : list N) : N :=
  pretend_parse_k input
  + match after_colon_of input with
    | None => 0
    | Some a => fcbf_k a + match header_of input with Some h => parse_header_k h | None => 0 end
    end.

Definition process_cost (input : list N) : N :=
  scan_cost input + match header_text input with Some hs => mime_parse_cost hs | None => 0 end.

Lemma pretend_parse_k_le input : pretend_parse_k input <= 3 * nlen input + 1.
Proof.
  unfold pretend_parse_k. cbv zeta. pose proof (drop_while_k_le is_c0_or_space input) as H1.
  pose proof (drop_while_len is_c0_or_space input) as H2.
  set (lt := DataUrl.drop_while is_c0_or_space input) in *.
  pose proof (require_gen_k_le byte_eq_ignore_ascii_case T_DU_SCHEME lt) as H3. rewrite require_scheme_gen.
  destruct (require_gen byte_eq_ignore_ascii_case T_DU_SCHEME lt) as [b1|]; [|lia].
  pose proof (filter_next_k_le b1) as H4. destruct (filter_next b1) as [[b bytes]|]; [|lia].
  destruct (negb (b =? T_DU_COLON)); [lia|].
  destruct (slice_from 175 lt (length lt - length bytes)) as [ac| |] eqn:E; try lia.
  pose proof (slice_from_len 175 lt _ ac E) as H5. pose proof (drop_while_k_le is_c0_or_space (rev ac)) as H6.
  rewrite nlen_rev in H6. lia.
Qed.

Lemma after_colon_len input a : after_colon_of input = Some a -> nlen a <= nlen input.
Proof.
  unfold after_colon_of, pretend_parse_data_url. pose proof (drop_while_len is_c0_or_space input) as H2.
  set (lt := DataUrl.drop_while is_c0_or_space input) in *.
  destruct (require_scheme T_DU_SCHEME lt) as [b1|]; [|discriminate].
  destruct (filter_next b1) as [[b bytes]|]; [|discriminate].
  destruct (negb (b =? T_DU_COLON)); [discriminate|]. unfold bind.
  destruct (slice_from 175 lt (length lt - length bytes)) as [ac| |] eqn:E; try discriminate.
  intros H. inversion H; subst. pose proof (slice_from_len 175 lt _ ac E). pose proof (drop_while_end_len is_c0_or_space ac). lia.
Qed.

Lemma fcbf_loop_len a : forall rest i h b, fcbf_loop a i rest = Ok (Some (h, b)) -> nlen h <= nlen a.
Proof.
  induction rest as [|c r IH]; intros i h b; cbn [fcbf_loop]; [discriminate|].
  destruct (c =? T_DU_COMMA).
  - unfold bind. destruct (slice_to 184 a i) as [x| |] eqn:E; try discriminate.
    destruct (slice_from 184 a (i + 1)) as [y| |]; try discriminate. intros H. inversion H; subst.
    exact (slice_to_len 184 a i h E).
  - destruct (c =? T_DU_HASH); [discriminate|]. apply IH.
Qed.
Lemma header_of_len input h : header_of input = Some h -> nlen h <= nlen input.
Proof.
  unfold header_of. destruct (after_colon_of input) as [a|] eqn:Ea; [|discriminate].
  pose proof (after_colon_len input a Ea) as H1. unfold find_comma_before_fragment.
  destruct (fcbf_loop a 0 a) as [[[h' b]|]| |] eqn:E; try discriminate. intros H. inversion H; subst.
  pose proof (fcbf_loop_len a a 0 h b E). lia.
Qed.

Theorem scan_cost_linear input : scan_cost input <= 13 * nlen input + 31.
Proof.
  unfold scan_cost. pose proof (pretend_parse_k_le input) as H1.
  destruct (after_colon_of input) as [a|] eqn:Ea; [|lia].
  pose proof (after_colon_len input a Ea) as H2. pose proof (fcbf_k_le a) as H3.
  destruct (header_of input) as [h|] eqn:Eh; [|lia].
  pose proof (header_of_len input h Eh) as H4. pose proof (parse_header_k_le h) as H5. lia.
Qed.

Theorem header_text_len input hs : header_text input = Some hs -> nlen hs <= 3 * nlen input + 10.
Proof.
  unfold header_text. destruct (header_of input) as [h|] eqn:Eh; [|discriminate]. intros H. inversion H; subst.
  pose proof (header_of_len input h Eh). pose proof (header_string_len h). lia.
Qed.

(* header_text is the string the model hands to Mime::from_str: whenever DataUrl::process returns a DataUrl, its MIME type
   is the parse result of header_text (or the fallback text/plain;charset=US-ASCII) *)
Theorem header_text_model input d : process_bytes input = Ok (inl d) ->
  exists hs parsed, header_text input = Some hs /\ Mime.from_str hs = Ok parsed
                    /\ du_mime_type d = match parsed with Some m => m | None => fallback_mime end.
Proof.
  unfold process_bytes, header_text, header_of, after_colon_of. unfold bind at 1.
  destruct (pretend_parse_data_url input) as [[a|]| |]; try discriminate. unfold bind at 1.
  destruct (find_comma_before_fragment a) as [[[h b]|]| |]; try discriminate. unfold bind.
  destruct (parse_header h) as [r| |] eqn:E; try discriminate. intros H. inversion H; subst. cbn [du_mime_type].
  destruct (parse_header_text h r E) as (p & Hp & Hr). exists (header_string (header_mime_text h)), p. tauto.
Qed.

(* ---------------------------------------------------------------- the header string of a byte input is a &str *)
Section Keep.
Variable P : N -> Prop.
Lemma drop_while_keep f l : Forall P l -> Forall P (DataUrl.drop_while f l).
Proof.
  induction 1 as [|c r Hc Hr IH]; [constructor|]. cbn [DataUrl.drop_while]. destruct (f c); [exact IH | constructor; assumption].
Qed.
Lemma drop_while_end_keep f l : Forall P l -> Forall P (drop_while_end f l).
Proof. intros H. unfold drop_while_end. apply Forall_rev. apply drop_while_keep. apply Forall_rev. exact H. Qed.
Lemma firstn_keep i (l : list N) : Forall P l -> Forall P (firstn i l).
Proof. intros H. rewrite <- (firstn_skipn i l) in H. apply Forall_app in H. exact (proj1 H). Qed.
Lemma skipn_keep i (l : list N) : Forall P l -> Forall P (skipn i l).
Proof. intros H. rewrite <- (firstn_skipn i l) in H. apply Forall_app in H. exact (proj2 H). Qed.
Lemma slice_from_keep site s i r : Forall P s -> slice_from site s i = Ok r -> Forall P r.
Proof.
  unfold slice_from. destruct (is_char_boundary s i); [|discriminate]. intros Hs H. inversion H; subst. apply skipn_keep. exact Hs.
Qed.
Lemma slice_to_keep site s i r : Forall P s -> slice_to site s i = Ok r -> Forall P r.
Proof.
  unfold slice_to. destruct (is_char_boundary s i); [|discriminate]. intros Hs H. inversion H; subst. apply firstn_keep. exact Hs.
Qed.
Lemma after_colon_keep input a : Forall P input -> after_colon_of input = Some a -> Forall P a.
Proof.
  intros Hi. unfold after_colon_of, pretend_parse_data_url.
  pose proof (drop_while_keep is_c0_or_space input Hi) as H2.
  set (lt := DataUrl.drop_while is_c0_or_space input) in *.
  destruct (require_scheme T_DU_SCHEME lt) as [b1|]; [|discriminate].
  destruct (filter_next b1) as [[b bytes]|]; [|discriminate].
  destruct (negb (b =? T_DU_COLON)); [discriminate|]. unfold bind.
  destruct (slice_from 175 lt (length lt - length bytes)) as [ac| |] eqn:E; try discriminate.
  intros H. inversion H; subst. apply drop_while_end_keep. exact (slice_from_keep 175 lt _ ac H2 E).
Qed.
Lemma fcbf_loop_keep a : Forall P a -> forall rest i h b, fcbf_loop a i rest = Ok (Some (h, b)) -> Forall P h.
Proof.
  intros Ha. induction rest as [|c r IH]; intros i h b; cbn [fcbf_loop]; [discriminate|].
  destruct (c =? T_DU_COMMA).
  - unfold bind. destruct (slice_to 184 a i) as [x| |] eqn:E; try discriminate.
    destruct (slice_from 184 a (i + 1)) as [y| |]; try discriminate. intros H. inversion H; subst.
    exact (slice_to_keep 184 a i h Ha E).
  - destruct (c =? T_DU_HASH); [discriminate|]. apply IH.
Qed.
Lemma header_of_keep input h : Forall P input -> header_of input = Some h -> Forall P h.
Proof.
  intros Hi. unfold header_of. destruct (after_colon_of input) as [a|] eqn:Ea; [|discriminate].
  pose proof (after_colon_keep input a Hi Ea) as H1. unfold find_comma_before_fragment.
  destruct (fcbf_loop a 0 a) as [[[h' b]|]| |] eqn:E; try discriminate. intros H. inversion H; subst.
  exact (fcbf_loop_keep a H1 a 0 h b E).
Qed.
Lemma header_mime_text_keep h : Forall P h -> Forall P (header_mime_text h).
Proof.
  intros Hh. unfold header_mime_text.
  assert (Ht : Forall P (header_trimmed h)) by (unfold header_trimmed; apply drop_while_end_keep; apply drop_while_keep; exact Hh).
  destruct (remove_base64_suffix (header_trimmed h)) as [[t|]| |] eqn:E; try exact Ht.
  revert E. unfold remove_base64_suffix. destruct (require_exact _ _) as [r1|]; [|discriminate].
  destruct (require_nocase _ _) as [r2|]; [|discriminate]. destruct (skip_while_next r2) as [[b bytes]|]; [|discriminate].
  destruct (negb (b =? T_DU_B64_SEP)); [discriminate|]. unfold bind.
  destruct (slice_to 265 (header_trimmed h) (length bytes)) as [x| |] eqn:E; try discriminate. intros H. inversion H; subst.
  exact (slice_to_keep 265 _ _ t Ht E).
Qed.
End Keep.

Theorem header_text_usv input hs : bytes input -> header_text input = Some hs -> usv_list hs.
Proof.
  intros Hb. unfold header_text. destruct (header_of input) as [h|] eqn:Eh; [|discriminate]. intros H. inversion H; subst.
  apply C17_Total.header_string_usv. apply (header_mime_text_keep is_byte). exact (header_of_keep is_byte input h Hb Eh).
Qed.

(* the whole pre-parser: linear for a bounded number of MIME parameters *)
Theorem process_cost_linear input hs m :
  bytes input -> header_text input = Some hs -> Mime.parse hs = Ok (Some m) ->
  process_cost input <= 13 * nlen input + 31 + (14 + plen (m_params m)) * (3 * nlen input + 11) + 4.
Proof.
  intros Hb Hh Hp. pose proof (header_text_usv input hs Hb Hh) as Hu. unfold process_cost. rewrite Hh. pose proof (scan_cost_linear input) as H1.
  pose proof (header_text_len input hs Hh) as H2. pose proof (mime_parse_cost_le hs m Hu Hp) as H3.
  assert ((14 + plen (m_params m)) * (nlen hs + 1) <= (14 + plen (m_params m)) * (3 * nlen input + 11)) by
    (apply N.mul_le_mono_l; lia).
  lia.
Qed.

Theorem process_cost_no_header input : header_text input = None -> process_cost input <= 13 * nlen input + 31.
Proof. intros Hh. unfold process_cost. rewrite Hh. pose proof (scan_cost_linear input). lia. Qed.
