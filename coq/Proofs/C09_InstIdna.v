(* Proofs/C09_InstIdna.v - what IdnaOK (the premise of the domain clauses of C09 and of every instantiated
   URL-level theorem) amounts to for the IDNA MODEL (Model/Uts46.v, the function host.rs calls:
   idna::domain_to_ascii_cow(bytes, AsciiDenyList::URL)): its three clauses are
     (1) C10_ascii_statement at the URL deny list (outputs are ASCII, lower case, outside the deny list),
     (2) idempotence of ToASCII at (URL deny list, Hyphens::Allow, DnsLength::Ignore) on every byte input
         - C10_idem_statement claims it outside the class Known_C12 only,
     (3) dotted-decimal text is mapped to itself.
   No new hypothesis is introduced: IdnaOK is DERIVED from these three facts about to_ascii. *)
From RU Require Import Base.Prelude Base.Utf8 Base.U32_c13 Gen.Tables Model.Punycode Model.Uts46
  Proofs.Idna_Sim Proofs.Idna_Api Proofs.Idna_Known Proofs.Idna_Hyp.
From RU Require Import Model.HostT Model.Host Proofs.C09_Host.

(* the Section variable idna_to_ascii of Model/Host.v, filled with the IDNA model: the argument is a &[u8] *)
Definition idna_of (A : adapter) (cfg : bool) (bs : list N) : option (list N) :=
  if forallb is_byteb bs then
    match domain_to_ascii_cow A cfg bs DENY_URL with
    | U32_c13.Ok (_, r) => Some r
    | _ => None
    end
  else None.

Lemma forallb_bytes bs : forallb is_byteb bs = true -> bytes bs.
Proof.
  intros H. apply Forall_forall. intros b Hb. rewrite forallb_forall in H. specialize (H b Hb).
  unfold is_byteb in H. unfold is_byte. lia.
Qed.

Lemma valid_deny_url : valid_deny DENY_URL.
Proof. right. exists T_IDNA_URL_GLYPHLESS, T_IDNA_URL_LIST. vm_compute. reflexivity. Qed.

(* the deny list host.rs passes (regenerated from host.rs) is the URL deny list of uts46.rs plus upper case *)
Lemma url_deny_sweep :
  all_below 128 (fun c => is_upper c || deny_member DENY_URL c || negb (memb c T_HOST_IDNA_DENIED)) = true.
Proof. vm_compute. reflexivity. Qed.

Lemma url_deny_dom_char c : c < 128 -> is_upper c = false -> deny_member DENY_URL c = false -> dom_char_ok c.
Proof.
  intros L H1 H2. split; [exact L|]. pose proof (all_below_spec 128 _ url_deny_sweep c L) as S. cbv beta in S.
  rewrite H1, H2 in S. cbn [orb] in S. apply negb_true_iff in S. exact S.
Qed.

Definition idem_url (A : adapter) (cfg : bool) : Prop := forall d b r, bytes d ->
  to_ascii A cfg d DENY_URL HAllow DIgnore = U32_c13.Ok (b, r) ->
  exists b', to_ascii A cfg r DENY_URL HAllow DIgnore = U32_c13.Ok (b', r).
Definition v4_fixed (A : adapter) (cfg : bool) : Prop := forall a, a < 4294967296 ->
  exists b, to_ascii A cfg (ipv4_display a) DENY_URL HAllow DIgnore = U32_c13.Ok (b, ipv4_display a).

Theorem IdnaOK_of_model A cfg :
  C10_ascii_statement A cfg -> idem_url A cfg -> v4_fixed A cfg -> IdnaOK (idna_of A cfg).
Proof.
  intros HA HI HV.
  assert (Out : forall bs d, idna_of A cfg bs = Some d -> Forall dom_char_ok d).
  { intros bs d H. unfold idna_of in H. destruct (forallb is_byteb bs) eqn:Eb; [|discriminate].
    unfold domain_to_ascii_cow in H.
    destruct (to_ascii A cfg bs DENY_URL HAllow DIgnore) as [[b r]| |] eqn:E; try discriminate.
    inversion H; subst.
    pose proof (HA bs DENY_URL HAllow DIgnore b d (forallb_bytes bs Eb) valid_deny_url E) as F.
    eapply Forall_impl; [|exact F]. intros c (L & U & D). exact (url_deny_dom_char c L U D). }
  constructor.
  - exact Out.
  - intros bs d H. pose proof (Out bs d H) as Hd. unfold idna_of in H |- *.
    destruct (forallb is_byteb bs) eqn:Eb; [|discriminate]. unfold domain_to_ascii_cow in *.
    destruct (to_ascii A cfg bs DENY_URL HAllow DIgnore) as [[b r]| |] eqn:E; try discriminate.
    inversion H; subst.
    assert (Ed : forallb is_byteb d = true).
    { apply forallb_forall. intros c Hc. rewrite Forall_forall in Hd. destruct (Hd c Hc) as [L _]. unfold is_byteb. lia. }
    rewrite Ed. destruct (HI bs b d (forallb_bytes bs Eb) E) as [b' E']. rewrite E'. reflexivity.
  - intros a Ha. unfold idna_of.
    assert (Ed : forallb is_byteb (ipv4_display a) = true).
    { destruct (ipv4_display_digits a Ha) as (Hd & _). apply forallb_forall. intros c Hc.
      rewrite Forall_forall in Hd. unfold is_byteb. destruct (Hd c Hc) as [D| ->]; [unfold is_digit in D|]; lia. }
    rewrite Ed. unfold domain_to_ascii_cow. destruct (HV a Ha) as [b E]. rewrite E. reflexivity.
Qed.

(* clause (2) is what C10_idem_statement says outside Known_C12 *)
Lemma idem_url_from_C10 A cfg : C10_idem_statement A cfg -> AdapterOK A -> PunyRT cfg ->
  (forall d, bytes d -> Known_C12 A cfg d DENY_URL HAllow = false) -> idem_url A cfg.
Proof.
  intros HC HA HP HK d b r Hb E. exact (HC HA HP d DENY_URL HAllow DIgnore b r Hb valid_deny_url (HK d Hb) E).
Qed.

(* instances of the three premises, executed on the IDNA model with the small adapter of Idna_Known.v (the
   premises themselves are universally quantified statements of C10, not established here): "Ab.c" -> "ab.c",
   which is mapped to itself; the dotted decimal text of 1.2.3.4 is mapped to itself; "a b" (space: on the URL
   deny list) is refused; and the host model linked with idna_of reads "EXAMPLE.1.2.3.4"-style input through it *)
Example idna_of_examples :
  idna_of toy true [65; 98; 46; 99] = Some [97; 98; 46; 99]
  /\ idna_of toy true [97; 98; 46; 99] = Some [97; 98; 46; 99]
  /\ idna_of toy true (ipv4_display 16909060) = Some (ipv4_display 16909060)
  /\ idna_of toy true [97; 32; 98] = None
  /\ idna_of toy true [97; 300] = None
  /\ host_parse (idna_of toy true) [65; 98; 46; 99] = HostT.Ok (HDomain [97; 98; 46; 99])
  /\ host_parse (idna_of toy true) [48; 120; 49; 46; 50] = HostT.Ok (HIpv4 16777218).
Proof. vm_compute. repeat split; reflexivity. Qed.
