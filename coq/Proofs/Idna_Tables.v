(* Proofs/Idna_Tables.v - the regenerated constants of uts46.rs are the ones UTS #46 / the WHATWG URL
   Standard / the crate's documentation specify.  A change of a constant in the Rust source breaks
   exactly one of these. *)
From RU Require Import Base.Prelude Base.Utf8 Base.U32_c13 Gen.Tables Model.Punycode Model.Uts46.

Definition mask_of (f : N -> bool) : N :=
  snd (N.iter 128 (fun st => (fst st + 1, if f (fst st) then N.lor (snd st) (N.shiftl 1 (fst st)) else snd st)) (0, 0)).

Lemma idna_limits :
  T_IDNA_DNS_TOTAL = 253 /\ T_IDNA_DNS_LABEL = 63 /\ T_IDNA_DECODE_MAX = 2000 /\ T_IDNA_ENCODE_MAX = 1000.
Proof. repeat split; reflexivity. Qed.

Lemma idna_masks :
  T_IDNA_UPPER_MASK = mask_of is_upper /\
  T_IDNA_GLYPHLESS_MASK = mask_of (fun b => (b <=? 32) || (b =? 127)) /\
  T_IDNA_LDH_MASK = mask_of (fun b => negb (is_lower b || is_digit b || (b =? 45) || (b =? 46))) /\
  T_IDNA_DOT_MASK = N.shiftl 1 46 /\
  (* the WHATWG forbidden domain code points that are not glyphless *)
  T_IDNA_URL_GLYPHLESS = true /\ T_IDNA_URL_LIST = [37; 35; 47; 58; 60; 62; 63; 64; 91; 92; 93; 94; 124] /\
  T_IDNA_EMPTY_GLYPHLESS = false /\ T_IDNA_EMPTY_LIST = [].
Proof. vm_compute. repeat split; reflexivity. Qed.

Lemma idna_prefix :
  T_IDNA_PREFIX = 45 * 16777216 + 45 * 65536 + 78 * 256 + 88 /\
  T_IDNA_PREFIX_MASK = 255 * 16777216 + 255 * 65536 + 223 * 256 + 223 /\
  (* has_punycode_prefix on the sixteen spellings and a few non-prefixes *)
  forallb has_punycode_prefix [[120;110;45;45]; [88;110;45;45]; [120;78;45;45]; [88;78;45;45]; [120;110;45;45;97]] = true /\
  existsb has_punycode_prefix [[120;110;45]; [120;110;45;46]; [121;110;45;45]; [120;111;45;45]; [120;110;13;45]; [24;110;45;45]] = false.
Proof. vm_compute. repeat split; reflexivity. Qed.

Lemma idna_ranges :
  T_IDNA_BIDI_BELOW = 1424 /\ T_IDNA_JOINER_LO = 8204 /\ T_IDNA_JOINER_HI = 8205 /\
  T_IDNA_TRANS = [(223, [115; 115]); (7838, [115; 115]); (962, [963]); (8204, []); (8205, [])].
Proof. repeat split; reflexivity. Qed.
