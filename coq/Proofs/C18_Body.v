(* Proofs/C18_Body.v - decode_without_base64 / decode_with_base64 against any sink. *)
From RU Require Import Base.Prelude Gen.Tables Model.Base64 Proofs.C18_Machine.

(* pure trace of decode_without_base64's loop: chunks written if every write succeeds, then
   Some fragment-option, or None for the slice panic *)
Fixpoint pdwo_loop (bytes : list N) (i slice_start : nat) (rest : list N)
  : list (list N) * option (option (list N)) :=
  match rest with
  | [] =>
      if (length bytes <? slice_start)%nat then ([], None)
      else ([skipn slice_start bytes], Some None)
  | byte :: rest' =>
      if memb byte T_BODY_SPECIAL then
        let pre := if (slice_start <? i)%nat then [slice bytes slice_start i] else [] in
        let ss1 := if (slice_start <? i)%nat then i else slice_start in
        if byte =? 37 then
          let l := match rest' with _ :: b :: _ => to_digit16 b | _ => None end in
          let h := match rest' with b :: _ => to_digit16 b | _ => None end in
          match h, l with
          | Some hv, Some lv =>
              let (cs, fin) := pdwo_loop bytes (S i) (i + 3)%nat rest' in (pre ++ [hv * 16 + lv] :: cs, fin)
          | _, _ => let (cs, fin) := pdwo_loop bytes (S i) ss1 rest' in (pre ++ cs, fin)
          end
        else if byte =? 35 then (pre, Some (Some (skipn (i + 1) bytes)))
        else let (cs, fin) := pdwo_loop bytes (S i) (i + 1)%nat rest' in (pre ++ cs, fin)
      else pdwo_loop bytes (S i) slice_start rest'
  end.

Definition pdwo (body : list N) := pdwo_loop body 0%nat 0%nat body.

Definition body_fin {E} (fin : option (option (list N))) : body_result E :=
  match fin with Some f => BodyOk f | None => BodyPanic end.

Section AnySink.
  Context {W E : Type}.
  Variable write : W -> list N -> W * option E.

  Definition execb (w : W) (t : list (list N) * option (option (list N))) : W * body_result E :=
    match attempt write w (fst t) with
    | (w', None) => (w', body_fin (snd t))
    | (w', Some e) => (w', BodyErr e)
    end.

  Lemma execb_cons w c cs fin :
    execb w (c :: cs, fin) = match write w c with
                             | (w', Some e) => (w', BodyErr e)
                             | (w', None) => execb w' (cs, fin)
                             end.
  Proof.
    unfold execb. cbn [fst snd attempt]. destruct (write w c) as [w' [e|]]; reflexivity.
  Qed.

  Lemma dwo_loop_exec bytes w i ss rest :
    dwo_loop write bytes w i ss rest = execb w (pdwo_loop bytes i ss rest).
  Proof.
    revert w i ss. induction rest as [|byte rest' IH]; intros w i ss.
    - cbn [dwo_loop pdwo_loop]. destruct (length bytes <? ss)%nat.
      + reflexivity.
      + rewrite execb_cons. destruct (write w (skipn ss bytes)) as [w' [e|]]; reflexivity.
    - cbn [dwo_loop pdwo_loop]. destruct (memb byte T_BODY_SPECIAL); [|apply IH].
      destruct (ss <? i)%nat.
      + (* flush first *)
        cbn [app].
        destruct (byte =? 37).
        * destruct (match rest' with b :: _ => to_digit16 b | [] => None end) as [hv|];
            [destruct (match rest' with _ :: b :: _ => to_digit16 b | _ => None end) as [lv|]|].
          -- destruct (pdwo_loop bytes (S i) (i + 3) rest') as [cs fin] eqn:Ep.
             rewrite execb_cons. destruct (write w (slice bytes ss i)) as [w1 [e|]]; [reflexivity|].
             rewrite execb_cons. destruct (write w1 [hv * 16 + lv]) as [w2 [e|]]; [reflexivity|].
             rewrite IH, Ep. reflexivity.
          -- destruct (pdwo_loop bytes (S i) i rest') as [cs fin] eqn:Ep.
             rewrite execb_cons. destruct (write w (slice bytes ss i)) as [w1 [e|]]; [reflexivity|].
             rewrite IH, Ep. reflexivity.
          -- destruct (pdwo_loop bytes (S i) i rest') as [cs fin] eqn:Ep.
             rewrite execb_cons. destruct (write w (slice bytes ss i)) as [w1 [e|]]; [reflexivity|].
             rewrite IH, Ep. reflexivity.
        * destruct (byte =? 35).
          -- rewrite execb_cons. destruct (write w (slice bytes ss i)) as [w1 [e|]]; reflexivity.
          -- destruct (pdwo_loop bytes (S i) (i + 1) rest') as [cs fin] eqn:Ep.
             rewrite execb_cons. destruct (write w (slice bytes ss i)) as [w1 [e|]]; [reflexivity|].
             rewrite IH, Ep. reflexivity.
      + cbn [app].
        destruct (byte =? 37).
        * destruct (match rest' with b :: _ => to_digit16 b | [] => None end) as [hv|];
            [destruct (match rest' with _ :: b :: _ => to_digit16 b | _ => None end) as [lv|]|].
          -- destruct (pdwo_loop bytes (S i) (i + 3) rest') as [cs fin] eqn:Ep.
             rewrite execb_cons. destruct (write w [hv * 16 + lv]) as [w2 [e|]]; [reflexivity|].
             rewrite IH, Ep. reflexivity.
          -- destruct (pdwo_loop bytes (S i) ss rest') as [cs fin] eqn:Ep. rewrite IH, Ep. reflexivity.
          -- destruct (pdwo_loop bytes (S i) ss rest') as [cs fin] eqn:Ep. rewrite IH, Ep. reflexivity.
        * destruct (byte =? 35); [reflexivity|].
          destruct (pdwo_loop bytes (S i) (i + 1) rest') as [cs fin] eqn:Ep. rewrite IH, Ep. reflexivity.
  Qed.

  Theorem dwo_exec w body : decode_without_base64 write w body = execb w (pdwo body).
  Proof. apply dwo_loop_exec. Qed.
End AnySink.

(* ---- the slice panic is unreachable ---- *)
Lemma pdwo_loop_no_panic bytes i ss rest :
  length bytes = (i + length rest)%nat -> (ss <= length bytes)%nat ->
  snd (pdwo_loop bytes i ss rest) <> None.
Proof.
  revert i ss. induction rest as [|byte rest' IH]; intros i ss Hlen Hss.
  - cbn [pdwo_loop]. destruct (length bytes <? ss)%nat eqn:Hlt; [apply Nat.ltb_lt in Hlt; lia|].
    cbn [snd]. discriminate.
  - cbn [pdwo_loop]. cbn [length] in Hlen.
    destruct (memb byte T_BODY_SPECIAL); [|apply IH; lia].
    destruct (byte =? 37).
    + destruct rest' as [|h [|l r'']].
      * cbn [to_digit16].
        destruct (pdwo_loop bytes (S i) (if (ss <? i)%nat then i else ss) []) as [cs fin] eqn:Ep.
        cbn [snd]. change fin with (snd (cs, fin)). rewrite <- Ep. apply IH; [cbn [length] in *; lia|].
        destruct (ss <? i)%nat; lia.
      * destruct (to_digit16 h);
        destruct (pdwo_loop bytes (S i) (if (ss <? i)%nat then i else ss) [h]) as [cs fin] eqn:Ep;
        cbn [snd]; change fin with (snd (cs, fin)); rewrite <- Ep; (apply IH; [cbn [length] in *; lia|]);
        destruct (ss <? i)%nat; lia.
      * destruct (to_digit16 h); [destruct (to_digit16 l)|].
        -- destruct (pdwo_loop bytes (S i) (i + 3) (h :: l :: r'')) as [cs fin] eqn:Ep.
           cbn [snd]. change fin with (snd (cs, fin)). rewrite <- Ep. apply IH; cbn [length] in *; lia.
        -- destruct (pdwo_loop bytes (S i) (if (ss <? i)%nat then i else ss) (h :: l :: r'')) as [cs fin] eqn:Ep.
           cbn [snd]. change fin with (snd (cs, fin)). rewrite <- Ep. apply IH; [cbn [length] in *; lia|].
           destruct (ss <? i)%nat; lia.
        -- destruct (pdwo_loop bytes (S i) (if (ss <? i)%nat then i else ss) (h :: l :: r'')) as [cs fin] eqn:Ep.
           cbn [snd]. change fin with (snd (cs, fin)). rewrite <- Ep. apply IH; [cbn [length] in *; lia|].
           destruct (ss <? i)%nat; lia.
    + destruct (byte =? 35); [cbn [snd]; discriminate|].
      destruct (pdwo_loop bytes (S i) (i + 1) rest') as [cs fin] eqn:Ep.
      cbn [snd]. change fin with (snd (cs, fin)). rewrite <- Ep. apply IH; lia.
Qed.

Lemma pdwo_no_panic body : exists f, snd (pdwo body) = Some f.
Proof.
  pose proof (pdwo_loop_no_panic body 0 0 body eq_refl ltac:(lia)) as H.
  unfold pdwo. destruct (snd (pdwo_loop body 0 0 body)) as [f|]; [exists f; reflexivity | congruence].
Qed.

(* ---- sink law for decode_without_base64 ---- *)
Theorem dwo_sink_law body k :
  (1 <= k)%nat ->
  sink_law (BodyErr tt)
    (decode_without_base64 kwrite (ksink_new None) body)
    (decode_without_base64 kwrite (ksink_new (Some k)) body) k.
Proof.
  intros Hk. rewrite !dwo_exec. unfold execb.
  pose proof (attempt_sink_law (BodyErr tt) (body_fin (snd (pdwo body))) (fst (pdwo body)) k Hk) as H.
  destruct (attempt kwrite (ksink_new None) (fst (pdwo body))) as [s1 [[]|]];
  destruct (attempt kwrite (ksink_new (Some k)) (fst (pdwo body))) as [s2 [[]|]]; exact H.
Qed.

(* ---- decode_with_base64 = the Decoder run on the concatenation of what decode_without_base64 writes ---- *)
Definition b64_body_result {E} (f : option (list N)) (v : option (decode_error E)) : body_result (decode_error E) :=
  match v with None => BodyOk f | Some e => BodyErr e end.

Theorem dwb_is_run {W E} (write : W -> list N -> W * option E) w body :
  exists f, snd (pdwo body) = Some f /\
  decode_with_base64 write w body =
  let (w', v) := run write w (concat (fst (pdwo body))) in (w', b64_body_result f v).
Proof.
  destruct (pdwo_no_panic body) as [f Hf]. exists f. split; [exact Hf|].
  unfold decode_with_base64. rewrite dwo_exec. unfold execb.
  rewrite attempt_feed_is_feed_chunks, feed_chunks_concat, Hf. cbn [body_fin].
  rewrite run_unfold.
  destruct (feed write (decoder_new w) (concat (fst (pdwo body)))) as [d [e|]].
  - reflexivity.
  - destruct (finish write d) as [w' [e|]]; reflexivity.
Qed.

Theorem dwb_sink_law body k :
  (1 <= k)%nat ->
  sink_law (BodyErr (WriteError tt))
    (decode_with_base64 kwrite (ksink_new None) body)
    (decode_with_base64 kwrite (ksink_new (Some k)) body) k.
Proof.
  intros Hk.
  destruct (dwb_is_run kwrite (ksink_new None) body) as [f [Hf H1]].
  destruct (dwb_is_run kwrite (ksink_new (Some k)) body) as [f' [Hf' H2]].
  rewrite Hf in Hf'. inversion Hf'; subst f'. rewrite H1, H2.
  pose proof (run_sink_law (concat (fst (pdwo body))) k Hk) as H.
  destruct (run kwrite (ksink_new None) (concat (fst (pdwo body)))) as [s1 v1].
  destruct (run kwrite (ksink_new (Some k)) (concat (fst (pdwo body)))) as [s2 v2].
  unfold sink_law in *. cbn [fst snd] in *. destruct H as [HA HB]. split; [exact HA|].
  destruct (k <=? ks_calls s1)%nat.
  - destruct HB as [B1 [B2 B3]]. subst v2. repeat split; assumption.
  - destruct HB as [B1 [B2 B3]]. subst v2. repeat split; assumption.
Qed.

(* DataUrl::decode *)
Theorem data_url_decode_sink_law base64 body k :
  (1 <= k)%nat ->
  sink_law (BodyErr (WriteError tt))
    (data_url_decode kwrite base64 (ksink_new None) body)
    (data_url_decode kwrite base64 (ksink_new (Some k)) body) k.
Proof.
  intros Hk. destruct base64; cbn [data_url_decode]; [apply dwb_sink_law; exact Hk|].
  pose proof (dwo_sink_law body k Hk) as H.
  destruct (decode_without_base64 kwrite (ksink_new None) body) as [s1 r1].
  destruct (decode_without_base64 kwrite (ksink_new (Some k)) body) as [s2 r2].
  unfold sink_law in H. cbn [fst snd] in H. destruct H as [HA HB].
  unfold sink_law.
  destruct r1 as [f1|[]|]; destruct r2 as [f2|[]|]; cbn [fst snd]; (split; [exact HA|]);
    destruct (k <=? ks_calls s1)%nat; destruct HB as [B1 [B2 B3]];
    try discriminate B2; try (inversion B2; subst); repeat split; try assumption; reflexivity.
Qed.
