(* Proofs/C13_Vli.v - generalized variable-length integers for a fixed bias: the decoder loop reads the
   digit string that the encoder writes for q and arrives at i + q * w, at the end of that delta. *)
From RU Require Import Base.Prelude Spec.Rfc3492.

(* the decoder's continuation at the digit that ends a delta (the `break` branch of s_dec_loop) *)
Definition s_dec_break (dig : N -> option N) (rest : list N) (oldi i n bias : N) (out : list N) : option (list N) :=
  let len1 := N.of_nat (length out) + 1 in
  let bias := s_adapt (i - oldi) len1 (oldi =? 0) in
  let n := n + i / len1 in
  let i := i mod len1 in
  if is_usvb n then s_dec_loop dig rest false (i + 1) 1 s_base (i + 1) n bias (s_insert_at i n out) else None.

Lemma s_threshold_range k bias : 1 <= s_threshold k bias <= 26.
Proof.
  unfold s_threshold, s_tmin, s_tmax.
  destruct (k <=? bias) eqn:E1; [lia|]. destruct (bias + 26 <=? k) eqn:E2; lia.
Qed.

Lemma s_digit_value_char d : d < 36 -> s_digit_value (s_digit_char d) = Some d.
Proof.
  intros H. unfold s_digit_value, s_digit_char. destruct (d <? 26) eqn:E.
  - replace ((48 <=? d + 97) && (d + 97 <=? 57)) with false by lia.
    replace ((65 <=? d + 97) && (d + 97 <=? 90)) with false by lia.
    replace ((97 <=? d + 97) && (d + 97 <=? 122)) with true by lia. f_equal. lia.
  - replace ((48 <=? d - 26 + 48) && (d - 26 + 48 <=? 57)) with true by lia. f_equal. lia.
Qed.

Lemma vli_decode dig (Hdig : forall d, d < 36 -> dig (s_digit_char d) = Some d) f :
  forall q k bias w i rest mid oldi n out, q < 2 ^ N.of_nat f ->
  s_dec_loop dig (s_enc_vli (S f) q k bias ++ rest) mid oldi w k i n bias out
  = s_dec_break dig rest oldi (i + q * w) n bias out.
Proof.
  induction f as [|f IH]; intros q k bias w i rest mid oldi n out Hq.
  - change (2 ^ N.of_nat 0) with 1 in Hq. assert (q = 0) by lia. subst q.
    pose proof (s_threshold_range k bias) as Ht.
    cbn [s_enc_vli]. replace (0 <? s_threshold k bias) with true by lia.
    cbn [app s_dec_loop]. rewrite Hdig by lia. cbv zeta.
    replace (0 <? s_threshold k bias) with true by lia. reflexivity.
  - remember (S f) as f1. cbn [s_enc_vli].
    pose proof (s_threshold_range k bias) as Ht. remember (s_threshold k bias) as t.
    destruct (q <? t) eqn:E.
    + cbn [app s_dec_loop]. rewrite Hdig by lia. cbv zeta. rewrite <- Heqt. rewrite E. reflexivity.
    + change s_base with 36.
      assert (Hm : (q - t) mod (36 - t) < 36 - t) by (apply N.mod_lt; lia).
      pose proof (N.div_mod (q - t) (36 - t) ltac:(lia)) as Hdm.
      remember ((q - t) mod (36 - t)) as r. remember ((q - t) / (36 - t)) as q'.
      cbn [app s_dec_loop]. rewrite Hdig by lia. cbv zeta. rewrite <- Heqt.
      replace (t + r <? t) with false by lia.
      change s_base with 36. subst f1. rewrite IH.
      * f_equal. assert (Hqq : q = t + ((36 - t) * q' + r)) by lia.
        rewrite Hqq. ring.
      * rewrite Nat2N.inj_succ, N.pow_succ_r' in Hq.
        assert (Hle : (q - t) / (36 - t) <= (q - t) / 10) by (apply N.div_le_compat_l; lia).
        rewrite <- Heqq' in Hle.
        pose proof (N.div_mod (q - t) 10 ltac:(lia)) as Hd. pose proof (N.mod_lt (q - t) 10 ltac:(lia)) as Hm2.
        remember ((q - t) / 10) as q10. remember (2 ^ N.of_nat f) as P. lia.
Qed.

(* with the RFC's digit map and the fuel the encoder uses *)
Lemma vli_round_trip q k bias w i rest mid oldi n out :
  s_dec_loop s_digit_value (s_enc_vli (s_vli_fuel q) q k bias ++ rest) mid oldi w k i n bias out
  = s_dec_break s_digit_value rest oldi (i + q * w) n bias out.
Proof.
  unfold s_vli_fuel. apply vli_decode; [exact s_digit_value_char|]. rewrite N2Nat.id. apply N.size_gt.
Qed.

(* all digits are digit characters, never the delimiter *)
Lemma s_enc_vli_digits fuel : forall q k bias, Forall (fun c => exists d, d < 36 /\ c = s_digit_char d /\ c <> s_delimiter) (s_enc_vli fuel q k bias).
Proof.
  assert (Hc : forall d, d < 36 -> s_digit_char d <> s_delimiter).
  { intros d Hd. unfold s_digit_char, s_delimiter. destruct (d <? 26) eqn:E; lia. }
  induction fuel as [|f IH]; intros q k bias; cbn [s_enc_vli]; [constructor|].
  pose proof (s_threshold_range k bias) as Ht. remember (s_threshold k bias) as t.
  destruct (q <? t) eqn:E.
  - constructor; [|constructor]. exists q. split; [lia|]. split; [reflexivity|apply Hc; lia].
  - change s_base with 36. assert (Hm : (q - t) mod (36 - t) < 36 - t) by (apply N.mod_lt; lia).
    constructor; [|apply IH]. exists (t + (q - t) mod (36 - t)). split; [lia|]. split; [reflexivity|apply Hc; lia].
Qed.
