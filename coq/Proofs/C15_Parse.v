(* Proofs/C15_Parse.v - form_urlencoded::parse: totality, closed form, '&' laws. *)
From RU Require Import Base.Prelude Base.Utf8 Base.Utf8Facts Base.Outcome_c15 Model.AsciiSet Gen.Tables
  Model.PercentEncoding Model.FormUrlencoded Proofs.C14_Set Proofs.C14_Enc Proofs.C14_Views Proofs.C15_Table.

(* ---------------------------------------------------------------- position *)
Lemma position_lt p l i : position p l = Some i -> (i < length l)%nat.
Proof.
  revert i. induction l as [|b r IH]; intros i H; cbn [position] in H; [discriminate|].
  destruct (p b).
  - inversion H; subst. cbn [length]. lia.
  - destruct (position p r) as [j|]; [|discriminate]. inversion H; subst.
    specialize (IH j eq_refl). cbn [length]. lia.
Qed.

Lemma position_none p l : position p l = None <-> Forall (fun b => p b = false) l.
Proof.
  induction l as [|b r IH]; cbn [position].
  - split; [constructor | reflexivity].
  - destruct (p b) eqn:E.
    + split; [discriminate|]. intros H. inversion H; congruence.
    + destruct (position p r) as [j|].
      * split; [discriminate|]. intros H. inversion H as [|? ? _ H2]; subst. apply IH in H2. discriminate.
      * split; [|reflexivity]. intros _. constructor; [exact E | apply IH; reflexivity].
Qed.

(* ---------------------------------------------------------------- replace_plus, decode *)
Lemma plus_to_space_eq b : plus_to_space b = if b =? 43 then 32 else b.
Proof. reflexivity. Qed.

Lemma p2s_plus b : (b =? T_FORM_PLUS) = true -> plus_to_space b = T_FORM_PLUS_REPL.
Proof. intros H. unfold plus_to_space. rewrite H. reflexivity. Qed.
Lemma p2s_other b : (b =? T_FORM_PLUS) = false -> plus_to_space b = b.
Proof. intros H. unfold plus_to_space. rewrite H. reflexivity. Qed.

Theorem replace_plus_value x : snd (replace_plus x) = map plus_to_space x.
Proof.
  induction x as [|b r IH]; [reflexivity|].
  unfold replace_plus in *. cbn [position map].
  destruct (b =? T_FORM_PLUS) eqn:E.
  - cbn [firstn skipn app snd]. rewrite (p2s_plus b E). reflexivity.
  - rewrite (p2s_other b E).
    destruct (position (fun b0 => b0 =? T_FORM_PLUS) r) as [i|] eqn:Ep.
    + cbn [firstn skipn snd app] in *. f_equal. exact IH.
    + cbn [snd] in *. f_equal. exact IH.
Qed.

(* replace_plus borrows exactly when there is no '+' *)
Theorem replace_plus_borrow_iff x :
  fst (replace_plus x) = BorrowedInput <-> Forall (fun b => b <> 43) x.
Proof.
  unfold replace_plus.
  destruct (position (fun b => b =? T_FORM_PLUS) x) as [i|] eqn:Ep; cbn [fst].
  - split; [discriminate|]. intros H.
    assert (Hn : position (fun b => b =? T_FORM_PLUS) x = None).
    { apply position_none. eapply Forall_impl; [|exact H]. cbv beta. intros a Ha.
      change T_FORM_PLUS with 43. lia. }
    congruence.
  - split; [|reflexivity]. intros _. apply position_none in Ep.
    eapply Forall_impl; [|exact Ep]. cbv beta. intros a Ha. change T_FORM_PLUS with 43 in Ha. lia.
Qed.

(* the decoded text: '+' -> space, percent-decode, lossy UTF-8 *)
Definition fdec (x : list N) : list N := utf8_lossy (decode (map plus_to_space x)).

Theorem fu_decode_value x : snd (fu_decode x) = fdec x.
Proof.
  unfold fu_decode, fdec. rewrite <- replace_plus_value.
  set (rp := replace_plus x).
  assert (H : snd (match pd_cow (snd rp) with
                   | (Owned, vec) => (Owned, vec)
                   | (BorrowedInput, _) | (BorrowedStatic, _) => rp
                   end) = decode (snd rp)).
  { pose proof (pd_cow_value (snd rp)) as Hv. unfold pd_cow in *.
    destruct (if_any (snd rp)) as [v|]; cbn [snd] in *; [exact Hv | exact Hv]. }
  unfold decode_utf8_lossy.
  destruct (fst (match pd_cow (snd rp) with
                 | (Owned, vec) => (Owned, vec)
                 | (BorrowedInput, _) | (BorrowedStatic, _) => rp
                 end)); cbn [snd]; rewrite H; reflexivity.
Qed.

Lemma fdec_nil : fdec [] = [].
Proof. reflexivity. Qed.

(* ---------------------------------------------------------------- splitn2 and the list of pieces *)
(* all pieces between occurrences of d (never empty as a list: the empty input has one empty piece) *)
Fixpoint split_all (d : N) (bs : list N) : list (list N) :=
  match bs with
  | [] => [[]]
  | b :: r => if b =? d then [] :: split_all d r
              else match split_all d r with
                   | p :: ps => (b :: p) :: ps
                   | [] => [[b]]
                   end
  end.

Lemma split_all_nonempty d bs : split_all d bs <> [].
Proof.
  induction bs as [|b r IH]; cbn [split_all]; [discriminate|].
  destruct (b =? d); [discriminate|]. destruct (split_all d r); discriminate.
Qed.

Lemma split_all_app d x y : split_all d (x ++ d :: y) = split_all d x ++ split_all d y.
Proof.
  induction x as [|b r IH]; cbn [app split_all].
  - rewrite N.eqb_refl. reflexivity.
  - destruct (b =? d); [rewrite IH; reflexivity|].
    rewrite IH. pose proof (split_all_nonempty d r) as Hn.
    destruct (split_all d r) as [|p ps]; [congruence|]. reflexivity.
Qed.

Lemma split_all_no_delim d x : Forall (fun b => b <> d) x -> split_all d x = [x].
Proof.
  induction x as [|b r IH]; intros H; [reflexivity|].
  inversion H as [|? ? Hb Hr]; subst. cbn [split_all].
  replace (b =? d) with false by lia. rewrite IH by exact Hr. reflexivity.
Qed.

Lemma splitn2_split_all d bs h t : splitn2 d bs = (h, t) ->
  split_all d bs = h :: match t with Some r => split_all d r | None => [] end.
Proof.
  revert h t. induction bs as [|b r IH]; intros h t H; cbn [splitn2] in H.
  - inversion H; subst. reflexivity.
  - cbn [split_all]. destruct (b =? d).
    + inversion H; subst. reflexivity.
    + destruct (splitn2 d r) as [h' t'] eqn:E. inversion H; subst.
      rewrite (IH h' t eq_refl). reflexivity.
Qed.

Lemma splitn2_no_delim d x : Forall (fun b => b <> d) x -> splitn2 d x = (x, None).
Proof.
  induction x as [|b r IH]; intros H; [reflexivity|].
  inversion H as [|? ? Hb Hr]; subst. cbn [splitn2].
  replace (b =? d) with false by lia. rewrite IH by exact Hr. reflexivity.
Qed.

Lemma splitn2_app d x y : Forall (fun b => b <> d) x -> splitn2 d (x ++ d :: y) = (x, Some y).
Proof.
  induction x as [|b r IH]; intros H; cbn [app splitn2].
  - rewrite N.eqb_refl. reflexivity.
  - inversion H as [|? ? Hb Hr]; subst. replace (b =? d) with false by lia.
    rewrite IH by exact Hr. reflexivity.
Qed.

Lemma splitn2_length d bs h t : splitn2 d bs = (h, t) ->
  (length h <= length bs)%nat /\ match t with Some r => (length r < length bs)%nat | None => True end.
Proof.
  revert h t. induction bs as [|b r IH]; intros h t H; cbn [splitn2] in H.
  - inversion H; subst. cbn. split; [lia|exact I].
  - destruct (b =? d).
    + inversion H; subst. cbn [length]. split; lia.
    + destruct (splitn2 d r) as [h' t'] eqn:E. inversion H; subst.
      destruct (IH h' t eq_refl) as [H1 H2]. cbn [length]. split; [lia|].
      destruct t; [lia|exact I].
Qed.

(* ---------------------------------------------------------------- the closed form of parse *)
Definition pair_of (piece : list N) : list N * list N :=
  let (n, v) := splitn2 61 piece in (fdec n, fdec (unwrap_or_empty v)).

Definition emit (piece : list N) : list (list N * list N) :=
  match piece with [] => [] | _ => [pair_of piece] end.

(* split at every '&', drop the empty pieces, split each piece at its first '=' and decode *)
Definition parse_spec (bs : list N) : list (list N * list N) := flat_map emit (split_all 38 bs).

Lemma parse_spec_nil : parse_spec [] = [].
Proof. reflexivity. Qed.

Theorem parse_spec_app_amp x y : parse_spec (x ++ 38 :: y) = parse_spec x ++ parse_spec y.
Proof. unfold parse_spec. rewrite split_all_app, flat_map_app. reflexivity. Qed.

Lemma parse_spec_amp_head x : parse_spec (38 :: x) = parse_spec x.
Proof. exact (parse_spec_app_amp [] x). Qed.

Lemma parse_spec_amp_tail x : parse_spec (x ++ [38]) = parse_spec x.
Proof. rewrite (parse_spec_app_amp x []), parse_spec_nil, app_nil_r. reflexivity. Qed.

Lemma parse_spec_double_amp x y : parse_spec (x ++ 38 :: 38 :: y) = parse_spec (x ++ 38 :: y).
Proof. rewrite !parse_spec_app_amp, parse_spec_amp_head. reflexivity. Qed.

Lemma parse_spec_piece x : x <> [] -> Forall (fun b => b <> 38) x -> parse_spec x = [pair_of x].
Proof.
  intros Hne H. unfold parse_spec. rewrite split_all_no_delim by exact H. cbn [flat_map].
  destruct x; [congruence|]. reflexivity.
Qed.

(* ---------------------------------------------------------------- Parse::next, structurally *)
Fixpoint parse_next_spec (input : list N) : pnext :=
  match input with
  | [] => PNone
  | b :: r =>
      if b =? 38 then parse_next_spec r
      else let (sequence, second) := splitn2 38 input in
           let (name, value) := splitn2 61 sequence in
           PSome (fu_decode name) (fu_decode (unwrap_or_empty value)) (unwrap_or_empty second)
  end.

Lemma parse_next_f_spec n : forall input, (length input < n)%nat ->
  parse_next_f n input = parse_next_spec input.
Proof.
  induction n as [|n IH]; intros input Hlen; [lia|].
  destruct input as [|b r]; [reflexivity|].
  cbn [parse_next_f is_empty parse_next_spec]. change T_FORM_PAIR_SEP with 38. change T_FORM_KV_SEP with 61.
  cbn [splitn2]. destruct (b =? 38) eqn:E.
  - cbn [is_empty unwrap_or_empty]. apply IH. cbn [length] in Hlen. lia.
  - destruct (splitn2 38 r) as [h t]. cbn [is_empty]. reflexivity.
Qed.

Theorem parse_next_is_spec input : parse_next input = parse_next_spec input.
Proof. unfold parse_next. apply parse_next_f_spec. lia. Qed.

(* the loop fuel is never exhausted *)
Theorem parse_next_no_fuel input : parse_next input <> PFuel.
Proof.
  rewrite parse_next_is_spec. induction input as [|b r IH]; cbn [parse_next_spec]; [discriminate|].
  destruct (b =? 38); [exact IH|].
  destruct (splitn2 38 (b :: r)) as [s t]. destruct (splitn2 61 s). discriminate.
Qed.

(* what one successful step yields, in terms of the closed form *)
Lemma parse_next_spec_some input n v rest : parse_next_spec input = PSome n v rest ->
  (length rest < length input)%nat /\ parse_spec input = (snd n, snd v) :: parse_spec rest.
Proof.
  induction input as [|b r IH]; cbn [parse_next_spec]; [discriminate|].
  destruct (b =? 38) eqn:E.
  - intros H. destruct (IH H) as [H1 H2]. cbn [length]. split; [lia|].
    assert (b = 38) as -> by lia. rewrite parse_spec_amp_head. exact H2.
  - destruct (splitn2 38 (b :: r)) as [s t] eqn:Es.
    destruct (splitn2 61 s) as [nm vl] eqn:Ek. intros H. inversion H; subst. clear H.
    pose proof (splitn2_length _ _ _ _ Es) as [_ Hl].
    split.
    + destruct t as [r'|]; cbn [unwrap_or_empty]; [exact Hl | cbn [length]; lia].
    + unfold parse_spec. rewrite (splitn2_split_all _ _ _ _ Es). cbn [flat_map].
      assert (Hs : s <> []).
      { cbn [splitn2] in Es. rewrite E in Es. destruct (splitn2 38 r). inversion Es. discriminate. }
      assert (He : emit s = [(snd (fu_decode nm), snd (fu_decode (unwrap_or_empty vl)))]).
      { destruct s as [|s0 s']; [congruence|]. unfold emit, pair_of. rewrite Ek, !fu_decode_value. reflexivity. }
      rewrite He. cbn [app]. f_equal.
      destruct t as [r'|]; cbn [unwrap_or_empty]; reflexivity.
Qed.

Lemma parse_next_spec_none input : parse_next_spec input = PNone -> parse_spec input = [].
Proof.
  induction input as [|b r IH]; cbn [parse_next_spec]; [reflexivity|].
  destruct (b =? 38) eqn:E.
  - intros H. assert (b = 38) as -> by lia. rewrite parse_spec_amp_head. exact (IH H).
  - destruct (splitn2 38 (b :: r)) as [s t]. destruct (splitn2 61 s). discriminate.
Qed.

Lemma parse_collect_f_spec n : forall input, (length input < n)%nat ->
  parse_collect_f n input = Some (parse_spec input).
Proof.
  induction n as [|n IH]; intros input Hlen; [lia|].
  cbn [parse_collect_f]. unfold parse_into_owned_next. rewrite parse_next_is_spec.
  destruct (parse_next_spec input) as [|nm vl rest|] eqn:E.
  - rewrite (parse_next_spec_none _ E). reflexivity.
  - destruct (parse_next_spec_some _ _ _ _ E) as [H1 H2].
    rewrite IH by lia. rewrite H2. reflexivity.
  - exfalso. apply (parse_next_no_fuel input). rewrite parse_next_is_spec. exact E.
Qed.

(* parse is total (fuel never runs out; there is no Panic constructor in its type at all: the two
   `.unwrap()`s of Parse::next are on the first item of splitn, which the model has by construction) and
   equals the closed form *)
Theorem parse_is_spec input : parse input = Some (parse_spec input).
Proof. unfold parse. apply parse_collect_f_spec. lia. Qed.

(* the Cow-keeping collection agrees with the owned one *)
Lemma parse_collect_cow_f_spec n : forall input, (length input < n)%nat ->
  exists l, parse_collect_cow_f n input = Some l
            /\ map (fun p => (snd (fst p), snd (snd p))) l = parse_spec input.
Proof.
  induction n as [|n IH]; intros input Hlen; [lia|].
  cbn [parse_collect_cow_f]. rewrite parse_next_is_spec.
  destruct (parse_next_spec input) as [|nm vl rest|] eqn:E.
  - exists []. rewrite (parse_next_spec_none _ E). split; reflexivity.
  - destruct (parse_next_spec_some _ _ _ _ E) as [H1 H2].
    destruct (IH rest ltac:(lia)) as (l & Hl1 & Hl2). rewrite Hl1.
    exists ((nm, vl) :: l). split; [reflexivity|]. cbn [map fst snd]. rewrite Hl2, H2. reflexivity.
  - exfalso. apply (parse_next_no_fuel input). rewrite parse_next_is_spec. exact E.
Qed.

Theorem parse_cow_owned input :
  exists l, parse_cow input = Some l /\ map (fun p => (snd (fst p), snd (snd p))) l = parse_spec input.
Proof. unfold parse_cow. apply parse_collect_cow_f_spec. lia. Qed.

(* ---------------------------------------------------------------- the '&' laws for parse itself *)
Theorem parse_app_amp x y :
  parse (x ++ 38 :: y) = Some (parse_spec x ++ parse_spec y).
Proof. rewrite parse_is_spec, parse_spec_app_amp. reflexivity. Qed.

Theorem parse_double_amp x y : parse (x ++ 38 :: 38 :: y) = parse (x ++ 38 :: y).
Proof. rewrite !parse_is_spec, parse_spec_double_amp. reflexivity. Qed.

Theorem parse_amp_head x : parse (38 :: x) = parse x.
Proof. rewrite !parse_is_spec, parse_spec_amp_head. reflexivity. Qed.

Theorem parse_amp_tail x : parse (x ++ [38]) = parse x.
Proof. rewrite !parse_is_spec, parse_spec_amp_tail. reflexivity. Qed.

(* every name and value parse returns is a list of Unicode scalar values *)
Lemma utf8_scan_usv bs : Forall (fun it => match it with UCp c _ => is_usv c | UBad _ _ => True end) (utf8_scan bs).
Proof.
  assert (H : forall n bs, (length bs <= n)%nat ->
    Forall (fun it => match it with UCp c _ => is_usv c | UBad _ _ => True end) (utf8_scan bs)).
  { clear bs. induction n as [|n IH]; intros bs Hlen.
    - destruct bs; [constructor | cbn in Hlen; lia].
    - destruct bs as [|b r]; [constructor|]. cbn [length] in Hlen. cbn [utf8_scan].
      assert (Hr : forall l, (length l <= length r)%nat ->
                Forall (fun it => match it with UCp c _ => is_usv c | UBad _ _ => True end) (utf8_scan l))
        by (intros l Hl; apply IH; lia).
      destruct (b <? 128) eqn:E1.
      { constructor; [unfold is_usv; lia | apply Hr; lia]. }
      destruct ((194 <=? b) && (b <=? 223)) eqn:E2.
      { destruct r as [|c1 r1]; [repeat constructor|].
        destruct (is_cont c1) eqn:Ec.
        - constructor; [unfold is_usv, is_cont in *; lia | apply Hr; cbn [length]; lia].
        - constructor; [exact I | apply Hr; lia]. }
      destruct ((224 <=? b) && (b <=? 239)) eqn:E3.
      { destruct r as [|c1 r1]; [repeat constructor|].
        destruct (ok3 b c1) eqn:Eo.
        - destruct r1 as [|c2 r2]; [repeat constructor|].
          destruct (is_cont c2) eqn:Ec.
          + constructor; [unfold is_usv, ok3, is_cont in *; lia | apply Hr; cbn [length]; lia].
          + constructor; [exact I | apply Hr; cbn [length]; lia].
        - constructor; [exact I | apply Hr; lia]. }
      destruct ((240 <=? b) && (b <=? 244)) eqn:E4.
      { destruct r as [|c1 r1]; [repeat constructor|].
        destruct (ok4 b c1) eqn:Eo.
        - destruct r1 as [|c2 r2]; [repeat constructor|].
          destruct (is_cont c2) eqn:Ec.
          + destruct r2 as [|c3 r3]; [repeat constructor|].
            destruct (is_cont c3) eqn:Ec3.
            * constructor; [unfold is_usv, ok4, is_cont in *; lia | apply Hr; cbn [length]; lia].
            * constructor; [exact I | apply Hr; cbn [length]; lia].
          + constructor; [exact I | apply Hr; cbn [length]; lia].
        - constructor; [exact I | apply Hr; lia]. }
      constructor; [exact I | apply Hr; lia]. }
  apply (H (length bs)). lia.
Qed.

Theorem utf8_lossy_usv bs : usv_list (utf8_lossy bs).
Proof.
  unfold utf8_lossy, usv_list. pose proof (utf8_scan_usv bs) as H.
  induction H as [|it l Hit _ IH]; cbn [map]; constructor; [|exact IH].
  destruct it; [exact Hit | unfold REPLACEMENT, is_usv; lia].
Qed.

Theorem parse_spec_usv bs : Forall (fun p => usv_list (fst p) /\ usv_list (snd p)) (parse_spec bs).
Proof.
  unfold parse_spec. apply Forall_flat_map. apply Forall_forall. intros piece _.
  unfold emit. destruct piece; [constructor|]. constructor; [|constructor].
  unfold pair_of. destruct (splitn2 61 (n :: piece)). cbn [fst snd]. unfold fdec.
  split; apply utf8_lossy_usv.
Qed.
