(* Proofs/C01_EqAuth.v - C01 equivalence, class "scheme://authority...": non-special scheme, no base,
   "//" after the scheme: [userinfo@]host[:port][/path][?query][#fragment].  The Standard's authority,
   host, port, path start states (Proofs/C01_EqAuthSpec.v) against parse_userinfo / parse_host_and_port /
   parse_port / parse_path_start (Proofs/C01_EqAuthModel.v); the host parser is one abstract function
   per side, related on the one string it is applied to (`host_agree`). *)
From RU Require Import Base.Prelude Base.Utf8 Base.Utf8Facts Model.AsciiSet Gen.Tables
  Model.PercentEncoding Model.HostT Model.UrlRecord Model.Parser Model.Setters Model.WF Spec.Whatwg
  Proofs.ListN Proofs.C14_Set Proofs.C14_Enc Proofs.C14_Views Proofs.C02_Enc Proofs.C02_Parts
  Proofs.C02_Opaque Proofs.C02_Path Proofs.C02_PathL1 Proofs.C03_WF Proofs.C01_Tables Proofs.C08_Input
  Proofs.C01_EqRun Proofs.C01_EqEnc Proofs.C01_EqApi Proofs.C01_EqOpaque Proofs.C01_EqDots Proofs.C01_EqPathSpec
  Proofs.C06_List Proofs.C06_Steps Proofs.C01_EqRef Proofs.C01_EqPath Proofs.C01_EqOverflow
  Proofs.C01_EqAuthSpec Proofs.C01_EqAuthModel.

Ltac ll := unfold nlen in *; repeat rewrite app_length in *; cbn [length] in *; lia.

(* ================= the canonical records of the class ================= *)
Definition spec_auth_url (sch un pw : list N) (sh : spec_host) (po : option N) (segs : list (list N))
           (q f : option (list N)) : spec_url :=
  mkSUrl sch un pw (Some sh) po (SPList segs) q f.

Definition auth_s0 (sch : list N) : list N := (sch ++ [58]) ++ [47; 47].

Definition auth_url (sch un pw ht : list N) (hi : host_internal) (po : option N) (pt : list N)
           (q f : option (list N)) : url :=
  let s0 := auth_s0 sch in
  let s1 := s0 ++ cred_text un pw in
  let s2 := s1 ++ ht in
  let s3 := s2 ++ port_suffix po in
  let s4 := s3 ++ pt in
  mkUrl (s4 ++ qf_text q f) (nlen sch) (nlen s0 + nlen un) (nlen s1) (nlen s2) hi po (nlen s3)
        (qf_qs (nlen s4) q) (qf_fs (nlen s4) q f).

(* ---------- small facts ---------- *)
Lemma decimal_serialize_sweep :
  all_below 65536 (fun p => list_eqb (decimal p) (serialize_integer p)) = true.
Proof. vm_compute. reflexivity. Qed.
Lemma decimal_serialize p : p <= 65535 -> decimal p = serialize_integer p.
Proof. intros H. apply list_eqb_spec. apply (all_below_spec 65536 _ decimal_serialize_sweep). lia. Qed.

Lemma byte_eqb_head a r x : byte_eqb (a ++ r) (nlen a) x = starts_with_cp x r.
Proof.
  unfold byte_eqb. rewrite nnth_app_ge by lia. rewrite N.sub_diag. destruct r; reflexivity.
Qed.

Lemma piece_mid (A B C : list N) : nfirstn (nlen (A ++ B) - nlen A) (nskipn (nlen A) (A ++ B ++ C)) = B.
Proof. rewrite nlen_app. replace (nlen A + nlen B - nlen A) with (nlen B) by lia. rewrite nskipn_app_len. apply nfirstn_app_len. Qed.

Definition cred_tail (un pw : list N) : list N :=
  if is_nil un && is_nil pw then [] else (if is_nil pw then [] else 58 :: pw) ++ [64].
Lemma cred_text_split un pw : cred_text un pw = un ++ cred_tail un pw.
Proof.
  unfold cred_text, cred_tail. destruct un as [|a u]; destruct pw as [|b p]; cbn [is_nil andb]; reflexivity.
Qed.

Lemma cred_text_spec un pw :
  (if negb (list_eqb un []) || negb (list_eqb pw [])
   then un ++ (if negb (list_eqb pw []) then 58 :: pw else []) ++ [64] else [])
  = cred_text un pw.
Proof. unfold cred_text. rewrite !list_eqb_nil. destruct (is_nil un); destruct (is_nil pw); reflexivity. Qed.

Lemma flat_map_head (segs : list (list N)) : starts_with_cp 58 (flat_map (fun s => 47 :: s) segs) = false.
Proof. destruct segs; reflexivity. Qed.

Lemma qf_text_head q f : starts_with_cp 58 (qf_text q f) = false.
Proof. destruct q; destruct f; reflexivity. Qed.

Lemma starts_with_cp_app x a b : starts_with_cp x (a ++ b) = match a with [] => starts_with_cp x b | _ => starts_with_cp x a end.
Proof. destruct a; reflexivity. Qed.

Lemma cred_same_len un pw : nlen (cred_text un pw) = nlen un -> un = [] /\ cred_text un pw = [].
Proof.
  unfold cred_text. destruct un as [|a r]; destruct pw as [|b p]; cbn [is_nil andb]; intros H.
  - split; reflexivity.
  - exfalso. rewrite !nlen_app, nlen_cons in H. unfold nlen in H. cbn [length] in H. lia.
  - exfalso. rewrite !nlen_app in H. unfold nlen in H. cbn [length] in H. lia.
  - exfalso. rewrite !nlen_app, !nlen_cons in H. unfold nlen in H. cbn [length] in H. lia.
Qed.

(* the bytes around the credentials, as wf_authority reads them *)
Lemma cred_delims (S U PWD T : list N) :
  let cred := cred_text U PWD in
  let full := S ++ cred ++ T in
  let ue := nlen S + nlen U in
  let hs := nlen S + nlen cred in
  (ue =? hs) = false ->
  (if byte_eqb full ue 58 then (ue + 2 <=? hs) && byte_eqb full (hs - 1) 64
   else byte_eqb full ue 64 && (hs =? ue + 1)) = true.
Proof.
  cbv zeta. unfold cred_text. destruct U as [|a0 un']; destruct PWD as [|b0 pw']; cbn [is_nil andb]; intros E.
  - rewrite nlen_nil, N.eqb_refl in E. discriminate.
  - rewrite nlen_nil, N.add_0_r.
    assert (S ++ ([] ++ (58 :: b0 :: pw') ++ [64]) ++ T = S ++ 58 :: ((b0 :: pw') ++ 64 :: T)) as E1
      by (repeat rewrite <- app_assoc; reflexivity).
    assert (S ++ ([] ++ (58 :: b0 :: pw') ++ [64]) ++ T = (S ++ 58 :: b0 :: pw') ++ 64 :: T) as E2
      by (repeat rewrite <- app_assoc; reflexivity).
    rewrite E1 at 1. rewrite byte_eqb_app. rewrite E2. 
    apply andb_true_iff. split; [unfold nlen; repeat rewrite app_length; cbn [length]; lia|].
    replace (nlen S + nlen ([] ++ (58 :: b0 :: pw') ++ [64]) - 1) with (nlen (S ++ 58 :: b0 :: pw')).
    2:{ unfold nlen; repeat rewrite app_length; cbn [length]; lia. }
    apply byte_eqb_app.
  - assert (S ++ ((a0 :: un') ++ [] ++ [64]) ++ T = (S ++ a0 :: un') ++ 64 :: T) as E1
      by (repeat rewrite <- app_assoc; reflexivity).
    rewrite E1. rewrite <- nlen_app. rewrite byte_eqb_head. cbn [starts_with_cp N.eqb Pos.eqb]. rewrite byte_eqb_app. cbn [andb].
    apply N.eqb_eq. unfold nlen; repeat rewrite app_length; cbn [length]; lia.
  - assert (S ++ ((a0 :: un') ++ (58 :: b0 :: pw') ++ [64]) ++ T = (S ++ a0 :: un') ++ 58 :: ((b0 :: pw') ++ 64 :: T)) as E1
      by (repeat rewrite <- app_assoc; reflexivity).
    assert (S ++ ((a0 :: un') ++ (58 :: b0 :: pw') ++ [64]) ++ T = ((S ++ a0 :: un') ++ 58 :: b0 :: pw') ++ 64 :: T) as E2
      by (repeat rewrite <- app_assoc; reflexivity).
    rewrite E1 at 1. rewrite <- nlen_app. rewrite byte_eqb_app. rewrite E2.
    apply andb_true_iff. split; [unfold nlen; repeat rewrite app_length; cbn [length]; lia|].
    replace (nlen S + nlen ((a0 :: un') ++ (58 :: b0 :: pw') ++ [64]) - 1) with (nlen ((S ++ a0 :: un') ++ 58 :: b0 :: pw')).
    2:{ unfold nlen; repeat rewrite app_length; cbn [length]; lia. }
    apply byte_eqb_app.
Qed.

(* ================= the serializer of the Standard on the canonical record ================= *)
Section Ser.
Variable shs : spec_host -> list N.

Lemma serialize_auth sch un pw sh po segs q f excl : (forall p, po = Some p -> p <= 65535) ->
  serialize_url shs (spec_auth_url sch un pw sh po segs q f) excl
  = ((((auth_s0 sch ++ cred_text un pw) ++ shs sh) ++ port_suffix po) ++ flat_map (fun s => 47 :: s) segs)
    ++ qf_qtext q ++ (if excl then [] else qf_ftext f).
Proof.
  intros Hp. unfold serialize_url, spec_auth_url, includes_credentials, serialize_path, auth_s0.
  cbn [su_scheme su_username su_password su_host su_port su_path su_query su_fragment].
  rewrite cred_text_spec.
  assert (match po with Some p => 58 :: serialize_integer p | None => [] end = port_suffix po) as ->.
  { destruct po as [p|]; [|reflexivity]. cbn [port_suffix]. rewrite (decimal_serialize p (Hp p eq_refl)). reflexivity. }
  rewrite <- !app_assoc. cbn [app]. destruct q; destruct excl; destruct f; reflexivity.
Qed.

End Ser.

(* ================= the canonical pair is related ================= *)
Record auth_ok (shs : spec_host -> list N) (sch un pw ht : list N) (hi : host_internal) (sh : spec_host)
       (po : option N) (segs : list (list N)) (q f : option (list N)) : Prop := mk_auth_ok {
  ak_sch : scheme_canon sch = true;
  ak_ns : scheme_type_of sch = STNotSpecial;
  ak_ht : ht = shs sh;
  ak_col : starts_with_cp 58 ht = false;
  ak_hi : hi = HI_None -> ht = [];
  ak_hp : ht = [] -> po = None;
  ak_po : forall p, po = Some p -> p <= 65535;
  ak_pt : forallb (fun c => negb ((c =? 63) || (c =? 35))) (flat_map (fun s => 47 :: s) segs) = true;
  ak_q : opt_clean T_QUERY q
}.

Section Related.
Variable dbg : bool.
Variable shs : spec_host -> list N.

Section One.
Variables (sch un pw ht : list N) (hi : host_internal) (sh : spec_host) (po : option N)
          (segs : list (list N)) (q f : option (list N)).
Hypothesis K : auth_ok shs sch un pw ht hi sh po segs q f.

Let pt := flat_map (fun s => 47 :: s) segs.
Let u := auth_url sch un pw ht hi po pt q f.
Let s0 := auth_s0 sch.
Let s1 := s0 ++ cred_text un pw.
Let s2 := s1 ++ ht.
Let s3 := s2 ++ port_suffix po.
Let s4 := s3 ++ pt.

Lemma au_ser : ser u = s4 ++ qf_text q f. Proof. reflexivity. Qed.
Lemma s0_len : nlen s0 = nlen sch + 3.
Proof. unfold s0, auth_s0. rewrite !nlen_app. unfold nlen. cbn [length]. lia. Qed.

Lemma au_has_authority : has_authority_b u = true.
Proof.
  unfold has_authority_b, u, auth_url. cbn [ser scheme_end]. unfold auth_s0. rewrite <- !app_assoc.
  rewrite nskipn_app_len. reflexivity.
Qed.

(* the byte after the credentials is not ':' *)
Lemma au_after_cred : starts_with_cp 58 (ht ++ port_suffix po ++ pt ++ qf_text q f) = false.
Proof.
  destruct K as [_ _ _ Hcol _ Hhp _ _ _]. rewrite starts_with_cp_app. destruct ht as [|a r] eqn:E; [|exact Hcol].
  rewrite (Hhp eq_refl). cbn [port_suffix app]. rewrite starts_with_cp_app.
  unfold pt. destruct (flat_map (fun s => 47 :: s) segs) eqn:E2; [apply qf_text_head|].
  rewrite <- E2. apply flat_map_head.
Qed.

Lemma au_wf : wf_b u = true.
Proof.
  destruct K as [Hsch Hnsp Hht Hcol Hhi Hhp Hpo Hpt Hq].
  unfold scheme_canon in Hsch. apply andb_true_iff in Hsch. destruct Hsch as [Hhead Hall].
  pose proof s0_len as L0.
  unfold wf_b. rewrite au_has_authority. apply andb_true_iff. split; [apply andb_true_iff; split|].
  - (* scheme *)
    unfold wf_scheme, u, auth_url. cbn [ser scheme_end]. unfold auth_s0.
    repeat (apply andb_true_iff; split).
    + destruct sch; [discriminate|]. unfold nlen. cbn [length]. lia.
    + destruct sch as [|c s]; [discriminate|]. cbn [app]. unfold is_alpha. rewrite Hhead. apply orb_true_r.
    + rewrite <- !app_assoc. rewrite nfirstn_app_len.
      apply (forallb_impl scheme_out_char); [exact scheme_out_char_scheme_char | exact Hall].
    + rewrite <- !app_assoc. cbn [app]. apply byte_eqb_app.
  - (* authority *)
    unfold wf_authority, u, auth_url.
    cbn [ser scheme_end username_end host_start host_end hosti port path_start]. fold s0 s1 s2 s3 s4.
    assert (nlen s1 = nlen s0 + nlen (cred_text un pw)) as L1 by (unfold s1; apply nlen_app).
    assert (nlen s2 = nlen s1 + nlen ht) as L2 by (unfold s2; apply nlen_app).
    assert (nlen s3 = nlen s2 + nlen (port_suffix po)) as L3 by (unfold s3; apply nlen_app).
    assert (nlen s4 = nlen s3 + nlen pt) as L4 by (unfold s4; apply nlen_app).
    pose proof (cred_text_len un pw) as Lc.
    repeat (apply andb_true_iff; split).
    + lia.
    + lia.
    + lia.
    + lia.
    + rewrite nlen_app. lia.
    + (* userinfo delimiters *)
      assert (s4 ++ qf_text q f = s0 ++ cred_text un pw ++ (ht ++ port_suffix po ++ pt ++ qf_text q f)) as EF.
      { unfold s4, s3, s2, s1. rewrite <- !app_assoc. reflexivity. }
      rewrite EF, L1.
      destruct (nlen s0 + nlen un =? nlen s0 + nlen (cred_text un pw)) eqn:E.
      * apply N.eqb_eq in E. assert (nlen (cred_text un pw) = nlen un) as E' by lia.
        destruct (cred_same_len un pw E') as [-> _]. rewrite nlen_nil. apply N.eqb_eq. lia.
      * exact (cred_delims s0 un pw _ E).
    + (* no ':' right after "//" without credentials *)
      destruct (nlen s0 + nlen un =? nlen s1) eqn:E; [|reflexivity].
      apply N.eqb_eq in E. assert (nlen (cred_text un pw) = nlen un) as E' by lia.
      destruct (cred_same_len un pw E') as [Eu Ec].
      rewrite Eu, nlen_nil, N.add_0_r.
      assert (s4 ++ qf_text q f = s0 ++ ht ++ port_suffix po ++ pt ++ qf_text q f) as ->.
      { unfold s4, s3, s2, s1. rewrite Ec. rewrite <- !app_assoc. reflexivity. }
      rewrite byte_eqb_head. rewrite au_after_cred. reflexivity.
    + (* host kind *)
      destruct hi; try reflexivity. rewrite L2. rewrite (Hhi eq_refl). rewrite nlen_nil. apply N.eqb_eq. lia.
    + (* port *)
      destruct po as [p|] eqn:Epo.
      * pose proof (Hpo p eq_refl) as Hp. cbn [port_suffix] in *.
        repeat (apply andb_true_iff; split).
        -- unfold s4, s3. rewrite <- !app_assoc. cbn [app]. apply byte_eqb_app.
        -- apply list_eqb_spec. rewrite L3. rewrite nlen_cons.
           replace (nlen s2 + (1 + nlen (decimal p)) - (nlen s2 + 1)) with (nlen (decimal p)) by lia.
           unfold s4, s3. rewrite <- !app_assoc. rewrite nskipn_app_add. cbn [app].
           change (nskipn 1 (58 :: decimal p ++ pt ++ qf_text q f)) with (decimal p ++ pt ++ qf_text q f).
           apply nfirstn_app_len.
        -- rewrite L3, nlen_cons. apply N.eqb_eq. lia.
        -- apply N.leb_le. exact Hp.
      * cbn [port_suffix] in *. rewrite L3, nlen_nil. apply N.eqb_eq. lia.
    + (* the path starts with '/' or is empty *)
      unfold s4. rewrite <- app_assoc. rewrite !byte_eqb_head.
      unfold pt. destruct segs as [|g gs]; [|cbn [flat_map app starts_with_cp]; replace (47 =? 47) with true by reflexivity;
                                              rewrite orb_true_r; reflexivity].
      cbn [flat_map app]. rewrite nlen_app.
      destruct q as [x|]; [cbn; rewrite !orb_true_r; reflexivity|].
      destruct f as [y|]; [cbn; rewrite !orb_true_r; reflexivity|].
      cbn [qf_text qf_qtext qf_ftext app]. rewrite ?app_nil_r, nlen_nil, N.add_0_r, N.eqb_refl. reflexivity.
  - (* query and fragment *)
    apply (wf_qf_generic s3 pt q f u); try reflexivity; assumption.
Qed.


Lemma au_ue_lt : is_nil pw = false -> nlen s0 + nlen un < nlen (ser u).
Proof.
  intros H. rewrite au_ser. unfold s4, s3, s2, s1. unfold cred_text. rewrite H, andb_false_r.
  unfold nlen. repeat rewrite app_length. cbn [length]. lia.
Qed.

Lemma au_has_password : has_password_b u = negb (is_nil pw).
Proof.
  unfold has_password_b. rewrite au_has_authority. cbn [andb].
  assert (username_end u = nlen s0 + nlen un) as -> by reflexivity.
  assert (ser u = s0 ++ cred_text un pw ++ (ht ++ port_suffix po ++ pt ++ qf_text q f)) as EF.
  { rewrite au_ser. unfold s4, s3, s2, s1. rewrite <- !app_assoc. reflexivity. }
  pose proof au_after_cred as Hac. pose proof au_ue_lt as Hlt0.
  destruct pw as [|b0 pw'] eqn:Epw; cbn [is_nil negb].
  - destruct un as [|a0 un'] eqn:Eun.
    + rewrite EF. cbn [cred_text is_nil andb app]. rewrite nlen_nil, N.add_0_r. rewrite byte_eqb_head.
      rewrite Hac. apply andb_false_r.
    + rewrite EF. unfold cred_text. cbn [is_nil andb].
      assert (s0 ++ ((a0 :: un') ++ [] ++ [64]) ++ ht ++ port_suffix po ++ pt ++ qf_text q f
              = (s0 ++ a0 :: un') ++ 64 :: (ht ++ port_suffix po ++ pt ++ qf_text q f)) as ->
        by (repeat rewrite <- app_assoc; reflexivity).
      rewrite <- nlen_app. rewrite byte_eqb_head. cbn [starts_with_cp N.eqb Pos.eqb]. apply andb_false_r.
  - pose proof (Hlt0 eq_refl) as Hlt.
    replace (nlen s0 + nlen un =? nlen (ser u)) with false by lia. cbn [negb andb].
    rewrite EF. unfold cred_text. cbn [is_nil]. rewrite andb_false_r.
    assert (s0 ++ (un ++ (58 :: b0 :: pw') ++ [64]) ++ ht ++ port_suffix po ++ pt ++ qf_text q f
            = (s0 ++ un) ++ 58 :: ((b0 :: pw') ++ 64 :: (ht ++ port_suffix po ++ pt ++ qf_text q f))) as ->
      by (repeat rewrite <- app_assoc; reflexivity).
    rewrite <- nlen_app. apply byte_eqb_app.
Qed.

Theorem au_api : api_of_model dbg u = Some (spec_api_list shs (spec_auth_url sch un pw sh po segs q f)).
Proof.
  pose proof au_wf as W. destruct K as [Hsch Hnsp Hht Hcol Hhi Hhp Hpo Hpt Hq].
  pose proof s0_len as L0.
  assert (nlen s1 = nlen s0 + nlen (cred_text un pw)) as L1 by (unfold s1; apply nlen_app).
  assert (nlen s2 = nlen s1 + nlen ht) as L2 by (unfold s2; apply nlen_app).
  assert (nlen s3 = nlen s2 + nlen (port_suffix po)) as L3 by (unfold s3; apply nlen_app).
  assert (nlen s4 = nlen s3 + nlen pt) as L4 by (unfold s4; apply nlen_app).
  rewrite (api_of_model_eval dbg u W). f_equal.
  rewrite au_has_password.
  unfold pidx. rewrite au_has_password, au_has_authority.
  unfold piece.
  assert (has_host u = match hi with HI_None => false | _ => true end) as EHH by reflexivity.
  rewrite EHH.
  change (scheme_end u) with (nlen sch). change (username_end u) with (nlen s0 + nlen un).
  change (host_start u) with (nlen s1). change (host_end u) with (nlen s2). change (path_start u) with (nlen s3).
  change (port u) with po. change (query_start u) with (qf_qs (nlen s4) q).
  change (fragment_start u) with (qf_fs (nlen s4) q f). rewrite au_ser.
  unfold spec_api_list, get_href, get_protocol, get_username, get_password, get_host, get_hostname,
    get_port, get_pathname, get_search, get_hash, serialize_host_opt, serialize_path.
  rewrite (serialize_auth shs sch un pw sh po segs q f false Hpo).
  unfold spec_auth_url. cbn [su_scheme su_username su_password su_host su_port su_path su_query su_fragment].
  rewrite <- Hht. fold pt. fold s0 s1 s2 s3 s4.
  assert (match qf_qs (nlen s4) q with
          | Some x => x
          | None => match qf_fs (nlen s4) q f with Some y => y | None => nlen (s4 ++ qf_text q f) end
          end = nlen s4) as EAP.
  { destruct q as [x|]; [reflexivity|]. destruct f as [y|]; cbn [qf_qs qf_fs qf_qtext].
    - unfold nlen at 2. cbn [length]. lia.
    - unfold qf_text. cbn [qf_qtext qf_ftext app]. rewrite app_nil_r. reflexivity. }
  assert (match qf_fs (nlen s4) q f with Some y => y | None => nlen (s4 ++ qf_text q f) end
          = nlen (s4 ++ qf_qtext q)) as EAQ.
  { destruct f as [y|]; cbn [qf_fs]; [symmetry; apply nlen_app|].
    unfold qf_text. cbn [qf_ftext]. rewrite app_nil_r. reflexivity. }
  rewrite EAP, EAQ.
  apply list10_eq.
  - (* href *) unfold qf_text. reflexivity.
  - (* protocol *)
    unfold s4, s3, s2, s1, s0, auth_s0. rewrite <- !app_assoc.
    replace (nlen sch + 1) with (nlen (sch ++ [58])) by (clear; ll).
    rewrite app_assoc. apply nfirstn_app_len.
  - (* username *)
    replace (nlen sch + 3) with (nlen s0) by lia. rewrite <- nlen_app.
    assert (s4 ++ qf_text q f = s0 ++ un ++ (cred_tail un pw ++ ht ++ port_suffix po ++ pt ++ qf_text q f)) as ->.
    { unfold s4, s3, s2, s1. rewrite cred_text_split. rewrite <- !app_assoc. reflexivity. }
    apply piece_mid.
  - (* password *)
    destruct pw as [|b0 pw'] eqn:Epw; cbn [is_nil negb]; [reflexivity|].
    assert (s4 ++ qf_text q f
            = (s0 ++ un ++ [58]) ++ (b0 :: pw') ++ (64 :: ht ++ port_suffix po ++ pt ++ qf_text q f)) as ->.
    { unfold s4, s3, s2, s1, cred_text. cbn [is_nil]. rewrite andb_false_r. repeat rewrite <- app_assoc. reflexivity. }
    replace (nlen s0 + nlen un + 1) with (nlen (s0 ++ un ++ [58])) by ll.
    replace (nlen s1 - 1) with (nlen ((s0 ++ un ++ [58]) ++ b0 :: pw')).
    2:{ rewrite L1. unfold cred_text. cbn [is_nil]. rewrite andb_false_r. clear. ll. }
    apply piece_mid.
  - (* host *)
    assert (match po with Some p => nlen s2 + 1 + count_digits p | None => nlen s2 end = nlen (s1 ++ ht ++ port_suffix po)) as ->.
    { rewrite app_assoc. fold s2. rewrite nlen_app. destruct po as [p|]; cbn [port_suffix].
      - rewrite (count_digits_decimal p (Hpo p eq_refl)), nlen_cons. lia.
      - rewrite nlen_nil. lia. }
    assert (s4 ++ qf_text q f = s1 ++ (ht ++ port_suffix po) ++ (pt ++ qf_text q f)) as ->.
    { unfold s4, s3, s2. rewrite <- !app_assoc. reflexivity. }
    rewrite piece_mid. destruct po as [p|]; cbn [port_suffix]; [|apply app_nil_r].
    rewrite (decimal_serialize p (Hpo p eq_refl)). reflexivity.
  - (* hostname *)
    assert (nfirstn (nlen s2 - nlen s1) (nskipn (nlen s1) (s4 ++ qf_text q f)) = ht) as E.
    { assert (s4 ++ qf_text q f = s1 ++ ht ++ (port_suffix po ++ pt ++ qf_text q f)) as ->.
      { unfold s4, s3, s2. rewrite <- !app_assoc. reflexivity. }
      unfold s2. apply piece_mid. }
    destruct hi; try exact E. symmetry. apply Hhi. reflexivity.
  - (* port *)
    destruct po as [p|]; cbn [port_suffix] in *.
    + rewrite (count_digits_decimal p (Hpo p eq_refl)).
      assert (s4 ++ qf_text q f = (s2 ++ [58]) ++ decimal p ++ (pt ++ qf_text q f)) as ->.
      { unfold s4, s3. rewrite <- !app_assoc. reflexivity. }
      replace (nlen s2 + 1) with (nlen (s2 ++ [58])) by (clear; ll).
      rewrite <- nlen_app. rewrite piece_mid. apply decimal_serialize. apply Hpo. reflexivity.
    + rewrite N.sub_diag. reflexivity.
  - (* pathname *)
    assert (s4 ++ qf_text q f = s3 ++ pt ++ qf_text q f) as -> by (unfold s4; rewrite <- app_assoc; reflexivity).
    exact (piece_mid s3 pt (qf_text q f)).
  - (* search *)
    rewrite (nlen_app s4). replace (nlen s4 + nlen (qf_qtext q) - nlen s4) with (nlen (qf_qtext q)) by lia.
    rewrite nskipn_app_len. unfold qf_text. rewrite nfirstn_app_len. apply q_trim_qtext.
  - (* hash *)
    unfold qf_text. rewrite app_assoc. rewrite nskipn_app_len. apply q_trim_ftext.
Qed.


Theorem related_auth : related dbg shs u (spec_auth_url sch un pw sh po segs q f).
Proof.
  pose proof au_wf as W. pose proof au_api as A. destruct K as [Hsch Hnsp Hht Hcol Hhi Hhp Hpo Hpt Hq].
  constructor.
  - exact W.
  - exact A.
  - (* before the fragment *)
    rewrite (serialize_auth shs sch un pw sh po segs q f true Hpo). rewrite <- Hht. fold pt s0 s1 s2 s3 s4.
    rewrite app_nil_r. unfold b_before_fragment. change (fragment_start u) with (qf_fs (nlen s4) q f). rewrite au_ser.
    unfold qf_text. destruct f as [y|]; cbn [qf_fs qf_ftext].
    + rewrite <- nlen_app. rewrite app_assoc. apply nfirstn_app_exact.
    + rewrite app_nil_r. reflexivity.
  - (* before the query *)
    change (set_query (spec_auth_url sch un pw sh po segs q f) None) with (spec_auth_url sch un pw sh po segs None f).
    rewrite (serialize_auth shs sch un pw sh po segs None f true Hpo). rewrite <- Hht. fold pt s0 s1 s2 s3 s4.
    cbn [qf_qtext app]. rewrite app_nil_r. unfold b_before_query.
    change (query_start u) with (qf_qs (nlen s4) q). change (fragment_start u) with (qf_fs (nlen s4) q f). rewrite au_ser.
    unfold qf_text. destruct q as [x|]; destruct f as [y|]; cbn [qf_qs qf_fs qf_qtext qf_ftext].
    + apply nfirstn_app_exact.
    + apply nfirstn_app_exact.
    + cbn [app]. rewrite nlen_nil, N.add_0_r. apply nfirstn_app_exact.
    + cbn [app]. apply app_nil_r.
  - (* cannot be a base *)
    rewrite (cannot_be_a_base_eval _ W). cbn [has_opaque_path su_path spec_auth_url]. do 2 f_equal.
    change (scheme_end u) with (nlen sch). rewrite au_ser. unfold s4, s3, s2, s1, s0, auth_s0.
    repeat rewrite <- app_assoc.
    replace (nlen sch + 1) with (nlen (sch ++ [58])) by (clear; ll). rewrite app_assoc. cbn [app]. rewrite byte_eqb_app. reflexivity.
  - (* scheme *)
    unfold b_scheme. change (scheme_end u) with (nlen sch). rewrite au_ser. unfold s4, s3, s2, s1, s0, auth_s0.
    repeat rewrite <- app_assoc. apply nfirstn_app_len.
  - split; [intros H; discriminate H|]. cbn [su_scheme spec_auth_url]. intros H. rewrite H in Hnsp. discriminate Hnsp.
Qed.

End One.
End Related.

(* ================= the model on "//authority..." ================= *)
Section AuthClass.
Variable dbg : bool.
Variable hp hpo : list N -> result host.
Variable hd : host -> list N.
Variable ovr : option (list N -> list N).
Variable shp : bool -> list N -> option spec_host.
Variable shs : spec_host -> list N.

Lemma pqf_norm st se s l :
  parse_query_and_fragment ovr CUrlParser st se s (drop_while is_tnl l) = parse_query_and_fragment ovr CUrlParser st se s l.
Proof. unfold parse_query_and_fragment. rewrite inp_next_drop. reflexivity. Qed.

Lemma pqf_oob (P : Prop) st se s l : usv_list l ->
  query_enc ovr (nfirstn se (s ++ [63])) = utf8_encode ->
  match ntnl l with [] => True | c :: _ => is_qh c = true end ->
  (U32_MAX_P < nlen (s ++ qf_text (pqf_q st l) (pqf_f l)) -> P) ->
  oob P (parse_query_and_fragment ovr CUrlParser st se s l)
      (s ++ qf_text (pqf_q st l) (pqf_f l), qf_qs (nlen s) (pqf_q st l), qf_fs (nlen s) (pqf_q st l) (pqf_f l)).
Proof.
  intros Hu Henc Hh HP.
  assert (match drop_while is_tnl l with [] => True | c :: _ => C02_Parts.is_qh c = true /\ is_tnl c = false end) as Hhead.
  { pose proof (drop_head l) as Hd. pose proof (ntnl_drop l) as Hn.
    destruct (drop_while is_tnl l) as [|d dr]; [exact I|]. rewrite ntnl_cons in Hn by exact Hd.
    rewrite <- Hn in Hh. split; [exact Hh | exact Hd]. }
  pose proof (C01_EqOpaque.pqf_total ovr st se s (drop_while is_tnl l) Hhead) as Tot. rewrite pqf_norm in Tot.
  destruct (parse_query_and_fragment ovr CUrlParser st se s l) as [[[s' qs] fs]|e|] eqn:E.
  - right. destruct (pqf_out ovr st se s l s' qs fs Hu Henc E) as (-> & -> & -> & _). reflexivity.
  - assert (e = Overflow) as -> by (destruct Tot as [K|[r K]]; [inversion K; reflexivity | discriminate K]).
    left. split; [reflexivity|]. apply HP. exact (pqf_overflow ovr st se s l Hu Henc E).
  - exfalso. destruct Tot as [K|[r K]]; discriminate K.
Qed.

Lemma pqf_q_clean l : usv_list l -> opt_clean T_QUERY (pqf_q STNotSpecial l).
Proof.
  intros Hu. unfold pqf_q. destruct (inp_next l) as [[c r]|] eqn:En; [|exact I].
  destruct (c =? 63); [|exact I]. cbn [opt_clean]. apply (query_of_clean STNotSpecial). exact (inp_next_usv l c r Hu En).
Qed.

Lemma wqf_auth sch ue hs he hi po ps tl rest : nlen sch + 3 <= ps ->
  with_query_and_fragment ovr CUrlParser STNotSpecial (nlen sch) ue hs he hi po ps (auth_s0 sch ++ tl) rest
  = (' (s2, qs, fs) <~ parse_query_and_fragment ovr CUrlParser STNotSpecial (nlen sch) (auth_s0 sch ++ tl) rest ;;
     POk (mkUrl s2 (nlen sch) ue hs he hi po ps qs fs)).
Proof.
  intros H. unfold with_query_and_fragment.
  replace (ps =? nlen sch + 1) with false by lia.
  assert ((ps =? nlen sch + 3) && list_eqb (nfirstn (ps - nlen sch) (nskipn (nlen sch) (auth_s0 sch ++ tl))) [58; 47; 46] = false) as ->.
  { destruct (ps =? nlen sch + 3) eqn:E; [|reflexivity]. cbn [andb]. apply N.eqb_eq in E. rewrite E.
    replace (nlen sch + 3 - nlen sch) with 3 by lia. unfold auth_s0. rewrite <- !app_assoc. rewrite nskipn_app_len. reflexivity. }
  cbn [pbind]. reflexivity.
Qed.

Lemma hi_none_iff h : hi_of_host h = HI_None <-> h = HDomain [].
Proof. destruct h as [[|a b]| |]; cbn; split; intros H; try reflexivity; try discriminate H. Qed.

Lemma hs_host_empty HR : hs_host false HR = [] -> port_split (hs_rest false HR) = None -> starts_ae HR = true.
Proof.
  destruct HR as [|c r]; [reflexivity|]. cbn [hs_host hs_rest starts_ae]. destruct (hs_stop false c) eqn:E; [|discriminate].
  intros _. cbn [port_split]. unfold hs_stop in E. cbn [negb] in E. rewrite andb_true_r in E.
  destruct (c =? 58); [discriminate | intros _; exact E].
Qed.

Lemma starts_ae_host HR : starts_ae HR = true -> hs_host false HR = [] /\ hs_rest false HR = HR /\ port_split HR = None.
Proof.
  destruct HR as [|c r]; [intros _; repeat split|]. cbn [starts_ae hs_host hs_rest port_split]. intros H.
  unfold hs_stop. rewrite H, orb_true_r. repeat split.
  destruct (c =? 58) eqn:E; [|reflexivity]. apply N.eqb_eq in E. subst c. discriminate H.
Qed.

(* everything after parse_userinfo *)
Theorem model_auth_cont sch l un pw rem HR :
  usv_list l -> scheme_canon sch = true -> scheme_type_of sch = STNotSpecial ->
  let ser0 := auth_s0 sch in
  let u1 := mkSUrl sch un pw None None (SPList []) None None in
  (forall P : Prop, (U32_MAX_P < nlen (ser0 ++ cred_text un pw) -> P) ->
     oob P (parse_userinfo STNotSpecial ser0 l) (ser0 ++ cred_text un pw, nlen ser0 + nlen un, rem)) ->
  ntnl rem = HR -> usv_list rem ->
  host_agree hpo hd shp shs (hs_host false HR) ->
  match port_split (hs_rest false HR) with
  | Some PR => ((decimal_value (digits_of PR) <=? 65535) && starts_with_cp 92 (after_digits PR)) = false
  | None => True
  end ->
  (match (match port_split (hs_rest false HR) with Some PR => after_digits PR | None => hs_rest false HR end) with
   | c :: r => if c =? 47 then spath_ok r [] [] = true else True
   | [] => True
   end) ->
  if negb (is_nil (cred_text un pw)) && starts_ae HR
  then mfail (after_double_slash dbg hp hpo hd ovr CUrlParser STNotSpecial (nlen sch) (sch ++ [58]) l)
  else match sauth_host shp u1 HR with
       | None => mfail (after_double_slash dbg hp hpo hd ovr CUrlParser STNotSpecial (nlen sch) (sch ++ [58]) l)
       | Some su =>
           exists u, oob (U32_MAX_P < nlen (ser u))
                         (after_double_slash dbg hp hpo hd ovr CUrlParser STNotSpecial (nlen sch) (sch ++ [58]) l) u
                     /\ related dbg shs u su /\ nlen sch <= nlen (ser u)
       end.
Proof.
  intros Hu Hcan Hns ser0 u1 HPU Hrem Hurem HA Hbs Hok.
  assert (exists tl, ser0 ++ cred_text un pw = sch ++ tl) as Htl.
  { exists ([58] ++ [47; 47] ++ cred_text un pw). unfold ser0, auth_s0. rewrite <- !app_assoc. reflexivity. }
  pose proof (hp_spec hp hpo hd shp shs sch (ser0 ++ cred_text un pw) rem u1 Hurem Hns Htl eq_refl) as HP.
  cbv zeta in HP. rewrite Hrem in HP. specialize (HP HA Hbs).
  assert (Hads : forall X, after_double_slash dbg hp hpo hd ovr CUrlParser STNotSpecial (nlen sch) (sch ++ [58]) l = X ->
                 after_double_slash dbg hp hpo hd ovr CUrlParser STNotSpecial (nlen sch) (sch ++ [58]) l = X) by (intros; assumption).
  unfold after_double_slash. change ((sch ++ [58]) ++ [47; 47]) with ser0.
  assert (negb (nlen ser0 =? nlen (ser0 ++ cred_text un pw)) = negb (is_nil (cred_text un pw))) as Eha.
  { rewrite nlen_app. destruct (cred_text un pw) as [|a b]; cbn [is_nil].
    - rewrite nlen_nil, N.add_0_r, N.eqb_refl. reflexivity.
    - replace (nlen ser0 =? nlen ser0 + nlen (a :: b)) with false by (rewrite nlen_cons; lia). reflexivity. }
  destruct (negb (is_nil (cred_text un pw)) && starts_ae HR) eqn:Ecase.
  - (* credentials in front of an empty host *)
    apply andb_true_iff in Ecase. destruct Ecase as [Ec Eae].
    destruct (starts_ae_host HR Eae) as (Eh & Er & Eps).
    unfold sauth_host in HP. rewrite Er, Eps, Eh in HP. unfold host_agree in HA. rewrite Eh in HA.
    eapply mfail_bind2; [apply (HPU True); intros _; exact I|]. cbv beta iota.
    eapply mfail_bind2 with (P := True); [apply oob_u32; intros _; exact I|].
    destruct (host_parsing shp true []) as [sh|] eqn:Esh.
    + destruct HP as (host & sh' & port & rem' & Ehpo & _ & _ & _ & _ & _ & _ & _ & HO).
      rewrite Ehpo in HA. destruct HA as (_ & _ & Hemp & _).
      assert (host = HDomain []) as -> by (apply Hemp; reflexivity).
      eapply mfail_bind2; [apply (HO True); intros _; exact I|]. cbv beta iota.
      cbn [hi_of_host hi_eqb andb]. rewrite Eha, Ec. exists EmptyHost. reflexivity.
    + apply mfail_bind. exact HP.
  - destruct (sauth_host shp u1 HR) as [su|] eqn:Esu.
    2:{ eapply mfail_bind2; [apply (HPU True); intros _; exact I|]. cbv beta iota.
        eapply mfail_bind2 with (P := True); [apply oob_u32; intros _; exact I|]. apply mfail_bind. exact HP. }
    destruct HP as (host & sh & port & rem' & Ehpo & Eshp & Hhp & Hpo & Hrem' & Hurem' & HXae & Esu' & HO).
    unfold host_agree in HA. rewrite Ehpo, Eshp in HA. destruct HA as (Htxt & Hcol & Hemp & Hemp2).
    set (X := match port_split (hs_rest false HR) with Some PR => after_digits PR | None => hs_rest false HR end) in *.
    rewrite <- Hrem' in Hok, HXae.
    destruct (path_start_spec dbg rem' (((ser0 ++ cred_text un pw) ++ hd host) ++ port_suffix port) true Hurem' HXae Hok)
      as (segs & rest & Eps & Hurest & Hpt & Hnsl & Htail & Hresth).
    set (q := pqf_q STNotSpecial rest). set (f := pqf_f rest).
    exists (auth_url sch un pw (hd host) (hi_of_host host) port (flat_map (fun s => 47 :: s) segs) q f).
    (* the host check of after_double_slash passes *)
    assert (hi_eqb (hi_of_host host) HI_None && negb (nlen ser0 =? nlen (ser0 ++ cred_text un pw)) = false) as Echk.
    { rewrite Eha. destruct (is_nil (cred_text un pw)) eqn:Ec; cbn [negb]; [apply andb_false_r|].
      cbn [negb andb] in Ecase.
      assert (host <> HDomain []) as Hne.
      { intros Hh. apply Hemp in Hh. unfold sauth_host in Esu. rewrite Hh in Esu.
        destruct (port_split (hs_rest false HR)) eqn:Eps2; [discriminate Esu|].
        rewrite (hs_host_empty HR Hh Eps2) in Ecase. discriminate Ecase. }
      destruct (hi_of_host host) eqn:Ehi; try reflexivity. exfalso. apply Hne. apply hi_none_iff. exact Ehi. }
    split.
    + (* the model: the canonical record, or Overflow with a serialization beyond u32 *)
      set (U := auth_url sch un pw (hd host) (hi_of_host host) port (flat_map (fun s => 47 :: s) segs) q f).
      assert (forall pre, (exists tl, ser U = pre ++ tl) -> U32_MAX_P < nlen pre -> U32_MAX_P < nlen (ser U)) as Hpre.
      { intros pre [tl ->] Hlt. rewrite nlen_app. lia. }
      eapply oob_bind.
      { apply HPU. apply Hpre. unfold U, auth_url. cbn [ser]. fold ser0.
        eexists. repeat rewrite <- app_assoc. reflexivity. }
      cbv beta iota.
      eapply oob_bind.
      { apply oob_u32. apply Hpre. unfold U, auth_url. cbn [ser]. fold ser0.
        eexists. repeat rewrite <- app_assoc. reflexivity. }
      eapply oob_bind.
      { apply HO. apply Hpre. unfold U, auth_url. cbn [ser]. fold ser0.
        eexists. repeat rewrite <- app_assoc. reflexivity. }
      cbv beta iota. rewrite Echk.
      eapply oob_bind.
      { apply oob_u32. apply Hpre. unfold U, auth_url. cbn [ser]. fold ser0.
        eexists. repeat rewrite <- app_assoc. reflexivity. }
      rewrite Eps. cbn [pbind].
      replace ((((ser0 ++ cred_text un pw) ++ hd host) ++ port_suffix port) ++ flat_map (fun s => 47 :: s) segs)
        with (auth_s0 sch ++ (cred_text un pw ++ hd host ++ port_suffix port ++ flat_map (fun s => 47 :: s) segs))
        by (fold ser0; repeat rewrite <- app_assoc; reflexivity).
      rewrite wqf_auth by (unfold ser0, auth_s0, nlen; repeat rewrite app_length; cbn [length]; lia).
      eapply oob_bind.
      { apply (pqf_oob (U32_MAX_P < nlen (ser U))); [exact Hurest | | exact Hresth |].
        - unfold auth_s0. repeat rewrite <- app_assoc. rewrite nfirstn_app_len. apply query_enc_nonspecial. exact Hns.
        - fold q f. intros Hlt. unfold U, auth_url. cbn [ser]. fold ser0.
          replace (((((ser0 ++ cred_text un pw) ++ hd host) ++ port_suffix port) ++ flat_map (fun s => 47 :: s) segs) ++ qf_text q f)
            with ((auth_s0 sch ++ cred_text un pw ++ hd host ++ port_suffix port ++ flat_map (fun s => 47 :: s) segs) ++ qf_text q f)
            by (fold ser0; repeat rewrite <- app_assoc; reflexivity).
          exact Hlt. }
      fold q f. right. unfold U, auth_url. fold ser0.
      assert (ser0 ++ cred_text un pw ++ hd host ++ port_suffix port ++ flat_map (fun s => 47 :: s) segs
              = (((ser0 ++ cred_text un pw) ++ hd host) ++ port_suffix port) ++ flat_map (fun s => 47 :: s) segs) as ->
        by (repeat rewrite <- app_assoc; reflexivity).
      reflexivity.
    + split; [|unfold auth_url; cbn [ser]; unfold auth_s0, nlen; repeat rewrite app_length; lia].
      (* related to the Standard's record *)
      assert (su = spec_auth_url sch un pw sh port segs q f) as ->.
      { rewrite Esu'. rewrite <- Hrem'. rewrite Htail; [reflexivity | reflexivity | | reflexivity | reflexivity].
        unfold is_special. cbn [su_scheme set_port set_host u1]. rewrite <- special_schemes_are_the_standards, Hns. reflexivity. }
      apply related_auth. constructor.
      * exact Hcan.
      * exact Hns.
      * exact Htxt.
      * exact Hcol.
      * intros Hh. apply Hemp2. apply Hemp. apply hi_none_iff. exact Hh.
      * intros Hh. apply Hhp. apply Hemp2. exact Hh.
      * exact Hpo.
      * exact Hpt.
      * apply pqf_q_clean. exact Hurest.
Qed.


Lemma cred_nil_colon w : is_nil w = false -> cr_user w = [] -> cr_pass w = [] -> w = [58].
Proof.
  destruct w as [|c r]; [discriminate|]. intros _. cbn [cr_user cr_pass]. destruct (c =? 58) eqn:E; [|discriminate].
  intros _ ->. apply N.eqb_eq in E. subst c. reflexivity.
Qed.

Lemma cred_text_nil un pw : is_nil (cred_text un pw) = is_nil un && is_nil pw.
Proof. unfold cred_text. destruct un; destruct pw; reflexivity. Qed.

(* the text l after "scheme://" *)
Theorem model_auth sch l : usv_list l -> scheme_canon sch = true -> scheme_type_of sch = STNotSpecial ->
  let T := ntnl l in
  list_eqb (a_part T) [58; 64] = false -> auth_port_bslash T = false ->
  (match auth_path_text T with c :: r => if c =? 47 then spath_ok r [] [] = true else True | [] => True end) ->
  host_agree hpo hd shp shs (auth_host_text T) ->
  match sauth shp sch T with
  | None => mfail (after_double_slash dbg hp hpo hd ovr CUrlParser STNotSpecial (nlen sch) (sch ++ [58]) l)
  | Some su =>
      exists u, oob (U32_MAX_P < nlen (ser u))
                    (after_double_slash dbg hp hpo hd ovr CUrlParser STNotSpecial (nlen sch) (sch ++ [58]) l) u
                /\ related dbg shs u su /\ nlen sch <= nlen (ser u)
  end.
Proof.
  intros Hu Hcan Hns T Ha Hb Hc HA. unfold auth_port_bslash, auth_path_text, auth_host_text in *.
  unfold sauth. pose proof (parse_userinfo_spec (auth_s0 sch) l Hu) as PU. fold T in PU.
  pose proof (a_part_no_ae T) as Hnae.
  unfold after_at in *. destruct (last_at (a_part T)) as [[w h]|] eqn:Ela; cbn [fst snd] in *.
  - set (HR := h ++ a_rest T) in *.
    assert (match port_split (hs_rest false HR) with
            | Some PR => ((decimal_value (digits_of PR) <=? 65535) && starts_with_cp 92 (after_digits PR)) = false
            | None => True end) as Hbs by (destruct (port_split (hs_rest false HR)); [exact Hb | exact I]).
    cbn [opt_is_some andb].
    destruct (is_nil w && starts_ae HR) eqn:E1.
    + apply andb_true_iff in E1. destruct E1 as [_ E2]. rewrite E2.
      unfold after_double_slash. change ((sch ++ [58]) ++ [47; 47]) with (auth_s0 sch). rewrite PU. exists EmptyHost. reflexivity.
    + destruct PU as (rem & Hrem & Hurem & HPU).
      set (un := encU (cr_user w)) in *. set (pw := encU (cr_pass w)) in *.
      pose proof (model_auth_cont sch l un pw rem HR Hu Hcan Hns HPU Hrem Hurem HA Hbs Hc) as C. cbv zeta in C.
      assert (cred_of (Some w) (set_scheme empty_url sch) = mkSUrl sch un pw None None (SPList []) None None) as ->.
      { cbn [cred_of]. rewrite ac_false. unfold un, pw. rewrite !encU_upe. reflexivity. }
      destruct (starts_ae HR) eqn:Eae.
      * rewrite andb_true_r in E1, C.
        assert (negb (is_nil (cred_text un pw)) = true) as Ene.
        { rewrite cred_text_nil. unfold un, pw. rewrite !encU_nil_iff.
          destruct (is_nil (cr_user w)) eqn:EU; [|reflexivity]. destruct (is_nil (cr_pass w)) eqn:EP; [|reflexivity].
          exfalso. destruct (cr_user w) eqn:EU'; [|discriminate EU]. destruct (cr_pass w) eqn:EP'; [|discriminate EP].
          pose proof (cred_nil_colon w E1 EU' EP') as Ew.
          pose proof (last_at_split _ _ _ Ela) as Esp.
          assert (forallb (fun c => negb (is_ae c)) h = true) as Hh.
          { rewrite Esp in Hnae. rewrite forallb_app in Hnae. apply andb_true_iff in Hnae. destruct Hnae as [_ Hn].
            cbn [forallb] in Hn. apply andb_true_iff in Hn. tauto. }
          unfold HR in Eae. rewrite (starts_ae_app h (a_rest T) Hh (a_rest_starts T)) in Eae.
          destruct h; [|discriminate Eae]. rewrite Esp, Ew in Ha. discriminate Ha. }
        rewrite Ene in C. exact C.
      * rewrite andb_false_r in C. exact C.
  - cbn [opt_is_some andb cred_of].
    assert (match port_split (hs_rest false T) with
            | Some PR => ((decimal_value (digits_of PR) <=? 65535) && starts_with_cp 92 (after_digits PR)) = false
            | None => True end) as Hbs by (destruct (port_split (hs_rest false T)); [exact Hb | exact I]).
    assert (forall P : Prop, (U32_MAX_P < nlen (auth_s0 sch ++ cred_text [] []) -> P) ->
              oob P (parse_userinfo STNotSpecial (auth_s0 sch) l) (auth_s0 sch ++ cred_text [] [], nlen (auth_s0 sch) + nlen [], l)) as HPU.
    { intros P HP. cbn [cred_text is_nil andb] in *. rewrite app_nil_r in *. rewrite nlen_nil, N.add_0_r. apply PU. exact HP. }
    pose proof (model_auth_cont sch l [] [] l T Hu Hcan Hns HPU eq_refl Hu HA Hbs Hc) as C. cbv zeta in C.
    cbn [cred_text is_nil andb negb] in C. exact C.
Qed.

End AuthClass.
