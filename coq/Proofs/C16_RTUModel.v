(* Proofs/C16_RTUModel.v - C16, the round trip of BOTH serializations of the tuple origin of a parse result, for the
   parser model linked with the host model (Model/Host.v), the IDNA model at the URL deny list as Host::parse's IDNA
   step (idna_of A cfg, Proofs/C09_InstIdna.v) and the ToUnicode model as idna::domain_to_unicode (origin_tu A cfg).
   No premise about the host functions is left: the premises are the eight sampled adapter facts of C12_5 and, on the
   host of the origin, the computable exclusion of the known classes (host_known_free):
     a domain d is outside Known_C12 (F-C12-1 / F-C16-1) and Known_C10_long (F-C10-1) - that a domain RETURNED by
       Host::parse outside Known_C10_long is a fixed point of the IDNA step is proved (returned_domain_fixed, from c10_idem3);
     nothing for an IPv4 address (Proofs/C16_V4.v: the IDNA step maps dotted-decimal text to itself, for every adapter)
     and nothing for an IPv6 address.
   rt_unicode_domain_model: the Unicode serialization for a domain, NON-ASCII ToUnicode forms included (P1, P2 of
   Proofs/C16_UniDeny.v + the parser model on a non-ASCII host text, Proofs/C16_RTU.v + C12 clause a_of_u).
   rt_both_model: both serializations, every host kind. *)
From RU Require Import Base.Prelude Base.Utf8 Base.Utf8Facts Base.U32_c13 Gen.Tables Model.Punycode Model.Uts46
  Proofs.Idna_Sim Proofs.Idna_Api Proofs.Idna_Known Proofs.Idna_Hyp Proofs.Idna_C10_Deny Proofs.Idna_C10_Inner Proofs.Idna_C10_Walk
  Proofs.Idna_C10b_Long Proofs.Idna_C10b_Stmt Proofs.Idna_WalkEnc Proofs.Idna_C10c_Drun Proofs.Idna_C10c_Idem Proofs.Idna_C10c_Example Proofs.Idna_C12c_Stmt4
  Proofs.Idna_C12d_Round Proofs.Idna_C12d_Stmt5.
From RU Require Import Model.HostT Model.Host Model.UrlRecord Model.Parser Model.Origin Proofs.C09_Wf Proofs.C09_Host Proofs.C09_InstIdna
  Proofs.ListN Proofs.C16_Conc Proofs.C16_Origin Proofs.C16_RT Proofs.C16_RT6 Proofs.C16_RT6Model Proofs.C16_RTParsed Proofs.C16_RTU
  Proofs.C16_UniHost Proofs.C16_UniDeny Proofs.C16_V4.

(* idna::domain_to_unicode(domain).0 of origin.rs, on the UTF-8 bytes of the String *)
Definition origin_tu (A : adapter) (cfg : bool) (d : list N) : list N :=
  utf8_encode (ui_text (domain_to_unicode A cfg (str_chars d))).

(* the host of an origin is outside the known classes *)
Definition host_known_free (A : adapter) (cfg : bool) (h : host) : Prop :=
  match h with
  | HDomain d => Known_C12 A cfg d DENY_URL HAllow = false /\ Known_C10_long d = false
  | _ => True
  end.

(* ---------- characters outside the URL deny list ---------- *)
Lemma url_free_sweep : all_below 128 (fun c => deny_member DENY_URL c || (freec c && plainc c)) = true.
Proof. vm_compute. reflexivity. Qed.
Lemma okc_freec c : okc DENY_URL c -> freec c = true.
Proof.
  intros H. destruct (N.ltb_spec c 128) as [L|L].
  - pose proof (all_below_spec 128 _ url_free_sweep c L) as S. cbv beta in S. rewrite (H L) in S. cbn [orb] in S.
    apply andb_true_iff in S. exact (proj1 S).
  - unfold freec. cbn [memb]. lia.
Qed.
Lemma clean_plainc c : c < 128 -> deny_member DENY_URL c = false -> plainc c = true.
Proof.
  intros L H. pose proof (all_below_spec 128 _ url_free_sweep c L) as S. cbv beta in S. rewrite H in S. cbn [orb] in S.
  apply andb_true_iff in S. exact (proj2 S).
Qed.

Section Model.
Variable A : adapter.
Variable cfg : bool.
Hypothesis HOK : AdapterOK A.
Hypothesis HUSV : AdapterUSV A.
Hypothesis HNT : NvNoTrunc A.
Hypothesis HNI : NvIdem A.
Hypothesis HNM : AsciiNoMark A.
Hypothesis HMP : MapPrefix A.
Hypothesis HMF : NvMapFix A.
Hypothesis HNG : NvNoGrow A.

Notation hp := (host_parse (idna_of A cfg)).
Notation hd := host_display.

(* ---------- a domain that is a fixed point of Host::parse's IDNA step ---------- *)
Lemma fixed_domain_facts d : idna_of A cfg d = Some d ->
  exists b, to_ascii A cfg d DENY_URL HAllow DIgnore = U32_c13.Ok (b, d) /\ bytes d
            /\ Forall (fun c => c < 128 /\ deny_member DENY_URL c = false) d.
Proof.
  intros H. unfold idna_of in H. destruct (forallb is_byteb d) eqn:Eb; [|discriminate]. unfold domain_to_ascii_cow in H.
  destruct (to_ascii A cfg d DENY_URL HAllow DIgnore) as [[b r]| |] eqn:E; try discriminate. inversion H; subst r.
  exists b. split; [reflexivity|]. split; [exact (forallb_bytes d Eb)|].
  pose proof (c10_ascii_under_notrunc A cfg HNT d DENY_URL HAllow DIgnore b d (forallb_bytes d Eb) valid_deny_url E) as F.
  eapply Forall_impl; [|exact F]. intros c (L & _ & D). split; assumption.
Qed.

Lemma clean_plain_text d : d <> [] -> Forall (fun c => c < 128 /\ deny_member DENY_URL c = false) d -> plain_text d.
Proof.
  intros Hne H. split; [exact Hne|]. apply forallb_forall. intros c Hc. rewrite Forall_forall in H.
  destruct (H c Hc) as [L D]. exact (clean_plainc c L D).
Qed.

(* Host::parse reads such a domain back as itself (C09_display_rt, pointwise) *)
Lemma fixed_domain_rt d : idna_of A cfg d = Some d -> d <> [] -> ends_in_a_number d = false ->
  hp d = HostT.Ok (HDomain d).
Proof.
  intros H Hne Hnum. destruct (fixed_domain_facts d H) as (b & _ & _ & Hcl).
  assert (Ha : ascii d) by (eapply Forall_impl; [|exact Hcl]; intros c [L _]; exact L).
  destruct url_denies_pct_bracket as [D37 D91].
  assert (H37 : ~ In 37 d).
  { intros Hin. rewrite Forall_forall in Hcl. destruct (Hcl 37 Hin) as [_ D]. rewrite D37 in D. discriminate. }
  assert (Hs : Host.starts_with 91 d = false).
  { destruct d as [|x r]; [reflexivity|]. unfold Host.starts_with. destruct (x =? 91) eqn:E; [|reflexivity].
    apply N.eqb_eq in E. subst x. inversion Hcl as [|? ? [_ D] _]; subst. rewrite D91 in D. discriminate. }
  apply x_ok_host_parse. unfold host_parse_x. rewrite Hs, (C09_Host.utf8_encode_ascii d Ha), (decode_no_pct d H37), H.
  destruct d as [|x r]; [contradiction Hne; reflexivity|]. rewrite Hnum. reflexivity.
Qed.

(* a domain that Host::parse RETURNED is a fixed point of the IDNA step outside Known_C10_long (C10: idempotence of
   ToASCII, c10_idem3, six adapter facts) *)
Lemma returned_domain_fixed t d : hp t = HostT.Ok (HDomain d) -> Known_C10_long d = false -> idna_of A cfg d = Some d.
Proof.
  intros Hhp Hlong. destruct (parse_domain (idna_of A cfg) t d (host_parse_ok_x _ _ _ Hhp)) as (Hi & _ & _).
  set (bs := PercentEncoding.decode (utf8_encode t)) in *.
  unfold idna_of in Hi. destruct (forallb is_byteb bs) eqn:Eb; [|discriminate]. unfold domain_to_ascii_cow in Hi.
  destruct (to_ascii A cfg bs DENY_URL HAllow DIgnore) as [[b r]| |] eqn:E; try discriminate. inversion Hi; subst r.
  pose proof (c10_idem3 A cfg HOK HUSV HNT HNI HNM HMP bs DENY_URL HAllow DIgnore b d (forallb_bytes bs Eb) valid_deny_url E Hlong) as Hid.
  pose proof (c10_ascii_under_notrunc A cfg HNT bs DENY_URL HAllow DIgnore b d (forallb_bytes bs Eb) valid_deny_url E) as F.
  assert (Ed : forallb is_byteb d = true).
  { apply forallb_forall. intros c Hc. rewrite Forall_forall in F. destruct (F c Hc) as [L _]. unfold is_byteb. lia. }
  unfold idna_of. rewrite Ed. unfold domain_to_ascii_cow. rewrite Hid. reflexivity.
Qed.

(* ---------- the text origin.rs displays ---------- *)
Lemma origin_text d b : Forall (fun c => c < 128) d -> to_ascii A cfg d DENY_URL HAllow DIgnore = U32_c13.Ok (b, d) ->
  origin_tu A cfg d = utf8_encode (ui_text (domain_to_unicode A cfg d))
  /\ ui_text (domain_to_unicode A cfg d) = ui_text (to_unicode A cfg d DENY_URL HAllow).
Proof.
  intros Ha H. split.
  - unfold origin_tu, str_chars. rewrite (utf8_lossy_ascii d Ha). reflexivity.
  - unfold domain_to_unicode. rewrite (C09_Host.utf8_encode_ascii d Ha), (p1_empty_url A cfg d b d H). reflexivity.
Qed.

Lemma hp_nil : hp [] <> HostT.Ok (HDomain []) /\ forall d, d <> [] -> hp [] <> HostT.Ok (HDomain d).
Proof.
  assert (E : host_parse_x (idna_of A cfg) [] = XErr EmptyHost).
  { unfold host_parse_x. cbn [Host.starts_with]. change (utf8_encode []) with (@nil N). rewrite (decode_no_pct [] (fun x => x)).
    unfold idna_of. cbn [forallb]. unfold domain_to_ascii_cow. rewrite (to_ascii_fast A cfg [] DENY_URL HAllow eq_refl). reflexivity. }
  unfold host_parse. rewrite E. cbn [xr_result]. split; [discriminate|intros d _; discriminate].
Qed.

(* the Unicode serialization of (s, Domain d, p) parses to a URL with that origin *)
Theorem rt_unicode_domain dbg ho s d p :
  In s five_schemes -> p <= 65535 ->
  idna_of A cfg d = Some d -> Known_C12 A cfg d DENY_URL HAllow = false -> Known_C10_long d = false ->
  d <> [] -> ends_in_a_number d = false ->
  nlen (ascii_serialization hd (Tuple s (HDomain d) p)) < U32_MAX_P ->
  exists w, url_parse dbg hp ho hd (unicode_serialization hd (origin_tu A cfg) (Tuple s (HDomain d) p)) = POk w
            /\ forall f k, url_origin_fuel dbg hp ho hd f k w = OOk (Tuple s (HDomain d) p) k.
Proof.
  intros H5 Hp Hfix HK Hlong Hne Hnum HB.
  destruct (fixed_domain_facts d Hfix) as (b & H & Hb & Hcl).
  assert (Ha : Forall (fun c => c < 128) d) by (eapply Forall_impl; [|exact Hcl]; intros c [L _]; exact L).
  destruct (origin_text d b Ha H) as [Etu Et].
  destruct (uni_host_rt_full A cfg HOK HUSV HNT HNI HNM HMP HMF HNG d b Ha H HK Hlong Hne Hnum) as [Hback Husv].
  pose proof (unicode_form_okc A cfg DENY_URL HAllow valid_deny_url HOK HUSV HNT HNI HNM HMP d b d Hb H) as Hokc.
  rewrite <- Et in Hokc.
  cbn [unicode_serialization host_fmt]. rewrite Etu.
  set (T := ui_text (domain_to_unicode A cfg d)) in *.
  assert (Hfree : forallb freec T = true).
  { apply forallb_forall. intros c Hc. rewrite Forall_forall in Hokc. exact (okc_freec c (Hokc c Hc)). }
  destruct T as [|c t] eqn:ET.
  { exfalso. exact (proj2 hp_nil d Hne Hback). }
  assert (Hc : freec c = true) by (cbn [forallb] in Hfree; apply andb_true_iff in Hfree; tauto).
  apply freec_facts in Hc.
  pose proof (clean_plain_text d Hne Hcl) as [_ Hpl].
  apply (rt_text_u dbg hp ho hd s c t (HDomain d) p H5 Hp (scannable_u_free _ Hfree) Husv); cbn [host_fmt host_display]; try tauto.
  destruct d as [|y d']; [congruence|]. apply (ends_with_not 47 [] (y :: d')); [discriminate|]. now apply plain_no_slash.
Qed.

(* ---------- origins of parse results ---------- *)
Theorem rt_unicode_domain_model dbg ho input u c s d p c' :
  url_parse dbg hp ho hd input = POk u -> url_origin dbg hp ho hd c u = OOk (Tuple s (HDomain d) p) c' ->
  Known_C12 A cfg d DENY_URL HAllow = false -> Known_C10_long d = false ->
  nlen (ascii_serialization hd (Tuple s (HDomain d) p)) < U32_MAX_P ->
  exists w, url_parse dbg hp ho hd (unicode_serialization hd (origin_tu A cfg) (Tuple s (HDomain d) p)) = POk w
            /\ url_origin dbg hp ho hd c' w = OOk (Tuple s (HDomain d) p) c'.
Proof.
  intros Hu Ho HK Hlong HB.
  destruct (tuple_origin_facts dbg hp ho hd (fun x => eq_refl) _ c u s (HDomain d) p c'
              (url_parse_good dbg hp ho hd (fun x => eq_refl) input u Hu) Ho) as (H5 & Hp & (t & Hhp) & _).
  destruct (parse_domain (idna_of A cfg) t d (host_parse_ok_x _ _ _ Hhp)) as (_ & Hne & Hnum).
  pose proof (returned_domain_fixed t d Hhp Hlong) as Hfix.
  destruct (rt_unicode_domain dbg ho s d p H5 Hp Hfix HK Hlong Hne Hnum HB) as (w & Hw & Hw2).
  exists w. split; [exact Hw|apply Hw2].
Qed.

Theorem rt_both_model dbg ho input u c o c' :
  url_parse dbg hp ho hd input = POk u -> url_origin dbg hp ho hd c u = OOk o c' -> is_tuple o = true ->
  (forall s h p, o = Tuple s h p -> host_known_free A cfg h) ->
  nlen (ascii_serialization hd o) < U32_MAX_P ->
  (exists w, url_parse dbg hp ho hd (ascii_serialization hd o) = POk w /\ url_origin dbg hp ho hd c' w = OOk o c')
  /\ (exists w, url_parse dbg hp ho hd (unicode_serialization hd (origin_tu A cfg) o) = POk w
                /\ url_origin dbg hp ho hd c' w = OOk o c').
Proof.
  intros Hu Ho Ht HK HB. destruct o as [i|s h p]; [discriminate|]. specialize (HK s h p eq_refl).
  destruct (tuple_origin_facts dbg hp ho hd (fun x => eq_refl) _ c u s h p c'
              (url_parse_good dbg hp ho hd (fun x => eq_refl) input u Hu) Ho) as (H5 & Hp & (t & Hhp) & _).
  pose proof (host_parse_ok_x _ _ _ Hhp) as Hx.
  destruct h as [d|a|ps]; cbn [host_known_free] in HK.
  - destruct HK as (HK12 & Hlong). pose proof (returned_domain_fixed t d Hhp Hlong) as Hfix.
    destruct (parse_domain (idna_of A cfg) t d Hx) as (_ & Hne & Hnum).
    destruct (fixed_domain_facts d Hfix) as (b & _ & _ & Hcl).
    split.
    + destruct (proj1 (rt_plain dbg hp ho hd (fun x => x) s (HDomain d) p H5 Hp (clean_plain_text d Hne Hcl) eq_refl
                         (fixed_domain_rt d Hfix Hne Hnum) HB)) as (w & Hw & Hw2).
      exists w. split; [exact Hw|apply Hw2].
    + destruct (rt_unicode_domain dbg ho s d p H5 Hp Hfix HK12 Hlong Hne Hnum HB) as (w & Hw & Hw2).
      exists w. split; [exact Hw|apply Hw2].
  - assert (Ha : a < 4294967296).
    { unfold host_parse_x in Hx. destruct (Host.starts_with 91 t).
      { destruct (bracketed_ok _ _ Hx) as (x & Hx' & _). discriminate Hx'. }
      destruct (idna_of A cfg (PercentEncoding.decode (utf8_encode t))) as [dom|]; [|discriminate].
      destruct dom as [|x dom']; [discriminate|].
      destruct (ends_in_a_number (x :: dom')); [|discriminate].
      destruct (parse_ipv4addr (x :: dom')) as [y| | |] eqn:E; cbn [xr_map] in Hx; try discriminate.
      inversion Hx; subst. eapply parse_ipv4addr_bound. exact E. }
    destruct (ipv4_display_digits a Ha) as (Hd & Hn & _).
    assert (Hpl : plain_text (host_fmt hd (HIpv4 a))).
    { split; [exact Hn|]. apply forallb_forall. intros x Hxin. rewrite Forall_forall in Hd. apply digit_dot_plain. now apply Hd. }
    destruct (proj1 (rt_plain dbg hp ho hd (fun x => x) s (HIpv4 a) p H5 Hp Hpl eq_refl (ipv4_display_rt_model A cfg a Ha) HB)) as (w & Hw & Hw2).
    rewrite (unicode_is_ascii hd (origin_tu A cfg) s (HIpv4 a) p) by (intros x; discriminate).
    split; exists w; (split; [exact Hw|apply Hw2]).
  - assert (Hw8 : wf8 ps).
    { unfold host_parse_x in Hx. destruct (Host.starts_with 91 t).
      - destruct (bracketed_ok _ _ Hx) as (x & Hx' & Hw). inversion Hx'; subst. exact Hw.
      - destruct (idna_of A cfg (PercentEncoding.decode (utf8_encode t))) as [dom|]; [|discriminate].
        destruct dom as [|x dom']; [discriminate|].
        destruct (ends_in_a_number (x :: dom')); [|discriminate].
        destruct (parse_ipv4addr (x :: dom')); cbn [xr_map] in Hx; discriminate. }
    destruct Hw8 as [Hl8 Hf8].
    destruct (rt_ipv6_model dbg (idna_of A cfg) ho (origin_tu A cfg) s ps p H5 Hp Hl8 Hf8) as [(w & Hw & Hw2) (w' & Hw' & Hw2')].
    split; [exists w; split; [exact Hw|apply Hw2]|exists w'; split; [exact Hw'|apply Hw2']].
Qed.
End Model.

(* ---------- non-vacuity: the whole chain executed inside Coq ----------
   HTTPS://A.B<u-umlaut>cher:443/x (parser model, host model, IDNA model with the adapter lowsan4) has the tuple origin
   (https, a.xn--bcher-kva, 443); the domain is outside the known classes; origin.rs displays it as a.b<u-umlaut>cher, so
   the Unicode serialization is the NON-ASCII text https://a.b<u-umlaut>cher, which parses to a URL with the same origin *)
From RU Require Import Proofs.Idna_C12c_Stmt4.
Definition t_HTTPS_A_Bucher_443_x : list N :=
  [72; 84; 84; 80; 83; 58; 47; 47; 65; 46; 66; 195; 188; 99; 104; 101; 114; 58; 52; 52; 51; 47; 120].
Definition t_https_a_bucher : list N := [104; 116; 116; 112; 115; 58; 47; 47; 97; 46; 98; 195; 188; 99; 104; 101; 114].
Definition t_https_a_xn_bcher : list N :=
  [104; 116; 116; 112; 115; 58; 47; 47; 97; 46; 120; 110; 45; 45; 98; 99; 104; 101; 114; 45; 107; 118; 97].
Definition ex_origin_of (t : list N) : option ores :=
  match url_parse true (host_parse (idna_of lowsan4 true)) host_parse_opaque host_display t with
  | POk u => Some (url_origin true (host_parse (idna_of lowsan4 true)) host_parse_opaque host_display 0 u)
  | _ => None
  end.
Example rt_unicode_example :
  let o := Tuple s_https (HDomain W_stmt5_A) 443 in
  ex_origin_of t_HTTPS_A_Bucher_443_x = Some (OOk o 0)
  /\ (idna_of lowsan4 true W_stmt5_A = Some W_stmt5_A /\ Known_C12 lowsan4 true W_stmt5_A DENY_URL HAllow = false
      /\ Known_C10_long W_stmt5_A = false)
  /\ ascii_serialization host_display o = t_https_a_xn_bcher
  /\ unicode_serialization host_display (origin_tu lowsan4 true) o = t_https_a_bucher
  /\ ex_origin_of t_https_a_xn_bcher = Some (OOk o 0)
  /\ ex_origin_of t_https_a_bucher = Some (OOk o 0).
Proof. vm_compute. repeat split; reflexivity. Qed.

(* ---------- the exclusion of Known_C12 is necessary (F-C12-1 at the level of origins = F-C16-1) ----------
   https://xn--xn--ss-ztda/ parses (parser + host + IDNA model, adapter lowsan4, which satisfies the eight premises) to a
   URL with the tuple origin (https, xn--xn--ss-ztda, 443); the domain IS a fixed point of the IDNA step and is outside
   Known_C10_long, the ASCII serialization round-trips; but the domain is in Known_C12: origin.rs displays it as
   xn--<U+02EF><U+02EF>ss, the Unicode serialization is https://xn--<U+02EF><U+02EF>ss, and Url::parse rejects that text
   (IdnaError: a label that begins with xn-- and is not ASCII).  The real crates do the same (replayed: the `known`
   mode of harness/src/bin/c16.rs). *)
Definition t_https_xn_xn : list N := [104; 116; 116; 112; 115; 58; 47; 47] ++ W_C12_1 ++ [47].
Definition t_https_xn_u : list N := [104; 116; 116; 112; 115; 58; 47; 47; 120; 110; 45; 45; 203; 175; 203; 175; 115; 115].
Definition rt_unicode_refuted_stmt : Prop :=
  exists A,
    (AdapterOK A /\ AdapterUSV A /\ NvNoTrunc A /\ NvIdem A /\ AsciiNoMark A /\ MapPrefix A /\ NvMapFix A /\ NvNoGrow A)
    /\ exists input u s d p,
         url_parse true (host_parse (idna_of A true)) host_parse_opaque host_display input = POk u
         /\ url_origin true (host_parse (idna_of A true)) host_parse_opaque host_display 0 u = OOk (Tuple s (HDomain d) p) 0
         /\ idna_of A true d = Some d /\ Known_C10_long d = false /\ Known_C12 A true d DENY_URL HAllow = true
         /\ (exists w, url_parse true (host_parse (idna_of A true)) host_parse_opaque host_display
                         (ascii_serialization host_display (Tuple s (HDomain d) p)) = POk w
                       /\ url_origin true (host_parse (idna_of A true)) host_parse_opaque host_display 0 w
                          = OOk (Tuple s (HDomain d) p) 0)
         /\ unicode_serialization host_display (origin_tu A true) (Tuple s (HDomain d) p) = t_https_xn_u
         /\ url_parse true (host_parse (idna_of A true)) host_parse_opaque host_display t_https_xn_u = PErr IdnaError.
Definition dummy_url : url := mkUrl [] 0 0 0 0 HI_None None 0 None None.
Definition xn_url : url := Eval vm_compute in
  match url_parse true (host_parse (idna_of lowsan4 true)) host_parse_opaque host_display t_https_xn_xn with
  | POk u => u | _ => dummy_url end.
Definition xn_w : url := Eval vm_compute in
  match url_parse true (host_parse (idna_of lowsan4 true)) host_parse_opaque host_display
          (ascii_serialization host_display (Tuple s_https (HDomain W_C12_1) 443)) with
  | POk u => u | _ => dummy_url end.
Lemma rt_unicode_refuted : rt_unicode_refuted_stmt.
Proof.
  exists lowsan4. split; [exact lowsan4_premises5|].
  exists t_https_xn_xn, xn_url, s_https, W_C12_1, 443.
  split; [vm_compute; reflexivity|]. split; [vm_compute; reflexivity|]. split; [vm_compute; reflexivity|].
  split; [vm_compute; reflexivity|]. split; [vm_compute; reflexivity|].
  split; [exists xn_w; split; vm_compute; reflexivity|]. split; vm_compute; reflexivity.
Qed.
