(* Proofs/C03_ReachModel.v - C03_reachability_full instantiated with the host MODEL (Model/Host.v: host_parse idna,
   host_parse_opaque, host_display) under the only premise IdnaOK idna (C09): the five hypotheses on the host
   functions are met - HostWf (C09_InstWf), host_nonempty (C02_Reach4), IpWf (from C02's address clause), HostOK of
   C05 (C09_Inst), IpOKv (C09_Inst.model_IpOK_wf). *)
From RU Require Import Proofs.C15_Ser.
From RU Require Import Base.Prelude Base.Utf8 Model.HostT Model.Host Model.UrlRecord Model.Parser Model.Setters Model.WF
  Proofs.ListN Proofs.C02_Reach Proofs.C02_Hist Proofs.C02_HistInst Proofs.C02_SetHostCanon Proofs.C02_Reach3 Proofs.C02_Reach4
  Proofs.C09_Host Proofs.C09_Inst Proofs.C09_InstWf
  Proofs.C05_Enc Proofs.C05_Parser Proofs.C05_CompSteps3 Proofs.C05_Alphabet
  Proofs.C03_ReachParts Proofs.C03_AuthEnd Proofs.C03_ParseFront Proofs.C03_ReachFull.

Lemma model_IpOKv03 : IpOKv host_display.
Proof. intros h Hv. apply model_IpOK_wf. destruct h as [d|a|p]; [destruct Hv | exact Hv | exact Hv]. Qed.

Theorem model_full_hyps idna : IdnaOK idna ->
  HostWf (host_parse idna) host_parse_opaque host_display /\ host_nonempty (host_parse idna) host_parse_opaque
  /\ IpWf host_display /\ HostOK (host_parse idna) host_parse_opaque host_display /\ IpOKv host_display.
Proof.
  intros OK. pose proof (model_HostWf idna OK) as HW. destruct (HostOK2_model idna OK) as (_ & _ & HC).
  split; [exact HW|]. split; [exact (host_nonempty_model idna)|].
  split; [exact (ipwf_of_clause _ _ _ HW HC)|]. split; [exact (model_HostOK_C05 idna OK) | exact model_IpOKv03].
Qed.

Theorem reach3_model dbg idna : IdnaOK idna ->
  forall u, Reachable3 dbg (host_parse idna) host_parse_opaque host_display u -> inv03 u.
Proof.
  intros OK u R. destruct (model_full_hyps idna OK) as (HW & HNE & HIPW & HOK & HIP).
  exact (proj1 (reach3_inv_all dbg _ _ _ HW HNE HIPW HOK HIP u R)).
Qed.
