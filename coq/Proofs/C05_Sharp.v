(* Proofs/C05_Sharp.v - U+0020 reaches the serialization only through the opaque-path state:
   a parse result is entirely inside 0x21..0x7E unless it has an opaque path (and then a non-special
   scheme, and nothing up to the ':' is a space). *)
From RU Require Import Base.Prelude Base.Utf8 Base.Utf8Facts Model.AsciiSet Gen.Tables Model.PercentEncoding
  Model.HostT Model.UrlRecord Model.Parser Proofs.ListN Proofs.C14_Set Proofs.C14_Enc Proofs.C14_Views
  Proofs.C05_Enc Proofs.C05_Parser.

Definition opaque_ok (u : url) : Prop :=
  Forall ok_or_space (ser u)
  /\ Forall ok_byte (nfirstn (scheme_end u + 1) (ser u))
  /\ cannot_be_a_base u = Some true
  /\ st_is_special (scheme_type_of (nfirstn (scheme_end u) (ser u))) = false.

Definition sharp (u : url) : Prop := Forall ok_byte (ser u) \/ opaque_ok u.

Lemma sharp_oks u : sharp u -> Forall ok_or_space (ser u).
Proof.
  intros [H|H]; [|apply H]. eapply Forall_impl; [|exact H]. exact ok_byte_or_space.
Qed.

(* first byte is '/' *)
Definition hd47 (t : list N) : bool := match t with x :: _ => x =? 47 | [] => false end.

Lemma starts_with_47 s : starts_with [47] s = hd47 s.
Proof. destruct s as [|x r]; [reflexivity|]. cbn [starts_with hd47]. rewrite andb_true_r. apply N.eqb_sym. Qed.

Lemma hd47_app a b : hd47 a = false -> hd47 b = false -> hd47 (a ++ b) = false.
Proof. destruct a; cbn [app hd47]; auto. Qed.

(* ---------- the functions only append ---------- *)
Lemma parse_fragment_loop_app l : forall ser pr,
  exists t, parse_fragment_loop ser pr l = ser ++ t /\ Forall ok_byte t.
Proof.
  induction l as [|c r IH]; intros ser pr; cbn [parse_fragment_loop].
  - destruct pr; [exists []; rewrite app_nil_r; split; [reflexivity | constructor]|].
    unfold flush_part. eexists; split; [reflexivity | apply pe_display_ok, T_FRAGMENT_ctl].
  - destruct (is_tnl c); [|apply IH].
    destruct (IH (flush_part T_FRAGMENT utf8_encode ser pr) []) as [t [Ht Hok]]. rewrite Ht. unfold flush_part.
    rewrite <- app_assoc. eexists; split; [reflexivity|].
    apply Forall_app. split; [apply pe_display_ok, T_FRAGMENT_ctl | exact Hok].
Qed.

Lemma parse_query_loop_app set enc iup l : forall ser pr,
  exists t, fst (parse_query_loop set enc iup ser pr l) = ser ++ t.
Proof.
  induction l as [|c r IH]; intros ser pr; cbn [parse_query_loop].
  - cbn [fst]. destruct pr; [exists []; rewrite app_nil_r; reflexivity | unfold flush_part; eexists; reflexivity].
  - destruct (is_tnl c).
    { destruct (IH (flush_part set enc ser pr) []) as [t Ht]. rewrite Ht. unfold flush_part.
      rewrite <- app_assoc. eexists; reflexivity. }
    destruct ((c =? 35) && iup); [cbn [fst]; unfold flush_part; eexists; reflexivity | apply IH].
Qed.

Lemma parse_query_and_fragment_app ovr ctx st se ser l s qs fs :
  parse_query_and_fragment ovr ctx st se ser l = POk (s, qs, fs) ->
  exists t, s = ser ++ t /\ hd47 t = false.
Proof.
  unfold parse_query_and_fragment. intros H.
  destruct (inp_next l) as [[c r]|]; [|inversion H; subst; exists []; rewrite app_nil_r; split; reflexivity].
  destruct (c =? 35).
  { pb H f0 Hf0. inversion H; subst. unfold parse_fragment.
    destruct (parse_fragment_loop_app r (ser ++ [35]) []) as [t [Ht _]]. rewrite Ht, <- app_assoc.
    eexists; split; reflexivity. }
  destruct (c =? 63); [|discriminate]. pb H q0 Hq0.
  unfold parse_query in H.
  destruct (parse_query_loop_app (query_set st) (query_enc ovr (nfirstn se (ser ++ [63]))) (ctx_eqb ctx CUrlParser) r
              (ser ++ [63]) []) as [t Ht].
  destruct (parse_query_loop (query_set st) (query_enc ovr (nfirstn se (ser ++ [63]))) (ctx_eqb ctx CUrlParser)
              (ser ++ [63]) [] r) as [ser1 rem]. cbn [fst] in Ht. subst ser1.
  destruct rem as [r2|].
  - pb H f0 Hf0. inversion H; subst. unfold parse_fragment.
    destruct (parse_fragment_loop_app r2 (((ser ++ [63]) ++ t) ++ [35]) []) as [t2 [Ht2 _]].
    rewrite Ht2. exists ([63] ++ t ++ [35] ++ t2). split; [rewrite <- !app_assoc; reflexivity | reflexivity].
  - inversion H; subst. rewrite <- app_assoc. eexists; split; reflexivity.
Qed.

Lemma pcbb_app ctx l : forall ser, exists t, fst (parse_cannot_be_a_base_path ctx ser l) = ser ++ t.
Proof.
  induction l as [|c r IH]; intros ser; cbn [parse_cannot_be_a_base_path].
  - exists []. rewrite app_nil_r. reflexivity.
  - destruct (is_tnl c); [apply IH|].
    destruct (((c =? 63) || (c =? 35)) && ctx_eqb ctx CUrlParser); [exists []; rewrite app_nil_r; reflexivity|].
    destruct (IH (push_encoded T_CONTROLS ser [c])) as [t Ht]. rewrite Ht. unfold push_encoded.
    rewrite <- app_assoc. eexists; reflexivity.
Qed.

(* the escape of a scalar value other than '/' is not empty and does not begin with '/' *)
Lemma enc_first_not_slash S c : is_usv c -> c <> 47 ->
  exists x r, pe_display S (utf8_encode [c]) = x :: r /\ x <> 47.
Proof.
  intros Hu Hc. rewrite pe_display_is_encode by (apply utf8_encode_bytes; constructor; [exact Hu | constructor]).
  unfold utf8_encode. cbn [flat_map]. rewrite app_nil_r.
  assert (exists b0 rest, utf8_encode1 c = b0 :: rest /\ (b0 = c \/ 128 <= b0)) as (b0 & rest & E & Hb).
  { unfold utf8_encode1. destruct (c <? 128) eqn:E1; [do 2 eexists; split; [reflexivity | left; reflexivity]|].
    destruct (c <? 2048); [do 2 eexists; split; [reflexivity | right; lia]|].
    destruct (c <? 65536); do 2 eexists; (split; [reflexivity | right; lia]). }
  rewrite E, encode_cons. unfold enc1.
  destruct (should_encode S b0) eqn:Es.
  - unfold enc_byte_spec. cbn [app]. do 2 eexists. split; [reflexivity | lia].
  - cbn [app]. do 2 eexists. split; [reflexivity|].
    destruct Hb as [->|Hb]; [exact Hc|]. unfold should_encode in Es. replace (128 <=? b0) with true in Es by lia. discriminate.
Qed.

Lemma pcbb_head ctx l : forall ser, usv_list l -> hd47 (drop_while is_tnl l) = false ->
  exists t, fst (parse_cannot_be_a_base_path ctx ser l) = ser ++ t /\ hd47 t = false.
Proof.
  induction l as [|c r IH]; intros ser Hu Hh; cbn [parse_cannot_be_a_base_path].
  - exists []. rewrite app_nil_r. split; reflexivity.
  - inversion Hu as [|? ? Hc Hr]; subst. cbn [drop_while] in Hh.
    destruct (is_tnl c); [apply IH; assumption|]. cbn [hd47] in Hh.
    destruct (((c =? 63) || (c =? 35)) && ctx_eqb ctx CUrlParser); [exists []; rewrite app_nil_r; split; reflexivity|].
    destruct (pcbb_app ctx r (push_encoded T_CONTROLS ser [c])) as [t Ht]. rewrite Ht. unfold push_encoded.
    destruct (enc_first_not_slash T_CONTROLS c Hc ltac:(lia)) as (x & e & E & Hx). rewrite E.
    rewrite <- app_assoc. eexists. split; [reflexivity|]. cbn [app hd47]. lia.
Qed.

(* ---------- list facts ---------- *)
Lemma Forall_firstn_firstn {A} (Q : A -> Prop) n i : forall l, Forall Q (firstn n l) -> Forall Q (firstn n (firstn i l)).
Proof.
  revert i. induction n as [|n IH]; intros i l H; [constructor|].
  destruct i as [|i]; [cbn; constructor|]. destruct l as [|x l]; [constructor|].
  cbn [firstn] in *. inversion H; subst. constructor; [assumption | apply IH; assumption].
Qed.

Lemma Forall_firstn_app {A} (Q : A -> Prop) n : forall a t, Forall Q (firstn n a) -> Forall Q t -> Forall Q (firstn n (a ++ t)).
Proof.
  induction n as [|n IH]; intros a t Ha Ht; [constructor|].
  destruct a as [|x a]; [cbn [app]; apply Forall_firstn; exact Ht|].
  cbn [app firstn] in *. inversion Ha; subst. constructor; [assumption | apply IH; assumption].
Qed.

Lemma firstn_app_ge {A} n (a t : list A) : (n <= length a)%nat -> firstn n (a ++ t) = firstn n a.
Proof.
  intros H. rewrite firstn_app. replace (n - length a)%nat with 0%nat by lia. cbn [firstn]. apply app_nil_r.
Qed.

Lemma skipn_app_ge {A} n (a t : list A) : (n <= length a)%nat -> skipn n (a ++ t) = skipn n a ++ t.
Proof.
  intros H. rewrite skipn_app. replace (n - length a)%nat with 0%nat by lia. reflexivity.
Qed.

Lemma hd47_firstn k s : hd47 s = false -> hd47 (firstn k s) = false.
Proof. destruct k; [reflexivity|]. destruct s; [reflexivity|]. cbn [firstn hd47]. auto. Qed.

(* ---------- scheme facts ---------- *)
Lemma scheme_type_of_eqb a b : list_eqb a b = true -> scheme_type_of a = scheme_type_of b.
Proof. intros H. apply list_eqb_spec in H. subst. reflexivity. Qed.

Section Sharp.
Variable dbg : bool.
Variable host_parse host_parse_opaque : list N -> result host.
Variable host_display : host -> list N.
Variable ovr : option (list N -> list N).
Hypothesis HOK : HostOK host_parse host_parse_opaque host_display.

Notation PU := (parse_url dbg host_parse host_parse_opaque host_display ovr).
Notation PWS := (parse_with_scheme dbg host_parse host_parse_opaque host_display ovr).

(* a base with a non-special scheme is not looked at once a scheme has been parsed *)
Lemma parse_with_scheme_nonspecial_base b scheme l :
  st_is_special (scheme_type_of (b_scheme b)) = false ->
  PWS (Some b) scheme l = PWS None scheme l.
Proof.
  intros Hb. unfold parse_with_scheme. destruct (to_u32 (nlen scheme)); cbn [pbind]; try reflexivity.
  cbv zeta. destruct (scheme_type_of scheme) eqn:Est.
  - destruct (list_eqb (b_scheme b) s_file) eqn:E; [|reflexivity].
    apply scheme_type_of_eqb in E. rewrite E in Hb. discriminate.
  - destruct (inp_count_matching is_slash_or_bslash l) as [slashes remaining].
    destruct (list_eqb (b_scheme b) scheme) eqn:E.
    + apply scheme_type_of_eqb in E. rewrite E, Est in Hb. discriminate.
    + rewrite andb_false_r. reflexivity.
  - reflexivity.
Qed.

(* fragment-only reference against an opaque base *)
Lemma fragment_only_sharp b l u : opaque_ok b -> fragment_only b l = POk u -> sharp u.
Proof.
  intros (Hs & Hpre & Hcbb & Hsp) H.
  pose proof (fragment_only_okl ok_or_space ok_byte_or_space b l u H Hs) as Hall.
  pose proof (fragment_only_okl ok_byte (fun _ h => h) b l u H) as Hallok.
  unfold fragment_only in H. cbv zeta in H. pb H f0 Hf0. inversion H; subst. clear H.
  unfold parse_fragment in *.
  destruct (parse_fragment_loop_app (match inp_next l with Some (_, r) => r | None => [] end)
              (b_before_fragment b ++ [35]) []) as [t [Ht Htok]].
  cbn [ser] in Hall, Hallok. rewrite Ht in Hall. rewrite <- app_assoc in Hall.
  assert (Forall ok_byte ([35] ++ t)) as Htl.
  { apply Forall_app. split; [repeat constructor; unfold ok_byte; lia | exact Htok]. }
  unfold cannot_be_a_base, u_slice_from, slice_from_o in Hcbb.
  set (se := scheme_end b) in *.
  destruct (se + 1 <=? nlen (ser b)) eqn:Elen; [|cbn [bindo] in Hcbb; discriminate Hcbb]. cbn [bindo] in Hcbb.
  assert (hd47 (nskipn (se + 1) (ser b)) = false) as Hhd.
  { rewrite starts_with_47 in Hcbb. destruct (hd47 (nskipn (se + 1) (ser b))); [discriminate Hcbb | reflexivity]. }
  (* where the fragment of the base started *)
  unfold b_before_fragment in *.
  destruct (fragment_start b) as [i|] eqn:Ef.
  2:{ (* no fragment: the whole base is kept *)
      right. unfold opaque_ok. cbn [ser scheme_end]. fold se. rewrite Ht, <- app_assoc.
      split; [exact Hall|]. split; [|split].
      - unfold nfirstn. apply Forall_firstn_app; [exact Hpre | exact Htl].
      - unfold cannot_be_a_base, u_slice_from, slice_from_o. cbn [ser scheme_end]. fold se.
        rewrite nlen_app. replace (se + 1 <=? nlen (ser b) + nlen ([35] ++ t)) with true by lia. cbn [bindo].
        unfold nskipn. rewrite skipn_app_ge by (unfold nlen in Elen; lia).
        rewrite starts_with_47, hd47_app; [reflexivity | exact Hhd | reflexivity].
      - unfold nfirstn. rewrite firstn_app_ge by (unfold nlen in Elen; lia). exact Hsp. }
  destruct (N.leb_spec i se) as [Hi|Hi].
  { (* the kept prefix ends before the ':' : everything is in 0x21..0x7E *)
    left. cbn [ser]. rewrite Ht, <- app_assoc. apply Forall_app. split; [|exact Htl].
    unfold nfirstn in *. replace (N.to_nat i) with (Nat.min (N.to_nat i) (N.to_nat (se + 1))) by lia.
    rewrite <- firstn_firstn. apply Forall_firstn. exact Hpre. }
  right. unfold opaque_ok. cbn [ser scheme_end]. fold se. rewrite Ht, <- app_assoc.
  assert (N.to_nat (se + 1) <= length (nfirstn i (ser b)))%nat as Hl.
  { unfold nfirstn. rewrite firstn_length. unfold nlen in Elen. lia. }
  split; [exact Hall|]. split; [|split].
  - unfold nfirstn at 1. apply Forall_firstn_app; [|exact Htl].
    unfold nfirstn. apply Forall_firstn_firstn. exact Hpre.
  - unfold cannot_be_a_base, u_slice_from, slice_from_o. cbn [ser scheme_end]. fold se.
    rewrite nlen_app. unfold nlen at 1.
    replace (se + 1 <=? N.of_nat (length (nfirstn i (ser b))) + nlen ([35] ++ t)) with true by lia. cbn [bindo].
    unfold nskipn at 1. rewrite skipn_app_ge by exact Hl.
    rewrite starts_with_47, hd47_app; [reflexivity | | reflexivity].
    unfold nfirstn. rewrite skipn_firstn_comm. apply hd47_firstn. exact Hhd.
  - unfold nfirstn at 1. rewrite firstn_app_ge by lia.
    unfold nfirstn. rewrite firstn_firstn. replace (Nat.min (N.to_nat se) (N.to_nat i)) with (N.to_nat se) by lia.
    exact Hsp.
Qed.

Lemma to_u32_ok n m : to_u32 n = POk m -> m = n.
Proof. unfold to_u32. destruct (n <=? U32_MAX_P); intros H; [inversion H; reflexivity | discriminate]. Qed.

Lemma starts_ss_hd47 t : hd47 t = false -> starts_with s_ss t = false.
Proof.
  destruct t as [|x r]; [reflexivity|]. cbn [hd47]. intros H. unfold s_ss. cbn [starts_with].
  replace (47 =? x) with false by lia. reflexivity.
Qed.

(* the opaque-path branch of the non-special state *)
Lemma parse_non_special_opaque st se sr l u :
  usv_list l -> opaque_branch l = true ->
  nlen sr = se + 1 -> Forall ok_byte sr ->
  st_is_special (scheme_type_of (nfirstn se sr)) = false ->
  parse_non_special dbg host_parse host_parse_opaque host_display ovr CUrlParser st se sr l = POk u ->
  opaque_ok u.
Proof.
  intros Hu Hob Hlen Hsr Hsp H.
  assert (Forall ok_or_space (ser u)) as Hall.
  { eapply (parse_non_special_okl ok_or_space ok_byte_or_space); [exact HOK | intros _; exact ok_or_space_32 | exact H|].
    eapply Forall_impl; [|exact Hsr]. exact ok_byte_or_space. }
  unfold parse_non_special in H. unfold opaque_branch in Hob.
  destruct (inp_split_prefix_str s_ss l); [discriminate|].
  destruct (inp_split_prefix_char 47 l) eqn:E47; [discriminate|].
  assert (hd47 (drop_while is_tnl l) = false) as Hhd.
  { unfold inp_split_prefix_char, inp_next in E47. destruct (drop_while is_tnl l) as [|c r]; [reflexivity|].
    cbn [hd47]. destruct (c =? 47); [discriminate | reflexivity]. }
  pb H ps Hps. apply to_u32_ok in Hps. pb H a Ha. destruct a as [ser1 remaining].
  destruct (pcbb_head CUrlParser l sr Hu Hhd) as (t1 & Ht1 & Hh1).
  inversion Ha as [Ea]. rewrite Ea in Ht1. cbn [fst] in Ht1. subst ser1. clear Ea Ha.
  unfold with_query_and_fragment in H.
  replace (ps =? se + 1) with true in H by lia.
  assert (nskipn ps (sr ++ t1) = t1) as Esk.
  { unfold nskipn. rewrite skipn_app_ge by (unfold nlen in *; lia).
    rewrite skipn_all2 by (unfold nlen in *; lia). reflexivity. }
  rewrite Esk, (starts_ss_hd47 t1 Hh1) in H.
  pb H b Hb. destruct b as [s1 ps1]. pb Hb x Hx. inversion Hb; subst s1 ps1. clear Hb.
  pb H c Hc. destruct c as [[ser2 qs] fs]. inversion H; subst u. clear H.
  destruct (parse_query_and_fragment_app _ _ _ _ _ _ _ _ _ Hc) as (t2 & Ht2 & Hh2). subst ser2.
  unfold opaque_ok. cbn [ser scheme_end] in *. rewrite <- app_assoc in *.
  split; [exact Hall|]. split; [|split].
  - unfold nfirstn. rewrite firstn_app_ge by (unfold nlen in *; lia).
    apply Forall_firstn. exact Hsr.
  - unfold cannot_be_a_base, u_slice_from, slice_from_o. cbn [ser scheme_end].
    rewrite nlen_app. replace (se + 1 <=? nlen sr + nlen (t1 ++ t2)) with true by lia. cbn [bindo].
    unfold nskipn. rewrite skipn_app_ge by (unfold nlen in *; lia).
    rewrite skipn_all2 by (unfold nlen in *; lia). cbn [app].
    rewrite starts_with_47, hd47_app; [reflexivity | exact Hh1 | exact Hh2].
  - unfold nfirstn. rewrite firstn_app_ge by (unfold nlen in *; lia). exact Hsp.
Qed.

Lemma usv_list_drop_while f l : usv_list l -> usv_list (drop_while f l).
Proof. apply (okl_drop_while is_usv). Qed.

Lemma usv_list_trim l : usv_list l -> usv_list (input_new_trim_c0 l).
Proof.
  intros H. unfold input_new_trim_c0, trim_matches.
  apply Forall_rev, usv_list_drop_while, Forall_rev, usv_list_drop_while. exact H.
Qed.

Lemma parse_scheme_loop_rest ctx l : forall acc s r, usv_list l ->
  parse_scheme_loop ctx acc l = Some (s, r) -> usv_list r.
Proof.
  induction l as [|c t IH]; intros acc s r Hu H; cbn [parse_scheme_loop] in H.
  - destruct (ctx_eqb ctx CSetter); [|discriminate]. inversion H; subst. constructor.
  - inversion Hu; subst. destruct (is_tnl c); [eapply IH; eassumption|].
    destruct (is_lower c || is_digit c || (c =? 43) || (c =? 45) || (c =? 46)); [eapply IH; eassumption|].
    destruct (is_upper c); [eapply IH; eassumption|].
    destruct (c =? 58); [|discriminate]. inversion H; subst. assumption.
Qed.

Lemma parse_scheme_rest ctx l s r : usv_list l -> parse_scheme ctx l = Some (s, r) -> usv_list r.
Proof.
  unfold parse_scheme. intros Hu H. destruct (inp_starts_with_pred is_alpha l); [|discriminate].
  eapply parse_scheme_loop_rest; eassumption.
Qed.

(* ---------- the theorem ---------- *)
Theorem parse_url_sharp base input u :
  usv_list input ->
  match base with Some b => sharp b | None => True end ->
  PU base input = POk u -> sharp u.
Proof.
  intros Hu Hbase H.
  destruct (url_opaque_input input) eqn:Eop.
  - (* the opaque-path state is entered *)
    right. unfold url_opaque_input in Eop. unfold parse_url in H. cbv zeta in H.
    destruct (parse_scheme CUrlParser (input_new_trim_c0 input)) as [[scheme remaining]|] eqn:Es; [|discriminate].
    pose proof (parse_scheme_rest _ _ _ _ (usv_list_trim _ Hu) Es) as Hur.
    pose proof (parse_scheme_ok _ _ _ _ Es) as Hsch.
    unfold opaque_input in Eop. unfold parse_with_scheme in H. pb H se Hse. apply to_u32_ok in Hse. cbv zeta in H.
    destruct (scheme_type_of scheme) eqn:Est; try discriminate.
    eapply parse_non_special_opaque; [exact Hur | exact Eop | | | | exact H].
    + rewrite nlen_app, Hse. reflexivity.
    + apply Forall_app. split; [exact Hsch | repeat constructor; unfold ok_byte; lia].
    + subst se. unfold nfirstn, nlen. rewrite Nat2N.id, firstn_app_ge by lia. rewrite firstn_all, Est. reflexivity.
  - (* it is not: nothing can write a space *)
    assert (forall base', match base' with Some b => Forall ok_byte (ser b) | None => True end ->
                          PU base' input = POk u -> sharp u) as Hplain.
    { intros base' Hb' H'. left.
      eapply (parse_url_okl ok_byte (fun _ h => h)); [exact HOK | | exact H' | exact Hb'].
      rewrite Eop. discriminate. }
    destruct base as [b|]; [|apply (Hplain None I H)].
    destruct Hbase as [Hb|Hb]; [apply (Hplain (Some b) Hb H)|].
    (* an opaque base with spaces: only its fragment can be replaced *)
    destruct Hb as (Hs & Hpre & Hcbb & Hsp).
    unfold parse_url in H. cbv zeta in H.
    destruct (parse_scheme CUrlParser (input_new_trim_c0 input)) as [[scheme remaining]|] eqn:Es.
    + rewrite parse_with_scheme_nonspecial_base in H by exact Hsp.
      apply (Hplain None I). unfold parse_url. cbv zeta. rewrite Es. exact H.
    + destruct (inp_starts_with_char 35 (input_new_trim_c0 input)).
      * eapply fragment_only_sharp; [|exact H]. repeat split; assumption.
      * rewrite Hcbb in H. discriminate.
Qed.

End Sharp.
