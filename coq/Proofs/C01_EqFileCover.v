(* Proofs/C01_EqFileCover.v - class 1 of Known_C01 narrowed to the file divergences that are not proved:
   (i)  the recogniser of Known_C01 for the file scheme, k_file_ok (Model/KnownC01.v: the Standard's file path
        state run on RAW segments), implies the recogniser of the proved file class, file_class_ok
        (Proofs/C01_EqFile.v: the same run on the Standard's own state, percent-encoded buffer and segment
        list) - the encoder of the path set is invisible to the dot-segment tests and to the drive-letter
        tests, and commutes with the normalization of a first drive letter;
   (ii) known_c01_v2 = 0 -> known_c01_v1 = 0 (the predicate with class 1 = the whole file scheme) or the input is
        "file:" R inside in_class_file with no file base;
   (iii) the assembled statement for the narrowed predicate: in_proved_class4 = in_proved_class3 + the file
        class, host hypothesis host_hyp4 = host_hyp3 + host_agree_file on the one host text of a file input. *)
From Coq Require Import ZifyBool ZifyN.
From RU Require Import Base.Prelude Base.Utf8 Base.Utf8Facts Model.AsciiSet Gen.Tables
  Model.PercentEncoding Model.HostT Model.UrlRecord Model.Parser Model.Setters Model.WF Model.Host Model.KnownC01
  Spec.Whatwg Spec.WhatwgHost Spec.WhatwgHostParse
  Proofs.C02_Parts Proofs.C02_Path Proofs.C03_WF Proofs.C01_Tables Proofs.C08_Input Proofs.C09_Host
  Proofs.C01_EqRun Proofs.C01_EqEnc Proofs.C01_EqApi Proofs.C01_EqOpaque Proofs.C01_EqRef Proofs.C01_EqDots
  Proofs.C01_EqPathSpec Proofs.C01_EqPath Proofs.C01_EqOverflow Proofs.C01_EqEmpty
  Proofs.C01_EqClasses Proofs.C01_EqAuthSpec Proofs.C01_EqAuthModel Proofs.C01_EqAuth Proofs.C01_EqAuthHost
  Proofs.C01_EqClasses2 Proofs.C01_EqRel Proofs.C01_EqRelPath Proofs.C01_EqRelArms Proofs.C01_EqRelBase
  Proofs.C01_EqSpSpec Proofs.C01_EqSpPath Proofs.C01_EqSpModel Proofs.C01_EqSp Proofs.C01_EqSpHost
  Proofs.C01_KnownExact Proofs.C01_EqSpKnown
  Proofs.C01_EqAbs Proofs.C01_EqSpBase Proofs.C01_EqSpBare Proofs.C01_Override Proofs.C01_EqAsm Proofs.C01_EqShape
  Proofs.C01_EqCover
  Proofs.C01_EqFileSpec Proofs.C01_EqFilePath Proofs.C01_EqFileRel Proofs.C01_EqFile Proofs.C01_EqFileHost
  Proofs.C01_EqFileAsm.

(* ================= (i) the raw run against the Standard's state ================= *)
Notation U := (upe in_path_set).

Lemma enc_cp_cases c : (in_path_set c = false /\ utf8_percent_encode_cp in_path_set c = [c])
  \/ (in_path_set c = true /\ exists h l tl, utf8_percent_encode_cp in_path_set c = 37 :: h :: l :: tl).
Proof.
  destruct (in_path_set c) eqn:E.
  - right. split; [reflexivity|]. destruct (upe_cp_shape' c) as [K|K]; [|exact K].
    exfalso. unfold utf8_percent_encode_cp in K. rewrite E in K.
    unfold utf8_encode in K. cbn [flat_map] in K. rewrite app_nil_r in K.
    unfold utf8_encode1 in K. destruct (c <? 128); [discriminate K|]. destruct (c <? 2048); [discriminate K|].
    destruct (c <? 65536); discriminate K.
  - left. split; [reflexivity|]. unfold utf8_percent_encode_cp. rewrite E. reflexivity.
Qed.

Lemma alpha_enc a : is_alpha a = true -> utf8_percent_encode_cp in_path_set a = [a].
Proof.
  intros H. unfold utf8_percent_encode_cp. assert (in_path_set a = false) as ->; [|reflexivity].
  unfold is_alpha, is_upper, is_lower in H. unfold in_path_set, in_query_set, in_c0_control_set, is_c0_control. cbn [memb]. lia.
Qed.
Lemma colbar_enc b : (b =? 58) || (b =? 124) = true -> utf8_percent_encode_cp in_path_set b = [b].
Proof.
  intros H. unfold utf8_percent_encode_cp. assert (in_path_set b = false) as ->; [|reflexivity].
  unfold in_path_set, in_query_set, in_c0_control_set, is_c0_control. cbn [memb]. lia.
Qed.

Lemma U_nil : U [] = [].
Proof. reflexivity. Qed.

(* a Windows drive letter is not touched by the encoder, and an encoded buffer that is one was one *)
Lemma wdl_U_id B : is_windows_drive_letter B = true -> U B = B.
Proof.
  destruct B as [|a [|b [|c r]]]; try discriminate. cbn [is_windows_drive_letter]. intros H.
  apply andb_true_iff in H. destruct H as [Ha Hb].
  rewrite !upe_cons, (alpha_enc a Ha), (colbar_enc b Hb). reflexivity.
Qed.
Lemma wdl_U_raw B : is_windows_drive_letter (U B) = true -> is_windows_drive_letter B = true.
Proof.
  intros H.
  assert (starts_with_wdl (U B ++ [47]) = true) as K.
  { destruct (U B) as [|a [|b [|c r]]]; try discriminate H. cbn [is_windows_drive_letter] in H.
    cbn [app starts_with_wdl]. rewrite H. reflexivity. }
  apply wdl_enc_raw in K. unfold k_wdl in K.
  destruct B as [|a [|b rest]]; [discriminate K | |].
  { exfalso. cbn [app starts_with_wdl] in K. replace ((47 =? 58) || (47 =? 124)) with false in K by reflexivity.
    rewrite andb_false_r in K. discriminate K. }
  cbn [app starts_with_wdl] in K. apply andb_true_iff in K. destruct K as [K _]. apply andb_true_iff in K. destruct K as [Ha Hb].
  rewrite !upe_cons, (alpha_enc a Ha), (colbar_enc b Hb) in H. cbn [app] in H.
  destruct (U rest) as [|x y] eqn:E; [|discriminate H].
  pose proof (upe_nil_iff in_path_set rest) as Kn. rewrite E in Kn. destruct rest; [|discriminate Kn].
  cbn [is_windows_drive_letter]. rewrite Ha, Hb. reflexivity.
Qed.
Lemma wdl_U B : is_windows_drive_letter (U B) = is_wdl B.
Proof.
  rewrite is_wdl_agree. destruct (is_windows_drive_letter B) eqn:E.
  - rewrite (wdl_U_id B E). exact E.
  - destruct (is_windows_drive_letter (U B)) eqn:E2; [|reflexivity]. rewrite (wdl_U_raw B E2) in E. discriminate E.
Qed.
Lemma nwdl_is_wdl s : is_normalized_windows_drive_letter s = true -> is_windows_drive_letter s = true.
Proof.
  destruct s as [|a [|b [|c r]]]; try discriminate. cbn [is_normalized_windows_drive_letter is_windows_drive_letter].
  intros H. apply andb_true_iff in H. destruct H as [-> ->]. reflexivity.
Qed.
Lemma nwdl_U B : is_normalized_windows_drive_letter (U B) = is_normalized_wdl B.
Proof.
  rewrite is_nwdl_agree. destruct (is_windows_drive_letter B) eqn:E.
  - rewrite (wdl_U_id B E). reflexivity.
  - destruct (is_normalized_windows_drive_letter (U B)) eqn:E2.
    + rewrite (wdl_U_raw B (nwdl_is_wdl _ E2)) in E. discriminate E.
    + destruct (is_normalized_windows_drive_letter B) eqn:E3; [|reflexivity]. rewrite (nwdl_is_wdl _ E3) in E. discriminate E.
Qed.

Lemma pref_U_raw B : wdl_pref (U B) = true -> kf_pref B = true.
Proof.
  destruct B as [|x [|y r]].
  - discriminate.
  - rewrite upe_cons, U_nil, app_nil_r. destruct (enc_cp_cases x) as [[_ E]|[_ (h & l & tl & E)]]; rewrite E; discriminate.
  - rewrite !upe_cons.
    destruct (enc_cp_cases x) as [[_ E]|[_ (h & l & tl & E)]]; rewrite E; [|discriminate].
    destruct (enc_cp_cases y) as [[_ E2]|[_ (h & l & tl & E2)]]; rewrite E2; cbn [app wdl_pref kf_pref].
    + intros H; exact H.
    + replace ((37 =? 58) || (37 =? 124)) with false by reflexivity. rewrite andb_false_r. discriminate.
Qed.

Lemma k_nil_eq {A} (l : list A) : k_nil l = match l with [] => true | _ => false end.
Proof. reflexivity. Qed.
Lemma is_nil_map P : is_nil (map U P) = k_nil P.
Proof. destruct P; reflexivity. Qed.

Lemma last_wdl_U_raw P : last_is_wdl (map U P) = true -> kf_last_wdl P = true.
Proof.
  unfold last_is_wdl, kf_last_wdl. rewrite <- map_rev. destruct (rev P) as [|s r]; [discriminate|]. cbn [map].
  apply wdl_enc_raw.
Qed.

Lemma map_removelast {A B} (f : A -> B) l : removelast (map f l) = map f (removelast l).
Proof.
  induction l as [|a l IH]; [reflexivity|]. destruct l as [|b l]; [reflexivity|].
  change (f a :: removelast (map f (b :: l)) = f a :: map f (removelast (b :: l))). rewrite IH. reflexivity.
Qed.

Lemma shorten_U P : shorten_f (map U P) = map U (kf_shorten P).
Proof.
  destruct P as [|p0 [|p1 P']]; [reflexivity| |].
  - cbn [map shorten_f kf_shorten]. rewrite nwdl_U. destruct (is_normalized_wdl p0); reflexivity.
  - change (removelast (map U (p0 :: p1 :: P')) = map U (removelast (p0 :: p1 :: P'))). apply map_removelast.
Qed.

Lemma norm_U P B : norm_first (map U P) (U B) = U (kf_norm P B).
Proof.
  unfold norm_first, kf_norm. rewrite is_nil_map, wdl_U.
  destruct (k_nil P && is_wdl B) eqn:E; [|reflexivity].
  apply andb_true_iff in E. destruct E as [_ E]. rewrite is_wdl_agree in E.
  rewrite (wdl_U_id B E). destruct B as [|a [|b [|c r]]]; try discriminate E.
  cbn [is_windows_drive_letter] in E. apply andb_true_iff in E. destruct E as [Ha _].
  symmetry. apply wdl_U_id. cbn [is_windows_drive_letter]. rewrite Ha. reflexivity.
Qed.

Lemma fin_U P B sep : fin_f (map U P) (U B) sep = map U (kf_fin P B sep).
Proof.
  unfold fin_f, kf_fin. rewrite double_dot_enc, single_dot_enc, shorten_U, norm_U.
  destruct (is_double_dot B); [destruct sep; [reflexivity | rewrite map_app; reflexivity]|].
  destruct (is_single_dot B); [destruct sep; [reflexivity | rewrite map_app; reflexivity]|].
  rewrite map_app. reflexivity.
Qed.

Lemma spath_U t : forall P B, fst (spath_f t (map U P) (U B)) = map U (kf_path t P B).
Proof.
  induction t as [|c r IH]; intros P B; cbn [spath_f kf_path].
  - cbn [fst]. apply fin_U.
  - change (k_sl c) with (is_sl c). change (k_qh c) with (is_qh c). destruct (is_sl c).
    + rewrite fin_U. change (@nil N) with (U []) at 1. apply IH.
    + destruct (is_qh c); [cbn [fst]; apply fin_U|].
      rewrite upe_snoc. apply IH.
Qed.

Lemma sole_U P : sole_nwdl (map U P) = kf_sole P.
Proof. destruct P as [|p0 [|p1 P']]; try reflexivity. cbn [map sole_nwdl kf_sole]. apply nwdl_U. Qed.

Lemma fin_ok_U hh P B : kf_fin_ok hh P B = true -> fin_okf hh (map U P) (U B) = true.
Proof.
  unfold kf_fin_ok, fin_okf, fin_ok2, fin_ok. rewrite double_dot_enc, is_nil_map, wdl_U, sole_U. intros H.
  apply andb_true_iff in H. destruct H as [H1 H2]. rewrite H2, andb_true_r.
  destruct (is_double_dot B); [|reflexivity]. cbn [andb] in *.
  destruct (kf_sole P); [apply orb_true_r|]. cbn [negb] in H1. rewrite andb_true_r in H1. rewrite orb_false_r.
  destruct (last_is_wdl (map U P)) eqn:E; [|reflexivity]. rewrite (last_wdl_U_raw P E) in H1. discriminate H1.
Qed.

Lemma fpath_ok_U hh t : forall P B, kf_path_ok hh t P B = true -> fpath_ok hh t (map U P) (U B) = true.
Proof.
  induction t as [|c r IH]; intros P B H; cbn [fpath_ok kf_path_ok] in *.
  - exact (fin_ok_U hh P B H).
  - change (k_sl c) with (is_sl c) in H. change (k_qh c) with (is_qh c) in H. destruct (is_sl c).
    + apply andb_true_iff in H. destruct H as [H1 H2]. rewrite (fin_ok_U hh P B H1). cbn [andb].
      rewrite fin_U. change (@nil N) with (U []) at 1. exact (IH _ _ H2).
    + destruct (is_qh c); [exact (fin_ok_U hh P B H)|].
      apply andb_true_iff in H. destruct H as [H1 H2]. rewrite upe_snoc, (IH _ _ H2), andb_true_r.
      rewrite is_nil_map. destruct (k_nil P); [|reflexivity]. cbn [andb] in *.
      destruct (wdl_pref (U B)) eqn:E; [|reflexivity]. rewrite (pref_U_raw B E) in H1. exact H1.
Qed.

Lemma strip_U P : strip_f (map U P) = map U (kf_strip P).
Proof.
  induction P as [|s r IH]; [reflexivity|]. cbn [map strip_f kf_strip].
  rewrite upe_nil_iff. change (is_nil s) with (k_nil s). destruct (k_nil s); [exact IH | reflexivity].
Qed.

Lemma segs_eqb_U a : forall b, kf_segs_eqb a b = true -> segs_eqb (map U a) (map U b) = true.
Proof.
  induction a as [|x a IH]; intros [|y b] H; try discriminate H; [reflexivity|].
  cbn [kf_segs_eqb] in H. apply andb_true_iff in H. destruct H as [H1 H2]. cbn [map segs_eqb].
  apply list_eqb_spec in H1. subst y. rewrite (IH b H2), andb_true_r. apply list_eqb_spec. reflexivity.
Qed.

Lemma fp_ok_U hh tm ts : kf_ok hh tm ts = true -> fp_ok hh tm ts = true.
Proof.
  unfold kf_ok, fp_ok. intros H. apply andb_true_iff in H. destruct H as [H1 H2].
  change (@nil (list N)) with (map U []). change (@nil N) with (U []).
  rewrite (fpath_ok_U hh tm [] [] H1). cbn [andb]. rewrite !spath_U, strip_U. exact (segs_eqb_U _ _ H2).
Qed.

Lemma kf_path_text_eq X : kf_path_text X = path_text_s X.
Proof. destruct X as [|c r]; [reflexivity|]. reflexivity. Qed.

Theorem k_file_ok_class R : k_file_ok R = true -> file_class_ok R = true.
Proof.
  unfold k_file_ok, file_class_ok.
  destruct R as [|c1 R1]; [apply fp_ok_U|]. change (k_sl c1) with (is_sl c1).
  destruct (is_sl c1); [|apply fp_ok_U].
  destruct R1 as [|c2 T]; [apply fp_ok_U|]. change (k_sl c2) with (is_sl c2).
  destruct (is_sl c2); [|apply fp_ok_U].
  cbv zeta. rewrite k_apart_true, k_arest_true, kf_path_text_eq, <- is_wdl_agree. intros H.
  apply andb_true_iff in H. destruct H as [H H3]. apply andb_true_iff in H. destruct H as [H1 H2].
  rewrite H1, (fp_ok_U _ _ _ H2). cbn [andb].
  change (k_nil (as_part T)) with (is_nil (as_part T)) in H3.
  destruct (is_nil (as_part T)); [reflexivity|]. cbn [orb] in *. exact (fp_ok_U _ _ _ H3).
Qed.

(* ================= (ii) the narrowed predicate ================= *)
Lemma known_split base input : known_c01_v2 base input = 0 ->
  known_c01_v1 base input = 0 \/ k_file_narrow_v2 base input = true.
Proof.
  unfold known_c01_v2. cbv zeta.
  destruct ((known_c01_v1 base input =? 1) && k_file_narrow_v2 base input) eqn:E.
  - intros _. right. apply andb_true_iff in E. exact (proj2 E).
  - intros H. left. exact H.
Qed.

(* the narrowed predicate is below the former one: whatever was outside Known_C01 still is *)
Lemma known_v1_zero base input : known_c01_v1 base input = 0 -> known_c01_v2 base input = 0.
Proof. intros H. unfold known_c01_v2. cbv zeta. rewrite H. reflexivity. Qed.

(* the classes 2-4 are untouched *)
Lemma known_class_same base input : known_c01_v2 base input <> 0 -> known_c01_v2 base input = known_c01_v1 base input.
Proof.
  unfold known_c01_v2. cbv zeta. destruct ((known_c01_v1 base input =? 1) && k_file_narrow_v2 base input).
  - intros H. exfalso. apply H. reflexivity.
  - intros _. reflexivity.
Qed.

Lemma narrow_in_class base input : k_file_narrow_v2 base input = true -> in_class_file input = true.
Proof.
  unfold k_file_narrow_v2, in_class_file. cbv zeta. rewrite cleaned_spec_clean.
  destruct (spec_scheme (spec_clean input)) as [[sch R]|] eqn:Es.
  - destruct (spec_scheme_some_leading _ _ _ Es) as [-> ->]. intros H.
    apply andb_true_iff in H. destruct H as [H H2]. apply andb_true_iff in H. destruct H as [H1 _].
    change s_file with str_file in H1. rewrite H1. cbn [andb]. exact (k_file_ok_class R H2).
  - rewrite (spec_scheme_none_leading _ Es). discriminate.
Qed.

Lemma narrow_no_file_base base sbase input : base_sch_rel base sbase ->
  k_file_narrow_v2 base input = true -> no_file_base sbase = true.
Proof.
  unfold k_file_narrow_v2, base_sch_rel, no_file_base. cbv zeta.
  destruct (leading_scheme (cleaned input)) as [s|]; [|discriminate].
  destruct base as [b|]; destruct sbase as [sb|]; try contradiction; [|reflexivity].
  intros Hb H. apply andb_true_iff in H. destruct H as [H _]. apply andb_true_iff in H. destruct H as [_ H].
  rewrite <- Hb. exact H.
Qed.

(* ================= (iii) the assembled statement for the narrowed predicate ================= *)
Definition in_proved_class4 (sbase : option spec_url) (input : list N) : bool :=
  in_proved_class3 sbase input || (no_file_base sbase && in_class_file input).

Lemma in_proved_class4_of3 sbase input : in_proved_class3 sbase input = true -> in_proved_class4 sbase input = true.
Proof. intros H. unfold in_proved_class4. rewrite H. reflexivity. Qed.

(* host_hyp3 (the one host string of the class of in_proved_class3, if any) and, for a "file:" input of the file
   class, host_agree_file on the text between "//" and the path *)
Definition host_hyp4 (hp hpo : list N -> result host) (hd : host -> list N)
           (shp : bool -> list N -> option spec_host) (shs : spec_host -> list N)
           (sbase : option spec_url) (input : list N) : Prop :=
  host_hyp3 hp hpo hd shp shs sbase input
  /\ (no_file_base sbase && in_class_file input = true -> host_agree_file hp hd shp shs (class_host_text_f input)).

Section Statements4.
Variable dbg : bool.
Variable hp hpo : list N -> result host.
Variable hd : host -> list N.
Variable shp : bool -> list N -> option spec_host.
Variable shs : spec_host -> list N.

(* coverage: outside the narrowed Known_C01 every input is in a proved class *)
Theorem all_covers4 input base sbase : full_rel dbg shs base sbase ->
  known_c01_v2 base input = 0 -> in_proved_class4 sbase input = true.
Proof.
  intros Hb Hk. destruct (known_split base input Hk) as [H1|Hn].
  - apply in_proved_class4_of3. exact (all_covers dbg shs input base sbase Hb H1).
  - unfold in_proved_class4. rewrite (narrow_in_class base input Hn).
    rewrite (narrow_no_file_base base sbase input (full_rel_sch _ _ _ _ Hb) Hn). apply orb_true_r.
Qed.

Theorem partial_equivalence_good4 input base sbase : usv_list input ->
  full_rel dbg shs base sbase -> in_proved_class4 sbase input = true ->
  host_hyp4 hp hpo hd shp shs sbase input ->
  agree_good dbg shs (parse_url dbg hp hpo hd None base input) (spec_basic_url_parse shp input sbase)
  /\ (forall su u, spec_basic_url_parse shp input sbase = BDone su -> parse_url dbg hp hpo hd None base input = POk u ->
        full_base dbg shs u su).
Proof.
  intros Hu Hb Hc [HH3 HHf]. unfold in_proved_class4 in Hc.
  destruct (in_proved_class3 sbase input) eqn:Hc3.
  - assert (base_rel3 dbg shs base sbase) as Hb3.
    { destruct base as [b|]; destruct sbase as [sb|]; cbn [full_rel] in Hb; try contradiction; [exact (proj1 Hb) | exact I]. }
    pose proof (partial_equivalence_good3 dbg hp hpo hd shp shs input base sbase Hu Hb3 Hc3 HH3) as A.
    split; [exact A|]. intros su u HS Hm. rewrite HS in A.
    exact (class3_result_full dbg shs shp input base sbase _ su u Hu Hb Hc3 HS A Hm).
  - cbn [orb] in Hc. pose proof Hc as Hc'. apply andb_true_iff in Hc'. destruct Hc' as [Hnf Hcf].
    exact (class_file_good dbg hp hpo hd shp shs base sbase input Hu Hcf (full_rel_sch _ _ _ _ Hb) Hnf (HHf Hc)).
Qed.

(* C01_statement for the narrowed Known_C01 *)
Theorem statement_all4 input base sbase : usv_list input ->
  full_rel dbg shs base sbase -> known_c01_v2 base input = 0 ->
  host_hyp4 hp hpo hd shp shs sbase input ->
  agree_good dbg shs (parse_url dbg hp hpo hd None base input) (spec_basic_url_parse shp input sbase)
  /\ (forall su u, spec_basic_url_parse shp input sbase = BDone su -> parse_url dbg hp hpo hd None base input = POk u ->
        full_base dbg shs u su).
Proof.
  intros Hu Hb Hk HH. exact (partial_equivalence_good4 input base sbase Hu Hb (all_covers4 input base sbase Hb Hk) HH).
Qed.

End Statements4.

(* the host model of Model/Host.v against the Standard's host parser over the same oracle *)
Theorem host_hyp4_model idna : (forall bs d, idna bs = Some d -> Forall dom_char_ok d) ->
  forall sbase input, usv_list input ->
  host_hyp4 (host_parse idna) host_parse_opaque host_display (spec_host_parser idna) spec_host_serializer sbase input.
Proof.
  intros Hout sbase input Hu. split; [exact (host_hyp3_model idna Hout sbase input Hu)|]. intros _.
  apply host_agree_file_real; [exact Hout | apply class_host_text_f_usv; exact Hu].
Qed.

Theorem statement_all4_model dbg idna : IdnaOK idna -> forall input base sbase,
  usv_list input -> full_rel dbg spec_host_serializer base sbase -> known_c01_v2 base input = 0 ->
  agree_good dbg spec_host_serializer
    (parse_url dbg (host_parse idna) host_parse_opaque host_display None base input)
    (spec_basic_url_parse (spec_host_parser idna) input sbase)
  /\ (forall su u, spec_basic_url_parse (spec_host_parser idna) input sbase = BDone su ->
        parse_url dbg (host_parse idna) host_parse_opaque host_display None base input = POk u ->
        full_base dbg spec_host_serializer u su).
Proof.
  intros HI input base sbase Hu Hb Hk. apply statement_all4; try assumption.
  apply host_hyp4_model; [exact (idna_out idna HI) | exact Hu].
Qed.

Theorem statement_instance4 dbg idna : IdnaOK idna -> forall input base sbase,
  usv_list input -> full_rel dbg spec_host_serializer base sbase -> known_c01_v2 base input = 0 ->
  statement_shape dbg spec_host_serializer
    (parse_url dbg (host_parse idna) host_parse_opaque host_display None base input)
    (spec_basic_url_parse (spec_host_parser idna) input sbase).
Proof.
  intros HI input base sbase Hu Hb Hk. apply agree_good_shape.
  exact (proj1 (statement_all4_model dbg idna HI input base sbase Hu Hb Hk)).
Qed.

(* the same with a UTF-8 encoding override *)
Theorem statement_all4_model_utf8 dbg idna : IdnaOK idna -> forall input base sbase,
  usv_list input -> full_rel dbg spec_host_serializer base sbase -> known_c01_v2 base input = 0 ->
  agree_good dbg spec_host_serializer
    (parse_url dbg (host_parse idna) host_parse_opaque host_display (Some utf8_encode) base input)
    (spec_basic_url_parse (spec_host_parser idna) input sbase).
Proof.
  intros HI input base sbase Hu Hb Hk. rewrite parse_url_utf8_override.
  exact (proj1 (statement_all4_model dbg idna HI input base sbase Hu Hb Hk)).
Qed.

(* ================= the narrowed class 1: what left it, what stays ================= *)
(* left class 1 (proved now, the sides agree):  file:///C:/a/../b ;  file://localhost/x ;  file://h.x/a/./b?q#f ;
   fIle:<TAB>\c|/x ;  file: ;  also against a non-file base.
   stay in class 1 (the sides differ):  file:////foo (F-C01-3) ;  file://h.x/C:/ (F-C01-1) ;  file:///C|/x (F-C01-11) ;
   file:/a/C:/../x (F-C01-5) ;  file:///C| (the witness of C01_known_classes_refuted) ;  and, not decided by proof,
   everything resolved against a file base *)
Definition fnar_1 : list N := [102;105;108;101;58;47;47;47;67;58;47;97;47;46;46;47;98].
Definition fnar_2 : list N := [102;105;108;101;58;47;47;108;111;99;97;108;104;111;115;116;47;120].
Definition fnar_3 : list N := [102;105;108;101;58;47;47;104;46;120;47;97;47;46;47;98;63;113;35;102].
Definition fnar_4 : list N := [102;73;108;101;58;9;92;99;124;47;120].
Definition fnar_5 : list N := [102;105;108;101;58].
Definition fstay_1 : list N := [102;105;108;101;58;47;47;47;47;102;111;111].
Definition fstay_2 : list N := [102;105;108;101;58;47;47;104;46;120;47;67;58;47].
Definition fstay_3 : list N := [102;105;108;101;58;47;47;47;67;124;47;120].
Definition fstay_4 : list N := [102;105;108;101;58;47;97;47;67;58;47;46;46;47;120].

Theorem known_file_narrowed :
  (known_c01_v1 None fnar_1 = 1 /\ known_c01_v2 None fnar_1 = 0)
  /\ (known_c01_v1 None fnar_2 = 1 /\ known_c01_v2 None fnar_2 = 0)
  /\ (known_c01_v1 None fnar_3 = 1 /\ known_c01_v2 None fnar_3 = 0)
  /\ (known_c01_v1 None fnar_4 = 1 /\ known_c01_v2 None fnar_4 = 0)
  /\ (known_c01_v1 None fnar_5 = 1 /\ known_c01_v2 None fnar_5 = 0)
  /\ known_c01_v2 None fstay_1 = 1 /\ known_c01_v2 None fstay_2 = 1 /\ known_c01_v2 None fstay_3 = 1 /\ known_c01_v2 None fstay_4 = 1
  /\ known_c01_v2 None wit_k1 = 1 /\ known_c01_v2 None wit_k2 = 2 /\ known_c01_v2 None wit_k3 = 3 /\ known_c01_v2 None wit_k4 = 4.
Proof. vm_compute. repeat split. Qed.

(* bases: a non-file base does not matter for "file:" R; a file base keeps the input in class 1 *)
Theorem known_file_narrowed_base :
  match parse_url true (host_parse id_idna) host_parse_opaque host_display None None nar_1,
        parse_url true (host_parse id_idna) host_parse_opaque host_display None None file_base_text with
  | POk bh, POk bf => known_c01_v2 (Some bh) fnar_1 = 0 /\ known_c01_v2 (Some bh) fnar_3 = 0
                      /\ known_c01_v2 (Some bf) fnar_1 = 1 /\ known_c01_v2 (Some bf) [120] = 1 /\ known_c01_v2 (Some bf) [47; 120] = 1
                      /\ known_c01_v2 (Some bf) [35; 102] = 0 /\ known_c01_v2 (Some bf) [] = 0
  | _, _ => False
  end.
Proof. vm_compute. repeat split. Qed.
