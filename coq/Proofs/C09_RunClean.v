(* Proofs/C09_RunClean.v - a RESULT-level sufficient condition for the per-run premise run_clean of the C09_inst2_*
   theorems (Proofs/C09_LongRun.v): "the host text of the URL that came out is outside Known_C10_long".

   A run of the parser model calls Host::parse at most once, and the Display text of the host it got is stored
   unchanged as the host text [host_start, host_end) of the result - except in ONE place: for file URLs the path parser
   drops the host when the path starts with a Windows drive letter ("file://host/C:/x" -> "file:///C:/x"), so a file
   result without host says nothing about the host of the run (run_clean_file_refuted).

   A. abstract parsers hp1 (answers like hp2, or refuses), hp2: every successful run with hp2 whose result has a host
      text t with "hp2 s = Ok h, Display h = t  ==>  hp1 s = Ok h" is the same run with hp1.
   B. hp1 = Host::parse with the capped oracle, hp2 = Host::parse with the oracle itself: run_clean from the result.
   C. the same for the three mutators that call Host::parse (Url::set_host, quirks set_host / set_hostname). *)
From RU Require Import Base.Prelude Base.Utf8 Model.AsciiSet Gen.Tables Model.PercentEncoding
  Model.HostT Model.Host Model.UrlRecord Model.Parser Model.Setters Model.WF
  Proofs.ListN Proofs.C06_List Proofs.C02_Parts Proofs.C03_WF Proofs.C06_WFI
  Proofs.C03_ReachParts Proofs.C05_Enc Proofs.C05_Parser Proofs.C05_Sharp Proofs.C05_Frag Proofs.C05_PathClean
  Proofs.C05_HostParse Proofs.C09_LongRun.

Section Track.
Variable dbg : bool.
Variable hp1 hp2 hpo : list N -> result host.
Variable hd : host -> list N.
Variable ovr : option (list N -> list N).
Variable G : list N -> Prop.
Hypothesis HG : forall s h, hp2 s = Ok h -> G (hd h) -> hp1 s = Ok h.
Hypothesis G_local : forall d, list_eqb d s_localhost = true -> G (hd (HDomain d)).

Lemma get_file_host_G l h rem : get_file_host hp2 l = POk (h, rem) -> G (hd h) -> get_file_host hp1 l = POk (h, rem).
Proof.
  unfold get_file_host. destruct (file_host l) as [t rm]. intros H Gh.
  destruct (hp2 t) as [h0|e] eqn:Eh; cbn [of_result pbind] in H; [|discriminate].
  assert (G (hd h0)) as Gh0.
  { destruct h0 as [d|a|q]; try (inversion H; subst; exact Gh).
    destruct (list_eqb d s_localhost) eqn:El; [apply G_local; exact El | inversion H; subst; exact Gh]. }
  rewrite (HG t h0 Eh Gh0). cbn [of_result pbind]. exact H.
Qed.

Lemma parse_host_G st l h rem : parse_host hp2 hpo st l = POk (h, rem) -> G (hd h) -> parse_host hp1 hpo st l = POk (h, rem).
Proof.
  unfold parse_host. destruct (st_is_file st); [apply get_file_host_G|].
  destruct (host_scan (st_is_special st) false [] l) as [t rm].
  destruct (scheme_type_eqb st STSpecialNotFile && match t with [] => true | _ :: _ => false end); [intros H; discriminate H|].
  destruct (negb (st_is_special st)); [intros H _; exact H|].
  intros H Gh. destruct (hp2 t) as [h0|e] eqn:Eh; cbn [of_result pbind] in H; [|discriminate].
  inversion H; subst. rewrite (HG t h Eh Gh). reflexivity.
Qed.

Lemma phap_G ctx st se ser l ser2 he hi pt rem :
  parse_host_and_port hp2 hpo hd ctx st se ser l = POk (ser2, he, hi, pt, rem) ->
  exists h, ser2 = ser ++ hd h ++ ptext pt /\ he = nlen ser + nlen (hd h) /\ hi = hi_of_host h
    /\ (G (hd h) -> parse_host_and_port hp1 hpo hd ctx st se ser l = POk (ser2, he, hi, pt, rem)).
Proof.
  unfold parse_host_and_port. intros H.
  destruct (parse_host hp2 hpo st l) as [[h remaining]| |] eqn:Ea; cbn [pbind] in H; try discriminate.
  exists h.
  assert (ser2 = ser ++ hd h ++ ptext pt /\ he = nlen ser + nlen (hd h) /\ hi = hi_of_host h) as (E1 & E2 & E3).
  { cbv zeta in H. pb H he0 Hhe. apply to_u32_eq in Hhe. subst he0. pb H x Hx.
    destruct (inp_split_prefix_char 58 remaining) as [rm|].
    - pb H b Hb. destruct b as [port rem2]. inversion H; subst. split; [|split; [apply nlen_app | reflexivity]].
      destruct pt as [p|]; cbn [ptext]; [|rewrite app_nil_r; reflexivity]. rewrite <- app_assoc. reflexivity.
    - inversion H; subst. cbn [ptext]. rewrite app_nil_r. split; [reflexivity|]. split; [apply nlen_app | reflexivity]. }
  split; [exact E1|]. split; [exact E2|]. split; [exact E3|].
  intros Gh. rewrite (parse_host_G st l h remaining Ea Gh). cbn [pbind]. exact H.
Qed.

Lemma wqf_hs_he ctx st se ue hs he hi pt ps s rem u :
  with_query_and_fragment ovr ctx st se ue hs he hi pt ps s rem = POk u -> host_start u = hs /\ host_end u = he.
Proof.
  unfold with_query_and_fragment. intros H. pb H a Ha. destruct a as [s1 ps1]. pb H b Hb. destruct b as [[s2 qs] fs].
  inversion H; subst. split; reflexivity.
Qed.

Lemma ht_empty u : host_end u = host_start u -> ht u = [].
Proof. intros E. unfold ht, piece. rewrite E, N.sub_diag. reflexivity. Qed.

(* ---------- after "//" ---------- *)
Theorem after_double_slash_G ctx st se ser0 l u : se < nlen ser0 ->
  after_double_slash dbg hp2 hpo hd ovr ctx st se ser0 l = POk u -> G (ht u) ->
  after_double_slash dbg hp1 hpo hd ovr ctx st se ser0 l = POk u.
Proof.
  intros L0. unfold after_double_slash. cbv zeta. intros H Gu.
  destruct (parse_userinfo st (ser0 ++ [47; 47]) l) as [[[ser1 ue] rm]| |] eqn:Ea; cbn [pbind] in H |- *; try discriminate.
  destruct (parse_userinfo_shape _ _ _ _ _ _ Ea) as (x & -> & _).
  destruct (to_u32 (nlen ((ser0 ++ [47; 47]) ++ x))) as [hs| |] eqn:Ehs; cbn [pbind] in H |- *; try discriminate.
  apply to_u32_eq in Ehs. subst hs.
  destruct (parse_host_and_port hp2 hpo hd ctx st se ((ser0 ++ [47; 47]) ++ x) rm) as [[[[[ser2 he] hi] pt] rm2]| |] eqn:Eb;
    cbn [pbind] in H; try discriminate.
  destruct (phap_G _ _ _ _ _ _ _ _ _ _ Eb) as (h & E1 & E2 & E3 & Hrew).
  assert (ht u = hd h) as Eht.
  { subst ser2 he hi.
    match type of H with (if ?c then _ else _) = _ => destruct c; [discriminate|] end.
    pb H ps Hps. apply to_u32_eq in Hps. subst ps.
    pb H c Hc. destruct c as [[s3 hh] rm3].
    destruct (parse_path_start_clean dbg ctx st true _ rm2 s3 hh rm3 Hc) as (P & -> & _).
    destruct (wqf_hs_he _ _ _ _ _ _ _ _ _ _ _ _ H) as [F1 F2].
    destruct (hd h) as [|c0 t0] eqn:Ehd.
    { apply ht_empty. rewrite F1, F2, nlen_nil. lia. }
    destruct (wqf_pre _ _ _ _ _ _ _ _ _ _ _ _ _ H) as (_ & _ & _ & _ & (t & E)).
    { pose proof (nlen_cons c0 t0) as Lc. rewrite !nlen_app. change (nlen [47; 47]) with 2. lia. }
    apply (piece_mid u ((ser0 ++ [47; 47]) ++ x) (c0 :: t0) (ptext pt ++ P ++ t)); [|exact F1 | exact F2].
    rewrite E, <- !app_assoc. reflexivity. }
  rewrite Eht in Gu. rewrite (Hrew Gu). cbn [pbind]. exact H.
Qed.

Lemma parse_non_special_G ctx st se ser0 l u : se < nlen ser0 ->
  parse_non_special dbg hp2 hpo hd ovr ctx st se ser0 l = POk u -> G (ht u) ->
  parse_non_special dbg hp1 hpo hd ovr ctx st se ser0 l = POk u.
Proof.
  intros L0. unfold parse_non_special. destruct (inp_split_prefix_str s_ss l) as [rm|]; [apply after_double_slash_G; exact L0|].
  intros H _. exact H.
Qed.

(* ---------- relative references: the host is parsed in the "//" arm only ---------- *)
Lemma parse_relative_G ctx st b l u : scheme_end b < nlen (ser b) ->
  parse_relative dbg hp2 hpo hd ovr ctx st b l = POk u -> G (ht u) ->
  parse_relative dbg hp1 hpo hd ovr ctx st b l = POk u.
Proof.
  intros Lb. unfold parse_relative. destruct (inp_split_first l) as [fc after]. destruct fc as [c|]; [|intros H _; exact H].
  destruct (c =? 63); [intros H _; exact H|]. destruct (c =? 35); [intros H _; exact H|].
  destruct ((c =? 47) || (c =? 92) && st_is_special st); [|intros H _; exact H].
  destruct (inp_count_matching (fun d => (d =? 47) || (d =? 92) && st_is_special st) l) as [slashes remaining].
  destruct (2 <=? slashes); [|intros H _; exact H]. cbv zeta.
  destruct (dassert dbg match nnth (ser b) (scheme_end b) with Some b0 => b0 =? 58 | None => false end) as [x| |];
    cbn [pbind]; try (intros H; discriminate H).
  assert (scheme_end b < nlen (nfirstn (scheme_end b + 1) (ser b))) as L1 by (rewrite nlen_nfirstn by lia; lia).
  destruct (negb (st_is_special st)); [destruct (inp_split_prefix_str s_ss l)|]; apply after_double_slash_G; exact L1.
Qed.

(* ---------- the file states ---------- *)
Lemma pfh_G ser l ser1 flag hi rem : parse_file_host hp2 hd ser l = POk (ser1, flag, hi, rem) ->
  parse_file_host hp1 hd ser l = POk (ser1, flag, hi, rem)
  \/ exists h, ser1 = ser ++ hd h /\ flag = true /\ hi = hi_of_host h
       /\ (G (hd h) -> parse_file_host hp1 hd ser l = POk (ser1, flag, hi, rem)).
Proof.
  unfold parse_file_host. destruct (file_host l) as [t rm]. destruct t as [|c t']; [intros H; left; exact H|].
  intros H. destruct (hp2 (c :: t')) as [h|e] eqn:Eh; cbn [of_result pbind] in H; [|discriminate].
  assert (G (hd h) -> hp1 (c :: t') = Ok h) as Hh by (intros Gh; exact (HG _ _ Eh Gh)).
  assert (POk (ser ++ hd h, true, hi_of_host h, rm) = POk (ser1, flag, hi, rem) ->
          (match h with
           | HDomain d => if list_eqb d s_localhost then POk (ser, false, HI_None, rm)
                          else POk (ser ++ hd h, true, hi_of_host h, rm)
           | _ => POk (ser ++ hd h, true, hi_of_host h, rm)
           end = POk (ser1, flag, hi, rem)) ->
          exists h0, ser1 = ser ++ hd h0 /\ flag = true /\ hi = hi_of_host h0
            /\ (G (hd h0) -> (host <~ of_result (hp1 (c :: t')) ;;
                  match host with
                  | HDomain d => if list_eqb d s_localhost then POk (ser, false, HI_None, rm)
                                 else POk (ser ++ hd host, true, hi_of_host host, rm)
                  | _ => POk (ser ++ hd host, true, hi_of_host host, rm)
                  end) = POk (ser1, flag, hi, rem))) as Hgen.
  { intros X Y. inversion X; subst. exists h. repeat split. intros Gh. rewrite (Hh Gh). cbn [of_result pbind]. exact Y. }
  destruct h as [d|a|q]; try (right; exact (Hgen H H)).
  pose proof H as H'. destruct (list_eqb d s_localhost) eqn:El; [|right; exact (Hgen H' H)].
  left. rewrite (Hh (G_local d El)). cbn [of_result pbind]. rewrite El. exact H'.
Qed.

Theorem parse_file_G ctx st base_file l u :
  parse_file dbg hp2 hd ovr ctx st base_file l = POk u -> G (ht u) -> (b_scheme u = s_file -> hosti u <> HI_None) ->
  parse_file dbg hp1 hd ovr ctx st base_file l = POk u.
Proof.
  unfold parse_file. destruct (inp_split_first l) as [first_char after_first].
  destruct (match first_char with Some c => is_slash_or_bslash c | None => false end); [|intros H _ _; exact H].
  destruct (inp_split_first after_first) as [next_char after_next].
  destruct (match next_char with Some c => is_slash_or_bslash c | None => false end); [|intros H _ _; exact H].
  intros H Gu Hn.
  destruct (parse_file_host hp2 hd s_file_css after_next) as [[[[ser1 flag] hi] remaining]| |] eqn:Ea;
    cbn [pbind] in H; try discriminate.
  destruct (pfh_G _ _ _ _ _ _ Ea) as [E1|(h & -> & -> & -> & Hrew)]; [rewrite E1; cbn [pbind]; exact H|].
  assert (G (hd h)) as Gh.
  { pb H he Hhe. apply to_u32_eq in Hhe. subst he. cbv beta iota zeta in H. pb H b Hb2. destruct b as [[ser2 hh] rem2].
    destruct (parse_path_start_clean dbg ctx STFile _ _ _ _ _ _ Hb2) as (P & -> & _).
    destruct (negb hh); cbv beta iota zeta in H; pb H c Hc; destruct c as [[ser4 qs] fs]; inversion H; subst u.
    - exfalso. apply Hn; [|reflexivity].
      destruct (parse_query_and_fragment_app _ _ _ _ _ _ _ _ _ Hc) as (t & -> & _).
      unfold b_scheme, file_url. cbn [ser scheme_end]. rewrite <- !app_assoc.
      change 7 with (nlen s_file_css) at 1. rewrite nfirstn_app_exact. reflexivity.
    - destruct (parse_query_and_fragment_app _ _ _ _ _ _ _ _ _ Hc) as (t & -> & _).
      match type of Gu with G (ht ?v) => assert (ht v = hd h) as E end.
      { apply (piece_mid _ s_file_css (hd h) (P ++ t)); [cbn [ser file_url]; rewrite <- !app_assoc; reflexivity | reflexivity|].
        cbn [host_end file_url]. exact (nlen_app s_file_css (hd h)). }
      rewrite E in Gu. exact Gu. }
  rewrite (Hrew Gh). cbn [pbind]. exact H.
Qed.

(* ---------- top level ---------- *)
Theorem parse_with_scheme_G base sch l u :
  match base with Some b => scheme_end b < nlen (ser b) | None => True end ->
  parse_with_scheme dbg hp2 hpo hd ovr base sch l = POk u -> G (ht u) -> (b_scheme u = s_file -> hosti u <> HI_None) ->
  parse_with_scheme dbg hp1 hpo hd ovr base sch l = POk u.
Proof.
  intros Hb. unfold parse_with_scheme.
  destruct (to_u32 (nlen sch)) as [se| |] eqn:Ese; cbn [pbind]; try (intros H; discriminate H).
  apply to_u32_eq in Ese. subst se. cbv zeta.
  assert (nlen sch < nlen (sch ++ [58])) as L0 by (rewrite nlen_app; change (nlen [58]) with 1; lia).
  destruct (scheme_type_of sch).
  - apply parse_file_G.
  - destruct (inp_count_matching is_slash_or_bslash l) as [slashes remaining].
    destruct base as [b|]; [|intros H Gu _; exact (after_double_slash_G _ _ _ _ _ u L0 H Gu)].
    destruct ((slashes <? 2) && list_eqb (b_scheme b) sch); [|intros H Gu _; exact (after_double_slash_G _ _ _ _ _ u L0 H Gu)].
    match goal with |- pbind ?e _ = _ -> _ => destruct e as [x| |]; cbn [pbind]; try (intros H; discriminate H) end.
    intros H Gu _. exact (parse_relative_G _ _ _ _ u Hb H Gu).
  - intros H Gu _. exact (parse_non_special_G _ _ _ _ _ u L0 H Gu).
Qed.

Theorem parse_url_G base input u :
  match base with Some b => scheme_end b < nlen (ser b) | None => True end ->
  parse_url dbg hp2 hpo hd ovr base input = POk u -> G (ht u) -> (b_scheme u = s_file -> hosti u <> HI_None) ->
  parse_url dbg hp1 hpo hd ovr base input = POk u.
Proof.
  intros Hb. unfold parse_url. cbv zeta.
  destruct (parse_scheme CUrlParser (input_new_trim_c0 input)) as [[scheme remaining]|]; [apply parse_with_scheme_G; exact Hb|].
  destruct base as [b|]; [|intros H _ _; exact H].
  destruct (inp_starts_with_char 35 (input_new_trim_c0 input)); [intros H _ _; exact H|].
  destruct (cannot_be_a_base b) as [[|]|]; try (intros H _ _; exact H).
  destruct (st_is_file (scheme_type_of (b_scheme b))); [apply parse_file_G|].
  intros H Gu _. exact (parse_relative_G _ _ _ _ u Hb H Gu).
Qed.
End Track.

(* ================= the mutators that call Host::parse ================= *)
Section TrackSet.
Variable dbg : bool.
Variable hp1 hp2 hpo : list N -> result host.
Variable hd : host -> list N.
Variable G : list N -> Prop.
Variable E : parse_error.
Hypothesis HP : forall s, hp1 s = hp2 s \/ hp1 s = Err E.
Hypothesis HG : forall s h, hp2 s = Ok h -> G (hd h) -> hp1 s = Ok h.
Hypothesis G_local : forall d, list_eqb d s_localhost = true -> G (hd (HDomain d)).
Hypothesis G_empty : G (hd (HDomain [])).

Ltac obn H x Hx :=
  match type of H with bindo ?e _ = Some _ => destruct e as [x|] eqn:Hx; cbn [bindo] in H; [|discriminate H] end.

(* set_host_internal stores the Display text of the new host as the host text *)
Lemma shi_ht u h onp u' : host_start u <= nlen (ser u) -> set_host_internal dbg hd u h onp = Some u' -> ht u' = hd h.
Proof.
  unfold set_host_internal. intros L H. cbv zeta in H. obn H suffix Hsuf. obn H ha Hha. obn H a Ha. destruct a as [[s1 ue] hs].
  assert (nlen (truncate (ser u) (host_start u)) = host_start u) as Lt by (unfold truncate; apply nlen_nfirstn; exact L).
  assert (nlen s1 = hs) as L1.
  { destruct (negb ha).
    - match type of Ha with bindo ?e _ = Some _ => destruct e; cbn [bindo] in Ha; [|discriminate Ha] end.
      inversion Ha; subst. rewrite nlen_app, Lt. reflexivity.
    - inversion Ha; subst. exact Lt. }
  destruct onp as [np|].
  - destruct np as [p|]; cbv beta iota zeta in H; obn H ps Hps; obn H qs Hq; obn H fs Hf; inversion H; subst u'.
    + apply (piece_mid _ s1 (hd h) (([58] ++ decimal p) ++ suffix)); [cbn [ser]; rewrite <- !app_assoc; reflexivity | cbn [host_start]; congruence|].
      cbn [host_end host_start]. rewrite nlen_app. reflexivity.
    + apply (piece_mid _ s1 (hd h) suffix); [cbn [ser]; rewrite <- !app_assoc; reflexivity | cbn [host_start]; congruence|].
      cbn [host_end host_start]. rewrite nlen_app. reflexivity.
  - cbv beta iota zeta in H. obn H ps Hps. obn H qs Hq. obn H fs Hf. inversion H; subst u'.
    apply (piece_mid _ s1 (hd h) suffix); [cbn [ser]; rewrite <- !app_assoc; reflexivity | cbn [host_start]; congruence|].
    cbn [host_end host_start]. rewrite nlen_app. reflexivity.
Qed.

Ltac obm H x Hx :=
  match type of H with option_map fst (bindo ?e _) = Some _ =>
    destruct e as [x|] eqn:Hx; cbn [bindo option_map] in H; [|discriminate H] end.

(* results with the status dropped: a refused host leaves the URL as it was, with either parser *)
Theorem set_host_G u x u' : host_start u <= nlen (ser u) ->
  option_map fst (set_host dbg hp2 hpo hd u x) = Some u' -> G (ht u') ->
  option_map fst (set_host dbg hp1 hpo hd u x) = Some u'.
Proof.
  intros L. unfold set_host. destruct (cannot_be_a_base u) as [[|]|]; cbn [bindo]; try (intros H _; exact H).
  destruct (u_scheme_type u) as [st|]; cbn [bindo]; [|intros H _; exact H].
  destruct x as [hs|]; [|intros H _; exact H].
  destruct ((match hs with [] => true | _ :: _ => false end) && st_is_special st && negb (st_is_file st)); [intros H _; exact H|].
  match goal with |- context [match ?s with Some hsub => _ | None => Some (u, SErr InvalidDomainCharacter) end] =>
    destruct s as [hsub|] end; [|intros H _; exact H].
  destruct (st_is_special st); [|intros H _; exact H].
  destruct (hp2 hsub) as [h|e] eqn:Eh.
  - intros H Gu. assert (G (hd h)) as Gh.
    { obm H u0 Hu0. inversion H; subst u0. rewrite <- (shi_ht u h None u' L Hu0). exact Gu. }
    rewrite (HG hsub h Eh Gh). exact H.
  - intros H _. destruct (HP hsub) as [->| ->]; [rewrite Eh|]; exact H.
Qed.

Theorem q_set_host_G u v u' : host_start u <= nlen (ser u) ->
  option_map fst (q_set_host dbg hp2 hpo hd u v) = Some u' -> G (ht u') ->
  option_map fst (q_set_host dbg hp1 hpo hd u v) = Some u'.
Proof.
  intros L. unfold q_set_host. destruct (cannot_be_a_base u) as [[|]|]; cbn [bindo]; try (intros H _; exact H).
  destruct (scheme u) as [sc|]; cbn [bindo]; [|intros H _; exact H].
  destruct (scheme_type_eqb (scheme_type_of sc) STFile && match v with [] => true | _ :: _ => false end); [intros H _; exact H|].
  destruct (parse_host hp2 hpo (scheme_type_of sc) (input_new_no_trim v)) as [[h rem]|e|] eqn:Eh.
  - cbn [pres_ok bindo]. intros H Gu. assert (G (hd h)) as Gh.
    { cbv zeta in H. obm H op Hop. obm H un Hun.
      match type of H with option_map fst (if ?c then _ else _) = _ => destruct c eqn:Ec end.
      - apply andb_true_iff in Ec. destruct Ec as [Ec _]. destruct h as [[|c d]|a|q]; try discriminate Ec. exact G_empty.
      - obm H u0 Hu0. inversion H; subst u0. rewrite <- (shi_ht u h op u' L Hu0). exact Gu. }
    rewrite (parse_host_G hp1 hp2 hpo hd G HG G_local _ _ h rem Eh Gh). cbn [pres_ok bindo]. exact H.
  - cbn [pres_ok bindo]. intros H _.
    destruct (C09_LongRun.parse_host_or hp1 hp2 hpo E HP (scheme_type_of sc) (input_new_no_trim v)) as [X|X]; rewrite X;
      [rewrite Eh|]; cbn [pres_ok bindo]; exact H.
  - cbn [pres_ok bindo option_map]. intros H. discriminate H.
Qed.

Theorem q_set_hostname_G u v u' : host_start u <= nlen (ser u) ->
  option_map fst (q_set_hostname dbg hp2 hpo hd u v) = Some u' -> G (ht u') ->
  option_map fst (q_set_hostname dbg hp1 hpo hd u v) = Some u'.
Proof.
  intros L. unfold q_set_hostname. destruct (cannot_be_a_base u) as [[|]|]; cbn [bindo]; try (intros H _; exact H).
  destruct (scheme u) as [sc|]; cbn [bindo]; [|intros H _; exact H].
  destruct (scheme_type_eqb (scheme_type_of sc) STFile && match v with [] => true | _ :: _ => false end); [intros H _; exact H|].
  destruct (parse_host hp2 hpo (scheme_type_of sc) (input_new_no_trim v)) as [[h rem]|e|] eqn:Eh.
  - cbn [pres_ok bindo]. intros H Gu. assert (G (hd h)) as Gh.
    { obm H rj Hrj. destruct rj.
      - destruct h as [[|c d]|a|q]; try (inversion Hrj; fail). exact G_empty.
      - obm H u0 Hu0. inversion H; subst u0. rewrite <- (shi_ht u h None u' L Hu0). exact Gu. }
    rewrite (parse_host_G hp1 hp2 hpo hd G HG G_local _ _ h rem Eh Gh). cbn [pres_ok bindo]. exact H.
  - cbn [pres_ok bindo]. intros H _.
    destruct (C09_LongRun.parse_host_or hp1 hp2 hpo E HP (scheme_type_of sc) (input_new_no_trim v)) as [X|X]; rewrite X;
      [rewrite Eh|]; cbn [pres_ok bindo]; exact H.
  - cbn [pres_ok bindo option_map]. intros H. discriminate H.
Qed.
End TrackSet.

(* ================= B. the capped oracle: run_clean and step_clean from the RESULT ================= *)
From RU Require Import Proofs.C09_Wf Proofs.C09_Host Proofs.C09_Inst Proofs.C09_Long Proofs.C09_LongHist Proofs.C09_LongWit
  Proofs.C05_History Proofs.Inst_Host.

(* the result-level premise: the stored host text is outside Known_C10_long, and a file URL has kept its host *)
Definition res_clean (u : url) : bool :=
  negb (known_c10_long (ht u)) && (negb (list_eqb (b_scheme u) s_file) || has_host u).

Lemma long_localhost d : list_eqb d s_localhost = true -> known_c10_long (host_display (HDomain d)) = false.
Proof. intros H. apply list_eqb_spec in H. subst d. vm_compute. reflexivity. Qed.

Lemma long_empty : known_c10_long (host_display (HDomain [])) = false.
Proof. vm_compute. reflexivity. Qed.

Lemma drop_status_fst r : drop_status r = option_map fst r.
Proof. destruct r as [[u s]|]; reflexivity. Qed.

Section CapRun.
Variable dbg : bool.
Variable idna : list N -> option (list N).
Hypothesis OK : IdnaOK2 idna.

Notation hp := (host_parse idna).
Notation hpc := (host_parse (cap idna)).
Notation hpo := host_parse_opaque.
Notation hd := host_display.

Let HGc : forall s h, hp s = Ok h -> known_c10_long (hd h) = false -> hpc s = Ok h :=
  fun s h Hs K => cap_result idna s h OK Hs K.

(* every successful run whose result passes res_clean is a clean run *)
Theorem run_clean_of_result ovr base input u :
  match base with Some b => wf_b b = true | None => True end ->
  parse_url dbg hp hpo hd ovr base input = POk u -> res_clean u = true -> run_clean dbg idna ovr base input.
Proof.
  intros Hb H C. unfold res_clean in C. apply andb_true_iff in C. destruct C as [C1 C2]. apply negb_true_iff in C1.
  unfold run_clean. rewrite H.
  apply (parse_url_G dbg hpc hp hpo hd ovr (fun t => known_c10_long t = false) HGc long_localhost base input u).
  - destruct base as [b|]; [|exact I]. exact (proj2 (proj2 (wf_scheme_facts b Hb))).
  - exact H.
  - exact C1.
  - intros Es X. rewrite Es in C2. unfold has_host in C2. rewrite X in C2. discriminate C2.
Qed.

(* non-file results: the host text alone *)
Corollary run_clean_of_result_nonfile ovr base input u :
  match base with Some b => wf_b b = true | None => True end ->
  parse_url dbg hp hpo hd ovr base input = POk u -> b_scheme u <> s_file -> known_c10_long (ht u) = false ->
  run_clean dbg idna ovr base input.
Proof.
  intros Hb H Hn K. apply (run_clean_of_result ovr base input u Hb H). unfold res_clean. rewrite K. cbn [negb andb].
  destruct (list_eqb (b_scheme u) s_file) eqn:El; [apply list_eqb_spec in El; contradiction | reflexivity].
Qed.

(* the three mutators: a step whose result has its host text outside the class is a clean step *)
Theorem step_clean_of_result u o u' : wf_b u = true ->
  C05_History.apply_op dbg hp hpo hd u o = Some u' -> known_c10_long (ht u') = false -> step_clean dbg idna u o.
Proof.
  intros W H K. unfold step_clean. rewrite H.
  assert (host_start u <= nlen (ser u)) as L.
  { destruct (has_authority_b u) eqn:Ha.
    - pose proof (wf_auth_facts u W Ha) as F. pose proof (af_he F). pose proof (af_ps F). pose proof (af_len F). lia.
    - pose proof (wf_noauth_facts u W Ha) as F. pose proof (nf_hs F). pose proof (proj2 (proj2 (wf_scheme_facts u W))). lia. }
  destruct o; try exact H; cbn [C05_History.apply_op] in H |- *; rewrite drop_status_fst in H |- *.
  - exact (set_host_G dbg hpc hp hpo hd (fun t => known_c10_long t = false) IdnaError (cap_dichotomy idna) HGc u h u' L H K).
  - exact (q_set_host_G dbg hpc hp hpo hd (fun t => known_c10_long t = false) IdnaError (cap_dichotomy idna) HGc long_localhost
             long_empty u v u' L H K).
  - exact (q_set_hostname_G dbg hpc hp hpo hd (fun t => known_c10_long t = false) IdnaError (cap_dichotomy idna) HGc long_localhost
             long_empty u v u' L H K).
Qed.
End CapRun.

(* ================= the file exclusion of res_clean is necessary; non-vacuity ================= *)
From Coq Require Import String.
Local Notation Bq := C02_Reach.B.

(* stand-in oracle idna_long (IdnaOK2 holds, "x" is answered inside the class): Url::parse("file://x/C:/") succeeds with
   the serialization file:///C:/ - the path parser drops the host in front of a drive letter - so the result has no host
   text at all, while the run did call Host::parse on a host inside the class: the capped run stops with IdnaError *)
Definition wq_input : list N := Bq "file://x/C:/".

Theorem run_clean_file_refuted :
  match parse_url true (host_parse idna_long) host_parse_opaque host_display None None wq_input with
  | POk u => list_eqb (ser u) (Bq "file:///C:/") && hi_eqb (hosti u) HI_None && negb (known_c10_long (ht u))
             && negb (res_clean u)
  | _ => false
  end = true
  /\ parse_url true (host_parse (cap idna_long)) host_parse_opaque host_display None None wq_input = PErr IdnaError
  /\ ~ run_clean true idna_long None None wq_input.
Proof.
  assert (parse_url true (host_parse (cap idna_long)) host_parse_opaque host_display None None wq_input = PErr IdnaError) as E2
    by (vm_compute; reflexivity).
  split; [vm_compute; reflexivity|]. split; [exact E2|].
  unfold run_clean. rewrite E2. vm_compute. intros H. discriminate H.
Qed.

Theorem run_clean_needs_file_clause :
  ~ (forall dbg idna, IdnaOK2 idna -> forall input u,
       parse_url dbg (host_parse idna) host_parse_opaque host_display None None input = POk u ->
       known_c10_long (ht u) = false -> run_clean dbg idna None None input).
Proof.
  intros H. destruct run_clean_file_refuted as (_ & _ & N). apply N.
  destruct (parse_url true (host_parse idna_long) host_parse_opaque host_display None None wq_input) as [u| |] eqn:E;
    try (vm_compute in E; discriminate E).
  apply (H true idna_long idna_long_ok2 wq_input u E).
  assert (match parse_url true (host_parse idna_long) host_parse_opaque host_display None None wq_input with
          | POk v => known_c10_long (ht v) | _ => true end = false) as K by (vm_compute; reflexivity).
  rewrite E in K. exact K.
Qed.

(* non-vacuity: results that pass res_clean (a special URL, a file URL with a host, a step of quirks set_host) *)
Example res_clean_examples :
  match parse_url true (host_parse idna_long) host_parse_opaque host_display None None (Bq "http://a.b:81/p") with
  | POk u => res_clean u && list_eqb (ht u) (Bq "a.b")
             && match C05_History.apply_op true (host_parse idna_long) host_parse_opaque host_display u (C05_History.OQHost (Bq "c.d:82")) with
                | Some u' => list_eqb (ser u') (Bq "http://c.d:82/p") && negb (known_c10_long (ht u'))
                | None => false
                end
  | _ => false
  end = true
  /\ match parse_url true (host_parse idna_long) host_parse_opaque host_display None None (Bq "file://a.b/p") with
     | POk u => res_clean u | _ => false end = true
  /\ match parse_url true (host_parse idna_long) host_parse_opaque host_display None None (Bq "http://x/") with
     | POk u => res_clean u | _ => true end = false.
Proof. vm_compute. repeat split; reflexivity. Qed.
