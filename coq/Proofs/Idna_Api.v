(* Proofs/Idna_Api.v - consequences of the simulation at the level of process / to_ascii /
   to_user_interface, and the adapter-free facts about the wrappers. *)
From RU Require Import Base.Prelude Base.Utf8 Base.Utf8Facts Base.U32_c13 Gen.Tables Model.Punycode Model.Uts46 Proofs.Idna_Sim.

Section Api.
Variable A : adapter.
Variable cfg : bool.

Lemma len_nil_iff (l : list N) : (0 =? len l) = true <-> l = [].
Proof. unfold len. destruct l; cbn [List.length]; split; intros H; try reflexivity; try discriminate; lia. Qed.

Lemma process_inner_nil ff hy deny : process_inner A cfg ff hy deny [] = IRes 0 false false [] [].
Proof. reflexivity. Qed.

(* what an error verdict of the marking run means for process_inner *)
Lemma ui_err_inner d deny hy p b t :
  to_user_interface A cfg d deny hy p = UI b t true ->
  exists ptu bd db ap, process_inner A cfg false hy deny d = IRes ptu bd true db ap.
Proof.
  unfold to_user_interface, process.
  destruct (process_inner A cfg false hy deny d) as [ptu bd he db ap|s]; [|discriminate].
  destruct (ptu =? len d).
  { destruct (cfg && he); discriminate. }
  cbn [andb].
  destruct (cfg && negb (Bool.eqb he (existsb is_fffd db))); [discriminate|].
  match goal with |- context [walk1 ?a ?b ?c ?d ?e ?f ?g ?h ?i ?j ?k ?l ?m] => destruct (walk1 a b c d e f g h i j k l m) as [ws we] end.
  cbn [fst snd run_sink].
  destruct we as [|huo|s]; try discriminate.
  destruct he; [intros _; eauto|].
  rewrite andb_false_r. discriminate.
Qed.

(* what an error verdict of the fail-fast run means *)
Lemma ta_err_inner d deny hy :
  to_ascii A cfg d deny hy DIgnore = Err ->
  exists ptu bd db ap, process_inner A cfg true hy deny d = IRes ptu bd true db ap.
Proof.
  unfold to_ascii, process.
  destruct (process_inner A cfg true hy deny d) as [ptu bd he db ap|s]; [|discriminate].
  destruct (ptu =? len d).
  { destruct (cfg && he); cbn [dns_is_ignore negb]; discriminate. }
  cbn [andb]. destruct he; [intros _; eauto|].
  destruct (cfg && negb (Bool.eqb false (existsb is_fffd db))); [discriminate|].
  match goal with |- context [walk1 ?a ?b ?c ?d ?e ?f ?g ?h ?i ?j ?k ?l ?m] => destruct (walk1 a b c d e f g h i j k l m) as [ws we] end.
  cbn [fst snd run_sink negb].
  destruct we as [|huo|s]; cbn [dns_is_ignore negb]; try discriminate.
  rewrite andb_false_r. cbn [dns_is_ignore negb]. discriminate.
Qed.

Lemma ta_of_exit d deny hy dns :
  process_inner A cfg true hy deny d = I_EXIT -> d <> [] -> to_ascii A cfg d deny hy dns = Err.
Proof.
  intros H Hd. unfold to_ascii, process. rewrite H. unfold I_EXIT.
  destruct (0 =? len d) eqn:E; [apply len_nil_iff in E; contradiction|]. reflexivity.
Qed.

(* C11, first half: an error reported by the marking run is reported by the fail-fast run *)
Theorem mark_err_ff_err d deny hy p b t : Redisc A cfg deny ->
  to_user_interface A cfg d deny hy p = UI b t true ->
  to_ascii A cfg d deny hy DIgnore = Err.
Proof.
  intros HRd H. destruct (ui_err_inner _ _ _ _ _ _ H) as (ptu & bd & db & ap & Hf).
  pose proof (process_inner_sim A cfg hy deny d HRd) as HS. rewrite Hf in HS. cbn [inner_sim] in HS.
  apply ta_of_exit; [exact HS|].
  intros ->. rewrite process_inner_nil in Hf. discriminate.
Qed.

(* with debug assertions and had_errors set, walk1 never ends in Passthrough *)
Definition NP (r : wres) : Prop := snd r <> WPass.
Lemma NP_wcons w k : NP k -> NP (wcons w k).
Proof. unfold NP, wcons. cbn [snd]. auto. Qed.
Lemma NP_wapp w k : NP k -> NP (wapp w k).
Proof. unfold NP, wapp. cbn [snd]. auto. Qed.
Lemma NP_flush d pt fl k : NP k -> NP (flush_prefix d pt fl k).
Proof. unfold flush_prefix. destruct fl; [auto|apply NP_wcons]. Qed.
Lemma NP_wpl c label k : NP k -> NP (write_punycode_label c label k).
Proof.
  unfold write_punycode_label. intros H. destruct (encode_internal c label).
  - apply NP_wcons, NP_wapp, H.
  - unfold NP; cbn [snd]; discriminate.
  - unfold NP; cbn [snd]; discriminate.
Qed.
Lemma NP_mixed d mc pc sn sp pt fl k :
  (forall pt' fl', NP (k pt' fl')) -> NP (mixed_write true d mc true pc sn sp pt fl k).
Proof.
  intros Hk. unfold mixed_write. destruct (position is_upper mc) as [fu|].
  - destruct fl.
    + apply NP_wcons, NP_wapp, Hk.
    + cbn [andb]. destruct (pt + len (firstn fu mc) =? len d).
      * unfold NP; cbn [snd]; discriminate.
      * apply NP_wcons, NP_wapp, Hk.
  - destruct fl.
    + apply NP_wcons, Hk.
    + destruct (pc && (pt + len mc =? len d)).
      * cbn [andb]. unfold NP; cbn [snd]; discriminate.
      * apply Hk.
Qed.
Lemma walk1_no_pass_dbg ff p d tld bd labels : forall aps seen pte flushed huo,
  NP (walk1 true ff p d tld bd true labels aps seen pte flushed huo).
Proof.
  induction labels as [|label labels IH]; intros aps seen pte flushed huo; cbn [walk1].
  - unfold NP; cbn [snd]; discriminate.
  - destruct aps as [|ip aps]; [unfold NP; cbn [snd]; discriminate|].
    repeat first
      [ apply NP_wcons | apply NP_wapp | apply NP_flush | apply NP_wpl | (apply NP_mixed; intros) | apply IH
      | (unfold NP; cbn [snd]; discriminate)
      | match goal with |- NP (if ?b then _ else _) => destruct b end
      | match goal with |- NP (match ?x with _ => _ end) => destruct x end ].
Qed.

(* C11, second half: an error reported by the fail-fast run is reported by the marking run, or the
   marking run returns Passthrough (the input borrowed, no error) although had_errors is set -
   which a build with debug assertions turns into a panic (F-C11-2) *)
Theorem ff_err_mark_err d deny hy p b t e : Redisc A cfg deny ->
  to_ascii A cfg d deny hy DIgnore = Err ->
  to_user_interface A cfg d deny hy p = UI b t e ->
  e = true \/ (cfg = false /\ b = true /\ t = d).
Proof.
  intros HRd Ha Hu. destruct (ta_err_inner _ _ _ Ha) as (ptu & bd & db & ap & Ht).
  pose proof (process_inner_sim A cfg hy deny d HRd) as HS. rewrite Ht in HS.
  revert Hu. unfold to_user_interface, process.
  destruct (process_inner A cfg false hy deny d) as [ptu' bd' he db' ap'|s]; cbn [inner_sim] in HS.
  2:{ destruct HS as [HS|HS]; discriminate. }
  destruct he.
  2:{ inversion HS. }
  destruct (ptu' =? len d).
  { destruct cfg; cbn [andb]; [discriminate|]. intros Hu. inversion Hu. right. auto. }
  cbn [andb].
  destruct (cfg && negb (Bool.eqb true (existsb is_fffd db'))); [discriminate|].
  match goal with |- context [walk1 ?a ?b ?c ?d ?e ?f ?g ?h ?i ?j ?k ?l ?m] =>
    pose proof (fun Hc : a = true => eq_ind_r (fun a' => NP (walk1 a' b c d e f g h i j k l m)) (walk1_no_pass_dbg b c d e f h i j k l m) Hc) as HNP;
    destruct (walk1 a b c d e f g h i j k l m) as [ws we] eqn:Ew end.
  cbn [fst snd run_sink negb].
  destruct we as [|huo|s]; try discriminate.
  - intros Hu. inversion Hu. right. destruct cfg; [|auto].
    exfalso. specialize (HNP eq_refl). rewrite Ew in HNP. apply HNP. reflexivity.
  - intros Hu. inversion Hu. left; reflexivity.
Qed.

(* ---- C10: borrow, DNS length, entry points ---- *)
Theorem to_ascii_borrow d deny hy dns r : to_ascii A cfg d deny hy dns = Ok (true, r) -> r = d.
Proof.
  unfold to_ascii. destruct (process A cfg true never_unicode d deny hy None None false) as [[st s] a].
  destruct st; try discriminate.
  - destruct (negb (dns_is_ignore dns)).
    + destruct (cfg && negb (is_ascii_l d)); [discriminate|].
      destruct (negb (verify_dns_length d (dns_is_root dns))); [discriminate|]. intros H; inversion H; reflexivity.
    + intros H; inversion H; reflexivity.
  - destruct (negb (dns_is_ignore dns)).
    + destruct (cfg && negb (is_ascii_l s)); [discriminate|].
      destruct (negb (verify_dns_length s (dns_is_root dns))); discriminate.
    + discriminate.
Qed.

Theorem to_ascii_dns d deny hy dns b r :
  to_ascii A cfg d deny hy dns = Ok (b, r) -> dns_is_ignore dns = false ->
  verify_dns_length r (dns_is_root dns) = true.
Proof.
  unfold to_ascii. intros H Hn. rewrite Hn in H. cbn [negb] in H.
  destruct (process A cfg true never_unicode d deny hy None None false) as [[st s] a].
  destruct st; try discriminate.
  - destruct (cfg && negb (is_ascii_l d)); [discriminate|].
    destruct (verify_dns_length d (dns_is_root dns)) eqn:E; cbn [negb] in H; [|discriminate]. inversion H; subst. exact E.
  - destruct (cfg && negb (is_ascii_l s)); [discriminate|].
    destruct (verify_dns_length s (dns_is_root dns)) eqn:E; cbn [negb] in H; [|discriminate]. inversion H; subst. exact E.
Qed.

(* the same verdict and text whatever DNS mode, when the length check passes *)
Theorem to_ascii_dns_ignore d deny hy dns b r :
  to_ascii A cfg d deny hy dns = Ok (b, r) -> to_ascii A cfg d deny hy DIgnore = Ok (b, r).
Proof.
  unfold to_ascii. destruct (process A cfg true never_unicode d deny hy None None false) as [[st s] a].
  destruct st; try discriminate; cbn [dns_is_ignore negb].
  - destruct (negb (dns_is_ignore dns)); [|auto].
    destruct (cfg && negb (is_ascii_l d)); [discriminate|].
    destruct (negb (verify_dns_length d (dns_is_root dns))); [discriminate|auto].
  - destruct (negb (dns_is_ignore dns)); [|auto].
    destruct (cfg && negb (is_ascii_l s)); [discriminate|].
    destruct (negb (verify_dns_length s (dns_is_root dns))); [discriminate|auto].
Qed.
End Api.

(* what verify_dns_length = true says *)
Definition ends_with_dot (r : list N) : bool := match last_opt r with Some l => l =? DOT | None => false end.
Definition dns_ok (allow_root : bool) (r : list N) : Prop :=
  let w := if ends_with_dot r then removelast r else r in
  (ends_with_dot r = true -> allow_root = true) /\
  len w <= T_IDNA_DNS_TOTAL /\
  Forall (fun l => 1 <= len l /\ len l <= T_IDNA_DNS_LABEL) (split_on DOT w).

Lemma verify_dns_length_ok r allow : verify_dns_length r allow = true -> dns_ok allow r.
Proof.
  unfold verify_dns_length, dns_ok, ends_with_dot.
  destruct (last_opt r) as [l|].
  - destruct (l =? DOT).
    + destruct allow; cbn [negb]; [|discriminate].
      destruct (T_IDNA_DNS_TOTAL <? len (removelast r)) eqn:E; [discriminate|].
      intros H. split; [auto|]. split; [lia|].
      apply Forall_forall. intros x Hx. rewrite forallb_forall in H. specialize (H x Hx).
      destruct x; [discriminate|]. cbn [negb andb] in H. unfold len in *. cbn [List.length] in *. lia.
    + destruct (T_IDNA_DNS_TOTAL <? len r) eqn:E; [discriminate|].
      intros H. split; [discriminate|]. split; [lia|].
      apply Forall_forall. intros x Hx. rewrite forallb_forall in H. specialize (H x Hx).
      destruct x; [discriminate|]. cbn [negb andb] in H. unfold len in *. cbn [List.length] in *. lia.
  - destruct (T_IDNA_DNS_TOTAL <? len r) eqn:E; [discriminate|].
    intros H. split; [discriminate|]. split; [lia|].
    apply Forall_forall. intros x Hx. rewrite forallb_forall in H. specialize (H x Hx).
    destruct x; [discriminate|]. cbn [negb andb] in H. unfold len in *. cbn [List.length] in *. lia.
Qed.

(* ---- the fastest tier ---- *)
Definition lower_or_dot (b : N) : Prop := (97 <= b /\ b <= 122) \/ b = DOT.
Lemma in_range8_lower b : b < 256 -> in_inclusive_range8 b 97 122 = true -> 97 <= b /\ b <= 122.
Proof. unfold in_inclusive_range8. intros Hb H. assert (b < 97 \/ 97 <= b) as [Hc|Hc] by lia; lia. Qed.
Lemma fast_tier_none iter : bytes iter -> forall mrls, fast_tier iter mrls = None -> Forall lower_or_dot iter.
Proof.
  induction iter as [|b r IH]; intros Hby mrls H; [constructor|].
  inversion Hby as [|? ? Hb Hr]; subst. specialize (IH Hr).
  cbn [fast_tier] in H. destruct (in_inclusive_range8 b 97 122) eqn:E.
  - constructor; [left; apply in_range8_lower; [exact Hb|exact E] | eapply IH; exact H].
  - destruct (b =? DOT) eqn:E2; [|discriminate].
    constructor; [right; unfold DOT in *; lia | eapply IH; exact H].
Qed.

Section Fast.
Variable A : adapter.
Variable cfg : bool.
Lemma process_fast ff p d deny hy k1 k2 w : fast_tier d d = None ->
  process A cfg ff p d deny hy k1 k2 w = (PPassthrough, [], []).
Proof.
  intros H. unfold process, process_inner. rewrite H. rewrite N.eqb_refl. rewrite andb_false_r. reflexivity.
Qed.
Lemma to_ascii_fast d deny hy : fast_tier d d = None -> to_ascii A cfg d deny hy DIgnore = Ok (true, d).
Proof. intros H. unfold to_ascii. rewrite process_fast by exact H. reflexivity. Qed.
Lemma to_ui_fast d deny hy p : fast_tier d d = None -> to_user_interface A cfg d deny hy p = UI true d false.
Proof. intros H. unfold to_user_interface. rewrite process_fast by exact H. reflexivity. Qed.
End Fast.
