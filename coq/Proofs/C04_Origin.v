(* Proofs/C04_Origin.v - Url::origin() / origin::url_origin / quirks::origin: the panic outcome of the model, EXACTLY.
   url_origin panics (url.host().unwrap()) iff the receiver itself has one of the five tuple schemes and no host -
   a record the parser never produces (a special URL always gets a host: special_has_host below) and wf_b allows.
   The URLs met in the blob recursion are parse results, hence never in that class; the parser without base never
   panics (C04_Chain).  Hypothesis: HostWf (so that parse results satisfy wf_b: C03_Reach).
   The model's recursion is bounded by fuel (C16_fuel); the Rust recursion is on the machine stack: finding F-C04-11
   (stack overflow at ~36000 levels) is outside what a panic outcome can express - see the cost statement. *)
From RU Require Import Base.Prelude Base.Utf8 Model.AsciiSet Gen.Tables Model.PercentEncoding
  Model.HostT Model.UrlRecord Model.Parser Model.Setters Model.WF Model.Origin
  Proofs.ListN Proofs.C03_WF Proofs.C06_List Proofs.C06_Main Proofs.C04_ParseTotal Proofs.C03_ReachParts Proofs.C03_Reach
  Proofs.C03_ReachFile Proofs.C16_Conc Proofs.C16_Origin Proofs.C16_Colons Proofs.C16_RT Proofs.C16_RTParsed
  Proofs.C04_Chain.
From RU Require Properties.C03.

Lemma new_opaque_no_panic c : new_opaque c <> OPanic.
Proof.
  unfold new_opaque. rewrite counter_table_ok. cbn [solo_schedule run step]. discriminate.
Qed.

Section Origin.
Variable dbg : bool.
Variable hp ho : list N -> result host.
Variable hd : host -> list N.

(* a special scheme never gets the empty host *)
Lemma phap_special_host ctx st se ser l ser2 he hi port rem :
  parse_host_and_port hp ho hd ctx st se ser l = POk (ser2, he, hi, port, rem) ->
  st_is_special st = true -> hi <> HI_None.
Proof.
  unfold parse_host_and_port. intros H Hs. pbi H a Ha. destruct a as [hst remaining]. cbv zeta in H.
  pbi H he0 Hhe. pbi H u0 Hu0.
  assert (hi = hi_of_host hst) as ->.
  { destruct (inp_split_prefix_char 58 remaining) as [rem1|].
    - pbi H b Hb. destruct b as [port0 rem2]. inversion H; reflexivity.
    - inversion H; reflexivity. }
  destruct hst as [[|c d]|a|a]; cbn [hi_of_host]; try discriminate.
  rewrite Hs in Hu0. destruct (inp_starts_with_char 58 remaining); discriminate.
Qed.

Lemma after_double_slash_special ovr ctx st se ser l u :
  after_double_slash dbg hp ho hd ovr ctx st se ser l = POk u -> st_is_special st = true -> hosti u <> HI_None.
Proof.
  unfold after_double_slash. cbv zeta. intros H Hs.
  pbi H a Ha. destruct a as [[ser1 ue] remaining]. pbi H hs Hhs. pbi H b Hb. destruct b as [[[[ser2 he] hi] port] remaining2].
  apply phap_special_host in Hb; [|exact Hs].
  match type of H with (if ?c then _ else _) = _ => destruct c; [discriminate|] end.
  pbi H ps Hps. pbi H c Hc. destruct c as [[ser3 hh3] remaining3].
  apply wqf_fields in H. destruct H as (F1 & _). rewrite F1. exact Hb.
Qed.

Lemma parse_with_scheme_special ovr sch l u :
  parse_with_scheme dbg hp ho hd ovr None sch l = POk u -> scheme_type_of sch = STSpecialNotFile -> hosti u <> HI_None.
Proof.
  unfold parse_with_scheme. intros H Est. pbi H se Hse. cbv zeta in H. rewrite Est in H.
  destruct (inp_count_matching is_slash_or_bslash l) as [sl rem].
  exact (after_double_slash_special _ _ _ _ _ _ _ H eq_refl).
Qed.

(* the class: one of the five schemes and no host *)
Definition tuple_no_host_b (u : url) : bool :=
  match scheme u with
  | Some s => str_mem s five_schemes && negb (has_host u)
  | None => false
  end.
Definition tuple_no_host (u : url) : Prop :=
  exists s, scheme u = Some s /\ In s five_schemes /\ hosti u = HI_None.

Lemma tuple_no_host_spec u : tuple_no_host_b u = true <-> tuple_no_host u.
Proof.
  unfold tuple_no_host_b, tuple_no_host, has_host. split.
  - destruct (scheme u) as [s|]; [|discriminate]. intros H. apply andb_true_iff in H. destruct H as [H5 Hh].
    exists s. split; [reflexivity|]. split; [apply str_mem_spec; exact H5|]. destruct (hosti u); try discriminate. reflexivity.
  - intros (s & -> & H5 & ->). apply str_mem_spec in H5. rewrite H5. reflexivity.
Qed.

Lemma url_parse_has_host p v : url_parse dbg hp ho hd p = POk v -> ~ tuple_no_host v.
Proof.
  unfold url_parse, parse_url. cbv zeta. intros H (s & Hs & H5 & Hn).
  destruct (parse_scheme CUrlParser (input_new_trim_c0 (str_chars p))) as [[sch remaining]|]; [|discriminate].
  destruct (parse_with_scheme_shape dbg hp ho hd _ _ _ _ H) as [S1 _].
  rewrite (S1 s Hs) in H5. exact (parse_with_scheme_special _ _ _ _ H (five_special sch H5) Hn).
Qed.

Hypothesis HW : HostWf hp ho hd.

Lemma url_parse_wf p v : url_parse dbg hp ho hd p = POk v -> wf_b v = true.
Proof. intros H. exact (proj1 (parse_url_wf_all dbg hp ho hd None HW None (str_chars p) v I H)). Qed.

Lemma origin_fuel_no_panic f : forall c u, wf_b u = true -> ~ tuple_no_host u ->
  url_origin_fuel dbg hp ho hd f c u <> OPanic.
Proof.
  induction f as [|f IH]; intros c u W Hn; rewrite uof_unfold; rewrite (scheme_eval u W), blob_table, tuple_table;
    set (s := piece u _ _) in *; (destruct (list_eqb s s_blob) eqn:Eb; [rewrite (path_eval u W)|]).
  - pose proof (parse_no_base_no_panic dbg hp ho hd None (str_chars (piece u (pidx u BeforePath) (pidx u AfterPath)))) as Hp.
    fold (url_parse dbg hp ho hd (piece u (pidx u BeforePath) (pidx u AfterPath))) in Hp.
    destruct (url_parse dbg hp ho hd _) as [v|e|]; [discriminate | apply new_opaque_no_panic | congruence].
  - destruct (str_mem s five_schemes) eqn:E5; [|apply new_opaque_no_panic].
    apply str_mem_spec in E5.
    assert (Hh : has_host u = true).
    { unfold has_host. destruct (hosti u) eqn:Eh; try reflexivity. exfalso. apply Hn. exists s. split; [apply scheme_eval; exact W|]. tauto. }
    destruct (proj1 (proj1 (proj2 (C03.C03_views dbg u W))) Hh) as [h Eh].
    destruct (tuple_arm dbg hp ho hd 0 c u s h (scheme_eval u W) E5 Eh) as (p & Ep & _). rewrite Eh, Ep. discriminate.
  - pose proof (parse_no_base_no_panic dbg hp ho hd None (str_chars (piece u (pidx u BeforePath) (pidx u AfterPath)))) as Hp.
    fold (url_parse dbg hp ho hd (piece u (pidx u BeforePath) (pidx u AfterPath))) in Hp.
    destruct (url_parse dbg hp ho hd _) as [v|e|] eqn:Ev; [|apply new_opaque_no_panic | congruence].
    apply IH; [exact (url_parse_wf _ v Ev) | exact (url_parse_has_host _ v Ev)].
  - destruct (str_mem s five_schemes) eqn:E5; [|apply new_opaque_no_panic].
    apply str_mem_spec in E5.
    assert (Hh : has_host u = true).
    { unfold has_host. destruct (hosti u) eqn:Eh; try reflexivity. exfalso. apply Hn. exists s. split; [apply scheme_eval; exact W|]. tauto. }
    destruct (proj1 (proj1 (proj2 (C03.C03_views dbg u W))) Hh) as [h Eh].
    destruct (tuple_arm dbg hp ho hd 0 c u s h (scheme_eval u W) E5 Eh) as (p & Ep & _). rewrite Eh, Ep. discriminate.
Qed.

(* EXACTLY: on a well-formed record, origin() panics iff the record has a tuple scheme and no host *)
Theorem url_origin_panic_iff c u : wf_b u = true ->
  (url_origin dbg hp ho hd c u = OPanic <-> tuple_no_host u).
Proof.
  intros W. split.
  - intros H. destruct (tuple_no_host_b u) eqn:E; [apply tuple_no_host_spec; exact E|]. exfalso.
    refine (origin_fuel_no_panic _ c u W _ H). intros Y. apply tuple_no_host_spec in Y. congruence.
  - intros (s & Hs & H5 & Hn). apply (tuple_arm_no_host dbg hp ho hd _ c u s Hs H5). unfold host_of. rewrite Hn. reflexivity.
Qed.

(* the origin of every parse result (and of every URL reached from it through the blob recursion) *)
Theorem url_origin_parsed_no_panic c p v : url_parse dbg hp ho hd p = POk v -> url_origin dbg hp ho hd c v <> OPanic.
Proof. intros H. apply origin_fuel_no_panic; [exact (url_parse_wf p v H) | exact (url_parse_has_host p v H)]. Qed.
End Origin.
