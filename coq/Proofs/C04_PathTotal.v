(* Proofs/C04_PathTotal.v - the path states of the parser reach none of their panic sites (pop_path's
   unwrap, the debug_assert and the slice of finish_segment) for EVERY scheme type other than file, every
   input (no UTF-8 / scalar-value hypothesis is needed) and every serialization prefix: the invariant is
   only "the byte in front of the current segment is '/', and the segment does not start in front of the
   path".  Totality twin of C06_PathParser.PInv (which says what a successful run keeps). *)
From RU Require Import Base.Prelude Base.Utf8 Model.AsciiSet Gen.Tables Model.PercentEncoding
  Model.HostT Model.UrlRecord Model.Parser
  Proofs.ListN Proofs.C06_List Proofs.C02_Parts.

(* ---------- ends_with_byte / rfind in terms of nnth ---------- *)
Lemma nnth_last a x : nnth (a ++ [x]) (nlen a) = Some x.
Proof. rewrite nnth_app_ge by lia. rewrite N.sub_diag. reflexivity. Qed.

Lemma ends_with_byte_snoc b a x : ends_with_byte b (a ++ [x]) = (x =? b).
Proof. unfold ends_with_byte. rewrite rev_app_distr. reflexivity. Qed.

Lemma ends_with_byte_nnth b l : ends_with_byte b l = true <-> 1 <= nlen l /\ nnth l (nlen l - 1) = Some b.
Proof.
  destruct l as [|c r] using rev_ind.
  - split; [discriminate | intros [H _]; rewrite nlen_nil in H; lia].
  - rewrite ends_with_byte_snoc. rewrite nlen_app. change (nlen [c]) with 1.
    replace (nlen r + 1 - 1) with (nlen r) by lia. rewrite nnth_last. split.
    + intros H. apply N.eqb_eq in H. subst c. split; [lia | reflexivity].
    + intros [_ H]. inversion H. apply N.eqb_refl.
Qed.

Lemma rfind_aux_spec b l : forall i0 last j, rfind_aux b l i0 last = Some j ->
  last = Some j \/ (i0 <= j /\ nnth l (j - i0) = Some b).
Proof.
  induction l as [|x r IH]; intros i0 last j H; cbn [rfind_aux] in H.
  - left. exact H.
  - apply IH in H. destruct H as [H|[H1 H2]].
    + destruct (x =? b) eqn:E; [|left; exact H]. inversion H; subst. right. split; [lia|].
      rewrite N.sub_diag. apply N.eqb_eq in E. subst x. reflexivity.
    + right. split; [lia|]. replace (j - i0) with (1 + (j - (i0 + 1))) by lia.
      change (x :: r) with ([x] ++ r). rewrite nnth_app_ge by (change (nlen [x]) with 1; lia).
      change (nlen [x]) with 1. replace (1 + (j - (i0 + 1)) - 1) with (j - (i0 + 1)) by lia. exact H2.
Qed.

Lemma rfind_spec b l j : rfind b l = Some j -> nnth l j = Some b.
Proof.
  intros H. apply rfind_aux_spec in H. destruct H as [H|[_ H]]; [discriminate|].
  rewrite N.sub_0_r in H. exact H.
Qed.

Lemma rfind_aux_some b l : forall i0 last i, nnth l i = Some b -> rfind_aux b l i0 last <> None.
Proof.
  assert (forall l i0 last, last <> None -> rfind_aux b l i0 last <> None) as Hk.
  { induction l0 as [|x r IH]; intros i0 last H; cbn [rfind_aux]; [exact H|].
    apply IH. destruct (x =? b); [discriminate | exact H]. }
  induction l as [|x r IH]; intros i0 last i H.
  - unfold nnth in H. destruct (N.to_nat i); discriminate.
  - cbn [rfind_aux]. destruct (N.eq_dec i 0) as [->|Hi].
    + cbn in H. inversion H; subst. rewrite N.eqb_refl. apply Hk. discriminate.
    + apply (IH _ _ (i - 1)). change (x :: r) with ([x] ++ r) in H.
      rewrite nnth_app_ge in H by (change (nlen [x]) with 1; lia). exact H.
Qed.

Lemma rfind_some b l i : nnth l i = Some b -> exists j, rfind b l = Some j.
Proof.
  intros H. pose proof (rfind_aux_some b l 0 None i H) as K. unfold rfind.
  destruct (rfind_aux b l 0 None) as [j|]; [exists j; reflexivity | congruence].
Qed.

Lemma rfind_lt' b l p : rfind b l = Some p -> p < nlen l.
Proof. intros H. apply rfind_spec in H. apply nnth_lt in H. exact H. Qed.

Lemma agree_pre_nfirstn_ge k n s : k <= n -> agree_pre k s (nfirstn n s).
Proof. intros H. unfold agree_pre. apply nfirstn_nfirstn. exact H. Qed.

Lemma agree_pre_app_le k s x : k <= nlen s -> agree_pre k s (s ++ x).
Proof. intros H. unfold agree_pre. apply nfirstn_app_le. exact H. Qed.

(* what is left to parse after the path: nothing, or something whose first character is '?' / '#' *)
Definition rem_ok (rem : list N) : Prop :=
  match inp_next rem with None => True | Some (c, _) => is_qh c = true end.

Section PathTotal.
Variables (dbg : bool) (st : scheme_type) (ps k : N).
Hypothesis Hnf : st_is_file st = false.
Hypothesis Hk : k <= ps + 1.

(* the segment starts at ss, behind a '/', not in front of the path; the first k bytes are never touched *)
Definition seg_inv (ser : list N) (ss : N) : Prop :=
  ps <= ss /\ k <= ss /\ 1 <= ss /\ ss <= nlen ser /\ nnth ser (ss - 1) = Some 47.

Lemma seg_inv_app ser ss x : seg_inv ser ss -> seg_inv (ser ++ x) ss.
Proof using. clear Hnf Hk.
  intros (H1 & H2 & H3 & H4 & H5). repeat split; try assumption.
  - rewrite nlen_app. lia.
  - rewrite nnth_app_lt by lia. exact H5.
Qed.

Lemma seg_inv_trunc ser n : ps <= n -> k <= n -> 1 <= n -> n <= nlen ser -> nnth ser (n - 1) = Some 47 ->
  seg_inv (nfirstn n ser) (nlen (nfirstn n ser)) /\ ends_with_byte 47 (nfirstn n ser) = true.
Proof using. clear Hnf Hk.
  intros H1 H2 H3 H4 H5. pose proof (nlen_nfirstn n ser H4) as L.
  assert (nnth (nfirstn n ser) (n - 1) = Some 47) as H6 by (rewrite nnth_nfirstn by lia; exact H5).
  split.
  - rewrite L. repeat split; try assumption; lia.
  - apply ends_with_byte_nnth. rewrite L. split; assumption.
Qed.

Lemma pop_path_ok s i : ps <= i -> nnth s i = Some 47 ->
  exists n, pop_path st ps s = POk (nfirstn n s) /\ ps + 1 <= n /\ n <= nlen s /\ nnth s (n - 1) = Some 47.
Proof using Hnf. clear Hk.
  intros Hi Hn. pose proof (nnth_lt _ _ _ Hn) as Hlt. unfold pop_path.
  replace (ps <? nlen s) with true by lia.
  assert (nnth (nskipn ps s) (i - ps) = Some 47) as Hn' by (rewrite nnth_nskipn; replace (ps + (i - ps)) with i by lia; exact Hn).
  destruct (rfind_some 47 _ _ Hn') as [sp Hsp]. rewrite Hsp.
  pose proof (rfind_spec _ _ _ Hsp) as Hs. rewrite nnth_nskipn in Hs.
  pose proof (nnth_lt _ _ _ Hs) as Hl.
  rewrite Hnf. cbn [andb]. exists (ps + sp + 1). unfold truncate. split; [reflexivity|].
  split; [lia|]. split; [lia|]. replace (ps + sp + 1 - 1) with (ps + sp) by lia. exact Hs.
Qed.

(* the ".." arm: truncate to the segment start, maybe drop the slash, shorten *)
Lemma dd_ok ser ss : seg_inv ser ss ->
  let s1 := truncate ser ss in
  let s2 := if ends_with_byte 47 s1 && last_slash_can_be_removed s1 ps then nfirstn (nlen s1 - 1) s1 else s1 in
  exists n, shorten_path st ps s2 = POk (nfirstn n ser)
            /\ ps <= n /\ k <= n /\ 1 <= n /\ n <= nlen ser /\ nnth ser (n - 1) = Some 47.
Proof using Hnf Hk.
  intros (H1 & H2 & H3 & H4 & H5). cbv zeta. unfold truncate.
  pose proof (nlen_nfirstn ss ser H4) as L.
  destruct (seg_inv_trunc ser ss H1 H2 H3 H4 H5) as [_ He]. rewrite He. cbn [andb].
  destruct (last_slash_can_be_removed (nfirstn ss ser) ps) eqn:EL.
  - unfold last_slash_can_be_removed in EL. rewrite L in *.
    destruct (rfind 47 (nfirstn (ss - 1) (nfirstn ss ser))) as [p|] eqn:Ep; [|discriminate].
    apply andb_true_iff in EL. destruct EL as [EL _].
    pose proof (rfind_spec _ _ _ Ep) as Hp. pose proof (nnth_lt _ _ _ Hp) as Hpl.
    rewrite nfirstn_nfirstn in * by lia.
    assert (nlen (nfirstn (ss - 1) ser) = ss - 1) as L2 by (apply nlen_nfirstn; lia).
    unfold shorten_path. replace (nlen (nfirstn (ss - 1) ser) =? ps) with false by lia.
    rewrite Hnf. cbn [andb].
    destruct (pop_path_ok (nfirstn (ss - 1) ser) p ltac:(lia) Hp) as (n & En & N1 & N2 & N3).
    rewrite En. rewrite nfirstn_nfirstn by lia. exists n. split; [reflexivity|].
    rewrite nnth_nfirstn in N3 by lia. repeat split; try lia. exact N3.
  - unfold shorten_path. rewrite L. destruct (ss =? ps) eqn:E.
    + exists ss. split; [reflexivity|]. repeat split; assumption.
    + rewrite Hnf. cbn [andb].
      assert (nnth (nfirstn ss ser) (ss - 1) = Some 47) as H6 by (rewrite nnth_nfirstn by lia; exact H5).
      destruct (pop_path_ok (nfirstn ss ser) (ss - 1) ltac:(lia) H6) as (n & En & N1 & N2 & N3).
      rewrite En. rewrite nfirstn_nfirstn by lia. exists n. split; [reflexivity|].
      rewrite nnth_nfirstn in N3 by lia. repeat split; try lia. exact N3.
Qed.

Lemma finish_ok ser ss ews hh : seg_inv ser ss ->
  (ews = true -> ss + 1 <= nlen ser /\ ends_with_byte 47 ser = true) ->
  exists s', finish_segment dbg st ps ser ss ews hh = POk (s', hh) /\ agree_pre k ser s'
             /\ (ews = true -> seg_inv s' (nlen s')).
Proof using Hnf Hk.
  intros I Hews. pose proof I as (H1 & H2 & H3 & H4 & H5). unfold finish_segment.
  rewrite slice_o_some; [| destruct ews; [destruct (Hews eq_refl); lia | lia] | destruct ews; lia].
  cbn [of_option pbind].
  set (seg := nfirstn _ _). destruct (is_double_dot seg).
  - assert ((if dbg then match (if 1 <=? ss then nnth ser (ss - 1) else None) with
                         | Some b => passert (b =? 47) | None => PPanic end else POk tt) = POk tt) as Ed.
    { destruct dbg; [|reflexivity]. replace (1 <=? ss) with true by lia. rewrite H5. reflexivity. }
    rewrite Ed. cbn [pbind].
    destruct (dd_ok ser ss I) as (n & En & N1 & N2 & N3 & N4 & N5). cbv zeta in En. rewrite En. cbn [pbind].
    destruct (seg_inv_trunc ser n N1 N2 N3 N4 N5) as [I3 E3]. rewrite E3. rewrite andb_false_r.
    exists (nfirstn n ser). split; [reflexivity|]. split; [apply agree_pre_nfirstn_ge; exact N2|]. intros _. exact I3.
  - destruct (is_single_dot seg).
    + unfold truncate. destruct (seg_inv_trunc ser ss H1 H2 H3 H4 H5) as [I3 E3]. rewrite E3.
      exists (nfirstn ss ser). split; [reflexivity|]. split; [apply agree_pre_nfirstn_ge; exact H2|]. intros _. exact I3.
    + rewrite Hnf. cbn [andb]. exists ser. split; [reflexivity|]. split; [reflexivity|].
      intros E. destruct (Hews E) as [G1 G2]. apply ends_with_byte_nnth in G2. destruct G2 as [G2 G3].
      repeat split; try lia. exact G3.
Qed.

Lemma push_pending_app ctx pend ser : exists x, push_pending ctx st ser pend = ser ++ x.
Proof using. clear Hnf Hk.
  unfold push_pending. destruct pend as [|c r]; [exists []; rewrite app_nil_r; reflexivity|].
  unfold push_encoded. eexists. reflexivity.
Qed.

Lemma rem_ok_nil : rem_ok [].
Proof using. exact I. Qed.

Lemma rem_ok_cons c r : is_tnl c = false -> is_qh c = true -> rem_ok (c :: r).
Proof using. intros Ht Hq. unfold rem_ok. rewrite inp_next_cons by exact Ht. exact Hq. Qed.

Notation loop := (parse_path_loop dbg CUrlParser st ps).

Theorem loop_ok l : forall ser ss pend hh, seg_inv ser ss ->
  exists s' rem, loop l ser ss pend hh = POk (s', hh, rem) /\ agree_pre k ser s' /\ rem_ok rem.
Proof using Hnf Hk.
  assert (forall l0 ser ss pend hh, seg_inv ser ss -> rem_ok l0 ->
            exists s' rem,
              (' (s2, hh0) <~ finish_segment dbg st ps (push_pending CUrlParser st ser pend) ss false hh ;;
               POk (file_path_fixup st ps s2, hh0, l0)) = POk (s', hh, rem) /\ agree_pre k ser s' /\ rem_ok rem) as Hend.
  { intros l0 ser ss pend hh I Hr. destruct (push_pending_app CUrlParser pend ser) as [x Ex]. rewrite Ex.
    destruct (finish_ok (ser ++ x) ss false hh (seg_inv_app ser ss x I) ltac:(discriminate)) as (s' & Ef & Ha & _).
    rewrite Ef. cbn [pbind]. unfold file_path_fixup. rewrite Hnf. exists s', l0. split; [reflexivity|].
    split; [|exact Hr]. destruct I as (_ & I2 & _ & I4 & _).
    eapply agree_pre_trans; [apply agree_pre_app_le; lia | exact Ha]. }
  induction l as [|c r IH]; intros ser ss pend hh I.
  - cbn [parse_path_loop]. apply Hend; [exact I | exact rem_ok_nil].
  - cbn [parse_path_loop]. pose proof I as (_ & I2 & _ & I4 & _).
    destruct (push_pending_app CUrlParser pend ser) as [x Ex].
    destruct (is_tnl c) eqn:Et.
    { rewrite Ex. destruct (IH (ser ++ x) ss [] hh (seg_inv_app ser ss x I)) as (s' & rem & E & Ha & Hr).
      exists s', rem. split; [exact E|]. split; [|exact Hr].
      eapply agree_pre_trans; [apply agree_pre_app_le; lia | exact Ha]. }
    cbn [ctx_eqb negb andb].
    destruct ((c =? 47) || (c =? 92) && st_is_special st).
    { rewrite Ex. rewrite <- app_assoc.
      assert (seg_inv (ser ++ x ++ [47]) ss) as I1 by (apply seg_inv_app; exact I).
      destruct (finish_ok (ser ++ x ++ [47]) ss true hh I1) as (s2 & Ef & Ha & I3).
      { intros _. split; [rewrite !nlen_app; change (nlen [47]) with 1; lia|].
        rewrite app_assoc. apply ends_with_byte_snoc. }
      rewrite Ef. cbn [pbind].
      destruct (IH s2 (nlen s2) [] hh (I3 eq_refl)) as (s' & rem & E & Ha2 & Hr).
      exists s', rem. split; [exact E|]. split; [|exact Hr].
      eapply agree_pre_trans; [apply agree_pre_app_le; lia|]. eapply agree_pre_trans; [exact Ha | exact Ha2]. }
    rewrite andb_true_r. fold (is_qh c). destruct (is_qh c) eqn:Eq.
    { apply Hend; [exact I | apply rem_ok_cons; assumption]. }
    rewrite Hnf. cbn [andb]. apply IH. exact I.
Qed.

End PathTotal.
