(* Proofs/C02_AuthMain.v - classes (iii) and (iv) of DESIGN B.5 assembled: class recognisers on the input,
   L1 (canonical form + wf_b + ASCII), L3 (fixpoint of serialize-then-parse), and a concrete instance of
   the host hypotheses for the non-vacuity examples. *)
From Coq Require Import String.
From RU Require Import Base.Prelude Base.Utf8 Base.Utf8Facts Model.AsciiSet Gen.Tables
  Model.PercentEncoding Model.HostT Model.UrlRecord Model.Parser Model.WF
  Proofs.ListN Proofs.C14_Set Proofs.C14_Enc Proofs.C14_Views Proofs.C02_Enc Proofs.C02_Parts
  Proofs.C02_Opaque Proofs.C02_Path Proofs.C02_PathL1 Proofs.C02_Reach Proofs.C16_RT Proofs.C02_AuthParts
  Proofs.C02_Auth Proofs.C02_AuthWf Proofs.C02_PathSp Proofs.C02_AuthSp.
Open Scope N_scope.
Open Scope list_scope.

(* ================= class (iii): non-special scheme, "//" after the colon, no base ================= *)
Definition auth_input (input : list N) : bool :=
  match parse_scheme CUrlParser (input_new_trim_c0 input) with
  | Some (sch, rem) =>
      scheme_type_eqb (scheme_type_of sch) STNotSpecial
      && match inp_split_prefix_str s_ss rem with Some _ => true | None => false end
  | None => false
  end.

Lemma auth_input_inv input : auth_input input = true ->
  exists sch rem rem', parse_scheme CUrlParser (input_new_trim_c0 input) = Some (sch, rem)
    /\ scheme_type_of sch = STNotSpecial /\ inp_split_prefix_str s_ss rem = Some rem'.
Proof.
  unfold auth_input. destruct (parse_scheme CUrlParser (input_new_trim_c0 input)) as [[sch rem]|]; [|discriminate].
  intros H. apply andb_true_iff in H. destruct H as [H1 H2].
  destruct (inp_split_prefix_str s_ss rem) as [rem'|] eqn:E; [|discriminate].
  exists sch, rem, rem'. split; [reflexivity|]. split; [|exact E].
  destruct (scheme_type_of sch); try discriminate. reflexivity.
Qed.

(* the canonical form: scheme "://" [user [":" pw] "@"] host [":" port] path ["?" q] ["#" f] with
   a lower-case scheme of the given type, user / pw clean for USERINFO (pw non-empty when present, user
   non-empty when there is no pw), host the display of a host value that parses back to itself (or the
   empty host of a non-special URL, then without userinfo and port), port <= 65535 and not the default,
   path empty or "/" seg "/" ... "/" last with every segment clean for PATH and not a dot segment in any
   spelling, query clean for the query set of the scheme type, fragment clean for FRAGMENT *)
Definition canon_auth (hp hpo : list N -> result host) (hd : host -> list N) (st : scheme_type) (u : url) : Prop :=
  exists sch ui h pt p q f, auth_ok hp hpo hd st sch ui h pt p q f /\ u = auth_url hd sch ui h pt p q f.

(* class (iv): a special scheme other than file (any number of '/' and '\' may follow the colon) *)
Definition special_input (input : list N) : bool :=
  match parse_scheme CUrlParser (input_new_trim_c0 input) with
  | Some (sch, _) => scheme_type_eqb (scheme_type_of sch) STSpecialNotFile
  | None => false
  end.

Lemma special_input_inv input : special_input input = true ->
  exists sch rem, parse_scheme CUrlParser (input_new_trim_c0 input) = Some (sch, rem)
    /\ scheme_type_of sch = STSpecialNotFile.
Proof.
  unfold special_input. destruct (parse_scheme CUrlParser (input_new_trim_c0 input)) as [[sch rem]|]; [|discriminate].
  intros H. exists sch, rem. split; [reflexivity|]. destruct (scheme_type_of sch); try discriminate. reflexivity.
Qed.

(* canonical form of class (iv): as canon_auth for the type STSpecialNotFile (so the host is never empty and
   the query is clean for SPECIAL_QUERY), and the path is "/" seg "/" ... "/" last with no '\' in any segment *)
Definition canon_special (hp hpo : list N -> result host) (hd : host -> list N) (u : url) : Prop :=
  exists sch ui h pt p q f, auth_ok hp hpo hd STSpecialNotFile sch ui h pt p q f /\ pth_ok_sp p
                            /\ u = auth_url hd sch ui h pt p q f.

Section Main.
Variable dbg : bool.
Variable hp hpo : list N -> result host.
Variable hd : host -> list N.
Hypothesis HRT : HostRT hp hpo hd.

Theorem L1_auth ovr input u : host_above hp hpo hd -> usv_list input -> auth_input input = true ->
  parse_url dbg hp hpo hd ovr None input = POk u ->
  canon_auth hp hpo hd STNotSpecial u /\ wf_b u = true /\ ascii (ser u) /\ cannot_be_a_base u = Some false.
Proof.
  intros HAb Hu Hc Hp. destruct (auth_input_inv input Hc) as (sch & rem & rem' & Hs & Hns & Hss).
  destruct (parse_auth_out dbg hp hpo hd HRT HAb ovr input sch rem rem' u Hu Hs Hns Hss Hp) as (ui & h & pt & p & q & f & K & ->).
  destruct (auth_url_wf hp hpo hd HRT _ _ _ _ _ _ _ _ K) as [W C].
  split; [exists sch, ui, h, pt, p, q, f; split; [exact K | reflexivity]|]. split; [exact W|]. split; [|exact C].
  apply okc_ascii. exact (auth_ser_okc hp hpo hd HRT _ _ _ _ _ _ _ _ K).
Qed.

Theorem L3_auth u : canon_auth hp hpo hd STNotSpecial u -> Fixpoint_of_reparse dbg hp hpo hd u.
Proof.
  intros (sch & ui & h & pt & p & q & f & K & ->).
  unfold Fixpoint_of_reparse, reparse. cbn [ser auth_url].
  rewrite utf8_lossy_ascii by (apply okc_ascii; exact (auth_ser_okc hp hpo hd HRT _ _ _ _ _ _ _ _ K)).
  exact (reparse_auth_form dbg hp hpo hd HRT None sch ui h pt p q f K).
Qed.

Theorem reparse_auth ovr input u : host_above hp hpo hd -> usv_list input -> auth_input input = true ->
  parse_url dbg hp hpo hd ovr None input = POk u -> Fixpoint_of_reparse dbg hp hpo hd u.
Proof. intros HAb Hu Hc Hp. apply L3_auth. exact (proj1 (L1_auth ovr input u HAb Hu Hc Hp)). Qed.

(* ================= class (iv): special non-file scheme, no base ================= *)
Theorem L1_special input u : host_above hp hpo hd -> usv_list input -> special_input input = true ->
  parse_url dbg hp hpo hd None None input = POk u ->
  canon_special hp hpo hd u /\ wf_b u = true /\ ascii (ser u) /\ cannot_be_a_base u = Some false.
Proof.
  intros HAb Hu Hc Hp. destruct (special_input_inv input Hc) as (sch & rem & Hs & Hst).
  destruct (parse_special_out dbg hp hpo hd HRT HAb input sch rem u Hu Hs Hst Hp) as (ui & h & pt & p & q & f & K & Kp & ->).
  destruct (auth_url_wf hp hpo hd HRT _ _ _ _ _ _ _ _ K) as [W C].
  split; [exists sch, ui, h, pt, p, q, f; split; [exact K | split; [exact Kp | reflexivity]]|]. split; [exact W|]. split; [|exact C].
  apply okc_ascii. exact (auth_ser_okc hp hpo hd HRT _ _ _ _ _ _ _ _ K).
Qed.

Theorem L3_special u : canon_special hp hpo hd u -> Fixpoint_of_reparse dbg hp hpo hd u.
Proof.
  intros (sch & ui & h & pt & p & q & f & K & Kp & ->).
  unfold Fixpoint_of_reparse, reparse. cbn [ser auth_url].
  rewrite utf8_lossy_ascii by (apply okc_ascii; exact (auth_ser_okc hp hpo hd HRT _ _ _ _ _ _ _ _ K)).
  exact (reparse_special_form dbg hp hpo hd HRT sch ui h pt p q f K Kp).
Qed.

Theorem reparse_special input u : host_above hp hpo hd -> usv_list input -> special_input input = true ->
  parse_url dbg hp hpo hd None None input = POk u -> Fixpoint_of_reparse dbg hp hpo hd u.
Proof. intros HAb Hu Hc Hp. apply L3_special. exact (proj1 (L1_special input u HAb Hu Hc Hp)). Qed.

End Main.

(* ================= a concrete instance of the host hypotheses ================= *)
(* accepts the empty text and the non-empty texts over letters, digits, '-' and '.', displays them back *)
Definition ex_hostc (c : N) : bool := is_alnum c || (c =? 45) || (c =? 46).
Definition ex_hp (s : list N) : result host :=
  match s with
  | [] => Ok (HDomain [])
  | _ => if forallb ex_hostc s then Ok (HDomain s) else Err InvalidDomainCharacter
  end.
Definition ex_hd (h : host) : list N := match h with HDomain d => d | _ => [] end.

Lemma ex_host_scan sp s : forall acc rest, forallb ex_hostc s = true ->
  match rest with [] => True | c :: _ => (c =? 58) || (c =? 47) || (c =? 63) || (c =? 35) || ((c =? 92) && sp) = true end ->
  host_scan sp false acc (s ++ rest) = (rev acc ++ s, rest).
Proof.
  induction s as [|c s IH]; intros acc rest Hs Hr.
  - cbn [app]. rewrite app_nil_r. destruct rest as [|c r]; [reflexivity|]. cbn [host_scan].
    assert (is_tnl c = false) as Ht by (unfold is_tnl; destruct sp; lia). rewrite Ht. cbn [negb].
    assert (((c =? 58) && true) || ((c =? 92) && sp) || (c =? 47) || (c =? 63) || (c =? 35) = true) as E by (destruct sp; lia).
    rewrite E. reflexivity.
  - cbn [forallb] in Hs. apply andb_true_iff in Hs. destruct Hs as [Hc Hs].
    cbn [app host_scan].
    assert (is_tnl c = false) as Ht by (unfold ex_hostc, is_alnum, is_alpha, is_upper, is_lower, is_digit, is_tnl in *; lia).
    rewrite Ht. cbn [negb].
    assert (((c =? 58) && true) || ((c =? 92) && sp) || (c =? 47) || (c =? 63) || (c =? 35) = false) as E
      by (unfold ex_hostc, is_alnum, is_alpha, is_upper, is_lower, is_digit in *; destruct sp; lia).
    rewrite E.
    replace (c =? 91) with false by (unfold ex_hostc, is_alnum, is_alpha, is_upper, is_lower, is_digit in *; lia).
    replace (c =? 93) with false by (unfold ex_hostc, is_alnum, is_alpha, is_upper, is_lower, is_digit in *; lia).
    rewrite IH by assumption. cbn [rev]. rewrite <- app_assoc. reflexivity.
Qed.

Lemma ex_text_ok s : s <> [] -> forallb ex_hostc s = true -> host_text_ok s /\ forallb above_space s = true.
Proof.
  intros Hne Hs. split; [split; [|split; [exact Hne|split]]|].
  - apply Forall_forall. intros c Hc. rewrite forallb_forall in Hs. specialize (Hs c Hc).
    unfold ex_hostc, is_alnum, is_alpha, is_upper, is_lower, is_digit, is_ascii in *. lia.
  - intros sp rest Hr. apply (ex_host_scan sp s [] rest Hs Hr).
  - rewrite <- (app_nil_r s). rewrite scan_plain; [reflexivity|].
    apply (forallb_impl ex_hostc); [|exact Hs]. intros c Hc.
    unfold ex_hostc, is_alnum, is_alpha, is_upper, is_lower, is_digit, plainc, auth_delim, is_tnl in *. lia.
  - apply (forallb_impl ex_hostc); [|exact Hs]. intros c Hc.
    unfold ex_hostc, is_alnum, is_alpha, is_upper, is_lower, is_digit, above_space, is_c0_or_space in *. lia.
Qed.

Lemma ex_hp_inv s h : ex_hp s = Ok h -> h <> HDomain [] -> h = HDomain s /\ s <> [] /\ forallb ex_hostc s = true.
Proof.
  unfold ex_hp. destruct s as [|c t]; [intros H; inversion H; subst; contradiction|].
  destruct (forallb ex_hostc (c :: t)) eqn:E; [|discriminate]. intros H _. inversion H; subst.
  split; [reflexivity|]. split; [discriminate | reflexivity].
Qed.

Lemma ex_host_RT : HostRT ex_hp ex_hp ex_hd /\ host_above ex_hp ex_hp ex_hd.
Proof.
  assert (forall s h, ex_hp s = Ok h -> h <> HDomain [] -> host_text_ok (ex_hd h) /\ ex_hp (ex_hd h) = Ok h) as G.
  { intros s h H Hne. destruct (ex_hp_inv s h H Hne) as (-> & Hn & Hf). cbn [ex_hd].
    split; [exact (proj1 (ex_text_ok s Hn Hf))|]. exact H. }
  assert (forall s h, ex_hp s = Ok h -> forallb above_space (ex_hd h) = true) as GA.
  { intros s h H. destruct h as [[|d0 d]|a|pcs]; try reflexivity.
    destruct (ex_hp_inv s _ H ltac:(discriminate)) as (E & Hn & Hf). inversion E; subst. cbn [ex_hd].
    exact (proj2 (ex_text_ok _ Hn Hf)). }
  split; [split; [exact G | split; [exact G | split; reflexivity]] | split; exact GA].
Qed.

(* ================= the statements under HostOK (C02_Reach.v) ================= *)
Theorem reparse_auth_HostOK dbg hp hpo hd ovr input u :
  HostOK hp hpo hd -> host_above hp hpo hd -> usv_list input -> auth_input input = true ->
  parse_url dbg hp hpo hd ovr None input = POk u ->
  Fixpoint_of_reparse dbg hp hpo hd u /\ wf_b u = true /\ canon_auth hp hpo hd STNotSpecial u.
Proof.
  intros HOK HAb Hu Hc Hp. pose proof (HostOK_RT _ _ _ HOK) as HRT.
  destruct (L1_auth dbg hp hpo hd HRT ovr input u HAb Hu Hc Hp) as (C & W & _).
  split; [exact (L3_auth dbg hp hpo hd HRT u C) | split; assumption].
Qed.

Theorem reparse_special_HostOK dbg hp hpo hd input u :
  HostOK hp hpo hd -> host_above hp hpo hd -> usv_list input -> special_input input = true ->
  parse_url dbg hp hpo hd None None input = POk u ->
  Fixpoint_of_reparse dbg hp hpo hd u /\ wf_b u = true /\ canon_special hp hpo hd u.
Proof.
  intros HOK HAb Hu Hc Hp. pose proof (HostOK_RT _ _ _ HOK) as HRT.
  destruct (L1_special dbg hp hpo hd HRT input u HAb Hu Hc Hp) as (C & W & _).
  split; [exact (L3_special dbg hp hpo hd HRT u C) | split; assumption].
Qed.

(* ================= non-vacuity ================= *)
Definition ex_parse (s : string) : pres url := parse_url true ex_hp ex_hp ex_hd None None (B s).
Definition ex_result (s : string) (expect : string) (se ue hs he ps : N) (pt : option N) : bool :=
  match ex_parse s with
  | POk u => list_eqb (ser u) (B expect) && (scheme_end u =? se) && (username_end u =? ue) && (host_start u =? hs)
             && (host_end u =? he) && (path_start u =? ps) && opt_eqb (port u) pt
             && match parse_url true ex_hp ex_hp ex_hd None None (ser u) with POk v => url_eqb v u | _ => false end
  | _ => false
  end.

Lemma auth_examples :
  auth_input (B "a://u:p@h.x:81/a/../b?q#f") = true /\ auth_input (B "a:///p") = true
  /\ auth_input (B "a://@h") = true /\ auth_input (B "a:/p") = false /\ auth_input (B "http://h") = false
  /\ ex_result "a://u:p@h.x:81/a/../b?q#f" "a://u:p@h.x:81/b?q#f" 1 5 8 11 14 (Some 81) = true
  /\ ex_result "a:///p" "a:///p" 1 4 4 4 4 None = true
  /\ ex_result "a://@h" "a://h" 1 4 4 5 5 None = true
  /\ ex_result "a://h:/" "a://h/" 1 4 4 5 5 None = true.
Proof. vm_compute. repeat split. Qed.

Lemma special_examples :
  special_input (B "HTTP:\\u@H.x:80\a\..\b?q'#f") = true /\ special_input (B "ws:h") = true
  /\ special_input (B "file://h/") = false /\ special_input (B "a://h") = false
  /\ ex_result "HTTP:\\u@H.x:80\a\..\b?q'#f" "http://u@H.x/b?q%27#f" 4 8 9 12 12 None = true
  /\ ex_result "ws:h" "ws://h/" 2 5 5 6 6 None = true
  /\ ex_result "https://h:8443/%2e/x\" "https://h:8443/x/" 5 8 8 9 14 (Some 8443) = true
  /\ match ex_parse "http://" with PErr EmptyHost => true | _ => false end = true.
Proof. vm_compute. repeat split. Qed.

(* ================= the union of classes (i)-(iv): every non-file scheme, no base ================= *)
Definition nonfile_input (input : list N) : bool :=
  match parse_scheme CUrlParser (input_new_trim_c0 input) with
  | Some (sch, _) => negb (st_is_file (scheme_type_of sch))
  | None => false
  end.

Theorem reparse_nonfile dbg hp hpo hd input u :
  HostRT hp hpo hd -> host_above hp hpo hd -> usv_list input -> nonfile_input input = true ->
  parse_url dbg hp hpo hd None None input = POk u ->
  Fixpoint_of_reparse dbg hp hpo hd u /\ wf_b u = true /\ ascii (ser u).
Proof.
  intros HRT HAb Hu Hc Hp. unfold nonfile_input in Hc.
  destruct (parse_scheme CUrlParser (input_new_trim_c0 input)) as [[sch rem]|] eqn:Hs; [|discriminate].
  destruct (scheme_type_of sch) eqn:Hst; [discriminate| |].
  - (* special non-file *)
    assert (special_input input = true) as Hsi by (unfold special_input; rewrite Hs, Hst; reflexivity).
    destruct (L1_special dbg hp hpo hd HRT input u HAb Hu Hsi Hp) as (C & W & A & _).
    split; [exact (L3_special dbg hp hpo hd HRT u C) | split; assumption].
  - destruct (inp_split_prefix_char 47 rem) as [rem'|] eqn:E47.
    + destruct (inp_split_prefix_str s_ss rem) as [rem''|] eqn:Ess.
      * (* authority *)
        assert (auth_input input = true) as Hai by (unfold auth_input; rewrite Hs, Hst, Ess; reflexivity).
        destruct (L1_auth dbg hp hpo hd HRT None input u HAb Hu Hai Hp) as (C & W & A & _).
        split; [exact (L3_auth dbg hp hpo hd HRT u C) | split; assumption].
      * (* no authority, '/'-led path *)
        destruct (parse_noauth_out dbg hp hpo hd None input sch rem rem' u Hu Hs Hst Ess E47 Hp) as (segs & last & q & f & K & ->).
        destruct (noauth_url_wf sch segs last q f K) as (W & _ & A).
        split; [|split; [exact W | exact A]].
        unfold Fixpoint_of_reparse, reparse. cbn [ser noauth_url]. rewrite utf8_lossy_ascii by exact A.
        exact (reparse_noauth_form dbg hp hpo hd None sch segs last q f K).
    + (* opaque path *)
      destruct (parse_opaque_out dbg hp hpo hd None input sch rem u Hu Hs Hst E47 Hp) as (P & q & f & K & ->).
      pose proof (opaque_ser_ascii sch P q f K) as A.
      split; [|split; [exact (opaque_url_wf sch P q f K) | exact A]].
      unfold Fixpoint_of_reparse, reparse. cbn [ser opaque_url]. rewrite utf8_lossy_ascii by exact A.
      exact (reparse_opaque_form dbg hp hpo hd None sch P q f K).
Qed.

Theorem reparse_nonfile_HostOK dbg hp hpo hd input u :
  HostOK hp hpo hd -> host_above hp hpo hd -> usv_list input -> nonfile_input input = true ->
  parse_url dbg hp hpo hd None None input = POk u ->
  Fixpoint_of_reparse dbg hp hpo hd u /\ wf_b u = true /\ ascii (ser u).
Proof. intros HOK. exact (reparse_nonfile dbg hp hpo hd input u (HostOK_RT _ _ _ HOK)). Qed.

Lemma nonfile_examples :
  nonfile_input (B "about:blank") = true /\ nonfile_input (B "a:/x/../y") = true /\ nonfile_input (B "a://u@h:1/") = true
  /\ nonfile_input (B "HTTPS:\h") = true /\ nonfile_input (B "file:///x") = false /\ nonfile_input (B "/relative") = false.
Proof. vm_compute. repeat split. Qed.
