(* Proofs/C01_EqSpPath.v - C01 equivalence, special non-file schemes: the path loop of parser.rs with
   '\' as a second separator computes exactly the Standard's segment list (`spath_s`), unless a ".."
   meets a drive-letter-shaped last segment (finding F-C01-9: `spath_ok_s` computes that on the
   Standard's own state); parse_path_start for a special URL. *)
From RU Require Import Base.Prelude Base.Utf8 Base.Utf8Facts Model.AsciiSet Gen.Tables
  Model.PercentEncoding Model.HostT Model.UrlRecord Model.Parser Model.Setters Model.WF Spec.Whatwg
  Proofs.ListN Proofs.C14_Set Proofs.C14_Enc Proofs.C14_Views Proofs.C02_Enc Proofs.C02_Parts
  Proofs.C02_Opaque Proofs.C02_Path Proofs.C02_PathL1 Proofs.C02_PathSp Proofs.C03_WF Proofs.C01_Tables Proofs.C08_Input
  Proofs.C01_EqRun Proofs.C01_EqEnc Proofs.C01_EqApi Proofs.C01_EqOpaque Proofs.C01_EqDots Proofs.C01_EqPathSpec
  Proofs.C06_Steps Proofs.C01_EqRef Proofs.C01_EqPath Proofs.C01_EqAuthSpec Proofs.C01_EqAuthModel Proofs.C01_EqSpSpec.

(* ================= finish_segment, exactly (special non-file scheme) ================= *)
Section FinishExactS.
Variable pre : list N.
Variable dbg : bool.
Notation ps := (nlen pre).
Notation BsP := (Bs pre).

Lemma finish_exact_s segs cur (ews : bool) hh :
  forallb no_slash segs = true -> fin_ok segs cur = true ->
  finish_segment dbg STSpecialNotFile ps (BsP segs ++ cur ++ (if ews then [47] else [])) (nlen (BsP segs)) ews hh
  = POk (BsP (fst (fin_step segs cur ews)) ++ snd (fin_step segs cur ews), hh).
Proof.
  intros Hsegs Hok. unfold fin_step, fin_ok in *. rewrite <- double_dot_agree in *. rewrite <- single_dot_agree.
  set (s1 := BsP segs ++ cur ++ (if ews then [47] else [])).
  assert (slice_o s1 (nlen (BsP segs)) (if ews then nlen s1 - 1 else nlen s1) = Some cur) as Hslice.
  { unfold s1. destruct ews.
    - rewrite !nlen_app. replace (nlen (BsP segs) + (nlen cur + nlen [47]) - 1) with (nlen (BsP segs) + nlen cur) by (unfold nlen; cbn [length]; lia).
      apply slice_mid.
    - rewrite !nlen_app. replace (nlen (BsP segs) + (nlen cur + nlen [])) with (nlen (BsP segs) + nlen cur) by (unfold nlen; cbn [length]; lia).
      apply slice_mid. }
  assert (truncate s1 (nlen (BsP segs)) = BsP segs) as Htr by (unfold truncate, s1; apply nfirstn_app_len).
  destruct (Bs_ends pre segs) as [X EX].
  assert (ends_with_byte 47 (BsP segs) = true) as Hends by (rewrite EX; apply ends_with_byte_snoc).
  unfold finish_segment. rewrite Hslice. cbn [of_option pbind].
  destruct (is_double_dot cur) eqn:Edd.
  - (* double dot *)
    cbn [andb] in Hok. apply negb_true_iff in Hok.
    assert ((if dbg then match (if 1 <=? nlen (BsP segs) then nnth s1 (nlen (BsP segs) - 1) else None) with
                         | Some b => passert (b =? 47) | None => PPanic end else POk tt) = POk tt) as Hdbg.
    { destruct dbg; [|reflexivity]. pose proof (Bs_len_ge pre segs) as Hl.
      replace (1 <=? nlen (BsP segs)) with true by lia.
      unfold s1. rewrite nnth_app_l by lia. rewrite EX. rewrite nlen_app.
      replace (nlen X + nlen [47] - 1) with (nlen X) by (unfold nlen; cbn [length]; lia).
      rewrite nnth_app_last. reflexivity. }
    rewrite Hdbg. cbn [pbind fst snd]. rewrite Htr, Hends. cbn [andb].
    unfold last_is_wdl in Hok.
    destruct (rev segs) as [|t r] eqn:Er.
    + (* no segment yet: nothing to pop *)
      assert (segs = []) as -> by (rewrite <- (rev_involutive segs), Er; reflexivity).
      assert (BsP [] = pre ++ [47]) as EB by (unfold Bs; cbn; apply app_nil_r).
      assert (last_slash_can_be_removed (BsP []) ps = false) as Hl.
      { unfold last_slash_can_be_removed. rewrite EB. rewrite nlen_app.
        replace (ps + nlen [47] - 1) with ps by (unfold nlen; cbn [length]; lia).
        rewrite nfirstn_app_len. destruct (rfind 47 pre) as [p|] eqn:Ep; [|reflexivity].
        apply rfind_lt in Ep. replace (ps <=? p) with false by lia. reflexivity. }
      rewrite Hl.
      assert (Parser.shorten_path STSpecialNotFile ps (BsP []) = POk (BsP [])) as Hsh.
      { unfold Parser.shorten_path, pop_path. rewrite EB. rewrite nlen_app.
        replace (ps + nlen [47] =? ps) with false by (unfold nlen; cbn [length]; lia).
        cbn [st_is_file andb]. replace (ps <? ps + nlen [47]) with true by (unfold nlen; cbn [length]; lia).
        rewrite nskipn_app_len. change (rfind 47 [47]) with (rfind 47 ([] ++ 47 :: [])). rewrite (rfind_app_last 47 [] []) by reflexivity. unfold truncate.
        replace (ps + nlen [] + 1) with (nlen (pre ++ [47])) by (rewrite nlen_app; unfold nlen; cbn [length]; lia).
        rewrite nfirstn_all by lia. reflexivity. }
      rewrite Hsh. cbn [pbind]. rewrite Hends. rewrite andb_false_r. cbn [removelast]. rewrite app_nil_r. reflexivity.
    + assert (segs = rev r ++ [t]) as Es by (rewrite <- (rev_involutive segs), Er; reflexivity).
      set (segs0 := rev r) in *. rewrite Es in *. rewrite forallb_snoc in Hsegs.
      apply andb_true_iff in Hsegs. destruct Hsegs as [Hsegs0 Htn].
      rewrite removelast_last.
      destruct (Bs_ends pre segs0) as [X0 EX0].
      pose proof (Bs_len_ge pre segs0) as Hl0.
      assert (rfind 47 (nfirstn (nlen (BsP (segs0 ++ [t])) - 1) (BsP (segs0 ++ [t]))) = Some (nlen X0)) as Hrf.
      { rewrite Bs_snoc. rewrite !nlen_app.
        replace (nlen (BsP segs0) + (nlen t + nlen [47]) - 1) with (nlen (BsP segs0 ++ t)) by (rewrite nlen_app; unfold nlen; cbn [length]; lia).
        rewrite app_assoc. rewrite nfirstn_app_len. rewrite EX0. rewrite <- app_assoc. cbn [app].
        apply rfind_app_last. rewrite <- no_slash_no_byte. exact Htn. }
      assert (nlen (BsP segs0) = nlen X0 + 1) as EL0 by (rewrite EX0, nlen_app; reflexivity).
      unfold last_slash_can_be_removed. rewrite Hrf. replace (ps <=? nlen X0) with true by lia. cbn [andb].
      assert (nskipn (nlen X0) (BsP (segs0 ++ [t])) = 47 :: t ++ [47]) as Hsk.
      { rewrite Bs_snoc, EX0. rewrite <- !app_assoc. rewrite nskipn_app_len. reflexivity. }
      rewrite Hsk.
      assert (path_starts_with_wdl (47 :: t ++ [47]) = false) as Ew.
      { unfold path_starts_with_wdl. cbn [is_path_end]. replace (47 =? 47) with true by reflexivity. cbn [orb andb]. exact Hok. }
      rewrite Ew. cbn [negb].
      assert (nfirstn (nlen (BsP (segs0 ++ [t])) - 1) (BsP (segs0 ++ [t])) = BsP segs0 ++ t) as Hcut.
      { rewrite Bs_snoc. rewrite !nlen_app.
        replace (nlen (BsP segs0) + (nlen t + nlen [47]) - 1) with (nlen (BsP segs0 ++ t)) by (rewrite nlen_app; unfold nlen; cbn [length]; lia).
        rewrite app_assoc. apply nfirstn_app_len. }
      rewrite Hcut.
      assert (Parser.shorten_path STSpecialNotFile ps (BsP segs0 ++ t) = POk (BsP segs0)) as Hsh.
      { unfold Parser.shorten_path, pop_path. rewrite nlen_app.
        replace (nlen (BsP segs0) + nlen t =? ps) with false by lia. cbn [st_is_file andb].
        replace (ps <? nlen (BsP segs0) + nlen t) with true by lia.
        assert (exists Y, nskipn ps (BsP segs0 ++ t) = Y ++ 47 :: t /\ ps + nlen Y + 1 = nlen (BsP segs0)) as (Y & EY & ELY).
        { unfold Bs. rewrite <- !app_assoc. rewrite nskipn_app_len.
          destruct (rev segs0) as [|t1 r1] eqn:Er0.
          - assert (segs0 = []) as E0 by (rewrite <- (rev_involutive segs0), Er0; reflexivity). rewrite E0.
            exists []. cbn. split; [reflexivity|]. unfold nlen. rewrite !app_length. cbn [length]. lia.
          - assert (segs0 = rev r1 ++ [t1]) as E0 by (rewrite <- (rev_involutive segs0), Er0; reflexivity). rewrite E0.
            rewrite segs_text_snoc. exists ([47] ++ segs_text (rev r1) ++ t1). split.
            + rewrite <- !app_assoc. reflexivity.
            + len_lia. }
        rewrite EY. rewrite (rfind_app_last 47 Y t) by (rewrite <- no_slash_no_byte; exact Htn).
        unfold truncate. rewrite ELY. rewrite nfirstn_app_len. reflexivity. }
      rewrite Hsh. cbn [pbind]. rewrite EX0. rewrite ends_with_byte_snoc. rewrite andb_false_r. rewrite <- EX0.
      rewrite app_nil_r. reflexivity.
  - destruct (is_single_dot cur) eqn:Esd.
    + rewrite Htr, Hends. cbn [fst snd]. rewrite app_nil_r. reflexivity.
    + cbn [st_is_file andb]. unfold s1. destruct ews; cbn [fst snd].
      * rewrite app_nil_r, Bs_snoc. reflexivity.
      * rewrite app_nil_r. reflexivity.
Qed.

End FinishExactS.

(* ================= the path loop, exactly ================= *)
(* no ".." of the text meets a drive-letter-shaped last segment (computed on the Standard's state) *)
Fixpoint spath_ok_s (t : list N) (P : list (list N)) (B : list N) : bool :=
  match t with
  | [] => fin_ok P B
  | c :: r => if is_sl c then fin_ok P B && spath_ok_s r (fin P B true) []
              else if is_qh c then fin_ok P B
              else spath_ok_s r P (B ++ utf8_percent_encode_cp in_path_set c)
  end.

Section LoopExactS.
Variable pre : list N.
Variable dbg : bool.
Notation ps := (nlen pre).
Notation loop := (parse_path_loop dbg CUrlParser STSpecialNotFile ps).
Notation BsP := (Bs pre).
Notation enc pend := (encode T_PATH (utf8_encode (rev pend))).

Theorem loop_exact_s l : forall segs cur pend hh, usv_list l -> pend_ok pend ->
  forallb no_slash segs = true -> no_slash cur = true ->
  spath_ok_s (ntnl l) segs (cur ++ enc pend) = true ->
  exists segs' last',
    loop l (BsP segs ++ cur) (nlen (BsP segs)) pend hh = POk (BsP segs' ++ last', hh, cbb_rest l)
    /\ fst (spath_s (ntnl l) segs (cur ++ enc pend)) = segs' ++ [last']
    /\ snd (spath_s (ntnl l) segs (cur ++ enc pend)) = ntnl (cbb_rest l).
Proof.
  assert (forall l0 segs cur pend hh,
            match l0 with [] => True | c :: _ => C02_Parts.is_qh c = true /\ is_tnl c = false end ->
            pend_ok pend -> forallb no_slash segs = true -> no_slash cur = true ->
            fin_ok segs (cur ++ enc pend) = true ->
            loop l0 (BsP segs ++ cur) (nlen (BsP segs)) pend hh
            = POk (BsP (fst (fin_step segs (cur ++ enc pend) false)) ++ snd (fin_step segs (cur ++ enc pend) false), hh, l0)) as Hend.
  { intros l0 segs cur pend hh Hl Hp Hsegs Hn Hok.
    rewrite loop_end_sp by exact Hl. rewrite push_pending_shape_sp by (destruct Hp; assumption).
    pose proof (finish_exact_s pre dbg segs (cur ++ enc pend) false hh Hsegs Hok) as Hf.
    rewrite app_nil_r in Hf. rewrite Hf. reflexivity. }
  (* a separator: '/' or '\' *)
  assert (forall r segs cur pend hh, pend_ok pend -> forallb no_slash segs = true -> no_slash cur = true ->
            fin_ok segs (cur ++ enc pend) = true ->
            (' (s2, hh') <~ finish_segment dbg STSpecialNotFile ps
                              (push_pending CUrlParser STSpecialNotFile (BsP segs ++ cur) pend ++ [47]) (nlen (BsP segs)) true hh ;;
             loop r s2 (nlen s2) [] hh')
            = loop r (BsP (fin segs (cur ++ enc pend) true) ++ []) (nlen (BsP (fin segs (cur ++ enc pend) true))) [] hh
              /\ forallb no_slash (fin segs (cur ++ enc pend) true) = true) as Hsep.
  { intros r segs cur pend hh Hp Hsegs Hn Hok1.
    rewrite push_pending_shape_sp by (destruct Hp; assumption).
    assert (no_slash (cur ++ enc pend) = true) as Hn'.
    { rewrite no_slash_app, Hn, (enc_no_slash pend Hp). reflexivity. }
    pose proof (finish_exact_s pre dbg segs (cur ++ enc pend) true hh Hsegs Hok1) as Hf.
    rewrite <- app_assoc. rewrite Hf. cbn [pbind]. rewrite fin_step_sep_last, app_nil_r.
    destruct (fin_step_no_slash segs (cur ++ enc pend) true Hsegs Hn') as [Hs1 _].
    rewrite fin_of_step. split; [rewrite app_nil_r; reflexivity | exact Hs1]. }
  induction l as [|c r IH]; intros segs cur pend hh Hu Hp Hsegs Hn Hok.
  - cbn [ntnl filter spath_ok_s spath_s fst snd cbb_rest] in *.
    eexists. eexists. split; [apply (Hend [] segs cur pend hh I Hp Hsegs Hn Hok)|].
    split; [apply fin_of_step | reflexivity].
  - apply usv_cons in Hu. destruct Hu as [Huc Hur]. cbn [cbb_rest].
    destruct (is_tnl c) eqn:Et.
    + rewrite ntnl_cons_tnl in * by exact Et.
      rewrite loop_cons_tnl_sp by exact Et. rewrite push_pending_shape_sp by (destruct Hp; assumption).
      assert (pend_ok []) as Hp0 by (split; [constructor | reflexivity]).
      assert (no_slash (cur ++ enc pend) = true) as Hn'.
      { rewrite no_slash_app, Hn, (enc_no_slash pend Hp). reflexivity. }
      assert ((cur ++ enc pend) ++ enc [] = cur ++ enc pend) as E0 by (cbn; apply app_nil_r).
      destruct (IH segs (cur ++ enc pend) [] hh Hur Hp0 Hsegs Hn') as (segs' & last' & G1 & G2 & G3).
      { rewrite E0. exact Hok. }
      rewrite E0 in G2, G3. exists segs', last'. split; [exact G1 | split; assumption].
    + rewrite ntnl_cons in * by exact Et.
      destruct (C02_Parts.is_qh c) eqn:Eq.
      * assert (is_sl c = false) as Esl by (unfold C02_Parts.is_qh in Eq; unfold is_sl; lia).
        cbn [spath_ok_s spath_s] in *. rewrite Esl in *. change (is_qh c) with (C02_Parts.is_qh c) in *. rewrite Eq in *.
        cbn [fst snd].
        eexists. eexists. split; [apply (Hend (c :: r) segs cur pend hh (conj Eq Et) Hp Hsegs Hn Hok)|].
        split; [apply fin_of_step|]. rewrite ntnl_cons by exact Et. reflexivity.
      * destruct (is_sl c) eqn:Esl.
        -- cbn [spath_ok_s spath_s] in *. rewrite Esl in *.
           apply andb_true_iff in Hok. destruct Hok as [Hok1 Hok2].
           assert (pend_ok []) as Hp0 by (split; [constructor | reflexivity]).
           destruct (Hsep r segs cur pend hh Hp Hsegs Hn Hok1) as [Es Hs1].
           assert (loop (c :: r) (BsP segs ++ cur) (nlen (BsP segs)) pend hh
                   = loop r (BsP (fin segs (cur ++ enc pend) true) ++ []) (nlen (BsP (fin segs (cur ++ enc pend) true))) [] hh) as ->.
           { unfold is_sl in Esl. destruct (c =? 47) eqn:E47.
             - apply N.eqb_eq in E47. subst c. rewrite loop_cons_slash_sp. exact Es.
             - cbn [orb] in Esl. apply N.eqb_eq in Esl. subst c. rewrite loop_cons_bslash_sp. exact Es. }
           destruct (IH (fin segs (cur ++ enc pend) true) [] [] hh Hur Hp0 Hs1 eq_refl) as (segs' & last' & G1 & G2 & G3).
           { exact Hok2. }
           exists segs', last'. split; [exact G1 | split; assumption].
        -- cbn [spath_ok_s spath_s] in *. rewrite Esl in *. change (is_qh c) with (C02_Parts.is_qh c) in *. rewrite Eq in *.
           unfold is_sl in Esl. apply orb_false_iff in Esl. destruct Esl as [E47 E92].
           rewrite loop_cons_plain_sp by assumption.
           assert (pend_ok (c :: pend)) as Hp'.
           { destruct Hp as [Hp1 Hp2]. split; [apply usv_cons; split; assumption|].
             unfold no_byte in *. cbn [forallb]. rewrite E47, Hp2. reflexivity. }
           rewrite <- app_assoc, <- enc_snoc in *.
           exact (IH segs cur (c :: pend) hh Hur Hp' Hsegs Hn Hok).
Qed.

End LoopExactS.

(* ================= neither '?' nor '#' inside the Standard's segments ================= *)
Definition no_qh (s : list N) : bool := forallb (fun c => negb ((c =? 63) || (c =? 35))) s.

Lemma hex_upper_ge48' d : 48 <= hex_upper d.
Proof. unfold hex_upper. destruct (d <? 10); lia. Qed.

Lemma hex_upper_not_qh d : negb ((hex_upper d =? 63) || (hex_upper d =? 35)) = true.
Proof. unfold hex_upper. destruct (d <? 10) eqn:E; lia. Qed.

Lemma upe_cp_no_qh c : is_qh c = false -> no_qh (utf8_percent_encode_cp in_path_set c) = true.
Proof.
  intros H. unfold utf8_percent_encode_cp, no_qh. destruct (in_path_set c).
  - apply forallb_flat_map. intros b. unfold percent_encode_byte. cbn [forallb].
    rewrite !hex_upper_not_qh. reflexivity.
  - cbn [forallb]. unfold is_qh in H. rewrite H. reflexivity.
Qed.

Lemma fin_no_qh P B sep : forallb no_qh P = true -> no_qh B = true -> forallb no_qh (fin P B sep) = true.
Proof.
  intros HP HB. unfold fin.
  assert (forallb no_qh (removelast P) = true) as HR.
  { rewrite forallb_forall in *. intros x Hx. apply HP. destruct P as [|p0 P]; [destruct Hx|].
    assert (p0 :: P <> []) as Hne by discriminate.
    rewrite (app_removelast_last [] Hne). apply in_or_app. left. exact Hx. }
  destruct (is_double_dot_segment B); [destruct sep; [exact HR | rewrite forallb_app, HR; reflexivity]|].
  destruct (is_single_dot_segment B); [destruct sep; [exact HP | rewrite forallb_app, HP; reflexivity]|].
  rewrite forallb_app, HP. cbn [forallb]. rewrite HB. reflexivity.
Qed.

Lemma spath_s_no_qh t : forall P B, forallb no_qh P = true -> no_qh B = true ->
  forallb no_qh (fst (spath_s t P B)) = true.
Proof.
  induction t as [|c r IH]; intros P B HP HB; cbn [spath_s].
  - cbn [fst]. apply fin_no_qh; assumption.
  - destruct (is_sl c) eqn:Esl; [apply IH; [apply fin_no_qh; assumption | reflexivity]|].
    destruct (is_qh c) eqn:Eq; [cbn [fst]; apply fin_no_qh; assumption|].
    apply IH; [exact HP|]. unfold no_qh in *. rewrite forallb_app, HB. cbn [andb]. apply upe_cp_no_qh. exact Eq.
Qed.

Lemma upe_cp_no_slash_s c : (c =? 47) = false -> no_slash (utf8_percent_encode_cp in_path_set c) = true.
Proof. exact (upe_cp_no_slash c). Qed.

Lemma spath_s_no_slash t : forall P B, forallb no_slash P = true -> no_slash B = true ->
  forallb no_slash (fst (spath_s t P B)) = true.
Proof.
  induction t as [|c r IH]; intros P B HP HB; cbn [spath_s].
  - cbn [fst]. apply fin_no_slash; assumption.
  - destruct (is_sl c) eqn:Esl; [apply IH; [apply fin_no_slash; assumption | reflexivity]|].
    destruct (is_qh c); [cbn [fst]; apply fin_no_slash; assumption|].
    apply IH; [exact HP|]. unfold no_slash in *. rewrite forallb_app, HB. cbn [andb]. apply upe_cp_no_slash.
    unfold is_sl in Esl. apply orb_false_iff in Esl. tauto.
Qed.

Lemma flat_no_qh (segs : list (list N)) : forallb no_qh segs = true ->
  forallb (fun c => negb ((c =? 63) || (c =? 35))) (flat_map (fun s => 47 :: s) segs) = true.
Proof.
  induction segs as [|s segs IH]; intros H; [reflexivity|]. cbn [forallb] in H. apply andb_true_iff in H. destruct H as [H1 H2].
  cbn [flat_map app forallb]. rewrite forallb_app. unfold no_qh in H1. rewrite H1, (IH H2). reflexivity.
Qed.

(* what follows the path: the model's (query, fragment) pair is the Standard's tail, special-query set *)
Lemma tail_url_sp u l :
  is_special u = true -> su_query u = None -> su_fragment u = None ->
  match l with [] => True | c :: _ => C02_Parts.is_qh c = true /\ is_tnl c = false end ->
  tail_url u (ntnl l)
  = set_fragment (set_query u (pqf_q STSpecialNotFile l)) (pqf_f l).
Proof.
  intros Hsp Hq Hf Hh. unfold pqf_q, pqf_f.
  destruct l as [|c r].
  - cbn. destruct u; cbn in *. subst. reflexivity.
  - destruct Hh as [Hqh Ht]. rewrite inp_next_cons by exact Ht. rewrite ntnl_cons by exact Ht.
    cbn [tail_url]. destruct (c =? 63) eqn:E63.
    + assert ((c =? 35) = false) as E35 by lia. rewrite E35.
      unfold query_final, qset_of, is_special. cbn [su_scheme set_query app]. fold (is_special u). rewrite Hsp.
      rewrite (query_of_upe_sp STSpecialNotFile r eq_refl). rewrite <- after_hash_ntnl.
      destruct (query_rest true r) as [r2|]; cbn [option_map frag_opt].
      * rewrite frag_of_upe. destruct u; reflexivity.
      * destruct u; cbn in *; subst; reflexivity.
    + unfold C02_Parts.is_qh in Hqh. rewrite E63 in Hqh. cbn [orb] in Hqh. rewrite Hqh.
      rewrite frag_of_upe. destruct u; cbn in *; subst; reflexivity.
Qed.

(* ================= path start ================= *)
Section PathStartS.
Variable dbg : bool.

Lemma is_sl_model c : is_slash_or_bslash c = is_sl c.
Proof. reflexivity. Qed.

Theorem path_start_spec_s rem ser hh : usv_list rem -> ends_with_byte 47 ser = false ->
  spath_ok_s (path_text_s (ntnl rem)) [] [] = true ->
  exists segs rest,
    parse_path_start dbg CUrlParser STSpecialNotFile hh ser rem = POk (ser ++ flat_map (fun s => 47 :: s) segs, hh, rest)
    /\ usv_list rest
    /\ forallb (fun c => negb ((c =? 63) || (c =? 35))) (flat_map (fun s => 47 :: s) segs) = true
    /\ forallb no_slash segs = true /\ segs <> []
    /\ (forall u, su_path u = SPList [] -> is_special u = true -> su_query u = None -> su_fragment u = None ->
          sauth_tail_s u (ntnl rem) = set_fragment (set_query (set_path u (SPList segs)) (pqf_q STSpecialNotFile rest)) (pqf_f rest))
    /\ match ntnl rest with [] => True | c :: _ => is_qh c = true end.
Proof.
  intros Hu He Hok.
  (* the input the path loop runs on *)
  assert (exists l', parse_path_start dbg CUrlParser STSpecialNotFile hh ser rem
                     = parse_path dbg CUrlParser STSpecialNotFile hh (nlen ser) (ser ++ [47]) l'
                     /\ ntnl l' = path_text_s (ntnl rem) /\ usv_list l') as (l' & Epp & Hl' & Hul').
  { unfold parse_path_start, inp_split_first. cbn [st_is_special]. rewrite He. cbn [negb].
    destruct (ntnl rem) as [|c t] eqn:Ent.
    - rewrite (inp_next_none rem Ent). exists rem. split; [reflexivity|]. split; [rewrite Ent; reflexivity | exact Hu].
    - destruct (inp_next_some rem c t Ent) as (r' & En & Hr' & Et). rewrite En.
      pose proof (inp_next_usv rem c r' Hu En) as Hur'. cbn [path_text_s]. rewrite is_sl_model.
      destruct (is_sl c).
      + exists r'. split; [reflexivity|]. split; [exact Hr' | exact Hur'].
      + exists rem. split; [reflexivity|]. split; [exact Ent | exact Hu]. }
  rewrite Epp. unfold parse_path.
  assert (pend_ok []) as Hp0 by (split; [constructor | reflexivity]).
  assert (Bs ser [] = ser ++ [47]) as EB by (unfold Bs; cbn; rewrite !app_nil_r; reflexivity).
  rewrite <- Hl' in Hok.
  destruct (loop_exact_s ser dbg l' [] [] [] hh Hul' Hp0 eq_refl eq_refl Hok) as (segs & last & Hloop & Hfst & Hsnd).
  cbn [app rev utf8_encode flat_map encode] in Hfst, Hsnd.
  rewrite app_nil_r, EB in Hloop. rewrite Hloop.
  exists (segs ++ [last]), (cbb_rest l').
  split.
  { f_equal. f_equal. f_equal. rewrite path_text_flat. unfold Bs, path_text. rewrite <- !app_assoc. reflexivity. }
  split; [apply usv_cbb_rest; exact Hul'|].
  split; [apply flat_no_qh; rewrite <- Hfst; apply spath_s_no_qh; reflexivity|].
  split; [rewrite <- Hfst; apply spath_s_no_slash; reflexivity|].
  split; [intros K; apply app_eq_nil in K; destruct K as [_ K]; discriminate K|].
  split.
  2:{ pose proof (cbb_rest_head l') as Hh. destruct (cbb_rest l') as [|d dr]; [exact I|]. destruct Hh as [Hh1 Hh2].
      rewrite ntnl_cons by exact Hh2. exact Hh1. }
  intros u HP Hspu Hq Hf. unfold sauth_tail_s. rewrite <- Hl'. rewrite Hfst, Hsnd.
  apply tail_url_sp; [exact Hspu | exact Hq | exact Hf | apply cbb_rest_head].
Qed.

End PathStartS.
