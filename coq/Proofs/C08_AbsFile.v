(* Proofs/C08_AbsFile.v - the absolute law for the records of C02's histories ReachC7 (Proofs/C02_Reach8.v), file
   records included: every ReachC7 record is CanonF = Canon (the four non-file canonical forms; C08_Reach.absolute_Canon)
   or FileCanon (the fifth form, "file://" [host] path [?q][#f]); a FileCanon record is a fixpoint of re-parsing
   (C02_FileCanon.FileCanon_fixpoint) and its text "file" "://" ... has the shape abs_shape whatever follows
   (C08_Absolute.abs_shape_slashes_any), so the base is never consulted. *)
From Coq Require Import String.
From RU Require Import Base.Prelude Base.Utf8 Base.Utf8Facts Model.AsciiSet Gen.Tables Model.PercentEncoding
  Model.HostT Model.Host Model.UrlRecord Model.Parser Model.Setters Model.WF
  Proofs.ListN Proofs.C02_Parts Proofs.C02_Opaque Proofs.C02_Path Proofs.C02_Reach Proofs.C02_AuthParts Proofs.C02_Hist Proofs.C02_Canon Proofs.C02_SetQF
  Proofs.C02_SetHostCanon Proofs.C02_Reach4 Proofs.C02_Reach6 Proofs.C02_HistInst Proofs.C09_Host
  Proofs.C02_File Proofs.C02_FileCanon Proofs.C02_FileHost Proofs.C02_FileParse Proofs.C02_Reach8
  Proofs.C08_Absolute Proofs.C08_Reach.
Open Scope N_scope.
Open Scope list_scope.

Section AbsFile.
Variable dbg : bool.
Variable hp hpo : list N -> result host.
Variable hd : host -> list N.
Hypothesis HOK : HostOK2 hp hpo hd.

(* the text of a canonical file record is "file" "://" rest *)
Lemma file_curl_text ho T q f :
  ser (file_curl hd ho T q f) = s_file ++ 58 :: 47 :: 47 :: (fhost_text hd ho ++ T ++ qf_text q f).
Proof.
  unfold file_curl, qf_url. cbn [ser]. unfold file_pre, file_front, s_file_css, s_css. rewrite <- !app_assoc. reflexivity.
Qed.

(* a canonical file record resolves to itself against EVERY base record *)
Theorem absolute_FileCanon u b : FileCanon hp hd u ->
  parse_url dbg hp hpo hd None (Some b) (utf8_lossy (ser u)) = POk u.
Proof using HOK.
  intros C. destruct (FileCanon_fixpoint dbg hp hpo hd (proj1 HOK) u C) as (Hfix & _ & Hasc).
  destruct C as [ho segs last q f K].
  apply (absolute_of_reparse_auth dbg hp hpo hd b _ s_file (fhost_text hd ho ++ path_text segs last ++ qf_text q f) Hfix).
  - rewrite utf8_lossy_ascii by exact Hasc. apply file_curl_text.
  - reflexivity.
Qed.

(* ... hence every record of one of the five canonical forms *)
Theorem absolute_CanonF u b : CanonF hp hpo hd u ->
  parse_url dbg hp hpo hd None (Some b) (utf8_lossy (ser u)) = POk u.
Proof using HOK.
  intros [C|C]; [exact (absolute_Canon dbg hp hpo hd HOK u b C) | exact (absolute_FileCanon u b C)].
Qed.

Hypothesis HNE : host_nonempty hp hpo.
Hypothesis HW : host_no_wdl hp hd.

(* ... hence every record of a ReachC7 history *)
Theorem absolute_reach7 u b : ReachC7 dbg hp hpo hd u ->
  parse_url dbg hp hpo hd None (Some b) (utf8_lossy (ser u)) = POk u.
Proof using HOK HNE HW.
  intros R. exact (absolute_CanonF u b (ReachC7_CanonF dbg hp hpo hd HOK HNE HW u R)).
Qed.
End AbsFile.

(* on the parser model linked with the host model: relative to IdnaOK only *)
Theorem absolute_reach7_model dbg idna : IdnaOK idna -> forall u b,
  ReachC7 dbg (host_parse idna) host_parse_opaque host_display u ->
  parse_url dbg (host_parse idna) host_parse_opaque host_display None (Some b) (utf8_lossy (ser u)) = POk u.
Proof.
  intros OK u b.
  exact (absolute_reach7 dbg _ _ _ (HostOK2_model idna OK) (host_nonempty_model idna) (host_no_wdl_model idna OK) u b).
Qed.

(* non-vacuity on the host model (idna_clean): file records of the three entries of parse_file, after setters and a tail
   join, resolve to themselves against a special, a file, an opaque base *)
Definition m_abs (o : option url) (bs : string) : bool :=
  match o, parse_url true mhp host_parse_opaque host_display None None (B bs) with
  | Some u, POk b =>
      is_file u && negb (Known_file_drive u)
      && match parse_url true mhp host_parse_opaque host_display None (Some b) (utf8_lossy (ser u)) with
         | POk v => url_eqb v u | _ => false end
  | _, _ => false
  end.

Example abs_reach7_example :
  m_abs (m_parse "file://h.x/a/../b c?q#f") "http://other/dir/file?x#y" = true
  /\ m_abs (m_parse "file://localhost/x\y") "file://host/c:/z" = true
  /\ m_abs (m_parse "file:x") "mailto:a@b" = true
  /\ m_abs (m_hist "file:///a/b" [OSetFragment (Some (B "z")); OSetQuery (Some (B "k v"))]) "file:///q" = true
  /\ m_abs (C02_Reach6.m_join "file://h.x/a/b?q#f" "?k") "a://h/p" = true.
Proof. vm_compute. repeat split. Qed.
