(* Proofs/C09_LongWit.v - F-C10-1 executed on the linked models (witnesses for C09 and C02), and what IdnaOK2 amounts
   to for the IDNA model.

   1. URL level, stand-in oracle idna_long (Proofs/C09_Long.v): Url::parse("http://x/") succeeds with a host in the
      class, and parsing its serialization fails with IdnaError - C02 (re-parse fixpoint) is violated on a plain parse
      result, the premise run_clean of the C09_inst2 theorems is necessary.
   2. The same on the IDNA MODEL (Model/Uts46.v, called as host.rs calls it: URL deny list) with the lower-casing
      adapter of Proofs/Idna_C10b_Long.v: the host of 1000 ideographs U+4E00 + 20*i is accepted as a 2962-byte domain
      that Host::parse rejects; http://<the 1000 ideographs>/ parses and its serialization (2970 bytes) does not.
      Confirmed on the crates: Url::parse(u.as_str()) = Err(IdnaError), Host::parse(host_str) = Err.
   3. For EVERY adapter: an answer of the IDNA model inside the class is never a fixed point, so IdnaOK (idna_of A cfg)
      fails as soon as the class is reached.
   4. IdnaOK2 (idna_of A cfg) follows from the output statement of C10, idempotence OUTSIDE the class (what
      C10_idem_statement2 claims) and the dotted-decimal clause. *)
From Coq Require Import String.
From RU Require Import Base.Prelude Base.Utf8 Base.U32_c13 Gen.Tables Model.Punycode Model.Uts46
  Proofs.Idna_Sim Proofs.Idna_Api Proofs.Idna_Known Proofs.Idna_Hyp Proofs.Idna_C10b_Long Proofs.Idna_C10b_LongRej
  Proofs.Idna_C10b_Stmt Proofs.Idna_C10_Inner.
From RU Require Import Model.HostT Model.Host Model.UrlRecord Model.Parser Proofs.C09_Host Proofs.C09_InstIdna
  Proofs.C09_Long Proofs.C09_LongRun Proofs.C02_Reach Proofs.C02_AuthMain.

Local Notation HOk := HostT.Ok.
Local Notation HErr := HostT.Err.

(* ---------------------------------------------------------------- 1. URL level, stand-in oracle *)
Notation lparse idna s := (parse_url true (host_parse idna) host_parse_opaque host_display None None s) (only parsing).

Definition wl_dummy : url := mkUrl [] 0 0 0 0 HI_None None 0 None None.
Definition wl_input : list N := B "http://x/".
Definition url_of (r : pres url) : url := match r with POk u => u | _ => wl_dummy end.
Definition wl_u : url := Eval vm_compute in url_of (lparse idna_long wl_input).

Theorem url_long_refuted :
  lparse idna_long wl_input = POk wl_u
  /\ ser wl_u = (B "http://" ++ W_long_label ++ [47])%list
  /\ nonfile_input wl_input = true /\ special_input wl_input = true
  /\ lparse idna_long (utf8_lossy (ser wl_u)) = PErr IdnaError
  /\ lparse (cap idna_long) wl_input = PErr IdnaError.
Proof. vm_compute. repeat split; reflexivity. Qed.

Lemma wl_input_usv : usv_list wl_input.
Proof. apply Forall_forall. intros c Hc. vm_compute in Hc. unfold is_usv. repeat (destruct Hc as [<-|Hc]; [lia|]). destruct Hc. Qed.

(* the premise run_clean of reparse_nonfile_model2 cannot be dropped *)
Theorem reparse_needs_clean :
  ~ (forall dbg idna, IdnaOK2 idna -> forall input u, usv_list input -> nonfile_input input = true ->
       parse_url dbg (host_parse idna) host_parse_opaque host_display None None input = POk u ->
       parse_url dbg (host_parse idna) host_parse_opaque host_display None None (utf8_lossy (ser u)) = POk u).
Proof.
  intros H. destruct url_long_refuted as (E & _ & Hn & _ & R & _).
  pose proof (H true idna_long idna_long_ok2 wl_input wl_u wl_input_usv Hn E) as R'.
  rewrite R in R'. discriminate R'.
Qed.

(* ---------------------------------------------------------------- 2. the IDNA model *)
Definition idna_low : list N -> option (list N) := idna_of lowad false.

(* the Punycode form under the URL deny list is the one of Proofs/Idna_C10b_Long.v (EMPTY deny list) *)
Theorem model_long_host :
  idna_low W_C10_long = Some W_C10_long_A
  /\ known_c10_long W_C10_long_A = true
  /\ idna_low W_C10_long_A = None
  /\ host_parse idna_low W_C10_long_U = HOk (HDomain W_C10_long_A)
  /\ host_parse idna_low (host_display (HDomain W_C10_long_A)) = HErr IdnaError
  /\ host_in_class idna_low W_C10_long_U = true
  /\ host_parse (cap idna_low) W_C10_long_U = HErr IdnaError.
Proof. vm_compute. repeat split; reflexivity. Qed.

Definition W_long_url : list N := (B "http://" ++ W_C10_long_U ++ [47])%list.
Definition W_long_url_ser : list N := (B "http://" ++ W_C10_long_A ++ [47])%list.
Notation mparse_low s := (parse_url false (host_parse idna_low) host_parse_opaque host_display None None s) (only parsing).
Definition wm_u : url := Eval vm_compute in url_of (mparse_low W_long_url).

Theorem model_long_url :
  mparse_low W_long_url = POk wm_u /\ ser wm_u = W_long_url_ser /\ nlen (ser wm_u) = 2970
  /\ mparse_low (utf8_lossy (ser wm_u)) = PErr IdnaError.
Proof. vm_compute. repeat split; reflexivity. Qed.

Theorem model_long_not_IdnaOK : ~ IdnaOK idna_low.
Proof.
  intros OK. destruct model_long_host as (H1 & _ & H3 & _).
  rewrite (idna_fix idna_low OK _ _ H1) in H3. discriminate.
Qed.

(* ---------------------------------------------------------------- 3. every adapter *)
(* an answer of the IDNA model is ASCII relative to the output statement of C10; inside the class it is rejected by
   the model itself (C10_long_rejected), whatever the adapter *)
Theorem class_answer_rejected A cfg d : Forall (fun c => c < 128) d -> known_c10_long d = true -> idna_of A cfg d = None.
Proof.
  intros Ha K. unfold idna_of. destruct (forallb is_byteb d); [|reflexivity]. unfold domain_to_ascii_cow.
  destruct (to_ascii A cfg d DENY_URL HAllow DIgnore) as [[b r]| |] eqn:E; try reflexivity.
  exfalso. exact (long_rejected A cfg d DENY_URL HAllow DIgnore b r Ha K E).
Qed.

Theorem class_answer_not_IdnaOK A cfg bs d : idna_of A cfg bs = Some d -> known_c10_long d = true ->
  ~ IdnaOK (idna_of A cfg).
Proof.
  intros H K OK.
  assert (Ha : Forall (fun c => c < 128) d).
  { eapply Forall_impl; [|exact (idna_out _ OK bs d H)]. intros c [Hc _]. exact Hc. }
  pose proof (idna_fix _ OK bs d H) as F. rewrite (class_answer_rejected A cfg d Ha K) in F. discriminate.
Qed.

(* ---------------------------------------------------------------- 4. IdnaOK2 for the IDNA model *)
(* idempotence at the options host.rs uses, outside the class *)
Definition idem_url2 (A : adapter) (cfg : bool) : Prop := forall d b r, bytes d ->
  to_ascii A cfg d DENY_URL HAllow DIgnore = U32_c13.Ok (b, r) -> Known_C10_long r = false ->
  exists b', to_ascii A cfg r DENY_URL HAllow DIgnore = U32_c13.Ok (b', r).

Theorem IdnaOK2_of_model A cfg :
  C10_ascii_statement A cfg -> idem_url2 A cfg -> v4_fixed A cfg -> IdnaOK2 (idna_of A cfg).
Proof.
  intros HA HI HV.
  assert (Out : forall bs d, idna_of A cfg bs = Some d -> Forall dom_char_ok d).
  { intros bs d H. unfold idna_of in H. destruct (forallb is_byteb bs) eqn:Eb; [|discriminate].
    unfold domain_to_ascii_cow in H.
    destruct (to_ascii A cfg bs DENY_URL HAllow DIgnore) as [[b r]| |] eqn:E; try discriminate.
    inversion H; subst.
    pose proof (HA bs DENY_URL HAllow DIgnore b d (C09_InstIdna.forallb_bytes bs Eb) valid_deny_url E) as F.
    eapply Forall_impl; [|exact F]. intros c (L & U & D). exact (url_deny_dom_char c L U D). }
  constructor.
  - exact Out.
  - intros bs d H K. pose proof (Out bs d H) as Hd. unfold idna_of in H |- *.
    destruct (forallb is_byteb bs) eqn:Eb; [|discriminate]. unfold domain_to_ascii_cow in *.
    destruct (to_ascii A cfg bs DENY_URL HAllow DIgnore) as [[b r]| |] eqn:E; try discriminate.
    inversion H; subst.
    assert (Ed : forallb is_byteb d = true).
    { apply forallb_forall. intros c Hc. rewrite Forall_forall in Hd. destruct (Hd c Hc) as [L _]. unfold is_byteb. lia. }
    rewrite Ed. destruct (HI bs b d (C09_InstIdna.forallb_bytes bs Eb) E K) as [b' E']. rewrite E'. reflexivity.
  - intros a Ha. unfold idna_of.
    assert (Ed : forallb is_byteb (ipv4_display a) = true).
    { destruct (ipv4_display_digits a Ha) as (Hd & _). apply forallb_forall. intros c Hc.
      rewrite Forall_forall in Hd. unfold is_byteb. destruct (Hd c Hc) as [D| ->]; [unfold is_digit in D|]; lia. }
    rewrite Ed. unfold domain_to_ascii_cow. destruct (HV a Ha) as [b E]. rewrite E. reflexivity.
Qed.

(* the second premise is what the corrected idempotence statement of C10 says at the URL options *)
Lemma idem_url2_from_C10 A cfg : C10_idem_statement2 A cfg -> AdapterOK A -> NvNoTrunc A -> NvIdem A -> AsciiNoMark A ->
  idem_url2 A cfg.
Proof.
  intros HC H1 H2 H3 H4 d b r Hb E K. exact (HC H1 H2 H3 H4 d DENY_URL HAllow DIgnore b r Hb valid_deny_url E K).
Qed.
