(* Proofs/C16_UniDeny.v - C16, the two premises that C16_unicode_host (Proofs/C16_UniHost.v) left open.
   (P1) origin.rs displays a domain with idna::domain_to_unicode = ToUnicode at the EMPTY deny list, Host::parse accepted
        it with ToASCII at the URL deny list.  deny_sub: an error-free fail-fast run of process_inner at a deny list is
        the run at every SMALLER deny list that still denies the upper-case letters (the deny list is only consulted by
        apply_upper / apply_lower; a character that is denied at the larger list and is not an upper-case letter is an
        error there; a character that passes the larger list passes the smaller one unchanged).  Hence ToUnicode at the
        two lists is the same text for every name that ToASCII accepts at the larger list (to_unicode_sub), and
        DENY_EMPTY is such a sub-list of DENY_URL (sub_empty_url).
   (P2) the Unicode form of an accepted name contains no '%' and no '[' (unicode_form_clean: every character of the
        displayed text is a dot, or passes the deny list, or is the lower-case form of an input character that passes
        it; '%' and '[' are on the URL deny list), so its UTF-8 form has no byte '%' and it does not start with '['. *)
From RU Require Import Base.Prelude Base.Utf8 Base.Utf8Facts Base.U32_c13 Gen.Tables Model.Punycode Model.Uts46
  Proofs.C13_Ascii Proofs.Idna_Sim Proofs.Idna_Api Proofs.Idna_Known Proofs.Idna_Hyp Proofs.Idna_Redisc
  Proofs.Idna_C10_Deny Proofs.Idna_C10_Puny Proofs.Idna_C10_Prefix Proofs.Idna_C10_Inner Proofs.Idna_C10_Walk
  Proofs.Idna_C10b_Long Proofs.Idna_C10b_AsciiInner Proofs.Idna_C10b_AsciiWalk Proofs.Idna_C10b_Stmt
  Proofs.Idna_WalkFun Proofs.Idna_WalkInv Proofs.Idna_WalkApi Proofs.Idna_WalkEnc Proofs.Idna_PunyRT
  Proofs.Idna_C10c_Puny Proofs.Idna_C10c_Start Proofs.Idna_C10c_Drun Proofs.Idna_C10c_Loop Proofs.Idna_C10c_Rerun
  Proofs.Idna_C10c_Idem Proofs.Idna_C10c_Example Proofs.Idna_Mark Proofs.Idna_C12 Proofs.Idna_C12b_Stmt3
  Proofs.Idna_C12c_Virtual Proofs.Idna_C12c_UofA Proofs.Idna_C12c_Stmt4 Proofs.Idna_C12d_Round Proofs.Idna_C12d_Stmt5 Proofs.C09_InstIdna.

(* ---------------------------------------------------------------- sub-lists of a deny list *)
Definition Sub (d' d : N) : Prop := forall c, deny_member d c = false -> deny_member d' c = false.

Lemma sub_lor d' d m : Sub d' d -> Sub (N.lor d' m) (N.lor d m).
Proof.
  intros HS c. rewrite !deny_member_testbit, !N.lor_spec. intros H. apply orb_false_iff in H. destruct H as [H1 H2].
  rewrite <- deny_member_testbit in H1. apply HS in H1. rewrite deny_member_testbit in H1. rewrite H1, H2. reflexivity.
Qed.
Lemma sub_of_land d' d : N.land d' d = d' -> Sub d' d.
Proof.
  intros E c. rewrite !deny_member_testbit. intros H. rewrite <- E, N.land_spec, H, andb_false_r. reflexivity.
Qed.
Lemma sub_empty_url : Sub DENY_EMPTY DENY_URL.
Proof. apply sub_of_land. vm_compute. reflexivity. Qed.

Lemma member_land deny c : deny_member deny c = false -> (N.land deny (N.shiftl 1 c) =? 0) = true.
Proof. unfold deny_member. intros H. apply negb_false_iff in H. exact H. Qed.
Lemma land_member deny c : (N.land deny (N.shiftl 1 c) =? 0) = true -> deny_member deny c = false.
Proof. unfold deny_member. intros H. rewrite H. reflexivity. Qed.

Lemma apply_lower_sub d' d c : Sub d' d -> apply_lower d c <> FFFD -> apply_lower d' c = apply_lower d c.
Proof.
  intros HS. unfold apply_lower. destruct (c <? 128); [|reflexivity].
  destruct (N.land d (N.shiftl 1 c) =? 0) eqn:E; [|intros H; contradiction H; reflexivity].
  intros _. rewrite (member_land d' c (HS c (land_member d c E))). reflexivity.
Qed.
Lemma map_lower_sub d' d l : Sub d' d -> existsb is_fffd (map (apply_lower d) l) = false ->
  map (apply_lower d') l = map (apply_lower d) l.
Proof.
  intros HS. induction l as [|c r IH]; cbn [map existsb]; [reflexivity|].
  intros H. apply orb_false_iff in H. destruct H as [H1 H2]. rewrite (IH H2). f_equal.
  apply apply_lower_sub; [exact HS|]. intros Hq. unfold is_fffd in H1. rewrite Hq, N.eqb_refl in H1. discriminate.
Qed.
Lemma apply_upper_sub d' d b : Sub d' d -> DenyUpper d' -> b < 256 -> apply_upper d b <> FFFD -> apply_upper d' b = apply_upper d b.
Proof.
  intros HS HU Hb. unfold apply_upper.
  destruct (N.land d (N.shiftl 1 b) =? 0) eqn:E.
  - intros _. rewrite (member_land d' b (HS b (land_member d b E))). reflexivity.
  - destruct (in_inclusive_range8 b 65 90) eqn:E2; [|intros H; contradiction H; reflexivity].
    intros _. apply range8_spec in E2; [|exact Hb|lia|lia].
    assert (Hup : is_upper b = true) by (unfold is_upper; lia).
    pose proof (HU b Hup) as Hm. unfold deny_member in Hm. apply negb_true_iff in Hm. rewrite Hm. reflexivity.
Qed.
Lemma map_upper_sub d' d l : Sub d' d -> DenyUpper d' -> Forall (fun b => b < 128) l ->
  existsb is_fffd (map (apply_upper d) l) = false -> map (apply_upper d') l = map (apply_upper d) l.
Proof.
  intros HS HU Ha. induction Ha as [|b r Hb _ IH]; cbn [map existsb]; [reflexivity|].
  intros H. apply orb_false_iff in H. destruct H as [H1 H2]. rewrite (IH H2). f_equal.
  apply apply_upper_sub; [exact HS|exact HU|lia|]. intros Hq. unfold is_fffd in H1. rewrite Hq, N.eqb_refl in H1. discriminate.
Qed.

(* ---------------------------------------------------------------- "succeeds with the same result" *)
Definition Le {X : Type} (a b : step X) : Prop := forall x, a = SOk x -> b = SOk x.
Lemma Le_refl {X} (a : step X) : Le a a.
Proof. intros x H. exact H. Qed.
Lemma Le_sbind {X Y} (r r' : step X) (k k' : X -> step Y) :
  Le r r' -> (forall x, Le (k x) (k' x)) -> Le (sbind r k) (sbind r' k').
Proof.
  intros H1 H2 y H. apply sbind_ok in H. destruct H as (x & Hr & Hk). rewrite (H1 x Hr). cbn [sbind]. exact (H2 x y Hk).
Qed.

Lemma fffd_join ls : Forall (fun l => existsb is_fffd l = false) ls -> existsb is_fffd (join_dots ls) = false.
Proof.
  induction 1 as [|l r Hl Hr IH]; [reflexivity|]. destruct r as [|l2 r2]; [exact Hl|].
  change (join_dots (l :: l2 :: r2)) with (l ++ DOT :: join_dots (l2 :: r2)).
  rewrite existsb_app. cbn [existsb]. rewrite Hl, IH. reflexivity.
Qed.

Section Deny.
Variable A : adapter.
Variable cfg : bool.
Variable hy : hyphens.
Variables deny' deny : N.
Hypothesis HS : Sub deny' deny.
Hypothesis HU' : DenyUpper deny'.

Let dd' := N.lor deny' DOT_MASK.
Let dd := N.lor deny DOT_MASK.
Let HSd : Sub dd' dd := sub_lor deny' deny DOT_MASK HS.

Lemma scan_lower_sub l he : Le (scan_mark true is_fffd (map (apply_lower dd) l) he) (scan_mark true is_fffd (map (apply_lower dd') l) he).
Proof.
  intros x H. rewrite scan_mark_ff in H. destruct (existsb is_fffd (map (apply_lower dd) l)) eqn:E; [discriminate|].
  rewrite (map_lower_sub dd' dd l HSd E). rewrite scan_mark_ff, E. exact H.
Qed.

Lemma apd_sub dec he : Le (after_punycode_decode A true dd dec he) (after_punycode_decode A true dd' dec he).
Proof.
  unfold after_punycode_decode. apply Le_sbind; [apply scan_lower_sub|]. intros [nz h]. apply Le_refl.
Qed.

Lemma end_sublabel_sub cur he fcm ncj :
  Le (end_sublabel A cfg true hy dd cur he fcm ncj) (end_sublabel A cfg true hy dd' cur he fcm ncj).
Proof.
  unfold end_sublabel. destruct (starts_with cur XN_PREFIX); [|apply Le_refl].
  apply Le_sbind; [apply Le_refl|]. intros [t h1].
  destruct (last_opt (firstn 4 cur ++ t)) as [lst|]; [|apply Le_refl].
  apply Le_sbind; [apply Le_refl|]. intros [[c2 h2] p2].
  apply Le_sbind; [apply Le_refl|]. intros [[c3 h3] p3].
  destruct (negb p3); [|apply Le_refl].
  destruct (decode_with cfg CharInternal (skipn 4 c3)) as [dec| |s]; [|apply Le_refl|apply Le_refl].
  apply Le_sbind; [apply apd_sub|]. intros [c4 h4]. apply Le_refl.
Qed.

Lemma sublabels_sub rest : forall s db cur he ap fcm ncj,
  Le (sublabels A cfg true hy dd s rest db cur he ap fcm ncj) (sublabels A cfg true hy dd' s rest db cur he ap fcm ncj).
Proof.
  induction rest as [|s2 rest IH]; intros s db cur he ap fcm ncj; cbn [sublabels];
    (apply Le_sbind; [apply Le_refl|]); intros [s' h]; (apply Le_sbind; [apply end_sublabel_sub|]); intros [lab h2].
  - apply Le_refl.
  - apply IH.
Qed.

(* an accepted run of the loop over the mapped stream has scanned every piece *)
Lemma sublabels_scanned d0 rest : forall s db cur he ap fcm ncj x,
  sublabels A cfg true hy d0 s rest db cur he ap fcm ncj = SOk x ->
  Forall (fun l => existsb is_fffd l = false) (s :: rest).
Proof.
  induction rest as [|s2 rest IH]; intros s db cur he ap fcm ncj x H; cbn [sublabels] in H;
    apply sbind_ok in H; destruct H as ([s' h] & H1 & H); apply sbind_ok in H; destruct H as ([lab h2] & H2 & H);
    apply scan_true in H1; destruct H1 as (_ & _ & Hf).
  - constructor; [exact Hf|constructor].
  - constructor; [exact Hf|]. exact (IH _ _ _ _ _ _ _ _ H).
Qed.

Lemma scan_upper_sub ascii he : Forall (fun b => b < 128) ascii ->
  Le (scan_mark true is_fffd (map (apply_upper deny) ascii) he) (scan_mark true is_fffd (map (apply_upper deny') ascii) he).
Proof.
  intros Ha x H. rewrite scan_mark_ff in H. destruct (existsb is_fffd (map (apply_upper deny) ascii)) eqn:E; [discriminate|].
  rewrite (map_upper_sub deny' deny ascii HS HU' Ha E). rewrite scan_mark_ff, E. exact H.
Qed.

Lemma complexF_sub db he ap ascii non_ascii : Forall (fun b => b < 128) ascii ->
  Le (complexF A cfg true hy deny db he ap ascii non_ascii) (complexF A cfg true hy deny' db he ap ascii non_ascii).
Proof.
  intros Ha. unfold complexF. apply Le_sbind; [apply scan_upper_sub; exact Ha|]. intros [cur h] x H.
  set (mn := map_normalize A (utf8_lossy non_ascii)) in *.
  destruct (split1 DOT (map (apply_lower deny) mn)) as [s rest] eqn:Esp.
  pose proof (sublabels_scanned _ _ _ _ _ _ _ _ _ _ H) as Hsc.
  assert (Hnf : existsb is_fffd (map (apply_lower deny) mn) = false).
  { rewrite (split1_join _ _ _ Esp). apply fffd_join. exact Hsc. }
  rewrite (map_lower_sub deny' deny mn HS Hnf), Esp. exact (sublabels_sub rest _ _ _ _ _ _ _ x H).
Qed.

Lemma complexT_sub label db he ap ascii : Forall (fun b => b < 128) ascii ->
  Le (complexT true hy deny label db he ap ascii) (complexT true hy deny' label db he ap ascii).
Proof.
  intros Ha. unfold complexT. apply Le_sbind; [apply scan_upper_sub; exact Ha|]. intros [cur h]. apply Le_refl.
Qed.

Lemma label_nonempty_sub label db he ap :
  Le (label_nonempty A cfg true hy deny label db he ap) (label_nonempty A cfg true hy deny' label db he ap).
Proof.
  rewrite !label_nonempty_eq. destruct (split_ascii_fast_path_prefix label) as [ascii non_ascii] eqn:Es.
  pose proof (split_ascii_prefix label ascii non_ascii Es) as Ha.
  destruct non_ascii as [|na nr]; [|apply complexF_sub; exact Ha].
  destruct (has_punycode_prefix ascii); [|apply complexT_sub; exact Ha].
  destruct (negb match last_opt ascii with Some l => l =? HYPHEN | None => false end
            && (len ascii - 4 <=? PUNYCODE_DECODE_MAX_INPUT_LENGTH)).
  - destruct (decode_with cfg U8Internal (skipn 4 ascii)) as [dec| |s]; [|apply Le_refl|apply Le_refl].
    apply Le_sbind; [apply apd_sub|]. intros [c4 h4]. apply Le_refl.
  - intros x H. discriminate H.
Qed.

Lemma label_step_sub label s : Le (label_step A cfg true hy deny label s) (label_step A cfg true hy deny' label s).
Proof.
  unfold label_step. destruct (i_inpre s && is_passthrough_ascii_label label); [apply Le_refl|].
  destruct label as [|b r]; [apply Le_refl|].
  apply Le_sbind; [apply label_nonempty_sub|]. intros [[db he] ap]. apply Le_refl.
Qed.

Lemma labels_loop_sub labels : forall s, Le (labels_loop A cfg true hy deny labels s) (labels_loop A cfg true hy deny' labels s).
Proof.
  induction labels as [|l r IH]; intros s; cbn [labels_loop]; [apply Le_refl|].
  apply Le_sbind; [apply label_step_sub|exact IH].
Qed.

(* the error-free fail-fast run at the larger deny list is the run at the smaller one *)
Theorem deny_sub d ptu bd db ap :
  process_inner A cfg true hy deny d = IRes ptu bd false db ap ->
  process_inner A cfg true hy deny' d = IRes ptu bd false db ap.
Proof.
  unfold process_inner. destruct (fast_tier d d) as [tail|]; [|intros H; exact H].
  unfold process_innermost.
  set (s0 := {| i_ptu := len d - len tail; i_seen := false; i_inpre := true; i_db := []; i_he := false; i_ap := [] |}).
  destruct (labels_loop A cfg true hy deny (split_on DOT tail) s0) as [s| |p] eqn:E; [|discriminate|discriminate].
  rewrite (labels_loop_sub (split_on DOT tail) s0 s E). intros H. exact H.
Qed.

(* hence ToUnicode (every display policy) gives the same answer at both lists for a name that is accepted at the larger *)
Theorem to_ui_sub d b a p : to_ascii A cfg d deny hy DIgnore = Ok (b, a) ->
  to_user_interface A cfg d deny' hy p = to_user_interface A cfg d deny hy p.
Proof.
  intros H. destruct d as [|x r].
  { unfold to_user_interface, process. rewrite !process_inner_nil. reflexivity. }
  destruct (process_inner A cfg true hy deny (x :: r)) as [ptu bd he db ap|s] eqn:Ei.
  2:{ unfold to_ascii, process in H. rewrite Ei in H. discriminate. }
  destruct (inner_ff_facts A cfg hy deny _ _ _ _ _ _ Ei) as [HX|[-> Hm]].
  { exfalso. inversion HX. subst. unfold to_ascii, process in H. rewrite Ei in H.
    replace (0 =? len (x :: r)) with false in H by (unfold len; cbn [List.length]; lia). cbn [andb] in H. discriminate. }
  pose proof (deny_sub _ _ _ _ _ Ei) as Ei'.
  destruct (inner_ff_facts A cfg hy deny' _ _ _ _ _ _ Ei') as [HX|[_ Hm']]; [inversion HX|].
  unfold to_user_interface, process. rewrite Hm, Hm'. reflexivity.
Qed.
End Deny.

(* (P1) origin.rs and host.rs show the same Unicode form *)
Theorem p1_empty_url A cfg d b a : to_ascii A cfg d DENY_URL HAllow DIgnore = Ok (b, a) ->
  to_unicode A cfg d DENY_EMPTY HAllow = to_unicode A cfg d DENY_URL HAllow.
Proof.
  intros H. unfold to_unicode.
  exact (to_ui_sub A cfg HAllow DENY_EMPTY DENY_URL sub_empty_url (proj1 deny_upper_builtin) d b a always_unicode H).
Qed.

(* ---------------------------------------------------------------- (P2) the characters of the Unicode form *)
Lemma utf8_encode1_low c b : In b (utf8_encode1 c) -> b < 128 -> b = c.
Proof.
  unfold utf8_encode1. destruct (c <? 128); [intros [<-|[]] _; reflexivity|].
  destruct (c <? 2048); [cbn [In]; intros H; lia|]. destruct (c <? 65536); cbn [In]; intros H; lia.
Qed.
Lemma utf8_encode_low t b : In b (utf8_encode t) -> b < 128 -> In b t.
Proof.
  unfold utf8_encode. intros H Hb. apply in_flat_map in H. destruct H as (c & Hc & H).
  rewrite (utf8_encode1_low c b H Hb). exact Hc.
Qed.
Lemma okc_join deny ls : okc deny DOT -> Forall (Forall (okc deny)) ls -> Forall (okc deny) (join_dots ls).
Proof. intros Hd H. exact (join_dots_Forall (okc deny) ls Hd H). Qed.

Section Form.
Variable A : adapter.
Variable cfg : bool.
Variable deny : N.
Variable hy : hyphens.
Hypothesis HV : valid_deny deny.
Hypothesis HOK : AdapterOK A.
Hypothesis HUSV : AdapterUSV A.
Hypothesis HNT : NvNoTrunc A.
Hypothesis HNI : NvIdem A.
Hypothesis HNM : AsciiNoMark A.
Hypothesis HMP : MapPrefix A.

Let HU : DenyUpper deny := proj1 (valid_deny_facts deny HV).
Let HL : LdhFree deny := proj2 (valid_deny_facts deny HV).

Lemma pair_out_okc dbl e o : PairOK A cfg deny hy dbl e -> out_label cfg uT dbl e = inl o -> Forall (okc deny) o.
Proof.
  intros HP Ho. destruct HP as [m Han Hn Hacc|m dec dbl Ha Hn Hp Hc Hd Hapd Hchk Hna|dbl Hnv Hg Hchk Hu Hpre];
    cbn [out_label uT] in Ho; inversion Ho; subst o; clear Ho.
  - destruct Han as [Ha _]. unfold lab_acc in Hacc. apply andb_true_iff in Hacc. destruct Hacc as [Hf _].
    apply negb_true_iff in Hf. apply Forall_forall. intros x Hx. apply in_map_iff in Hx. destruct Hx as (b0 & <- & Hb0).
    rewrite Forall_forall in Ha. apply clean_okc. apply (apply_upper_lowclean deny b0 HU HL (Ha b0 Hb0)).
    intros E. unfold cmap in Hf.
    pose proof (existsb_false_in is_fffd _ (apply_upper deny b0) Hf (in_map _ _ _ Hb0)) as Hx. unfold is_fffd in Hx.
    rewrite E, N.eqb_refl in Hx. discriminate.
  - destruct (apd_inv A deny dec dbl false Hapd) as (_ & _ & Hg & _).
    eapply Forall_impl; [|exact Hg]. intros c Hc0. exact (gc_okc deny DOT_MASK c Hc0).
  - eapply Forall_impl; [|exact Hg]. intros c Hc0. exact (gc_okc deny DOT_MASK c Hc0).
Qed.

Lemma outs_okc DBL : forall ap ou, Forall2 (PairOK A cfg deny hy) DBL ap -> outs cfg uT DBL ap = inl ou ->
  Forall (Forall (okc deny)) ou.
Proof.
  induction DBL as [|dbl DBL IH]; intros ap ou HP Ho.
  - inversion HP; subst. cbn [outs] in Ho. inversion Ho. constructor.
  - inversion HP as [|? e ? ap' H1 H2]; subst. cbn [outs] in Ho.
    destruct (out_label cfg uT dbl e) as [o|s] eqn:E1; [|discriminate].
    destruct (outs cfg uT DBL ap') as [os'|s] eqn:E2; [|discriminate]. inversion Ho. subst ou.
    constructor; [exact (pair_out_okc dbl e o H1 E1)|exact (IH _ _ H2 E2)].
Qed.

(* every ASCII character of the Unicode form of an accepted name is outside the deny list *)
Theorem unicode_form_okc d b a : bytes d -> to_ascii A cfg d deny hy DIgnore = Ok (b, a) ->
  Forall (okc deny) (ui_text (to_unicode A cfg d deny hy)).
Proof.
  intros Hb H.
  destruct (first_run A cfg deny hy HU HL HOK HUSV HNT HNI HNM HMP d b a Hb H)
    as [(Ead & Had & HTd)|(pl & DBL & ap & bd & os & ou & bu & Ei & Hpl & HD & HPK & Hbidi & Hbok & Eo & Hos & Ha & Eu & Hou & HTu)].
  - rewrite HTd. cbn [ui_text]. subst a.
    pose proof (c10_ascii_under_notrunc A cfg HNT d deny hy DIgnore b d Hb HV H) as HC.
    eapply Forall_impl; [|exact HC]. intros c (_ & _ & Hm) _. exact Hm.
  - rewrite HTu. cbn [ui_text]. apply okc_join; [exact (clean_okc deny DOT (dot_clean deny HL))|].
    apply Forall_app. split; [|exact (outs_okc DBL ap ou HPK Eu)].
    eapply Forall_impl; [|exact Hpl]. intros l [Hbl Hp].
    eapply Forall_impl; [|exact (passthrough_clean deny l HL Hbl Hp)]. intros c Hc. exact (clean_okc deny c Hc).
Qed.
End Form.

Lemma url_denies_pct_bracket : deny_member DENY_URL 37 = true /\ deny_member DENY_URL 91 = true.
Proof. vm_compute. split; reflexivity. Qed.

(* (P2) for the URL deny list: no '%' byte in the UTF-8 form, no leading '[' *)
Theorem p2_url A cfg : AdapterOK A -> AdapterUSV A -> NvNoTrunc A -> NvIdem A -> AsciiNoMark A -> MapPrefix A ->
  forall d b a, bytes d -> to_ascii A cfg d DENY_URL HAllow DIgnore = Ok (b, a) ->
  let t := ui_text (to_unicode A cfg d DENY_URL HAllow) in
  ~ In 37 (utf8_encode t) /\ Model.Host.starts_with 91 t = false.
Proof.
  intros HOK HUSV HNT HNI HNM HMP d b a Hb H t.
  pose proof (unicode_form_okc A cfg DENY_URL HAllow C09_InstIdna.valid_deny_url HOK HUSV HNT HNI HNM HMP d b a Hb H) as Hf.
  fold t in Hf. rewrite Forall_forall in Hf. destruct url_denies_pct_bracket as [D37 D91]. split.
  - intros Hin. apply utf8_encode_low in Hin; [|lia]. specialize (Hf 37 Hin). unfold okc in Hf. rewrite D37 in Hf.
    assert (X : 37 < 128) by lia. specialize (Hf X). discriminate.
  - destruct t as [|x r] eqn:Et; [reflexivity|]. unfold Model.Host.starts_with.
    destruct (x =? 91) eqn:E; [|reflexivity]. apply N.eqb_eq in E. subst x.
    specialize (Hf 91 (or_introl eq_refl)). unfold okc in Hf. rewrite D91 in Hf.
    assert (X : 91 < 128) by lia. specialize (Hf X). discriminate.
Qed.

(* ---------------------------------------------------------------- C16_unicode_host without (P1) and (P2) *)
From RU Require Import Model.HostT Proofs.C09_Host Proofs.C16_UniHost.

(* Host::parse (host model + IDNA model at the URL deny list) reads the text that origin.rs displays for a domain d -
   idna::domain_to_unicode, the EMPTY deny list, non-ASCII forms included - back as d: for every ToASCII fixed point d
   that is not empty and does not end in a number, outside Known_C12 / Known_C10_long, relative to the eight sampled
   adapter facts only *)
Theorem uni_host_rt_full A cfg :
  AdapterOK A -> AdapterUSV A -> NvNoTrunc A -> NvIdem A -> AsciiNoMark A -> MapPrefix A -> NvMapFix A -> NvNoGrow A ->
  forall d b, Forall (fun c => c < 128) d -> to_ascii A cfg d DENY_URL HAllow DIgnore = U32_c13.Ok (b, d) ->
  Known_C12 A cfg d DENY_URL HAllow = false -> Known_C10_long d = false ->
  d <> [] -> Model.Host.ends_in_a_number d = false ->
  Model.Host.host_parse (idna_of A cfg) (ui_text (domain_to_unicode A cfg d)) = HostT.Ok (HDomain d)
  /\ usv_list (ui_text (domain_to_unicode A cfg d)).
Proof.
  intros HOK HUSV HNT HNI HNM HMP HMF HNG d b Ha H HK Hlong Hne Hnum.
  assert (Hb : bytes d) by (unfold bytes; eapply Forall_impl; [|exact Ha]; intros c Hc; unfold is_byte; cbv beta in Hc; lia).
  pose proof (p1_empty_url A cfg d b d H) as HP1.
  destruct (p2_url A cfg HOK HUSV HNT HNI HNM HMP d b d Hb H) as [Hpct Hbr].
  assert (Et : ui_text (domain_to_unicode A cfg d) = ui_text (to_unicode A cfg d DENY_URL HAllow)).
  { unfold domain_to_unicode. rewrite (C09_Host.utf8_encode_ascii d Ha), HP1. reflexivity. }
  split.
  - apply (uni_host_rt_origin A cfg HOK HUSV HNT HNI HNM HMP HMF HNG d b Ha H HK Hlong Hne Hnum).
    + rewrite HP1. reflexivity.
    + rewrite Et. exact Hpct.
    + rewrite Et. exact Hbr.
  - rewrite Et. exact (c12_unicode_usv A cfg HOK HUSV HNT HNI HNM HMP HMF HNG d DENY_URL HAllow b d Hb valid_deny_url HK H Hlong).
Qed.
