(* Proofs/C08_RelPath.v - the path state on the text make_relative emits, for every scheme that is not
   "file" (URL-parser context):
     - finish_segment / the loop do not depend on the scheme type as long as the text has no '\' that a
       special scheme would read as a separator  (loop_nonfile);
     - one "../" removes exactly the last closed segment of  pre "/" seg "/" ... "/"  (loop_dotdot) unless
       that segment is drive-letter shaped (never popped - F-C08-4e), and leaves  pre "/"  alone;
     - k times "../" remove k segments (loop_dots); then canonical segments are appended unchanged
       (C02_Path.path_loop_canon). *)
From RU Require Import Base.Prelude Base.Utf8 Base.Utf8Facts Model.AsciiSet Gen.Tables
  Model.PercentEncoding Model.HostT Model.UrlRecord Model.Parser Model.WF
  Proofs.ListN Proofs.C14_Set Proofs.C14_Enc Proofs.C14_Views Proofs.C02_Enc Proofs.C02_Parts
  Proofs.C02_Opaque Proofs.C02_Path Proofs.C02_PathL1.

(* ---------- independence of the scheme type (not file) ---------- *)
Lemma pop_path_nonfile st ps ser : st_is_file st = false -> pop_path st ps ser = pop_path STNotSpecial ps ser.
Proof. intros H. unfold pop_path. rewrite H. reflexivity. Qed.

Lemma finish_nonfile dbg st ps ser ss ews hh : st_is_file st = false ->
  finish_segment dbg st ps ser ss ews hh = finish_segment dbg STNotSpecial ps ser ss ews hh.
Proof. intros H. unfold finish_segment, shorten_path, pop_path. rewrite H. reflexivity. Qed.

Lemma push_pending_st st ser pend : push_pending CUrlParser st ser pend = push_pending CUrlParser STNotSpecial ser pend.
Proof. reflexivity. Qed.

(* no '\' where the scheme is special *)
Definition no_spec_bslash (st : scheme_type) (c : N) : bool := negb ((c =? 92) && st_is_special st).

Definition rest_qh (rest : list N) : Prop :=
  match rest with [] => True | c :: _ => is_qh c = true /\ is_tnl c = false end.

Lemma loop_nonfile dbg st ps p rest : st_is_file st = false -> forallb (no_spec_bslash st) p = true ->
  rest_qh rest ->
  forall ser ss pend hh,
  parse_path_loop dbg CUrlParser st ps (p ++ rest) ser ss pend hh
  = parse_path_loop dbg CUrlParser STNotSpecial ps (p ++ rest) ser ss pend hh.
Proof.
  intros Hf Hp Hrest. induction p as [|c r IH]; intros ser ss pend hh.
  - cbn [app]. destruct rest as [|c r].
    + cbn [parse_path_loop]. rewrite finish_nonfile by exact Hf. unfold file_path_fixup. rewrite Hf. reflexivity.
    + destruct Hrest as [Hq Ht]. unfold is_qh in Hq.
      cbn [parse_path_loop]. rewrite Ht. cbn [ctx_eqb negb andb].
      replace (c =? 47) with false by lia. replace (c =? 92) with false by lia. cbn [andb orb].
      rewrite Hq. rewrite finish_nonfile by exact Hf. unfold file_path_fixup. rewrite Hf. reflexivity.
  - cbn [forallb] in Hp. apply andb_true_iff in Hp. destruct Hp as [Hc Hr]. specialize (IH Hr).
    unfold no_spec_bslash in Hc. apply negb_true_iff in Hc.
    cbn [app parse_path_loop]. rewrite Hc, Hf. cbn [st_is_special st_is_file andb]. rewrite andb_false_r.
    rewrite !(finish_nonfile dbg st) by exact Hf. unfold file_path_fixup. rewrite Hf. cbn [st_is_file].
    change (push_pending CUrlParser st ser pend) with (push_pending CUrlParser STNotSpecial ser pend).
    destruct (is_tnl c); [apply IH|].
    cbn [ctx_eqb negb andb orb]. rewrite orb_false_r.
    destruct (c =? 47).
    + destruct (finish_segment dbg STNotSpecial ps (push_pending CUrlParser STNotSpecial ser pend ++ [47]) ss true hh) as [[s2 h2]| |];
        cbn [pbind]; try reflexivity. apply IH.
    + destruct ((c =? 63) || (c =? 35)); [reflexivity|]. apply IH.
Qed.

(* ---------- "../" pops the last closed segment ---------- *)
Section DotDot.
Variable pre : list N.
Variable dbg : bool.
Notation ps := (nlen pre).
Notation BsP := (Bs pre).
Notation loop := (parse_path_loop dbg CUrlParser STNotSpecial ps).

Lemma finish_dotdot segs t hh : no_slash t = true -> starts_with_wdl (t ++ [47]) = false ->
  finish_segment dbg STNotSpecial ps (BsP (segs ++ [t]) ++ [46; 46] ++ [47]) (nlen (BsP (segs ++ [t]))) true hh
  = POk (BsP segs, hh).
Proof.
  intros Htn Hok.
  set (B1 := BsP (segs ++ [t])). set (s1 := B1 ++ [46; 46] ++ [47]).
  assert (slice_o s1 (nlen B1) (nlen s1 - 1) = Some [46; 46]) as Hslice.
  { unfold s1. rewrite !nlen_app.
    replace (nlen B1 + (nlen [46; 46] + nlen [47]) - 1) with (nlen B1 + nlen [46; 46]) by (unfold nlen; cbn [length]; lia).
    apply slice_mid. }
  assert (truncate s1 (nlen B1) = B1) as Htr by (unfold truncate, s1; apply nfirstn_app_len).
  destruct (Bs_ends pre (segs ++ [t])) as [X EX]. fold B1 in EX.
  assert (ends_with_byte 47 B1 = true) as Hends by (rewrite EX; apply ends_with_byte_snoc).
  unfold finish_segment. fold B1. fold s1. rewrite Hslice. cbn [of_option pbind is_double_dot].
  assert ((if dbg then match (if 1 <=? nlen B1 then nnth s1 (nlen B1 - 1) else None) with
                       | Some b => passert (b =? 47) | None => PPanic end else POk tt) = POk tt) as Hdbg.
  { destruct dbg; [|reflexivity]. pose proof (Bs_len_ge pre (segs ++ [t])) as Hl. fold B1 in Hl.
    replace (1 <=? nlen B1) with true by lia.
    unfold s1. rewrite nnth_app_l by lia. rewrite EX. rewrite nlen_app.
    replace (nlen X + nlen [47] - 1) with (nlen X) by (unfold nlen; cbn [length]; lia).
    rewrite nnth_app_last. reflexivity. }
  rewrite Hdbg. cbn [pbind]. rewrite Htr, Hends. cbn [andb].
  destruct (Bs_ends pre segs) as [X0 EX0].
  pose proof (Bs_len_ge pre segs) as Hl0.
  assert (rfind 47 (nfirstn (nlen B1 - 1) B1) = Some (nlen X0)) as Hrf.
  { unfold B1. rewrite Bs_snoc. rewrite !nlen_app.
    replace (nlen (BsP segs) + (nlen t + nlen [47]) - 1) with (nlen (BsP segs ++ t)) by (rewrite nlen_app; unfold nlen; cbn [length]; lia).
    rewrite app_assoc. rewrite nfirstn_app_len. rewrite EX0. rewrite <- app_assoc. cbn [app].
    apply rfind_app_last. rewrite <- no_slash_no_byte. exact Htn. }
  assert (nlen (BsP segs) = nlen X0 + 1) as EL0 by (rewrite EX0, nlen_app; reflexivity).
  unfold last_slash_can_be_removed. rewrite Hrf. replace (ps <=? nlen X0) with true by lia. cbn [andb].
  assert (nskipn (nlen X0) B1 = 47 :: t ++ [47]) as Hsk.
  { unfold B1. rewrite Bs_snoc, EX0. rewrite <- !app_assoc. rewrite nskipn_app_len. reflexivity. }
  rewrite Hsk.
  assert (path_starts_with_wdl (47 :: t ++ [47]) = false) as Ew.
  { unfold path_starts_with_wdl. cbn [is_path_end]. replace (47 =? 47) with true by reflexivity. cbn [orb andb]. exact Hok. }
  rewrite Ew. cbn [negb].
  assert (nfirstn (nlen B1 - 1) B1 = BsP segs ++ t) as Hcut.
  { unfold B1. rewrite Bs_snoc. rewrite !nlen_app.
    replace (nlen (BsP segs) + (nlen t + nlen [47]) - 1) with (nlen (BsP segs ++ t)) by (rewrite nlen_app; unfold nlen; cbn [length]; lia).
    rewrite app_assoc. apply nfirstn_app_len. }
  rewrite Hcut.
  assert (shorten_path STNotSpecial ps (BsP segs ++ t) = POk (BsP segs)) as Hsh.
  { unfold shorten_path, pop_path. rewrite nlen_app.
    replace (nlen (BsP segs) + nlen t =? ps) with false by lia. cbn [st_is_file andb].
    replace (ps <? nlen (BsP segs) + nlen t) with true by lia.
    assert (exists Y, nskipn ps (BsP segs ++ t) = Y ++ 47 :: t /\ ps + nlen Y + 1 = nlen (BsP segs)) as (Y & EY & ELY).
    { unfold Bs. rewrite <- !app_assoc. rewrite nskipn_app_len.
      destruct (rev segs) as [|t1 r1] eqn:Er0.
      - assert (segs = []) as E0 by (rewrite <- (rev_involutive segs), Er0; reflexivity). rewrite E0.
        exists []. cbn. split; [reflexivity|]. unfold nlen. rewrite !app_length. cbn [length]. lia.
      - assert (segs = rev r1 ++ [t1]) as E0 by (rewrite <- (rev_involutive segs), Er0; reflexivity). rewrite E0.
        rewrite segs_text_snoc. exists ([47] ++ segs_text (rev r1) ++ t1). split.
        + rewrite <- !app_assoc. reflexivity.
        + len_lia. }
    rewrite EY. rewrite (rfind_app_last 47 Y t) by (rewrite <- no_slash_no_byte; exact Htn).
    unfold truncate. rewrite ELY. rewrite nfirstn_app_len. reflexivity. }
  rewrite Hsh. cbn [pbind]. rewrite EX0. rewrite ends_with_byte_snoc. cbn [negb andb]. reflexivity.
Qed.

(* the loop on "../": one segment less *)
Lemma loop_dotdot segs t X hh : no_slash t = true -> starts_with_wdl (t ++ [47]) = false ->
  loop (46 :: 46 :: 47 :: X) (BsP (segs ++ [t])) (nlen (BsP (segs ++ [t]))) [] hh
  = loop X (BsP segs) (nlen (BsP segs)) [] hh.
Proof.
  intros Htn Hok. rewrite loop_cons_plain by reflexivity. rewrite loop_cons_plain by reflexivity.
  rewrite loop_cons_slash.
  change [46; 46] with (rev [46; 46] ++ []). rewrite push_pending_clean by reflexivity.
  rewrite <- app_assoc. rewrite (finish_dotdot segs t hh Htn Hok). reflexivity.
Qed.

Definition dots_text (ra : list (list N)) : list N := concat (map (fun _ : list N => [46; 46; 47]) ra).
Definition not_wdl_seg (t : list N) : bool := negb (starts_with_wdl (t ++ [47])).

(* as many "../" as segments in ra: all of them go *)
Lemma loop_dots ra : forall segs X hh,
  forallb no_slash ra = true -> forallb not_wdl_seg ra = true ->
  loop (dots_text ra ++ X) (BsP (segs ++ ra)) (nlen (BsP (segs ++ ra))) [] hh
  = loop X (BsP segs) (nlen (BsP segs)) [] hh.
Proof.
  induction ra as [|t ra IH] using rev_ind; intros segs X hh Hn Hw.
  - cbn [dots_text map concat app]. rewrite app_nil_r. reflexivity.
  - rewrite forallb_snoc in Hn, Hw. apply andb_true_iff in Hn, Hw. destruct Hn as [Hn Ht]. destruct Hw as [Hw Hwt].
    unfold not_wdl_seg in Hwt. apply negb_true_iff in Hwt.
    unfold dots_text. rewrite map_app, concat_app. cbn [map concat]. rewrite app_nil_r.
    assert (concat (map (fun _ : list N => [46; 46; 47]) ra) ++ [46; 46; 47]
            = [46; 46; 47] ++ concat (map (fun _ : list N => [46; 46; 47]) ra)) as Ec.
    { clear. induction ra as [|a ra IH]; [reflexivity|]. cbn [map concat]. rewrite <- app_assoc, IH. reflexivity. }
    rewrite Ec. rewrite <- app_assoc. cbn [app]. rewrite app_assoc.
    rewrite loop_dotdot by assumption. apply IH; assumption.
Qed.

End DotDot.

(* ---------- the whole reference path: k "../", then canonical segments ---------- *)
Definition seg_ok (st : scheme_type) (s : list N) : bool := good_seg s && forallb (no_spec_bslash st) s.

Lemma seg_ok_parts st s : seg_ok st s = true -> good_seg s = true /\ forallb (no_spec_bslash st) s = true.
Proof. unfold seg_ok. intros H. apply andb_true_iff in H. exact H. Qed.

Lemma segs_ok_good st segs : forallb (seg_ok st) segs = true -> forallb good_seg segs = true.
Proof. apply forallb_impl. intros s H. exact (proj1 (seg_ok_parts st s H)). Qed.

Lemma segs_text_app a b : segs_text (a ++ b) = segs_text a ++ segs_text b.
Proof. unfold segs_text. rewrite map_app, concat_app. reflexivity. Qed.

Lemma Bs_app pre a b : Bs pre (a ++ b) = Bs pre a ++ segs_text b.
Proof. unfold Bs. rewrite segs_text_app, <- !app_assoc. reflexivity. Qed.

Lemma dots_text_bslash st ra : forallb (no_spec_bslash st) (dots_text ra) = true.
Proof.
  induction ra as [|a ra IH]; [reflexivity|]. unfold dots_text. cbn [map concat]. fold (dots_text ra).
  rewrite forallb_app, IH. reflexivity.
Qed.

Lemma segs_text_bslash st segs : forallb (seg_ok st) segs = true -> forallb (no_spec_bslash st) (segs_text segs) = true.
Proof.
  induction segs as [|s segs IH]; intros H; [reflexivity|].
  cbn [forallb] in H. apply andb_true_iff in H. destruct H as [H1 H2].
  unfold segs_text. cbn [map concat]. fold (segs_text segs). rewrite !forallb_app.
  rewrite (proj2 (seg_ok_parts st s H1)), (IH H2). reflexivity.
Qed.

Theorem loop_rel dbg st pre common ra rb tl rest hh :
  st_is_file st = false ->
  forallb no_slash ra = true -> forallb not_wdl_seg ra = true ->
  forallb (seg_ok st) rb = true -> seg_ok st tl = true -> rest_qh rest ->
  parse_path_loop dbg CUrlParser st (nlen pre) (dots_text ra ++ segs_text rb ++ tl ++ rest)
    (Bs pre (common ++ ra)) (nlen (Bs pre (common ++ ra))) [] hh
  = POk (Bs pre (common ++ rb) ++ tl, hh, rest).
Proof.
  intros Hf Hn Hw Hrb Htl Hrest.
  replace (dots_text ra ++ segs_text rb ++ tl ++ rest) with ((dots_text ra ++ segs_text rb ++ tl) ++ rest)
    by (rewrite <- !app_assoc; reflexivity).
  rewrite loop_nonfile; [| exact Hf | | exact Hrest].
  2:{ rewrite !forallb_app, dots_text_bslash, (segs_text_bslash st rb Hrb), (proj2 (seg_ok_parts st tl Htl)). reflexivity. }
  rewrite <- !app_assoc. rewrite loop_dots by assumption.
  rewrite path_loop_canon; [| exact (segs_ok_good st rb Hrb) | exact (proj1 (seg_ok_parts st tl Htl)) | exact Hrest].
  rewrite Bs_app, <- !app_assoc. reflexivity.
Qed.

(* pop_path on  pre "/" seg "/" ... "/" last  cuts the last segment *)
Lemma Bs_skip pre segs t : exists Y, nskipn (nlen pre) (Bs pre segs ++ t) = Y ++ 47 :: t /\ nlen pre + nlen Y + 1 = nlen (Bs pre segs).
Proof.
  unfold Bs. rewrite <- !app_assoc. rewrite nskipn_app_len.
  destruct (rev segs) as [|t1 r1] eqn:Er0.
  - assert (segs = []) as E0 by (rewrite <- (rev_involutive segs), Er0; reflexivity). rewrite E0.
    exists []. cbn. split; [reflexivity|]. unfold nlen. rewrite !app_length. cbn [length]. lia.
  - assert (segs = rev r1 ++ [t1]) as E0 by (rewrite <- (rev_involutive segs), Er0; reflexivity). rewrite E0.
    rewrite segs_text_snoc. exists ([47] ++ segs_text (rev r1) ++ t1). split.
    + rewrite <- !app_assoc. reflexivity.
    + len_lia.
Qed.

Lemma pop_path_Bs st pre segs last : st_is_file st = false -> no_slash last = true ->
  pop_path st (nlen pre) (Bs pre segs ++ last) = POk (Bs pre segs).
Proof.
  intros Hf Hl. rewrite pop_path_nonfile by exact Hf. unfold pop_path.
  pose proof (Bs_len_ge pre segs) as Hg. rewrite nlen_app.
  replace (nlen pre <? nlen (Bs pre segs) + nlen last) with true by lia.
  destruct (Bs_skip pre segs last) as (Y & EY & ELY). rewrite EY.
  rewrite (rfind_app_last 47 Y last) by (rewrite <- no_slash_no_byte; exact Hl).
  cbn [st_is_file andb]. unfold truncate. rewrite ELY. rewrite nfirstn_app_len. reflexivity.
Qed.
