(* Proofs/Idna_Known.v - the computable classes of the known findings of C11 / C12, a small concrete
   adapter, and the witnesses. *)
From RU Require Import Base.Prelude Base.Utf8 Base.U32_c13 Gen.Tables Model.Punycode Model.Uts46.

(* F-C11-1 / F-C11-2: a bidi domain name in which a label classified MixedCaseAscii (all-ASCII,
   not Punycode, no earlier error) was marked by the bidi rule *)
Definition Known_C11 (A : adapter) (cfg : bool) (d : list N) (deny : N) (hy : hyphens) : bool :=
  match process_inner A cfg false hy deny d with
  | IRes _ bidi _ db ap =>
      bidi && existsb (fun lp => match snd lp with
                                 | MixedCaseAscii _ => existsb is_fffd (fst lp)
                                 | _ => false end) (combine (split_on DOT db) ap)
  | IPanic _ => false
  end.

(* F-C12-1: some label of the processed name that did not come from a plain ASCII label begins with xn-- *)
Definition Known_C12 (A : adapter) (cfg : bool) (d : list N) (deny : N) (hy : hyphens) : bool :=
  match process_inner A cfg false hy deny d with
  | IRes _ _ _ db ap =>
      existsb (fun lp => match snd lp with
                         | MixedCaseAscii _ => false
                         | _ => starts_with (fst lp) XN_PREFIX end) (combine (split_on DOT db) ap)
  | IPanic _ => false
  end.

(* a small adapter: identity mapping; U+05D0 is R, ASCII digits are EN, ASCII letters are L *)
Definition toy_bc (c : N) : N :=
  if c =? 1488 then 593
  else if (48 <=? c) && (c <=? 57) then 248
  else if (97 <=? c) && (c <=? 122) then 43
  else 96.
Definition toy : adapter :=
  {| map_normalize := fun l => l; normalize_validate := fun l => l;
     joining_type := fun _ => 0; bidi_class := toy_bc;
     is_mark := fun _ => false; is_virama := fun _ => false |}.

Definition W_C11_1 : list N := [49; 97; 46; 215; 144].                       (* "1a.א" *)
Definition W_C11_2 : list N := [49; 97; 46; 120; 110; 45; 45; 52; 100; 98].  (* "1a.xn--4db" *)
Definition W_C12_1 : list N := [120; 110; 45; 45; 120; 110; 45; 45; 115; 115; 45; 122; 116; 100; 97]. (* xn--xn--ss-ztda *)
Definition W_C12_1_U : list N := [120; 110; 45; 45; 751; 751; 115; 115].   (* xn--˯˯ss *)

Lemma w_c11_1 cfg :
  Known_C11 toy cfg W_C11_1 DENY_EMPTY HAllow = true /\
  to_unicode toy cfg W_C11_1 DENY_EMPTY HAllow = UI false [49; 97; 46; 1488] true.
Proof. destruct cfg; vm_compute; split; reflexivity. Qed.

Lemma w_c11_2 :
  Known_C11 toy false W_C11_2 DENY_EMPTY HAllow = true /\
  to_ascii toy false W_C11_2 DENY_EMPTY HAllow DIgnore = Err /\
  to_user_interface toy false W_C11_2 DENY_EMPTY HAllow never_unicode = UI true W_C11_2 false /\
  to_user_interface toy true W_C11_2 DENY_EMPTY HAllow never_unicode = UIPanic 899.
Proof. vm_compute. repeat split; reflexivity. Qed.

Lemma w_c12_1 :
  Known_C12 toy false W_C12_1 DENY_EMPTY HAllow = true /\
  to_ascii toy false W_C12_1 DENY_EMPTY HAllow DIgnore = Ok (true, W_C12_1) /\
  to_unicode toy false W_C12_1 DENY_EMPTY HAllow = UI false W_C12_1_U false /\
  to_ascii toy false (utf8_encode W_C12_1_U) DENY_EMPTY HAllow DIgnore = Err /\
  to_unicode toy false (utf8_encode W_C12_1_U) DENY_EMPTY HAllow = UI false [120; 110; 45; 45; 65533; 65533; 115; 115] true.
Proof. vm_compute. repeat split; reflexivity. Qed.
