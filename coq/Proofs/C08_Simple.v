(* Proofs/C08_Simple.v - the empty reference, '#f' and '?q': by unfolding parse_url / parse_relative /
   parse_file / fragment_only; what the resulting record means for the accessors through the
   elementary edits of C06_Steps (cut the fragment, cut the query, append a query, append a fragment). *)
From RU Require Import Base.Prelude Base.Utf8 Base.Utf8Facts Model.AsciiSet Gen.Tables Model.PercentEncoding
  Model.HostT Model.UrlRecord Model.Parser Model.Setters Model.WF Model.KnownC08
  Proofs.ListN Proofs.C14_Enc Proofs.C02_Enc Proofs.C02_Parts Proofs.C02_Opaque Proofs.C03_WF Proofs.C06_List Proofs.C06_WFI
  Proofs.C06_Tail Proofs.C06_Steps Proofs.C06_FragQuery Proofs.C08_Input.

(* ---------- the base without fragment / without query and fragment, as records ---------- *)
Definition without_fragment (b : url) : url := url_with b (b_before_fragment b) (query_start b) None.
Definition without_query (b : url) : url := url_with b (b_before_query b) None None.

Lemma url_with_self b : url_with b (ser b) (query_start b) (fragment_start b) = b.
Proof. destruct b; reflexivity. Qed.

Lemma without_fragment_spec dbg b : wf_b b = true ->
  let u' := without_fragment b in
  wf_b u' = true /\ same_front dbg b u' /\ same_main b u' /\ path u' = path b /\ query dbg u' = query dbg b
  /\ fragment dbg u' = Some None /\ query_start u' = query_start b /\ fragment_start u' = None
  /\ ser u' = b_before_fragment b.
Proof.
  intros W u'. subst u'. unfold without_fragment, b_before_fragment.
  destruct (fragment_start b) as [f|] eqn:Ef.
  - destruct (cut_fragment_step dbg b f W Ef) as (W1 & SF1 & SM1 & P1 & Q1 & Qs1 & Ef1 & Es1 & _).
    change (url_with b (nfirstn f (ser b)) (query_start b) None) with (cut_fragment b f).
    split; [exact W1|]. split; [exact SF1|]. split; [exact SM1|]. split; [exact P1|]. split; [exact Q1|].
    split; [rewrite (fragment_eval dbg _ W1), Ef1; reflexivity|]. split; [exact Qs1|]. split; [exact Ef1 | exact Es1].
  - assert (url_with b (ser b) (query_start b) None = b) as -> by (rewrite <- Ef; apply url_with_self).
    split; [exact W|]. split; [apply same_front_refl|]. split; [apply same_main_refl|]. split; [reflexivity|].
    split; [reflexivity|]. split; [rewrite (fragment_eval dbg _ W), Ef; reflexivity|]. split; [reflexivity|].
    split; [exact Ef | reflexivity].
Qed.

Lemma without_query_spec dbg b : wf_b b = true ->
  let u' := without_query b in
  wf_b u' = true /\ same_front dbg b u' /\ same_main b u' /\ path u' = path b
  /\ query_start u' = None /\ fragment_start u' = None /\ ser u' = b_before_query b
  /\ nlen (b_before_query b) <= nlen (ser b).
Proof.
  intros W u'.
  destruct (without_fragment_spec dbg b W) as (W1 & SF1 & SM1 & P1 & _ & _ & Qs1 & Ef1 & Es1).
  set (u1 := without_fragment b) in *.
  assert (nlen (ser u1) <= nlen (ser b)) as L1.
  { rewrite Es1. unfold b_before_fragment. destruct (fragment_start b); [|lia].
    pose proof (nlen_nfirstn_le n (ser b)). unfold nlen, nfirstn in *. rewrite firstn_length. lia. }
  destruct (query_start b) as [q|] eqn:Eq.
  - destruct (cut_query_step dbg u1 q W1 Ef1 Qs1) as (W2 & SF2 & SM2 & P2 & Eq2 & Ef2 & Es2 & Hlt).
    assert (u' = cut_query u1 q) as ->.
    { subst u' u1. unfold without_query, without_fragment, cut_query, url_with, b_before_query, b_before_fragment, truncate, set_query_start, set_ser.
      rewrite Eq. cbn [set_ser set_query_start ser scheme_end username_end host_start host_end hosti port path_start
                        query_start fragment_start].
      f_equal. destruct (fragment_start b) as [f|] eqn:Ef; [|reflexivity].
      pose proof (qf_qf (wf_qf_facts b W)) as Hqf. rewrite Eq, Ef in Hqf.
      rewrite nfirstn_nfirstn by lia. reflexivity. }
    split; [exact W2|]. split; [eapply same_front_trans; eassumption|]. split; [eapply same_main_trans; eassumption|].
    split; [congruence|]. split; [exact Eq2|]. split; [exact Ef2|]. split.
    + rewrite Es2, Es1. unfold b_before_query, b_before_fragment. rewrite Eq.
      destruct (fragment_start b) as [f|] eqn:Ef; [|reflexivity].
      pose proof (qf_qf (wf_qf_facts b W)) as Hqf. rewrite Eq, Ef in Hqf.
      rewrite nfirstn_nfirstn by lia. reflexivity.
    + unfold b_before_query. rewrite Eq. unfold nlen, nfirstn. rewrite firstn_length. lia.
  - assert (u' = u1) as ->.
    { subst u' u1. unfold without_query, without_fragment, b_before_query, b_before_fragment. rewrite Eq.
      destruct (fragment_start b); reflexivity. }
    split; [exact W1|]. split; [exact SF1|]. split; [exact SM1|]. split; [exact P1|].
    split; [congruence|]. split; [exact Ef1|]. split.
    + rewrite Es1. unfold b_before_query, b_before_fragment. rewrite Eq. destruct (fragment_start b); reflexivity.
    + unfold b_before_query. rewrite Eq. destruct (fragment_start b); [|lia].
      unfold nlen, nfirstn. rewrite firstn_length. lia.
Qed.

(* ---------- '?' and '#' parts of the reference on the stripped text ---------- *)
Fixpoint before_hash (l : list N) : list N :=
  match l with [] => [] | c :: r => if c =? 35 then [] else c :: before_hash r end.
Fixpoint after_hash (l : list N) : option (list N) :=
  match l with [] => None | c :: r => if c =? 35 then Some r else after_hash r end.

Lemma query_chars_ntnl r : query_chars true r = before_hash (ntnl r).
Proof.
  induction r as [|c t IH]; [reflexivity|]. cbn [query_chars]. destruct (is_tnl c) eqn:Et.
  - rewrite ntnl_cons_tnl by exact Et. exact IH.
  - rewrite ntnl_cons by exact Et. cbn [before_hash]. rewrite andb_true_r. destruct (c =? 35); [reflexivity|].
    f_equal. exact IH.
Qed.

Lemma query_rest_ntnl r : option_map ntnl (query_rest true r) = after_hash (ntnl r).
Proof.
  induction r as [|c t IH]; [reflexivity|]. cbn [query_rest]. destruct (is_tnl c) eqn:Et.
  - rewrite ntnl_cons_tnl by exact Et. exact IH.
  - rewrite ntnl_cons by exact Et. cbn [after_hash]. rewrite andb_true_r. destruct (c =? 35); [reflexivity|]. exact IH.
Qed.

Lemma frag_of_ntnl r : frag_of r = encode T_FRAGMENT (utf8_encode (ntnl r)).
Proof. reflexivity. Qed.

Lemma clean_query_no_h st t : clean (query_set st) t = true -> forallb no_h t = true.
Proof.
  intros H. apply (forallb_impl not_tnl_hash no_h).
  - intros x Hx. unfold not_tnl_hash in Hx. apply andb_true_iff in Hx. exact (proj2 Hx).
  - eapply clean_forallb; [apply kept_query_set_sat | exact H].
Qed.

Section Simple.
Variables (dbg : bool) (hp hpo : list N -> result host) (hd : host -> list N).
Notation join b input := (parse_url dbg hp hpo hd None (Some b) input).

(* ================= the empty reference ================= *)
Theorem join_empty b input : cannot_be_a_base b = Some false -> ref_text input = [] ->
  join b input = POk (without_fragment b).
Proof.
  intros Hc He. unfold parse_url. set (l := input_new_trim_c0 input). change (ntnl l = []) in He.
  rewrite parse_scheme_first_not_alpha by (rewrite He; exact I).
  unfold inp_starts_with_char. rewrite (inp_next_none l He). rewrite Hc.
  destruct (st_is_file (scheme_type_of (b_scheme b))).
  - unfold parse_file, inp_split_first. rewrite (inp_next_none l He). reflexivity.
  - unfold parse_relative, inp_split_first. rewrite (inp_next_none l He). reflexivity.
Qed.

(* ================= '#' f ================= *)
Definition with_fragment (b : url) (x : list N) : url :=
  url_with b (b_before_fragment b ++ 35 :: x) (query_start b) (Some (nlen (b_before_fragment b))).

Theorem join_frag_eq b input f : usv_list input -> ref_text input = 35 :: f ->
  join b input = (fs <~ to_u32 (nlen (b_before_fragment b)) ;;
                  POk (with_fragment b (encode T_FRAGMENT (utf8_encode f)))).
Proof.
  intros Hu He. unfold parse_url. set (l := input_new_trim_c0 input). change (ntnl l = 35 :: f) in He.
  assert (usv_list l) as Hl by (apply usv_trim; exact Hu).
  rewrite parse_scheme_first_not_alpha by (rewrite He; reflexivity).
  destruct (inp_next_some l 35 f He) as (r & En & Er & _).
  unfold inp_starts_with_char. rewrite En. cbn [N.eqb Pos.eqb].
  unfold fragment_only. rewrite En.
  destruct (to_u32 (nlen (b_before_fragment b))) as [n| |] eqn:Eu; cbn [pbind]; try reflexivity.
  apply to_u32_inv in Eu. destruct Eu as [-> _].
  rewrite parse_fragment_text. rewrite tnl_text_spec by (eapply inp_next_usv; eassumption).
  change (filter not_tnl r) with (ntnl r). rewrite Er.
  unfold with_fragment, url_with. rewrite <- app_assoc. reflexivity.
Qed.

Theorem join_frag b input f : usv_list input -> ref_text input = 35 :: f ->
  nlen (b_before_fragment b) <= U32_MAX_P ->
  join b input = POk (with_fragment b (encode T_FRAGMENT (utf8_encode f))).
Proof. intros Hu He Hb. rewrite (join_frag_eq b input f Hu He), to_u32_ok by exact Hb. reflexivity. Qed.

Theorem join_frag_out b input f u' : usv_list input -> ref_text input = 35 :: f ->
  join b input = POk u' -> u' = with_fragment b (encode T_FRAGMENT (utf8_encode f)).
Proof.
  intros Hu He. rewrite (join_frag_eq b input f Hu He).
  destruct (to_u32 (nlen (b_before_fragment b))); cbn [pbind]; intros H; try discriminate. inversion H. reflexivity.
Qed.

Lemma with_fragment_spec b x : wf_b b = true ->
  let u' := with_fragment b x in
  wf_b u' = true /\ same_front dbg b u' /\ same_main b u' /\ path u' = path b /\ query dbg u' = query dbg b
  /\ fragment dbg u' = Some (Some x)
  /\ ser u' = b_before_fragment b ++ 35 :: x.
Proof.
  intros W u'.
  destruct (without_fragment_spec dbg b W) as (W1 & SF1 & SM1 & P1 & Q1 & _ & Qs1 & Ef1 & Es1).
  destruct (add_fragment_step dbg (without_fragment b) x W1 Ef1) as (W2 & SF2 & SM2 & P2 & Q2 & Qs2 & F2).
  assert (u' = add_fragment (without_fragment b) x) as ->.
  { subst u'. unfold with_fragment, add_fragment, without_fragment, url_with, set_fragment_start, set_ser.
    cbn [set_ser set_fragment_start ser scheme_end username_end host_start host_end hosti port path_start
         query_start fragment_start]. reflexivity. }
  split; [exact W2|]. split; [eapply same_front_trans; eassumption|]. split; [eapply same_main_trans; eassumption|].
  split; [congruence|]. split; [congruence|]. split; [exact F2|].
  unfold add_fragment. cbn [set_ser set_fragment_start ser]. rewrite Es1. reflexivity.
Qed.

(* ================= '?' q ================= *)
Definition b_st (b : url) : scheme_type := scheme_type_of (b_scheme b).

(* the query text and the fragment the reference '?' ++ q leads to *)
Definition ref_query (st : scheme_type) (q : list N) : list N :=
  encode (query_set st) (utf8_encode (before_hash q)).
Definition ref_fragment (q : list N) : option (list N) :=
  option_map (fun x => encode T_FRAGMENT (utf8_encode x)) (after_hash q).

Definition with_query (b : url) (Q : list N) (F : option (list N)) : url :=
  url_with b (b_before_query b ++ 63 :: Q ++ qf_ftext F) (Some (nlen (b_before_query b)))
           (match F with Some _ => Some (nlen (b_before_query b) + 1 + nlen Q) | None => None end).

Lemma with_query_spec b Q F : wf_b b = true -> forallb no_h Q = true ->
  let u' := with_query b Q F in
  wf_b u' = true /\ same_front dbg b u' /\ same_main b u' /\ path u' = path b
  /\ query dbg u' = Some (Some Q) /\ fragment dbg u' = Some F.
Proof.
  intros W HQ u'.
  destruct (without_query_spec dbg b W) as (W2 & SF2 & SM2 & P2 & Eq2 & Ef2 & Es2 & _).
  set (u2 := without_query b) in *.
  destruct (add_query_step dbg u2 Q W2 Ef2 Eq2 HQ) as (W3 & SF3 & SM3 & P3 & Q3 & Ef3).
  set (u3 := add_query u2 Q) in *.
  assert (ser u3 = b_before_query b ++ 63 :: Q) as Es3.
  { subst u3. unfold add_query. cbn [set_ser set_query_start ser]. rewrite Es2. reflexivity. }
  destruct F as [x|].
  - destruct (add_fragment_step dbg u3 x W3 Ef3) as (W4 & SF4 & SM4 & P4 & Q4 & Qs4 & F4).
    assert (u' = add_fragment u3 x) as ->.
    { subst u' u3 u2. unfold with_query, add_fragment, add_query, without_query, url_with, qf_ftext, set_fragment_start, set_query_start, set_ser.
      cbn [set_ser set_query_start set_fragment_start ser scheme_end username_end host_start host_end hosti port
           path_start query_start fragment_start].
      f_equal.
      - rewrite <- app_assoc. reflexivity.
      - rewrite nlen_app, nlen_cons. f_equal. lia. }
    split; [exact W4|]. split; [eapply same_front_trans; [|exact SF4]; eapply same_front_trans; eassumption|].
    split; [eapply same_main_trans; [|exact SM4]; eapply same_main_trans; eassumption|].
    split; [congruence|]. split; [congruence|]. exact F4.
  - assert (u' = u3) as ->.
    { subst u' u3 u2. unfold with_query, add_query, without_query, url_with, qf_ftext, set_fragment_start, set_query_start, set_ser.
      cbn [set_ser set_query_start set_fragment_start ser scheme_end username_end host_start host_end hosti port
           path_start query_start fragment_start]. rewrite app_nil_r. reflexivity. }
    split; [exact W3|]. split; [eapply same_front_trans; eassumption|].
    split; [eapply same_main_trans; eassumption|]. split; [congruence|]. split; [exact Q3|].
    rewrite (fragment_eval dbg _ W3), Ef3. reflexivity.
Qed.

(* the record the '?' arm builds *)
Lemma query_arm b l q s qs fs : wf_b b = true -> usv_list l -> ntnl l = 63 :: q ->
  parse_query_and_fragment None CUrlParser (b_st b) (scheme_end b) (b_before_query b) l = POk (s, qs, fs) ->
  url_with b s qs fs = with_query b (ref_query (b_st b) q) (ref_fragment q)
  /\ forallb no_h (ref_query (b_st b) q) = true.
Proof.
  intros W Hl He H.
  destruct (pqf_out None (b_st b) (scheme_end b) _ l s qs fs Hl eq_refl H) as (Es & Eqs & Efs & _ & _ & Cq & _).
  destruct (inp_next_some l 63 q He) as (r & En & Er & _).
  assert (pqf_q (b_st b) l = Some (ref_query (b_st b) q)) as Pq.
  { unfold pqf_q. rewrite En. cbn [N.eqb Pos.eqb]. unfold query_of, ref_query. rewrite query_chars_ntnl, Er. reflexivity. }
  assert (pqf_f l = ref_fragment q) as Pf.
  { unfold pqf_f. rewrite En. cbn [N.eqb Pos.eqb]. unfold ref_fragment. rewrite <- Er, <- query_rest_ntnl.
    destruct (query_rest true r); reflexivity. }
  rewrite Pq in *. rewrite Pf in *. cbn [opt_clean] in Cq. split; [|exact (clean_query_no_h _ _ Cq)].
  subst s qs fs. unfold with_query, qf_text, qf_qtext, qf_qs, qf_fs.
  f_equal. destruct (ref_fragment q); [|reflexivity]. f_equal. cbn [qf_qtext]. rewrite nlen_cons. lia.
Qed.

Theorem join_query b input q u' : wf_b b = true -> cannot_be_a_base b = Some false ->
  usv_list input -> ref_text input = 63 :: q ->
  join b input = POk u' ->
  u' = with_query b (ref_query (b_st b) q) (ref_fragment q)
  /\ forallb no_h (ref_query (b_st b) q) = true.
Proof.
  intros W Hc Hu He. unfold parse_url. set (l := input_new_trim_c0 input). change (ntnl l = 63 :: q) in He.
  assert (usv_list l) as Hl by (apply usv_trim; exact Hu).
  rewrite parse_scheme_first_not_alpha by (rewrite He; reflexivity).
  destruct (inp_next_some l 63 q He) as (r & En & Er & _).
  unfold inp_starts_with_char. rewrite En. cbn [N.eqb Pos.eqb]. rewrite Hc.
  fold (b_st b).
  assert (forall X : pres url,
    (s3 <~ parse_query_and_fragment None CUrlParser (b_st b) (scheme_end b) (b_before_query b) l ;;
     (let '(s, qs, fs) := s3 in POk (url_with b s qs fs))) = POk u' -> X = X ->
    u' = with_query b (ref_query (b_st b) q) (ref_fragment q) /\ forallb no_h (ref_query (b_st b) q) = true) as K.
  { intros _ H _. destruct (parse_query_and_fragment None CUrlParser (b_st b) (scheme_end b) (b_before_query b) l)
      as [[[s qs] fs]| |] eqn:E; cbn [pbind] in H; try discriminate.
    inversion H; subst u'. eapply query_arm; eassumption. }
  destruct (st_is_file (b_st b)).
  - unfold parse_file, inp_split_first. rewrite En. cbn [is_slash_or_bslash N.eqb Pos.eqb orb].
    intros H. exact (K (POk u') H eq_refl).
  - unfold parse_relative, inp_split_first. rewrite En. cbn [N.eqb Pos.eqb].
    intros H. exact (K (POk u') H eq_refl).
Qed.

End Simple.
