(* Proofs/C04_ParseTotal.v - Parser::parse_url reaches none of its panic sites whenever the file scheme
   is not involved: every input (no scalar-value hypothesis), with or without a base; the base has to be
   well-formed (wf_b) and, when its scheme is special, must not be cannot-be-a-base (true of every special
   URL the parser produces; wf_b alone does not say it - see parse_statement_refuted in Properties/C04.v).
   Built on the path-state totality of C04_PathTotal.v and the authority states of C04_Parse.v. *)
From RU Require Import Base.Prelude Base.Utf8 Model.AsciiSet Gen.Tables Model.PercentEncoding
  Model.HostT Model.UrlRecord Model.Parser Model.WF
  Proofs.ListN Proofs.C06_List Proofs.C02_Parts Proofs.C03_WF Proofs.C06_WFI Proofs.C06_Tail Proofs.C06_Steps
  Proofs.C04_Parse Proofs.C04_PathTotal.

(* ---------- small facts ---------- *)
Lemma match47 {A} (o : option N) (x y : A) :
  (match o with Some 47 => x | _ => y end) = if (match o with Some d => d =? 47 | None => false end) then x else y.
Proof.
  destruct o as [[|p]|]; try reflexivity.
  do 6 (destruct p as [p|p|]; try reflexivity).
Qed.

Lemma seg_inv_snoc ps k a : ps <= nlen a + 1 -> k <= nlen a + 1 -> seg_inv ps k (a ++ [47]) (nlen (a ++ [47])).
Proof.
  intros H1 H2. unfold seg_inv. rewrite nlen_app. change (nlen [47]) with 1.
  repeat split; try lia. replace (nlen a + 1 - 1) with (nlen a) by lia. apply nnth_last.
Qed.

Lemma st_nf_special : st_is_file STSpecialNotFile = false. Proof. reflexivity. Qed.
Lemma st_nf_notspecial : st_is_file STNotSpecial = false. Proof. reflexivity. Qed.

(* ---------- the start of the path state ---------- *)
Section PathStart.
Variables (dbg : bool) (st : scheme_type).
Hypothesis Hnf : st_is_file st = false.

Lemma loop_drop_tnl ps l ser ss hh :
  parse_path_loop dbg CUrlParser st ps l ser ss [] hh
  = parse_path_loop dbg CUrlParser st ps (drop_while is_tnl l) ser ss [] hh.
Proof.
  induction l as [|c r IH]; [reflexivity|]. cbn [drop_while]. destruct (is_tnl c) eqn:Et; [|reflexivity].
  cbn [parse_path_loop]. rewrite Et. cbn [push_pending]. exact IH.
Qed.

(* the empty segment in front of the first '/' (or of the end) *)
Lemma finish_empty_seg ps (ser : list N) (ews : bool) hh :
  finish_segment dbg st ps (if ews then ser ++ [47] else ser) (nlen ser) ews hh
  = POk (if ews then ser ++ [47] else ser, hh).
Proof.
  unfold finish_segment.
  assert (slice_o (if ews then ser ++ [47] else ser) (nlen ser)
            (if ews then nlen (if ews then ser ++ [47] else ser) - 1 else nlen (if ews then ser ++ [47] else ser)) = Some []) as Es.
  { destruct ews.
    - rewrite nlen_app. change (nlen [47]) with 1. replace (nlen ser + 1 - 1) with (nlen ser) by lia.
      rewrite slice_o_some by (rewrite ?nlen_app; lia). rewrite N.sub_diag. reflexivity.
    - rewrite slice_o_some by lia. rewrite N.sub_diag. reflexivity. }
  rewrite Es. cbn [of_option pbind is_double_dot is_single_dot]. rewrite Hnf. reflexivity.
Qed.

Theorem parse_path_ok ps k hh ser l : k <= ps + 1 -> seg_inv ps k ser (nlen ser) ->
  exists s' rem, parse_path dbg CUrlParser st hh ps ser l = POk (s', hh, rem) /\ agree_pre k ser s' /\ rem_ok rem.
Proof. intros Hk I. unfold parse_path. apply (loop_ok dbg st ps k Hnf Hk). exact I. Qed.

Theorem parse_path_start_ok hh ser l :
  exists s' rem, parse_path_start dbg CUrlParser st hh ser l = POk (s', hh, rem)
                 /\ agree_pre (nlen ser) ser s' /\ rem_ok rem.
Proof.
  unfold parse_path_start.
  assert (forall X, exists s' rem, parse_path dbg CUrlParser st hh (nlen ser) (ser ++ [47]) X = POk (s', hh, rem)
                                   /\ agree_pre (nlen ser) ser s' /\ rem_ok rem) as Hpush.
  { intros X. destruct (parse_path_ok (nlen ser) (nlen ser) hh (ser ++ [47]) X ltac:(lia)
                          (seg_inv_snoc (nlen ser) (nlen ser) ser ltac:(lia) ltac:(lia))) as (s' & rem & E & Ha & Hr).
    exists s', rem. split; [exact E|]. split; [|exact Hr].
    eapply agree_pre_trans; [apply agree_pre_app_le; lia | exact Ha]. }
  unfold inp_split_first. destruct (inp_next l) as [[c r]|] eqn:En.
  - destruct (st_is_special st).
    + destruct (ends_with_byte 47 ser) eqn:Ee; cbn [negb].
      * apply ends_with_byte_nnth in Ee. destruct Ee as [E1 E2].
        apply parse_path_ok; [lia|]. unfold seg_inv. repeat split; try lia. exact E2.
      * destruct (is_slash_or_bslash c); apply Hpush.
    + destruct ((c =? 63) || (c =? 35)) eqn:Eq.
      * exists ser, l. split; [reflexivity|]. split; [reflexivity|]. unfold rem_ok. rewrite En. exact Eq.
      * destruct (c =? 47) eqn:E47; [|apply Hpush].
        apply N.eqb_eq in E47. subst c. unfold parse_path. rewrite loop_drop_tnl.
        unfold inp_next in En. destruct (drop_while is_tnl l) as [|c' r'] eqn:Ed; [discriminate|].
        inversion En; subst c' r'.
        assert (is_tnl 47 = false) as Et by reflexivity.
        cbn [parse_path_loop]. rewrite Et. cbn [ctx_eqb negb andb push_pending]. rewrite N.eqb_refl. cbn [orb].
        rewrite (finish_empty_seg (nlen ser) ser true hh). cbn [pbind].
        destruct (loop_ok dbg st (nlen ser) (nlen ser) Hnf ltac:(lia) r (ser ++ [47]) (nlen (ser ++ [47])) [] hh
                    (seg_inv_snoc (nlen ser) (nlen ser) ser ltac:(lia) ltac:(lia))) as (s' & rem & E & Ha & Hr).
        exists s', rem. split; [exact E|]. split; [|exact Hr].
        eapply agree_pre_trans; [apply agree_pre_app_le; lia | exact Ha].
  - assert (exists s' rem, parse_path dbg CUrlParser st hh (nlen ser) ser l = POk (s', hh, rem)
                           /\ agree_pre (nlen ser) ser s' /\ rem_ok rem) as Hnone.
    { unfold parse_path. rewrite loop_drop_tnl. unfold inp_next in En.
      destruct (drop_while is_tnl l) as [|c' r']; [|discriminate].
      cbn [parse_path_loop push_pending]. rewrite (finish_empty_seg (nlen ser) ser false hh). cbn [pbind].
      unfold file_path_fixup. rewrite Hnf. exists ser, []. split; [reflexivity|]. split; [reflexivity | exact rem_ok_nil]. }
    destruct (st_is_special st); [|exact Hnone].
    destruct (ends_with_byte 47 ser) eqn:Ee; cbn [negb]; [|apply Hpush].
    apply ends_with_byte_nnth in Ee. destruct Ee as [E1 E2].
    apply parse_path_ok; [lia|]. unfold seg_inv. repeat split; try lia. exact E2.
Qed.
End PathStart.

(* ---------- with_query_and_fragment: its assert!s ---------- *)
Lemma pqf_tail_ok ovr st se ue hs he hi port ps1 ser1 rem : rem_ok rem ->
  (' (ser2, qs, fs) <~ parse_query_and_fragment ovr CUrlParser st se ser1 rem ;;
   POk (mkUrl ser2 se ue hs he hi port ps1 qs fs)) <> PPanic.
Proof.
  intros Hr. pose proof (pqf_no_panic ovr CUrlParser st se ser1 rem Hr) as Hq.
  destruct (parse_query_and_fragment ovr CUrlParser st se ser1 rem) as [[[s2 qs] fs]| |]; cbn [pbind];
    [discriminate | discriminate | congruence].
Qed.

Lemma css_dot_false l : nfirstn 3 l = [58; 47; 46] -> starts_with s_css l = false.
Proof. intros H. rewrite starts_with_nfirstn. change (nlen s_css) with 3. rewrite H. reflexivity. Qed.

Theorem wqf_ok ovr st se ue hs he hi port ps ser rem : rem_ok rem ->
  (ps = se + 3 -> nfirstn 3 (nskipn se ser) = [58; 47; 46] -> nnth ser ps = Some 47) ->
  with_query_and_fragment ovr CUrlParser st se ue hs he hi port ps ser rem <> PPanic.
Proof.
  intros Hr Hc. unfold with_query_and_fragment.
  destruct (ps =? se + 1) eqn:E1.
  - apply N.eqb_eq in E1. destruct (starts_with s_ss (nskipn ps ser)) eqn:Ess.
    + assert (starts_with s_css (nskipn se (nfirstn ps ser ++ [47; 46] ++ nskipn ps ser)) = false) as Ea.
      { assert (ps <= nlen ser) as Hl.
        { destruct (N.le_gt_cases ps (nlen ser)) as [G|G]; [exact G|].
          rewrite nskipn_all in Ess by lia. discriminate. }
        rewrite nskipn_app_le by (rewrite nlen_nfirstn by exact Hl; lia).
        subst ps. replace (se + 1) with (se + 1) at 1 by reflexivity. rewrite nskipn_nfirstn_comm.
        destruct (nskipn se ser) as [|c t]; [reflexivity|]. change (nfirstn 1 (c :: t)) with [c].
        cbn [app s_css starts_with]. change (47 =? 46) with false. rewrite !andb_false_r. reflexivity. }
      rewrite Ea. cbn [negb passert pbind]. apply pqf_tail_ok. exact Hr.
    + assert (starts_with s_css (nskipn se ser) = false) as Ea.
      { subst ps. replace (se + 1) with (1 + se) in Ess by lia. rewrite <- nskipn_nskipn in Ess.
        destruct (nskipn se ser) as [|c t]; [reflexivity|].
        change (nskipn 1 (c :: t)) with t in Ess. cbn [s_css starts_with]. unfold s_ss in Ess. cbn [starts_with] in Ess.
        rewrite Ess. apply andb_false_r. }
      rewrite Ea. cbn [negb passert pbind]. apply pqf_tail_ok. exact Hr.
  - destruct ((ps =? se + 3) && list_eqb (nfirstn (ps - se) (nskipn se ser)) [58; 47; 46]) eqn:E2.
    + apply andb_true_iff in E2. destruct E2 as [E2 E3]. apply N.eqb_eq in E2. apply list_eqb_spec in E3.
      replace (ps - se) with 3 in E3 by lia. pose proof (Hc E2 E3) as H47. rewrite H47.
      rewrite N.eqb_refl. cbn [passert pbind].
      rewrite match47. destruct (match nnth ser (ps + 1) with Some d => d =? 47 | None => false end) eqn:Ed.
      * rewrite (css_dot_false _ E3). cbn [negb passert pbind]. apply pqf_tail_ok. exact Hr.
      * assert (starts_with s_css (nskipn se (nfirstn se ser ++ [58] ++ nskipn ps ser)) = false) as Ea.
        { assert (se <= nlen ser) as Hl.
          { destruct (N.le_gt_cases se (nlen ser)) as [G|G]; [exact G|].
            rewrite nskipn_all in E3 by lia. discriminate. }
          rewrite nskipn_app_ge by (rewrite nlen_nfirstn by exact Hl; lia).
          rewrite nlen_nfirstn by exact Hl. rewrite N.sub_diag, nskipn_0.
          rewrite (nskipn_cons_of_nnth _ _ _ H47).
          cbn [app s_css starts_with]. rewrite !N.eqb_refl. cbn [andb].
          pose proof (nnth_nskipn ser (ps + 1) 0) as Hn. rewrite N.add_0_r in Hn. rewrite head_nnth in Hn.
          destruct (nskipn (ps + 1) ser) as [|d t]; [reflexivity|]. rewrite <- Hn in Ed.
          rewrite N.eqb_sym, Ed. reflexivity. }
        rewrite Ea. cbn [negb passert pbind]. apply pqf_tail_ok. exact Hr.
    + cbn [pbind]. apply pqf_tail_ok. exact Hr.
Qed.

(* ---------- the authority states only append ---------- *)
Lemma userinfo_loop_app l : forall n ser uend hpw hun ser1 uend1 hpw1 hun1,
  userinfo_loop l n ser uend hpw hun = POk (ser1, uend1, hpw1, hun1) -> exists x, ser1 = ser ++ x.
Proof.
  assert (forall ser : list N, exists x, ser = ser ++ x) as Hrefl by (intros s; exists []; rewrite app_nil_r; reflexivity).
  induction l as [|c r IH]; intros n ser uend hpw hun ser1 uend1 hpw1 hun1 H.
  - cbn [userinfo_loop] in H. destruct (n =? 0); [|discriminate]. inversion H; subst. apply Hrefl.
  - cbn [userinfo_loop] in H. destruct (n =? 0); [inversion H; subst; apply Hrefl|].
    destruct (is_tnl c); [eapply IH; exact H|].
    destruct ((c =? 58) && match uend with None => true | Some _ => false end).
    + destruct (to_u32 (nlen ser)) as [ue| |]; cbn [pbind] in H; try discriminate.
      destruct (0 <? n - 1).
      * apply IH in H. destruct H as [x ->]. rewrite <- app_assoc. eexists. reflexivity.
      * eapply IH; exact H.
    + apply IH in H. destruct H as [x ->]. unfold push_encoded. rewrite <- app_assoc. eexists. reflexivity.
Qed.

Lemma parse_userinfo_app st ser l ser1 ue rem :
  parse_userinfo st ser l = POk (ser1, ue, rem) -> exists x, ser1 = ser ++ x.
Proof.
  assert (exists x, ser = ser ++ x) as Hrefl by (exists []; rewrite app_nil_r; reflexivity).
  unfold parse_userinfo. destruct (scan_last_at (st_is_special st) l 0 None) as [[n rm]|].
  - destruct n as [|p].
    + destruct (inp_next rm) as [[c r]|]; [|discriminate].
      destruct ((c =? 47) || (c =? 63) || (c =? 35) || st_is_special st && (c =? 92)); [discriminate|].
      destruct (to_u32 (nlen ser)); cbn [pbind]; try discriminate. intros H. inversion H; subst. exact Hrefl.
    + destruct (userinfo_loop l (N.pos p) ser None false false) as [[[[s1 uend] hpw] hun]| |] eqn:E; cbn [pbind]; try discriminate.
      apply userinfo_loop_app in E. destruct E as [x ->].
      match goal with |- pbind ?e _ = _ -> _ => destruct e; cbn [pbind]; try discriminate end.
      intros H. inversion H; subst. destruct (hun || hpw); [rewrite <- app_assoc|]; eexists; reflexivity.
  - destruct (to_u32 (nlen ser)); cbn [pbind]; try discriminate. intros H. inversion H; subst. exact Hrefl.
Qed.

Lemma parse_host_and_port_app hp hpo hd ctx st se ser l ser2 he hi port rem :
  parse_host_and_port hp hpo hd ctx st se ser l = POk (ser2, he, hi, port, rem) -> exists x, ser2 = ser ++ x.
Proof.
  unfold parse_host_and_port.
  destruct (parse_host hp hpo st l) as [[host remaining]| |]; cbn [pbind]; try discriminate.
  destruct (to_u32 (nlen (ser ++ hd host))); cbn [pbind]; try discriminate.
  match goal with |- pbind ?e _ = _ -> _ => destruct e; cbn [pbind]; try discriminate end.
  destruct (inp_split_prefix_char 58 remaining) as [rm|].
  - destruct (parse_port ctx (default_port (nfirstn se (ser ++ hd host))) rm) as [[pt rm2]| |]; cbn [pbind]; try discriminate.
    intros H. inversion H; subst. destruct port; [rewrite <- app_assoc|]; eexists; reflexivity.
  - intros H. inversion H; subst. eexists; reflexivity.
Qed.

(* ---------- after "//" ---------- *)
Section Auth.
Variable dbg : bool.
Variable hp hpo : list N -> result host.
Variable hd : host -> list N.
Variable ovr : option (list N -> list N).

Theorem after_double_slash_ok st se ser l : st_is_file st = false -> nlen ser = se + 1 ->
  after_double_slash dbg hp hpo hd ovr CUrlParser st se ser l <> PPanic.
Proof.
  intros Hnf Hl. unfold after_double_slash.
  pose proof (parse_userinfo_no_panic st (ser ++ [47; 47]) l) as Hu.
  destruct (parse_userinfo st (ser ++ [47; 47]) l) as [[[ser1 ue] rm]| |] eqn:Eu; cbn [pbind];
    [|discriminate|congruence].
  apply parse_userinfo_app in Eu. destruct Eu as [x ->].
  du32 (nlen ((ser ++ [47; 47]) ++ x)) hs Ehs.
  pose proof (parse_host_and_port_no_panic hp hpo hd CUrlParser st se ((ser ++ [47; 47]) ++ x) rm) as Hh.
  destruct (parse_host_and_port hp hpo hd CUrlParser st se ((ser ++ [47; 47]) ++ x) rm)
    as [[[[[ser2 he] hi] port] rm2]| |] eqn:Eh; cbn [pbind]; [|discriminate|congruence].
  apply parse_host_and_port_app in Eh. destruct Eh as [y ->].
  match goal with |- (if ?c then _ else _) <> _ => destruct c; [discriminate|] end.
  du32 (nlen (((ser ++ [47; 47]) ++ x) ++ y)) ps Eps. apply to_u32_inv in Eps. destruct Eps as [-> _].
  destruct (parse_path_start_ok dbg st Hnf true (((ser ++ [47; 47]) ++ x) ++ y) rm2) as (s3 & rem & E & Ha & Hr).
  rewrite E. cbn [pbind]. apply wqf_ok; [exact Hr|].
  intros Hps H3. exfalso.
  (* the three bytes at scheme_end are ':' '/' '/' *)
  unfold agree_pre in Ha. rewrite <- (nfirstn_nskipn (nlen (((ser ++ [47; 47]) ++ x) ++ y)) s3) in H3.
  rewrite Ha in H3. rewrite (nfirstn_all (nlen (((ser ++ [47; 47]) ++ x) ++ y)) (((ser ++ [47; 47]) ++ x) ++ y)) in H3 by lia.
  rewrite <- !app_assoc in H3. rewrite nskipn_app_le in H3 by lia.
  assert (nlen (nskipn se ser) = 1) as L1 by (rewrite nlen_nskipn; lia).
  destruct (nskipn se ser) as [|c [|d t]]; [discriminate L1 | | rewrite !nlen_cons in L1; lia].
  cbn in H3. discriminate H3.
Qed.

Lemma cbb_path_rem_ok l : forall ser, rem_ok (snd (parse_cannot_be_a_base_path CUrlParser ser l)).
Proof.
  induction l as [|c r IH]; intros ser; cbn [parse_cannot_be_a_base_path]; [exact rem_ok_nil|].
  destruct (is_tnl c) eqn:Et; [apply IH|]. cbn [ctx_eqb]. rewrite andb_true_r. fold (is_qh c).
  destruct (is_qh c) eqn:Eq; [|apply IH]. cbn [snd]. apply rem_ok_cons; assumption.
Qed.

Theorem parse_non_special_ok se ser l : nlen ser = se + 1 ->
  parse_non_special dbg hp hpo hd ovr CUrlParser STNotSpecial se ser l <> PPanic.
Proof.
  intros Hl. unfold parse_non_special. destruct (inp_split_prefix_str s_ss l) as [rm|].
  - apply after_double_slash_ok; [reflexivity | exact Hl].
  - du32 (nlen ser) ps Eps. apply to_u32_inv in Eps. destruct Eps as [-> _].
    destruct (inp_split_prefix_char 47 l) as [rm|].
    + destruct (parse_path_ok dbg STNotSpecial st_nf_notspecial (nlen ser) (nlen ser + 1) false (ser ++ [47]) rm ltac:(lia)
                  (seg_inv_snoc (nlen ser) (nlen ser + 1) ser ltac:(lia) ltac:(lia))) as (s' & rem & E & _ & Hr).
      rewrite E. cbn [pbind]. apply wqf_ok; [exact Hr | lia].
    + cbn [pbind]. pose proof (cbb_path_rem_ok l ser) as Hr.
      destruct (parse_cannot_be_a_base_path CUrlParser ser l) as [s1 rem]. cbn [snd] in Hr.
      apply wqf_ok; [exact Hr | lia].
Qed.

(* ---------- facts about a well-formed base ---------- *)
Lemma bq_shape b : wf_b b = true ->
  b_before_query b = nfirstn (path_end b) (ser b) /\ path_start b <= path_end b /\ path_end b <= nlen (ser b).
Proof.
  intros W. pose proof (wf_qf_facts b W) as QF. pose proof (qf_q QF) as Q1. pose proof (qf_f QF) as Q2.
  pose proof (path_start_le_len b W) as L. unfold b_before_query, path_end.
  destruct (query_start b) as [q|]; [split; [reflexivity | lia]|].
  destruct (fragment_start b) as [f|]; [split; [reflexivity | lia]|].
  split; [rewrite nfirstn_all by lia; reflexivity | lia].
Qed.

(* a base that is not cannot-be-a-base has a path that is empty or starts with '/' *)
Lemma base_path_slash b : wf_b b = true -> nnth (ser b) (scheme_end b + 1) = Some 47 ->
  path_start b < path_end b -> nnth (ser b) (path_start b) = Some 47.
Proof.
  intros W Hs Hlt. destruct (bq_shape b W) as (_ & _ & Hpe). apply wf_b_iff in W. destruct W as (_ & HA & HQ).
  destruct HQ as (_ & _ & _ & Hq & _).
  destruct (has_authority_b b).
  - destruct HA as [(_ & _ & _ & _ & A5 & _) PS].
    assert (forall c, no_qh c = false -> byte_eqb (ser b) (path_start b) c = true -> False) as Hno.
    { intros c Hc Hb. apply byte_eqb_true_iff in Hb. rewrite (nskipn_cons_of_nnth _ _ _ Hb) in Hq.
      replace (path_end b - path_start b) with (1 + (path_end b - path_start b - 1)) in Hq by lia.
      unfold nfirstn in Hq. rewrite N2Nat.inj_add in Hq. change (N.to_nat 1) with 1%nat in Hq.
      cbn [Nat.add firstn forallb] in Hq. rewrite Hc in Hq. discriminate. }
    destruct PS as [PS|[PS|[PS|PS]]].
    + exfalso. lia.
    + apply byte_eqb_true_iff. exact PS.
    + exfalso. apply (Hno 63); [reflexivity | exact PS].
    + exfalso. apply (Hno 35); [reflexivity | exact PS].
  - destruct HA as (_ & _ & _ & _ & _ & _ & [N1|(N1 & _ & _ & N4)]).
    + rewrite N1. exact Hs.
    + unfold s_ss in N4. pose proof (nnth_nskipn (ser b) (path_start b) 0) as Hn. rewrite N.add_0_r in Hn.
      rewrite head_nnth in Hn. destruct (nskipn (path_start b) (ser b)) as [|c t]; [discriminate|].
      cbn [starts_with] in N4. apply andb_true_iff in N4. destruct N4 as [N4 _]. apply N.eqb_eq in N4. subst c.
      symmetry. exact Hn.
Qed.
End Auth.

(* ---------- relative references against a well-formed base ---------- *)
Section Rel.
Variable dbg : bool.
Variable hp hpo : list N -> result host.
Variable hd : host -> list N.
Variable ovr : option (list N -> list N).

Lemma fragment_only_ok b l : fragment_only b l <> PPanic.
Proof. unfold fragment_only. du32 (nlen (b_before_fragment b)) fs E. discriminate. Qed.

(* the path-relative arm: what is left of the base path after pop_path, with the '/' the parser adds *)
Lemma pop_base_ok st b (l : list N) : wf_b b = true -> st_is_file st = false ->
  nnth (ser b) (scheme_end b + 1) = Some 47 -> inp_is_empty l = false ->
  exists s1, pop_path st (path_start b) (b_before_query b) = POk s1
    /\ let s2 := if (nlen s1 =? path_start b) && (st_is_special (scheme_type_of (b_scheme b)) || negb (inp_is_empty l))
                 then s1 ++ [47] else s1 in
       seg_inv (path_start b) (path_start b + 1) s2 (nlen s2) /\ nnth s2 (path_start b) = Some 47.
Proof.
  intros W Hnf Hs He. destruct (bq_shape b W) as (Ebq & P1 & P2).
  assert (nlen (b_before_query b) = path_end b) as Lbq by (rewrite Ebq; apply nlen_nfirstn; exact P2).
  destruct (path_start b <? path_end b) eqn:Elt.
  - assert (nnth (b_before_query b) (path_start b) = Some 47) as Hb.
    { rewrite Ebq. rewrite nnth_nfirstn by lia. apply base_path_slash; [exact W | exact Hs | lia]. }
    destruct (pop_path_ok st (path_start b) Hnf (b_before_query b) (path_start b) ltac:(lia) Hb) as (n & En & N1 & N2 & N3).
    exists (nfirstn n (b_before_query b)). split; [exact En|].
    rewrite He. cbn [negb]. rewrite orb_true_r, andb_true_r.
    rewrite nlen_nfirstn by exact N2. replace (n =? path_start b) with false by lia.
    destruct (seg_inv_trunc (path_start b) (path_start b + 1) (b_before_query b) n ltac:(lia) ltac:(lia) ltac:(lia) N2 N3) as [I _].
    split; [exact I|]. rewrite nnth_nfirstn by lia. exact Hb.
  - exists (b_before_query b). split.
    + unfold pop_path. rewrite Lbq, Elt. reflexivity.
    + rewrite He. cbn [negb]. rewrite orb_true_r, andb_true_r.
      rewrite Lbq. replace (path_end b =? path_start b) with true by lia.
      split; [apply seg_inv_snoc; lia|]. rewrite nnth_app_ge by lia. rewrite Lbq.
      replace (path_start b - path_end b) with 0 by lia. reflexivity.
Qed.

Theorem parse_relative_ok st b l : wf_b b = true -> st_is_file st = false ->
  nnth (ser b) (scheme_end b + 1) = Some 47 ->
  parse_relative dbg hp hpo hd ovr CUrlParser st b l <> PPanic.
Proof.
  intros W Hnf Hs.
  destruct (wf_scheme_facts b W) as (S1 & S2 & S3).
  pose proof (path_start_le_len b W) as PL.
  assert (nlen (nfirstn (path_start b) (ser b)) = path_start b) as La by (apply nlen_nfirstn; exact PL).
  destruct (inp_next l) as [[c r]|] eqn:En.
  2:{ unfold parse_relative, inp_split_first. rewrite En. discriminate. }
  assert (inp_is_empty l = false) as He by (unfold inp_is_empty; rewrite En; reflexivity).
  destruct (pop_base_ok st b l W Hnf Hs He) as (s1 & Epop & I2 & H2). cbv zeta in I2, H2.
  unfold parse_relative, inp_split_first. rewrite En.
  destruct (c =? 63) eqn:E63.
  { pose proof (pqf_no_panic ovr CUrlParser st (scheme_end b) (b_before_query b) l) as Hq.
    rewrite En in Hq. specialize (Hq ltac:(unfold is_qh; rewrite E63; reflexivity)).
    destruct (parse_query_and_fragment ovr CUrlParser st (scheme_end b) (b_before_query b) l) as [[[s qs] fs]| |];
      cbn [pbind]; [discriminate | discriminate | congruence]. }
  destruct (c =? 35); [apply fragment_only_ok|].
  destruct ((c =? 47) || (c =? 92) && st_is_special st).
  - destruct (inp_count_matching (fun d => (d =? 47) || (d =? 92) && st_is_special st) l) as [slashes remaining].
    destruct (2 <=? slashes).
    + unfold dassert. apply byte_eqb_nnth in S2. rewrite S2. rewrite N.eqb_refl. cbn [negb]. rewrite andb_false_r. cbn [pbind].
      assert (nlen (nfirstn (scheme_end b + 1) (ser b)) = scheme_end b + 1) as L1 by (apply nlen_nfirstn; lia).
      destruct (negb (st_is_special st)); [destruct (inp_split_prefix_str s_ss l)|]; apply after_double_slash_ok; assumption.
    + destruct (parse_path_ok dbg st Hnf (path_start b) (path_start b + 1) true (nfirstn (path_start b) (ser b) ++ [47]) r
                  ltac:(lia) (seg_inv_snoc (path_start b) (path_start b + 1) (nfirstn (path_start b) (ser b)) ltac:(lia) ltac:(lia)))
        as (s' & rem & E & Ha & Hr).
      rewrite E. cbn [pbind]. apply wqf_ok; [exact Hr|]. intros _ _.
      rewrite (pre_nnth (path_start b + 1) _ _ (path_start b) Ha ltac:(lia)).
      rewrite nnth_app_ge by lia. rewrite La, N.sub_diag. reflexivity.
  - rewrite Epop. cbn [pbind].
    set (s2 := if (nlen s1 =? path_start b) && (st_is_special (scheme_type_of (b_scheme b)) || negb (inp_is_empty l))
               then s1 ++ [47] else s1) in *.
    assert (exists X, (match c with
                       | 47 => parse_path dbg CUrlParser st true (path_start b) s2 r
                       | _ => parse_path dbg CUrlParser st true (path_start b) s2 l
                       end) = parse_path dbg CUrlParser st true (path_start b) s2 X) as [X EX].
    { destruct (N.eq_dec c 47) as [->|Hc]; [exists r; reflexivity|]. exists l.
      destruct c as [|p]; [reflexivity|]. do 6 (destruct p as [p|p|]; try reflexivity). congruence. }
    cbv beta iota. rewrite EX.
    destruct (parse_path_ok dbg st Hnf (path_start b) (path_start b + 1) true s2 X ltac:(lia) I2) as (s' & rem & E & Ha & Hr).
    rewrite E. cbn [pbind]. apply wqf_ok; [exact Hr|]. intros _ _.
    rewrite (pre_nnth (path_start b + 1) _ _ (path_start b) Ha ltac:(lia)). exact H2.
Qed.

(* ---------- top level ---------- *)
(* the base is well-formed and, if its scheme is special, has a path that starts with '/' *)
Definition base_ok (b : url) : bool :=
  wf_b b && (negb (st_is_special (scheme_type_of (b_scheme b))) || byte_eqb (ser b) (scheme_end b + 1) 47).

(* the class of finding F-C04-7 (same as Properties/C04.known_c04_7) *)
Definition file_involved (base : option url) (input : list N) : bool :=
  match parse_scheme CUrlParser (input_new_trim_c0 input) with
  | Some (sch, _) => st_is_file (scheme_type_of sch)
  | None => match base with Some b => list_eqb (b_scheme b) s_file | None => false end
  end.

Theorem parse_with_scheme_ok base sch l :
  match base with Some b => base_ok b = true | None => True end ->
  st_is_file (scheme_type_of sch) = false ->
  parse_with_scheme dbg hp hpo hd ovr base sch l <> PPanic.
Proof.
  intros Hb Hnf. unfold parse_with_scheme. du32 (nlen sch) se E. apply to_u32_inv in E. destruct E as [-> _].
  assert (nlen (sch ++ [58]) = nlen sch + 1) as L by (rewrite nlen_app; reflexivity).
  destruct (scheme_type_of sch) eqn:Est; [discriminate Hnf | |].
  - destruct (inp_count_matching is_slash_or_bslash l) as [slashes remaining].
    destruct base as [b|]; [|apply after_double_slash_ok; [reflexivity | exact L]].
    destruct ((slashes <? 2) && list_eqb (b_scheme b) sch) eqn:Ec; [|apply after_double_slash_ok; [reflexivity | exact L]].
    apply andb_true_iff in Ec. destruct Ec as [_ Ec]. apply list_eqb_spec in Ec.
    unfold base_ok in Hb. apply andb_true_iff in Hb. destruct Hb as [W Hb]. rewrite Ec, Est in Hb. cbn in Hb.
    rewrite (cannot_be_a_base_eval b W). rewrite Hb. cbn [negb passert].
    assert ((if dbg then POk tt else POk tt) = POk tt) as Ed by (destruct dbg; reflexivity).
    rewrite Ed. cbn [pbind]. apply parse_relative_ok; [exact W | reflexivity | apply byte_eqb_nnth; exact Hb].
  - apply parse_non_special_ok. exact L.
Qed.

Lemma not_file_scheme s : list_eqb s s_file = false -> st_is_file (scheme_type_of s) = false.
Proof.
  intros H. unfold scheme_type_of.
  destruct (list_eqb s s_http || list_eqb s s_https || list_eqb s s_ws || list_eqb s s_wss || list_eqb s s_ftp); [reflexivity|].
  rewrite H. reflexivity.
Qed.

Theorem parse_url_ok base input :
  match base with Some b => base_ok b = true | None => True end ->
  file_involved base input = false ->
  parse_url dbg hp hpo hd ovr base input <> PPanic.
Proof.
  intros Hb Hk. unfold parse_url. unfold file_involved in Hk.
  destruct (parse_scheme CUrlParser (input_new_trim_c0 input)) as [[sch rem]|].
  - apply parse_with_scheme_ok; assumption.
  - destruct base as [b|]; [|discriminate].
    destruct (inp_starts_with_char 35 (input_new_trim_c0 input)); [apply fragment_only_ok|].
    unfold base_ok in Hb. apply andb_true_iff in Hb. destruct Hb as [W _].
    rewrite (cannot_be_a_base_eval b W).
    destruct (byte_eqb (ser b) (scheme_end b + 1) 47) eqn:Eb; cbn [negb]; [|discriminate].
    rewrite (not_file_scheme _ Hk). apply parse_relative_ok; [exact W | apply not_file_scheme; exact Hk | apply byte_eqb_nnth; exact Eb].
Qed.
End Rel.

(* ---------- wf_b alone is not enough: a special base that is cannot-be-a-base ---------- *)
(* the record "http:x" (scheme_end 4, everything else 5, no host) satisfies wf_b - the parser never
   produces it: special URLs always get an authority - and joining "http:y" with it reaches the debug
   assertion of parse_with_scheme (debug builds) or pop_path's unwrap (release builds), for any host
   functions *)
Definition cbb_special_base : url := mkUrl [104; 116; 116; 112; 58; 120] 4 5 5 5 HI_None None 5 None None.
Definition cbb_special_ref : list N := [104; 116; 116; 112; 58; 121].

Lemma cbb_special_witness :
  usv_list cbb_special_ref /\ wf_b cbb_special_base = true
  /\ file_involved (Some cbb_special_base) cbb_special_ref = false /\ base_ok cbb_special_base = false
  /\ forall dbg hp hpo hd ovr, parse_url dbg hp hpo hd ovr (Some cbb_special_base) cbb_special_ref = PPanic.
Proof.
  split; [repeat constructor; unfold is_usv; lia|].
  split; [vm_compute; reflexivity|]. split; [vm_compute; reflexivity|]. split; [vm_compute; reflexivity|].
  intros dbg hp hpo hd ovr. destruct dbg; vm_compute; reflexivity.
Qed.

Lemma parse_statement_false :
  ~ (forall dbg hp hpo hd ovr base input, usv_list input ->
       (match base with Some b => wf_b b = true | None => True end) ->
       file_involved base input = false ->
       parse_url dbg hp hpo hd ovr base input <> PPanic).
Proof.
  intros H. destruct cbb_special_witness as (Hu & W & Hf & _ & Hp).
  apply (H true (fun _ => Err EmptyHost) (fun _ => Err EmptyHost) (fun _ => []) None (Some cbb_special_base) cbb_special_ref Hu W Hf).
  apply Hp.
Qed.
