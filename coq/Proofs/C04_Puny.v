(* Proofs/C04_Puny.v - the guard in front of the quadratic Punycode encoder (uts46.rs:1607-1618):
   check_label lets a non-ASCII label longer than PUNYCODE_ENCODE_MAX_INPUT_LENGTH through only with
   the error flag set (mark-errors mode) and not at all in fail-fast mode. *)
From RU Require Import Base.Prelude Base.Utf8 Base.U32_c13 Gen.Tables Model.Punycode Model.Uts46.

Section Cap.
Variable A : adapter.
Variable cfg : bool.

Lemma check_label_cap ff hy lab he f1 f2 lab' he' :
  check_label A cfg ff hy lab he f1 f2 = SOk (lab', he') ->
  is_ascii_l lab' = false -> PUNYCODE_ENCODE_MAX_INPUT_LENGTH < len lab' ->
  ff = false /\ he' = true.
Proof.
  unfold check_label.
  match goal with |- sbind ?x _ = _ -> _ => destruct x as [[l1 h1]| |] end;
    cbn [sbind]; try (intros H; discriminate H).
  match goal with |- sbind ?x _ = _ -> _ => destruct x as [[l2 h2]| |] end;
    cbn [sbind]; try (intros H; discriminate H).
  match goal with |- sbind ?x _ = _ -> _ => destruct x as [[l3 h3]| |] end;
    cbn [sbind]; try (intros H; discriminate H).
  destruct (negb (is_ascii_l l3) && (PUNYCODE_ENCODE_MAX_INPUT_LENGTH <? len l3)) eqn:E.
  - destruct ff; cbv iota; [intros H; discriminate H|].
    destruct (len l3 <=? PUNYCODE_ENCODE_MAX_INPUT_LENGTH); [intros H; discriminate H|].
    intros H _ _. inversion H; subst. split; reflexivity.
  - intros H Ha Hl. inversion H; subst. rewrite Ha in E. cbn [negb andb] in E. lia.
Qed.
End Cap.
