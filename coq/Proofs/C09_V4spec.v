(* Proofs/C09_V4spec.v - the IPv4 side of the model equals the Standard's algorithms
   (Spec/WhatwgHost.v) on all inputs. *)
From RU Require Import Base.Prelude Base.Utf8 Model.AsciiSet Gen.Tables Model.PercentEncoding Model.HostT Model.Host
  Spec.WhatwgHost Proofs.C09_V4.

(* ------------------------------------------------------------------ strictly split *)

Lemma strictly_split_aux_eq s : forall tok,
  Spec.strictly_split_aux 46 s tok = (let '(h, t) := split_dot s in (rev tok ++ h) :: t).
Proof.
  induction s as [|c r IH]; intros tok; cbn [Spec.strictly_split_aux split_dot].
  - rewrite app_nil_r. reflexivity.
  - destruct (c =? 46).
    + rewrite IH. destruct (split_dot r) as [h t]. cbn [rev app]. rewrite app_nil_r. reflexivity.
    + rewrite IH. destruct (split_dot r) as [h t]. cbn [rev]. rewrite <- app_assoc. reflexivity.
Qed.

Lemma strictly_split_eq s : Spec.strictly_split 46 s = split_dot_list s.
Proof. unfold Spec.strictly_split, split_dot_list. rewrite strictly_split_aux_eq. destruct (split_dot s). reflexivity. Qed.

Lemma split_dot_list_single s : split_dot_list s = [[]] -> s = [].
Proof.
  destruct s as [|c r]; [reflexivity|]. unfold split_dot_list. cbn [split_dot].
  destruct (split_dot r) as [h t]. destruct (c =? 46); discriminate.
Qed.

Lemma split_dot_list_nonnil s : split_dot_list s <> [].
Proof. unfold split_dot_list. destruct (split_dot s). discriminate. Qed.

(* ------------------------------------------------------------------ digits *)

Definition valid (R : N) (c : N) : bool := match hex_val c with Some d => d <? R | None => false end.

Lemma spec_digit c :
  match hex_val c with
  | Some d => Spec.ascii_hex_digit c = true /\ Spec.digit_value c = d
  | None => Spec.ascii_hex_digit c = false
  end.
Proof.
  unfold hex_val, Spec.ascii_hex_digit, Spec.digit_value, Spec.ascii_digit, is_digit.
  destruct ((48 <=? c) && (c <=? 57)) eqn:E1; [split; [reflexivity|reflexivity]|].
  destruct ((65 <=? c) && (c <=? 70)) eqn:E2.
  { split; [reflexivity|]. replace (c <=? 70) with true by lia. reflexivity. }
  destruct ((97 <=? c) && (c <=? 102)) eqn:E3.
  { split; [reflexivity|]. replace (c <=? 70) with false by lia. reflexivity. }
  reflexivity.
Qed.

Lemma spec_valid R c : (Spec.ascii_hex_digit c && (Spec.digit_value c <? R)) = valid R c.
Proof.
  unfold valid. pose proof (spec_digit c) as H. destruct (hex_val c) as [d|].
  - destruct H as [-> ->]. reflexivity.
  - rewrite H. reflexivity.
Qed.

Lemma forallb_eq {A} (f g : A -> bool) l : (forall x, f x = g x) -> forallb f l = forallb g l.
Proof. intros H. induction l as [|x l IH]; cbn [forallb]; [reflexivity|]. rewrite H, IH. reflexivity. Qed.

Lemma valid8 c : is_octal_digit c = valid 8 c.
Proof. unfold is_octal_digit, valid, hex_val, is_digit.
  destruct ((48 <=? c) && (c <=? 57)) eqn:E1; [lia|].
  destruct ((65 <=? c) && (c <=? 70)) eqn:E2; [lia|].
  destruct ((97 <=? c) && (c <=? 102)) eqn:E3; lia. Qed.
Lemma valid10 c : is_digit c = valid 10 c.
Proof. unfold valid, hex_val, is_digit.
  destruct ((48 <=? c) && (c <=? 57)) eqn:E1; [lia|].
  destruct ((65 <=? c) && (c <=? 70)) eqn:E2; [lia|].
  destruct ((97 <=? c) && (c <=? 102)) eqn:E3; lia. Qed.
Lemma valid16 c : is_hex_digit c = valid 16 c.
Proof. unfold is_hex_digit, valid. destruct (hex_val c) as [d|] eqn:E; [|reflexivity].
  pose proof (hex_val_bound c d E). lia. Qed.

(* ------------------------------------------------------------------ radix value *)

Lemma radix_value_none R s : forall acc, Spec.radix_value R s acc = None <-> forallb (valid R) s = false.
Proof.
  induction s as [|c t IH]; intros acc; cbn [Spec.radix_value forallb]; [split; discriminate|].
  rewrite spec_valid. destruct (valid R c); cbn [andb]; [apply IH | split; reflexivity].
Qed.

Lemma radix_value_mono R s : forall acc v, 1 <= R -> Spec.radix_value R s acc = Some v -> acc <= v.
Proof.
  induction s as [|c t IH]; intros acc v HR H; cbn [Spec.radix_value] in H; [inversion H; lia|].
  destruct (Spec.ascii_hex_digit c && (Spec.digit_value c <? R)); [|discriminate].
  apply IH in H; [nia|exact HR].
Qed.

Lemma radix_value_acc R s : forall acc v, 1 <= R -> Spec.radix_value R s acc = Some v -> acc <= U32_MAX ->
  radix_acc R s acc = if v <=? U32_MAX then Some v else None.
Proof.
  induction s as [|c t IH]; intros acc v HR H Ha; cbn [Spec.radix_value radix_acc] in *.
  - inversion H; subst. replace (v <=? U32_MAX) with true by lia. reflexivity.
  - rewrite spec_valid in H. unfold valid in H. pose proof (spec_digit c) as Hd.
    destruct (hex_val c) as [d|]; [|discriminate]. destruct Hd as [_ Hd]. rewrite Hd in H.
    destruct (d <? R); [|discriminate].
    destruct (U32_MAX <? acc * R + d) eqn:E.
    + apply radix_value_mono in H; [|exact HR]. replace (v <=? U32_MAX) with false by lia. reflexivity.
    + apply IH; [exact HR|exact H|lia].
Qed.

Lemma from_str_radix_valid R s : forallb (valid R) s = true -> s <> [] ->
  u32_from_str_radix s R = radix_acc R s 0.
Proof.
  intros Hv Hn. destruct s as [|c t]; [congruence|].
  assert (Hc : c <> 43 /\ c <> 45).
  { cbn [forallb] in Hv. apply andb_true_iff in Hv. destruct Hv as [Hc _]. unfold valid, hex_val, is_digit in Hc.
    destruct ((48 <=? c) && (c <=? 57)) eqn:E1; [lia|].
    destruct ((65 <=? c) && (c <=? 70)) eqn:E2; [lia|].
    destruct ((97 <=? c) && (c <=? 102)) eqn:E3; [lia|discriminate]. }
  unfold u32_from_str_radix. destruct t.
  - replace ((c =? 43) || (c =? 45)) with false by lia. reflexivity.
  - replace (c =? 43) with false by lia. reflexivity.
Qed.

(* ------------------------------------------------------------------ IPv4 number parser *)

Definition num_rel (m : option (option N)) (sp : option N) : Prop :=
  match sp with
  | None => m = None
  | Some v => m = if v <=? U32_MAX then Some (Some v) else Some None
  end.

(* the common tail: digits in radix R, non-empty *)
Lemma number_tail R (f : N -> bool) s : 1 <= R -> (forall c, f c = valid R c) -> s <> [] ->
  num_rel (if negb (forallb f s) then None
           else match u32_from_str_radix s R with Some num => Some (Some num) | None => Some None end)
          (Spec.radix_value R s 0).
Proof.
  intros HR Hf Hn. rewrite (forallb_eq f (valid R) s Hf). unfold num_rel.
  destruct (Spec.radix_value R s 0) as [v|] eqn:E.
  - assert (Hv : forallb (valid R) s = true).
    { destruct (forallb (valid R) s) eqn:E2; [reflexivity|]. apply radix_value_none with (acc := 0) in E2. congruence. }
    rewrite Hv. cbn [negb]. rewrite from_str_radix_valid by assumption.
    rewrite (radix_value_acc R s 0 v HR E) by (unfold U32_MAX; lia).
    destruct (v <=? U32_MAX); reflexivity.
  - apply radix_value_none in E. rewrite E. reflexivity.
Qed.

Theorem number_rel p : num_rel (parse_ipv4number p) (Spec.ipv4_number p).
Proof.
  destruct p as [|c0 [|c1 rest]].
  - reflexivity.
  - unfold parse_ipv4number, Spec.ipv4_number. cbn [length Nat.leb andb].
    replace (10 =? 8) with false by reflexivity. replace (10 =? 10) with true by reflexivity.
    apply (number_tail 10 is_digit [c0]); [lia|exact valid10|discriminate].
  - unfold parse_ipv4number, Spec.ipv4_number, Spec.has_prefix.
    cbn [length Nat.leb andb firstn list_eqb skipn].
    rewrite !andb_true_r.
    replace ((c0 =? 48) && (c1 =? 88) || (c0 =? 48) && (c1 =? 120)) with ((c0 =? 48) && ((c1 =? 120) || (c1 =? 88)))
      by (destruct (c0 =? 48), (c1 =? 120), (c1 =? 88); reflexivity).
    destruct ((c0 =? 48) && ((c1 =? 120) || (c1 =? 88))).
    + destruct rest as [|c2 rest']; [reflexivity|].
      replace (16 =? 8) with false by reflexivity. replace (16 =? 10) with false by reflexivity.
      apply (number_tail 16 is_hex_digit (c2 :: rest')); [lia|exact valid16|discriminate].
    + destruct (c0 =? 48).
      * replace (8 =? 8) with true by reflexivity.
        apply (number_tail 8 is_octal_digit (c1 :: rest)); [lia|exact valid8|discriminate].
      * replace (10 =? 8) with false by reflexivity. replace (10 =? 10) with true by reflexivity.
        apply (number_tail 10 is_digit (c0 :: c1 :: rest)); [lia|exact valid10|discriminate].
Qed.

(* ------------------------------------------------------------------ ends-in-a-number checker *)

Lemma last_rev {A} (l : list A) d : last l d = match rev l with x :: _ => x | [] => d end.
Proof.
  destruct l as [|a l] using rev_ind; [reflexivity|]. rewrite last_last, rev_app_distr. reflexivity.
Qed.

Lemma removelast_rev {A} (l : list A) : removelast l = match rev l with _ :: r => rev r | [] => [] end.
Proof.
  destruct l as [|a l] using rev_ind; [reflexivity|]. rewrite removelast_last, rev_app_distr. cbn [rev app].
  rewrite rev_involutive. reflexivity.
Qed.

Lemma is_digit_spec c : Spec.ascii_digit c = is_digit c.
Proof. reflexivity. Qed.

Theorem ends_in_a_number_spec s : ends_in_a_number s = Spec.ends_in_a_number s.
Proof.
  unfold ends_in_a_number, Spec.ends_in_a_number. rewrite strictly_split_eq.
  pose proof (split_dot_list_nonnil s) as Hn.
  rewrite last_rev. rewrite removelast_rev.
  assert (Hlen : length (split_dot_list s) = length (rev (split_dot_list s))) by (rewrite rev_length; reflexivity).
  rewrite Hlen.
  assert (Hr : rev (split_dot_list s) <> []).
  { intros E. apply Hn. rewrite <- (rev_involutive (split_dot_list s)), E. reflexivity. }
  remember (rev (split_dot_list s)) as rp eqn:Erp.
  assert (Eparts : split_dot_list s = rev rp) by (rewrite Erp, rev_involutive; reflexivity).
  rewrite Eparts. clear Erp Eparts Hlen Hn.
  assert (T : forall l : list N,
    (if negb (match l with [] => true | _ => false end) && forallb is_digit l then true
     else match parse_ipv4number l with Some _ => true | None => false end)
    = (if negb (length l =? 0)%nat && forallb Spec.ascii_digit l then true
       else match Spec.ipv4_number l with Some _ => true | None => false end)).
  { intros l. replace (length l =? 0)%nat with (match l with [] => true | _ => false end) by (destruct l; reflexivity).
    rewrite (forallb_eq Spec.ascii_digit is_digit l is_digit_spec).
    destruct (negb match l with [] => true | _ => false end && forallb is_digit l); [reflexivity|].
    pose proof (number_rel l) as NR. unfold num_rel in NR.
    destruct (Spec.ipv4_number l) as [v|]; rewrite NR; [destruct (v <=? U32_MAX); reflexivity | reflexivity]. }
  destruct rp as [|lastp parts]; [congruence|].
  destruct lastp as [|c l].
  - destruct parts as [|l2 parts']; [reflexivity|].
    cbn [length Nat.eqb]. rewrite last_rev, rev_involutive. exact (T l2).
  - rewrite last_rev, rev_involutive. exact (T (c :: l)).
Qed.

(* ------------------------------------------------------------------ IPv4 parser *)

Definition lift4 (o : option N) : xr N := match o with Some a => XOk a | None => XErr InvalidIpv4Address end.

(* numbers: the model stops at an overflowing part, the Standard keeps the unbounded value *)
Lemma numbers_rel parts :
  match Spec.all_numbers parts with
  | None => ipv4_numbers parts = None
  | Some vs => ipv4_numbers parts = (if forallb (fun v => v <=? U32_MAX) vs then Some vs else None)
               /\ length vs = length parts
  end.
Proof.
  induction parts as [|p r IH]; cbn [Spec.all_numbers ipv4_numbers]; [split; reflexivity|].
  pose proof (number_rel p) as NR. unfold num_rel in NR.
  destruct (Spec.ipv4_number p) as [v|].
  - rewrite NR. destruct (Spec.all_numbers r) as [vs|].
    + destruct IH as [IH Hl]. cbn [forallb length]. split; [|rewrite Hl; reflexivity].
      destruct (v <=? U32_MAX); [|reflexivity]. rewrite IH. cbn [andb].
      destruct (forallb (fun v0 => v0 <=? U32_MAX) vs); reflexivity.
    + destruct (v <=? U32_MAX); [rewrite IH|]; reflexivity.
  - rewrite NR. reflexivity.
Qed.

Lemma shiftl8' n k : N.shiftl n k = n * 2 ^ k.
Proof. apply N.shiftl_mul_pow2. Qed.

Ltac norm_consts := repeat match goal with
  | |- context [N.shiftr 4294967295 (8 * N.of_nat ?k)] =>
      let v := eval vm_compute in (N.shiftr 4294967295 (8 * N.of_nat k)) in
      change (N.shiftr 4294967295 (8 * N.of_nat k)) with v
  | |- context [256 ^ (5 - N.of_nat ?k)] =>
      let v := eval vm_compute in (256 ^ (5 - N.of_nat k)) in change (256 ^ (5 - N.of_nat k)) with v
  | |- context [8 * (3 - ?c)] => let v := eval vm_compute in (8 * (3 - c)) in change (8 * (3 - c)) with v
  | |- context [256 ^ (3 - ?c)] => let v := eval vm_compute in (256 ^ (3 - c)) in change (256 ^ (3 - c)) with v
  | |- context [2 ^ 24] => change (2 ^ 24) with 16777216
  | |- context [2 ^ 16] => change (2 ^ 16) with 65536
  | |- context [2 ^ 8] => change (2 ^ 8) with 256
  end.

Ltac bcase := repeat match goal with
  | |- context [if ?b then _ else _] => let E := fresh "E" in destruct b eqn:E; try lia; try reflexivity
  end.

Theorem parse_ipv4addr_spec s : s <> [] -> parse_ipv4addr s = lift4 (Spec.ipv4_parse s).
Proof.
  intros Hs. unfold parse_ipv4addr, Spec.ipv4_parse. rewrite strictly_split_eq.
  pose proof (split_dot_list_nonnil s) as Hn.
  assert (H1 : split_dot_list s <> [[]]) by (intros E; apply Hs; apply split_dot_list_single; exact E).
  rewrite last_rev, removelast_rev.
  assert (Hlen : length (split_dot_list s) = length (rev (split_dot_list s))) by (rewrite rev_length; reflexivity).
  rewrite Hlen.
  remember (rev (split_dot_list s)) as rp eqn:Erp.
  assert (Eparts : split_dot_list s = rev rp) by (rewrite Erp, rev_involutive; reflexivity).
  rewrite Eparts in *. clear Erp Hlen.
  (* both pops give the same parts *)
  set (parts := match rp with [] :: r => rev r | _ => rev rp end).
  assert (Epop : match rp with
                 | [] => [1]
                 | x :: _ => x
                 end = [] -> (if (1 <? length rp)%nat then match rp with _ :: r => rev r | [] => [] end else rev rp) = parts).
  { intros E. destruct rp as [|x r]; [discriminate|]. subst x. unfold parts.
    destruct r as [|y r']; [exfalso; apply H1; reflexivity|]. reflexivity. }
  assert (Eparts2 : match match rp with [] => [1] | x :: _ => x end with
                    | [] => if (1 <? length rp)%nat then match rp with _ :: r => rev r | [] => [] end else rev rp
                    | _ :: _ => rev rp
                    end = parts).
  { destruct rp as [|x r]; [reflexivity|]. destruct x as [|c x']; [apply Epop; reflexivity | reflexivity]. }
  rewrite Eparts2.
  assert (Hpn : parts <> []).
  { unfold parts. destruct rp as [|x r]; [exfalso; apply Hn; reflexivity|].
    destruct x as [|c x'].
    - destruct r as [|y r']; [exfalso; apply H1; reflexivity|]. cbn [rev]. destruct (rev r'); discriminate.
    - cbn [rev]. destruct (rev r); discriminate. }
  clearbody parts. clear Eparts2 Epop Eparts H1 Hn rp Hs.
  replace (4 <? N.of_nat (length parts)) with (4 <? length parts)%nat by lia.
  destruct (4 <? length parts)%nat eqn:E4; [reflexivity|].
  pose proof (numbers_rel parts) as NR.
  destruct (Spec.all_numbers parts) as [vs|]; [|rewrite NR; reflexivity].
  destruct NR as [NR Hl]. rewrite NR.
  assert (Hvl : (1 <= length vs <= 4)%nat). { rewrite Hl. destruct parts; [congruence|]. cbn [length] in *. lia. }
  unfold U32_MAX.
  destruct vs as [|a [|b [|c [|d [|e vs']]]]]; cbn [length] in Hvl; try lia; clear NR Hl Hvl E4 Hpn;
    cbn [forallb]; rewrite ?andb_true_r;
    match goal with |- context [if ?b then Some _ else None] => destruct b eqn:EF end;
    cbn [rev app removelast last existsb length Spec.add_numbers ipv4_add_parts lift4 orb andb];
    unfold U32_MAX; norm_consts; rewrite ?shiftl8'; norm_consts;
    repeat (rewrite ?N.mod_small by lia;
            match goal with
            | |- context [if ?b then _ else _] => let E := fresh "E" in destruct b eqn:E; try lia
            end);
    try reflexivity; try (cbn [lift4]; f_equal; lia).
Qed.
