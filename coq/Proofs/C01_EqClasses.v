(* Proofs/C01_EqClasses.v - the computable recognisers of the input classes for which the C01
   equivalence is proved, stated on the SPECIFICATION side (the Standard's scheme scan on the cleaned
   text; no function of the parser model occurs in them), and the class theorems in the form the
   property file states them. *)
From RU Require Import Base.Prelude Base.Utf8 Model.AsciiSet Gen.Tables
  Model.PercentEncoding Model.HostT Model.UrlRecord Model.Parser Model.Setters Spec.Whatwg
  Proofs.C02_Parts Proofs.C01_Tables Proofs.C08_Input
  Proofs.C01_EqRun Proofs.C01_EqEnc Proofs.C01_EqApi Proofs.C01_EqOpaque Proofs.C01_EqRef
  Proofs.C02_Path Proofs.C01_EqPathSpec Proofs.C01_EqPath Proofs.C01_EqOverflow Proofs.C01_EqEmpty.

(* outcome of the comparison: the specification succeeds with su, and the model either reports that
   the serialization outgrew u32 (ParseError::Overflow, which the Standard does not have) or succeeds
   with a record whose ten API strings are the Standard's *)
Definition agree_ok (dbg : bool) (shs : spec_host -> list N) (m : pres url) (s : parse_outcome) : Prop :=
  exists su, s = BDone su
    /\ (m = PErr Overflow \/ exists u, m = POk u /\ api_of_model dbg u = Some (spec_api_list shs su)).

(* ---------- class "opaque": non-special scheme, the text after ':' does not start with '/' ---------- *)
Definition in_class_opaque (input : list N) : bool :=
  match spec_scheme (spec_clean input) with
  | Some (sch, rest) => negb (is_special_scheme sch) && negb (starts_with_cp 47 rest)
  | None => false
  end.

Lemma split_of_starts_with_cp rem : starts_with_cp 47 (ntnl rem) = false -> inp_split_prefix_char 47 rem = None.
Proof.
  unfold inp_split_prefix_char. destruct (inp_next rem) as [[c r]|] eqn:En; [|reflexivity].
  destruct (inp_next_ntnl rem c r En) as [-> _]. cbn [starts_with_cp]. intros ->. reflexivity.
Qed.

Lemma not_special_type sch : is_special_scheme sch = false -> scheme_type_of sch = STNotSpecial.
Proof.
  rewrite <- special_schemes_are_the_standards. destruct (scheme_type_of sch); cbn [st_is_special]; congruence.
Qed.

(* a scheme on the specification side is a scheme on the model side *)
Lemma spec_scheme_model l sch rest : spec_scheme (ntnl l) = Some (sch, rest) ->
  exists rem, parse_scheme CUrlParser l = Some (sch, rem) /\ ntnl rem = rest.
Proof.
  intros H. pose proof (scheme_state_eq l) as K. rewrite H in K.
  destruct (parse_scheme CUrlParser l) as [[s r]|]; [|contradiction]. destruct K as [-> <-].
  exists r. split; reflexivity.
Qed.

Theorem class_opaque dbg hp hpo hd ovr shp shs input : usv_list input -> in_class_opaque input = true ->
  agree_ok dbg shs (parse_url dbg hp hpo hd ovr None input) (spec_basic_url_parse shp input None).
Proof.
  intros Hu Hc. unfold in_class_opaque in Hc. rewrite spec_clean_is_ntnl_trim in Hc.
  destruct (spec_scheme (ntnl (input_new_trim_c0 input))) as [[sch rest]|] eqn:Es; [|discriminate].
  apply andb_true_iff in Hc. destruct Hc as [H1 H2].
  destruct (spec_scheme_model _ _ _ Es) as (rem & Hs & <-).
  assert (is_special_scheme sch = false) as Hns by (destruct (is_special_scheme sch); [discriminate | reflexivity]).
  assert (starts_with_cp 47 (ntnl rem) = false) as H47 by (destruct (starts_with_cp 47 (ntnl rem)); [discriminate | reflexivity]).
  exact (eq_opaque dbg hp hpo hd ovr shp shs input sch rem Hu Hs (not_special_type sch Hns)
           (split_of_starts_with_cp rem H47)).
Qed.

(* ---------- references against a related base ---------- *)
(* the specification succeeds with su'; the model reports Overflow or succeeds with a record that is
   related to su' again (in particular: same ten API strings) *)
Definition agree_rel (dbg : bool) (shs : spec_host -> list N) (m : pres url) (s : parse_outcome) : Prop :=
  exists su, s = BDone su
    /\ (m = PErr Overflow \/ exists u, m = POk u /\ related dbg shs u su).

Lemma agree_rel_ok dbg shs m s : agree_rel dbg shs m s -> agree_ok dbg shs m s.
Proof.
  intros (su & E & [K|(u & K & R)]); exists su; (split; [exact E|]); [left; exact K|].
  right. exists u. split; [exact K | exact (rel_api _ _ _ _ R)].
Qed.

Definition in_class_fragment_only (input : list N) : bool := starts_with_cp 35 (spec_clean input).
Definition in_class_query_only (sb : spec_url) (input : list N) : bool :=
  negb (has_opaque_path sb) && starts_with_cp 63 (spec_clean input).
(* no scheme, not "#...", base with an opaque path: failure on both sides *)
Definition in_class_opaque_base_fail (sb : spec_url) (input : list N) : bool :=
  has_opaque_path sb
  && match spec_scheme (spec_clean input) with None => true | Some _ => false end
  && negb (starts_with_cp 35 (spec_clean input)).

Theorem class_fragment_only dbg hp hpo hd shp shs input b sb : usv_list input -> related dbg shs b sb ->
  in_class_fragment_only input = true ->
  agree_rel dbg shs (parse_url dbg hp hpo hd None (Some b) input) (spec_basic_url_parse shp input (Some sb)).
Proof.
  intros Hu R Hc. unfold in_class_fragment_only in Hc.
  destruct (spec_clean input) as [|c f] eqn:E; [discriminate|]. cbn [starts_with_cp] in Hc.
  apply N.eqb_eq in Hc. subst c.
  exact (eq_fragment_only dbg hp hpo hd shp shs input b sb f Hu R E).
Qed.

Theorem class_query_only dbg hp hpo hd shp shs input b sb : usv_list input -> related dbg shs b sb ->
  in_class_query_only sb input = true ->
  agree_rel dbg shs (parse_url dbg hp hpo hd None (Some b) input) (spec_basic_url_parse shp input (Some sb)).
Proof.
  intros Hu R Hc. unfold in_class_query_only in Hc. apply andb_true_iff in Hc. destruct Hc as [H1 H2].
  destruct (spec_clean input) as [|c q] eqn:E; [discriminate|]. cbn [starts_with_cp] in H2.
  apply N.eqb_eq in H2. subst c.
  assert (has_opaque_path sb = false) as Hop by (destruct (has_opaque_path sb); [discriminate | reflexivity]).
  exact (eq_query_only dbg hp hpo hd shp shs input b sb q Hu R Hop E).
Qed.

Theorem class_opaque_base_fail dbg hp hpo hd shp shs input b sb : related dbg shs b sb ->
  in_class_opaque_base_fail sb input = true ->
  (exists u, spec_basic_url_parse shp input (Some sb) = BFailure u)
  /\ parse_url dbg hp hpo hd None (Some b) input = PErr RelativeUrlWithCannotBeABaseBase.
Proof.
  intros R Hc. unfold in_class_opaque_base_fail in Hc.
  apply andb_true_iff in Hc. destruct Hc as [Hc H3]. apply andb_true_iff in Hc. destruct Hc as [H1 H2].
  apply (eq_opaque_base_fails dbg hp hpo hd shp shs input b sb R H1).
  - destruct (spec_scheme (spec_clean input)); [discriminate | reflexivity].
  - destruct (starts_with_cp 35 (spec_clean input)); [discriminate | reflexivity].
Qed.

(* parse results of the opaque class are related bases *)
Theorem class_opaque_related dbg hp hpo hd ovr shp shs input : usv_list input -> in_class_opaque input = true ->
  agree_rel dbg shs (parse_url dbg hp hpo hd ovr None input) (spec_basic_url_parse shp input None).
Proof.
  intros Hu Hc. unfold in_class_opaque in Hc. rewrite spec_clean_is_ntnl_trim in Hc.
  destruct (spec_scheme (ntnl (input_new_trim_c0 input))) as [[sch rest]|] eqn:Es; [|discriminate].
  apply andb_true_iff in Hc. destruct Hc as [H1 H2].
  destruct (spec_scheme_model _ _ _ Es) as (rem & Hs & <-).
  assert (is_special_scheme sch = false) as Hns by (destruct (is_special_scheme sch); [discriminate | reflexivity]).
  assert (starts_with_cp 47 (ntnl rem) = false) as H47 by (destruct (starts_with_cp 47 (ntnl rem)); [discriminate | reflexivity]).
  pose proof (not_special_type sch Hns) as Ht. pose proof (split_of_starts_with_cp rem H47) as Hsp.
  eexists. split; [exact (spec_opaque shp input sch rem Hs Ht Hsp)|].
  destruct (model_opaque dbg hp hpo hd ovr shp input sch rem Hu Hs Ht Hsp) as [E|[E K]]; [left; exact E|].
  right. eexists. split; [exact E|]. apply related_opaque. exact K.
Qed.

(* ---------- class "path only": non-special scheme, "scheme:/" not followed by a second '/' ---------- *)
(* excluded (exactly finding F-C01-9): a ".." that would pop a drive-letter-shaped segment; spath_ok
   runs the Standard's own path state (segment list, buffer) over the text and tests every ".." *)
Definition in_class_pathonly (input : list N) : bool :=
  match spec_scheme (spec_clean input) with
  | Some (sch, 47 :: rest') =>
      negb (is_special_scheme sch) && negb (starts_with_cp 47 rest') && spath_ok rest' [] []
  | _ => false
  end.

Lemma slash_split rem rest' : ntnl rem = 47 :: rest' -> starts_with_cp 47 rest' = false ->
  exists rem', ntnl rem' = rest' /\ inp_split_prefix_str s_ss rem = None /\ inp_split_prefix_char 47 rem = Some rem'.
Proof.
  intros H1 H2. destruct (inp_next_some rem 47 rest' H1) as (r & En & Er & _).
  exists r. split; [exact Er|]. split.
  - unfold s_ss. cbn [inp_split_prefix_str]. rewrite En. replace (47 =? 47) with true by reflexivity.
    destruct (inp_next r) as [[d r']|] eqn:En2; [|reflexivity].
    destruct (inp_next_ntnl r d r' En2) as [E _]. rewrite Er in E. rewrite E in H2. cbn [starts_with_cp] in H2.
    rewrite H2. reflexivity.
  - unfold inp_split_prefix_char. rewrite En. reflexivity.
Qed.

Theorem class_pathonly dbg hp hpo hd ovr shp shs input : usv_list input -> in_class_pathonly input = true ->
  agree_rel dbg shs (parse_url dbg hp hpo hd ovr None input) (spec_basic_url_parse shp input None).
Proof.
  intros Hu Hc. unfold in_class_pathonly in Hc. rewrite spec_clean_is_ntnl_trim in Hc.
  destruct (spec_scheme (ntnl (input_new_trim_c0 input))) as [[sch rest]|] eqn:Es; [|discriminate].
  destruct rest as [|c0 rest']; [discriminate|].
  destruct (N.eq_dec c0 47) as [->|Hne].
  2:{ exfalso. destruct c0 as [|p]; [discriminate|]. do 6 (destruct p as [p|p|]; try discriminate). apply Hne. reflexivity. }
  apply andb_true_iff in Hc. destruct Hc as [Hc H3]. apply andb_true_iff in Hc. destruct Hc as [H1 H2].
  destruct (spec_scheme_model _ _ _ Es) as (rem & Hs & Hrem).
  assert (is_special_scheme sch = false) as Hns by (destruct (is_special_scheme sch); [discriminate | reflexivity]).
  assert (starts_with_cp 47 rest' = false) as H47 by (destruct (starts_with_cp 47 rest'); [discriminate | reflexivity]).
  pose proof (not_special_type sch Hns) as Ht.
  destruct (slash_split rem rest' Hrem H47) as (rem' & Er' & Hss & Hsp).
  subst rest'.
  destruct (model_noauth dbg hp hpo hd ovr shp input sch rem rem' Hu Hs Ht Hss Hsp H3) as [Hsnd Hm].
  eexists. split; [exact (spec_noauth shp input sch rem rem' Hs Ht Hrem H47 Hsnd)|].
  destruct Hm as [E|[E W]]; [left; exact E|].
  right. eexists. split; [exact E|].
  assert (fst (spath (ntnl rem') [] []) <> []) as Hne.
  { clear. generalize (@nil (list N)) at 1. generalize (@nil N).
    induction (ntnl rem') as [|c r IH]; intros B P; cbn [spath].
    - cbn [fst]. apply fin_nonempty.
    - destruct (c =? 47); [apply IH|]. destruct (is_qh c); [cbn [fst]; apply fin_nonempty | apply IH]. }
  apply related_noauth; [exact Hne | apply spath_no_slash; reflexivity | exact W].
Qed.

(* ---------- class "empty reference": nothing left after cleaning, base can be a base ---------- *)
Definition in_class_empty_ref (sb : spec_url) (input : list N) : bool :=
  negb (has_opaque_path sb) && match spec_clean input with [] => true | _ => false end.

Theorem class_empty_ref dbg hp hpo hd shp shs input b sb : related dbg shs b sb ->
  in_class_empty_ref sb input = true ->
  agree_rel dbg shs (parse_url dbg hp hpo hd None (Some b) input) (spec_basic_url_parse shp input (Some sb)).
Proof.
  intros R Hc. unfold in_class_empty_ref in Hc. apply andb_true_iff in Hc. destruct Hc as [H1 H2].
  assert (has_opaque_path sb = false) as Hop by (destruct (has_opaque_path sb); [discriminate | reflexivity]).
  destruct (spec_clean input) eqn:E; [|discriminate].
  destruct (eq_empty_ref dbg hp hpo hd shp shs input b sb R Hop E) as (su & Hs & u & Hm & Hr).
  exists su. split; [exact Hs|]. right. exists u. split; assumption.
Qed.

(* ---------- the proved classes, assembled ---------- *)
(* comparison of outcomes: success with the same ten API strings (or the model's Overflow), or failure
   on both sides *)
Definition agree (dbg : bool) (shs : spec_host -> list N) (m : pres url) (s : parse_outcome) : Prop :=
  match s with
  | BDone su => m = PErr Overflow \/ exists u, m = POk u /\ api_of_model dbg u = Some (spec_api_list shs su)
  | BFailure _ => exists e, m = PErr e
  | BOutOfFuel => False
  end.

Lemma agree_of_ok dbg shs m s : agree_ok dbg shs m s -> agree dbg shs m s.
Proof. intros (su & -> & K). exact K. Qed.

Definition base_rel (dbg : bool) (shs : spec_host -> list N) (b : option url) (sb : option spec_url) : Prop :=
  match b, sb with
  | None, None => True
  | Some x, Some y => related dbg shs x y
  | _, _ => False
  end.

Definition in_proved_class (sbase : option spec_url) (input : list N) : bool :=
  match sbase with
  | None => in_class_opaque input || in_class_pathonly input
  | Some sb => in_class_fragment_only input || in_class_query_only sb input || in_class_opaque_base_fail sb input
               || in_class_empty_ref sb input
  end.

Theorem partial_equivalence dbg hp hpo hd shp shs input base sbase :
  usv_list input -> base_rel dbg shs base sbase -> in_proved_class sbase input = true ->
  agree dbg shs (parse_url dbg hp hpo hd None base input) (spec_basic_url_parse shp input sbase).
Proof.
  intros Hu Hb Hc. destruct base as [b|]; destruct sbase as [sb|]; cbn [base_rel] in Hb; try contradiction.
  - cbn [in_proved_class] in Hc. apply orb_true_iff in Hc. destruct Hc as [Hc|Hc];
      [apply orb_true_iff in Hc; destruct Hc as [Hc|Hc]; [apply orb_true_iff in Hc; destruct Hc as [Hc|Hc]|]|].
    + apply agree_of_ok, agree_rel_ok. apply class_fragment_only; assumption.
    + apply agree_of_ok, agree_rel_ok. apply class_query_only; assumption.
    + destruct (class_opaque_base_fail dbg hp hpo hd shp shs input b sb Hb Hc) as [[u ->] ->].
      cbn [agree]. eexists. reflexivity.
    + apply agree_of_ok, agree_rel_ok. apply class_empty_ref; assumption.
  - cbn [in_proved_class] in Hc. apply orb_true_iff in Hc. destruct Hc as [Hc|Hc].
    + apply agree_of_ok. apply class_opaque; assumption.
    + apply agree_of_ok, agree_rel_ok. apply class_pathonly; assumption.
Qed.

(* ---------- the Overflow disjunct, made precise ---------- *)
(* in every class with a successful outcome the model answers Overflow only if the href the Standard
   prescribes is longer than u32::MAX bytes *)
Theorem class_overflow_bound dbg hp hpo hd shp shs input base sbase su :
  usv_list input -> base_rel dbg shs base sbase -> in_proved_class sbase input = true ->
  parse_url dbg hp hpo hd None base input = PErr Overflow ->
  spec_basic_url_parse shp input sbase = BDone su ->
  U32_MAX_P < nlen (get_href shs su).
Proof.
  intros Hu Hb Hc E Hsu. destruct base as [b|]; destruct sbase as [sb|]; cbn [base_rel] in Hb; try contradiction.
  - cbn [in_proved_class] in Hc. apply orb_true_iff in Hc. destruct Hc as [Hc|Hc];
      [apply orb_true_iff in Hc; destruct Hc as [Hc|Hc]; [apply orb_true_iff in Hc; destruct Hc as [Hc|Hc]|]|].
    + unfold in_class_fragment_only in Hc.
      destruct (spec_clean input) as [|c f] eqn:Ec; [discriminate|]. cbn [starts_with_cp] in Hc.
      apply N.eqb_eq in Hc. subst c.
      exact (fragment_only_overflow_bound dbg hp hpo hd shp shs input b sb f su Hu Hb Ec E Hsu).
    + unfold in_class_query_only in Hc. apply andb_true_iff in Hc. destruct Hc as [H1 H2].
      destruct (spec_clean input) as [|c q] eqn:Ec; [discriminate|]. cbn [starts_with_cp] in H2.
      apply N.eqb_eq in H2. subst c.
      assert (has_opaque_path sb = false) as Hop by (destruct (has_opaque_path sb); [discriminate | reflexivity]).
      exact (query_only_overflow_bound dbg hp hpo hd shp shs input b sb q su Hu Hb Hop Ec E Hsu).
    + destruct (class_opaque_base_fail dbg hp hpo hd shp shs input b sb Hb Hc) as [[u Hf] _].
      rewrite Hf in Hsu. discriminate.
    + unfold in_class_empty_ref in Hc. apply andb_true_iff in Hc. destruct Hc as [H1 H2].
      assert (has_opaque_path sb = false) as Hop by (destruct (has_opaque_path sb); [discriminate | reflexivity]).
      destruct (spec_clean input) eqn:Ec; [|discriminate].
      destruct (eq_empty_ref dbg hp hpo hd shp shs input b sb Hb Hop Ec) as (su' & _ & u & K & _).
      rewrite K in E. discriminate.
  - cbn [in_proved_class] in Hc. apply orb_true_iff in Hc. destruct Hc as [Hc|Hc].
    + unfold in_class_opaque in Hc. rewrite spec_clean_is_ntnl_trim in Hc.
      destruct (spec_scheme (ntnl (input_new_trim_c0 input))) as [[sch rest]|] eqn:Es; [|discriminate].
      apply andb_true_iff in Hc. destruct Hc as [H1 H2].
      destruct (spec_scheme_model _ _ _ Es) as (rem & Hs & <-).
      assert (is_special_scheme sch = false) as Hns by (destruct (is_special_scheme sch); [discriminate | reflexivity]).
      assert (starts_with_cp 47 (ntnl rem) = false) as H47 by (destruct (starts_with_cp 47 (ntnl rem)); [discriminate | reflexivity]).
      exact (opaque_overflow_bound dbg hp hpo hd shp shs None input sch rem su Hu Hs (not_special_type sch Hns)
               (split_of_starts_with_cp rem H47) E Hsu).
    + unfold in_class_pathonly in Hc. rewrite spec_clean_is_ntnl_trim in Hc.
      destruct (spec_scheme (ntnl (input_new_trim_c0 input))) as [[sch rest]|] eqn:Es; [|discriminate].
      destruct rest as [|c0 rest']; [discriminate|].
      destruct (N.eq_dec c0 47) as [->|Hne].
      2:{ exfalso. destruct c0 as [|p]; [discriminate|]. do 6 (destruct p as [p|p|]; try discriminate). apply Hne. reflexivity. }
      apply andb_true_iff in Hc. destruct Hc as [Hc H3]. apply andb_true_iff in Hc. destruct Hc as [H1 H2].
      destruct (spec_scheme_model _ _ _ Es) as (rem & Hs & Hrem).
      assert (is_special_scheme sch = false) as Hns by (destruct (is_special_scheme sch); [discriminate | reflexivity]).
      assert (starts_with_cp 47 rest' = false) as H47 by (destruct (starts_with_cp 47 rest'); [discriminate | reflexivity]).
      destruct (slash_split rem rest' Hrem H47) as (rem' & Er' & Hss & Hsp). subst rest'.
      exact (pathonly_overflow_bound dbg hp hpo hd shp shs None input sch rem rem' su Hu Hs (not_special_type sch Hns)
               Hss Hsp Hrem H47 H3 E Hsu).
Qed.

(* the assembled statement with the precise Overflow clause *)
Definition agree_strict (dbg : bool) (shs : spec_host -> list N) (m : pres url) (s : parse_outcome) : Prop :=
  match s with
  | BDone su => (m = PErr Overflow /\ U32_MAX_P < nlen (get_href shs su))
                \/ exists u, m = POk u /\ api_of_model dbg u = Some (spec_api_list shs su)
  | BFailure _ => exists e, m = PErr e
  | BOutOfFuel => False
  end.

Theorem partial_equivalence_strict dbg hp hpo hd shp shs input base sbase :
  usv_list input -> base_rel dbg shs base sbase -> in_proved_class sbase input = true ->
  agree_strict dbg shs (parse_url dbg hp hpo hd None base input) (spec_basic_url_parse shp input sbase).
Proof.
  intros Hu Hb Hc.
  pose proof (partial_equivalence dbg hp hpo hd shp shs input base sbase Hu Hb Hc) as A.
  pose proof (class_overflow_bound dbg hp hpo hd shp shs input base sbase) as B.
  unfold agree, agree_strict in *.
  destruct (spec_basic_url_parse shp input sbase) as [su|u|]; [|exact A | exact A].
  destruct A as [E|K]; [left; split; [exact E|] | right; exact K].
  exact (B su Hu Hb Hc E eq_refl).
Qed.
