(* Proofs/C01_EqClasses.v - the computable recognisers of the input classes for which the C01
   equivalence is proved, stated on the SPECIFICATION side (the Standard's scheme scan on the cleaned
   text; no function of the parser model occurs in them), and the class theorems in the form the
   property file states them. *)
From RU Require Import Base.Prelude Base.Utf8 Model.AsciiSet Gen.Tables
  Model.PercentEncoding Model.HostT Model.UrlRecord Model.Parser Model.Setters Spec.Whatwg
  Proofs.C02_Parts Proofs.C01_Tables Proofs.C08_Input
  Proofs.C01_EqRun Proofs.C01_EqEnc Proofs.C01_EqApi Proofs.C01_EqOpaque.

(* outcome of the comparison: the specification succeeds with su, and the model either reports that
   the serialization outgrew u32 (ParseError::Overflow, which the Standard does not have) or succeeds
   with a record whose ten API strings are the Standard's *)
Definition agree_ok (dbg : bool) (shs : spec_host -> list N) (m : pres url) (s : parse_outcome) : Prop :=
  exists su, s = BDone su
    /\ (m = PErr Overflow \/ exists u, m = POk u /\ api_of_model dbg u = Some (spec_api_list shs su)).

(* ---------- class "opaque": non-special scheme, the text after ':' does not start with '/' ---------- *)
Definition in_class_opaque (input : list N) : bool :=
  match spec_scheme (spec_clean input) with
  | Some (sch, rest) => negb (is_special_scheme sch) && negb (starts_with_cp 47 rest)
  | None => false
  end.

Lemma split_of_starts_with_cp rem : starts_with_cp 47 (ntnl rem) = false -> inp_split_prefix_char 47 rem = None.
Proof.
  unfold inp_split_prefix_char. destruct (inp_next rem) as [[c r]|] eqn:En; [|reflexivity].
  destruct (inp_next_ntnl rem c r En) as [-> _]. cbn [starts_with_cp]. intros ->. reflexivity.
Qed.

Lemma not_special_type sch : is_special_scheme sch = false -> scheme_type_of sch = STNotSpecial.
Proof.
  rewrite <- special_schemes_are_the_standards. destruct (scheme_type_of sch); cbn [st_is_special]; congruence.
Qed.

(* a scheme on the specification side is a scheme on the model side *)
Lemma spec_scheme_model l sch rest : spec_scheme (ntnl l) = Some (sch, rest) ->
  exists rem, parse_scheme CUrlParser l = Some (sch, rem) /\ ntnl rem = rest.
Proof.
  intros H. pose proof (scheme_state_eq l) as K. rewrite H in K.
  destruct (parse_scheme CUrlParser l) as [[s r]|]; [|contradiction]. destruct K as [-> <-].
  exists r. split; reflexivity.
Qed.

Theorem class_opaque dbg hp hpo hd ovr shp shs input : usv_list input -> in_class_opaque input = true ->
  agree_ok dbg shs (parse_url dbg hp hpo hd ovr None input) (spec_basic_url_parse shp input None).
Proof.
  intros Hu Hc. unfold in_class_opaque in Hc. rewrite spec_clean_is_ntnl_trim in Hc.
  destruct (spec_scheme (ntnl (input_new_trim_c0 input))) as [[sch rest]|] eqn:Es; [|discriminate].
  apply andb_true_iff in Hc. destruct Hc as [H1 H2].
  destruct (spec_scheme_model _ _ _ Es) as (rem & Hs & <-).
  assert (is_special_scheme sch = false) as Hns by (destruct (is_special_scheme sch); [discriminate | reflexivity]).
  assert (starts_with_cp 47 (ntnl rem) = false) as H47 by (destruct (starts_with_cp 47 (ntnl rem)); [discriminate | reflexivity]).
  exact (eq_opaque dbg hp hpo hd ovr shp shs input sch rem Hu Hs (not_special_type sch Hns)
           (split_of_starts_with_cp rem H47)).
Qed.
