(* Proofs/C02_SetPort.v - L2 for set_port: on a canonical record the setter replaces the port text and shifts the
   offsets, the result is canonical again (and so a fixpoint of re-parsing). *)
From RU Require Import Base.Prelude Base.Utf8 Base.Utf8Facts Model.AsciiSet Gen.Tables
  Model.PercentEncoding Model.HostT Model.UrlRecord Model.Parser Model.Setters Model.WF
  Proofs.ListN Proofs.C14_Set Proofs.C14_Enc Proofs.C14_Views Proofs.C02_Enc Proofs.C02_Parts
  Proofs.C02_Opaque Proofs.C02_Path Proofs.C02_PathL1 Proofs.C02_Reach Proofs.C16_RT Proofs.C02_AuthParts
  Proofs.C02_Auth Proofs.C02_AuthWf Proofs.C02_PathSp Proofs.C02_AuthSp Proofs.C02_AuthMain Proofs.C02_SetQF
  Proofs.C02_Canon.
Open Scope N_scope.
Open Scope list_scope.

(* ---------- the frame: F = everything up to the end of the host, R = the path ---------- *)
Definition hp_url (F : list N) (pt : option N) (R : list N) (se ue hs : N) (hi : host_internal)
           (q f : option (list N)) : url :=
  qf_url ((F ++ port_text pt) ++ R) se ue hs (nlen F) hi pt (nlen (F ++ port_text pt)) q f.

Section Frame.
Variable dbg : bool.

Lemma adjust_ge idx a b : a <= idx -> adjust dbg idx a b = Some (idx - a + b).
Proof. intros H. unfold adjust. replace (a <=? idx) with true by (symmetry; apply N.leb_le; exact H). reflexivity. Qed.

Lemma adjust_qs X R q m : adjust_opt dbg (qf_qs (nlen (X ++ R)) q) (nlen X) m = Some (qf_qs (m + nlen R) q).
Proof.
  destruct q as [x|]; cbn [qf_qs adjust_opt]; [|reflexivity].
  rewrite adjust_ge by (rewrite nlen_app; lia). cbn [bindo]. rewrite nlen_app. do 2 f_equal. lia.
Qed.

Lemma adjust_fs X R q f m : adjust_opt dbg (qf_fs (nlen (X ++ R)) q f) (nlen X) m = Some (qf_fs (m + nlen R) q f).
Proof.
  destruct f as [y|]; cbn [qf_fs adjust_opt]; [|reflexivity].
  rewrite adjust_ge by (rewrite nlen_app; lia). cbn [bindo]. rewrite nlen_app. do 2 f_equal. lia.
Qed.

Variables (F R : list N) (se ue hs : N) (hi : host_internal).
Notation U pt q f := (hp_url F pt R se ue hs hi q f).

Lemma hp_ser pt q f : ser (U pt q f) = F ++ port_text pt ++ R ++ qf_text q f.
Proof. unfold hp_url, qf_url. cbn [ser]. rewrite <- !app_assoc. reflexivity. Qed.

Theorem set_port_internal_frame pt p' q f :
  set_port_internal dbg (U pt q f) p' = Some (U p' q f).
Proof.
  unfold set_port_internal. change (port (U pt q f)) with pt.
  assert (forall o, pt = Some o -> p' = None ->
            (s <- slice_o (ser (U pt q f)) 0 (host_end (U pt q f)) ;;
             rest <- u_slice_from (U pt q f) (path_start (U pt q f)) ;;
             assert_o (host_end (U pt q f) <=? path_start (U pt q f)) ;;;
             let offset := path_start (U pt q f) - host_end (U pt q f) in
             qs <- sub_off_opt dbg (query_start (U pt q f)) offset ;;
             fs <- sub_off_opt dbg (fragment_start (U pt q f)) offset ;;
             Some (mkUrl (s ++ rest) (scheme_end (U pt q f)) (username_end (U pt q f)) (host_start (U pt q f))
                         (host_end (U pt q f)) (hosti (U pt q f)) None (host_end (U pt q f)) qs fs))
            = Some (U None q f)) as G1.
  { intros o -> _. rewrite hp_ser.
    change (host_end (U (Some o) q f)) with (nlen F).
    change (path_start (U (Some o) q f)) with (nlen (F ++ port_text (Some o))).
    rewrite slice_o_some by (rewrite ?nlen_app; lia). rewrite N.sub_0_r, nskipn_0, nfirstn_app_len. cbn [bindo].
    unfold u_slice_from. rewrite hp_ser. rewrite slice_from_o_some by (rewrite !nlen_app; lia).
    rewrite (app_assoc F (port_text (Some o))). rewrite nskipn_app_len. cbn [bindo].
    replace (nlen F <=? nlen (F ++ port_text (Some o))) with true by (symmetry; apply N.leb_le; rewrite nlen_app; lia).
    cbn [assert_o bindo]. cbv zeta.
    change (query_start (U (Some o) q f)) with (qf_qs (nlen ((F ++ port_text (Some o)) ++ R)) q).
    change (fragment_start (U (Some o) q f)) with (qf_fs (nlen ((F ++ port_text (Some o)) ++ R)) q f).
    unfold sub_off_opt.
    assert (forall idx, nlen (F ++ port_text (Some o)) <= idx ->
              adjust dbg idx (nlen (F ++ port_text (Some o)) - nlen F) 0 = Some (idx - nlen (F ++ port_text (Some o)) + nlen F)) as A.
    { intros idx Hi. rewrite adjust_ge by (rewrite nlen_app in *; lia). f_equal. rewrite nlen_app in *. lia. }
    assert (adjust_opt dbg (qf_qs (nlen ((F ++ port_text (Some o)) ++ R)) q) (nlen (F ++ port_text (Some o)) - nlen F) 0
            = Some (qf_qs (nlen F + nlen R) q)) as Aq.
    { destruct q as [x|]; cbn [qf_qs adjust_opt]; [|reflexivity]. rewrite A by (rewrite (nlen_app _ R); lia).
      cbn [bindo]. do 2 f_equal. rewrite (nlen_app _ R). lia. }
    assert (adjust_opt dbg (qf_fs (nlen ((F ++ port_text (Some o)) ++ R)) q f) (nlen (F ++ port_text (Some o)) - nlen F) 0
            = Some (qf_fs (nlen F + nlen R) q f)) as Af.
    { destruct f as [y|]; cbn [qf_fs adjust_opt]; [|reflexivity]. rewrite A by (rewrite (nlen_app _ R); lia).
      cbn [bindo]. do 2 f_equal. rewrite (nlen_app _ R). lia. }
    rewrite Aq, Af. cbn [bindo]. f_equal. unfold hp_url, qf_url. cbn [port_text].
    cbn [scheme_end username_end host_start hosti]. rewrite !app_nil_r. rewrite (nlen_app F R).
    rewrite <- !app_assoc. reflexivity. }
  assert (forall n, p' = Some n ->
            (path_and_after <- u_slice_from (U pt q f) (path_start (U pt q f)) ;;
             let s := truncate (ser (U pt q f)) (host_end (U pt q f)) ++ [58] ++ decimal n in
             let new_ps := nlen s in
             qs <- adjust_opt dbg (query_start (U pt q f)) (path_start (U pt q f)) new_ps ;;
             fs <- adjust_opt dbg (fragment_start (U pt q f)) (path_start (U pt q f)) new_ps ;;
             Some (mkUrl (s ++ path_and_after) (scheme_end (U pt q f)) (username_end (U pt q f)) (host_start (U pt q f))
                         (host_end (U pt q f)) (hosti (U pt q f)) (Some n) new_ps qs fs))
            = Some (U (Some n) q f)) as G2.
  { intros n _. unfold u_slice_from. rewrite hp_ser.
    change (host_end (U pt q f)) with (nlen F).
    change (path_start (U pt q f)) with (nlen (F ++ port_text pt)).
    rewrite slice_from_o_some by (rewrite !nlen_app; lia).
    rewrite (app_assoc F (port_text pt)). rewrite nskipn_app_len. cbn [bindo]. cbv zeta.
    unfold truncate. rewrite <- (app_assoc F (port_text pt)). rewrite nfirstn_app_len.
    change (query_start (U pt q f)) with (qf_qs (nlen ((F ++ port_text pt) ++ R)) q).
    change (fragment_start (U pt q f)) with (qf_fs (nlen ((F ++ port_text pt) ++ R)) q f).
    rewrite adjust_qs, adjust_fs. cbn [bindo]. f_equal. unfold hp_url, qf_url. cbn [port_text].
    cbn [scheme_end username_end host_start hosti].
    change (F ++ [58] ++ decimal n) with (F ++ 58 :: decimal n).
    rewrite <- (nlen_app (F ++ 58 :: decimal n) R). rewrite <- !app_assoc. reflexivity. }
  destruct pt as [o|]; destruct p' as [n|].
  - destruct (o =? n) eqn:E; [apply N.eqb_eq in E; subst; reflexivity|]. exact (G2 n eq_refl).
  - exact (G1 o eq_refl eq_refl).
  - exact (G2 n eq_refl).
  - reflexivity.
Qed.
End Frame.

(* ---------- the canonical record with authority in the frame ---------- *)
Section AuthPort.
Variable dbg : bool.
Variable hp hpo : list N -> result host.
Variable hd : host -> list N.
Hypothesis HRT : HostRT hp hpo hd.

Definition auth_A (sch : list N) (ui : uinfo) : list N := (sch ++ [58; 47; 47]) ++ ui_text ui.

Lemma auth_url_hp sch ui h pt p q f :
  auth_url hd sch ui h pt p q f
  = hp_url (auth_A sch ui ++ hd h) pt (pth_text p) (nlen sch) (nlen sch + 3 + ui_ulen ui)
           (nlen sch + 3 + nlen (ui_text ui)) (hi_of_host h) q f.
Proof.
  rewrite auth_url_qf. unfold hp_url, auth_A.
  assert (auth_front hd sch ui h pt = (((sch ++ [58; 47; 47]) ++ ui_text ui) ++ hd h) ++ port_text pt) as E
    by (unfold auth_front; rewrite <- !app_assoc; reflexivity).
  unfold auth_pre. rewrite E. f_equal.
  rewrite !nlen_app. change (nlen [58; 47; 47]) with 3. lia.
Qed.

Lemma sch_not_file st sch : scheme_type_of sch = st -> st_is_file st = false -> list_eqb sch s_file = false.
Proof.
  intros E Hf. destruct (list_eqb sch s_file) eqn:El; [|reflexivity].
  apply list_eqb_spec in El. subst sch. vm_compute in E. subst st. discriminate Hf.
Qed.

Lemma auth_cannot_port st sch ui h pt p q f : auth_ok hp hpo hd st sch ui h pt p q f -> st_is_file st = false ->
  cannot_have_credentials_or_port (auth_url hd sch ui h pt p q f)
  = Some (match h with HDomain [] => true | _ => false end).
Proof.
  intros K Hnf. destruct K as [Ksch Kst Kui Kh Kemp Kpt Kp Kq Kf Kb Kbq Kbf].
  unfold cannot_have_credentials_or_port, has_host. cbn [hosti auth_url].
  assert (scheme (auth_url hd sch ui h pt p q f) = Some sch) as Es.
  { unfold scheme, u_slice_to. cbn [auth_url ser scheme_end]. unfold auth_ser, auth_pre.
    rewrite slice_to_o_some by (rewrite !nlen_app, front_len; lia). rewrite <- app_assoc, front_sch. reflexivity. }
  destruct Kh as [[-> _]|(Hne & Ht & _)]; [reflexivity|].
  assert (hd h <> []) as Hn by (destruct Ht as (_ & Hn & _); exact Hn).
  assert (u_slice (auth_url hd sch ui h pt p q f) (nlen sch + 3 + nlen (ui_text ui)) (nlen sch + 3 + nlen (ui_text ui) + nlen (hd h))
          = Some (hd h)) as Esl.
  { unfold u_slice. cbn [auth_url ser]. rewrite auth_ser_shape.
    rewrite slice_o_some; [| lia | rewrite !nlen_app; cbn [nlen length]; rewrite !nlen_cons, !nlen_app; lia].
    replace (nlen sch + 3 + nlen (ui_text ui) + nlen (hd h) - (nlen sch + 3 + nlen (ui_text ui))) with (nlen (hd h)) by lia.
    change (sch ++ 58 :: 47 :: 47 :: ui_text ui ++ hd h ++ port_text pt ++ pth_text p ++ qf_text q f)
      with (sch ++ [58; 47; 47] ++ ui_text ui ++ hd h ++ port_text pt ++ pth_text p ++ qf_text q f).
    rewrite (app_assoc sch), (app_assoc (sch ++ [58; 47; 47])).
    replace (nlen sch + 3 + nlen (ui_text ui)) with (nlen ((sch ++ [58; 47; 47]) ++ ui_text ui))
      by (rewrite !nlen_app; reflexivity).
    rewrite nskipn_app_len, nfirstn_app_len. reflexivity. }
  destruct h as [[|c d]|a|pcs]; [contradiction| | |]; cbn [hi_of_host negb host_of hosti auth_url].
  - change (host_start (auth_url hd sch ui (HDomain (c :: d)) pt p q f)) with (nlen sch + 3 + nlen (ui_text ui)).
    change (host_end (auth_url hd sch ui (HDomain (c :: d)) pt p q f)) with (nlen sch + 3 + nlen (ui_text ui) + nlen (hd (HDomain (c :: d)))).
    rewrite Esl. cbn [bindo]. rewrite Es. cbn [bindo]. rewrite (sch_not_file st sch Kst Hnf).
    destruct (hd (HDomain (c :: d))); [contradiction | reflexivity].
  - rewrite Es. cbn [bindo]. rewrite (sch_not_file st sch Kst Hnf). reflexivity.
  - rewrite Es. cbn [bindo]. rewrite (sch_not_file st sch Kst Hnf). reflexivity.
Qed.

Lemma auth_ok_port st sch ui h pt p q f pt' : auth_ok hp hpo hd st sch ui h pt p q f ->
  h <> HDomain [] -> port_ok (default_port sch) pt' ->
  nlen (auth_ser hd sch ui h pt' p q f) <= U32_MAX_P -> auth_ok hp hpo hd st sch ui h pt' p q f.
Proof.
  intros K Hne Hpt Hb. destruct K as [Ksch Kst Kui Kh Kemp Kpt Kp Kq Kf Kb Kbq Kbf].
  destruct (qf_bounds _ _ _ _ Hb) as [B1 B2]. constructor; try assumption.
  - intros E. contradiction.
  - unfold auth_ser, auth_pre in Hb. rewrite !nlen_app in Hb. lia.
Qed.

(* the scheme of the URL as the setter reads it *)
Lemma auth_scheme sch ui h pt p q f : scheme (auth_url hd sch ui h pt p q f) = Some sch.
Proof.
  unfold scheme, u_slice_to. cbn [auth_url ser scheme_end]. unfold auth_ser, auth_pre.
  rewrite slice_to_o_some by (rewrite !nlen_app, front_len; lia). rewrite <- app_assoc, front_sch. reflexivity.
Qed.

Theorem set_port_auth st sch ui h pt p q f n u' s : auth_ok hp hpo hd st sch ui h pt p q f -> st_is_file st = false ->
  (match n with Some x => x <= 65535 | None => True end) ->
  set_port dbg (auth_url hd sch ui h pt p q f) n = Some (u', s) -> nlen (ser u') <= U32_MAX_P ->
  exists pt', auth_ok hp hpo hd st sch ui h pt' p q f /\ u' = auth_url hd sch ui h pt' p q f.
Proof.
  intros K Hnf Hn. unfold set_port. rewrite (auth_cannot_port st sch ui h pt p q f K Hnf). cbn [bindo].
  destruct (match h with HDomain [] => true | _ => false end) eqn:Eh.
  - intros E _. inversion E; subst. exists pt. split; [exact K | reflexivity].
  - assert (h <> HDomain []) as Hne by (intros ->; discriminate Eh).
    rewrite auth_scheme. cbn [bindo]. rewrite auth_url_hp. rewrite set_port_internal_frame. cbn [bindo].
    intros E Hb. inversion E; subst u' s. clear E. rewrite <- auth_url_hp in *.
    eexists. split; [|reflexivity]. apply (auth_ok_port st sch ui h pt p q f); try assumption.
    destruct n as [x|]; [|exact I].
    destruct (opt_eqb (Some x) (default_port sch)) eqn:Eo; [exact I|].
    split; [exact Hn|]. intros Ed. rewrite Ed in Eo. cbn [opt_eqb] in Eo. rewrite N.eqb_refl in Eo. discriminate Eo.
Qed.

(* L2: set_port keeps Canon *)
Theorem set_port_Canon u n u' s : Canon hp hpo hd u ->
  (match n with Some x => x <= 65535 | None => True end) ->
  set_port dbg u n = Some (u', s) -> nlen (ser u') <= U32_MAX_P -> Canon hp hpo hd u'.
Proof.
  intros C Hn. destruct C as [sch P q f K | sch segs last q f K | sch ui h pt p q f K | sch ui h pt p q f K Kp].
  - unfold set_port, cannot_have_credentials_or_port, has_host. cbn [opaque_url hosti negb bindo].
    intros E _. inversion E; subst. exact (Canon_opaque hp hpo hd sch P q f K).
  - unfold set_port, cannot_have_credentials_or_port, has_host. cbn [noauth_url hosti negb bindo].
    intros E _. inversion E; subst. exact (Canon_noauth hp hpo hd sch segs last q f K).
  - intros E Hb. destruct (set_port_auth STNotSpecial sch ui h pt p q f n u' s K eq_refl Hn E Hb) as (pt' & K' & ->).
    exact (Canon_auth hp hpo hd sch ui h pt' p q f K').
  - intros E Hb. destruct (set_port_auth STSpecialNotFile sch ui h pt p q f n u' s K eq_refl Hn E Hb) as (pt' & K' & ->).
    exact (Canon_special hp hpo hd sch ui h pt' p q f K' Kp).
Qed.
End AuthPort.
