(* Proofs/C07_EqFileAll.v - the file-input gap of the C07 statement closed: parsing (no base) yields records related by
   corrS for EVERY scalar-value input outside Known_C01, inputs whose scheme is "file" included, and the href setter is
   the Standard's for every value outside Known_C01, "file:" values included.
     C01 side   : statement_all5 (Proofs/C01_EqFileCover2.v, = C01_statement_all3), which covers the file inputs inside
                  the recogniser k_file_ok; its host hypothesis host_hyp5 asks, beyond host_hyp3, that the two host
                  parsers agree on whether the file host is "localhost" (host_local_ok);
     model side : Proofs/C07_FileShape.v (a file record has "//", no credentials, no port, the scheme "file"),
                  Proofs/C03_ReachFile.v (wf_b, host text facts);
     bridge     : related_corr0 of Proofs/C07_EqRel.v for corr; `sane` for a file record from spec_valid (no credentials,
                  no port) and from "//" on the model side (the host is not null); a special record with the empty host is
                  a file record.
   The one-step theorems of the ten setters are already stated for every corrS pair (file records: the host, hostname
   and pathname setters are class 4 of Known_C07), so the three clauses of C07_statement follow without the premise
   input_is_file = false. *)
From Coq Require Import Bool.
From RU Require Import Base.Prelude Base.Utf8 Model.AsciiSet Gen.Tables Model.PercentEncoding
  Model.HostT Model.Host Model.UrlRecord Model.Parser Model.Setters Model.WF Model.KnownC01 Model.KnownC07
  Spec.Whatwg Spec.WhatwgHost Spec.WhatwgHostParse
  Proofs.ListN Proofs.C03_WF Proofs.C06_Suffix Proofs.C06_Host Proofs.C08_Input
  Proofs.C02_Enc Proofs.C01_Tables Proofs.C01_EqRun Proofs.C01_EqEnc Proofs.C01_EqApi Proofs.C01_EqRef
  Proofs.C01_EqAuthModel Proofs.C01_EqSpModel Proofs.C01_EqRelArms Proofs.C01_EqSpBase
  Proofs.C01_EqAsm Proofs.C01_EqShape Proofs.C01_KnownExact Proofs.C01_EqCover
  Proofs.C01_EqFile Proofs.C01_EqFileSpec Proofs.C01_EqFileAsm Proofs.C01_EqFileHost Proofs.C01_EqFileCover Proofs.C01_EqFileCover2
  Proofs.C03_ReachParts Proofs.C03_ReachFile Proofs.C09_Host Proofs.C09_InstWf Proofs.C09_RealC01
  Proofs.C07_Defs Proofs.C07_Histories Proofs.C07_Corr Proofs.C07_SpecProto Proofs.C07_EqProto Proofs.C07_EqSix
  Proofs.C07_EqFive Proofs.C07_EqHostname Proofs.C07_EqSeven
  Proofs.C07_EqRel Proofs.C07_SpecInv Proofs.C07_ParseExtra Proofs.C07_EqParseAll Proofs.C07_HostReal
  Proofs.C07_SpecInvU Proofs.C07_HostOn Proofs.C07_AllOn Proofs.C07_RealOut Proofs.C07_FileShape.

(* ---------- the host hypothesis: the two host parsers agree on "is localhost" ---------- *)
Definition host_local_ok (hp : list N -> result host) (shp : bool -> list N -> option spec_host) (s : list N) : Prop :=
  match hp s, host_parsing shp false s with
  | Ok h, Some sh => is_localhost_m h = is_localhost_s sh
  | _, _ => True
  end.

Definition host_parse_ok_onF (hp ho : list N -> result host) (hd : host -> list N)
           (shp : bool -> list N -> option spec_host) (shs : spec_host -> list N) : Prop :=
  host_parse_ok_on hp ho hd shp shs /\ (forall s, usv_list s -> host_local_ok hp shp s).

(* the same over all strings (host_parse_ok of Proofs/C07_EqParseAll.v) *)
Definition host_parse_okF (hp ho : list N -> result host) (hd : host -> list N)
           (shp : bool -> list N -> option spec_host) (shs : spec_host -> list N) : Prop :=
  host_parse_ok hp ho hd shp shs /\ (forall s, host_local_ok hp shp s).

Lemma host_parse_ok_onF_of_all hp ho hd shp shs : host_parse_okF hp ho hd shp shs -> host_parse_ok_onF hp ho hd shp shs.
Proof. intros [A B]. split; [exact (host_parse_ok_on_of_all hp ho hd shp shs A) | intros s _; exact (B s)]. Qed.

(* ---------- `sane` from corr ---------- *)
Section Sane.
Variable dbg : bool.
Variable shs : spec_host -> list N.

Theorem corr_sane u su : corr dbg shs u su -> spec_valid su ->
  (has_host u = false -> has_authority_b u = true ->
   username_end u = host_start u /\ port u = None /\ (is_special su = false \/ su_scheme su = str_file)) ->
  (is_special su = true -> opt_is_some (su_host su) = true) ->
  sane su.
Proof.
  intros C Hval XN Hsp.
  pose proof (co_wf _ _ _ _ C) as W.
  pose proof (co_hh _ _ _ _ C) as Chh. pose proof (co_auth _ _ _ _ C) as Cau.
  pose proof (co_at _ _ _ _ C) as Cat. pose proof (co_port _ _ _ _ C) as Cpo.
  constructor.
  - unfold cannot_have_username_password_port.
    destruct (list_eqb (su_scheme su) str_file) eqn:Hf.
    + intros _. apply list_eqb_spec in Hf. destruct Hval as [_ V2]. destruct (V2 Hf) as (A & B & D).
      split; [exact D|]. unfold includes_credentials. rewrite A, B. reflexivity.
    + rewrite orb_false_r. intros Hc.
      rewrite Hc in Chh. cbn [negb] in Chh. rewrite <- Cpo, <- Cat.
      destruct (has_authority_b u) eqn:Ha.
      * destruct (XN Chh eq_refl) as (E1 & E2 & _). rewrite E1, E2, N.eqb_refl. split; reflexivity.
      * split; [exact (nf_port (wf_noauth_facts u W Ha)) | reflexivity].
  - intros Hs. pose proof (Hsp Hs) as Hh. destruct (su_host su) as [h|] eqn:Esh; [|discriminate Hh].
    split; [reflexivity|]. intros Hnf. cbn [host_is_null host_is_empty orb] in *.
    destruct h; try reflexivity. exfalso. cbn [negb opt_is_some] in *.
    destruct (XN Chh Cau) as (_ & _ & [E3|E3]); [congruence|].
    rewrite E3 in Hnf. discriminate Hnf.
  - intros Ho. destruct Hval as [V1 _]. exact (proj1 (V1 Ho)).
Qed.
End Sane.

Section AllF.
Variable dbg : bool.
Variable hp ho : list N -> result host.
Variable hd : host -> list N.
Variable shp : bool -> list N -> option spec_host.
Variable shs : spec_host -> list N.
Hypothesis HP : host_parse_ok_onF hp ho hd shp shs.

Lemma host_agree_file_on s : usv_list s -> host_agree_file hp hd shp shs s.
Proof.
  intros Hs. destruct HP as [HO HL]. split; [exact (proj2 (proj2 HO))|].
  split; [exact (host_agree_sp_on hp ho hd shp shs HO s Hs) | exact (HL s Hs)].
Qed.

Lemma host_hyp5_on input : usv_list input -> host_hyp5 hp ho hd shp shs None input.
Proof.
  intros Hu. split; [exact (host_hyp3_on hp ho hd shp shs (proj1 HP) None input Hu)|]. split.
  - intros _. apply host_agree_file_on. apply class_host_text_f_usv. exact Hu.
  - intros H. discriminate H.
Qed.

(* ---------- parsing a "file:" input outside Known_C01 yields corrS ---------- *)
Theorem parse_file_corrS input u : usv_list input -> known_c01 None input = 0 -> input_is_file input = true ->
  parse_url dbg hp ho hd None None input = POk u ->
  exists su, spec_basic_url_parse shp input None = BDone su /\ corrS dbg shs u su.
Proof.
  intros Hu Hk Hif Hp.
  destruct (statement_all5 dbg hp ho hd shp shs input None None Hu I Hk (host_hyp5_on input Hu)) as [A Hfull].
  rewrite Hp in A. unfold agree_good in A.
  destruct (spec_basic_url_parse shp input None) as [su|uf|] eqn:Hs; [|destruct A as [e A]; discriminate A | contradiction].
  exists su. split; [reflexivity|].
  destruct (Hfull su u eq_refl Hp) as [[R Hok] Hshape].
  destruct HP as (HO & HL). pose proof HO as (HF & HW & HE).
  unfold input_is_file in Hif.
  destruct (parse_scheme CUrlParser (input_new_trim_c0 input)) as [[sch rem]|] eqn:Es; [|discriminate Hif].
  pose proof (parse_url_file_shaped dbg hp ho hd None input sch rem u Es Hif Hp) as FS.
  destruct (parse_url_wf_all dbg hp ho hd None HW None input u I Hp) as [W HT].
  destruct (file_shaped_facts u W FS) as (F1 & F2 & F3 & F4 & F5).
  pose proof (rel_sch _ _ _ _ R) as Rsch. rewrite F1 in Rsch.
  destruct (spec_parse_uinv shp input su Hs) as [_ UP].
  pose proof (spec_parse_hostU shp input su Hu Hs) as UH.
  assert (corr dbg shs u su) as C.
  { apply related_corr0; [exact R|]. constructor.
    - exact HT.
    - intros un Hun. rewrite (noauth_username dbg u un W F5 Hun). reflexivity.
    - exact UP.
    - unfold hostU in UH. destruct (su_host su) as [h|]; [|exact I].
      destruct UH as [->|(o & s & U1 & U2 & E)]; [left; reflexivity | exact (range_text_on hp ho hd shp shs HO o s h U1 U2 E)].
    - exact HE. }
  split; [exact C|]. apply (corr_sane dbg shs u su C (rel_valid _ _ _ _ R)).
  - intros _ _. split; [exact F3|]. split; [exact F4|]. right. symmetry. exact Rsch.
  - intros _. rewrite <- (co_auth _ _ _ _ C). exact F2.
Qed.

(* ---------- every input outside Known_C01 ---------- *)
Theorem parse_all_corrS_F input u : usv_list input -> known_c01 None input = 0 ->
  parse_url dbg hp ho hd None None input = POk u ->
  exists su, spec_basic_url_parse shp input None = BDone su /\ corrS dbg shs u su.
Proof.
  intros Hu Hk Hp. destruct (input_is_file input) eqn:Hif.
  - exact (parse_file_corrS input u Hu Hk Hif Hp).
  - exact (parse_all_corrS_on dbg hp ho hd shp shs (proj1 HP) input u Hu Hk Hif Hp).
Qed.

(* ---------- href: every value outside Known_C01 whose URL fits u32 ---------- *)
Theorem href_step_F u su v : corrS dbg shs u su -> usv_list v -> known_c07 u QHref v = 0 -> href_fits shp shs v ->
  exists u' su', model_set dbg hp ho hd QHref u v = Some u' /\ spec_step shp QHref su v = Some su'
    /\ corrS dbg shs u' su'.
Proof.
  intros C Hv Hk Hfit. cbn [known_c07] in Hk.
  assert (known_c01 None v = 0) as Hk1.
  { destruct (known_c01 None v =? 0) eqn:E; [apply N.eqb_eq; exact E | lia]. }
  clear Hk. unfold href_fits in Hfit.
  destruct (statement_all5 dbg hp ho hd shp shs v None None Hv I Hk1 (host_hyp5_on v Hv)) as [A _].
  unfold spec_step. cbn [setter_of_q spec_set model_set]. unfold agree_good in A.
  destruct (spec_basic_url_parse shp v None) as [su'|uf|] eqn:Hs.
  - destruct A as [_ [[Ho Hl]|(u' & Hp & _)]]; [lia|].
    rewrite Hp. exists u', su'. split; [reflexivity|]. split; [reflexivity|].
    destruct (parse_all_corrS_F v u' Hv Hk1 Hp) as (su2 & Hs2 & C2). rewrite Hs in Hs2. injection Hs2 as <-. exact C2.
  - destruct A as [e A]. rewrite A. exists u, su. split; [reflexivity|]. split; [reflexivity | exact C].
  - contradiction.
Qed.

(* ---------- all ten setters ---------- *)
(* any value for the nine setters other than href; for href a value whose URL fits u32 *)
Definition all_okF (s : qsetter) (v : list N) : Prop := s <> QHref \/ href_fits shp shs v.

Fixpoint all_opsF (ops : list (qsetter * list N)) : Prop :=
  match ops with
  | [] => True
  | (s, v) :: r => all_okF s v /\ usv_list v /\ all_opsF r
  end.

Theorem all_step_F u su s v : corrS dbg shs u su -> all_okF s v -> usv_list v -> known_c07 u s v = 0 ->
  exists u' su', model_set dbg hp ho hd s u v = Some u' /\ spec_step shp s su v = Some su' /\ corrS dbg shs u' su'.
Proof.
  intros C Hs Hv Hk. destruct (no_href s) eqn:Hn.
  - exact (no_href_step dbg hp ho hd shp shs (proj1 (proj1 HP)) u su s v C Hn Hv Hk).
  - destruct s; try discriminate Hn. destruct Hs as [Hs|Hs]; [contradiction|].
    exact (href_step_F u su v C Hv Hk Hs).
Qed.

Lemma all_run_F : forall ops u su, corrS dbg shs u su -> all_opsF ops -> outside_known dbg hp ho hd u ops ->
  exists u' su', model_run dbg hp ho hd u ops = Some u' /\ spec_run shp su ops = Some su' /\ corrS dbg shs u' su'.
Proof.
  induction ops as [|[s v] r IH]; intros u su C Hf Ho.
  - exists u, su. cbn [model_run spec_run]. auto.
  - cbn [all_opsF outside_known] in Hf, Ho. destruct Hf as (Hs & Hv & Hr). destruct Ho as [Hk Hrest].
    destruct (all_step_F u su s v C Hs Hv Hk) as (u1 & su1 & Em & Es & C1).
    rewrite Em in Hrest. destruct (IH u1 su1 C1 Hr Hrest) as (u2 & su2 & Em2 & Es2 & C2).
    exists u2, su2. cbn [model_run spec_run]. rewrite Em, Es. auto.
Qed.

Lemma all_opsF_firstn n : forall ops, all_opsF ops -> all_opsF (firstn n ops).
Proof.
  induction n as [|n IH]; intros ops H; [exact I|]. destruct ops as [|[s v] r]; [exact I|].
  cbn [firstn all_opsF] in *. destruct H as (A & B & Cc). auto.
Qed.

Theorem all_histories_F ops u su : corrS dbg shs u su -> all_opsF ops -> outside_known dbg hp ho hd u ops ->
  forall n, exists u' su',
    model_run dbg hp ho hd u (firstn n ops) = Some u'
    /\ spec_run shp su (firstn n ops) = Some su'
    /\ corrS dbg shs u' su'
    /\ model_api dbg u' = Some (spec_api_list shs su').
Proof.
  intros C Hf Ho n.
  destruct (all_run_F (firstn n ops) u su C (all_opsF_firstn n ops Hf) (outside_known_firstn dbg hp ho hd n ops u Ho))
    as (u' & su' & A & B & C').
  exists u', su'. split; [exact A|]. split; [exact B|]. split; [exact C'|]. exact (corr_api dbg shs u' su' (proj1 C')).
Qed.

Theorem all_from_parse_F input u ops : usv_list input -> known_c01 None input = 0 ->
  parse_url dbg hp ho hd None None input = POk u ->
  all_opsF ops -> outside_known dbg hp ho hd u ops ->
  exists su, spec_basic_url_parse shp input None = BDone su
    /\ model_api dbg u = Some (spec_api_list shs su)
    /\ forall n, exists u' su',
         model_run dbg hp ho hd u (firstn n ops) = Some u'
         /\ spec_run shp su (firstn n ops) = Some su'
         /\ model_api dbg u' = Some (spec_api_list shs su').
Proof.
  intros Hu Hk Hp Hops Hout.
  destruct (parse_all_corrS_F input u Hu Hk Hp) as (su & Hs & C).
  exists su. split; [exact Hs|]. split; [exact (corr_api dbg shs u su (proj1 C))|].
  intros n.
  destruct (all_histories_F ops u su C Hops Hout n) as (u' & su' & A & B & _ & D).
  exists u', su'. split; [exact A|]. split; [exact B | exact D].
Qed.

Theorem statement_all_onF :
  exists R : url -> spec_url -> Prop,
    (forall u su, R u su -> model_api dbg u = Some (spec_api_list shs su))
    /\ (forall input u, usv_list input -> known_c01 None input = 0 ->
          parse_url dbg hp ho hd None None input = POk u ->
          exists su, spec_basic_url_parse shp input None = BDone su /\ R u su)
    /\ (forall u su s v, R u su -> all_okF s v -> usv_list v -> known_c07 u s v = 0 ->
          exists u' su', model_set dbg hp ho hd s u v = Some u' /\ spec_step shp s su v = Some su' /\ R u' su').
Proof.
  exists (corrS dbg shs). split; [intros u su C; exact (corr_api dbg shs u su (proj1 C))|].
  split; [exact parse_all_corrS_F | exact all_step_F].
Qed.

End AllF.

(* ---------- the real host functions, relative to IdnaOut ---------- *)
Theorem real_host_parse_ok_onF_out idna : IdnaOut idna ->
  host_parse_ok_onF (host_parse idna) host_parse_opaque host_display (spec_host_parser idna) spec_host_serializer.
Proof.
  intros OUT. split; [exact (real_host_parse_ok_on_out idna OUT)|].
  intros s Hs. exact (proj2 (proj2 (host_agree_file_real idna OUT s Hs))).
Qed.

Theorem statement_model_F dbg idna : IdnaOut idna ->
  exists R : url -> spec_url -> Prop,
    (forall u su, R u su -> model_api dbg u = Some (spec_api_list spec_host_serializer su))
    /\ (forall input u, usv_list input -> known_c01 None input = 0 ->
          parse_url dbg (host_parse idna) host_parse_opaque host_display None None input = POk u ->
          exists su, spec_basic_url_parse (spec_host_parser idna) input None = BDone su /\ R u su)
    /\ (forall u su s v, R u su -> all_okF (spec_host_parser idna) spec_host_serializer s v -> usv_list v ->
          known_c07 u s v = 0 ->
          exists u' su', model_set dbg (host_parse idna) host_parse_opaque host_display s u v = Some u'
            /\ spec_step (spec_host_parser idna) s su v = Some su' /\ R u' su').
Proof. intros OUT. exact (statement_all_onF dbg _ _ _ _ _ (real_host_parse_ok_onF_out idna OUT)). Qed.

Theorem model_histories_F dbg idna : IdnaOut idna ->
  forall input u ops, usv_list input -> known_c01 None input = 0 ->
  parse_url dbg (host_parse idna) host_parse_opaque host_display None None input = POk u ->
  all_opsF (spec_host_parser idna) spec_host_serializer ops ->
  outside_known dbg (host_parse idna) host_parse_opaque host_display u ops ->
  exists su, spec_basic_url_parse (spec_host_parser idna) input None = BDone su
    /\ model_api dbg u = Some (spec_api_list spec_host_serializer su)
    /\ forall n, exists u' su',
         model_run dbg (host_parse idna) host_parse_opaque host_display u (firstn n ops) = Some u'
         /\ spec_run (spec_host_parser idna) su (firstn n ops) = Some su'
         /\ model_api dbg u' = Some (spec_api_list spec_host_serializer su').
Proof. intros OUT. exact (all_from_parse_F dbg _ _ _ _ _ (real_host_parse_ok_onF_out idna OUT)). Qed.

(* ---------- abstract host functions that meet host_parse_okF ---------- *)
Theorem ok_host_parse_okF : host_parse_okF ok_hp ok_ho toy_hd ok_shp toy_shs.
Proof.
  split; [exact ok_host_parse_ok|]. intros [|c r]; unfold host_local_ok, host_parsing, ok_hp, ok_shp; [exact I|].
  destruct (bad_text (c :: r)); [exact I | reflexivity].
Qed.
