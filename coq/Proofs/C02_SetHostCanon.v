(* Proofs/C02_SetHostCanon.v - L2 for the host setters on the canonical forms.
   Url::set_ip_host and Url::set_host(Some _) on a Canon record outside the known step classes give a Canon record:
   - opaque path: the setters refuse (cannot-be-a-base), the record is unchanged;
   - no authority, no "/." marker (F-C03-5 excluded): "//" host is inserted, the result is the canonical record with
     authority, empty userinfo, no port and the same path;
   - authority (either scheme kind): the host text is replaced.
   The host the setter stores is the value of the host parser of the scheme kind (set_host) resp. the IP value
   (set_ip_host; IPv4 on a non-special scheme is F-C02-9, excluded), hence canonical by HostRT / ip_clause.
   One more hypothesis on the host functions is needed, host_nonempty: only the empty text parses to the empty host
   (true of url::Host - Model/Host.v - but not a consequence of HostOK2: with a host parser that read "x" as the empty
   host, a://u@h/ -> set_host("x") would give a://u@/, outside F-C02-4 and not a fixpoint). *)
From RU Require Import Base.Prelude Base.Utf8 Base.Utf8Facts Model.AsciiSet Gen.Tables
  Model.PercentEncoding Model.HostT Model.UrlRecord Model.Parser Model.Setters Model.WF
  Proofs.ListN Proofs.C14_Set Proofs.C14_Enc Proofs.C14_Views Proofs.C02_Enc Proofs.C02_Parts
  Proofs.C02_Opaque Proofs.C02_Path Proofs.C02_PathL1 Proofs.C02_Reach Proofs.C16_RT Proofs.C02_AuthParts
  Proofs.C02_Auth Proofs.C02_AuthWf Proofs.C02_PathSp Proofs.C02_AuthSp Proofs.C02_AuthMain Proofs.C02_SetQF
  Proofs.C02_Canon Proofs.C02_SetPort Proofs.C02_Hist Proofs.C02_SetHostFrame.
Open Scope N_scope.
Open Scope list_scope.

Definition host_nonempty (hp hpo : list N -> result host) : Prop :=
  (forall s, hp s <> Ok (HDomain [])) /\ (forall s, usv_list s -> hpo s = Ok (HDomain []) -> s = []).

Lemma usv_nfirstn n l : usv_list l -> usv_list (nfirstn n l).
Proof. intros H. rewrite <- (nfirstn_nskipn n l) in H. apply usv_app in H. tauto. Qed.

Lemma host_eq_dec_nil (h : host) : {h = HDomain []} + {h <> HDomain []}.
Proof. destruct h as [[|c d]|a|ps]; [left; reflexivity | right; discriminate | right; discriminate | right; discriminate]. Qed.

Section HostCanon.
Variable dbg : bool.
Variable hp hpo : list N -> result host.
Variable hd : host -> list N.
Hypothesis HRT : HostRT hp hpo hd.
Hypothesis HAb : host_above hp hpo hd.

Notation auth_ok := (auth_ok hp hpo hd).
Notation auth_url := (auth_url hd).
Notation auth_ser := (auth_ser hd).
Notation host_ok := (host_ok hp hpo hd).
Notation Canon := (Canon hp hpo hd).

Lemma auth_ok_host st sch ui h pt p q f h' pt' : auth_ok st sch ui h pt p q f ->
  host_ok st h' -> (h' = HDomain [] -> ui = UNone /\ pt' = None) -> port_ok (default_port sch) pt' ->
  nlen (auth_ser sch ui h' pt' p q f) <= U32_MAX_P -> auth_ok st sch ui h' pt' p q f.
Proof.
  intros K Hh He Hpt Hb. destruct K as [Ksch Kst Kui Kh Kemp Kpt Kp Kq Kf Kb Kbq Kbf].
  destruct (qf_bounds _ _ _ _ Hb) as [B1 B2]. constructor; try assumption.
  unfold auth_ser, auth_pre in Hb. rewrite !nlen_app in Hb. lia.
Qed.

Lemma noauth_to_auth sch segs last q f h' pt' : noauth_ok sch segs last q f ->
  host_ok STNotSpecial h' -> (h' = HDomain [] -> pt' = None) -> port_ok (default_port sch) pt' ->
  nlen (auth_ser sch UNone h' pt' (Some (segs, last)) q f) <= U32_MAX_P ->
  auth_ok STNotSpecial sch UNone h' pt' (Some (segs, last)) q f.
Proof.
  intros K Hh He Hpt Hb. destruct K as [Ksch Kns Ksegs Klast Kq Kf Kb1 Kbq Kbf].
  destruct (qf_bounds _ _ _ _ Hb) as [B1 B2]. constructor; try assumption.
  - exact I.
  - intros E. split; [reflexivity | exact (He E)].
  - split; assumption.
  - unfold auth_ser, auth_pre in Hb. rewrite !nlen_app in Hb. lia.
Qed.

(* the records a host setter acts on: not cannot-be-a-base, no marker *)
Inductive hostable : url -> scheme_type -> list N -> uinfo -> option N -> Prop :=
| HB_noauth sch segs last q f : noauth_ok sch segs last q f -> starts_with s_ss (path_text segs last) = false ->
    hostable (noauth_url sch (path_text segs last) q f) STNotSpecial sch UNone None
| HB_auth sch ui h pt p q f : auth_ok STNotSpecial sch ui h pt p q f ->
    hostable (auth_url sch ui h pt p q f) STNotSpecial sch ui pt
| HB_special sch ui h pt p q f : auth_ok STSpecialNotFile sch ui h pt p q f -> pth_ok_sp p ->
    hostable (auth_url sch ui h pt p q f) STSpecialNotFile sch ui pt.

Theorem shi_hostable u st sch ui pt h' onp u' : hostable u st sch ui pt -> host_ok st h' ->
  (h' = HDomain [] -> ui = UNone /\ match onp with Some np => np | None => pt end = None) ->
  port_ok (default_port sch) (match onp with Some np => np | None => pt end) ->
  set_host_internal dbg hd u h' onp = Some u' -> nlen (ser u') <= U32_MAX_P -> Canon u'.
Proof.
  intros Hu. destruct Hu as [sch0 segs last q f K Hm | sch0 ui0 h pt0 p q f K | sch0 ui0 h pt0 p q f K Kp]; intros Hh He Hpt.
  - rewrite (set_host_internal_noauth dbg hd sch0 segs last q f h' onp Hm). intros E Hb. inversion E; subst u'. clear E.
    apply Canon_auth. apply (noauth_to_auth sch0 segs last q f); try assumption.
    intros E. exact (proj2 (He E)).
  - rewrite set_host_internal_auth. intros E Hb. inversion E; subst u'. clear E.
    apply Canon_auth. exact (auth_ok_host _ sch0 ui0 h pt0 p q f h' _ K Hh He Hpt Hb).
  - rewrite set_host_internal_auth. intros E Hb. inversion E; subst u'. clear E.
    apply Canon_special; [|exact Kp]. exact (auth_ok_host _ sch0 ui0 h pt0 p q f h' _ K Hh He Hpt Hb).
Qed.

(* what the setters read off such a record *)
Lemma noauth_scheme sch T q f : scheme (noauth_url sch T q f) = Some sch.
Proof.
  unfold scheme, u_slice_to. cbn [noauth_url ser scheme_end]. unfold noauth_ser, noauth_pre.
  rewrite slice_to_o_some by (rewrite !nlen_app; lia). rewrite <- !app_assoc. rewrite nfirstn_app_len. reflexivity.
Qed.

Lemma hostable_facts u st sch ui pt : hostable u st sch ui pt ->
  scheme u = Some sch /\ scheme_type_of sch = st /\ st_is_file st = false /\ cannot_be_a_base u = Some false
  /\ scheme_of u = sch /\ port u = pt /\ (username_end u = host_start u -> ui = UNone)
  /\ port_ok (default_port sch) pt /\ Canon u.
Proof.
  assert (forall sch ui h pt p q f, username_end (auth_url sch ui h pt p q f) = host_start (auth_url sch ui h pt p q f) -> ui = UNone) as Hui.
  { clear. intros sch ui h pt p q f. cbn [auth_url username_end host_start]. intros E. apply ui_text_nil.
    destruct ui as [|a|a b]; cbn [ui_text ui_ulen] in *; [reflexivity| |]; exfalso; rewrite ?nlen_app, ?nlen_cons, ?nlen_app in E;
      cbn [nlen length] in E; lia. }
  intros Hu. destruct Hu as [sch0 segs last q f K Hm | sch0 ui0 h pt0 p q f K | sch0 ui0 h pt0 p q f K Kp].
  - split; [apply noauth_scheme|]. split; [exact (nk_ns _ _ _ _ _ K)|]. split; [reflexivity|].
    split; [exact (proj1 (proj2 (noauth_url_wf sch0 segs last q f K)))|].
    split; [unfold scheme_of; cbn [noauth_url scheme_end ser]; unfold noauth_ser, noauth_pre; rewrite <- !app_assoc; apply nfirstn_app_len|].
    split; [reflexivity|]. split; [reflexivity|]. split; [exact I|]. exact (Canon_noauth hp hpo hd sch0 segs last q f K).
  - split; [apply auth_scheme|]. split; [exact (ak_st _ _ _ _ _ _ _ _ _ _ _ K)|]. split; [reflexivity|].
    split; [exact (proj2 (auth_url_wf hp hpo hd HRT _ _ _ _ _ _ _ _ K))|].
    split; [unfold scheme_of; cbn [auth_url scheme_end ser]; unfold auth_ser, auth_pre; rewrite <- app_assoc; apply front_sch|].
    split; [reflexivity|]. split; [apply Hui|]. split; [exact (ak_pt _ _ _ _ _ _ _ _ _ _ _ K)|].
    exact (Canon_auth hp hpo hd sch0 ui0 h pt0 p q f K).
  - split; [apply auth_scheme|]. split; [exact (ak_st _ _ _ _ _ _ _ _ _ _ _ K)|]. split; [reflexivity|].
    split; [exact (proj2 (auth_url_wf hp hpo hd HRT _ _ _ _ _ _ _ _ K))|].
    split; [unfold scheme_of; cbn [auth_url scheme_end ser]; unfold auth_ser, auth_pre; rewrite <- app_assoc; apply front_sch|].
    split; [reflexivity|]. split; [apply Hui|]. split; [exact (ak_pt _ _ _ _ _ _ _ _ _ _ _ K)|].
    exact (Canon_special hp hpo hd sch0 ui0 h pt0 p q f K Kp).
Qed.

(* a Canon record is cannot-be-a-base, or carries the marker, or is hostable *)
Lemma noauth_marker sch T q f : starts_with [47] T = true -> has_marker (noauth_url sch T q f) = starts_with s_ss T.
Proof.
  intros HT. unfold has_marker, has_authority_b. cbn [noauth_url ser scheme_end path_start]. unfold noauth_ser, noauth_pre, marker_of.
  rewrite <- !app_assoc. rewrite nskipn_app_len.
  destruct T as [|c T]; [cbn in HT; discriminate HT|]. cbn [starts_with] in HT. rewrite andb_true_r in HT. apply N.eqb_eq in HT. subst c.
  destruct (starts_with s_ss (47 :: T)) eqn:Es.
  - cbn [app starts_with s_css]. rewrite nlen_app. change (nlen [58]) with 1. change (nlen [47; 46]) with 2.
    replace (nlen sch + 1 + 2 =? nlen sch + 3) with true by lia. reflexivity.
  - cbn [app]. rewrite nlen_app. change (nlen [58]) with 1. change (nlen []) with 0.
    replace (nlen sch + 1 + 0 =? nlen sch + 3) with false by lia. apply andb_false_r.
Qed.

Lemma Canon_classes u : Canon u ->
  cannot_be_a_base u = Some true \/ has_marker u = true \/ exists st sch ui pt, hostable u st sch ui pt.
Proof.
  intros [sch P q f K | sch segs last q f K | sch ui h pt p q f K | sch ui h pt p q f K Kp].
  - left. exact (opaque_url_cbb sch P q f K).
  - right. destruct (starts_with s_ss (path_text segs last)) eqn:Es.
    + left. rewrite noauth_marker by reflexivity. exact Es.
    + right. exists STNotSpecial, sch, UNone, None. exact (HB_noauth sch segs last q f K Es).
  - right. right. exists STNotSpecial, sch, ui, pt. exact (HB_auth sch ui h pt p q f K).
  - right. right. exists STSpecialNotFile, sch, ui, pt. exact (HB_special sch ui h pt p q f K Kp).
Qed.

Lemma u_scheme_type_of u sch : scheme u = Some sch -> u_scheme_type u = Some (scheme_type_of sch).
Proof. intros E. unfold u_scheme_type. rewrite E. reflexivity. Qed.

(* ---------- Url::set_ip_host ---------- *)
Lemma ip_host_ok st h' : ip_clause hp hpo hd -> op_args_ok (OSetIpHost h') -> st_is_file st = false ->
  (st_is_special st = false -> match h' with HIpv4 _ => False | _ => True end) -> host_ok st h'.
Proof.
  intros HIP Ha Hnf H4. destruct (HIP h' Ha) as (T & P & P6). right.
  assert (h' <> HDomain []) as Hne by (intros ->; exact Ha).
  split; [exact Hne|]. split; [exact T|]. unfold hpx. destruct (st_is_special st) eqn:Esp.
  - split; [exact P | exact (proj1 HAb _ _ P)].
  - specialize (H4 eq_refl). destruct h' as [d|a|ps]; [contradiction|contradiction|].
    pose proof (P6 ps eq_refl) as Po. split; [exact Po | exact (proj2 HAb _ _ Po)].
Qed.

Theorem set_ip_host_Canon u h' u' s : ip_clause hp hpo hd -> Canon u -> op_args_ok (OSetIpHost h') ->
  known_step2 dbg hp hpo hd u (OSetIpHost h') = false ->
  set_ip_host dbg hd u h' = Some (u', s) -> nlen (ser u') <= U32_MAX_P -> Canon u'.
Proof.
  intros HIP C Ha Hk. unfold known_step2, known_step in Hk. rewrite !orb_false_iff in Hk.
  destruct Hk as [[[[[K1 _] _] _] _] K9]. unfold Known_F_C03_5 in K1. cbn [is_host_or_path_op] in K1. rewrite andb_true_r in K1.
  unfold set_ip_host. destruct (Canon_classes u C) as [Hc | [Hm | (st & sch & ui & pt & Hh)]].
  - rewrite Hc. cbn [bindo]. intros E _. inversion E; subst. exact C.
  - congruence.
  - destruct (hostable_facts u st sch ui pt Hh) as (Es & Est & Hnf & Hc & Eso & Ept & Hui & Hpo & _).
    rewrite Hc. cbn [bindo]. destruct (set_host_internal dbg hd u h' None) as [u1|] eqn:E1; [|discriminate].
    cbn [bindo]. intros E Hb. inversion E; subst u1 s. clear E.
    apply (shi_hostable u st sch ui pt h' None u' Hh); try assumption.
    + apply (ip_host_ok st h' HIP Ha Hnf). intros Esp. unfold Known_F_C02_9 in K9. rewrite Eso, Est, Esp in K9.
      destruct h'; try exact I. discriminate K9.
    + intros ->. contradiction Ha.
Qed.

(* ---------- Url::set_host(Some x) ---------- *)
Lemma nfirstn_pos_cons i c (r : list N) : i <> 0 -> nfirstn i (c :: r) <> [].
Proof. intros Hi. unfold nfirstn. destruct (N.to_nat i) eqn:E; [lia|]. cbn [firstn]. discriminate. Qed.

Theorem set_host_some_Canon u x u' s : host_nonempty hp hpo -> Canon u -> usv_list x ->
  known_step2 dbg hp hpo hd u (OSetHost (Some x)) = false ->
  set_host dbg hp hpo hd u (Some x) = Some (u', s) -> nlen (ser u') <= U32_MAX_P -> Canon u'.
Proof.
  intros [HN1 HN2] C Hx Hk. unfold known_step2, known_step in Hk. rewrite !orb_false_iff in Hk.
  destruct Hk as [[[[[K1 _] _] _] K4] _]. unfold Known_F_C03_5 in K1. cbn [is_host_or_path_op] in K1. rewrite andb_true_r in K1.
  unfold set_host. destruct (Canon_classes u C) as [Hc | [Hm | (st & sch & ui & pt & Hh)]].
  - rewrite Hc. cbn [bindo]. intros E _. inversion E; subst. exact C.
  - congruence.
  - destruct (hostable_facts u st sch ui pt Hh) as (Es & Est & Hnf & Hc & Eso & Ept & Hui & Hpo & _).
    rewrite Hc. cbn [bindo]. rewrite (u_scheme_type_of u sch Es). cbn [bindo]. rewrite Est, Hnf. cbn [negb]. rewrite andb_true_r.
    destruct ((match x with [] => true | _ => false end) && st_is_special st) eqn:E0.
    { intros E _. inversion E; subst. exact C. }
    set (sub := if (match x with 91 :: _ => true | _ => false end) && ends_with_byte 93 x then Some x
                else match find_byte 58 x with Some 0 => None | Some i => Some (nfirstn i x) | None => Some x end).
    assert (forall hsub, sub = Some hsub -> usv_list hsub) as Husub.
    { intros hsub E. unfold sub in E.
      destruct ((match x with 91 :: _ => true | _ => false end) && ends_with_byte 93 x); [inversion E; subst; exact Hx|].
      destruct (find_byte 58 x) as [[|i]|]; inversion E; subst; [apply usv_nfirstn|]; exact Hx. }
    assert (forall hsub, sub = Some hsub -> hsub = [] -> x = []) as Hsub.
    { intros hsub E En. subst hsub. unfold sub in E. destruct x as [|c r]; [reflexivity|]. exfalso.
      destruct ((match c :: r with 91 :: _ => true | _ => false end) && ends_with_byte 93 (c :: r)); [discriminate E|].
      destruct (find_byte 58 (c :: r)) as [i|]; [|discriminate E].
      destruct (N.eq_dec i 0) as [->|Hi]; [discriminate E|].
      destruct i; [contradiction|]. inversion E as [E']. exact (nfirstn_pos_cons _ c r Hi E'). }
    fold sub. destruct sub as [hsub|] eqn:Esub.
    2:{ intros E _. inversion E; subst. exact C. }
    destruct (if st_is_special st then hp hsub else hpo hsub) as [h'|e] eqn:Eh.
    2:{ intros E _. inversion E; subst. exact C. }
    destruct (set_host_internal dbg hd u h' None) as [u1|] eqn:E1; [|discriminate].
    cbn [bindo]. intros E Hb. inversion E; subst u1 s. clear E.
    apply (shi_hostable u st sch ui pt h' None u' Hh); try assumption.
    + destruct (host_eq_dec_nil h') as [->|Hne].
      * left. split; [reflexivity|]. destruct (st_is_special st); [exfalso; exact (HN1 _ Eh) | reflexivity].
      * apply (hpx_host_ok hp hpo hd HRT HAb st hsub h'); [|exact Hne]. unfold hpx. destruct (st_is_special st); exact Eh.
    + intros ->. assert (x = []) as Ex.
      { apply (Hsub hsub eq_refl). destruct (st_is_special st); [exfalso; exact (HN1 _ Eh) | exact (HN2 _ (Husub hsub eq_refl) Eh)]. }
      subst x. unfold Known_F_C02_4 in K4. apply orb_false_iff in K4. destruct K4 as [_ K4]. cbn [andb] in K4.
      unfold has_credentials_or_port in K4. apply orb_false_iff in K4. destruct K4 as [K4a K4b].
      apply negb_false_iff in K4a. apply N.eqb_eq in K4a. split; [exact (Hui K4a)|].
      rewrite Ept in K4b. destruct pt; [discriminate K4b | reflexivity].
Qed.
End HostCanon.
