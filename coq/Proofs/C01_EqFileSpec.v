(* Proofs/C01_EqFileSpec.v - specification side of the C01 equivalence for the file scheme: what the
   file, file slash, file host, path start and path states of Spec/Whatwg.v compute on ANY text after
   "file:" when there is no file base (no base, or a base with another scheme), as a function of that
   text (`sfile`), and the proof that the state machine computes exactly that.  The path state is read
   with BOTH Windows-drive-letter quirks of the Standard (`fin_f`: a sole normalized drive letter is not
   popped by "..", a drive letter that becomes the first segment is normalized to "X:"), the file host
   state with its quirk (a drive letter in host position is not a host: the buffer is kept and the path
   state goes on with it) and the localhost rule. *)
From RU Require Import Base.Prelude Base.Utf8 Spec.Whatwg Proofs.C01_EqRun Proofs.C01_EqPathSpec Proofs.C01_EqAuthSpec
  Proofs.C01_EqSpSpec.

(* ================= the path state of a file URL on the segment list ================= *)
(* "shorten a url's path" for a file URL *)
Definition shorten_f (P : list (list N)) : list (list N) :=
  match P with
  | [p0] => if is_normalized_windows_drive_letter p0 then P else removelast P
  | _ => removelast P
  end.
(* the buffer as it is appended: a Windows drive letter that becomes the first segment is normalized *)
Definition norm_first (P : list (list N)) (B : list N) : list N :=
  if is_nil P && is_windows_drive_letter B then match B with a :: _ :: r => a :: 58 :: r | _ => B end else B.

Definition fin_f (P : list (list N)) (B : list N) (sep : bool) : list (list N) :=
  if is_double_dot_segment B then (if sep then shorten_f P else shorten_f P ++ [[]])
  else if is_single_dot_segment B then (if sep then P else P ++ [[]])
  else P ++ [norm_first P B].

Fixpoint spath_f (t : list N) (P : list (list N)) (B : list N) : list (list N) * list N :=
  match t with
  | [] => (fin_f P B false, [])
  | c :: r => if is_sl c then spath_f r (fin_f P B true) []
              else if is_qh c then (fin_f P B false, t)
              else spath_f r P (B ++ utf8_percent_encode_cp in_path_set c)
  end.

Lemma spath_f_rest_head t : forall P B, match snd (spath_f t P B) with [] => True | c :: _ => is_qh c = true end.
Proof.
  induction t as [|c r IH]; intros P B; [exact I|]. cbn [spath_f].
  destruct (is_sl c); [apply IH|]. destruct (is_qh c) eqn:E; [exact E | apply IH].
Qed.

(* the record after the path state: the segment list, then what follows the path *)
Definition file_tail (u : spec_url) (r : list (list N) * list N) : spec_url :=
  tail_url (set_path u (SPList (fst r))) (snd r).
(* path start state on a text that is empty or starts with '/', '\', '?' or '#' *)
Definition fstart (u : spec_url) (X : list N) : spec_url := file_tail u (spath_f (path_text_s X) [] []).

(* the URL the file state works on *)
Definition fu (u : spec_url) : spec_url := set_host (set_scheme u str_file) (Some SEmpty).
(* "If host is "localhost", then set host to the empty string" *)
Definition lh (h : spec_host) : spec_host :=
  match h with SDomain d => if list_eqb d str_localhost then SEmpty else h | _ => h end.

Section SFile.
Variable shp : bool -> list N -> option spec_host.

(* file host state with `buf` already in the buffer, on the text t; None = failure *)
Definition sfile_host_g (u : spec_url) (buf t : list N) : option spec_url :=
  let h := buf ++ as_part t in
  let X := as_rest t in
  if is_windows_drive_letter h then Some (file_tail u (spath_f X [] h))
  else if is_nil h then Some (fstart (set_host u (Some SEmpty)) X)
  else match host_parsing shp false h with
       | None => None
       | Some sh => Some (fstart (set_host u (Some (lh sh))) X)
       end.

(* the text R after "file:" (no file base); u = url on entry of the file state *)
Definition sfile (u : spec_url) (R : list N) : option spec_url :=
  match R with
  | c1 :: R1 =>
      if is_sl c1 then
        match R1 with
        | c2 :: T => if is_sl c2 then sfile_host_g (fu u) [] T else Some (file_tail (fu u) (spath_f R1 [] []))
        | [] => Some (file_tail (fu u) (spath_f [] [] []))
        end
      else Some (file_tail (fu u) (spath_f R [] []))
  | [] => Some (file_tail (fu u) (spath_f [] [] []))
  end.

End SFile.

(* the pieces a class recogniser looks at when the text after "file:" starts with two slashes: T follows them *)
Definition file_host_text (T : list N) : list N := as_part T.
Definition file_path_text (T : list N) : list N := as_rest T.

(* ================= the state machine computes it ================= *)
Section FileRuns.
Variable hp : bool -> list N -> option spec_host.
Variable input : list N.
Variable base : option spec_url.

Notation RunsN := (Runs hp input base).
Notation stepN := (step hp input base None).
Notation outN := (out_is hp input base).

Lemma file_special u : list_eqb (su_scheme u) str_file = true -> is_special u = true.
Proof. intros H. apply list_eqb_spec in H. unfold is_special. rewrite H. reflexivity. Qed.

Lemma path_seg_update_f u P B sep :
  su_path u = SPList P -> list_eqb (su_scheme u) str_file = true ->
  (if is_double_dot_segment B
   then (if negb sep then path_append (shorten_path u) [] else shorten_path u)
   else if is_single_dot_segment B && negb sep then path_append u []
        else if negb (is_single_dot_segment B)
             then path_append u (if list_eqb (su_scheme u) str_file && path_is_empty_list u && is_windows_drive_letter B
                                 then match B with a :: _ :: r => a :: 58 :: r | _ => B end else B)
             else u)
  = set_path u (SPList (fin_f P B sep)).
Proof.
  intros HP Hf. unfold fin_f, shorten_path, path_append, path_is_empty_list, norm_first, shorten_f. rewrite Hf, HP. cbn [andb].
  destruct (is_double_dot_segment B).
  - destruct P as [|p0 [|p1 P']].
    + destruct sep; cbn [negb removelast su_path set_path app]; destruct u; reflexivity.
    + destruct (is_normalized_windows_drive_letter p0).
      * destruct sep; cbn [negb]; rewrite ?HP; destruct u; cbn in *; subst; reflexivity.
      * destruct sep; cbn [negb removelast su_path set_path app]; destruct u; reflexivity.
    + destruct sep; cbn [negb su_path set_path]; destruct u; reflexivity.
  - destruct (is_single_dot_segment B); cbn [andb negb].
    + destruct sep; cbn [negb]; destruct u; cbn in *; subst; reflexivity.
    + destruct P as [|p0 P']; cbn [is_nil andb]; reflexivity.
Qed.

(* ---------- path state ---------- *)
Theorem runs_path_f : forall t pre B a b pw u P,
  input = pre ++ t -> su_path u = SPList P -> list_eqb (su_scheme u) str_file = true ->
  RunsN (at_pos StPath pre B a b pw u) (BDone (file_tail u (spath_f t P B))).
Proof.
  unfold file_tail.
  induction t as [|c r IH]; intros pre B a b pw u P Hin HP Hf; pose proof (file_special u Hf) as Hsp.
  - cbn [spath_f fst snd tail_url].
    eapply R_end with (m' := at_pos StPath pre [] a b pw (set_path u (SPList (fin_f P B false)))).
    + rewrite (step_unfold _ _ _ _ _ _ _ _ _ _ _ Hin). cbn zeta. cbn [hd_error]. unfold st_path.
      cbn [is_eof orb cis andb m_url m_buf at_pos]. rewrite Hsp. cbn [andb orb].
      rewrite (path_seg_update_f u P B false HP Hf). reflexivity.
    + cbn [m_ptr at_pos]. rewrite (len_split hp _ _ _ Hin). cbn [length]. lia.
  - cbn [spath_f]. destruct (is_sl c) eqn:Esl.
    + assert ((c =? 63) = false) as E63 by (unfold is_sl in Esl; lia).
      assert ((c =? 35) = false) as E35 by (unfold is_sl in Esl; lia).
      eapply runs_step_next with (st' := StPath) (buf' := []) (u' := set_path u (SPList (fin_f P B true))); [exact Hin | |].
      * rewrite (step_unfold _ _ _ _ _ _ _ _ _ _ _ Hin). cbn zeta. cbn [hd_error]. unfold st_path.
        cbn [is_eof orb cis andb m_url m_buf at_pos]. rewrite Hsp. cbn [andb]. fold (is_sl c). rewrite Esl. cbn [orb].
        rewrite (path_seg_update_f u P B true HP Hf). rewrite E63, E35. reflexivity.
      * exact (IH (pre ++ [c]) [] a b pw (set_path u (SPList (fin_f P B true))) (fin_f P B true)
                  (snoc_split _ _ _ _ Hin) eq_refl Hf).
    + unfold is_qh. destruct (c =? 63) eqn:E63.
      * cbn [orb fst snd tail_url]. rewrite E63.
        eapply runs_step_next with (st' := StQuery) (buf' := [])
          (u' := set_query (set_path u (SPList (fin_f P B false))) (Some [])); [exact Hin | |].
        -- rewrite (step_unfold _ _ _ _ _ _ _ _ _ _ _ Hin). cbn zeta. cbn [hd_error]. unfold st_path.
           cbn [is_eof orb cis andb m_url m_buf at_pos has_ov opt_is_some negb]. rewrite Hsp. cbn [andb]. fold (is_sl c).
           rewrite Esl, E63. cbn [andb orb]. rewrite (path_seg_update_f u P B false HP Hf). reflexivity.
        -- exact (runs_query hp input base r (pre ++ [c]) [] a b pw (set_query (set_path u (SPList (fin_f P B false))) (Some [])) []
                   (snoc_split _ _ _ _ Hin) eq_refl).
      * destruct (c =? 35) eqn:E35.
        -- cbn [orb fst snd tail_url]. rewrite E63.
           eapply runs_step_next with (st' := StFragment) (buf' := [])
             (u' := set_fragment (set_path u (SPList (fin_f P B false))) (Some [])); [exact Hin | |].
           ++ rewrite (step_unfold _ _ _ _ _ _ _ _ _ _ _ Hin). cbn zeta. cbn [hd_error]. unfold st_path.
              cbn [is_eof orb cis andb m_url m_buf at_pos has_ov opt_is_some negb]. rewrite Hsp. cbn [andb]. fold (is_sl c).
              rewrite Esl, E63, E35. cbn [andb orb]. rewrite (path_seg_update_f u P B false HP Hf). reflexivity.
           ++ exact (runs_fragment hp input base r (pre ++ [c]) [] a b pw (set_fragment (set_path u (SPList (fin_f P B false))) (Some [])) []
                      (snoc_split _ _ _ _ Hin) eq_refl).
        -- cbn [orb].
           eapply runs_step_next with (st' := StPath) (buf' := B ++ utf8_percent_encode_cp in_path_set c) (u' := u);
             [exact Hin | |].
           ++ rewrite (step_unfold _ _ _ _ _ _ _ _ _ _ _ Hin). cbn zeta. cbn [hd_error]. unfold st_path.
              cbn [is_eof orb cis andb m_url m_buf at_pos has_ov opt_is_some negb]. rewrite Hsp. cbn [andb]. fold (is_sl c).
              rewrite Esl, E63, E35. cbn [andb orb]. reflexivity.
           ++ exact (IH (pre ++ [c]) _ a b pw u P (snoc_split _ _ _ _ Hin) HP Hf).
Qed.

(* ---------- path start state (file URL, no state override) ---------- *)
Theorem runs_path_start_f X : forall pre a b pw u,
  input = pre ++ X -> su_path u = SPList [] -> list_eqb (su_scheme u) str_file = true ->
  RunsN (at_pos StPathStart pre [] a b pw u) (BDone (fstart u X)).
Proof.
  intros pre a b pw u Hin HP Hf. pose proof (file_special u Hf) as Hsp. unfold fstart. destruct X as [|c r].
  - cbn [path_text_s].
    eapply runs_step_back with (st' := StPath) (buf' := []) (u' := u); [exact Hin | |].
    + rewrite (step_unfold _ _ _ _ _ _ _ _ _ _ _ Hin). cbn zeta. cbn [hd_error]. unfold st_path_start.
      cbn [m_url at_pos]. rewrite Hsp. reflexivity.
    + exact (runs_path_f [] pre [] a b pw u [] Hin HP Hf).
  - cbn [path_text_s]. destruct (is_sl c) eqn:Esl.
    + eapply runs_step_next with (st' := StPath) (buf' := []) (u' := u); [exact Hin | |].
      * rewrite (step_unfold _ _ _ _ _ _ _ _ _ _ _ Hin). cbn zeta. cbn [hd_error]. unfold st_path_start.
        cbn [m_url at_pos cis]. rewrite Hsp. unfold is_sl in Esl.
        destruct (c =? 47); [reflexivity|]. cbn [orb] in Esl. rewrite Esl. reflexivity.
      * exact (runs_path_f r (pre ++ [c]) [] a b pw u [] (snoc_split _ _ _ _ Hin) HP Hf).
    + eapply runs_step_back with (st' := StPath) (buf' := []) (u' := u); [exact Hin | |].
      * rewrite (step_unfold _ _ _ _ _ _ _ _ _ _ _ Hin). cbn zeta. cbn [hd_error]. unfold st_path_start.
        cbn [m_url at_pos cis]. rewrite Hsp. unfold is_sl in Esl. apply orb_false_iff in Esl. destruct Esl as [-> ->].
        reflexivity.
      * exact (runs_path_f (c :: r) pre [] a b pw u [] Hin HP Hf).
Qed.

(* ---------- file host state ---------- *)
Lemma fh_end_cond X : starts_aes X = true ->
  (is_eof (hd_error X) || cis (hd_error X) 47 || cis (hd_error X) 92 || cis (hd_error X) 63 || cis (hd_error X) 35) = true.
Proof.
  destruct X as [|c r]; [reflexivity|]. cbn [starts_aes hd_error is_eof cis orb]. unfold is_aes, is_ae. intros H.
  destruct (c =? 47); [reflexivity|]. destruct (c =? 92); [reflexivity|]. cbn [orb] in *. rewrite orb_false_r in H. exact H.
Qed.

Theorem runs_file_host t : forall pre buf a b pw u,
  input = pre ++ t -> su_path u = SPList [] -> list_eqb (su_scheme u) str_file = true ->
  outN (at_pos StFileHost pre buf a b pw u) (sfile_host_g hp u buf t).
Proof.
  (* the buffer ends at '/', '\', '?', '#' or the end of the input *)
  assert (forall X pre buf a b pw u, input = pre ++ X -> starts_aes X = true ->
            su_path u = SPList [] -> list_eqb (su_scheme u) str_file = true ->
            outN (at_pos StFileHost pre buf a b pw u)
                 (if is_windows_drive_letter buf then Some (file_tail u (spath_f X [] buf))
                  else if is_nil buf then Some (fstart (set_host u (Some SEmpty)) X)
                  else match host_parsing hp false buf with
                       | None => None
                       | Some sh => Some (fstart (set_host u (Some (lh sh))) X)
                       end)) as Hend.
  { intros X pre buf a b pw u Hin Hx HP Hf. pose proof (file_special u Hf) as Hsp. pose proof (fh_end_cond X Hx) as Ec.
    destruct (is_windows_drive_letter buf) eqn:Ew.
    - cbn [out_is].
      eapply runs_step_back with (st' := StPath) (buf' := buf) (u' := u); [exact Hin | |].
      + rewrite (step_unfold _ _ _ _ _ _ _ _ _ _ _ Hin). cbn zeta. unfold st_file_host.
        rewrite Ec. cbn [has_ov opt_is_some negb andb m_buf at_pos]. rewrite Ew. reflexivity.
      + exact (runs_path_f X pre buf a b pw u [] Hin HP Hf).
    - destruct (is_nil buf) eqn:Enil.
      + destruct buf as [|x y]; [|discriminate Enil]. cbn [out_is].
        eapply runs_step_back with (st' := StPathStart) (buf' := []) (u' := set_host u (Some SEmpty)); [exact Hin | |].
        * rewrite (step_unfold _ _ _ _ _ _ _ _ _ _ _ Hin). cbn zeta. unfold st_file_host.
          rewrite Ec. cbn [has_ov opt_is_some negb andb m_buf at_pos is_windows_drive_letter list_eqb]. reflexivity.
        * apply runs_path_start_f; [exact Hin | destruct u; exact HP | destruct u; exact Hf].
      + assert (list_eqb buf [] = false) as Enb by (rewrite list_eqb_nil; exact Enil).
        destruct (host_parsing hp false buf) as [sh|] eqn:Ehp.
        * cbn [out_is].
          eapply runs_step_back with (st' := StPathStart) (buf' := []) (u' := set_host u (Some (lh sh))); [exact Hin | |].
          -- rewrite (step_unfold _ _ _ _ _ _ _ _ _ _ _ Hin). cbn zeta. unfold st_file_host.
             rewrite Ec. cbn [has_ov opt_is_some negb andb m_buf m_url at_pos]. rewrite Ew, Enb, Hsp. cbn [negb]. rewrite Ehp.
             unfold lh. reflexivity.
          -- apply runs_path_start_f; [exact Hin | destruct u; exact HP | destruct u; exact Hf].
        * apply (out_fail hp input base _ u). rewrite (step_unfold _ _ _ _ _ _ _ _ _ _ _ Hin). cbn zeta. unfold st_file_host.
          rewrite Ec. cbn [has_ov opt_is_some negb andb m_buf m_url at_pos]. rewrite Ew, Enb, Hsp. cbn [negb]. rewrite Ehp.
          reflexivity. }
  induction t as [|c r IH]; intros pre buf a b pw u Hin HP Hf; unfold sfile_host_g.
  - cbn [as_part as_rest]. cbv zeta. rewrite app_nil_r. exact (Hend [] pre buf a b pw u Hin eq_refl HP Hf).
  - cbn [as_part as_rest]. destruct (is_aes c) eqn:Eae.
    + cbv zeta. rewrite app_nil_r. exact (Hend (c :: r) pre buf a b pw u Hin Eae HP Hf).
    + cbv zeta.
      pose proof (IH (pre ++ [c]) (buf ++ [c]) a b pw u (snoc_split _ _ _ _ Hin) HP Hf) as IH'.
      unfold sfile_host_g in IH'. cbv zeta in IH'. rewrite <- app_assoc in IH'. cbn [app] in IH'.
      eapply out_next with (st' := StFileHost) (buf' := buf ++ [c]) (u' := u); [exact Hin | | exact IH'].
      rewrite (step_unfold _ _ _ _ _ _ _ _ _ _ _ Hin). cbn zeta. cbn [hd_error]. unfold st_file_host.
      cbn [is_eof cis orb]. unfold is_aes, is_ae in Eae.
      assert ((c =? 47) = false) as -> by lia. assert ((c =? 92) = false) as -> by lia.
      assert ((c =? 63) = false) as -> by lia. assert ((c =? 35) = false) as -> by lia. reflexivity.
Qed.

(* ---------- file state and file slash state, no file base ---------- *)
Lemma fu_path u : su_path u = SPList [] -> su_path (fu u) = SPList [].
Proof. intros H. destruct u; exact H. Qed.
Lemma fu_scheme u : list_eqb (su_scheme (fu u)) str_file = true.
Proof. destruct u; reflexivity. Qed.

Theorem runs_file R : forall pre a b pw u,
  input = pre ++ R -> base_is_file base = None -> su_path u = SPList [] ->
  outN (at_pos StFile pre [] a b pw u) (sfile hp u R).
Proof.
  intros pre a b pw u Hin Hb HP. pose proof (fu_path u HP) as HP'. pose proof (fu_scheme u) as Hf'.
  unfold sfile. destruct R as [|c1 R1].
  - (* EOF *)
    cbn [out_is].
    eapply runs_step_back with (st' := StPath) (buf' := []) (u' := fu u); [exact Hin | |].
    + rewrite (step_unfold _ _ _ _ _ _ _ _ _ _ _ Hin). cbn zeta. cbn [hd_error]. unfold st_file.
      cbn [cis orb]. rewrite Hb. reflexivity.
    + exact (runs_path_f [] pre [] a b pw (fu u) [] Hin HP' Hf').
  - destruct (is_sl c1) eqn:Esl1.
    + (* file slash state *)
      assert (stepN (at_pos StFile pre [] a b pw u) = SCont (mkM StFileSlash (Z.of_nat (length pre)) [] a b pw (fu u))) as E1.
      { rewrite (step_unfold _ _ _ _ _ _ _ _ _ _ _ Hin). cbn zeta. cbn [hd_error]. unfold st_file.
        cbn [cis]. fold (is_sl c1). rewrite Esl1. reflexivity. }
      assert (input = (pre ++ [c1]) ++ R1) as Hin1 by (exact (snoc_split _ _ _ _ Hin)).
      destruct R1 as [|c2 T].
      * cbn [out_is]. eapply runs_step_next; [exact Hin | exact E1 |].
        eapply runs_step_back with (st' := StPath) (buf' := []) (u' := fu u); [exact Hin1 | |].
        -- rewrite (step_unfold _ _ _ _ _ _ _ _ _ _ _ Hin1). cbn zeta. cbn [hd_error]. unfold st_file_slash.
           cbn [cis orb m_url at_pos]. rewrite Hb. reflexivity.
        -- exact (runs_path_f [] (pre ++ [c1]) [] a b pw (fu u) [] Hin1 HP' Hf').
      * destruct (is_sl c2) eqn:Esl2.
        -- (* file host state *)
           eapply out_next; [exact Hin | exact E1 |].
           eapply out_next with (st' := StFileHost) (buf' := []) (u' := fu u); [exact Hin1 | |].
           ++ rewrite (step_unfold _ _ _ _ _ _ _ _ _ _ _ Hin1). cbn zeta. cbn [hd_error]. unfold st_file_slash.
              cbn [cis]. fold (is_sl c2). rewrite Esl2. reflexivity.
           ++ exact (runs_file_host T ((pre ++ [c1]) ++ [c2]) [] a b pw (fu u) (snoc_split _ _ _ _ Hin1) HP' Hf').
        -- cbn [out_is]. eapply runs_step_next; [exact Hin | exact E1 |].
           eapply runs_step_back with (st' := StPath) (buf' := []) (u' := fu u); [exact Hin1 | |].
           ++ rewrite (step_unfold _ _ _ _ _ _ _ _ _ _ _ Hin1). cbn zeta. cbn [hd_error]. unfold st_file_slash.
              cbn [cis]. fold (is_sl c2). rewrite Esl2. cbn [m_url at_pos]. rewrite Hb. reflexivity.
           ++ exact (runs_path_f (c2 :: T) (pre ++ [c1]) [] a b pw (fu u) [] Hin1 HP' Hf').
    + cbn [out_is].
      eapply runs_step_back with (st' := StPath) (buf' := []) (u' := fu u); [exact Hin | |].
      * rewrite (step_unfold _ _ _ _ _ _ _ _ _ _ _ Hin). cbn zeta. cbn [hd_error]. unfold st_file.
        cbn [cis]. fold (is_sl c1). rewrite Esl1. rewrite Hb. reflexivity.
      * exact (runs_path_f (c1 :: R1) pre [] a b pw (fu u) [] Hin HP' Hf').
Qed.

(* the run at the ':' for the scheme "file": file state *)
Theorem runs_scheme_colon_file pre rest res :
  input = pre ++ 58 :: rest ->
  RunsN (at_pos StFile (pre ++ [58]) [] false false false (set_scheme empty_url str_file)) res ->
  RunsN (at_pos StScheme pre str_file false false false empty_url) res.
Proof.
  intros Hin HR.
  eapply runs_step_next with (st' := StFile) (buf' := []); [exact Hin | | exact HR].
  rewrite (step_unfold _ _ _ _ _ _ _ _ _ _ _ Hin). cbn zeta. cbn [hd_error tl]. unfold st_scheme.
  assert (is_scheme_cp 58 = false) as E1 by reflexivity.
  cbn [cpred cis has_ov opt_is_some andb m_url m_buf at_pos]. rewrite E1.
  replace (58 =? 58) with true by reflexivity. reflexivity.
Qed.

End FileRuns.

(* ================= the parser as it is invoked ================= *)
(* "file:" R, and no base or a base with another scheme: the base is never consulted *)
Definition no_file_base (base : option spec_url) : bool :=
  match base with Some b => negb (list_eqb (su_scheme b) str_file) | None => true end.

Lemma no_file_base_none base : no_file_base base = true -> base_is_file base = None.
Proof.
  unfold no_file_base, base_is_file. destruct base as [b|]; [|reflexivity].
  destruct (list_eqb (su_scheme b) str_file); [discriminate | reflexivity].
Qed.

Definition u_file0 : spec_url := set_scheme empty_url str_file.

Theorem spec_file_any shp base input R :
  spec_scheme (spec_clean input) = Some (str_file, R) -> no_file_base base = true ->
  match sfile shp u_file0 R with
  | Some su => spec_basic_url_parse shp input base = BDone su
  | None => exists uf, spec_basic_url_parse shp input base = BFailure uf
  end.
Proof.
  intros Hs Hb. set (inp := spec_clean input) in *. apply no_file_base_none in Hb.
  destruct (runs_scheme shp inp base str_file R BOutOfFuel Hs) as (pre & Hin & _).
  assert (inp = (pre ++ [58]) ++ R) as Hin1 by (rewrite Hin, <- app_assoc; reflexivity).
  pose proof (runs_file shp inp base R (pre ++ [58]) false false false u_file0 Hin1 Hb eq_refl) as RF.
  assert (forall res, Runs shp inp base (at_pos StFile (pre ++ [58]) [] false false false u_file0) res ->
                      spec_basic_url_parse shp input base = res) as Hrun.
  { intros res HR. apply spec_parse_of_runs. fold inp.
    destruct (runs_scheme shp inp base str_file R res Hs) as (pre2 & Hin' & K). apply K. clear K.
    assert (pre2 = pre) as -> by (rewrite Hin in Hin'; apply app_inv_tail in Hin'; symmetry; exact Hin').
    exact (runs_scheme_colon_file shp inp base pre R res Hin HR). }
  destruct (sfile shp u_file0 R) as [su|]; cbn [out_is] in RF.
  - apply Hrun. exact RF.
  - destruct RF as [uf K]. exists uf. apply Hrun. exact K.
Qed.
