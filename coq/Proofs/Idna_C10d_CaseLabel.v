(* Proofs/Idna_C10d_CaseLabel.v - ASCII case variants, one input label (C10, case-insensitivity).
   cv l l' = the two byte strings are equal up to the case of ASCII letters (ascii_case_variant).
   - utf8_lossy, split_ascii_fast_path_prefix, has_punycode_prefix, the u8 Punycode decoder and the deny-list
     mapping of an ASCII label do not see the difference;
   - label_nonempty is uniform in the buffer and the already_punycode vector it appends to (label_nonempty_unif);
   - label_nonempty on a case variant returns the same buffer text and the same flag, with the entries
     MixedCaseAscii / MixedCasePunycode relabelled (label_nonempty_case) - both error modes, every had_errors.
   Adapter premise: ok_case only (map_normalize does not see the case of ASCII letters). *)
From RU Require Import Base.Prelude Base.Utf8 Base.U32_c13 Gen.Tables Model.Punycode Model.Uts46
  Proofs.Idna_Sim Proofs.Idna_Api Proofs.Idna_Known Proofs.Idna_Hyp Proofs.Idna_Redisc
  Proofs.Idna_C10_Deny Proofs.Idna_C10_Prefix Proofs.Idna_C10_Inner Proofs.Idna_C10_Walk
  Proofs.Idna_C10b_AsciiInner Proofs.Idna_C10b_AsciiWalk Proofs.Idna_WalkInv Proofs.Idna_WalkEnc Proofs.Idna_C10c_Puny Proofs.Idna_Mark.

Definition lw (x y : N) : Prop := to_lower x = to_lower y.
Definition cv (l l' : list N) : Prop := map to_lower l = map to_lower l'.

Lemma cv_F2 l l' : cv l l' <-> Forall2 lw l l'.
Proof.
  unfold cv. split.
  - revert l'. induction l as [|x r IH]; intros [|y r'] H; try discriminate; [constructor|].
    cbn [map] in H. inversion H. constructor; [assumption|apply IH; assumption].
  - induction 1 as [|x y r r' Hxy _ IH]; [reflexivity|]. cbn [map]. unfold lw in Hxy. rewrite Hxy, IH. reflexivity.
Qed.
Lemma cv_refl l : cv l l.
Proof. reflexivity. Qed.
Lemma cv_sym l l' : cv l l' -> cv l' l.
Proof. unfold cv. intros H. symmetry. exact H. Qed.
Lemma cv_len l l' : cv l l' -> length l = length l'.
Proof. intros H. apply (f_equal (@length N)) in H. rewrite !map_length in H. exact H. Qed.
Lemma cv_nil l : cv [] l -> l = [].
Proof. intros H. apply cv_len in H. destruct l; [reflexivity|discriminate]. Qed.
Lemma cv_firstn n l l' : cv l l' -> cv (firstn n l) (firstn n l').
Proof. unfold cv. intros H. rewrite <- !firstn_map, H. reflexivity. Qed.
Lemma cv_skipn n l l' : cv l l' -> cv (skipn n l) (skipn n l').
Proof. unfold cv. intros H. rewrite <- !skipn_map, H. reflexivity. Qed.
Lemma cv_lower l : cv (map to_lower l) l.
Proof. unfold cv. apply lower_lower. Qed.

Lemma lw_cases x y : lw x y -> x = y \/ (x < 128 /\ y < 128).
Proof.
  unfold lw, to_lower, is_upper. intros H.
  destruct ((65 <=? x) && (x <=? 90)) eqn:E1; destruct ((65 <=? y) && (y <=? 90)) eqn:E2; lia.
Qed.
Lemma lw_ascii x y : lw x y -> (x <? 128) = (y <? 128).
Proof. intros H. destruct (lw_cases x y H) as [->|[H1 H2]]; [reflexivity|]. apply N.ltb_lt in H1, H2. rewrite H1, H2. reflexivity. Qed.
Lemma lw_byte x y : lw x y -> is_byte x -> is_byte y.
Proof. unfold is_byte. intros H Hx. destruct (lw_cases x y H) as [<-|[H1 H2]]; lia. Qed.

Lemma cv_ascii l l' : cv l l' -> Forall (fun b => b < 128) l -> Forall (fun b => b < 128) l'.
Proof.
  intros H. apply cv_F2 in H. induction H as [|x y r r' Hxy _ IH]; intros Ha; [constructor|].
  inversion Ha as [|? ? Hx Hr]; subst. constructor; [|exact (IH Hr)].
  pose proof (lw_ascii x y Hxy) as E. apply N.ltb_lt in Hx. rewrite Hx in E. symmetry in E. apply N.ltb_lt in E. exact E.
Qed.
Lemma cv_bytes l l' : cv l l' -> bytes l -> bytes l'.
Proof.
  intros H. apply cv_F2 in H. unfold bytes. induction H as [|x y r r' Hxy _ IH]; intros Hb; [constructor|].
  inversion Hb as [|? ? Hx Hr]; subst. constructor; [exact (lw_byte x y Hxy Hx)|exact (IH Hr)].
Qed.
Lemma cv_nodot l l' : cv l l' -> nodot l -> nodot l'.
Proof.
  intros H. apply cv_F2 in H. unfold nodot. induction H as [|x y r r' Hxy _ IH]; intros Hn; [constructor|].
  inversion Hn as [|? ? Hx Hr]; subst. constructor; [|exact (IH Hr)].
  intros E. apply Hx. subst y. unfold lw in Hxy. pose proof (to_lower_dot x) as Hd. rewrite Hxy in Hd.
  change (to_lower DOT) with DOT in Hd. rewrite N.eqb_refl in Hd. symmetry in Hd. apply N.eqb_eq in Hd. exact Hd.
Qed.

(* ---------------------------------------------------------------- the lossy UTF-8 decoder *)
Lemma hi_cont x y : lw x y -> is_cont x = is_cont y /\ (is_cont x = true -> x = y).
Proof.
  intros H. destruct (lw_cases x y H) as [->|[H1 H2]]; [split; reflexivity|].
  unfold is_cont. replace (128 <=? x) with false by lia. replace (128 <=? y) with false by lia. split; [reflexivity|discriminate].
Qed.
Lemma hi_ok3 b x y : lw x y -> ok3 b x = ok3 b y /\ (ok3 b x = true -> x = y).
Proof.
  intros H. destruct (lw_cases x y H) as [->|[H1 H2]]; [split; reflexivity|].
  assert (E : forall z, z < 128 -> ok3 b z = false).
  { intros z Hz. unfold ok3, is_cont. replace (160 <=? z) with false by lia. replace (128 <=? z) with false by lia.
    rewrite !andb_false_r. reflexivity. }
  rewrite (E x H1), (E y H2). split; [reflexivity|discriminate].
Qed.
Lemma hi_ok4 b x y : lw x y -> ok4 b x = ok4 b y /\ (ok4 b x = true -> x = y).
Proof.
  intros H. destruct (lw_cases x y H) as [->|[H1 H2]]; [split; reflexivity|].
  assert (E : forall z, z < 128 -> ok4 b z = false).
  { intros z Hz. unfold ok4, is_cont. replace (144 <=? z) with false by lia. replace (128 <=? z) with false by lia.
    rewrite !andb_false_r. reflexivity. }
  rewrite (E x H1), (E y H2). split; [reflexivity|discriminate].
Qed.

Definition item_cp (it : uitem) : N := match it with UCp c _ => c | UBad _ _ => REPLACEMENT end.
Lemma lossy_cons it its : map item_cp (it :: its) = item_cp it :: map item_cp its.
Proof. reflexivity. Qed.

Lemma scan_cv n : forall l l', (length l <= n)%nat -> Forall2 lw l l' ->
  Forall2 lw (map item_cp (utf8_scan l)) (map item_cp (utf8_scan l')).
Proof.
  induction n as [|n IH]; intros l l' Hn H.
  { destruct H; [constructor|cbn [length] in Hn; lia]. }
  destruct H as [|b b' r r' Hb Hr]; [constructor|]. cbn [length] in Hn.
  assert (IHr : forall t t', (length t <= length r)%nat -> Forall2 lw t t' ->
            Forall2 lw (map item_cp (utf8_scan t)) (map item_cp (utf8_scan t'))).
  { intros t t' Ht. apply IH. lia. }
  assert (Bad : forall k tr, Forall2 lw (map item_cp (UBad k tr :: utf8_scan r)) (map item_cp (UBad k tr :: utf8_scan r'))).
  { intros k tr. rewrite !lossy_cons. constructor; [reflexivity|]. apply IHr; [lia|exact Hr]. }
  cbn [utf8_scan]. rewrite <- (lw_ascii b b' Hb).
  destruct (b <? 128) eqn:Eb.
  { rewrite !lossy_cons. constructor; [exact Hb|]. apply IHr; [lia|exact Hr]. }
  assert (b' = b) by (destruct (lw_cases b b' Hb) as [E|[E _]]; [symmetry; exact E|lia]). subst b'.
  destruct ((194 <=? b) && (b <=? 223)).
  { destruct Hr as [|c1 c1' r1 r1' Hc1 Hr1]; [constructor; [reflexivity|constructor]|].
    destruct (hi_cont c1 c1' Hc1) as [E1 E1']. rewrite <- E1. destruct (is_cont c1) eqn:Ec1.
    - rewrite <- (E1' eq_refl). rewrite !lossy_cons. constructor; [reflexivity|]. apply IHr; [cbn [length]; lia|exact Hr1].
    - apply (Bad 1 false). }
  destruct ((224 <=? b) && (b <=? 239)).
  { destruct Hr as [|c1 c1' r1 r1' Hc1 Hr1]; [constructor; [reflexivity|constructor]|].
    destruct (hi_ok3 b c1 c1' Hc1) as [E1 E1']. rewrite <- E1. destruct (ok3 b c1) eqn:Ec1; [|apply (Bad 1 false)].
    rewrite <- (E1' eq_refl).
    assert (Bad1 : forall k tr, Forall2 lw (map item_cp (UBad k tr :: utf8_scan r1)) (map item_cp (UBad k tr :: utf8_scan r1'))).
    { intros k tr. rewrite !lossy_cons. constructor; [reflexivity|]. apply IHr; [cbn [length]; lia|exact Hr1]. }
    destruct Hr1 as [|c2 c2' r2 r2' Hc2 Hr2]; [constructor; [reflexivity|constructor]|].
    destruct (hi_cont c2 c2' Hc2) as [E2 E2']. rewrite <- E2. destruct (is_cont c2) eqn:Ec2; [|apply (Bad1 2 false)].
    rewrite <- (E2' eq_refl). rewrite !lossy_cons. constructor; [reflexivity|]. apply IHr; [cbn [length]; lia|exact Hr2]. }
  destruct ((240 <=? b) && (b <=? 244)); [|apply (Bad 1 false)].
  destruct Hr as [|c1 c1' r1 r1' Hc1 Hr1]; [constructor; [reflexivity|constructor]|].
  destruct (hi_ok4 b c1 c1' Hc1) as [E1 E1']. rewrite <- E1. destruct (ok4 b c1) eqn:Ec1; [|apply (Bad 1 false)].
  rewrite <- (E1' eq_refl).
  assert (Bad1 : forall k tr, Forall2 lw (map item_cp (UBad k tr :: utf8_scan r1)) (map item_cp (UBad k tr :: utf8_scan r1'))).
  { intros k tr. rewrite !lossy_cons. constructor; [reflexivity|]. apply IHr; [cbn [length]; lia|exact Hr1]. }
  destruct Hr1 as [|c2 c2' r2 r2' Hc2 Hr2]; [constructor; [reflexivity|constructor]|].
  destruct (hi_cont c2 c2' Hc2) as [E2 E2']. rewrite <- E2. destruct (is_cont c2) eqn:Ec2; [|apply (Bad1 2 false)].
  rewrite <- (E2' eq_refl).
  assert (Bad2 : forall k tr, Forall2 lw (map item_cp (UBad k tr :: utf8_scan r2)) (map item_cp (UBad k tr :: utf8_scan r2'))).
  { intros k tr. rewrite !lossy_cons. constructor; [reflexivity|]. apply IHr; [cbn [length]; lia|exact Hr2]. }
  destruct Hr2 as [|c3 c3' r3 r3' Hc3 Hr3]; [constructor; [reflexivity|constructor]|].
  destruct (hi_cont c3 c3' Hc3) as [E3 E3']. rewrite <- E3. destruct (is_cont c3) eqn:Ec3; [|apply (Bad2 3 false)].
  rewrite <- (E3' eq_refl). rewrite !lossy_cons. constructor; [reflexivity|]. apply IHr; [cbn [length]; lia|exact Hr3].
Qed.

Theorem utf8_lossy_cv l l' : cv l l' -> cv (utf8_lossy l) (utf8_lossy l').
Proof.
  intros H. apply cv_F2. apply cv_F2 in H. exact (scan_cv (length l) l l' (le_n _) H).
Qed.

(* ---------------------------------------------------------------- split_ascii_fast_path_prefix *)
Lemma position_cv l l' : cv l l' ->
  position (fun b => negb (is_ascii_cp b)) l' = position (fun b => negb (is_ascii_cp b)) l.
Proof.
  intros H. apply cv_F2 in H. induction H as [|x y r r' Hxy _ IH]; [reflexivity|].
  cbn [position]. unfold is_ascii_cp at 1 3. rewrite <- (lw_ascii x y Hxy), IH. reflexivity.
Qed.
Lemma split_cv l l' a n : cv l l' -> split_ascii_fast_path_prefix l = (a, n) ->
  exists a' n', split_ascii_fast_path_prefix l' = (a', n') /\ cv a a' /\ cv n n'.
Proof.
  intros H. unfold split_ascii_fast_path_prefix. rewrite (position_cv l l' H).
  destruct (position (fun b => negb (is_ascii_cp b)) l) as [[|p]|]; intros E; inversion E; subst.
  - exists [], l'. repeat split. exact H.
  - exists (firstn p l'), (skipn p l'). split; [reflexivity|]. split; [apply cv_firstn|apply cv_skipn]; exact H.
  - exists l', []. repeat split. exact H.
Qed.

(* ---------------------------------------------------------------- ASCII labels *)
Lemma hpp_cv l l' : cv l l' -> Forall (fun b => b < 128) l -> has_punycode_prefix l' = has_punycode_prefix l.
Proof.
  intros H Ha. rewrite <- (hpp_lower l Ha), <- (hpp_lower l' (cv_ascii l l' H Ha)). unfold cv in H. rewrite H. reflexivity.
Qed.
Lemma last_hyphen_cv l l' : cv l l' ->
  match last_opt l' with Some c => c =? HYPHEN | None => false end = match last_opt l with Some c => c =? HYPHEN | None => false end.
Proof.
  intros H. pose proof (last_opt_map to_lower l) as E1. pose proof (last_opt_map to_lower l') as E2. unfold cv in H. rewrite H in E1.
  rewrite E1 in E2. destruct (last_opt l) as [c|], (last_opt l') as [c'|]; cbn [option_map] in E2; try discriminate; [|reflexivity].
  inversion E2 as [E]. change HYPHEN with DELIMITER. rewrite <- (to_lower_delim c), <- (to_lower_delim c'), E. reflexivity.
Qed.
Lemma len_cv l l' : cv l l' -> len l' = len l.
Proof. intros H. unfold len. rewrite (cv_len l l' H). reflexivity. Qed.
Lemma decode_cv cfg l l' : cv l l' -> decode_with cfg U8Internal (skipn 4 l') = decode_with cfg U8Internal (skipn 4 l).
Proof.
  intros H. rewrite <- (decode_u8_lower cfg (skipn 4 l')), <- (decode_u8_lower cfg (skipn 4 l)).
  pose proof (cv_skipn 4 l l' H) as E. unfold cv in E. rewrite E. reflexivity.
Qed.

Section Deny.
Variable deny : N.
Hypothesis HU : DenyUpper deny.
Hypothesis HL : LdhFree deny.
Lemma cmap_cv l l' : cv l l' -> Forall (fun b => b < 128) l -> cmap deny l' = cmap deny l.
Proof.
  intros H Ha. rewrite <- (cmap_of_lower deny HU HL l Ha), <- (cmap_of_lower deny HU HL l' (cv_ascii l l' H Ha)).
  unfold cv in H. rewrite H. reflexivity.
Qed.
End Deny.

(* ---------------------------------------------------------------- uniformity in the buffer and the entry vector *)
Definition lift3 (db0 : list N) (ap0 : list aal) (r : step (list N * bool * list aal)) : step (list N * bool * list aal) :=
  match r with SOk (x, h, e) => SOk (db0 ++ x, h, ap0 ++ e) | SExit => SExit | SPanic p => SPanic p end.

Section Unif.
Variable A : adapter.
Variable cfg : bool.

Lemma sublabels_unif ff hy dd db0 ap0 rest : forall s db cur he ap fcm ncj,
  sublabels A cfg ff hy dd s rest (db0 ++ db) cur he (ap0 ++ ap) fcm ncj =
  lift3 db0 ap0 (sublabels A cfg ff hy dd s rest db cur he ap fcm ncj).
Proof.
  induction rest as [|s2 rest IH]; intros s db cur he ap fcm ncj; cbn [sublabels].
  - destruct (scan_mark ff is_fffd s he) as [[s1 h1]| |p]; cbn [sbind lift3]; try reflexivity.
    destruct (end_sublabel A cfg ff hy dd (cur ++ s1) h1 fcm ncj) as [[lab h2]| |p]; cbn [sbind lift3]; try reflexivity.
    rewrite <- app_assoc. reflexivity.
  - destruct (scan_mark ff is_fffd s he) as [[s1 h1]| |p]; cbn [sbind lift3]; try reflexivity.
    destruct (end_sublabel A cfg ff hy dd (cur ++ s1) h1 fcm ncj) as [[lab h2]| |p]; cbn [sbind lift3]; try reflexivity.
    rewrite <- (IH s2 (db ++ lab ++ [DOT]) [] h2 (ap ++ [AalOther]) true true), <- !app_assoc. reflexivity.
Qed.

Lemma complexF_unif ff hy deny db0 ap0 db he ap ascii non_ascii :
  complexF A cfg ff hy deny (db0 ++ db) he (ap0 ++ ap) ascii non_ascii =
  lift3 db0 ap0 (complexF A cfg ff hy deny db he ap ascii non_ascii).
Proof.
  unfold complexF. destruct (scan_mark ff is_fffd (map (apply_upper deny) ascii) he) as [[c1 h1]| |p]; cbn [sbind lift3]; try reflexivity.
  destruct (split1 DOT (map (apply_lower deny) (map_normalize A (utf8_lossy non_ascii)))) as [s rest].
  rewrite <- app_assoc. apply sublabels_unif.
Qed.

Lemma complexT_unif ff hy deny label db0 ap0 db he ap ascii :
  complexT ff hy deny label (db0 ++ db) he (ap0 ++ ap) ascii = lift3 db0 ap0 (complexT ff hy deny label db he ap ascii).
Proof.
  unfold complexT. destruct (scan_mark ff is_fffd (map (apply_upper deny) ascii) he) as [[c1 h1]| |p]; cbn [sbind lift3]; try reflexivity.
  destruct (negb (hy_is_allow hy)).
  - destruct (check_hyphens ff (hy_is_cfl hy) c1 h1) as [[c2 h2]| |p]; cbn [sbind lift3]; try reflexivity.
    rewrite <- !app_assoc. reflexivity.
  - cbn [sbind lift3]. rewrite <- !app_assoc. reflexivity.
Qed.

Theorem label_nonempty_unif ff hy deny label db0 ap0 db he ap :
  label_nonempty A cfg ff hy deny label (db0 ++ db) he (ap0 ++ ap) =
  lift3 db0 ap0 (label_nonempty A cfg ff hy deny label db he ap).
Proof.
  rewrite !(label_nonempty_eq A cfg). destruct (split_ascii_fast_path_prefix label) as [ascii non_ascii].
  destruct non_ascii as [|na nr]; [|apply complexF_unif].
  destruct (has_punycode_prefix ascii); [|apply complexT_unif].
  destruct (negb match last_opt ascii with Some l => l =? HYPHEN | None => false end && (len ascii - 4 <=? PUNYCODE_DECODE_MAX_INPUT_LENGTH)).
  - destruct (decode_with cfg U8Internal (skipn 4 ascii)) as [decoded| |p]; [| |reflexivity].
    + destruct (after_punycode_decode A ff (N.lor deny DOT_MASK) decoded he) as [[c1 h1]| |p]; cbn [sbind lift3]; try reflexivity.
      destruct (check_label A cfg ff hy c1 h1 true true) as [[c2 h2]| |p]; cbn [sbind lift3]; try reflexivity.
      rewrite <- !app_assoc. reflexivity.
    + destruct ff; cbn [lift3]; [reflexivity|]. rewrite <- !app_assoc. reflexivity.
  - destruct ff; [reflexivity|]. apply complexF_unif.
Qed.

Corollary label_nonempty_from_nil ff hy deny label db he ap :
  label_nonempty A cfg ff hy deny label db he ap = lift3 db ap (label_nonempty A cfg ff hy deny label [] he []).
Proof. rewrite <- label_nonempty_unif, !app_nil_r. reflexivity. Qed.
End Unif.

(* ---------------------------------------------------------------- one label, two spellings *)
Definition recase (l' : list N) (e : aal) : aal :=
  match e with MixedCaseAscii _ => MixedCaseAscii l' | MixedCasePunycode _ => MixedCasePunycode l' | AalOther => AalOther end.
Definition relab (l' : list N) (r : step (list N * bool * list aal)) : step (list N * bool * list aal) :=
  match r with SOk (x, h, e) => SOk (x, h, map (recase l') e) | SExit => SExit | SPanic p => SPanic p end.

Lemma recase_repeat l' k : map (recase l') (repeat AalOther k) = repeat AalOther k.
Proof. induction k as [|k IH]; [reflexivity|]. cbn [repeat map recase]. rewrite IH. reflexivity. Qed.

Section CaseLabel.
Variable A : adapter.
Variable cfg : bool.
Variable deny : N.
Hypothesis HU : DenyUpper deny.
Hypothesis HL : LdhFree deny.
Hypothesis Hcase : forall l l', ascii_case_variant l l' -> map_normalize A l = map_normalize A l'.

Lemma complexF_cv ff hy db he ap a a' n n' : cv a a' -> cv n n' -> Forall (fun b => b < 128) a ->
  complexF A cfg ff hy deny db he ap a' n' = complexF A cfg ff hy deny db he ap a n.
Proof.
  intros Ha Hn Hasc. unfold complexF. fold (cmap deny a') (cmap deny a). rewrite (cmap_cv deny HU HL a a' Ha Hasc).
  rewrite (Hcase (utf8_lossy n') (utf8_lossy n) (cv_sym _ _ (utf8_lossy_cv n n' Hn))).
  replace (match a' with [] => true | _ :: _ => false end) with (match a with [] => true | _ :: _ => false end)
    by (pose proof (cv_len a a' Ha); destruct a, a'; try discriminate; reflexivity).
  replace (match n' with [] => false | _ :: _ => true end) with (match n with [] => false | _ :: _ => true end)
    by (pose proof (cv_len n n' Hn); destruct n, n'; try discriminate; reflexivity).
  reflexivity.
Qed.

Lemma complexF_relab ff hy he a n l' :
  relab l' (complexF A cfg ff hy deny [] he [] a n) = complexF A cfg ff hy deny [] he [] a n.
Proof.
  destruct (complexF A cfg ff hy deny [] he [] a n) as [[[x h] e]| |p] eqn:E; [|reflexivity|reflexivity].
  cbn [relab]. unfold complexF in E. apply sbind_ok in E. destruct E as ([c1 h1] & _ & E).
  destruct (split1 DOT (map (apply_lower deny) (map_normalize A (utf8_lossy n)))) as [s rest].
  apply (sublabels_ap A cfg) in E. destruct E as (k & ->). cbn [app map recase]. rewrite recase_repeat. reflexivity.
Qed.

Theorem label_nonempty_case ff hy he l l' : cv l l' -> bytes l ->
  label_nonempty A cfg ff hy deny l' [] he [] = relab l' (label_nonempty A cfg ff hy deny l [] he []).
Proof.
  intros H Hb. rewrite !(label_nonempty_eq A cfg).
  destruct (split_ascii_fast_path_prefix l) as [a n] eqn:Es.
  destruct (split_cv l l' a n H Es) as (a' & n' & Es' & Ha & Hn). rewrite Es'.
  pose proof (split_ascii_prefix _ _ _ Es) as Hasc.
  destruct n as [|n0 nr].
  2:{ destruct n' as [|n0' nr']; [apply cv_len in Hn; discriminate|].
      rewrite (complexF_cv ff hy [] he [] a a' _ _ Ha Hn Hasc). symmetry. apply complexF_relab. }
  apply cv_nil in Hn. subst n'.
  pose proof (split_ascii_app _ _ _ Es) as E1. pose proof (split_ascii_app _ _ _ Es') as E2. rewrite app_nil_r in E1, E2. subst a a'.
  rewrite (hpp_cv l l' H Hasc), (last_hyphen_cv l l' H), (len_cv l l' H), (decode_cv cfg l l' H).
  destruct (has_punycode_prefix l).
  - destruct (negb match last_opt l with Some c => c =? HYPHEN | None => false end && (len l - 4 <=? PUNYCODE_DECODE_MAX_INPUT_LENGTH)).
    + destruct (decode_with cfg U8Internal (skipn 4 l)) as [decoded| |p]; [| |reflexivity].
      * destruct (after_punycode_decode A ff (N.lor deny DOT_MASK) decoded he) as [[c1 h1]| |p]; cbn [sbind relab]; try reflexivity.
        destruct (check_label A cfg ff hy c1 h1 true true) as [[c2 h2]| |p]; cbn [sbind relab]; reflexivity.
      * destruct ff; [reflexivity|]. cbn [relab app map recase].
        fold (cmap deny (tl l')) (cmap deny (tl l)).
        assert (Ht : cv (tl l) (tl l')) by (apply (cv_skipn 1 l l') in H; destruct l, l'; exact H).
        assert (Hta : Forall (fun b => b < 128) (tl l)) by (destruct l; [constructor|inversion Hasc; assumption]).
        rewrite (cmap_cv deny HU HL _ _ Ht Hta). reflexivity.
    + destruct ff; [reflexivity|]. rewrite (complexF_cv false hy [] he [] l l' [] [] H (cv_refl []) Hasc). symmetry. apply complexF_relab.
  - unfold complexT. fold (cmap deny l') (cmap deny l). rewrite (cmap_cv deny HU HL l l' H Hasc).
    destruct (scan_mark ff is_fffd (cmap deny l) he) as [[c1 h1]| |p]; cbn [sbind relab]; try reflexivity.
    destruct (negb (hy_is_allow hy)).
    + destruct (check_hyphens ff (hy_is_cfl hy) c1 h1) as [[c2 h2]| |p]; cbn [sbind relab]; try reflexivity.
      destruct h2; reflexivity.
    + cbn [sbind relab]. destruct h1; reflexivity.
Qed.
End CaseLabel.
