(* Proofs/C06_SegFileCanon.v - the premises of the file-URL session theorem (C06_SegFile) hold of every canonical file
   record of C02 (FileCanon: every file parse result without base outside Known_file_drive): well-formed, '/' behind the
   scheme, scheme type file, and the path text is "/" or starts with '/' followed by a byte other than '/'. *)
From RU Require Import Base.Prelude Base.Utf8 Model.AsciiSet Gen.Tables Model.PercentEncoding Model.HostT Model.UrlRecord
  Model.Parser Model.Setters Model.WF Proofs.ListN Proofs.C02_Parts Proofs.C02_Opaque Proofs.C02_Path Proofs.C02_PathSp
  Proofs.C02_Reach Proofs.C02_AuthParts Proofs.C02_Canon Proofs.C02_SetQF Proofs.C02_File Proofs.C02_FileCanon
  Proofs.C06_Path Proofs.C06_SplicePath Proofs.C06_Segments Proofs.C06_SegPush Proofs.C06_SegFile.
Open Scope N_scope.
Open Scope list_scope.

Section FileCanonPremises.
Variable dbg : bool.
Variable hp hpo : list N -> result host.
Variable hd : host -> list N.
Hypothesis HRT : HostRT hp hpo hd.

Lemma file_curl_path_bytes ho T q f : path_bytes (file_curl hd ho T q f) = T.
Proof.
  unfold path_bytes, file_curl. rewrite path_end_qf. unfold qf_url. cbn [path_start ser].
  unfold file_pre. rewrite <- app_assoc. rewrite nskipn_app_len. rewrite nlen_app.
  replace (nlen (file_front hd ho) + nlen T - nlen (file_front hd ho)) with (nlen T) by lia.
  apply nfirstn_app_len.
Qed.

Lemma good_first_not_slash s : good_seg_sp s = true -> match s with [] => True | c :: _ => c <> 47 end.
Proof.
  intros H. destruct (good_seg_sp_parts s H) as (_ & Hs & _). destruct s as [|c r]; [exact I|].
  unfold no_slash in Hs. cbn [forallb] in Hs. apply andb_true_iff in Hs. destruct Hs as [Hc _].
  apply negb_true_iff in Hc. apply N.eqb_neq in Hc. exact Hc.
Qed.

Lemma file_path_text_ok segs last : forallb fseg_ok segs = true -> fseg_ok last = true ->
  match segs with [] => True | s :: _ => s <> [] end -> file_path_ok (path_text segs last) = true.
Proof.
  intros Hsegs Hlast Hfirst. unfold path_text. destruct segs as [|s r].
  - cbn [segs_text map concat app]. pose proof (good_first_not_slash last (fseg_ok_sp last Hlast)) as Hl.
    destruct last as [|c t]; [reflexivity|]. apply fpi_file_path_ok. apply fpi_b_intro. exact Hl.
  - cbn [forallb] in Hsegs. apply andb_true_iff in Hsegs. destruct Hsegs as [Hs _].
    pose proof (good_first_not_slash s (fseg_ok_sp s Hs)) as Hl.
    destruct s as [|c t]; [exfalso; apply Hfirst; reflexivity|].
    unfold segs_text. cbn [map concat app]. apply fpi_file_path_ok. apply fpi_b_intro. exact Hl.
Qed.

Theorem FileCanon_session_premises u : FileCanon hp hd u ->
  wf_b u = true /\ byte_eqb (ser u) (scheme_end u + 1) 47 = true /\ st_of u = STFile
  /\ file_path_ok (path_bytes u) = true.
Proof.
  intros K. pose proof (FileCanon_fixpoint dbg hp hpo hd HRT u K) as (_ & W & _).
  destruct K as [ho segs last q f K]. split; [exact W|]. split; [|split].
  - unfold file_curl, qf_url. cbn [ser scheme_end]. unfold file_pre, file_front. rewrite <- !app_assoc. reflexivity.
  - unfold st_of, file_curl, qf_url. cbn [ser scheme_end]. unfold file_pre, file_front. rewrite <- !app_assoc. reflexivity.
  - rewrite file_curl_path_bytes. destruct K as [Kh Ksegs Klast Kfirst Kq Kf Kb1 Kbq Kbf].
    exact (file_path_text_ok segs last Ksegs Klast Kfirst).
Qed.

(* a whole session on a canonical file record *)
Theorem psm_session_FileCanon u ops u' : FileCanon hp hd u -> file_session_ok (path_bytes u) ops = true ->
  Forall psm_op_usv ops -> path_segments_session dbg u ops = Some (u', SOk) ->
  path u = Some (path_bytes u) /\ u' = with_path u (session_text STFile (path_bytes u) ops)
  /\ file_path_ok (session_text STFile (path_bytes u) ops) = true.
Proof.
  intros K Hok Hu H. destruct (FileCanon_session_premises u K) as (W & Hsl & Hf & HP).
  split; [exact (path_text_is_path u W)|].
  split; [exact (path_segments_session_exact_file dbg u ops u' W Hsl Hf HP Hok Hu H) | exact (session_text_ok ops (path_bytes u) HP)].
Qed.
End FileCanonPremises.

(* non-vacuity on the example host functions of C02_AuthMain: file://h.example/a/b%20c?q#f is a canonical file record;
   pop, pop, pop (down to the root path), push("C:") would be rewritten - push("d e") is not *)
From Coq Require Import String.
From RU Require Import Proofs.C02_AuthMain.

Definition fc_url : url := file_curl ex_hd (Some (HDomain (B "h.example"))) (path_text [B "a"] (B "b%20c")) (Some (B "q")) (Some (B "f")).
Definition fc_ops : list psm_op := [PPop; PPop; PPop; PPush (B "d e"); PPush (B "C|")].

Example file_canon_session_example :
  HostRT ex_hp ex_hp ex_hd /\ FileCanon ex_hp ex_hd fc_url /\ ser fc_url = B "file://h.example/a/b%20c?q#f"
  /\ file_session_ok (path_bytes fc_url) fc_ops = true /\ Forall psm_op_usv fc_ops
  /\ session_text STFile (path_bytes fc_url) fc_ops = B "/d%20e/C|"
  /\ session_text STFile (path_bytes fc_url) [PPop; PPop; PPop] = B "/"
  /\ path_segments_session true fc_url fc_ops = Some (with_path fc_url (B "/d%20e/C|"), SOk)
  /\ ser (with_path fc_url (B "/d%20e/C|")) = B "file://h.example/d%20e/C|?q#f".
Proof.
  split; [exact (proj1 ex_host_RT)|]. split; [constructor; exact (proj1 file_ok_example)|].
  split; [vm_compute; reflexivity|]. split; [vm_compute; reflexivity|].
  split; [repeat constructor; unfold is_usv; lia|]. repeat split; vm_compute; reflexivity.
Qed.
