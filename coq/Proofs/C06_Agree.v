(* Proofs/C06_Agree.v - parser agreement, state by state: for each setter, the parser state that reads the
   component (context UrlParser), run on the ARGUMENT text standing at that position and followed by the
   rest of the input X, writes the very bytes the setter wrote (C06_get), and hands X on.
   Arguments are free of the delimiters that end the component in the parser (listed per lemma). *)
From RU Require Import Base.Prelude Base.Utf8 Base.Utf8Facts Model.AsciiSet Gen.Tables Model.PercentEncoding
  Model.HostT Model.UrlRecord Model.Parser Model.Setters Model.WF
  Proofs.ListN Proofs.C14_Set Proofs.C14_Enc Proofs.C14_Views Proofs.C02_Enc Proofs.C02_Parts
  Proofs.C02_Opaque Proofs.C02_Path Proofs.C02_PathL1 Proofs.C02_Reach Proofs.C16_RT Proofs.C02_AuthParts.

Ltac splits := repeat match goal with |- _ /\ _ => split end.

(* ================= port ================= *)
(* the decimal text of any u16, followed by a path delimiter or nothing: the port, None if it is the default *)
Lemma parse_port_decimal dflt p X : p <= 65535 -> pe_ok X ->
  parse_port CUrlParser dflt (decimal p ++ X) = POk (if opt_eqb (Some p) dflt then None else Some p, X).
Proof.
  intros Hp HX. unfold parse_port. destruct (port_rt p Hp) as [H1 H2].
  rewrite (port_loop_digits _ _ _ _ _ X H2 H1 HX). cbn [pbind negb andb orb]. reflexivity.
Qed.

(* ================= userinfo ================= *)
Definition uenc (t : list N) : list N := encode T_USERINFO (utf8_encode t).

Lemma uenc_app a b : uenc (a ++ b) = uenc a ++ uenc b.
Proof. unfold uenc, encode. rewrite utf8_encode_app. apply flat_map_app. Qed.

(* the second pass over raw text: every character is percent-encoded on its own; a ':' is only special
   while no password has started *)
Lemma uloop_raw s : forall X m ser uend pw un, usv_list s ->
  forallb (fun c => negb (is_tnl c)) s = true ->
  (uend = None -> forallb (fun c => negb (c =? 58)) s = true) ->
  userinfo_loop (s ++ X) (nlen s + m) ser uend pw un
  = userinfo_loop X m (ser ++ uenc s) uend pw (match s with [] => un | _ => if pw then un else true end).
Proof.
  induction s as [|c s IH]; intros X m ser uend pw un Hu Ht H58.
  - cbn [app]. rewrite nlen_nil, N.add_0_l. unfold uenc. cbn. rewrite app_nil_r. reflexivity.
  - apply usv_cons in Hu. destruct Hu as [Hc Hs]. cbn [forallb] in Ht. apply andb_true_iff in Ht. destruct Ht as [Htc Hts].
    apply negb_true_iff in Htc.
    cbn [app]. rewrite uloop_cons by (rewrite ?nlen_cons; lia || exact Htc).
    assert ((c =? 58) && (match uend with None => true | Some _ => false end) = false) as E.
    { destruct uend; [apply andb_false_r|]. specialize (H58 eq_refl). cbn [forallb] in H58.
      apply andb_true_iff in H58. destruct H58 as [H _]. apply negb_true_iff in H. rewrite H. reflexivity. }
    rewrite E. rewrite push_encoded_eq by (constructor; [exact Hc | constructor]).
    replace (nlen (c :: s) + m - 1) with (nlen s + m) by (rewrite nlen_cons; lia).
    rewrite IH; [| exact Hs | exact Hts |].
    + change (c :: s) with ([c] ++ s). rewrite uenc_app. rewrite <- app_assoc. f_equal.
      destruct s; [reflexivity|]. destruct pw; reflexivity.
    + intros Eu. specialize (H58 Eu). cbn [forallb] in H58. apply andb_true_iff in H58. exact (proj2 H58).
Qed.

Section Userinfo.
Variable st : scheme_type.
Notation sp := (st_is_special st).

Definition pw_text (pw : option (list N)) : list N := match pw with Some p => 58 :: p | None => [] end.

(* a raw USERNAME x in front of an (already canonical) optional password: x free of TAB/LF/CR, ':', '@' and
   the authority delimiters; not both empty *)
Theorem parse_userinfo_raw_user ser x pw X : usv_list x ->
  forallb (fun c => plainc sp c && negb (c =? 58)) x = true ->
  match pw with Some p => clean T_USERINFO p = true /\ p <> [] | None => x <> [] end ->
  (forall count last, scan_last_at sp X count last = last) ->
  nlen ser + nlen (uenc x) <= U32_MAX_P ->
  parse_userinfo st ser (x ++ pw_text pw ++ 64 :: X)
  = POk (ser ++ uenc x ++ pw_text pw ++ [64], nlen ser + nlen (uenc x), X).
Proof.
  intros Hu Hx Hpw HX Hb.
  assert (forallb (plainc sp) x = true /\ forallb (fun c => negb (is_tnl c)) x = true
          /\ forallb (fun c => negb (c =? 58)) x = true) as (Hpl & Htn & H58).
  { splits; apply (forallb_impl (fun c => plainc sp c && negb (c =? 58))); try exact Hx; intros c Hc;
      apply andb_true_iff in Hc; destruct Hc as [H1 H2]; try assumption.
    unfold plainc in H1. apply andb_true_iff in H1. destruct H1 as [H1 _]. apply andb_true_iff in H1. exact (proj1 H1). }
  unfold parse_userinfo. destruct pw as [p|]; cbn [pw_text app].
  - destruct Hpw as [Hp Hne].
    replace (x ++ 58 :: p ++ 64 :: X) with ((x ++ 58 :: p) ++ 64 :: X) by (rewrite <- app_assoc; reflexivity).
    assert (forallb (plainc sp) (x ++ 58 :: p) = true) as Hpl2.
    { rewrite forallb_app. cbn [forallb]. rewrite Hpl, (clean_ui_plain sp p Hp).
      unfold plainc, auth_delim. destruct sp; reflexivity. }
    rewrite scan_plain by exact Hpl2. rewrite scan_at, HX. rewrite N.add_0_l.
    assert (nlen (x ++ 58 :: p) = nlen x + (1 + nlen p)) as El by (rewrite nlen_app, nlen_cons; reflexivity).
    assert (0 < nlen p) as Hpp by (destruct p; [contradiction | rewrite nlen_cons; lia]).
    destruct (nlen (x ++ 58 :: p)) as [|pn] eqn:En; [lia|].
    rewrite El. rewrite <- app_assoc. rewrite uloop_raw; [| exact Hu | exact Htn | intros _; exact H58].
    cbn [app]. rewrite uloop_cons by (lia || reflexivity). replace ((58 =? 58) && true) with true by reflexivity.
    rewrite nlen_app. rewrite to_u32_ok by lia. cbn [pbind].
    replace (1 + nlen p - 1) with (nlen p + 0) by lia. replace (0 <? nlen p + 0) with true by lia.
    rewrite uloop_clean by exact Hp. rewrite uloop_0. cbn [pbind]. rewrite orb_true_r.
    rewrite <- ?app_assoc. cbn [app]. rewrite <- ?app_assoc. reflexivity.
  - rewrite scan_plain by exact Hpl. rewrite scan_at, HX. rewrite N.add_0_l.
    destruct (nlen x) as [|pn] eqn:En; [destruct x; [contradiction | rewrite nlen_cons in En; lia]|].
    rewrite <- En. replace (nlen x) with (nlen x + 0) at 1 by lia.
    rewrite uloop_raw; [| exact Hu | exact Htn | intros _; exact H58]. rewrite uloop_0. cbn [pbind].
    rewrite nlen_app. rewrite to_u32_ok by lia. cbn [pbind].
    destruct x; [contradiction|]. cbn [orb]. rewrite <- app_assoc. reflexivity.
Qed.

(* a raw PASSWORD y behind an (already canonical) username: y non-empty, free of TAB/LF/CR, '@' and the
   authority delimiters (a ':' inside a password is an ordinary character: both sides write %3A) *)
Theorem parse_userinfo_raw_pw ser u0 y X : usv_list y -> clean T_USERINFO u0 = true ->
  forallb (plainc sp) y = true -> y <> [] ->
  (forall count last, scan_last_at sp X count last = last) ->
  nlen ser + nlen u0 <= U32_MAX_P ->
  parse_userinfo st ser (u0 ++ 58 :: y ++ 64 :: X)
  = POk (ser ++ u0 ++ 58 :: uenc y ++ [64], nlen ser + nlen u0, X).
Proof.
  intros Hu Hu0 Hy Hne HX Hb.
  assert (forallb (fun c => negb (is_tnl c)) y = true) as Htn.
  { apply (forallb_impl (plainc sp)); [|exact Hy]. intros c Hc. unfold plainc in Hc.
    apply andb_true_iff in Hc. destruct Hc as [H1 _]. apply andb_true_iff in H1. exact (proj1 H1). }
  unfold parse_userinfo.
  replace (u0 ++ 58 :: y ++ 64 :: X) with ((u0 ++ 58 :: y) ++ 64 :: X) by (rewrite <- app_assoc; reflexivity).
  assert (forallb (plainc sp) (u0 ++ 58 :: y) = true) as Hpl2.
  { rewrite forallb_app. cbn [forallb]. rewrite Hy, (clean_ui_plain sp u0 Hu0).
    unfold plainc, auth_delim. destruct sp; reflexivity. }
  rewrite scan_plain by exact Hpl2. rewrite scan_at, HX. rewrite N.add_0_l.
  assert (nlen (u0 ++ 58 :: y) = nlen u0 + (1 + nlen y)) as El by (rewrite nlen_app, nlen_cons; reflexivity).
  assert (0 < nlen y) as Hpp by (destruct y; [contradiction | rewrite nlen_cons; lia]).
  destruct (nlen (u0 ++ 58 :: y)) as [|pn] eqn:En; [lia|].
  rewrite El. rewrite <- app_assoc. rewrite uloop_clean by exact Hu0.
  cbn [app]. rewrite uloop_cons by (lia || reflexivity). replace ((58 =? 58) && true) with true by reflexivity.
  rewrite nlen_app. rewrite to_u32_ok by lia. cbn [pbind].
  replace (1 + nlen y - 1) with (nlen y + 0) by lia. replace (0 <? nlen y + 0) with true by lia.
  rewrite uloop_raw; [| exact Hu | exact Htn | discriminate]. rewrite uloop_0. cbn [pbind]. rewrite orb_true_r.
  rewrite <- ?app_assoc. cbn [app]. rewrite <- ?app_assoc. reflexivity.
Qed.

End Userinfo.
