(* Proofs/C06_Agree.v - parser agreement, state by state: for each setter, the parser state that reads the
   component (context UrlParser), run on the ARGUMENT text standing at that position and followed by the
   rest of the input X, writes the very bytes the setter wrote (C06_get), and hands X on.
   Arguments are free of the delimiters that end the component in the parser (listed per lemma). *)
From RU Require Import Base.Prelude Base.Utf8 Base.Utf8Facts Model.AsciiSet Gen.Tables Model.PercentEncoding
  Model.HostT Model.UrlRecord Model.Parser Model.Setters Model.WF
  Proofs.ListN Proofs.C14_Set Proofs.C14_Enc Proofs.C14_Views Proofs.C02_Enc Proofs.C02_Parts
  Proofs.C02_Opaque Proofs.C02_Path Proofs.C02_PathL1 Proofs.C02_Reach Proofs.C16_RT Proofs.C02_AuthParts Proofs.C06_WFI Proofs.C06_FragQuery.

Ltac splits := repeat match goal with |- _ /\ _ => split end.

(* ================= port ================= *)
(* the decimal text of any u16, followed by a path delimiter or nothing: the port, None if it is the default *)
Lemma parse_port_decimal dflt p X : p <= 65535 -> pe_ok X ->
  parse_port CUrlParser dflt (decimal p ++ X) = POk (if opt_eqb (Some p) dflt then None else Some p, X).
Proof.
  intros Hp HX. unfold parse_port. destruct (port_rt p Hp) as [H1 H2].
  rewrite (port_loop_digits _ _ _ _ _ X H2 H1 HX). cbn [pbind negb andb orb]. reflexivity.
Qed.

(* ================= userinfo ================= *)
Definition uenc (t : list N) : list N := encode T_USERINFO (utf8_encode t).

Lemma uenc_app a b : uenc (a ++ b) = uenc a ++ uenc b.
Proof. unfold uenc, encode. rewrite utf8_encode_app. apply flat_map_app. Qed.

(* the second pass over raw text: every character is percent-encoded on its own; a ':' is only special
   while no password has started *)
Lemma uloop_raw s : forall X m ser uend pw un, usv_list s ->
  forallb (fun c => negb (is_tnl c)) s = true ->
  (uend = None -> forallb (fun c => negb (c =? 58)) s = true) ->
  userinfo_loop (s ++ X) (nlen s + m) ser uend pw un
  = userinfo_loop X m (ser ++ uenc s) uend pw (match s with [] => un | _ => if pw then un else true end).
Proof.
  induction s as [|c s IH]; intros X m ser uend pw un Hu Ht H58.
  - cbn [app]. rewrite nlen_nil, N.add_0_l. unfold uenc. cbn. rewrite app_nil_r. reflexivity.
  - apply usv_cons in Hu. destruct Hu as [Hc Hs]. cbn [forallb] in Ht. apply andb_true_iff in Ht. destruct Ht as [Htc Hts].
    apply negb_true_iff in Htc.
    cbn [app]. rewrite uloop_cons by (rewrite ?nlen_cons; lia || exact Htc).
    assert ((c =? 58) && (match uend with None => true | Some _ => false end) = false) as E.
    { destruct uend; [apply andb_false_r|]. specialize (H58 eq_refl). cbn [forallb] in H58.
      apply andb_true_iff in H58. destruct H58 as [H _]. apply negb_true_iff in H. rewrite H. reflexivity. }
    rewrite E. rewrite push_encoded_eq by (constructor; [exact Hc | constructor]).
    replace (nlen (c :: s) + m - 1) with (nlen s + m) by (rewrite nlen_cons; lia).
    rewrite IH; [| exact Hs | exact Hts |].
    + change (c :: s) with ([c] ++ s). rewrite uenc_app. rewrite <- app_assoc. f_equal.
      destruct s; [reflexivity|]. destruct pw; reflexivity.
    + intros Eu. specialize (H58 Eu). cbn [forallb] in H58. apply andb_true_iff in H58. exact (proj2 H58).
Qed.

Section Userinfo.
Variable st : scheme_type.
Notation sp := (st_is_special st).

Definition pw_text (pw : option (list N)) : list N := match pw with Some p => 58 :: p | None => [] end.

(* a raw USERNAME x in front of an (already canonical) optional password: x free of TAB/LF/CR, ':', '@' and
   the authority delimiters; not both empty *)
Theorem parse_userinfo_raw_user ser x pw X : usv_list x ->
  forallb (fun c => plainc sp c && negb (c =? 58)) x = true ->
  match pw with Some p => clean T_USERINFO p = true /\ p <> [] | None => x <> [] end ->
  (forall count last, scan_last_at sp X count last = last) ->
  nlen ser + nlen (uenc x) <= U32_MAX_P ->
  parse_userinfo st ser (x ++ pw_text pw ++ 64 :: X)
  = POk (ser ++ uenc x ++ pw_text pw ++ [64], nlen ser + nlen (uenc x), X).
Proof.
  intros Hu Hx Hpw HX Hb.
  assert (forallb (plainc sp) x = true /\ forallb (fun c => negb (is_tnl c)) x = true
          /\ forallb (fun c => negb (c =? 58)) x = true) as (Hpl & Htn & H58).
  { splits; apply (forallb_impl (fun c => plainc sp c && negb (c =? 58))); try exact Hx; intros c Hc;
      apply andb_true_iff in Hc; destruct Hc as [H1 H2]; try assumption.
    unfold plainc in H1. apply andb_true_iff in H1. destruct H1 as [H1 _]. apply andb_true_iff in H1. exact (proj1 H1). }
  unfold parse_userinfo. destruct pw as [p|]; cbn [pw_text app].
  - destruct Hpw as [Hp Hne].
    replace (x ++ 58 :: p ++ 64 :: X) with ((x ++ 58 :: p) ++ 64 :: X) by (rewrite <- app_assoc; reflexivity).
    assert (forallb (plainc sp) (x ++ 58 :: p) = true) as Hpl2.
    { rewrite forallb_app. cbn [forallb]. rewrite Hpl, (clean_ui_plain sp p Hp).
      unfold plainc, auth_delim. destruct sp; reflexivity. }
    rewrite scan_plain by exact Hpl2. rewrite scan_at, HX. rewrite N.add_0_l.
    assert (nlen (x ++ 58 :: p) = nlen x + (1 + nlen p)) as El by (rewrite nlen_app, nlen_cons; reflexivity).
    assert (0 < nlen p) as Hpp by (destruct p; [contradiction | rewrite nlen_cons; lia]).
    destruct (nlen (x ++ 58 :: p)) as [|pn] eqn:En; [lia|].
    rewrite El. rewrite <- app_assoc. rewrite uloop_raw; [| exact Hu | exact Htn | intros _; exact H58].
    cbn [app]. rewrite uloop_cons by (lia || reflexivity). replace ((58 =? 58) && true) with true by reflexivity.
    rewrite nlen_app. rewrite to_u32_ok by lia. cbn [pbind].
    replace (1 + nlen p - 1) with (nlen p + 0) by lia. replace (0 <? nlen p + 0) with true by lia.
    rewrite uloop_clean by exact Hp. rewrite uloop_0. cbn [pbind]. rewrite orb_true_r.
    rewrite <- ?app_assoc. cbn [app]. rewrite <- ?app_assoc. reflexivity.
  - rewrite scan_plain by exact Hpl. rewrite scan_at, HX. rewrite N.add_0_l.
    destruct (nlen x) as [|pn] eqn:En; [destruct x; [contradiction | rewrite nlen_cons in En; lia]|].
    rewrite <- En. replace (nlen x) with (nlen x + 0) at 1 by lia.
    rewrite uloop_raw; [| exact Hu | exact Htn | intros _; exact H58]. rewrite uloop_0. cbn [pbind].
    rewrite nlen_app. rewrite to_u32_ok by lia. cbn [pbind].
    destruct x; [contradiction|]. cbn [orb]. rewrite <- app_assoc. reflexivity.
Qed.

(* a raw PASSWORD y behind an (already canonical) username: y non-empty, free of TAB/LF/CR, '@' and the
   authority delimiters (a ':' inside a password is an ordinary character: both sides write %3A) *)
Theorem parse_userinfo_raw_pw ser u0 y X : usv_list y -> clean T_USERINFO u0 = true ->
  forallb (plainc sp) y = true -> y <> [] ->
  (forall count last, scan_last_at sp X count last = last) ->
  nlen ser + nlen u0 <= U32_MAX_P ->
  parse_userinfo st ser (u0 ++ 58 :: y ++ 64 :: X)
  = POk (ser ++ u0 ++ 58 :: uenc y ++ [64], nlen ser + nlen u0, X).
Proof.
  intros Hu Hu0 Hy Hne HX Hb.
  assert (forallb (fun c => negb (is_tnl c)) y = true) as Htn.
  { apply (forallb_impl (plainc sp)); [|exact Hy]. intros c Hc. unfold plainc in Hc.
    apply andb_true_iff in Hc. destruct Hc as [H1 _]. apply andb_true_iff in H1. exact (proj1 H1). }
  unfold parse_userinfo.
  replace (u0 ++ 58 :: y ++ 64 :: X) with ((u0 ++ 58 :: y) ++ 64 :: X) by (rewrite <- app_assoc; reflexivity).
  assert (forallb (plainc sp) (u0 ++ 58 :: y) = true) as Hpl2.
  { rewrite forallb_app. cbn [forallb]. rewrite Hy, (clean_ui_plain sp u0 Hu0).
    unfold plainc, auth_delim. destruct sp; reflexivity. }
  rewrite scan_plain by exact Hpl2. rewrite scan_at, HX. rewrite N.add_0_l.
  assert (nlen (u0 ++ 58 :: y) = nlen u0 + (1 + nlen y)) as El by (rewrite nlen_app, nlen_cons; reflexivity).
  assert (0 < nlen y) as Hpp by (destruct y; [contradiction | rewrite nlen_cons; lia]).
  destruct (nlen (u0 ++ 58 :: y)) as [|pn] eqn:En; [lia|].
  rewrite El. rewrite <- app_assoc. rewrite uloop_clean by exact Hu0.
  cbn [app]. rewrite uloop_cons by (lia || reflexivity). replace ((58 =? 58) && true) with true by reflexivity.
  rewrite nlen_app. rewrite to_u32_ok by lia. cbn [pbind].
  replace (1 + nlen y - 1) with (nlen y + 0) by lia. replace (0 <? nlen y + 0) with true by lia.
  rewrite uloop_raw; [| exact Hu | exact Htn | discriminate]. rewrite uloop_0. cbn [pbind]. rewrite orb_true_r.
  rewrite <- ?app_assoc. cbn [app]. rewrite <- ?app_assoc. reflexivity.
Qed.

End Userinfo.

(* ================= host ================= *)
(* a host argument the scan of parse_host takes whole: no TAB/LF/CR, none of ':' '/' '?' '#' (and '\' for a
   special scheme), no bracket *)
Definition hostc (sp : bool) (c : N) : bool :=
  negb (is_tnl c) && negb (host_stop sp false c) && negb (c =? 91) && negb (c =? 93).
(* what may follow: nothing, or a character at which the scan stops *)
Definition host_tail (sp : bool) (X : list N) : Prop :=
  match X with [] => True | c :: _ => is_tnl c = false /\ host_stop sp false c = true end.

Lemma host_scan_raw sp t : forall acc X, forallb (hostc sp) t = true -> host_tail sp X ->
  host_scan sp false acc (t ++ X) = (rev acc ++ t, X).
Proof.
  induction t as [|c t IH]; intros acc X Ht HX.
  - cbn [app]. rewrite app_nil_r. destruct X as [|c r]; [reflexivity|]. destruct HX as [H1 H2].
    cbn [host_scan]. rewrite H1. fold (host_stop sp false c). rewrite H2. reflexivity.
  - cbn [forallb] in Ht. apply andb_true_iff in Ht. destruct Ht as [Hc Ht]. unfold hostc in Hc.
    apply andb_true_iff in Hc. destruct Hc as [Hc H93]. apply andb_true_iff in Hc. destruct Hc as [Hc H91].
    apply andb_true_iff in Hc. destruct Hc as [H1 H2]. apply negb_true_iff in H1, H2, H91, H93.
    cbn [app host_scan]. rewrite H1. fold (host_stop sp false c). rewrite H2, H91, H93.
    rewrite IH by assumption. cbn [rev]. rewrite <- app_assoc. reflexivity.
Qed.

Theorem parse_host_raw hp hpo st t X : st_is_file st = false ->
  forallb (hostc (st_is_special st)) t = true -> host_tail (st_is_special st) X ->
  parse_host hp hpo st (t ++ X)
  = if scheme_type_eqb st STSpecialNotFile && (match t with [] => true | _ => false end) then PErr EmptyHost
    else host <~ of_result ((if st_is_special st then hp else hpo) t) ;; POk (host, X).
Proof.
  intros Hnf Ht HX. unfold parse_host. rewrite Hnf. rewrite (host_scan_raw _ t [] X Ht HX). cbn [rev app].
  destruct (scheme_type_eqb st STSpecialNotFile && match t with [] => true | _ => false end); [reflexivity|].
  destruct (st_is_special st); reflexivity.
Qed.

Lemma find_byte_aux_none b l : forall i, forallb (fun c => negb (c =? b)) l = true -> find_byte_aux b l i = None.
Proof.
  induction l as [|x r IH]; intros i H; [reflexivity|]. cbn [forallb] in H. apply andb_true_iff in H. destruct H as [H1 H2].
  apply negb_true_iff in H1. cbn [find_byte_aux]. rewrite H1. apply IH. exact H2.
Qed.

(* ================= path ================= *)
(* the path states in the contexts UrlParser and Setter differ only at '?' and '#': on an argument free of
   both, followed by nothing or by '?' / '#', the parser context does what the setter context does on the
   argument alone, and hands the rest on *)
Definition qh_tail (X : list N) : Prop := match X with [] => True | c :: _ => ((c =? 63) || (c =? 35)) = true end.

Definition with_rem {A B} (X : list N) (r : pres (A * B * list N)) : pres (A * B * list N) :=
  match r with POk (s, h, _) => POk (s, h, X) | PErr e => PErr e | PPanic => PPanic end.

Lemma qh_not_tnl c : ((c =? 63) || (c =? 35)) = true -> is_tnl c = false.
Proof. unfold is_tnl. lia. Qed.

Lemma path_loop_ctx dbg st ps p : forall X ser seg pend hh, forallb no_qh p = true -> qh_tail X ->
  parse_path_loop dbg CUrlParser st ps (p ++ X) ser seg pend hh
  = with_rem X (parse_path_loop dbg CSetter st ps p ser seg pend hh).
Proof.
  induction p as [|c p IH]; intros X ser seg pend hh Hp HX.
  - cbn [app]. destruct X as [|c r].
    + cbn [parse_path_loop]. change (push_pending CUrlParser st ser pend) with (push_pending CSetter st ser pend).
      destruct (finish_segment dbg st ps (push_pending CSetter st ser pend) seg false hh) as [[s2 h2]| |]; reflexivity.
    + cbn [qh_tail] in HX. cbn [parse_path_loop]. rewrite (qh_not_tnl c HX).
      assert ((c =? 47) || ((c =? 92) && st_is_special st) = false) as E by lia.
      cbn [ctx_eqb negb andb]. rewrite E, HX. cbn [andb].
      change (push_pending CUrlParser st ser pend) with (push_pending CSetter st ser pend).
      destruct (finish_segment dbg st ps (push_pending CSetter st ser pend) seg false hh) as [[s2 h2]| |]; reflexivity.
  - cbn [forallb] in Hp. apply andb_true_iff in Hp. destruct Hp as [Hc Hp]. unfold no_qh in Hc. apply negb_true_iff in Hc.
    cbn [app parse_path_loop]. cbn [ctx_eqb negb andb]. rewrite Hc. cbn [andb].
    change (push_pending CUrlParser st ser pend) with (push_pending CSetter st ser pend).
    destruct (is_tnl c); [apply IH; assumption|].
    destruct ((c =? 47) || ((c =? 92) && st_is_special st)).
    + destruct (finish_segment dbg st ps (push_pending CSetter st ser pend ++ [47]) seg true hh) as [[s2 h2]| |]; cbn [pbind];
        [apply IH; assumption | reflexivity | reflexivity].
    + destruct (st_is_file st && (ps <? nlen ser) && is_normalized_wdl (nskipn (ps + 1) ser)); apply IH; assumption.
Qed.

Lemma inp_next_app_some p c r X : inp_next p = Some (c, r) -> inp_next (p ++ X) = Some (c, r ++ X).
Proof.
  unfold inp_next. induction p as [|d p IH]; cbn [drop_while app]; [discriminate|].
  destruct (is_tnl d); [exact IH|]. intros H. inversion H; subst. reflexivity.
Qed.

(* parse_path_start: the argument does not begin with TAB/LF/CR (so that the first character the parser
   looks at is the argument's own), or is empty *)
Theorem path_start_ctx dbg st hh ser p X : forallb no_qh p = true -> qh_tail X ->
  match p with c :: _ => is_tnl c = false | [] => True end ->
  parse_path_start dbg CUrlParser st hh ser (p ++ X) = with_rem X (parse_path_start dbg CSetter st hh ser p).
Proof.
  intros Hp HX H1. unfold parse_path_start, parse_path.
  destruct p as [|c p].
  - cbn [app]. unfold inp_split_first at 2. cbn [inp_next drop_while].
    destruct X as [|d r].
    + unfold inp_split_first. cbn [inp_next drop_while].
      destruct (st_is_special st); [destruct (negb (ends_with_byte 47 ser))|]; apply (path_loop_ctx dbg st _ [] []); try exact I; reflexivity.
    + cbn [qh_tail] in HX. unfold inp_split_first. rewrite (inp_next_cons d r (qh_not_tnl d HX)).
      assert (is_slash_or_bslash d = false) as Es by (unfold is_slash_or_bslash; lia).
      destruct (st_is_special st) eqn:Esp.
      * destruct (negb (ends_with_byte 47 ser)); [rewrite Es|]; apply (path_loop_ctx dbg st _ [] (d :: r)); try exact HX; reflexivity.
      * rewrite HX. destruct st; try discriminate Esp. cbn [parse_path_loop push_pending]. unfold finish_segment.
        rewrite slice_o_some by lia. rewrite N.sub_diag. cbn. reflexivity.
  - cbn [forallb] in Hp. apply andb_true_iff in Hp. destruct Hp as [Hc Hp']. unfold no_qh in Hc. apply negb_true_iff in Hc.
    unfold inp_split_first. rewrite (inp_next_cons c p H1). cbn [app]. rewrite (inp_next_cons c (p ++ X) H1).
    destruct (st_is_special st).
    + destruct (negb (ends_with_byte 47 ser)).
      * destruct (is_slash_or_bslash c).
        -- apply path_loop_ctx; assumption.
        -- apply (path_loop_ctx dbg st _ (c :: p)); [cbn [forallb]; unfold no_qh; rewrite Hc; exact Hp' | exact HX].
      * apply (path_loop_ctx dbg st _ (c :: p)); [cbn [forallb]; unfold no_qh; rewrite Hc; exact Hp' | exact HX].
    + rewrite Hc. destruct (c =? 47); apply (path_loop_ctx dbg st _ (c :: p)); try exact HX; cbn [forallb]; unfold no_qh; rewrite Hc; exact Hp'.
Qed.

(* ================= fragment and query ================= *)
(* the fragment state is the very function the setter calls *)
Lemma pqf_fragment ovr st se ser x : nlen ser <= U32_MAX_P ->
  parse_query_and_fragment ovr CUrlParser st se ser (35 :: x)
  = POk (ser ++ 35 :: tnl_text T_FRAGMENT x, None, Some (nlen ser)).
Proof.
  intros Hb. unfold parse_query_and_fragment. rewrite inp_next_cons by reflexivity. cbn [N.eqb Pos.eqb].
  rewrite to_u32_ok by exact Hb. cbn [pbind]. rewrite parse_fragment_text. rewrite <- app_assoc. reflexivity.
Qed.

Definition h_tail (X : list N) : Prop := match X with [] => True | c :: _ => c = 35 end.
Definition after_hash (X : list N) : option (list N) := match X with [] => None | _ :: r => Some r end.

Lemma flush_nil S ser : flush_part S utf8_encode ser [] = ser.
Proof. unfold flush_part. cbn. apply app_nil_r. Qed.

(* the query state in the contexts UrlParser and Setter differs only at '#' *)
Lemma query_loop_ctx S x : forall X ser part, forallb no_h x = true -> h_tail X ->
  parse_query_loop S utf8_encode true ser part (x ++ X)
  = (fst (parse_query_loop S utf8_encode false ser part x), after_hash X).
Proof.
  induction x as [|c x IH]; intros X ser part Hx HX.
  - cbn [app]. destruct X as [|d r]; [reflexivity|]. cbn [h_tail] in HX. subst d.
    cbn [parse_query_loop is_tnl N.eqb Pos.eqb orb andb fst after_hash].
    destruct part; [rewrite flush_nil|]; reflexivity.
  - cbn [forallb] in Hx. apply andb_true_iff in Hx. destruct Hx as [Hc Hx]. unfold no_h in Hc. apply negb_true_iff in Hc.
    cbn [app parse_query_loop]. rewrite Hc. cbn [andb]. destruct (is_tnl c); apply IH; assumption.
Qed.

Theorem parse_query_ctx st se ser x X : forallb no_h x = true -> h_tail X ->
  parse_query None CUrlParser st se ser (x ++ X) = (ser ++ tnl_text (query_set st) x, after_hash X).
Proof.
  intros Hx HX. pose proof (parse_query_text st se ser x) as E. unfold parse_query in *. cbn [ctx_eqb query_enc] in *.
  rewrite query_loop_ctx by assumption. rewrite E. reflexivity.
Qed.

(* the setter trims TAB/LF/CR at both ends first; both states skip them anyway *)
Lemma filter_drop_while_tnl l : filter C06_FragQuery.not_tnl (drop_while is_tnl l) = filter C06_FragQuery.not_tnl l.
Proof.
  induction l as [|c r IH]; [reflexivity|]. cbn [drop_while].
  destruct (is_tnl c) eqn:E; [|reflexivity]. cbn [filter]. unfold C06_FragQuery.not_tnl at 2. rewrite E. exact IH.
Qed.

Lemma filter_rev_N (g : N -> bool) l : filter g (rev l) = rev (filter g l).
Proof.
  induction l as [|c r IH]; [reflexivity|]. cbn [rev filter]. rewrite filter_app, IH. cbn [filter].
  destruct (g c); [reflexivity | apply app_nil_r].
Qed.

Lemma tnl_text_trim S x : usv_list x -> tnl_text S (input_new_trim_tnl x) = tnl_text S x.
Proof.
  intros Hx. rewrite !tnl_text_spec by (try apply trim_matches_usv; exact Hx). do 2 f_equal.
  unfold input_new_trim_tnl, trim_matches. rewrite filter_rev_N, filter_drop_while_tnl, filter_rev_N, rev_involutive.
  apply filter_drop_while_tnl.
Qed.

Theorem pqf_query st se ser x X : forallb no_h x = true -> h_tail X ->
  nlen ser <= U32_MAX_P -> nlen (ser ++ 63 :: tnl_text (query_set st) x) <= U32_MAX_P ->
  parse_query_and_fragment None CUrlParser st se ser (63 :: x ++ X)
  = POk (match after_hash X with
         | None => (ser ++ 63 :: tnl_text (query_set st) x, Some (nlen ser), None)
         | Some r => ((ser ++ 63 :: tnl_text (query_set st) x) ++ 35 :: tnl_text T_FRAGMENT r, Some (nlen ser),
                      Some (nlen (ser ++ 63 :: tnl_text (query_set st) x)))
         end).
Proof.
  intros Hx HX Hb1 Hb2. unfold parse_query_and_fragment. rewrite inp_next_cons by reflexivity.
  replace (63 =? 35) with false by reflexivity. replace (63 =? 63) with true by reflexivity.
  rewrite to_u32_ok by exact Hb1. cbn [pbind]. rewrite parse_query_ctx by assumption.
  rewrite <- app_assoc. cbn [app]. destruct (after_hash X) as [r|]; [|reflexivity].
  rewrite to_u32_ok by exact Hb2. cbn [pbind]. rewrite parse_fragment_text. rewrite <- app_assoc. reflexivity.
Qed.
