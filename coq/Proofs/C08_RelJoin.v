(* Proofs/C08_RelJoin.v - joining the text make_relative emits to a base whose path is
     pre "/" seg "/" ... "/" last      (pre = everything in front of the path, with authority "scheme://...")
   for every scheme that is not "file":
     join_rel_path   k "../", canonical segments, a last segment, then ["?" q]["#" f]
     join_rel_root   "/" ["?" q]["#" f]
     join_rel_query  "?" q ["#" f]
     join_rel_frag   "#" f
     join_rel_empty  ""
   each as the explicit record. *)
From RU Require Import Base.Prelude Base.Utf8 Base.Utf8Facts Model.AsciiSet Gen.Tables Model.PercentEncoding
  Model.HostT Model.UrlRecord Model.Parser Model.Setters Model.WF Model.KnownC08
  Proofs.ListN Proofs.C14_Enc Proofs.C02_Enc Proofs.C02_Parts Proofs.C02_Opaque Proofs.C02_Path Proofs.C02_PathL1
  Proofs.C08_Input Proofs.C08_Simple Proofs.C08_Contain Proofs.C08_RelPath.

(* "scheme://" in front: se is the offset of ':' *)
Definition front_auth (se : N) (pre : list N) : Prop :=
  exists A R, pre = A ++ [58; 47; 47] ++ R /\ nlen A = se.

(* "scheme:" in front (no authority, no "/." marker) *)
Definition front_noauth (se : N) (pre : list N) : Prop := exists A, pre = A ++ [58] /\ nlen A = se.
Definition front_pre (se : N) (pre : list N) : Prop := front_auth se pre \/ front_noauth se pre.
(* ... and a new path X that may follow it: without authority it must not start with "//" *)
Definition front_for (se : N) (pre X : list N) : Prop :=
  front_auth se pre \/ (front_noauth se pre /\ starts_with s_ss X = false).

Lemma qf_text_above_st st q f : opt_clean (query_set st) q -> opt_clean T_FRAGMENT f ->
  forallb above_space (qf_text q f) = true.
Proof.
  intros Hq Hf. unfold qf_text. rewrite forallb_app. apply andb_true_iff. split.
  - destruct q as [x|]; [|reflexivity]. cbn [qf_qtext forallb opt_clean] in *.
    assert (forallb above_space x = true) as ->; [|reflexivity].
    unfold query_set in Hq. destruct (st_is_special st);
      [exact (clean_forallb _ _ x kept_SQUERY_above Hq) | exact (clean_forallb _ _ x kept_QUERY_above Hq)].
  - destruct f as [y|]; [|reflexivity]. cbn [qf_ftext forallb]. rewrite (clean_forallb _ _ y kept_FRAGMENT_above Hf). reflexivity.
Qed.

Lemma qf_text_rest q f : rest_qh (qf_text q f).
Proof. unfold rest_qh, qf_text. destruct q; destruct f; cbn; auto. Qed.

Lemma dots_text_above ra : forallb above_space (dots_text ra) = true.
Proof.
  induction ra as [|a ra IH]; [reflexivity|]. unfold dots_text. cbn [map concat]. fold (dots_text ra).
  rewrite forallb_app, IH. reflexivity.
Qed.

Lemma above_ntnl l : forallb above_space l = true -> ntnl l = l.
Proof.
  intros H. change (ntnl l) with (strip_tnl l). apply strip_tnl_id.
  revert H. apply forallb_impl. intros c Hc. unfold not_tnl. rewrite (above_not_tnl c Hc). reflexivity.
Qed.

(* with_query_and_fragment behind an authority: no "/." marker business *)
Lemma wqf_front_auth st se ue hs he hi po pre X rem : front_auth se pre ->
  with_query_and_fragment None CUrlParser st se ue hs he hi po (nlen pre) (pre ++ X) rem
  = (' (s2, qs, fs) <~ parse_query_and_fragment None CUrlParser st se (pre ++ X) rem ;;
     POk (mkUrl s2 se ue hs he hi po (nlen pre) qs fs)).
Proof.
  intros (A & R & -> & <-). unfold with_query_and_fragment.
  assert (nlen (A ++ [58; 47; 47] ++ R) = nlen A + 3 + nlen R) as El by (rewrite !nlen_app; unfold nlen; cbn [length]; lia).
  rewrite El. replace (nlen A + 3 + nlen R =? nlen A + 1) with false by lia.
  assert ((nlen A + 3 + nlen R =? nlen A + 3)
          && list_eqb (nfirstn (nlen A + 3 + nlen R - nlen A) (nskipn (nlen A) ((A ++ [58; 47; 47] ++ R) ++ X))) [58; 47; 46] = false) as ->.
  { destruct (nlen A + 3 + nlen R =? nlen A + 3) eqn:E; [|reflexivity]. cbn [andb].
    replace (nlen A + 3 + nlen R - nlen A) with 3 by lia.
    rewrite <- !app_assoc. rewrite nskipn_app_len. reflexivity. }
  cbn [pbind]. reflexivity.
Qed.

(* ... and behind "scheme:" when the path does not start with "//": no marker is inserted *)
Lemma wqf_front st se ue hs he hi po pre X rem : front_for se pre X ->
  with_query_and_fragment None CUrlParser st se ue hs he hi po (nlen pre) (pre ++ X) rem
  = (' (s2, qs, fs) <~ parse_query_and_fragment None CUrlParser st se (pre ++ X) rem ;;
     POk (mkUrl s2 se ue hs he hi po (nlen pre) qs fs)).
Proof.
  intros [Hfa|[(A & -> & <-) Hss]]; [apply wqf_front_auth; exact Hfa|].
  unfold with_query_and_fragment.
  assert (nlen (A ++ [58]) = nlen A + 1) as El by (rewrite nlen_app; reflexivity).
  rewrite El. rewrite N.eqb_refl. rewrite <- El. rewrite nskipn_app_len, Hss.
  assert (starts_with s_css (nskipn (nlen A) ((A ++ [58]) ++ X)) = false) as ->.
  { rewrite <- app_assoc. rewrite nskipn_app_len. unfold s_css. cbn [app starts_with].
    replace (58 =? 58) with true by reflexivity. exact Hss. }
  cbn [negb passert pbind]. reflexivity.
Qed.

Lemma hier_P_Bs pre segs last : pre ++ path_text segs last = Bs pre segs ++ last.
Proof. unfold Bs, path_text. rewrite <- !app_assoc. reflexivity. Qed.

Section RelJoin.
Variables (dbg : bool) (hp hpo : list N -> result host) (hd : host -> list N).
Notation join b input := (parse_url dbg hp hpo hd None (Some b) input).

(* ================= a reference with a path part ================= *)
Theorem join_rel_path b pre common ra rb blast tl q f c rp' :
  path_start b = nlen pre -> b_before_query b = Bs pre (common ++ ra) ++ blast ->
  cannot_be_a_base b = Some false -> st_is_file (b_st b) = false ->
  front_for (scheme_end b) pre (47 :: segs_text (common ++ rb) ++ tl) ->
  no_slash blast = true -> forallb no_slash ra = true -> forallb not_wdl_seg ra = true ->
  forallb (seg_ok (b_st b)) rb = true -> seg_ok (b_st b) tl = true ->
  opt_clean (query_set (b_st b)) q -> opt_clean T_FRAGMENT f ->
  dots_text ra ++ segs_text rb ++ tl = c :: rp' -> seg_char c = true -> no_spec_bslash (b_st b) c = true ->
  has_scheme_b ((dots_text ra ++ segs_text rb ++ tl) ++ qf_text q f) = false ->
  let P := Bs pre (common ++ rb) ++ tl in
  opt_le (qf_qs (nlen P) q) U32_MAX_P -> opt_le (qf_fs (nlen P) q f) U32_MAX_P ->
  join b ((dots_text ra ++ segs_text rb ++ tl) ++ qf_text q f)
  = POk (url_with b (P ++ qf_text q f) (qf_qs (nlen P) q) (qf_fs (nlen P) q f)).
Proof.
  intros Hps Hbq Hcb Hnf Hfa Hbl Hra Hwra Hrb Htl Hq Hf Erp Hc Hcbs Hsch P Bq Bf.
  set (st := b_st b) in *.
  set (rp := dots_text ra ++ segs_text rb ++ tl) in *.
  assert (forallb above_space (rp ++ qf_text q f) = true) as Habove.
  { unfold rp. rewrite !forallb_app. rewrite dots_text_above, (segs_text_above rb (segs_ok_good st rb Hrb)).
    rewrite (good_seg_above tl (proj1 (seg_ok_parts st tl Htl))). rewrite (qf_text_above_st st q f Hq Hf). reflexivity. }
  unfold parse_url. rewrite trim_c0_id by (apply all_above_edge; exact Habove).
  rewrite parse_scheme_none by (rewrite above_ntnl by exact Habove; exact Hsch).
  unfold seg_char in Hc. apply andb_true_iff in Hc. destruct Hc as [Hc Hc3]. apply andb_true_iff in Hc. destruct Hc as [Hc1 Hc2].
  unfold not_tnl in Hc1. apply negb_true_iff in Hc1, Hc2, Hc3. unfold is_qh in Hc3.
  unfold no_spec_bslash in Hcbs. apply negb_true_iff in Hcbs.
  assert (inp_next (rp ++ qf_text q f) = Some (c, rp' ++ qf_text q f)) as En.
  { rewrite Erp. cbn [app]. apply inp_next_cons. exact Hc1. }
  unfold inp_starts_with_char. rewrite En. replace (c =? 35) with false by lia. rewrite Hcb.
  fold (b_st b). fold st. rewrite Hnf. unfold parse_relative, inp_split_first. rewrite En.
  replace (c =? 63) with false by lia. replace (c =? 35) with false by lia. rewrite Hc2, Hcbs. cbn [orb].
  rewrite Hps, Hbq. rewrite pop_path_Bs by assumption. cbn [pbind].
  pose proof (Bs_len_ge pre (common ++ ra)) as Hg.
  replace (nlen (Bs pre (common ++ ra)) =? nlen pre) with false by lia. cbn [andb].
  rewrite match47. rewrite Hc2.
  unfold parse_path. unfold rp. rewrite <- !app_assoc.
  rewrite loop_rel; [| assumption | assumption | assumption | assumption | assumption | apply qf_text_rest].
  cbn [pbind]. fold P.
  assert (P = pre ++ (47 :: segs_text (common ++ rb) ++ tl)) as EP by (unfold P, Bs; rewrite <- !app_assoc; reflexivity).
  rewrite EP. rewrite wqf_front by exact Hfa. rewrite <- EP.
  rewrite pqf_canon; [| reflexivity | exact Hq | exact Hf | exact Bq | exact Bf].
  cbn [pbind]. unfold url_with. rewrite Hps. reflexivity.
Qed.

(* ================= "/" [?q][#f] ================= *)
Theorem join_rel_root b pre q f :
  path_start b = nlen pre -> nfirstn (nlen pre) (ser b) = pre ->
  cannot_be_a_base b = Some false -> st_is_file (b_st b) = false -> front_for (scheme_end b) pre [47] ->
  opt_clean (query_set (b_st b)) q -> opt_clean T_FRAGMENT f ->
  let P := pre ++ [47] in
  opt_le (qf_qs (nlen P) q) U32_MAX_P -> opt_le (qf_fs (nlen P) q f) U32_MAX_P ->
  join b (47 :: qf_text q f)
  = POk (url_with b (P ++ qf_text q f) (qf_qs (nlen P) q) (qf_fs (nlen P) q f)).
Proof.
  intros Hps Hpre Hcb Hnf Hfa Hq Hf P Bq Bf.
  set (st := b_st b) in *.
  assert (forallb above_space (47 :: qf_text q f) = true) as Habove.
  { cbn [forallb]. rewrite (qf_text_above_st st q f Hq Hf). reflexivity. }
  unfold parse_url. rewrite trim_c0_id by (apply all_above_edge; exact Habove).
  rewrite parse_scheme_first_not_alpha by (rewrite above_ntnl by exact Habove; reflexivity).
  assert (inp_next (47 :: qf_text q f) = Some (47, qf_text q f)) as En by (apply inp_next_cons; reflexivity).
  unfold inp_starts_with_char. rewrite En. replace (47 =? 35) with false by reflexivity. rewrite Hcb.
  fold (b_st b). fold st. rewrite Hnf. unfold parse_relative, inp_split_first. rewrite En.
  replace (47 =? 63) with false by reflexivity. replace (47 =? 35) with false by reflexivity.
  replace (47 =? 47) with true by reflexivity. cbn [orb].
  assert (fst (inp_count_matching (fun d => (d =? 47) || (d =? 92) && st_is_special st) (47 :: qf_text q f)) = 1) as Ecm.
  { rewrite inp_count_matching_fst. rewrite above_ntnl by exact Habove. cbn [count_leading].
    replace (47 =? 47) with true by reflexivity. cbn [orb].
    assert (count_leading (fun d => (d =? 47) || (d =? 92) && st_is_special st) (qf_text q f) = 0) as ->; [|reflexivity].
    unfold qf_text. destruct q; destruct f; reflexivity. }
  destruct (inp_count_matching (fun d => (d =? 47) || (d =? 92) && st_is_special st) (47 :: qf_text q f)) as [sl rem'].
  cbn [fst] in Ecm. subst sl. replace (2 <=? 1) with false by reflexivity.
  rewrite Hps, Hpre. unfold parse_path.
  replace (pre ++ [47]) with (Bs pre ([] ++ [])) by (unfold Bs; cbn [app segs_text map concat]; apply app_nil_r).
  pose proof (loop_rel dbg st pre [] [] [] [] (qf_text q f) true Hnf eq_refl eq_refl eq_refl eq_refl (qf_text_rest q f)) as HL.
  cbn [dots_text segs_text map concat app] in HL |- *. rewrite HL. cbn [pbind].
  assert (Bs pre [] ++ [] = pre ++ [47]) as EP by (unfold Bs; cbn [app segs_text map concat]; rewrite !app_nil_r; reflexivity).
  rewrite EP. rewrite wqf_front by exact Hfa. fold P.
  rewrite pqf_canon; [| reflexivity | exact Hq | exact Hf | exact Bq | exact Bf].
  cbn [pbind]. unfold url_with. rewrite Hps. reflexivity.
Qed.

(* ================= "?" q [#f] ================= *)
Theorem join_rel_query b x f :
  cannot_be_a_base b = Some false -> st_is_file (b_st b) = false ->
  clean (query_set (b_st b)) x = true -> opt_clean T_FRAGMENT f ->
  let P := b_before_query b in
  nlen P <= U32_MAX_P -> opt_le (qf_fs (nlen P) (Some x) f) U32_MAX_P ->
  join b (qf_text (Some x) f)
  = POk (url_with b (P ++ qf_text (Some x) f) (Some (nlen P)) (qf_fs (nlen P) (Some x) f)).
Proof.
  intros Hcb Hnf Hq Hf P Bq Bf.
  set (st := b_st b) in *.
  assert (forallb above_space (qf_text (Some x) f) = true) as Habove by (apply (qf_text_above_st st); assumption).
  unfold parse_url. rewrite trim_c0_id by (apply all_above_edge; exact Habove).
  rewrite parse_scheme_first_not_alpha by (rewrite above_ntnl by exact Habove; reflexivity).
  assert (inp_next (qf_text (Some x) f) = Some (63, x ++ qf_ftext f)) as En by (apply inp_next_cons; reflexivity).
  unfold inp_starts_with_char. rewrite En. replace (63 =? 35) with false by reflexivity. rewrite Hcb.
  fold (b_st b). fold st. rewrite Hnf. unfold parse_relative, inp_split_first. rewrite En.
  replace (63 =? 63) with true by reflexivity. fold P.
  rewrite pqf_canon; [| reflexivity | exact Hq | exact Hf | exact Bq | exact Bf].
  reflexivity.
Qed.

End RelJoin.
