(* Proofs/C17_Full.v - C17 for every opaque-path data: URL outside K2 and K3 (header with or without
   '?').  First the '?' case of the serialization (path part / query part of the header, the body is
   in the URL's query), then the assembly shared by both cases. *)
From RU Require Import Base.Prelude Base.Utf8 Base.Utf8Facts Model.AsciiSet Gen.Tables Model.PercentEncoding
  Model.HostT Model.UrlRecord Model.Parser Model.Mime Model.Base64 Model.DataUrl Model.DataUrlTie Model.KnownC17
  Spec.Infra Spec.MimeSniff Spec.Fetch
  Proofs.ListN Proofs.C14_Set Proofs.C14_Enc Proofs.C14_Views Proofs.C02_Enc Proofs.C02_Parts Proofs.C02_Opaque
  Proofs.C18_BodyRef Proofs.C18_Spec
  Proofs.C17_Tables Proofs.C17_Total Proofs.C17_Decode Proofs.C17_Main Proofs.C17_Bridge Proofs.C17_Fragment
  Proofs.C17_Body Proofs.C17_BodyUrl Proofs.C17_Header Proofs.C17_HeaderUrl Proofs.C17_HeaderQ Proofs.C17_Mime
  Proofs.C17_Partial.

Local Notation nt := C02_Enc.not_tnl.

(* ---- the opaque path ends at the first '?' ---- *)
Lemma cbb_stop P X : ~ In 63 P -> ~ In 35 P ->
  cbb_chars (P ++ 63 :: X) = strip_tnl P /\ cbb_rest (P ++ 63 :: X) = 63 :: X.
Proof.
  induction P as [|c r IH]; intros H1 H2.
  - cbn [app cbb_chars cbb_rest strip_tnl filter]. change (is_tnl 63) with false. change (is_qh 63) with true. split; reflexivity.
  - assert (Hq : is_qh c = false).
    { unfold is_qh. destruct (c =? 63) eqn:E1; [apply N.eqb_eq in E1; exfalso; apply H1; left; exact E1|].
      destruct (c =? 35) eqn:E2; [apply N.eqb_eq in E2; exfalso; apply H2; left; exact E2|]. reflexivity. }
    destruct IH as [I1 I2]; [intros Hin; apply H1; right; exact Hin|intros Hin; apply H2; right; exact Hin|].
    cbn [app cbb_chars cbb_rest]. unfold strip_tnl. cbn [filter]. unfold C02_Enc.not_tnl at 1.
    destruct (is_tnl c); cbn [negb]; [split; assumption|]. rewrite Hq. fold (strip_tnl r). rewrite I1. split; [reflexivity|exact I2].
Qed.

Lemma clean_body_header Qc Rc : ~ In 35 Qc -> clean_body (Qc ++ 44 :: Rc) = strip_tnl Qc ++ 44 :: clean_body Rc.
Proof.
  induction Qc as [|c r IH]; intros Hn.
  - cbn [app]. rewrite clean_body_cons. reflexivity.
  - cbn [app]. rewrite clean_body_cons.
    destruct (c =? 35) eqn:E; [apply N.eqb_eq in E; exfalso; apply Hn; left; exact E|].
    unfold strip_tnl. cbn [filter]. unfold C02_Enc.not_tnl at 1. change (is_tnl c) with (k17_tnl c).
    rewrite IH by (intros Hin; apply Hn; right; exact Hin).
    destruct (k17_tnl c); reflexivity.
Qed.

Lemma notin_utf8 c s : c < 128 -> ~ In c s -> ~ In c (utf8_encode s).
Proof. intros Hc Hn Hin. apply Hn. exact (utf8_encode_low s c Hin Hc). Qed.

(* ---- the serialization when the header has a '?' ---- *)
Theorem header_serialized_q dbg hp ho hd s rem u h B : usv_list s ->
  parse_scheme CUrlParser (input_new_trim_c0 s) = Some (s_data, rem) -> inp_split_prefix_char 47 rem = None ->
  parse_url dbg hp ho hd None None s = POk u ->
  find_comma_before_fragment (utf8_encode rem) = Ok (Some (h, B)) ->
  In 63 h ->
  exists a q encodedBody,
    filter nt h = a ++ 63 :: q /\ ~ In 63 a
    /\ collect_until_comma (skipn 5 (url_without_fragment u))
       = (encode T_CONTROLS a ++ 63 :: encode T_QUERY q, Some encodedBody)
    /\ string_percent_decode encodedBody = percent_decode (clean_body B).
Proof.
  intros Hs Hp H47 Hu HB Hq.
  destruct (parse_opaque_explicit dbg hp ho hd s s_data rem u Hs Hp scheme_type_of_data H47 Hu) as [Hur ->].
  rewrite opaque_url_without_fragment.
  destruct (find_comma_spec _ _ _ HB) as (Hsplit & Hn44 & Hn35).
  destruct (comma_split_chars rem h B Hur Hsplit Hn44) as (Hc & Rc & Er & Eh & EB & Hnc).
  assert (Huc : usv_list Hc /\ usv_list Rc).
  { rewrite Er in Hur. apply usv_app in Hur. destruct Hur as [U1 U2]. apply usv_cons in U2. tauto. }
  destruct Huc as [Uh Ur].
  assert (Hc63 : In 63 Hc) by (rewrite Eh in Hq; exact (utf8_encode_low Hc 63 Hq ltac:(lia))).
  assert (Hc35 : ~ In 35 Hc) by (intros Hin; apply Hn35; rewrite Eh; apply in_utf8_ascii; [lia|exact Hin]).
  destruct (split_first 63 Hc Hc63) as (P & Qc & EHc & HP63).
  assert (UPQ : usv_list P /\ usv_list Qc).
  { rewrite EHc in Uh. apply usv_app in Uh. destruct Uh as [U1 U2]. apply usv_cons in U2. tauto. }
  destruct UPQ as [UP UQ].
  assert (HP35 : ~ In 35 P) by (intros Hin; apply Hc35; rewrite EHc; apply in_or_app; left; exact Hin).
  assert (HQ35 : ~ In 35 Qc) by (intros Hin; apply Hc35; rewrite EHc; apply in_or_app; right; right; exact Hin).
  assert (HP44 : ~ In 44 P) by (intros Hin; apply Hnc; rewrite EHc; apply in_or_app; left; exact Hin).
  assert (HQ44 : ~ In 44 Qc) by (intros Hin; apply Hnc; rewrite EHc; apply in_or_app; right; right; exact Hin).
  exists (utf8_encode (strip_tnl P)), (utf8_encode (strip_tnl Qc)),
         (encode T_QUERY (utf8_encode (clean_body Rc))).
  split.
  { rewrite Eh, EHc, utf8_encode_app, utf8_cons, encode1_ascii by lia. cbn [app].
    rewrite filter_app. cbn [filter]. change (nt 63) with true. cbv iota.
    rewrite !filter_not_tnl_utf8 by assumption. reflexivity. }
  split.
  { apply notin_utf8; [lia|]. intros Hin. apply HP63. unfold strip_tnl in Hin. apply filter_In in Hin. tauto. }
  (* the serialization *)
  assert (Erem : rem = P ++ 63 :: (Qc ++ 44 :: Rc)) by (rewrite Er, EHc, <- app_assoc; reflexivity).
  destruct (cbb_stop P (Qc ++ 44 :: Rc) HP63 HP35) as [C1 C2].
  unfold opaque_pre. rewrite <- !app_assoc. change (s_data ++ [58] ++ ?x) with ([100;97;116;97;58] ++ x).
  cbn [app skipn]. unfold opaque_of. rewrite Erem, C1, C2.
  unfold pqf_q. rewrite inp_next_cons by reflexivity. change (63 =? 63) with true. cbn [qf_qtext].
  unfold query_of. change (query_set STNotSpecial) with T_QUERY.
  rewrite query_chars_clean, clean_body_header by exact HQ35.
  rewrite enc_utf8_app, utf8_cons, encode1_ascii by lia. cbn [app]. rewrite encode_cons.
  change (enc1 T_QUERY 44) with [44]. cbn [app].
  split.
  { change (encode T_CONTROLS (utf8_encode (strip_tnl P)) ++ 63 :: encode T_QUERY (utf8_encode (strip_tnl Qc)) ++ 44 :: encode T_QUERY (utf8_encode (clean_body Rc)))
      with (encode T_CONTROLS (utf8_encode (strip_tnl P)) ++ (63 :: encode T_QUERY (utf8_encode (strip_tnl Qc))) ++ 44 :: encode T_QUERY (utf8_encode (clean_body Rc))).
    rewrite app_assoc. apply collect_until_comma_app. intros Hin. apply in_app_or in Hin.
    destruct Hin as [Hin|[Hin|Hin]]; [|discriminate Hin|].
    - revert Hin. apply encode_no_comma; [apply usv_strip_k; exact UP|].
      intros Hin. apply HP44. unfold strip_tnl in Hin. apply filter_In in Hin. tauto.
    - revert Hin. apply encode_no_comma; [apply usv_strip_k; exact UQ|].
      intros Hin. apply HQ44. unfold strip_tnl in Hin. apply filter_In in Hin. tauto. }
  (* the body *)
  assert (Ucb : usv_list (clean_body Rc)).
  { unfold clean_body. unfold usv_list in *. rewrite Forall_forall in *. intros x Hx. apply filter_In in Hx.
    destruct Hx as [Hx _]. pose proof (usv_before_hash Rc) as Hbh. unfold usv_list in Hbh. rewrite !Forall_forall in Hbh.
    exact (Hbh Ur x Hx). }
  unfold string_percent_decode.
  rewrite utf8_encode_ascii by (apply encode_ascii; apply utf8_encode_bytes; exact Ucb).
  rewrite encode_marks. rewrite decode_marked with (n := length (marks T_QUERY (utf8_encode (clean_body Rc))));
    [|lia|apply marks_ok; [exact blind_QUERY|apply utf8_encode_bytes; exact Ucb]].
  rewrite map_fst_marks, EB, clean_body_utf8 by exact Ur. reflexivity.
Qed.

(* ---- the assembly, given the three facts about the serialization ---- *)
Lemma assemble dbg hp ho hd s rem u h B mt eb : usv_list s ->
  parse_scheme CUrlParser (input_new_trim_c0 s) = Some (s_data, rem) -> inp_split_prefix_char 47 rem = None ->
  parse_url dbg hp ho hd None None s = POk u ->
  find_comma_before_fragment (utf8_encode rem) = Ok (Some (h, B)) ->
  collect_until_comma (skipn 5 (url_without_fragment u)) = (mt, Some eb) ->
  header_of h = fetch_header mt ->
  string_percent_decode eb = fst (body_ref B) ->
  fetch_view (process_and_decode s) = fetch_of_url u.
Proof.
  intros Hs Hp H47 Hu Hr Hc Hh Hbody.
  pose proof (pretend_parse_is_parse_scheme s rem Hs Hp) as HA.
  destruct (parse_opaque_explicit dbg hp ho hd s s_data rem u Hs Hp scheme_type_of_data H47 Hu) as [Hur Eu].
  assert (Hdata : url_is_data u = true) by (rewrite Eu; apply url_is_data_opaque).
  unfold fetch_of_url. rewrite Hdata. unfold fetch_of_serialization.
  destruct (find_comma_bytes _ _ _ (utf8_encode_bytes rem Hur) Hr) as [Hbh HbB].
  pose proof (parse_header_std h Hbh) as Hph.
  pose proof (process_and_decode_eval s _ h B _ _ HA Hr Hph) as Hpd.
  rewrite fetch_process_alt_eq. unfold fetch_process_alt. rewrite remove_data_colon_skipn. cbn [length].
  rewrite Hc, Hbody, <- Hh.
  rewrite decode_to_vec_ref in Hpd. unfold decoded_ref in Hpd. cbn [du_base64 du_encoded_body_plus_fragment] in Hpd.
  destruct (body_ref B) as [out fragment] eqn:Ebr. cbn [fst].
  destruct (snd (header_of h)) eqn:Eb64.
  - pose proof (decode_to_vec_is_infra out) as HI. rewrite <- HI.
    destruct (Model.Base64.decode_to_vec out) as [v|e].
    + pose proof (fragment_is_url_fragment dbg hp ho hd s rem u Hs Hp H47 Hu _ _ _ _ Hpd) as Hf.
      rewrite Hpd. cbn [fetch_view]. rewrite record_of_std, Hf. reflexivity.
    + rewrite Hpd. reflexivity.
  - pose proof (fragment_is_url_fragment dbg hp ho hd s rem u Hs Hp H47 Hu _ _ _ _ Hpd) as Hf.
    rewrite Hpd. cbn [fetch_view]. rewrite record_of_std, Hf. reflexivity.
Qed.

(* ---- every opaque-path data: URL outside K2 and K3 ---- *)
Theorem opaque_is_fetch dbg hp ho hd s rem u : usv_list s ->
  parse_scheme CUrlParser (input_new_trim_c0 s) = Some (s_data, rem) -> inp_split_prefix_char 47 rem = None ->
  parse_url dbg hp ho hd None None s = POk u ->
  (forall h B, find_comma_before_fragment (utf8_encode rem) = Ok (Some (h, B)) ->
               k17_query_space (filter nt h) = false /\ k17_split_escape B = false) ->
  fetch_view (process_and_decode s) = fetch_of_url u.
Proof.
  intros Hs Hp H47 Hu Hcls.
  destruct (parse_opaque_explicit dbg hp ho hd s s_data rem u Hs Hp scheme_type_of_data H47 Hu) as [Hur Eu].
  destruct (find_comma_total (utf8_encode rem) (utf8_encode_after_ascii rem Hur)) as [r [Hr _]].
  destruct r as [[h B]|].
  - destruct (Hcls h B Hr) as [Hk2 Hk3].
    destruct (find_comma_bytes _ _ _ (utf8_encode_bytes rem Hur) Hr) as [Hbh HbB].
    destruct (find_comma_spec _ _ _ Hr) as (Hsplit & Hn44 & Hn35).
    destruct (in_dec N.eq_dec 63 h) as [Hq|Hq].
    + destruct (header_serialized_q dbg hp ho hd s rem u h B Hs Hp H47 Hu Hr Hq) as (a & q & eb & Hx & Ha & Hc & Hbody).
      apply (assemble dbg hp ho hd s rem u h B _ eb Hs Hp H47 Hu Hr Hc).
      * exact (header_bytes_q h a q Hbh Hn35 Hx Ha Hk2).
      * rewrite Hbody. symmetry. exact (body_ref_is_percent_decode (length B) B (Nat.le_refl _) Hk3).
    + destruct (header_is_fetch_header dbg hp ho hd s rem u h B Hs Hp H47 Hu Hr Hq) as (mt & eb & Hc & Hh).
      destruct (body_is_fetch_body dbg hp ho hd s rem u h B Hs Hp H47 Hu Hr Hq Hk3) as (mt' & eb' & Hc' & Hbody).
      rewrite Hc in Hc'. inversion Hc'; subst mt' eb'. clear Hc'.
      exact (assemble dbg hp ho hd s rem u h B mt eb Hs Hp H47 Hu Hr Hc Hh Hbody).
  - (* no comma *)
    pose proof (pretend_parse_is_parse_scheme s rem Hs Hp) as HA.
    assert (Hdata : url_is_data u = true) by (rewrite Eu; apply url_is_data_opaque).
    unfold fetch_of_url. rewrite Hdata. unfold fetch_of_serialization.
    rewrite (no_comma_is_fetch_failure dbg hp ho hd s rem u Hs Hp H47 Hu Hr).
    unfold process_and_decode, process_and_decode_bytes, process_bytes. rewrite HA. cbn [bind]. rewrite Hr. reflexivity.
Qed.
