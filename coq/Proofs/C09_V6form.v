(* Proofs/C09_V6form.v - the output form of write_ipv6: layout, lower-case hex without leading
   zeros, and "exactly the first longest run of two or more zero pieces is compressed". *)
From RU Require Import Base.Prelude Base.Utf8 Model.AsciiSet Gen.Tables Model.PercentEncoding Model.HostT Model.Host
  Proofs.C09_V6 Proofs.C09_V6rt.

(* ------------------------------------------------------------------ runs of zero pieces *)

Definition zs (a : list N) : list bool := map (fun x => x =? 0) a.

(* piece k exists and is 0 *)
Definition zero_at (a : list N) (k : nat) : Prop := nth k (zs a) false = true.
Definition zero_run (a : list N) (i j : nat) : Prop :=
  (i < j <= 8)%nat /\ forall k, (i <= k < j)%nat -> zero_at a k.
Definition maximal_zero_run (a : list N) (i j : nat) : Prop :=
  zero_run a i j /\ (i = 0%nat \/ ~ zero_at a (i - 1)) /\ (j = 8%nat \/ ~ zero_at a j).

(* (cs, ce) is what the Standard asks for: nothing when no run has two pieces, otherwise the first
   among the longest maximal runs *)
Definition first_longest_run (a : list N) (cs ce : Z) : Prop :=
  (cs = (-1)%Z /\ ce = (-2)%Z /\ forall i j, maximal_zero_run a i j -> (j - i < 2)%nat)
  \/ (exists i j, cs = Z.of_nat i /\ ce = Z.of_nat j /\ maximal_zero_run a i j /\ (2 <= j - i)%nat
      /\ forall i' j', maximal_zero_run a i' j' ->
           (j' - i' <= j - i)%nat /\ ((i' < i)%nat -> (j' - i' < j - i)%nat)).

(* boolean versions over the zero pattern *)
Definition zatb (z : list bool) (k : nat) : bool := nth k z false.
Definition zrunb (z : list bool) (i j : nat) : bool :=
  (i <? j)%nat && (j <=? 8)%nat && forallb (zatb z) (seq i (j - i)).
Definition maxb (z : list bool) (i j : nat) : bool :=
  zrunb z i j && ((i =? 0)%nat || negb (zatb z (i - 1))) && ((j =? 8)%nat || negb (zatb z j)).
Definition R9 : list nat := seq 0 9.
Definition flb (z : list bool) (cs ce : Z) : bool :=
  if (cs =? -1)%Z then
    (ce =? -2)%Z && forallb (fun i => forallb (fun j => negb (maxb z i j) || (j - i <? 2)%nat) R9) R9
  else
    existsb (fun i => existsb (fun j =>
      (cs =? Z.of_nat i)%Z && (ce =? Z.of_nat j)%Z && maxb z i j && (2 <=? j - i)%nat
      && forallb (fun i' => forallb (fun j' =>
           negb (maxb z i' j') || ((j' - i' <=? j - i)%nat && (negb (i' <? i)%nat || (j' - i' <? j - i)%nat))) R9) R9) R9) R9.

Lemma zrunb_spec a i j : zrunb (zs a) i j = true <-> zero_run a i j.
Proof.
  unfold zrunb, zero_run, zero_at, zatb. rewrite !andb_true_iff, forallb_forall. split.
  - intros [[H1 H2] H3]. split; [lia|]. intros k Hk. apply H3. apply in_seq. lia.
  - intros [H1 H2]. repeat split; try lia. intros k Hk. apply in_seq in Hk. apply H2. lia.
Qed.

Lemma maxb_spec a i j : maxb (zs a) i j = true <-> maximal_zero_run a i j.
Proof.
  unfold maxb, maximal_zero_run. rewrite !andb_true_iff, !orb_true_iff, zrunb_spec.
  unfold zero_at, zatb. rewrite !negb_true_iff, !Nat.eqb_eq, <- !not_true_iff_false. tauto.
Qed.

Lemma max_in_R9 a i j : maximal_zero_run a i j -> In i R9 /\ In j R9.
Proof. intros [[H _] _]. unfold R9. split; apply in_seq; lia. Qed.

Lemma flb_spec a cs ce : flb (zs a) cs ce = true -> first_longest_run a cs ce.
Proof.
  unfold flb, first_longest_run. destruct (cs =? -1)%Z eqn:E.
  - intros H. apply andb_true_iff in H. destruct H as [H1 H2]. left. repeat split; try lia.
    intros i j Hm. destruct (max_in_R9 a i j Hm) as [Hi Hj].
    rewrite forallb_forall in H2. specialize (H2 i Hi). rewrite forallb_forall in H2. specialize (H2 j Hj).
    apply maxb_spec in Hm. rewrite Hm in H2. cbn [negb orb] in H2. lia.
  - intros H. right. apply existsb_exists in H. destruct H as (i & _ & H).
    apply existsb_exists in H. destruct H as (j & _ & H).
    repeat (apply andb_true_iff in H; destruct H as [H ?]).
    exists i, j. split; [lia|]. split; [lia|]. split; [apply maxb_spec; assumption|]. split; [lia|].
    intros i' j' Hm. destruct (max_in_R9 a i' j' Hm) as [Hi Hj].
    match goal with HF : forallb _ R9 = true |- _ =>
      rewrite forallb_forall in HF; specialize (HF i' Hi); rewrite forallb_forall in HF; specialize (HF j' Hj);
      apply maxb_spec in Hm; rewrite Hm in HF; cbn [negb orb] in HF; split; lia end.
Qed.

Definition flb_lzs (a : list N) : bool := let '(cs, ce) := longest_zero_sequence a in flb (zs a) cs ce.

Lemma flb_sweep : all_below 256 (fun k => flb_lzs (pat k)) = true.
Proof. vm_compute. reflexivity. Qed.

Lemma zs_nz a : zs (map nz a) = zs a.
Proof. unfold zs. rewrite map_map. apply map_ext. intros x. unfold nz. destruct (x =? 0) eqn:E; lia. Qed.

Theorem lzs_first_longest a : length a = 8%nat ->
  let '(cs, ce) := longest_zero_sequence a in first_longest_run a cs ce.
Proof.
  intros H. destruct (length8 a H) as (a0 & a1 & a2 & a3 & a4 & a5 & a6 & a7 & ->).
  destruct (nz_pat a0 a1 a2 a3 a4 a5 a6 a7) as (k & Hk & E).
  pose proof (all_below_spec _ _ flb_sweep k Hk) as S. cbv beta in S.
  rewrite <- E in S. unfold flb_lzs in S. rewrite lzs_nz, zs_nz in S.
  destruct (longest_zero_sequence [a0; a1; a2; a3; a4; a5; a6; a7]) as [cs ce].
  apply flb_spec. exact S.
Qed.

(* ------------------------------------------------------------------ layout *)

Fixpoint join_colon (l : list (list N)) : list N :=
  match l with
  | [] => []
  | [x] => x
  | x :: r => x ++ 58 :: join_colon r
  end.

Definition v6_layout (a : list N) (cs ce : Z) : list N :=
  if (cs =? -1)%Z then join_colon (map hex4 a)
  else
    flat_map (fun v => hex4 v ++ [58]) (firstn (Z.to_nat cs) a)
    ++ [58] ++ (if (cs =? 0)%Z then [58] else [])
    ++ join_colon (map hex4 (skipn (Z.to_nat ce) a)).

Arguments hex4 : simpl never.

Ltac to_nat_consts :=
  repeat (cbn; match goal with |- context [Pos.to_nat ?p] =>
            let n := eval compute in (Pos.to_nat p) in change (Pos.to_nat p) with n end); cbn.

Theorem write_ipv6_layout a : length a = 8%nat ->
  let '(cs, ce) := longest_zero_sequence a in write_ipv6 a = v6_layout a cs ce.
Proof.
  intros Hlen. pose proof (lzs_shape a Hlen) as Hs.
  destruct (length8 a Hlen) as (a0 & a1 & a2 & a3 & a4 & a5 & a6 & a7 & ->).
  unfold lzs_shape_b in Hs. unfold write_ipv6, write_ipv6_o.
  destruct (longest_zero_sequence [a0; a1; a2; a3; a4; a5; a6; a7]) as [cs ce] eqn:Hl.
  destruct (cs =? -1)%Z eqn:Ecs.
  - assert (cs = (-1)%Z) by lia. assert (ce = (-2)%Z) by lia. subst cs ce.
    unfold v6_layout. to_nat_consts. rewrite ?app_nil_r. reflexivity.
  - repeat (apply andb_true_iff in Hs; destruct Hs as [Hs ?]).
    assert (Hcs : (cs = 0 \/ cs = 1 \/ cs = 2 \/ cs = 3 \/ cs = 4 \/ cs = 5 \/ cs = 6)%Z) by lia.
    assert (Hce : (ce = 2 \/ ce = 3 \/ ce = 4 \/ ce = 5 \/ ce = 6 \/ ce = 7 \/ ce = 8)%Z) by lia.
    destruct Hcs as [->|[->|[->|[->|[->|[->| ->]]]]]];
    destruct Hce as [->|[->|[->|[->|[->|[->| ->]]]]]]; try lia;
    unfold v6_layout; to_nat_consts; rewrite ?app_nil_r; repeat rewrite <- app_assoc; reflexivity.
Qed.

(* ------------------------------------------------------------------ digits *)

Theorem hex4_form v : v < 65536 ->
  Forall (fun c => is_lower_hex c = true) (hex4 v) /\ (1 <= length (hex4 v) <= 4)%nat
  /\ hex_fold (hex4 v) 0 = Some v /\ no_leading_zero v (hex4 v) = true.
Proof.
  intros Hv. destruct (hex4_facts v Hv) as (H1 & H2 & H3 & H4). repeat split; try assumption.
  - apply Forall_forall. apply forallb_forall. exact H1.
  - pose proof (hex4_nonnil v). destruct (hex4 v); [congruence | cbn; lia].
Qed.
