(* Proofs/C17_Partial.v - C17 in full (MIME type record, body, fragment, failure) for the class
   "opaque path, header without '?', no ASCII tab / newline inside a percent escape of the body":
   assembled from the header text / base64 flag (C17_HeaderUrl), the MIME parser equivalence (C17_Mime),
   the body (C17_BodyUrl), forgiving-base64 (C18), the fragment (C17_Fragment) and NoComma. *)
From RU Require Import Base.Prelude Base.Utf8 Base.Utf8Facts Model.AsciiSet Gen.Tables Model.PercentEncoding
  Model.HostT Model.UrlRecord Model.Parser Model.Mime Model.Base64 Model.DataUrl Model.DataUrlTie Model.KnownC17
  Spec.Infra Spec.MimeSniff Spec.Fetch
  Proofs.C02_Opaque Proofs.C18_BodyRef Proofs.C18_Spec
  Proofs.C17_Tables Proofs.C17_Total Proofs.C17_Decode Proofs.C17_Main Proofs.C17_Bridge Proofs.C17_Fragment
  Proofs.C17_Body Proofs.C17_BodyUrl Proofs.C17_Header Proofs.C17_HeaderUrl Proofs.C17_Mime.

Lemma printable_qs l : Forall printable l -> Forall qs l.
Proof.
  intros H. rewrite Forall_forall in *. intros c Hc. specialize (H c Hc). unfold printable in H.
  unfold qs, http_quoted_string_token_cp. lia.
Qed.

Lemma header_of_printable h : bytes h -> Forall printable (fst (header_of h)).
Proof.
  intros Hb. unfold header_of.
  assert (Ht : bytes (trimmed_header h)) by (apply bytes_drop_while_end, bytes_drop_while; exact Hb).
  destruct (crate_rev (rev (trimmed_header h))) as [bs|] eqn:Ec; cbn [fst].
  - apply header_string_printable. destruct (crate_rev_suffix _ _ Ec) as [p Hp].
    apply bytes_rev in Ht. rewrite Hp in Ht. apply bytes_app in Ht. apply bytes_rev. tauto.
  - apply header_string_printable. exact Ht.
Qed.

(* parse_header in terms of the Standard's MIME parser *)
Lemma parse_header_std h : bytes h ->
  parse_header h = Ok (match parse_a_mime_type (fst (header_of h)) with
                       | Some r => mime_of_record r
                       | None => fallback_mime
                       end, snd (header_of h)).
Proof.
  intros Hb. rewrite parse_header_eq. unfold from_str.
  rewrite (mime_parse_equiv _ (printable_qs _ (header_of_printable h Hb))). cbn [bind].
  destruct (parse_a_mime_type (fst (header_of h))); reflexivity.
Qed.

Lemma record_of_std o :
  record_of_mime (match o with Some r => mime_of_record r | None => fallback_mime end)
  = match o with Some r => r | None => text_plain_us_ascii end.
Proof. destruct o as [[a b c]|]; reflexivity. Qed.

Lemma remove_data_colon_skipn p : forall l, remove_data_colon p l = skipn (length p) l.
Proof.
  induction p as [|x p IH]; intros l; [destruct l; reflexivity|]. destruct l as [|y l]; [reflexivity|].
  cbn [remove_data_colon length skipn]. apply IH.
Qed.

Lemma process_and_decode_eval s A h B m b :
  pretend_parse_data_url (utf8_encode s) = Ok (Some A) ->
  find_comma_before_fragment A = Ok (Some (h, B)) ->
  parse_header h = Ok (m, b) ->
  process_and_decode s =
  match DataUrl.decode_to_vec (mk_data_url m b B) with
  | DecOk body fragment => PdOk m b (inl body) (option_map to_percent_encoded fragment)
  | DecInvalidBase64 d => PdOk m b (inr d) None
  | DecPanic => PdPanic 330
  end.
Proof.
  intros H1 H2 H3. unfold process_and_decode, process_and_decode_bytes, process_bytes.
  rewrite H1. cbn [bind]. rewrite H2. cbn [bind]. rewrite H3. cbn [bind fst snd]. reflexivity.
Qed.

Lemma url_is_data_opaque P q f : url_is_data (opaque_url s_data P q f) = true.
Proof. reflexivity. Qed.

Theorem opaque_noq_is_fetch dbg hp ho hd s rem u : usv_list s ->
  parse_scheme CUrlParser (input_new_trim_c0 s) = Some (s_data, rem) -> inp_split_prefix_char 47 rem = None ->
  parse_url dbg hp ho hd None None s = POk u ->
  (forall h B, find_comma_before_fragment (utf8_encode rem) = Ok (Some (h, B)) ->
               ~ In 63 h /\ k17_split_escape B = false) ->
  fetch_view (process_and_decode s) = fetch_of_url u.
Proof.
  intros Hs Hp H47 Hu Hcls.
  pose proof (pretend_parse_is_parse_scheme s rem Hs Hp) as HA.
  destruct (parse_opaque_explicit dbg hp ho hd s s_data rem u Hs Hp scheme_type_of_data H47 Hu) as [Hur Eu].
  assert (Hdata : url_is_data u = true) by (rewrite Eu; apply url_is_data_opaque).
  unfold fetch_of_url. rewrite Hdata. unfold fetch_of_serialization.
  destruct (find_comma_total (utf8_encode rem) (utf8_encode_after_ascii rem Hur)) as [r [Hr _]].
  destruct r as [[h B]|].
  - (* a comma *)
    destruct (Hcls h B Hr) as [Hq Hk].
    destruct (find_comma_bytes _ _ _ (utf8_encode_bytes rem Hur) Hr) as [Hbh HbB].
    destruct (header_is_fetch_header dbg hp ho hd s rem u h B Hs Hp H47 Hu Hr Hq) as (mt & eb & Hc & Hh).
    destruct (body_is_fetch_body dbg hp ho hd s rem u h B Hs Hp H47 Hu Hr Hq Hk) as (mt' & eb' & Hc' & Hbody).
    rewrite Hc in Hc'. inversion Hc'; subst mt' eb'. clear Hc'.
    pose proof (parse_header_std h Hbh) as Hph.
    pose proof (process_and_decode_eval s _ h B _ _ HA Hr Hph) as Hpd.
    rewrite fetch_process_alt_eq. unfold fetch_process_alt. rewrite remove_data_colon_skipn. cbn [length].
    rewrite Hc, Hbody, <- Hh.
    rewrite decode_to_vec_ref in Hpd. unfold decoded_ref in Hpd. cbn [du_base64 du_encoded_body_plus_fragment] in Hpd.
    destruct (body_ref B) as [out fragment] eqn:Ebr. cbn [fst].
    destruct (snd (header_of h)) eqn:Eb64.
    + (* base64 *)
      pose proof (decode_to_vec_is_infra out) as HI. rewrite <- HI.
      destruct (Model.Base64.decode_to_vec out) as [v|e].
      * pose proof (fragment_is_url_fragment dbg hp ho hd s rem u Hs Hp H47 Hu _ _ _ _ Hpd) as Hf.
        rewrite Hpd. cbn [fetch_view]. rewrite record_of_std, Hf. reflexivity.
      * rewrite Hpd. reflexivity.
    + pose proof (fragment_is_url_fragment dbg hp ho hd s rem u Hs Hp H47 Hu _ _ _ _ Hpd) as Hf.
      rewrite Hpd. cbn [fetch_view]. rewrite record_of_std, Hf. reflexivity.
  - (* no comma *)
    rewrite (no_comma_is_fetch_failure dbg hp ho hd s rem u Hs Hp H47 Hu Hr).
    unfold process_and_decode, process_and_decode_bytes, process_bytes. rewrite HA. cbn [bind]. rewrite Hr. reflexivity.
Qed.

(* ---- the header clauses on their own ---- *)
(* the base64 flag of parse_header is step 11's condition on the serialized header *)
Theorem base64_flag_is_fetch dbg hp ho hd s rem u h B : usv_list s ->
  parse_scheme CUrlParser (input_new_trim_c0 s) = Some (s_data, rem) -> inp_split_prefix_char 47 rem = None ->
  parse_url dbg hp ho hd None None s = POk u ->
  find_comma_before_fragment (utf8_encode rem) = Ok (Some (h, B)) ->
  ~ In 63 h ->
  exists mimeType encodedBody,
    collect_until_comma (skipn 5 (url_without_fragment u)) = (mimeType, Some encodedBody)
    /\ forall m b, parse_header h = Ok (m, b) ->
       b = match ends_with_base64_marker (strip_leading_and_trailing_ascii_whitespace mimeType) with
           | Some _ => true
           | None => false
           end.
Proof.
  intros Hs Hp H47 Hu Hr Hq.
  destruct (header_is_fetch_header dbg hp ho hd s rem u h B Hs Hp H47 Hu Hr Hq) as (mt & eb & Hc & Hh).
  exists mt, eb. split; [exact Hc|]. intros m b Hph.
  assert (Hbh : bytes h).
  { destruct (parse_opaque_explicit dbg hp ho hd s s_data rem u Hs Hp scheme_type_of_data H47 Hu) as [Hur _].
    exact (proj1 (find_comma_bytes _ _ _ (utf8_encode_bytes rem Hur) Hr)). }
  rewrite (parse_header_std h Hbh) in Hph. inversion Hph as [[E1 E2]]. rewrite Hh. unfold fetch_header.
  destruct (ends_with_base64_marker (strip_leading_and_trailing_ascii_whitespace mt)); reflexivity.
Qed.

(* the MIME type record of parse_header is the one steps 6, 11-14 of the processor compute *)
Theorem mime_type_is_fetch dbg hp ho hd s rem u h B : usv_list s ->
  parse_scheme CUrlParser (input_new_trim_c0 s) = Some (s_data, rem) -> inp_split_prefix_char 47 rem = None ->
  parse_url dbg hp ho hd None None s = POk u ->
  find_comma_before_fragment (utf8_encode rem) = Ok (Some (h, B)) ->
  ~ In 63 h ->
  exists mimeType encodedBody,
    collect_until_comma (skipn 5 (url_without_fragment u)) = (mimeType, Some encodedBody)
    /\ forall m b, parse_header h = Ok (m, b) ->
       record_of_mime m = match parse_a_mime_type (fst (fetch_header mimeType)) with
                          | Some r => r
                          | None => text_plain_us_ascii
                          end.
Proof.
  intros Hs Hp H47 Hu Hr Hq.
  destruct (header_is_fetch_header dbg hp ho hd s rem u h B Hs Hp H47 Hu Hr Hq) as (mt & eb & Hc & Hh).
  exists mt, eb. split; [exact Hc|]. intros m b Hph.
  assert (Hbh : bytes h).
  { destruct (parse_opaque_explicit dbg hp ho hd s s_data rem u Hs Hp scheme_type_of_data H47 Hu) as [Hur _].
    exact (proj1 (find_comma_bytes _ _ _ (utf8_encode_bytes rem Hur) Hr)). }
  rewrite (parse_header_std h Hbh) in Hph. inversion Hph as [[E1 E2]]. rewrite record_of_std, Hh. reflexivity.
Qed.

(* the statement left open in C17_Main *)
Theorem mime_statement_holds : C17_mime_statement.
Proof.
  intros t Ht. rewrite (mime_parse_equiv t (printable_qs t Ht)). reflexivity.
Qed.
