(* Proofs/C02_Enc.v - the algebraic core of re-parsing canonical text:
   percent-encoding with one of the parser's sets is the identity on its own output, its output
   contains no tab / LF / CR, and the C0/space trimming of Input::new is the identity on text whose
   first and last characters are above U+0020. *)
From RU Require Import Base.Prelude Base.Utf8 Base.Utf8Facts Model.AsciiSet Gen.Tables
  Model.PercentEncoding Model.HostT Model.UrlRecord Model.Parser
  Proofs.C14_Set Proofs.C14_Enc Proofs.C14_Views.

(* ---------- bytes a set leaves alone ---------- *)
Definition kept (S : aset) (b : N) : bool := negb (should_encode S b).
Definition clean (S : aset) (t : list N) : bool := forallb (kept S) t.

Lemma kept_ascii S b : kept S b = true -> b < 128.
Proof. unfold kept, should_encode. destruct (128 <=? b) eqn:E; [discriminate | lia]. Qed.

Lemma clean_cons S b t : clean S (b :: t) = kept S b && clean S t.
Proof. reflexivity. Qed.

Lemma clean_app S a b : clean S (a ++ b) = clean S a && clean S b.
Proof. unfold clean. apply forallb_app. Qed.

Lemma clean_ascii S t : clean S t = true -> ascii t.
Proof.
  induction t as [|b t IH]; intros H; [constructor|].
  rewrite clean_cons in H. apply andb_true_iff in H. destruct H as [H1 H2].
  constructor; [exact (kept_ascii S b H1) | exact (IH H2)].
Qed.

(* encode_id of DESIGN B.5 *)
Theorem encode_clean S t : clean S t = true -> encode S t = t.
Proof.
  induction t as [|b t IH]; intros H; [reflexivity|].
  rewrite clean_cons in H. apply andb_true_iff in H. destruct H as [H1 H2].
  rewrite encode_cons. unfold enc1. unfold kept in H1. apply negb_true_iff in H1. rewrite H1.
  cbn [app]. f_equal. exact (IH H2).
Qed.

(* every output byte of encode is '%', an upper-case hex digit, or a kept input byte *)
Lemma encode_forallb S (Q : N -> bool) bs :
  Q 37 = true -> (forall d, d < 16 -> Q (hex_upper d) = true) ->
  Forall (fun b => should_encode S b = false -> Q b = true) bs -> bytes bs ->
  forallb Q (encode S bs) = true.
Proof.
  intros Hp Hh. induction bs as [|b r IH]; intros HQ Hby; [reflexivity|].
  inversion HQ as [|? ? Hb Hr]; subst. inversion Hby as [|? ? Bb Br]; subst.
  rewrite encode_cons, forallb_app. rewrite (IH Hr Br), andb_true_r.
  unfold enc1. destruct (should_encode S b) eqn:E.
  - unfold enc_byte_spec. cbn [forallb]. unfold is_byte in Bb.
    rewrite Hp, (Hh (b / 16)), (Hh (b mod 16)) by lia. reflexivity.
  - cbn [forallb]. rewrite (Hb eq_refl). reflexivity.
Qed.

(* the set contains neither '%' nor an upper-case hex digit *)
Definition set_stable (S : aset) : bool :=
  kept S 37 && all_below 16 (fun d => kept S (hex_upper d)).

Lemma set_stable_pct S : set_stable S = true -> kept S 37 = true.
Proof. unfold set_stable. intros H. apply andb_true_iff in H. tauto. Qed.

Lemma set_stable_hex S d : set_stable S = true -> d < 16 -> kept S (hex_upper d) = true.
Proof.
  unfold set_stable. intros H Hd. apply andb_true_iff in H. destruct H as [_ H].
  exact (all_below_spec 16 _ H d Hd).
Qed.

Theorem encode_is_clean S bs : set_stable S = true -> bytes bs -> clean S (encode S bs) = true.
Proof.
  intros HS Hby. unfold clean. apply encode_forallb.
  - apply set_stable_pct. exact HS.
  - intros d Hd. apply set_stable_hex; assumption.
  - apply Forall_forall. intros b _ E. unfold kept. rewrite E. reflexivity.
  - exact Hby.
Qed.

Theorem encode_idempotent S bs : set_stable S = true -> bytes bs ->
  encode S (encode S bs) = encode S bs.
Proof. intros HS Hby. apply encode_clean. apply encode_is_clean; assumption. Qed.

(* table facts *)
Lemma stable_CONTROLS : set_stable T_CONTROLS = true. Proof. vm_compute. reflexivity. Qed.
Lemma stable_FRAGMENT : set_stable T_FRAGMENT = true. Proof. vm_compute. reflexivity. Qed.
Lemma stable_PATH : set_stable T_PATH = true. Proof. vm_compute. reflexivity. Qed.
Lemma stable_USERINFO : set_stable T_USERINFO = true. Proof. vm_compute. reflexivity. Qed.
Lemma stable_QUERY : set_stable T_QUERY = true. Proof. vm_compute. reflexivity. Qed.
Lemma stable_SPECIAL_QUERY : set_stable T_SPECIAL_QUERY = true. Proof. vm_compute. reflexivity. Qed.
(* the two path-segment sets of the path_segments_mut editor DO contain '%': pushing a segment
   is not idempotent on already-encoded text (by design: it takes raw text) *)
Lemma unstable_PATH_SEGMENT : set_stable T_PATH_SEGMENT = false /\ set_stable T_SPECIAL_PATH_SEGMENT = false.
Proof. vm_compute. split; reflexivity. Qed.

(* ---------- no ignorable characters in encoded text ---------- *)
Definition not_tnl (c : N) : bool := negb (is_tnl c).
Definition set_has_tnl (S : aset) : bool := should_encode S 9 && should_encode S 10 && should_encode S 13.

Lemma hex_upper_ge d : d < 16 -> 48 <= hex_upper d /\ hex_upper d <= 70.
Proof. unfold hex_upper. intros H. destruct (d <? 10) eqn:E; lia. Qed.

Theorem encode_no_tnl S bs : set_has_tnl S = true -> bytes bs -> forallb not_tnl (encode S bs) = true.
Proof.
  intros HS Hby. apply encode_forallb.
  - reflexivity.
  - intros d Hd. pose proof (hex_upper_ge d Hd) as H. unfold not_tnl, is_tnl. lia.
  - apply Forall_forall. intros b _ E. unfold set_has_tnl in HS.
    apply andb_true_iff in HS. destruct HS as [HS H13]. apply andb_true_iff in HS. destruct HS as [H9 H10].
    unfold not_tnl, is_tnl.
    destruct (N.eqb_spec b 9) as [->|N9]; [congruence|].
    destruct (N.eqb_spec b 10) as [->|N10]; [congruence|].
    destruct (N.eqb_spec b 13) as [->|N13]; [congruence|]. reflexivity.
  - exact Hby.
Qed.

Lemma tnl_CONTROLS : set_has_tnl T_CONTROLS = true. Proof. vm_compute. reflexivity. Qed.
Lemma tnl_FRAGMENT : set_has_tnl T_FRAGMENT = true. Proof. vm_compute. reflexivity. Qed.
Lemma tnl_PATH : set_has_tnl T_PATH = true. Proof. vm_compute. reflexivity. Qed.
Lemma tnl_USERINFO : set_has_tnl T_USERINFO = true. Proof. vm_compute. reflexivity. Qed.
Lemma tnl_QUERY : set_has_tnl T_QUERY = true. Proof. vm_compute. reflexivity. Qed.
Lemma tnl_SPECIAL_QUERY : set_has_tnl T_SPECIAL_QUERY = true. Proof. vm_compute. reflexivity. Qed.

(* clean text of a set that contains tab, LF, CR has none of them *)
Lemma clean_no_tnl S t : set_has_tnl S = true -> clean S t = true -> forallb not_tnl t = true.
Proof.
  intros HS. unfold set_has_tnl in HS.
  apply andb_true_iff in HS. destruct HS as [HS H13]. apply andb_true_iff in HS. destruct HS as [H9 H10].
  induction t as [|b t IH]; intros H; [reflexivity|].
  rewrite clean_cons in H. apply andb_true_iff in H. destruct H as [H1 H2].
  cbn [forallb]. rewrite (IH H2), andb_true_r. unfold kept in H1. apply negb_true_iff in H1.
  unfold not_tnl, is_tnl.
  destruct (N.eqb_spec b 9) as [->|N9]; [congruence|].
  destruct (N.eqb_spec b 10) as [->|N10]; [congruence|].
  destruct (N.eqb_spec b 13) as [->|N13]; [congruence|]. reflexivity.
Qed.

(* ---------- UTF-8 of ASCII text is the text ---------- *)
Lemma utf8_encode_ascii t : ascii t -> utf8_encode t = t.
Proof.
  induction t as [|c t IH]; intros H; [reflexivity|].
  inversion H as [|? ? Hc Ht]; subst. unfold utf8_encode. cbn [flat_map].
  fold (utf8_encode t). rewrite (IH Ht). unfold utf8_encode1. unfold is_ascii in Hc.
  replace (c <? 128) with true by lia. reflexivity.
Qed.

Lemma ascii_usv t : ascii t -> usv_list t.
Proof.
  intros H. eapply Forall_impl; [|exact H]. cbv beta. unfold is_ascii, is_usv. intros; lia.
Qed.

(* an ASCII byte of the UTF-8 form of a string is one of its characters *)
Lemma utf8_encode1_low c b : In b (utf8_encode1 c) -> b < 128 -> b = c.
Proof.
  unfold utf8_encode1. intros Hin Hb.
  destruct (c <? 128) eqn:E1; [cbn [In] in Hin; destruct Hin as [<-|[]]; reflexivity|].
  destruct (c <? 2048) eqn:E2; [cbn [In] in Hin; exfalso; lia|].
  destruct (c <? 65536) eqn:E3; cbn [In] in Hin; exfalso; lia.
Qed.

Lemma utf8_encode_low s b : In b (utf8_encode s) -> b < 128 -> In b s.
Proof.
  unfold utf8_encode. intros Hin Hb. apply in_flat_map in Hin. destruct Hin as (c & Hc & Hbc).
  rewrite (utf8_encode1_low c b Hbc Hb). exact Hc.
Qed.

(* encode S (utf8 s): every output byte satisfies Q when Q holds of '%', the hex digits and of
   the characters of s that the set keeps *)
Lemma encode_utf8_forallb S (Q : N -> bool) s :
  Q 37 = true -> (forall d, d < 16 -> Q (hex_upper d) = true) ->
  usv_list s -> Forall (fun c => kept S c = true -> Q c = true) s ->
  forallb Q (encode S (utf8_encode s)) = true.
Proof.
  intros Hp Hh Hs HQ. apply encode_forallb; [exact Hp | exact Hh | | apply utf8_encode_bytes; exact Hs].
  apply Forall_forall. intros b Hin E.
  assert (b < 128) as Hb by (apply (kept_ascii S); unfold kept; rewrite E; reflexivity).
  pose proof (utf8_encode_low s b Hin Hb) as Hin'.
  rewrite Forall_forall in HQ. apply (HQ b Hin'). unfold kept. rewrite E. reflexivity.
Qed.

(* ---------- trimming ---------- *)
Definition first_ok (l : list N) : Prop := match l with [] => True | c :: _ => is_c0_or_space c = false end.
Definition edge_ok (l : list N) : Prop := first_ok l /\ first_ok (rev l).

Lemma drop_while_first_ok f l : match l with [] => True | c :: _ => f c = false end -> drop_while f l = l.
Proof. destruct l as [|c r]; [reflexivity|]. cbn [drop_while]. intros ->. reflexivity. Qed.

Theorem trim_c0_id l : edge_ok l -> input_new_trim_c0 l = l.
Proof.
  intros [H1 H2]. unfold input_new_trim_c0, trim_matches.
  rewrite (drop_while_first_ok _ l H1), (drop_while_first_ok _ (rev l) H2). apply rev_involutive.
Qed.

Lemma drop_while_spec f l :
  exists a, l = a ++ drop_while f l /\ forallb f a = true
            /\ match drop_while f l with [] => True | c :: _ => f c = false end.
Proof.
  induction l as [|c r IH].
  - exists []. repeat split.
  - cbn [drop_while]. destruct (f c) eqn:E.
    + destruct IH as (a & H1 & H2 & H3). exists (c :: a). repeat split.
      * cbn [app]. f_equal. exact H1.
      * cbn [forallb]. rewrite E, H2. reflexivity.
      * exact H3.
    + exists []. repeat split. exact E.
Qed.

(* what Input::new hands to the parser has its first and last character above U+0020 *)
Theorem trim_c0_edge_ok l : edge_ok (input_new_trim_c0 l).
Proof.
  unfold input_new_trim_c0, trim_matches.
  destruct (drop_while_spec is_c0_or_space l) as (a & _ & _ & Hm).
  set (m := drop_while is_c0_or_space l) in *.
  destruct (drop_while_spec is_c0_or_space (rev m)) as (b & Hb & _ & Hd).
  set (d := drop_while is_c0_or_space (rev m)) in *.
  split.
  - assert (m = rev d ++ rev b) as Em.
    { rewrite <- rev_app_distr, <- Hb. symmetry. apply rev_involutive. }
    unfold first_ok. destruct (rev d) as [|x y] eqn:Er; [exact I|].
    rewrite Em in Hm. cbn [app] in Hm. exact Hm.
  - rewrite rev_involutive. exact Hd.
Qed.

(* the last character of a non-empty suffix is the last character of the whole *)
Lemma first_ok_rev_suffix a b : first_ok (rev (a ++ b)) -> first_ok (rev b).
Proof.
  rewrite rev_app_distr. unfold first_ok. destruct (rev b) as [|x y]; [intros _; exact I|].
  cbn [app]. tauto.
Qed.
