(* Proofs/C08_RelMr.v - make_relative on hierarchical records in explicit form
     hier_url pre ... segs last q f  =  pre "/" seg "/" ... "/" last ["?" q]["#" f]
   (pre = everything in front of the path): the accessors, extract_path_filename and the two split
   iterators, the common-prefix loop, the ".." loop, the rest loop and the filename rule in closed form. *)
From RU Require Import Base.Prelude Base.Utf8 Base.Utf8Facts Model.AsciiSet Gen.Tables Model.PercentEncoding
  Model.HostT Model.UrlRecord Model.Parser Model.WF Model.MakeRelative Model.KnownC08
  Proofs.ListN Proofs.C02_Enc Proofs.C02_Parts Proofs.C02_Opaque Proofs.C02_Path Proofs.C02_PathL1
  Proofs.C08_RelEval Proofs.C08_RelPath Proofs.C08_RelJoin.

Definition hier_url (pre : list N) (se ue hs he : N) (hi : host_internal) (po : option N)
           (segs : list (list N)) (last : list N) (q f : option (list N)) : url :=
  let P := pre ++ path_text segs last in
  mkUrl (P ++ qf_text q f) se ue hs he hi po (nlen pre) (qf_qs (nlen P) q) (qf_fs (nlen P) q f).

Lemma nnth_app_mid a c b : nnth (a ++ c :: b) (nlen a) = Some c.
Proof. unfold nnth, nlen. rewrite Nat2N.id. rewrite nth_error_app2 by lia. rewrite Nat.sub_diag. reflexivity. Qed.

Section Accessors.
Variables (pre : list N) (se ue hs he : N) (hi : host_internal) (po : option N).
Variables (segs : list (list N)) (last : list N) (q f : option (list N)).
Notation u := (hier_url pre se ue hs he hi po segs last q f).
Notation P := (pre ++ path_text segs last).

Lemma hier_before_query : b_before_query u = P.
Proof.
  unfold b_before_query, hier_url. cbn [query_start fragment_start ser].
  destruct q as [x|]; destruct f as [y|]; cbn [qf_qs qf_fs qf_qtext].
  - apply nfirstn_app_len.
  - apply nfirstn_app_len.
  - change (nlen []) with 0. rewrite N.add_0_r. apply nfirstn_app_len.
  - unfold qf_text. cbn [qf_qtext qf_ftext app]. apply app_nil_r.
Qed.

Lemma hier_before_fragment : b_before_fragment u = P ++ qf_qtext q.
Proof.
  unfold b_before_fragment, hier_url. cbn [fragment_start ser]. unfold qf_text.
  destruct f as [y|]; cbn [qf_fs qf_ftext].
  - rewrite app_assoc. rewrite <- nlen_app. apply nfirstn_app_len.
  - rewrite app_nil_r. reflexivity.
Qed.

Lemma hier_path : path u = Some (path_text segs last).
Proof.
  unfold path, hier_url, u_slice, u_slice_from. cbn [query_start fragment_start ser path_start].
  assert (slice_o (P ++ qf_text q f) (nlen pre) (nlen P) = Some (path_text segs last)) as Hs.
  { rewrite <- app_assoc. rewrite nlen_app. apply slice_mid. }
  destruct q as [x|]; destruct f as [y|]; cbn [qf_qs qf_fs qf_qtext].
  - exact Hs.
  - exact Hs.
  - change (nlen []) with 0. rewrite N.add_0_r. exact Hs.
  - unfold qf_text. cbn [qf_qtext qf_ftext app]. rewrite app_nil_r.
    rewrite slice_from_o_some by (rewrite nlen_app; lia). rewrite nskipn_app_len. reflexivity.
Qed.

Lemma hier_query dbg : query dbg u = Some q.
Proof.
  unfold query, hier_url, u_slice, u_slice_from, byte_is, byte_at. cbn [query_start fragment_start ser].
  destruct q as [x|]; [|destruct f; reflexivity].
  unfold qf_text. cbn [qf_qs qf_qtext].
  assert (nnth (P ++ (63 :: x) ++ qf_ftext f) (nlen P) = Some 63) as Hb by (cbn [app]; apply nnth_app_mid).
  assert ((if dbg then c <- (x0 <- nnth (P ++ (63 :: x) ++ qf_ftext f) (nlen P);; Some (x0 =? 63));; assert_o c else Some tt) = Some tt) as ->.
  { destruct dbg; [|reflexivity]. rewrite Hb. reflexivity. }
  cbn [bindo].
  destruct f as [y|]; cbn [qf_fs qf_ftext qf_qtext].
  - rewrite slice_o_some by (rewrite !nlen_app, !nlen_cons; lia).
    replace (nlen P + nlen (63 :: x) - (nlen P + 1)) with (nlen x) by (rewrite nlen_cons; lia).
    rewrite nskipn_app_add. cbn [app]. change (nskipn 1 (63 :: x ++ 35 :: y)) with (x ++ 35 :: y).
    rewrite nfirstn_app_len. reflexivity.
  - rewrite app_nil_r. rewrite slice_from_o_some by (rewrite !nlen_app, !nlen_cons; lia).
    rewrite nskipn_app_add. change (nskipn 1 (63 :: x)) with x. reflexivity.
Qed.

Lemma hier_fragment dbg : fragment dbg u = Some f.
Proof.
  unfold fragment, hier_url, u_slice_from, byte_is, byte_at. cbn [fragment_start ser].
  destruct f as [y|]; [|reflexivity]. unfold qf_text. cbn [qf_fs qf_ftext].
  assert (nnth (P ++ qf_qtext q ++ 35 :: y) (nlen P + nlen (qf_qtext q)) = Some 35) as Hb.
  { rewrite app_assoc, <- nlen_app. apply nnth_app_mid. }
  assert ((if dbg then c <- (x0 <- nnth (P ++ qf_qtext q ++ 35 :: y) (nlen P + nlen (qf_qtext q));; Some (x0 =? 35));; assert_o c else Some tt) = Some tt) as ->.
  { destruct dbg; [|reflexivity]. rewrite Hb. reflexivity. }
  cbn [bindo]. rewrite slice_from_o_some by (rewrite !nlen_app, !nlen_cons; lia).
  rewrite app_assoc, <- nlen_app. rewrite nskipn_app_add. change (nskipn 1 (35 :: y)) with y. reflexivity.
Qed.

Lemma hier_pre_of : nfirstn (nlen pre) (ser u) = pre.
Proof. unfold hier_url. cbn [ser]. rewrite <- app_assoc. apply nfirstn_app_len. Qed.

End Accessors.

(* ---------- extract_path_filename and the split iterators on a canonical path ---------- *)
Definition lead (segs : list (list N)) : list N := flat_map (fun s => 47 :: s) segs.

Lemma segs_text_lead segs : 47 :: segs_text segs = lead segs ++ [47].
Proof.
  induction segs as [|s segs IH]; [reflexivity|].
  unfold segs_text, lead. cbn [map concat flat_map]. fold (segs_text segs). fold (lead segs).
  rewrite <- !app_assoc. cbn [app]. f_equal. f_equal. exact IH.
Qed.

Lemma path_text_lead segs last : path_text segs last = lead segs ++ 47 :: last.
Proof.
  unfold path_text. change (47 :: segs_text segs ++ last) with ((47 :: segs_text segs) ++ last).
  rewrite segs_text_lead, <- app_assoc. reflexivity.
Qed.

Lemma extract_path_text segs last : no_slash last = true ->
  extract_path_filename (path_text segs last)
  = if char_boundary_1 (47 :: last) then Some (lead segs, last) else None.
Proof.
  intros Hl. unfold extract_path_filename. rewrite path_text_lead.
  rewrite rfind_app_last by (rewrite <- no_slash_no_byte; exact Hl).
  rewrite nfirstn_app_len, nskipn_app_len. reflexivity.
Qed.

Lemma split_on_aux_lead segs : forall cur, forallb no_slash segs = true ->
  split_on_aux 47 cur (lead segs) = rev cur :: segs.
Proof.
  assert (forall s cur X, no_slash s = true -> split_on_aux 47 cur (s ++ X) = split_on_aux 47 (rev s ++ cur) X) as Hseg.
  { induction s as [|c s IH]; intros cur X H; [reflexivity|].
    unfold no_slash in H. cbn [forallb] in H. apply andb_true_iff in H. destruct H as [H1 H2]. apply negb_true_iff in H1.
    cbn [app split_on_aux]. rewrite H1. rewrite IH by exact H2. cbn [rev]. rewrite <- app_assoc. reflexivity. }
  induction segs as [|s segs IH]; intros cur H; [reflexivity|].
  cbn [forallb] in H. apply andb_true_iff in H. destruct H as [H1 H2].
  unfold lead. cbn [flat_map]. fold (lead segs). cbn [app split_on_aux].
  replace (47 =? 47) with true by reflexivity. f_equal.
  rewrite Hseg by exact H1. rewrite IH by exact H2. rewrite app_nil_r, rev_involutive. reflexivity.
Qed.

Lemma split_on_lead segs : forallb no_slash segs = true -> split_on 47 (lead segs) = [] :: segs.
Proof. intros H. unfold split_on. rewrite split_on_aux_lead by exact H. reflexivity. Qed.

(* ---------- the common-prefix loop ---------- *)
Lemma skip_common_split a : forall b, exists common ra rb,
  a = common ++ ra /\ b = common ++ rb /\ skip_common a b = (ra, rb).
Proof.
  induction a as [|x a IH]; intros b.
  - exists [], [], b. repeat split.
  - destruct b as [|y b].
    + exists [], (x :: a), []. repeat split.
    + cbn [skip_common]. destruct (list_eqb x y) eqn:E.
      * apply list_eqb_spec in E. subst y. destruct (IH b) as (c & ra & rb & E1 & E2 & E3).
        exists (x :: c), ra, rb. cbn [app]. rewrite <- E1, <- E2. repeat split. exact E3.
      * exists [], (x :: a), (y :: b). repeat split.
Qed.

(* ---------- the two emitting loops and the filename rule ---------- *)
Definition nonempty (s : list N) : bool := negb (is_nil s).

Lemma push_sep_cons c l : push_sep (c :: l) = (c :: l) ++ [47].
Proof. reflexivity. Qed.

Lemma push_sep_app_cons x c l : push_sep (x ++ c :: l) = (x ++ c :: l) ++ [47].
Proof. destruct x; reflexivity. Qed.

Lemma push_sep_emit_dotdot ra : forall rel, forallb nonempty ra = true ->
  push_sep (emit_dotdot rel ra) = push_sep rel ++ dots_text ra.
Proof.
  induction ra as [|s ra IH]; intros rel H.
  - cbn [emit_dotdot dots_text map concat]. rewrite app_nil_r. reflexivity.
  - cbn [forallb] in H. apply andb_true_iff in H. destruct H as [H1 H2].
    destruct s as [|c s]; [discriminate|]. cbn [emit_dotdot]. rewrite IH by exact H2.
    change [46; 46] with ([46] ++ [46]). rewrite app_assoc. rewrite push_sep_app_cons.
    unfold dots_text. cbn [map concat]. rewrite <- !app_assoc. reflexivity.
Qed.

Lemma push_sep_emit_rest rb : forall rel, forallb nonempty rb = true ->
  push_sep (emit_rest rel rb) = push_sep rel ++ segs_text rb.
Proof.
  induction rb as [|s rb IH]; intros rel H.
  - cbn [emit_rest segs_text map concat]. rewrite app_nil_r. reflexivity.
  - cbn [forallb] in H. apply andb_true_iff in H. destruct H as [H1 H2].
    destruct s as [|c s]; [discriminate|]. cbn [emit_rest]. rewrite IH by exact H2.
    rewrite push_sep_app_cons. unfold segs_text. cbn [map concat]. rewrite <- !app_assoc. reflexivity.
Qed.

(* the path part of the reference, in closed form *)
Definition rel_path_text (ra rb : list (list N)) (bl tl : list N) : list N :=
  match ra, rb with
  | [], [] => if list_eqb bl tl then [] else if is_nil tl then [47] else tl
  | _, _ => dots_text ra ++ segs_text rb ++ tl
  end.

Lemma add_filename_eq ra rb bl tl : forallb nonempty ra = true -> forallb nonempty rb = true ->
  add_filename (emit_rest (emit_dotdot [] ra) rb) bl tl = rel_path_text ra rb bl tl.
Proof.
  intros Ha Hb. set (rel2 := emit_rest (emit_dotdot [] ra) rb).
  assert (push_sep rel2 = dots_text ra ++ segs_text rb) as Hp.
  { unfold rel2. rewrite push_sep_emit_rest by exact Hb. rewrite push_sep_emit_dotdot by exact Ha. reflexivity. }
  assert (match ra, rb with [], [] => True | _, _ => exists c l, rel2 = c :: l end) as Hne.
  { destruct ra as [|a ra'].
    - destruct rb as [|b0 rb']; [exact I|]. destruct rel2 as [|c l]; [|exists c, l; reflexivity].
      cbn [push_sep dots_text map concat app] in Hp. cbn [forallb] in Hb. destruct b0; discriminate.
    - destruct rel2 as [|c l]; [|exists c, l; reflexivity]. discriminate. }
  unfold rel_path_text.
  destruct ra as [|a ra'].
  - destruct rb as [|b0 rb'].
    + unfold add_filename. cbn [emit_dotdot emit_rest is_nil negb orb push_sep app].
      destruct (list_eqb bl tl); cbn [negb]; [reflexivity|]. destruct (is_nil tl); reflexivity.
    + destruct Hne as (c & l & E). fold rel2. rewrite app_assoc. rewrite <- Hp. rewrite E. unfold add_filename. cbn [is_nil negb orb].
      destruct tl as [|d tl']; cbn [is_nil]; [rewrite app_nil_r; reflexivity | reflexivity].
  - destruct Hne as (c & l & E). fold rel2. rewrite app_assoc. rewrite <- Hp. rewrite E. unfold add_filename. cbn [is_nil negb orb].
    destruct tl as [|d tl']; cbn [is_nil]; [rewrite app_nil_r; reflexivity | reflexivity].
Qed.

Lemma mr_path_part_hier bsegs bl tsegs tl ra rb :
  forallb no_slash bsegs = true -> forallb no_slash tsegs = true ->
  skip_common bsegs tsegs = (ra, rb) -> forallb nonempty ra = true -> forallb nonempty rb = true ->
  mr_path_part (lead bsegs) bl (lead tsegs) tl = rel_path_text ra rb bl tl.
Proof.
  intros Hb Ht Hs Ha Hr. unfold mr_path_part. rewrite !split_on_lead by assumption.
  cbn [skip_common list_eqb]. rewrite Hs. apply add_filename_eq; assumption.
Qed.

(* ---------- inversion of make_relative ---------- *)
Lemma make_relative_inv dbg b t r pb pt q f : make_relative dbg b t = Some (Some r) ->
  path b = Some pb -> path t = Some pt -> query dbg t = Some q -> fragment dbg t = Some f ->
  exists eb et, extract_path_filename pb = Some eb /\ extract_path_filename pt = Some et
    /\ r = mr_path_part (fst eb) (snd eb) (fst et) (snd et) ++ qf_text q f.
Proof.
  intros H Pb Pt Q F. unfold make_relative in H.
  destruct (cannot_be_a_base b) as [cb|]; cbn [bindo] in H; [|discriminate].
  destruct (if cb then Some true else cannot_be_a_base t) as [ct|]; cbn [bindo] in H; [|discriminate].
  destruct (cb || ct); [discriminate|].
  destruct (scheme b) as [sb|]; cbn [bindo] in H; [|discriminate].
  destruct (scheme t) as [st|]; cbn [bindo] in H; [|discriminate].
  destruct (negb (list_eqb sb st)); [discriminate|].
  destruct (host_of b) as [hb|]; cbn [bindo] in H; [|discriminate].
  destruct (host_of t) as [ht|]; cbn [bindo] in H; [|discriminate].
  destruct (negb (mr_opt_host_eqb hb ht)); [discriminate|].
  destruct (negb (opt_eqb (port b) (port t))); [discriminate|].
  rewrite Pb, Pt in H. cbn [bindo] in H.
  destruct (extract_path_filename pb) as [eb|]; cbn [bindo] in H; [|discriminate].
  destruct (extract_path_filename pt) as [et|]; cbn [bindo] in H; [|discriminate].
  rewrite Q in H. cbn [bindo] in H. rewrite F in H. cbn [bindo] in H.
  exists eb, et. split; [reflexivity|]. split; [reflexivity|].
  inversion H. unfold qf_text. destruct q; destruct f; cbn [qf_qtext qf_ftext app]; rewrite ?app_nil_r, <- ?app_assoc; reflexivity.
Qed.

(* ---------- records behind an authority ---------- *)
Lemma hier_cbb pre se ue hs he hi po segs last q f : front_pre se pre ->
  cannot_be_a_base (hier_url pre se ue hs he hi po segs last q f) = Some false.
Proof.
  intros [(A & R & -> & <-)|(A & -> & <-)]; unfold cannot_be_a_base, u_slice_from, hier_url; cbn [ser scheme_end].
  - rewrite slice_from_o_some by (rewrite !nlen_app; unfold nlen; cbn [length]; lia).
    rewrite <- !app_assoc. rewrite nskipn_app_add. reflexivity.
  - rewrite slice_from_o_some by (rewrite !nlen_app; unfold nlen; cbn [length]; lia).
    rewrite <- !app_assoc. rewrite nskipn_app_add. reflexivity.
Qed.

Lemma hier_b_scheme pre se ue hs he hi po segs last q f : front_pre se pre ->
  b_scheme (hier_url pre se ue hs he hi po segs last q f) = nfirstn se pre.
Proof.
  intros [(A & R & -> & <-)|(A & -> & <-)]; unfold b_scheme, hier_url; cbn [ser scheme_end];
    rewrite <- !app_assoc; rewrite !nfirstn_app_len; reflexivity.
Qed.

(* ---------- what MR_ok says about two such records with the same front ---------- *)
Lemma existsb_nil_nonempty l : existsb is_nil l = false -> forallb nonempty l = true.
Proof.
  induction l as [|s l IH]; intros H; [reflexivity|]. cbn [existsb] in H. apply orb_false_iff in H. destruct H as [H1 H2].
  cbn [forallb]. unfold nonempty at 1. rewrite H1, (IH H2). reflexivity.
Qed.

Lemma mr_ok_hier pre se ue hs he hi po se' ue' hs' he' hi' po' bsegs blast bq bf tsegs tlast tq tf :
  cannot_be_a_base (hier_url pre se ue hs he hi po bsegs blast bq bf) = Some false ->
  cannot_be_a_base (hier_url pre se' ue' hs' he' hi' po' tsegs tlast tq tf) = Some false ->
  forallb no_slash bsegs = true -> no_slash blast = true -> forallb no_slash tsegs = true -> no_slash tlast = true ->
  mr_ok (hier_url pre se ue hs he hi po bsegs blast bq bf) (hier_url pre se' ue' hs' he' hi' po' tsegs tlast tq tf) = true ->
  forallb nonempty bsegs = true /\ forallb nonempty tsegs = true
  /\ existsb starts_with_wdl
       (if st_is_file (scheme_type_of (b_scheme (hier_url pre se ue hs he hi po bsegs blast bq bf)))
        then ([] :: bsegs) ++ ([] :: tsegs) ++ [blast; tlast] else fst (skip_common bsegs tsegs)) = false
  /\ forall ra rb, skip_common bsegs tsegs = (ra, rb) ->
       (ra = [] -> rb = [] -> list_eqb blast tlast = false -> tlast = [] -> bsegs = [])
       /\ (ra = [] -> has_scheme_b (match rb with s :: _ => s | [] => if list_eqb blast tlast then [] else tlast end) = false)
       /\ (ra = [] -> rb = [] -> list_eqb blast tlast = true -> tq = None -> bq = None).
Proof.
  intros Hcb1 Hcb2 Hb Hbl Ht Htl H. unfold mr_ok, mr_class in H.
  rewrite Hcb1, Hcb2 in H.
  rewrite !hier_path in H.
  change (path_start (hier_url pre se ue hs he hi po bsegs blast bq bf)) with (nlen pre) in H.
  change (path_start (hier_url pre se' ue' hs' he' hi' po' tsegs tlast tq tf)) with (nlen pre) in H.
  rewrite !hier_pre_of in H. rewrite list_eqb_refl in H. cbn [negb] in H.
  change (starts_with [47] (path_text bsegs blast)) with true in H.
  change (starts_with [47] (path_text tsegs tlast)) with true in H. cbn [andb negb] in H.
  rewrite !extract_path_text in H by assumption.
  destruct (char_boundary_1 (47 :: blast)); [|exfalso; lia].
  destruct (char_boundary_1 (47 :: tlast)); [|exfalso; lia].
  rewrite !split_on_lead in H by assumption. cbn [tl] in H.
  destruct (existsb is_nil bsegs) eqn:E1; [exfalso; cbn [orb] in H; lia|].
  destruct (existsb is_nil tsegs) eqn:E2; [exfalso; cbn [orb] in H; lia|]. cbn [orb] in H.
  destruct (existsb is_dotty (tsegs ++ [tlast])); [exfalso; lia|].
  cbn [skip_common list_eqb] in H.
  destruct (existsb starts_with_wdl
              (if st_is_file (scheme_type_of (b_scheme (hier_url pre se ue hs he hi po bsegs blast bq bf)))
               then ([] :: bsegs) ++ ([] :: tsegs) ++ [blast; tlast] else fst (skip_common bsegs tsegs))) eqn:E3; [exfalso; lia|].
  split; [apply existsb_nil_nonempty; exact E1|]. split; [apply existsb_nil_nonempty; exact E2|]. split; [reflexivity|].
  intros ra rb Es. rewrite Es in H.
  change (query_start (hier_url pre se' ue' hs' he' hi' po' tsegs tlast tq tf)) with (qf_qs (nlen (pre ++ path_text tsegs tlast)) tq) in H.
  change (query_start (hier_url pre se ue hs he hi po bsegs blast bq bf)) with (qf_qs (nlen (pre ++ path_text bsegs blast)) bq) in H.
  split; [|split].
  - intros -> -> El ->. cbn [nil_segs andb is_nil negb] in H. rewrite El in H. cbn [negb andb length] in H.
    destruct bsegs as [|s0 bs]; [reflexivity|]. exfalso. cbn [length] in H.
    destruct (1 <? N.of_nat (S (S (length bs)))) eqn:E; [lia|].
    apply N.ltb_ge in E. rewrite !Nat2N.inj_succ in E. clear - E. lia.
  - intros ->. cbn [nil_segs andb] in H.
    destruct (nil_segs rb && negb (list_eqb blast tlast) && is_nil tlast && (1 <? N.of_nat (length ([] :: bsegs)))); [exfalso; lia|].
    destruct rb as [|s rb'].
    + cbn [nil_segs andb] in H.
      destruct (has_scheme_b (if list_eqb blast tlast then [] else tlast)); [exfalso; lia | reflexivity].
    + cbn [nil_segs andb] in H. destruct (has_scheme_b s); [exfalso; lia | reflexivity].
  - intros -> -> El ->. cbn [nil_segs andb] in H. rewrite El in H. cbn [negb andb] in H.
    change (has_scheme_b []) with false in H. cbn iota in H.
    destruct bq as [x|]; [|reflexivity]. exfalso. cbn [qf_qs andb] in H. lia.
Qed.
