(* Proofs/C09_Inst2.v - theorems that were stated for the linked model relative to IdnaOK (false of the real idna
   crate, F-C10-1), re-stated for the REAL oracle: premise IdnaOK2 + a cleanliness premise on the RESULT
   (res_clean, Proofs/C09_RunClean.v) or on the history (histories of the capped model = clean histories).
   Each is the old theorem at the capped oracle (IdnaOK2 idna -> IdnaOK (cap idna)) + agreement of the runs. *)
From RU Require Import Base.Prelude Base.Utf8 Base.Utf8Facts Model.AsciiSet Gen.Tables Model.PercentEncoding
  Model.HostT Model.Host Model.UrlRecord Model.Parser Model.Setters Model.WF
  Proofs.C09_Wf Proofs.C09_Host Proofs.C09_Inst Proofs.C09_InstWf Proofs.C09_Long Proofs.C09_LongRun Proofs.C09_LongHist
  Proofs.C09_RunClean Proofs.C05_HostParse.
From RU Require Proofs.C02_Reach Proofs.C02_Reach3 Proofs.C03_ParseFront Proofs.C06_Main Proofs.C05_Alphabet Proofs.C05_Sharp Proofs.C05_HostText Proofs.C02_AuthMain Proofs.C02_Reach5 Proofs.C03_ReachModel Proofs.C03_ReachFull
  Proofs.C05_ReachF Proofs.C05_HostInst Proofs.C05_Comp Proofs.C05_CompSteps Proofs.C04_ParseTotal Proofs.C05_BaseOk Proofs.C06_Suffix Proofs.Inst_Host.

Section Inst2.
Variable dbg : bool.
Variable idna : list N -> option (list N).
Hypothesis OK : IdnaOK2 idna.
Let OKc : IdnaOK (cap idna) := IdnaOK2_cap idna OK.

Notation hp := (host_parse idna).
Notation hpc := (host_parse (cap idna)).
Notation hpo := host_parse_opaque.
Notation hd := host_display.

Lemma base_ok_wf b : C04_ParseTotal.base_ok b = true -> wf_b b = true.
Proof. intros H. exact (proj1 (proj1 (C05_BaseOk.base_ok_iff b) H)). Qed.

(* the capped run of a successful run with a clean result *)
Lemma capped_run ovr base input u : match base with Some b => wf_b b = true | None => True end ->
  parse_url dbg hp hpo hd ovr base input = POk u -> res_clean u = true ->
  parse_url dbg hpc hpo hd ovr base input = POk u.
Proof. intros Hb H C. exact (run_clean_ok dbg idna ovr base input u H (run_clean_of_result dbg idna OK ovr base input u Hb H C)). Qed.

(* C03: every record the parser linked with the ORACLE ITSELF returns, with a clean result, is well formed *)
Theorem parse_wf_model2 ovr base input u :
  match base with Some b => C04_ParseTotal.base_ok b = true /\ C06_Suffix.host_text_ok b | None => True end ->
  parse_url dbg hp hpo hd ovr base input = POk u -> res_clean u = true ->
  wf_b u = true /\ C06_Suffix.host_text_ok u.
Proof.
  intros Hb H C. apply (parse_wf_model dbg (cap idna) OKc ovr base input u Hb).
  apply capped_run; [destruct base as [b|]; [exact (base_ok_wf b (proj1 Hb)) | exact I] | exact H | exact C].
Qed.

(* C05: every parse result is again a possible base *)
Theorem parse_base_ok_model2 ovr base input u :
  match base with Some b => C04_ParseTotal.base_ok b = true /\ C06_Suffix.host_text_ok b | None => True end ->
  parse_url dbg hp hpo hd ovr base input = POk u -> res_clean u = true ->
  C04_ParseTotal.base_ok u = true /\ C06_Suffix.host_text_ok u.
Proof.
  intros Hb H C. apply (parse_base_ok_model dbg (cap idna) OKc ovr base input u Hb).
  apply capped_run; [destruct base as [b|]; [exact (base_ok_wf b (proj1 Hb)) | exact I] | exact H | exact C].
Qed.

(* C05: the component invariant and the five component clauses of the property text *)
Theorem parse_components_model2 dbg' ovr base input u :
  match base with Some b => C05_CompSteps.CInv dbg' b /\ C04_ParseTotal.base_ok b = true | None => True end ->
  parse_url dbg hp hpo hd ovr base input = POk u -> res_clean u = true ->
  C05_CompSteps.CInv dbg' u /\ C05_Comp.components_clean dbg' u.
Proof.
  intros Hb H C. apply (parse_components_model dbg (cap idna) OKc dbg' ovr base input u Hb).
  apply capped_run; [destruct base as [b|]; [exact (base_ok_wf b (proj2 Hb)) | exact I] | exact H | exact C].
Qed.

(* C02, classes (i)-(iv), the per-run premise replaced by the host text of the result *)
Theorem reparse_nonfile_res input u : usv_list input -> C02_AuthMain.nonfile_input input = true ->
  parse_url dbg hp hpo hd None None input = POk u -> b_scheme u <> s_file -> known_c10_long (ht u) = false ->
  parse_url dbg hp hpo hd None None (utf8_lossy (ser u)) = POk u /\ run_clean dbg idna None None (utf8_lossy (ser u))
  /\ wf_b u = true /\ ascii (ser u).
Proof.
  intros Hu Hc Hp Hn K.
  exact (reparse_nonfile_model2 dbg idna OK input u Hu Hc Hp (run_clean_of_result_nonfile dbg idna OK None None input u I Hp Hn K)).
Qed.
End Inst2.

(* ---------- whole histories: the histories of the CAPPED model (= the histories of the model on which no host is in
   the class, C09_cap_history) ---------- *)
Section Hist2.
Variable dbg : bool.
Variable idna : list N -> option (list N).
Hypothesis OK : IdnaOK2 idna.
Let OKc : IdnaOK (cap idna) := IdnaOK2_cap idna OK.

Notation hp := (host_parse idna).
Notation hpc := (host_parse (cap idna)).
Notation hpo := host_parse_opaque.
Notation hd := host_display.

(* C03_reachability_full_model *)
Theorem reach3_model2 u : C02_Reach3.Reachable3 dbg hpc hpo hd u -> C03_ParseFront.inv03 u.
Proof. exact (C03_ReachModel.reach3_model dbg (cap idna) OKc u). Qed.

(* C05_reachF_model: the property text of C05 *)
Theorem reachF_model2 u : C05_ReachF.CReachF dbg hpc hpo hd u ->
  (C06_Main.wfh u /\ C05_Comp.components_clean dbg u) /\ C05_Alphabet.alphabet_ok u /\ C05_Sharp.sharp u
  /\ C04_ParseTotal.base_ok u = true
  /\ (C05_HostText.spb u = true -> forall s, host_str u = Some (Some s) -> C05_HostInst.host_text_clean s).
Proof.
  intros R. split; [exact (C05_HostInst.reachF_components_model (cap idna) OKc dbg u R)|].
  split; [exact (C05_HostInst.reachF_alphabet_model (cap idna) OKc dbg u R)|].
  split; [exact (C05_HostInst.reachF_sharp_model (cap idna) OKc dbg u R)|].
  split; [exact (proj1 (C05_HostInst.reachF_base_ok_model (cap idna) OKc dbg u R))
         | exact (C05_HostInst.reachF_host_clean_model (cap idna) OKc dbg u R)].
Qed.

(* C02_reach_partial4_model: the re-parse is a run with the oracle ITSELF, and a clean one *)
Theorem reach_partial4_model2 u : C02_Reach5.ReachC4 dbg hpc hpo hd u ->
  parse_url dbg hp hpo hd None None (utf8_lossy (ser u)) = POk u /\ run_clean dbg idna None None (utf8_lossy (ser u))
  /\ wf_b u = true /\ ascii (ser u).
Proof.
  intros R. destruct (C02_Reach5.reach_partial4_model dbg (cap idna) OKc u R) as (F & W & A).
  unfold C02_Reach.Fixpoint_of_reparse, C02_Reach.reparse in F.
  destruct (parse_url_cap_ok dbg idna None None _ u F) as [F' C]. repeat split; assumption.
Qed.
End Hist2.
