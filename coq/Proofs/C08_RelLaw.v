(* Proofs/C08_RelLaw.v - the make_relative inverse law for hierarchical records ("scheme://..." with
   authority, or "scheme:/path" without authority and without the "/." marker), every scheme except "file":  inside MR_ok, join(base, make_relative(base, target)) = target.
   Both records in explicit form (hier_url), sharing everything in front of the path; the target's
   segments, query and fragment canonical (what the parser stores), the base's path only free of stray '/'. *)
From RU Require Import Base.Prelude Base.Utf8 Base.Utf8Facts Model.AsciiSet Gen.Tables Model.PercentEncoding
  Model.HostT Model.UrlRecord Model.Parser Model.Setters Model.WF Model.MakeRelative Model.KnownC08
  Proofs.ListN Proofs.C14_Enc Proofs.C02_Enc Proofs.C02_Parts Proofs.C02_Opaque Proofs.C02_Path Proofs.C02_PathL1
  Proofs.C08_Input Proofs.C08_Simple Proofs.C08_Contain Proofs.C08_RelEval Proofs.C08_RelPath Proofs.C08_RelJoin
  Proofs.C08_RelMr.

(* ---------- the scheme test on the first emitted segment ---------- *)
Definition sep_head (rest : list N) : Prop :=
  match rest with [] => True | c :: _ => c = 47 \/ c = 63 \/ c = 35 end.

Lemma scheme_tail_app s rest : scheme_tail_b s = false -> sep_head rest -> scheme_tail_b (s ++ rest) = false.
Proof.
  intros H Hr. induction s as [|c s IH].
  - cbn [app]. destruct rest as [|d r]; [reflexivity|]. cbn [scheme_tail_b].
    destruct Hr as [ -> | [ -> | -> ] ]; reflexivity.
  - cbn [app scheme_tail_b] in *. destruct (is_alnum c || (c =? 43) || (c =? 45) || (c =? 46)); [exact (IH H) | exact H].
Qed.

Lemma has_scheme_app s rest : has_scheme_b s = false -> sep_head rest -> has_scheme_b (s ++ rest) = false.
Proof.
  intros H Hr. destruct s as [|c s].
  - cbn [app]. destruct rest as [|d r]; [reflexivity|]. unfold has_scheme_b.
    destruct Hr as [ -> | [ -> | -> ] ]; reflexivity.
  - unfold has_scheme_b in *. cbn [app]. destruct (is_alpha c); [|reflexivity]. cbn [andb] in *.
    change (c :: s ++ rest) with ((c :: s) ++ rest). apply scheme_tail_app; assumption.
Qed.

Lemma qf_text_sep q f : sep_head (qf_text q f).
Proof. unfold qf_text, sep_head. destruct q; destruct f; cbn; auto. Qed.

(* ---------- drive-letter shapes ---------- *)
Lemma wdl_snoc s : starts_with_wdl (s ++ [47]) = starts_with_wdl s.
Proof.
  destruct s as [|a [|b [|c r]]]; cbn [app starts_with_wdl]; try reflexivity.
  replace ((47 =? 58) || (47 =? 124)) with false by reflexivity. rewrite andb_false_r. reflexivity.
Qed.

Lemma existsb_false_forall {A} (f : A -> bool) l : existsb f l = false -> forall x, In x l -> f x = false.
Proof.
  intros H x Hin. destruct (f x) eqn:E; [|reflexivity].
  assert (existsb f l = true) by (apply existsb_exists; exists x; split; assumption). congruence.
Qed.

(* ---------- the first character of the path part ---------- *)
Lemma seg_ok_head st c s : seg_ok st (c :: s) = true -> seg_char c = true /\ no_spec_bslash st c = true.
Proof.
  intros H. destruct (seg_ok_parts st _ H) as [Hg Hb]. apply good_seg_chars in Hg.
  cbn [forallb] in Hg, Hb. apply andb_true_iff in Hg, Hb. split; tauto.
Qed.

Lemma rp_head st ra rb tlast :
  forallb nonempty rb = true -> forallb (seg_ok st) rb = true -> seg_ok st tlast = true ->
  (ra <> [] \/ rb <> [] \/ tlast <> []) ->
  exists c rp', dots_text ra ++ segs_text rb ++ tlast = c :: rp' /\ seg_char c = true /\ no_spec_bslash st c = true.
Proof.
  intros Hne Hrb Htl Hsome. destruct ra as [|a ra].
  - destruct rb as [|s rb].
    + destruct tlast as [|c l]; [exfalso; destruct Hsome as [H|[H|H]]; apply H; reflexivity|].
      exists c, l. split; [reflexivity|]. apply (seg_ok_head st c l). exact Htl.
    + cbn [forallb] in Hne, Hrb. apply andb_true_iff in Hne, Hrb. destruct Hne as [Hn _]. destruct Hrb as [Hs _].
      destruct s as [|c s]; [discriminate|].
      exists c, (s ++ [47] ++ segs_text rb ++ tlast). split.
      * unfold segs_text. cbn [dots_text map concat app]. rewrite <- !app_assoc. reflexivity.
      * apply (seg_ok_head st c s). exact Hs.
  - exists 46, ([46; 47] ++ dots_text ra ++ segs_text rb ++ tlast). split; [|split; reflexivity].
    unfold dots_text. cbn [map concat app]. reflexivity.
Qed.

Record rel_ok (pre : list N) (se : N) (bsegs : list (list N)) (blast : list N)
              (tsegs : list (list N)) (tlast : list N) (tq tf : option (list N)) : Prop := mk_rel_ok {
  ro_front : front_pre se pre;
  ro_nofile : st_is_file (scheme_type_of (nfirstn se pre)) = false;
  ro_bsegs : forallb no_slash bsegs = true;
  ro_blast : no_slash blast = true;
  ro_tsegs : forallb (seg_ok (scheme_type_of (nfirstn se pre))) tsegs = true;
  ro_tlast : seg_ok (scheme_type_of (nfirstn se pre)) tlast = true;
  ro_q : opt_clean (query_set (scheme_type_of (nfirstn se pre))) tq;
  ro_f : opt_clean T_FRAGMENT tf;
  ro_bq : opt_le (qf_qs (nlen (pre ++ path_text tsegs tlast)) tq) U32_MAX_P;
  ro_bf : opt_le (qf_fs (nlen (pre ++ path_text tsegs tlast)) tq tf) U32_MAX_P
}.

Lemma segs_ok_no_slash st segs : forallb (seg_ok st) segs = true -> forallb no_slash segs = true.
Proof.
  apply forallb_impl. intros s H. destruct (seg_ok_parts st s H) as [Hg _].
  destruct (good_seg_parts s Hg) as (_ & Hn & _). exact Hn.
Qed.

(* a path whose segments are non-empty does not start with "//" *)
Lemma path_no_ss segs last : forallb nonempty segs = true -> forallb no_slash segs = true -> no_slash last = true ->
  starts_with s_ss (47 :: segs_text segs ++ last) = false.
Proof.
  intros Hn Hs Hl. unfold s_ss. cbn [starts_with]. replace (47 =? 47) with true by reflexivity. cbn [andb].
  destruct segs as [|s segs].
  - cbn [segs_text map concat app]. destruct last as [|c l]; [reflexivity|].
    unfold no_slash in Hl. cbn [forallb] in Hl. apply andb_true_iff in Hl. destruct Hl as [Hc _]. apply negb_true_iff in Hc.
    rewrite N.eqb_sym, Hc. reflexivity.
  - cbn [forallb] in Hn, Hs. apply andb_true_iff in Hn, Hs. destruct Hn as [Hn _]. destruct Hs as [Hs _].
    destruct s as [|c s]; [discriminate|]. unfold segs_text. cbn [map concat app].
    unfold no_slash in Hs. cbn [forallb] in Hs. apply andb_true_iff in Hs. destruct Hs as [Hc _]. apply negb_true_iff in Hc.
    rewrite N.eqb_sym, Hc. reflexivity.
Qed.

Lemma front_for_of se pre X : front_pre se pre -> starts_with s_ss X = false -> front_for se pre X.
Proof. intros [H|H] Hx; [left; exact H | right; split; assumption]. Qed.

Lemma forallb_app_r {A} (f : A -> bool) a b : forallb f (a ++ b) = true -> forallb f b = true.
Proof. rewrite forallb_app. intros H. apply andb_true_iff in H. tauto. Qed.

Section Law.
Variables (dbg : bool) (hp hpo : list N -> result host) (hd : host -> list N).
Notation join b input := (parse_url dbg hp hpo hd None (Some b) input).

Theorem relative_hier pre se ue hs he hi po bsegs blast bq bf tsegs tlast tq tf r :
  rel_ok pre se bsegs blast tsegs tlast tq tf ->
  mr_ok (hier_url pre se ue hs he hi po bsegs blast bq bf) (hier_url pre se ue hs he hi po tsegs tlast tq tf) = true ->
  make_relative dbg (hier_url pre se ue hs he hi po bsegs blast bq bf)
                    (hier_url pre se ue hs he hi po tsegs tlast tq tf) = Some (Some r) ->
  join (hier_url pre se ue hs he hi po bsegs blast bq bf) r
  = POk (hier_url pre se ue hs he hi po tsegs tlast tq tf).
Proof.
  intros K Hok Hmr. destruct K as [Hfa Hnf Hbs Hbl Hts Htl Hq Hf Bq Bf].
  set (st := scheme_type_of (nfirstn se pre)) in *.
  pose proof (segs_ok_no_slash st tsegs Hts) as Htn.
  destruct (good_seg_parts tlast (proj1 (seg_ok_parts st tlast Htl))) as (_ & Htln & _).
  destruct (mr_ok_hier pre se ue hs he hi po se ue hs he hi po bsegs blast bq bf tsegs tlast tq tf
              (hier_cbb _ _ _ _ _ _ _ _ _ _ _ Hfa) (hier_cbb _ _ _ _ _ _ _ _ _ _ _ Hfa) Hbs Hbl Htn Htln Hok)
    as (Nb & Nt & Hw & Hrest).
  destruct (skip_common_split bsegs tsegs) as (common & ra & rb & Eb & Et & Es).
  rewrite hier_b_scheme in Hw by exact Hfa. fold st in Hw. rewrite Hnf, Es in Hw. cbn [fst] in Hw.
  destruct (Hrest ra rb Es) as (F1 & F2 & F3). clear Hrest.
  assert (forallb nonempty ra = true) as Nra by (rewrite Eb in Nb; exact (forallb_app_r _ _ _ Nb)).
  assert (forallb nonempty rb = true) as Nrb by (rewrite Et in Nt; exact (forallb_app_r _ _ _ Nt)).
  assert (forallb (seg_ok st) rb = true) as Hrb by (rewrite Et in Hts; exact (forallb_app_r _ _ _ Hts)).
  assert (forallb no_slash ra = true) as Hra by (rewrite Eb in Hbs; exact (forallb_app_r _ _ _ Hbs)).
  (* the reference in closed form *)
  destruct (make_relative_inv dbg _ _ r _ _ _ _ Hmr
              (hier_path pre se ue hs he hi po bsegs blast bq bf) (hier_path pre se ue hs he hi po tsegs tlast tq tf)
              (hier_query pre se ue hs he hi po tsegs tlast tq tf dbg) (hier_fragment pre se ue hs he hi po tsegs tlast tq tf dbg))
    as (eb & et & Eeb & Eet & Er).
  rewrite extract_path_text in Eeb, Eet by assumption.
  destruct (char_boundary_1 (47 :: blast)); [|discriminate]. destruct (char_boundary_1 (47 :: tlast)); [|discriminate].
  inversion Eeb; subst eb. inversion Eet; subst et. clear Eeb Eet. cbn [fst snd] in Er.
  rewrite (mr_path_part_hier bsegs blast tsegs tlast ra rb Hbs Htn Es Nra Nrb) in Er.
  clear Hmr Hok.
  set (b := hier_url pre se ue hs he hi po bsegs blast bq bf) in *.
  set (t := hier_url pre se ue hs he hi po tsegs tlast tq tf) in *.
  assert (b_st b = st) as Hbst by (unfold b_st, b; rewrite hier_b_scheme by exact Hfa; reflexivity).
  assert (cannot_be_a_base b = Some false) as Hcb by (apply hier_cbb; exact Hfa).
  assert (b_before_query b = Bs pre (common ++ ra) ++ blast) as Hbq
    by (unfold b; rewrite hier_before_query, hier_P_Bs, Eb; reflexivity).
  assert (pre ++ path_text tsegs tlast = Bs pre (common ++ rb) ++ tlast) as EP by (rewrite hier_P_Bs, Et; reflexivity).
  (* the arm with a path part *)
  assert ((ra <> [] \/ rb <> [] \/ (tlast <> [] /\ list_eqb blast tlast = false)) ->
          join b ((dots_text ra ++ segs_text rb ++ tlast) ++ qf_text tq tf) = POk t) as Hpath.
  { intros Hsome.
    destruct (rp_head st ra rb tlast Nrb Hrb Htl) as (c & rp' & Erp & Hc & Hcbs); [tauto|].
    assert (forallb not_wdl_seg ra = true) as Hwra.
    { apply forallb_forall. intros x Hx. unfold not_wdl_seg. rewrite wdl_snoc. apply negb_true_iff.
      apply (existsb_false_forall _ _ Hw). exact Hx. }
    assert (has_scheme_b ((dots_text ra ++ segs_text rb ++ tlast) ++ qf_text tq tf) = false) as Hsch.
    { destruct ra as [|a ra'].
      - specialize (F2 eq_refl). destruct rb as [|s rb'].
        + destruct Hsome as [H|[H|[_ El]]]; try (exfalso; apply H; reflexivity). rewrite El in F2.
          cbn [dots_text segs_text map concat app]. apply has_scheme_app; [exact F2 | apply qf_text_sep].
        + unfold segs_text. cbn [dots_text map concat app]. rewrite <- !app_assoc. cbn [app].
          apply has_scheme_app; [exact F2 | left; reflexivity].
      - unfold dots_text. cbn [map concat app]. reflexivity. }
    pose proof (join_rel_path dbg hp hpo hd b pre common ra rb blast tlast tq tf c rp') as J.
    rewrite Hbst in J. rewrite <- EP in J.
    assert (front_for se pre (47 :: segs_text (common ++ rb) ++ tlast)) as Hff.
    { apply front_for_of; [exact Hfa|]. rewrite <- Et. apply path_no_ss; assumption. }
    specialize (J eq_refl Hbq Hcb Hnf Hff Hbl Hra Hwra Hrb Htl Hq Hf Erp Hc Hcbs Hsch Bq Bf).
    rewrite J. reflexivity. }
  subst r. unfold rel_path_text.
  destruct ra as [|a ra'].
  - destruct rb as [|s rb'].
    + rewrite app_nil_r in Eb, Et. subst bsegs tsegs.
      destruct (list_eqb blast tlast) eqn:El.
      * (* same path: the reference is [?q][#f] *)
        apply list_eqb_spec in El. subst tlast. cbn [app].
        destruct tq as [x|].
        -- pose proof (join_rel_query dbg hp hpo hd b x tf) as J. rewrite Hbst in J.
           cbv zeta in J. assert (b_before_query b = pre ++ path_text common blast) as Hbq2 by (unfold b; apply hier_before_query).
           rewrite Hbq2 in J.
           cbn [qf_qs opt_le] in Bq. specialize (J Hcb Hnf Hq Hf Bq Bf). rewrite J. reflexivity.
        -- specialize (F3 eq_refl eq_refl eq_refl eq_refl). subst bq.
           destruct tf as [y|].
           ++ cbn [qf_text qf_qtext qf_ftext app].
              assert (forallb above_space (35 :: y) = true) as Hab
                by (cbn [forallb]; rewrite (clean_forallb _ _ y kept_FRAGMENT_above Hf); reflexivity).
              rewrite (join_frag dbg hp hpo hd b (35 :: y) y).
              ** unfold with_fragment, b. rewrite hier_before_fragment.
                 rewrite utf8_encode_ascii by (apply (clean_ascii T_FRAGMENT); exact Hf).
                 rewrite encode_clean by exact Hf. unfold t, hier_url, url_with, qf_text. cbn [qf_qtext qf_ftext qf_qs qf_fs app].
                 rewrite !app_nil_r. change (nlen []) with 0. rewrite N.add_0_r. reflexivity.
              ** apply ascii_usv. constructor; [unfold is_ascii; lia | apply (clean_ascii T_FRAGMENT); exact Hf].
              ** unfold ref_text. rewrite trim_c0_id by (apply all_above_edge; exact Hab).
                 change (filter (fun c => negb (is_tnl c)) (35 :: y)) with (ntnl (35 :: y)). apply above_ntnl. exact Hab.
              ** unfold b. rewrite hier_before_fragment. cbn [qf_qtext]. rewrite app_nil_r.
                 cbn [qf_fs qf_qtext opt_le] in Bf. change (nlen []) with 0 in Bf. lia.
           ++ cbn [qf_text qf_qtext qf_ftext app].
              rewrite (join_empty dbg hp hpo hd b [] Hcb eq_refl).
              unfold without_fragment, b. rewrite hier_before_fragment. reflexivity.
      * destruct tlast as [|c l]; cbn [is_nil].
        -- (* "/" at the root *)
           specialize (F1 eq_refl eq_refl eq_refl eq_refl). subst common.
           pose proof (join_rel_root dbg hp hpo hd b pre tq tf) as J. rewrite Hbst in J.
           specialize (J eq_refl (hier_pre_of pre se ue hs he hi po [] blast bq bf) Hcb Hnf
                         (front_for_of se pre [47] Hfa eq_refl) Hq Hf Bq Bf).
           cbn [app]. rewrite J. unfold t, b, hier_url, url_with.
           cbn [scheme_end username_end host_start host_end hosti port path_start path_text segs_text map concat app].
           reflexivity.
        -- change ((c :: l) ++ qf_text tq tf) with ((dots_text [] ++ segs_text [] ++ c :: l) ++ qf_text tq tf).
           apply Hpath. right. right. split; [discriminate | reflexivity].
    + apply Hpath. right. left. discriminate.
  - apply Hpath. left. discriminate.
Qed.

End Law.
