(* Proofs/C06_All.v - the assembly: a reachability relation ReachC6 (C02's ReachC2 - parse of a non-file input,
   tail joins, the ten canonical setters / quirks wrappers, query_pairs_mut sessions - extended by set_path and
   set_host(Some) steps on URLs with an authority), every record of which is Canon (C02), hence wfh and
   auth_end_ok; and for every canonical record and every call of set_fragment / set_query / set_port /
   set_password / set_username / set_path / set_host(Some): the result is canonical again, the frame condition,
   get-after-set and - for arguments in the stated classes - whole-URL parser agreement. *)
From Coq Require Import String.
From RU Require Import Proofs.C15_Ser.
From RU Require Import Base.Prelude Base.Utf8 Base.Utf8Facts Base.Outcome_c15 Model.AsciiSet Gen.Tables
  Model.PercentEncoding Model.HostT Model.UrlRecord Model.Parser Model.Setters Model.WF Model.FormUrlencoded
  Model.QueryPairs
  Proofs.ListN Proofs.C03_WF Proofs.C06_List Proofs.C06_WFI Proofs.C06_Tail Proofs.C06_Steps Proofs.C06_Suffix
  Proofs.C06_Front Proofs.C06_Atomic Proofs.C06_FragQuery Proofs.C06_Port Proofs.C06_Cred Proofs.C06_Scheme
  Proofs.C06_HostNone Proofs.C06_Host Proofs.C06_PathParser Proofs.C06_Path Proofs.C06_Segments Proofs.C06_PathNoAuth
  Proofs.C06_Main Proofs.C03_ReachParts Proofs.C03_ReachHost Proofs.C06_Quirks
  Proofs.C14_Set Proofs.C02_Enc Proofs.C02_Parts Proofs.C02_Opaque Proofs.C02_Path Proofs.C02_PathL1 Proofs.C02_Reach
  Proofs.C02_AuthParts Proofs.C02_Auth Proofs.C02_AuthWf Proofs.C02_PathSp Proofs.C02_AuthSp Proofs.C02_AuthMain
  Proofs.C02_Hist Proofs.C02_SetQF Proofs.C02_Canon Proofs.C02_SetPort Proofs.C02_JoinTail Proofs.C02_ReachPartial
  Proofs.C02_Form Proofs.C02_SetCred Proofs.C02_SetCredCanon Proofs.C02_QPort Proofs.C02_Reach3
  Proofs.C06_Agree Proofs.C06_AgreeUrl Proofs.C06_Splice Proofs.C06_SpliceAuth Proofs.C06_SpliceCred
  Proofs.C06_SplicePath Proofs.C06_SpliceHost.
Open Scope N_scope.
Open Scope list_scope.

Section All.
Variable dbg : bool.
Variable hp hpo : list N -> result host.
Variable hd : host -> list N.
Hypothesis HRT : HostRT hp hpo hd.
Hypothesis HAb : host_above hp hpo hd.

Notation Canon := (Canon hp hpo hd).

(* ---------- the histories ---------- *)
Inductive ReachC6 : url -> Prop :=
| RC6_parse ovr input u :
    usv_list input -> nonfile_input input = true -> (ovr = None \/ special_input input = false) ->
    parse_url dbg hp hpo hd ovr None input = POk u -> ReachC6 u
| RC6_join ovr b input u :
    ReachC6 b -> usv_list input -> tail_ref input = true ->
    (ovr = None \/ st_is_special (scheme_type_of (b_scheme b)) = false) ->
    parse_url dbg hp hpo hd ovr (Some b) input = POk u -> ReachC6 u
| RC6_step u o u' :
    ReachC6 u -> canon_op o = true -> op_args_ok o -> apply_op dbg hp hpo hd u o = Some u' ->
    nlen (ser u') <= U32_MAX_P -> ReachC6 u'
| RC6_qpm u ops u' :
    ReachC6 u -> Forall op_ok ops -> query_pairs_session dbg u ops = Some u' ->
    nlen (ser u') <= U32_MAX_P -> ReachC6 u'
| RC6_path u x u' :
    ReachC6 u -> has_authority_b u = true -> usv_list x -> forallb no_qh x = true -> path_arg_ok (sp_of u) x ->
    set_path dbg u x = Some u' -> nlen (ser u') <= U32_MAX_P -> ReachC6 u'
| RC6_host u x u' :
    ReachC6 u -> has_authority_b u = true -> forallb (hostarg (sp_of u)) x = true ->
    set_host dbg hp hpo hd u (Some x) = Some (u', SOk) -> empty_host_ok u u' ->
    nlen (ser u') <= U32_MAX_P -> ReachC6 u'.

Lemma ReachC2_C6 u : ReachC2 dbg hp hpo hd u -> ReachC6 u.
Proof.
  induction 1 as [ovr input u Hu Hn Hov Hp | ovr b input u Hr IH Hu Ht Hov Hp | u o u' Hr IH Ht Ha Ho Hb
                 | u ops u' Hr IH Hops Hs Hb].
  - exact (RC6_parse ovr input u Hu Hn Hov Hp).
  - exact (RC6_join ovr b input u IH Hu Ht Hov Hp).
  - exact (RC6_step u o u' IH Ht Ha Ho Hb).
  - exact (RC6_qpm u ops u' IH Hops Hs Hb).
Qed.

(* one step of a canonical operation keeps Canon (the case analysis of C02_Reach3.ReachC2_Canon) *)
Lemma canon_step u o u' : Canon u -> canon_op o = true -> op_args_ok o -> apply_op dbg hp hpo hd u o = Some u' ->
  nlen (ser u') <= U32_MAX_P -> Canon u'.
Proof.
  intros IH Ht Ha Ho Hb.
  destruct o; try discriminate Ht; cbn [apply_op op_args_ok] in *.
  - exact (set_fragment_Canon dbg hp hpo hd HRT u f u' IH Ha Ho Hb).
  - exact (set_query_Canon dbg hp hpo hd HRT u q u' IH Ha Ho Hb).
  - destruct (option_map_fst_some _ _ Ho) as [s Es].
    exact (set_port_Canon dbg hp hpo hd u p u' s IH Ha Es Hb).
  - destruct (option_map_fst_some _ _ Ho) as [s Es].
    exact (set_password_Canon dbg hp hpo hd u p u' s IH Ha Es Hb).
  - destruct (option_map_fst_some _ _ Ho) as [s0 Es].
    exact (set_username_Canon dbg hp hpo hd u s u' s0 IH Ha Es Hb).
  - destruct (option_map_fst_some _ _ Ho) as [s0 Es]. unfold q_set_username in Es.
    exact (set_username_Canon dbg hp hpo hd u s u' s0 IH Ha Es Hb).
  - destruct (option_map_fst_some _ _ Ho) as [s0 Es]. unfold q_set_password in Es.
    apply (set_password_Canon dbg hp hpo hd u _ u' s0 IH) in Es; [exact Es | | exact Hb].
    destruct s; [exact I | exact Ha].
  - destruct (option_map_fst_some _ _ Ho) as [s0 Es].
    exact (q_set_port_Canon dbg hp hpo hd u s u' s0 IH Es Hb).
  - unfold q_set_search in Ho. apply (set_query_Canon dbg hp hpo hd HRT u _ u' IH) in Ho; [exact Ho | | exact Hb].
    destruct s as [|c r]; [exact I|]. assert (usv_list r) as Hr' by (apply usv_cons in Ha; tauto).
    destruct c as [|pp]; [exact Ha|]. do 7 (try (destruct pp as [pp|pp|]; try exact Ha)). exact Hr'.
  - unfold q_set_hash in Ho. apply (set_fragment_Canon dbg hp hpo hd HRT u _ u' IH) in Ho; [exact Ho | | exact Hb].
    destruct s as [|c r]; [exact I|]. assert (usv_list r) as Hr' by (apply usv_cons in Ha; tauto).
    destruct c as [|pp]; [exact Ha|]. do 7 (try (destruct pp as [pp|pp|]; try exact Ha)). exact Hr'.
Qed.

Theorem ReachC6_Canon u : ReachC6 u -> Canon u.
Proof.
  induction 1 as [ovr input u Hu Hn Hov Hp | ovr b input u Hr IH Hu Ht Hov Hp | u o u' Hr IH Ht Ha Ho Hb
                 | u ops u' Hr IH Hops Hs Hb | u x u' Hr IH Hau Hx Hq Hpa E Hb | u x u' Hr IH Hau Hxa E Hemp Hb].
  - exact (parse_Canon dbg hp hpo hd HRT ovr input u HAb Hu Hn Hov Hp).
  - exact (join_tail_Canon dbg hp hpo hd HRT ovr b input u IH Hu Ht Hov Hp).
  - exact (canon_step u o u' IH Ht Ha Ho Hb).
  - exact (qpm_Canon dbg hp hpo hd HRT u ops u' IH Hops Hs Hb).
  - exact (set_path_Canon dbg hp hpo hd HRT u x u' IH Hau Hx Hq Hpa E Hb).
  - exact (set_host_Canon dbg hp hpo hd HRT HAb u x u' IH Hau Hxa E Hemp Hb).
Qed.

(* ---------- a canonical record satisfies the invariant of the C06 theorems and the premise of the path theorems ---------- *)
Lemma Canon_host_text_ok u : Canon u -> C06_Suffix.host_text_ok u.
Proof.
  intros [sch P q f K | sch segs last q f K | sch ui h pt p q f K | sch ui h pt p q f K Kp]; unfold C06_Suffix.host_text_ok, has_host.
  - cbn [hosti opaque_url]. discriminate.
  - cbn [hosti noauth_url]. discriminate.
  - intros Hh. assert (h <> HDomain []) as Hne by (intros ->; discriminate Hh).
    destruct (hd_head hp hpo hd STNotSpecial h (ak_h _ _ _ _ _ _ _ _ _ _ _ K) Hne) as (c & r & Ehd & H58 & H64).
    rewrite (auth_url_hpu hd). unfold hp_url, qf_url. cbn [host_start host_end ser]. rewrite (nlen_app _ (hd h)).
    split; [rewrite Ehd, nlen_cons; lia|].
    rewrite <- !(app_assoc ((sch ++ s_css) ++ ui_text ui)). rewrite <- !(app_assoc (hd h)). rewrite Ehd. cbn [app].
    rewrite !(byte_eqb_head _ _ _ _ eq_refl). cbn [head_is]. split; apply N.eqb_neq; assumption.
  - intros Hh. assert (h <> HDomain []) as Hne by (intros ->; discriminate Hh).
    destruct (hd_head hp hpo hd STSpecialNotFile h (ak_h _ _ _ _ _ _ _ _ _ _ _ K) Hne) as (c & r & Ehd & H58 & H64).
    rewrite (auth_url_hpu hd). unfold hp_url, qf_url. cbn [host_start host_end ser]. rewrite (nlen_app _ (hd h)).
    split; [rewrite Ehd, nlen_cons; lia|].
    rewrite <- !(app_assoc ((sch ++ s_css) ++ ui_text ui)). rewrite <- !(app_assoc (hd h)). rewrite Ehd. cbn [app].
    rewrite !(byte_eqb_head _ _ _ _ eq_refl). cbn [head_is]. split; apply N.eqb_neq; assumption.
Qed.

Theorem Canon_wfh u : Canon u -> wfh u.
Proof. intros C. split; [exact (proj1 (proj2 (Canon_fixpoint dbg hp hpo hd HRT u C))) | exact (Canon_host_text_ok u C)]. Qed.

Theorem Canon_auth_end_ok u : Canon u -> auth_end_ok u.
Proof.
  intros [sch P q f K | sch segs last q f K | sch ui h pt p q f K | sch ui h pt p q f K Kp].
  - unfold auth_end_ok. cbn [scheme_end ser opaque_url]. unfold opaque_ser, opaque_pre. rewrite <- !app_assoc. rewrite nfirstn_app_len.
    rewrite (ok_ns _ _ _ _ K). discriminate.
  - unfold auth_end_ok. cbn [scheme_end ser noauth_url]. unfold noauth_ser, noauth_pre. rewrite <- !app_assoc. rewrite nfirstn_app_len.
    rewrite (nk_ns _ _ _ _ _ K). discriminate.
  - exact (auth_end_ok_auth hp hpo hd STNotSpecial sch ui h pt p q f K eq_refl).
  - exact (auth_end_ok_auth hp hpo hd STSpecialNotFile sch ui h pt p q f K eq_refl).
Qed.

(* ---------- every canonical record, every call ---------- *)
Let HF : host_fns_ok hp hpo hd := HostWf_fns_ok hp hpo hd (HostRT_HostWf hp hpo hd HRT).

(* set_fragment(Some x) *)
Theorem all_set_fragment u x u' : Canon u -> usv_list x -> set_fragment dbg u (Some x) = Some u' -> nlen (ser u') <= U32_MAX_P ->
  Canon u' /\ unchanged_but_fragment dbg u u' /\ path u' = path u
  /\ fragment dbg u' = Some (Some (tnl_text T_FRAGMENT x))
  /\ (first_ok (rev (35 :: x)) -> parse_url dbg hp hpo hd None None (splice_fragment u x) = POk u').
Proof.
  intros C Hx E Hb. pose proof (Canon_wfh u C) as Hw.
  destruct (frame_all dbg hp hpo hd u Hw) as (F1 & _). destruct (get_all dbg hd u Hw) as (G1 & _).
  destruct (F1 (Some x) u' E) as [A B].
  split; [exact (set_fragment_Canon dbg hp hpo hd HRT u (Some x) u' C Hx E Hb)|].
  split; [exact A|]. split; [exact B|]. split; [exact (G1 (Some x) u' E)|].
  intros Hl. exact (splice_agreement_set_fragment dbg hp hpo hd HRT u x u' C Hx Hl E Hb).
Qed.

(* set_query(Some x) *)
Theorem all_set_query u x u' : Canon u -> usv_list x -> set_query dbg u (Some x) = Some u' -> nlen (ser u') <= U32_MAX_P ->
  Canon u' /\ unchanged_but_query dbg u u' /\ path u' = path u
  /\ query dbg u' = Some (Some (query_text u x))
  /\ (no_hash x = true -> (fragment_start u = None -> first_ok (rev (63 :: x))) ->
      parse_url dbg hp hpo hd None None (splice_query u x) = POk u').
Proof.
  intros C Hx E Hb. pose proof (Canon_wfh u C) as Hw.
  destruct (frame_all dbg hp hpo hd u Hw) as (_ & F2 & _). destruct (get_all dbg hd u Hw) as (_ & G2 & _).
  destruct (F2 (Some x) u' Hx E) as [A B].
  split; [exact (set_query_Canon dbg hp hpo hd HRT u (Some x) u' C Hx E Hb)|].
  split; [exact A|]. split; [exact B|]. split; [exact (G2 (Some x) u' Hx E)|].
  intros Hh Hl. exact (splice_agreement_set_query dbg hp hpo hd HRT u x u' C Hx Hh Hl E Hb).
Qed.

(* set_port(Some n) *)
Theorem all_set_port u n u' : Canon u -> n <= 65535 -> set_port dbg u (Some n) = Some (u', SOk) -> nlen (ser u') <= U32_MAX_P ->
  Canon u' /\ same_ids dbg u u' /\ same_back dbg u u'
  /\ (exists sch, scheme u = Some sch /\ port u' = norm_port sch (Some n))
  /\ parse_url dbg hp hpo hd None None (splice_port u n) = POk u'.
Proof.
  intros C Hn E Hb. pose proof (Canon_wfh u C) as Hw.
  destruct (frame_all dbg hp hpo hd u Hw) as (_ & _ & F3 & _). destruct (get_all dbg hd u Hw) as (_ & _ & G3 & _).
  destruct (F3 (Some n) u' Hn E) as [A B].
  split; [exact (set_port_Canon dbg hp hpo hd u (Some n) u' SOk C Hn E Hb)|].
  split; [exact A|]. split; [exact B|]. split; [exact (G3 (Some n) u' Hn E)|].
  exact (splice_agreement_set_port dbg hp hpo hd HRT u n u' C Hn E Hb).
Qed.

(* set_password(Some y) *)
Theorem all_set_password u y u' : Canon u -> usv_list y -> set_password dbg u (Some y) = Some (u', SOk) -> nlen (ser u') <= U32_MAX_P ->
  Canon u'
  /\ (scheme u' = scheme u /\ username dbg u' = username dbg u /\ host_str u' = host_str u /\ port u' = port u /\ same_back dbg u u')
  /\ password dbg u' = Some (match y with c :: r => Some (userinfo_enc (c :: r)) | [] => None end)
  /\ (y <> [] -> forallb (plainc (sp_of u)) y = true -> parse_url dbg hp hpo hd None None (splice_password u y) = POk u').
Proof.
  intros C Hy E Hb. pose proof (Canon_wfh u C) as Hw.
  destruct (frame_all dbg hp hpo hd u Hw) as (_ & _ & _ & F4 & _). destruct (get_all dbg hd u Hw) as (_ & _ & _ & G4 & _).
  split; [exact (set_password_Canon dbg hp hpo hd u (Some y) u' SOk C Hy E Hb)|].
  split; [exact (F4 (Some y) u' E)|]. split; [exact (G4 (Some y) u' E)|].
  intros Hne Hpl. exact (splice_agreement_set_password dbg hp hpo hd HRT u y u' C Hy Hne Hpl E Hb).
Qed.

(* set_username(x) *)
Theorem all_set_username u x u' : Canon u -> usv_list x -> set_username dbg u x = Some (u', SOk) -> nlen (ser u') <= U32_MAX_P ->
  Canon u'
  /\ (scheme u' = scheme u /\ password dbg u' = password dbg u /\ host_str u' = host_str u /\ port u' = port u /\ same_back dbg u u')
  /\ (exists cur, username dbg u = Some cur
        /\ username dbg u' = Some (if list_eqb cur (utf8_encode x) then cur else userinfo_enc x))
  /\ (forallb (fun c => plainc (sp_of u) c && negb (c =? 58)) x = true ->
      parse_url dbg hp hpo hd None None (splice_username u x) = POk u').
Proof.
  intros C Hx E Hb. pose proof (Canon_wfh u C) as Hw.
  destruct (frame_all dbg hp hpo hd u Hw) as (_ & _ & _ & _ & F5 & _). destruct (get_all dbg hd u Hw) as (_ & _ & _ & _ & G5 & _).
  split; [exact (set_username_Canon dbg hp hpo hd u x u' SOk C Hx E Hb)|].
  split; [exact (F5 x u' E)|]. split; [exact (G5 x u' E)|].
  intros Hpl. exact (splice_agreement_set_username dbg hp hpo hd HRT u x u' C Hx Hpl E Hb).
Qed.

(* set_path(x) on a URL with an authority *)
Theorem all_set_path u x u' : Canon u -> has_authority_b u = true -> usv_list x -> set_path dbg u x = Some u' ->
  nlen (ser u') <= U32_MAX_P ->
  wfh u' /\ same_front dbg u u' /\ query dbg u' = query dbg u /\ fragment dbg u' = fragment dbg u
  /\ (exists P, path u' = Some P /\ new_path_ok P)
  /\ (forallb no_qh x = true -> path_arg_ok (sp_of u) x ->
      Canon u'
      /\ ((query_start u = None -> fragment_start u = None -> first_ok (rev x)) ->
          parse_url dbg hp hpo hd None None (splice_path u x) = POk u')).
Proof.
  intros C Hau Hx E Hb. pose proof (Canon_wfh u C) as Hw.
  destruct (path_all dbg u Hw Hau) as (P1 & _).
  destruct (P1 x u' Hx (Canon_auth_end_ok u C) E) as (W' & A & B & D & (P & HP1 & HP2 & _)).
  split; [exact W'|]. split; [exact A|]. split; [exact B|]. split; [exact D|]. split; [exists P; split; assumption|].
  intros Hq Hpa. split; [exact (set_path_Canon dbg hp hpo hd HRT u x u' C Hau Hx Hq Hpa E Hb)|].
  intros Hl. exact (splice_agreement_set_path dbg hp hpo hd HRT u x u' C Hau Hx Hq Hpa Hl E Hb).
Qed.

Lemma hostarg_arg_text sp x : forallb (hostarg sp) x = true -> set_host_arg_text x = Some x.
Proof.
  intros H. unfold set_host_arg_text. rewrite (not_bracketed sp x H).
  unfold find_byte. rewrite (find_byte_aux_none 58 x 0 (hostarg_58 sp x H)). reflexivity.
Qed.

(* set_host(Some x) on a URL with an authority *)
Theorem all_set_host u x u' : Canon u -> has_authority_b u = true -> forallb (hostarg (sp_of u)) x = true ->
  set_host dbg hp hpo hd u (Some x) = Some (u', SOk) -> empty_host_ok u u' -> nlen (ser u') <= U32_MAX_P ->
  Canon u'
  /\ (exists h, (if sp_of u then hp x else hpo x) = Ok h /\ host_set_post dbg hd u u' h)
  /\ (usv_list x -> (nskipn (host_end u) (ser u) = [] -> first_ok (rev x)) ->
      parse_url dbg hp hpo hd None None (splice_host u x) = POk u').
Proof.
  intros C Hau Hxa E Hemp Hb. pose proof (Canon_wfh u C) as Hw.
  split; [exact (set_host_Canon dbg hp hpo hd HRT HAb u x u' C Hau Hxa E Hemp Hb)|].
  split; [|intros Hx Hl; exact (splice_agreement_set_host dbg hp hpo hd HRT HAb u x u' C Hau Hx Hxa Hl E Hemp Hb)].
  destruct (set_host_some_post dbg hp hpo hd HF u x u' (proj1 Hw)) as (sch0 & t & h0 & Hs & Ht & Hh & Hpost);
    [intros Hna; rewrite Hna in Hau; discriminate Hau | exact E |].
  rewrite (hostarg_arg_text _ x Hxa) in Ht. inversion Ht; subst t.
  assert (sp_of u = st_is_special (scheme_type_of sch0)) as Esp.
  { unfold sp_of. unfold scheme, u_slice_to, slice_to_o in Hs. destruct (scheme_end u <=? nlen (ser u)); [|discriminate Hs].
    inversion Hs. reflexivity. }
  exists h0. rewrite Esp. split; [exact Hh|]. 
  (* the premise of the post-condition: an empty new host means no port (empty_host_ok); the host kind of the
     result is the kind of h0 in every case - read off the canonical record *)
  destruct (Canon_auth_cases hp hpo hd u C Hau) as (st & sch & ui & h & pt & p & q & f & Eu & K & Hc).
  subst u. rewrite (sp_of_auth hp hpo hd _ _ _ _ _ _ _ _ K) in Hxa.
  destruct (set_host_auth dbg hp hpo hd HRT st sch ui h pt p q f x u' K (auth_cls_nf st p Hc) Hxa E) as (h' & Ehp & _ & Eu').
  rewrite (auth_scheme hd) in Hs. inversion Hs; subst sch0. rewrite (ak_st _ _ _ _ _ _ _ _ _ _ _ K) in Hh.
  rewrite Ehp in Hh. inversion Hh; subst h0.
  apply Hpost. intros _ Hi. subst u'. destruct (Hemp Hi) as (_ & _ & Hp0). exact Hp0.
Qed.

End All.

(* ================= the assembled statement ================= *)
(* what holds of every call on a record u (all seven: result canonical again - so the statement applies along
   histories -, frame, get-after-set, and parser agreement for arguments in the stated classes) *)
Definition all_calls (dbg : bool) (hp hpo : list N -> result host) (hd : host -> list N) (u : url) : Prop :=
  (forall x u', usv_list x -> set_fragment dbg u (Some x) = Some u' -> nlen (ser u') <= U32_MAX_P ->
     Canon hp hpo hd u' /\ unchanged_but_fragment dbg u u' /\ path u' = path u
     /\ fragment dbg u' = Some (Some (tnl_text T_FRAGMENT x))
     /\ (first_ok (rev (35 :: x)) -> parse_url dbg hp hpo hd None None (splice_fragment u x) = POk u'))
  /\ (forall x u', usv_list x -> set_query dbg u (Some x) = Some u' -> nlen (ser u') <= U32_MAX_P ->
     Canon hp hpo hd u' /\ unchanged_but_query dbg u u' /\ path u' = path u
     /\ query dbg u' = Some (Some (query_text u x))
     /\ (no_hash x = true -> (fragment_start u = None -> first_ok (rev (63 :: x))) ->
         parse_url dbg hp hpo hd None None (splice_query u x) = POk u'))
  /\ (forall n u', n <= 65535 -> set_port dbg u (Some n) = Some (u', SOk) -> nlen (ser u') <= U32_MAX_P ->
     Canon hp hpo hd u' /\ same_ids dbg u u' /\ same_back dbg u u'
     /\ (exists sch, scheme u = Some sch /\ port u' = norm_port sch (Some n))
     /\ parse_url dbg hp hpo hd None None (splice_port u n) = POk u')
  /\ (forall y u', usv_list y -> set_password dbg u (Some y) = Some (u', SOk) -> nlen (ser u') <= U32_MAX_P ->
     Canon hp hpo hd u'
     /\ (scheme u' = scheme u /\ username dbg u' = username dbg u /\ host_str u' = host_str u /\ port u' = port u
         /\ same_back dbg u u')
     /\ password dbg u' = Some (match y with c :: r => Some (userinfo_enc (c :: r)) | [] => None end)
     /\ (y <> [] -> forallb (plainc (sp_of u)) y = true ->
         parse_url dbg hp hpo hd None None (splice_password u y) = POk u'))
  /\ (forall x u', usv_list x -> set_username dbg u x = Some (u', SOk) -> nlen (ser u') <= U32_MAX_P ->
     Canon hp hpo hd u'
     /\ (scheme u' = scheme u /\ password dbg u' = password dbg u /\ host_str u' = host_str u /\ port u' = port u
         /\ same_back dbg u u')
     /\ (exists cur, username dbg u = Some cur
           /\ username dbg u' = Some (if list_eqb cur (utf8_encode x) then cur else userinfo_enc x))
     /\ (forallb (fun c => plainc (sp_of u) c && negb (c =? 58)) x = true ->
         parse_url dbg hp hpo hd None None (splice_username u x) = POk u'))
  /\ (forall x u', has_authority_b u = true -> usv_list x -> set_path dbg u x = Some u' -> nlen (ser u') <= U32_MAX_P ->
     wfh u' /\ same_front dbg u u' /\ query dbg u' = query dbg u /\ fragment dbg u' = fragment dbg u
     /\ (exists P, path u' = Some P /\ new_path_ok P)
     /\ (forallb no_qh x = true -> path_arg_ok (sp_of u) x ->
         Canon hp hpo hd u'
         /\ ((query_start u = None -> fragment_start u = None -> first_ok (rev x)) ->
             parse_url dbg hp hpo hd None None (splice_path u x) = POk u')))
  /\ (forall x u', has_authority_b u = true -> forallb (hostarg (sp_of u)) x = true ->
     set_host dbg hp hpo hd u (Some x) = Some (u', SOk) -> empty_host_ok u u' -> nlen (ser u') <= U32_MAX_P ->
     Canon hp hpo hd u'
     /\ (exists h, (if sp_of u then hp x else hpo x) = Ok h /\ host_set_post dbg hd u u' h)
     /\ (usv_list x -> (nskipn (host_end u) (ser u) = [] -> first_ok (rev x)) ->
         parse_url dbg hp hpo hd None None (splice_host u x) = POk u')).

Theorem all_canon dbg hp hpo hd u : HostRT hp hpo hd -> host_above hp hpo hd -> Canon hp hpo hd u -> all_calls dbg hp hpo hd u.
Proof.
  intros HRT HAb C. unfold all_calls.
  split; [intros x u' H1 H2 H3; eapply all_set_fragment; eassumption|].
  split; [intros x u' H1 H2 H3; eapply all_set_query; eassumption|].
  split; [intros n u' H1 H2 H3; eapply all_set_port; eassumption|].
  split; [intros y u' H1 H2 H3; eapply all_set_password; eassumption|].
  split; [intros x u' H1 H2 H3; eapply all_set_username; eassumption|].
  split; [intros x u' H1 H2 H3 H4; eapply all_set_path; eassumption | intros x u' H1 H2 H3 H4 H5; eapply all_set_host; eassumption].
Qed.

(* C06 for every record of a ReachC6 history: a failing call leaves the record (atomic_all: every record), and a
   successful call in the classes above has frame, get-after-set, parser agreement, and stays in the class *)
Theorem all_reach dbg hp hpo hd u : HostRT hp hpo hd -> host_above hp hpo hd -> ReachC6 dbg hp hpo hd u ->
  Canon hp hpo hd u /\ wfh u /\ auth_end_ok u /\ all_calls dbg hp hpo hd u.
Proof.
  intros HRT HAb R. pose proof (ReachC6_Canon dbg hp hpo hd HRT HAb u R) as C.
  split; [exact C|]. split; [eapply Canon_wfh; eassumption|]. split; [exact (Canon_auth_end_ok hp hpo hd u C)|].
  exact (all_canon dbg hp hpo hd u HRT HAb C).
Qed.

(* C02's histories are among them *)
Theorem reach_c2_all dbg hp hpo hd u : HostRT hp hpo hd -> host_above hp hpo hd -> ReachC2 dbg hp hpo hd u ->
  Canon hp hpo hd u /\ wfh u /\ auth_end_ok u /\ all_calls dbg hp hpo hd u.
Proof. intros HRT HAb R. exact (all_reach dbg hp hpo hd u HRT HAb (ReachC2_C6 dbg hp hpo hd u R)). Qed.
