(* Proofs/C09_InstSpec.v - the Standard's host parser (Spec/WhatwgHostParse.v, assembled from the independent
   transcriptions of Spec/WhatwgHost.v) equals the host model (Model/Host.v) on every input, for both values
   of isOpaque, when both are given the same "domain to ASCII" function and that function never returns a
   forbidden domain code point (the first clause of IdnaOK: host.rs has no check of its own after IDNA, the
   deny list is an argument of the idna call). *)
From RU Require Import Base.Prelude Base.Utf8 Base.Utf8Facts Model.AsciiSet Gen.Tables Model.PercentEncoding
  Model.HostT Model.Host Spec.Whatwg Spec.WhatwgHost Spec.WhatwgHostParse
  Proofs.C14_Set Proofs.C14_Enc Proofs.C14_Views Proofs.C09_V6 Proofs.C09_V4 Proofs.C09_Wf Proofs.C09_Host
  Proofs.C09_V4spec Proofs.C09_V6spec Proofs.C09_Reject Proofs.C09_V6sim Proofs.C09_V6total Proofs.C01_EqEnc.

(* how a result of the implementation's host parsers reads as a host of the Standard: failure is failure (the
   ParseError variant is not part of the Standard); with isOpaque a Domain is an opaque host, the empty one
   the empty host *)
Definition host_to_spec (is_opaque : bool) (r : result host) : option spec_host :=
  match r with
  | Ok (HDomain d) =>
      if is_opaque then match d with [] => Some SEmpty | _ => Some (SOpaque d) end else Some (SDomain d)
  | Ok (HIpv4 a) => Some (SIpv4 a)
  | Ok (HIpv6 p) => Some (SIpv6 p)
  | Err _ => None
  end.

(* ---------- percent-decode ---------- *)
Lemma after_percent_spec h l :
  after_percent h l = if Spec.ascii_hex_digit h && Spec.ascii_hex_digit l
                      then Some (Spec.digit_value h * 16 + Spec.digit_value l) else None.
Proof.
  assert (V : forall c, hex_val c = if Spec.ascii_hex_digit c then Some (Spec.digit_value c) else None).
  { intros c. unfold hex_val, Spec.ascii_hex_digit, Spec.digit_value, Spec.ascii_digit, is_digit.
    destruct ((48 <=? c) && (c <=? 57)) eqn:E1; [reflexivity|]. cbn [orb].
    destruct ((65 <=? c) && (c <=? 70)) eqn:E2.
    - cbn [orb]. replace (c <=? 70) with true by lia. reflexivity.
    - cbn [orb]. destruct ((97 <=? c) && (c <=? 102)) eqn:E3; [|reflexivity].
      replace (c <=? 70) with false by lia. reflexivity. }
  unfold after_percent. rewrite !V. destruct (Spec.ascii_hex_digit h), (Spec.ascii_hex_digit l); reflexivity.
Qed.

Lemma decode_spec_len n : forall bs, (length bs <= n)%nat -> decode bs = spec_percent_decode bs.
Proof.
  induction n as [|n IH]; intros bs Hl.
  - destruct bs; [reflexivity | cbn in Hl; lia].
  - destruct bs as [|b r]; [reflexivity|]. cbn [decode spec_percent_decode]. cbn [length] in Hl.
    destruct (b =? 37).
    + destruct r as [|h [|l r']].
      * reflexivity.
      * reflexivity.
      * rewrite after_percent_spec. cbn [length] in Hl.
        destruct (Spec.ascii_hex_digit h && Spec.ascii_hex_digit l).
        -- f_equal. apply IH. lia.
        -- f_equal. apply IH. cbn [length]. lia.
    + f_equal. apply IH. lia.
Qed.

Theorem decode_is_spec bs : decode bs = spec_percent_decode bs.
Proof. apply (decode_spec_len (length bs)). lia. Qed.

(* ---------- the '['-led branch ---------- *)
Lemma spec_literal is_opaque idna rest :
  spec_host_parser idna is_opaque (91 :: rest) = host_to_spec is_opaque (literal_result (91 :: rest)).
Proof.
  unfold spec_host_parser, literal_result, ends_with_cp, Host.ends_with. cbn [tl].
  destruct (match rev (91 :: rest) with x :: _ => x =? 93 | [] => false end); [|reflexivity].
  destruct (Spec.ipv6_parse (removelast rest)); destruct is_opaque; reflexivity.
Qed.

Lemma starts_with_cases input :
  (exists rest, input = 91 :: rest /\ Host.starts_with 91 input = true)
  \/ (Host.starts_with 91 input = false
      /\ forall idna o, spec_host_parser idna o input =
           if o then spec_opaque_host_parse input
           else match idna (spec_percent_decode (utf8_encode input)) with
                | None => None
                | Some ascii_domain =>
                    match ascii_domain with
                    | [] => None
                    | _ => if existsb Spec.forbidden_domain_code_point ascii_domain then None
                           else if Spec.ends_in_a_number ascii_domain
                                then match Spec.ipv4_parse ascii_domain with Some a => Some (SIpv4 a) | None => None end
                                else Some (SDomain ascii_domain)
                    end
                end).
Proof.
  destruct input as [|c rest]; [right; split; [reflexivity | intros; reflexivity]|].
  destruct (c =? 91) eqn:E.
  - left. apply N.eqb_eq in E. subst c. exists rest. split; reflexivity.
  - right. split; [cbn [Host.starts_with]; exact E|]. intros idna o. unfold spec_host_parser.
    destruct c as [|p]; [reflexivity|].
    do 7 (destruct p as [p|p|]; try reflexivity). apply N.eqb_neq in E. contradiction.
Qed.

(* ---------- Host::parse_opaque ---------- *)
Theorem spec_opaque_model input : usv_list input ->
  spec_host_parser (fun _ => None) true input = host_to_spec true (host_parse_opaque input).
Proof.
  intros Hu. destruct (starts_with_cases input) as [(rest & -> & Hs)|[Hs Hsp]].
  - rewrite spec_literal. rewrite (proj2 (literal_spec (fun _ => None) _ Hs)). reflexivity.
  - rewrite Hsp. unfold spec_opaque_host_parse, host_parse_opaque, host_parse_opaque_x. rewrite Hs.
    unfold is_invalid_host_char. rewrite invalid_host_is_spec.
    destruct (existsb (fun c => memb c Spec.forbidden_host_code_points) input); [reflexivity|].
    cbn [xr_result host_to_spec]. rewrite (pe_display_bridge T_CONTROLS in_c0_control_set input rel_CONTROLS Hu).
    destruct (utf8_percent_encode in_c0_control_set input); reflexivity.
Qed.

(* ---------- Host::parse ---------- *)
Theorem spec_domain_model idna input :
  (forall bs d, idna bs = Some d -> Forall dom_char_ok d) ->
  spec_host_parser idna false input = host_to_spec false (host_parse idna input).
Proof.
  intros Hout. destruct (starts_with_cases input) as [(rest & -> & Hs)|[Hs Hsp]].
  - rewrite spec_literal. rewrite (proj1 (literal_spec idna _ Hs)). reflexivity.
  - rewrite Hsp. rewrite <- decode_is_spec. unfold host_parse, host_parse_x. rewrite Hs.
    destruct (idna (decode (utf8_encode input))) as [dom|] eqn:Ei; [|reflexivity].
    destruct dom as [|c dom']; [reflexivity|].
    assert (Hf : existsb Spec.forbidden_domain_code_point (c :: dom') = false).
    { destruct (existsb Spec.forbidden_domain_code_point (c :: dom')) eqn:E; [|reflexivity].
      apply existsb_exists in E. destruct E as (x & Hx & Hfx). pose proof (Hout _ _ Ei) as Ho.
      rewrite Forall_forall in Ho. destruct (dom_char_facts x (Ho x Hx)) as (_ & _ & Hnf & _). congruence. }
    rewrite Hf. rewrite <- ends_in_a_number_spec.
    destruct (Host.ends_in_a_number (c :: dom')); [|reflexivity].
    rewrite parse_ipv4addr_spec by discriminate.
    destruct (Spec.ipv4_parse (c :: dom')); reflexivity.
Qed.

(* the two together, relative to IdnaOK *)
Theorem spec_host_parser_model idna input : IdnaOK idna ->
  spec_host_parser idna false input = host_to_spec false (host_parse idna input)
  /\ (usv_list input -> spec_host_parser idna true input = host_to_spec true (host_parse_opaque input)).
Proof.
  intros OK. split; [exact (spec_domain_model idna input (idna_out idna OK))|].
  intros Hu. rewrite <- (spec_opaque_model input Hu).
  destruct (starts_with_cases input) as [(rest & -> & _)|[_ Hsp]].
  - rewrite !spec_literal. reflexivity.
  - rewrite !Hsp. reflexivity.
Qed.

(* without the premise the two differ exactly by the Standard's forbidden-domain-code-point check: an oracle
   that returns "a b" (with a space) makes the model accept what the Standard refuses *)
Example spec_domain_needs_premise :
  let idna := fun _ : list N => Some [97; 32; 98] in
  spec_host_parser idna false [120] = None /\ host_parse idna [120] = Ok (HDomain [97; 32; 98]).
Proof. vm_compute. split; reflexivity. Qed.

(* the serializers agree on everything the parsers return *)
Definition spec_of_host (is_opaque : bool) (h : host) : spec_host :=
  match h with
  | HDomain d => if is_opaque then match d with [] => SEmpty | _ => SOpaque d end else SDomain d
  | HIpv4 a => SIpv4 a
  | HIpv6 p => SIpv6 p
  end.

Lemma dec_is_dec_u8_sweep : all_below 256 (fun x => list_eqb (dec x) (dec_u8 x)) = true.
Proof. vm_compute. reflexivity. Qed.

Lemma dec_is_dec_u8 x : x < 256 -> dec x = dec_u8 x.
Proof.
  intros H. pose proof (all_below_spec 256 _ dec_is_dec_u8_sweep x H) as S. cbv beta in S.
  apply list_eqb_spec. exact S.
Qed.

Theorem spec_serializer_model is_opaque h :
  match h with
  | HIpv4 a => a < 4294967296
  | HIpv6 p => length p = 8%nat /\ Forall (fun x => x < 65536) p
  | HDomain _ => True
  end ->
  spec_host_serializer (spec_of_host is_opaque h) = host_display h.
Proof.
  destruct h as [d|a|p]; intros Hw.
  - cbn [spec_of_host]. destruct is_opaque; [destruct d|]; reflexivity.
  - cbn [spec_of_host spec_host_serializer host_display]. unfold spec_ipv4_serialize, ipv4_display.
    rewrite !dec_is_dec_u8 by lia. reflexivity.
  - cbn [spec_of_host spec_host_serializer host_display]. rewrite (write_ipv6_spec p Hw). reflexivity.
Qed.
